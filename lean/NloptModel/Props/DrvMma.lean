import NloptModel.Model.MmaDriver
import NloptModel.Lemmas.MmaDrvLemmas
/-!
# Theorems about the control flow of `mma_minimize` / `ccsa_quadratic_minimize` (model: `Nlopt.MmaDrv`)

All statements are for EVERY configuration (both drivers), EVERY event list and EVERY `Arith`, by induction over the
event list.  "Consumed events" = `evs.take nevents`; "processed events" = `evs.take nproc` (all callbacks made, incumbent
rule applied; `nproc` is `nevents`, or `nevents - 1` when the last consumed event was cut short).

* T1 `nevals_le_maxeval`        maxeval > 0 → nevals ≤ maxeval (exact: no overshoot); attained (`nevals_bound_attained`)
* T2 `forced_stop`              the first event during which the stop is raised is the last one consumed; ret = -5, except
                                that a stop raised in a CONSTRAINT callback position is pre-empted by the NaN guard (-4) when
                                `fcur` or `dd.gval` is NaN (then the constraint callbacks are not made at all)
* T3 `returned_pair`            every return (any code, also short): `(x, *minf) = (e.x, e.f)` for a consumed evaluation e
     `returned_pair_success`    ret > 0 or ret = -4: same; for ret > 0 the event is a processed one
* T4 `incumbent_allowed`       the returned pair belongs to a processed event e, and if the flag `feasible` is set then e has
                                no positive constraint value, or is feasible within the tolerances, or was allowed by
                                `inner_done` (e.consF, or the inner_maxeval cap is in force)
     `best_feasible_partial`    if `x0` has `feasible = 1` and (MMA) no constraint value is NaN: on every return the flag
                                `feasible` is set and NO processed event that is feasible within the tolerances has f < *minf
     `best_feasible_full_false` without "x0 feasible" this is FALSE (witness: a strictly feasible point with LARGER f replaces
                                a point that is feasible within a positive tolerance)
     `returned_feasible_full_false`  "the returned point of a run started at a feasible x0 is feasible within tolerance" is
                                FALSE: a point allowed by `inner_done` is accepted with violated constraints, `feasible`
                                stays set and the run returns MINF_MAX_REACHED (2) with it
* T5 `stopval_strict`           ret = 2 → the returned pair is the LAST consumed event, it was processed, the flag `feasible`
                                is set, `*minf < stopval` (strict) and the event is allowed in the sense of T4
* extras: `ret_codes`, `nevents_le`, `short_consumes_all`, `run_prefix`, `step_choice` (soundness of the search mode).
-/
set_option linter.unusedSimpArgs false
set_option linter.unusedVariables false
namespace Nlopt.DrvMma
open Nlopt Nlopt.MmaDrv

/-! ## shape of every run -/

/-- the events run out (`short`), or the run ends at some event `e` which makes the driver return or is malformed -/
theorem run_cases (A : Arith) (c : Cfg) (evs : List Ev) :
    (∃ s', Inv c evs s' ∧ run A c evs = s'.res 0 true false) ∨
    (∃ pre e rest sp, evs = pre ++ e :: rest ∧ Inv c pre sp ∧
      ((∃ r s', step A c sp e = .done r s' ∧ run A c evs = s'.res r false false) ∨
       (step A c sp e = .bad ∧ run A c evs = sp.res 0 false true))) := by
  have := go_induct A c (Inv c) (fun done s e s' h hs => inv_step h hs) evs [] (St.init c) (inv_start c)
  simpa [run] using this

theorem take_consumed {evs l rest : List Ev} {n : Nat} (h : evs = l ++ rest) (hn : n = l.length) : evs.take n = l := by
  subst h; subst hn; simp

theorem take_snoc {pre rest : List Ev} {e : Ev} {n : Nat} (hn : n = pre.length + 1) :
    (pre ++ e :: rest).take n = pre ++ [e] := by
  have : pre ++ e :: rest = (pre ++ [e]) ++ rest := by simp
  rw [this]; exact take_consumed rfl (by simp [hn])

theorem cut_codes {c : Cfg} {e : Ev} {r : Int} (h : cut c e = some r) :
    r = -5 ∨ (r = -4 ∧ e.stop ≠ 1 ∧ (e.f.isNaN = true ∨ e.gvalNaN = true)) := by
  unfold cut at h
  split at h
  · injection h with h; exact Or.inl h.symm
  next h1 =>
    split at h
    next h2 =>
      injection h with h
      exact Or.inr ⟨h.symm, h1, by simpa using h2⟩
    · split at h
      · injection h with h; exact Or.inl h.symm
      · cases h

/-- what the memory looks like when the driver returns at event `e` from a state satisfying the invariant -/
theorem done_facts {A : Arith} {c : Cfg} {pre : List Ev} {sp : St} {e : Ev} {r : Int} {s' : St}
    (hinv : Inv c pre sp) (hst : step A c sp e = .done r s') :
    s'.cnt = pre.length + 1 ∧ s'.started = true ∧ s'.nev ≤ pre.length + 1 ∧
    (c.stop.maxeval > 0 → (s'.nev : Int) ≤ c.stop.maxeval) ∧
    (∃ e' ∈ pre ++ [e], e'.isFail = false ∧ s'.x = e'.x ∧ s'.minf = e'.f) ∧
    ((s'.nproc = pre.length + 1 ∧ Core c (pre ++ [e]) s') ∨
     (s'.nproc = pre.length ∧ (r = -5 ∨ r = -4 ∨ (e.isFail = true ∧ r = e.dual)) ∧ (pre ≠ [] → Core c pre s'))) := by
  obtain ⟨hcnt, hnev, hnp, hall, hns, hstd⟩ := hinv
  rcases step_done_shape hst with ⟨h0, hx, hf, ⟨hcb, hr, hs'⟩ | ⟨hcb, hl, hs'⟩⟩ |
    ⟨h1, ⟨hf, hr, hs'⟩ | ⟨hf, hc, hs'⟩ | ⟨hf, hc, hv, hs'⟩⟩
  · -- forced stop after a callback of the first event
    obtain ⟨hd, hsi⟩ := hns h0
    subst hd; subst hs'
    refine ⟨rfl, rfl, by simp [bumpInit], ?_, ⟨e, by simp, hf, by simp [bumpInit, hx], rfl⟩,
      Or.inr ⟨?_, Or.inl hr, by simp⟩⟩
    · intro hm; simp [bumpInit]; omega
    · simp [bumpInit, hnp]
  · -- the first event, processed
    obtain ⟨hd, hsi⟩ := hns h0
    subst hd; subst hs'
    refine ⟨rfl, rfl, by simp, ?_, ⟨e, by simp, hf, by simp [hx], rfl⟩, Or.inl ⟨rfl, by simpa using core_procInit hx⟩⟩
    intro hm; simp; omega
  · -- dual failure
    obtain ⟨hne, hcore, hbud, hsv⟩ := hstd h1
    subst hs'
    obtain ⟨_, ⟨e0, he0, hi⟩, hb⟩ := hcore
    refine ⟨by simp [hcnt], h1, by simp [hnev], ?_, ⟨e0, by simp [he0], (hall e0 he0).2, hi.1, hi.2.1⟩,
      Or.inr ⟨hnp, Or.inr (Or.inr ⟨hf, hr⟩), fun _ => ⟨h1, ⟨e0, he0, hi⟩, hb⟩⟩⟩
    intro hm; have := hbud hm; simp; omega
  · -- the event is cut short
    obtain ⟨hne, hcore, hbud, hsv⟩ := hstd h1
    subst hs'
    obtain ⟨_, ⟨e0, he0, hi⟩, hb⟩ := hcore
    refine ⟨by simp [hcnt], by simpa using h1, by simp [hnev], ?_, ⟨e0, by simp [he0], (hall e0 he0).2, hi.1, hi.2.1⟩,
      Or.inr ⟨by simp [hnp], ?_, fun _ => ⟨by simpa using h1, ⟨e0, he0, hi⟩, hb⟩⟩⟩
    · intro hm; have := hbud hm; simp; omega
    · rcases cut_codes hc with h | h
      · exact Or.inl h
      · exact Or.inr (Or.inl h.1)
  · -- processed
    obtain ⟨hne, hcore, hbud, hsv⟩ := hstd h1
    subst hs'
    have hcore' := core_proc e hne hcore
    obtain ⟨_, ⟨e0, he0, hi⟩, _⟩ := hcore'
    have hf0 : e0.isFail = false := by
      simp at he0
      rcases he0 with he0 | he0
      · exact (hall e0 he0).2
      · subst he0; exact hf
    refine ⟨by simp [hcnt], by simpa using h1, by simp [hnev], ?_, ⟨e0, he0, hf0, hi.1, hi.2.1⟩,
      Or.inl ⟨by simp [hnp], core_proc e hne hcore⟩⟩
    intro hm; have := hbud hm; simp; omega

/-- the memory the driver returns from, the consumed events (`take cnt`) and the processed events (`take nproc`) -/
theorem run_final (A : Arith) (c : Cfg) (evs : List Ev) :
    ∃ sf ret sh mal, run A c evs = sf.res ret sh mal ∧ sf.nproc ≤ sf.cnt ∧ sf.cnt ≤ evs.length ∧
      (sf.cnt ≥ 1 → sf.started = true ∧ ∃ e ∈ evs.take sf.cnt, e.isFail = false ∧ sf.x = e.x ∧ sf.minf = e.f) ∧
      (sf.nproc ≥ 1 → Core c (evs.take sf.nproc) sf) ∧
      (ret > 0 → ret ≠ 6 → sf.nproc = sf.cnt) ∧
      (c.stop.maxeval > 0 → (sf.nev : Int) ≤ c.stop.maxeval) := by
  rcases run_cases A c evs with ⟨s', hm, hr⟩ | ⟨pre, e, rest, sp, hes, hm, ⟨r, s', hst, hr⟩ | ⟨hst, hr⟩⟩
  · obtain ⟨hcnt, hnev, hnp, hall, hns, hstd⟩ := hm
    refine ⟨s', 0, true, false, hr, by omega, by omega, ?_, ?_, by omega, ?_⟩
    · intro h1
      cases hs : s'.started with
      | false => have := (hns hs).1; subst this; simp at hcnt; omega
      | true =>
        obtain ⟨_, ⟨_, ⟨e0, he0, hi⟩, _⟩, _, _⟩ := hstd hs
        refine ⟨rfl, e0, ?_, (hall e0 he0).2, hi.1, hi.2.1⟩
        rw [hcnt, List.take_length]; exact he0
    · intro h1
      cases hs : s'.started with
      | false => have := (hns hs).1; subst this; simp at hnp; omega
      | true => rw [hnp, List.take_length]; exact (hstd hs).2.1
    · intro hmx
      cases hs : s'.started with
      | false => have := (hns hs).2; subst this; simp [St.init]; omega
      | true => have := (hstd hs).2.2.1 hmx; omega
  · obtain ⟨h1, h2, h3, h4, ⟨e0, he0, hf0, hx0, hm0⟩, h6⟩ := done_facts hm hst
    have htake : evs.take s'.cnt = pre ++ [e] := by rw [hes]; exact take_snoc h1
    refine ⟨s', r, false, false, hr, ?_, by rw [h1, hes]; simp, ?_, ?_, ?_, h4⟩
    · rcases h6 with ⟨h6, _⟩ | ⟨h6, _⟩ <;> omega
    · intro _; exact ⟨h2, e0, by rw [htake]; exact he0, hf0, hx0, hm0⟩
    · intro hp
      rcases h6 with ⟨h6, hc⟩ | ⟨h6, _, hc⟩
      · rw [h6, ← h1, htake]; exact hc
      · have hne : pre ≠ [] := by intro hh; subst hh; simp at h6; omega
        have : evs.take s'.nproc = pre := take_consumed hes h6
        rw [this]; exact hc hne
    · intro hr1 hr2
      rcases h6 with ⟨h6, _⟩ | ⟨_, h6, _⟩
      · omega
      · rcases h6 with h6 | h6 | ⟨hf, h6⟩
        · omega
        · omega
        · simp only [Ev.isFail, Bool.or_eq_true, decide_eq_true_eq] at hf
          omega
  · obtain ⟨hcnt, hnev, hnp, hall, hns, hstd⟩ := hm
    have h0 := (step_bad_shape hst).1
    obtain ⟨hd, hsi⟩ := hns h0
    subst hd; subst hsi
    refine ⟨St.init c, 0, false, true, hr, by simp [St.init], by simp [St.init], by simp [St.init], by simp [St.init],
      by omega, ?_⟩
    intro hmx; simp [St.init]; omega

/-! ## T1 — evaluation budget (C03) -/

/-- **T1.** With `maxeval > 0` the number of objective evaluations never exceeds `maxeval`: the test `nlopt_stop_evals`
    is made after every evaluation (after the incumbent rule; at the top of the first outer iteration for `x0`). -/
theorem nevals_le_maxeval (A : Arith) (c : Cfg) (evs : List Ev) (hmax : c.stop.maxeval > 0) :
    ((run A c evs).nevals : Int) ≤ c.stop.maxeval := by
  obtain ⟨sf, ret, sh, mal, hr, _, _, _, _, _, h⟩ := run_final A c evs
  rw [hr]; exact h hmax

/-- the consumed events are a prefix of the input, the processed ones a prefix of the consumed ones -/
theorem nevents_le (A : Arith) (c : Cfg) (evs : List Ev) :
    (run A c evs).nproc ≤ (run A c evs).nevents ∧ (run A c evs).nevents ≤ evs.length := by
  obtain ⟨sf, ret, sh, mal, hr, h1, h2, _⟩ := run_final A c evs
  rw [hr]; exact ⟨h1, h2⟩

/-! ## T3 — the returned pair is an evaluated pair (C02) -/

/-- **T3, general form.**  On every return after at least one consumed event (any code, also `short`): `(x, *minf)` is
    exactly `(e.x, e.f)` for a consumed evaluation event `e`. -/
theorem returned_pair (A : Arith) (c : Cfg) (evs : List Ev) (h : (run A c evs).nevents ≥ 1) :
    ∃ e ∈ evs.take (run A c evs).nevents, e.isFail = false ∧ (run A c evs).x = e.x ∧ (run A c evs).minf = some e.f := by
  obtain ⟨sf, ret, sh, mal, hr, _, _, h3, _⟩ := run_final A c evs
  rw [hr] at h ⊢
  obtain ⟨hs, e, he, hf, hx, hm⟩ := h3 h
  exact ⟨e, he, hf, hx, by simp [St.res, hs, hm]⟩

/-- a run that returned a code other than the placeholder 0 consumed at least one event -/
theorem nevents_pos_of_ret (A : Arith) (c : Cfg) (evs : List Ev) (h : (run A c evs).ret ≠ 0) :
    (run A c evs).nevents ≥ 1 ∧ (run A c evs).short = false ∧ (run A c evs).malformed = false := by
  rcases run_cases A c evs with ⟨s', hm, hr⟩ | ⟨pre, e, rest, sp, hes, hm, ⟨r, s', hst, hr⟩ | ⟨hst, hr⟩⟩
  · rw [hr] at h; simp [St.res] at h
  · rw [hr]; have := (done_facts hm hst).1; simp [St.res]; omega
  · rw [hr] at h; simp [St.res] at h

/-- **T3.**  If the driver returns a success code (> 0) or ROUNDOFF_LIMITED (-4), `(x, *minf) = (e.x, e.f)` for a consumed
    evaluation event `e`; for a success code other than 6 (which only a dual failure can produce, and which is out of
    scope: no time limit) `e` is a processed event. -/
theorem returned_pair_success (A : Arith) (c : Cfg) (evs : List Ev)
    (hret : (run A c evs).ret > 0 ∨ (run A c evs).ret = -4) :
    (∃ e ∈ evs.take (run A c evs).nevents, e.isFail = false ∧ (run A c evs).x = e.x ∧ (run A c evs).minf = some e.f) ∧
    ((run A c evs).ret > 0 → (run A c evs).ret ≠ 6 → (run A c evs).nproc = (run A c evs).nevents) := by
  have hne : (run A c evs).ret ≠ 0 := by omega
  refine ⟨returned_pair A c evs (nevents_pos_of_ret A c evs hne).1, ?_⟩
  obtain ⟨sf, ret, sh, mal, hr, _, _, _, _, h5, _⟩ := run_final A c evs
  rw [hr]; exact h5

/-! ## T4 — the incumbent (C05) -/

/-- **T4, what the rule guarantees** (every return code, every `Arith`, NaN included).  If at least one event was
    processed, the returned pair belongs to a processed event `e`, and if the driver's flag `feasible` is set on return,
    `e` has no positive constraint value, or is feasible within the tolerances, or was allowed by `inner_done` (its
    objective approximation was conservative, or the `inner_maxeval` cap is in force). -/
theorem incumbent_allowed (A : Arith) (c : Cfg) (evs : List Ev) (h : (run A c evs).nproc ≥ 1) :
    ∃ e ∈ evs.take (run A c evs).nproc, (run A c evs).x = e.x ∧ (run A c evs).minf = some e.f ∧
      ((run A c evs).feasible = true → Adm c e) := by
  obtain ⟨sf, ret, sh, mal, hr, _, _, _, h4, _⟩ := run_final A c evs
  rw [hr] at h ⊢
  obtain ⟨hs, ⟨e, he, hi⟩, _⟩ := h4 h
  exact ⟨e, he, hi.1, by simp [St.res, hs, hi.2.1], hi.2.2.2.2⟩

/-- **T4, best feasible point (partial).**  If the caller's `x0` has `feasible = 1` (no positive constraint value; NaN
    counts as feasible for MMA) and — for MMA — no constraint value of a processed event is NaN, then on every return
    the flag `feasible` is set and NO processed event that is feasible within the tolerances has `f < *minf`. -/
theorem best_feasible_partial (A : Arith) (c : Cfg) (evs : List Ev) (h : (run A c evs).nproc ≥ 1)
    (hyp : Hyp c (evs.take (run A c evs).nproc)) :
    (run A c evs).feasible = true ∧
    ∃ m, (run A c evs).minf = some m ∧
      ∀ e' ∈ evs.take (run A c evs).nproc, feasTol c e' = true → F64.lt e'.f m = false := by
  obtain ⟨sf, ret, sh, mal, hr, _, _, _, h4, _⟩ := run_final A c evs
  rw [hr] at h hyp ⊢
  obtain ⟨hs, _, hb⟩ := h4 h
  obtain ⟨hf, hbest⟩ := hb hyp
  exact ⟨hf, sf.minf, by simp [St.res, hs], hbest⟩

/-! ## T5 — stopval (C02) -/

theorem lateRet_two {c : Cfg} {s : St} {e : Ev} (h : lateRet c s e = some 2) :
    s.feasible = true ∧ F64.lt s.minf c.stop.minfMax = true := by
  unfold lateRet at h
  split at h
  · cases h
  · split at h
    · cases h
    · split at h
      next h3 => simpa using h3
      · cases h

theorem lateRet_codes {c : Cfg} {s : St} {e : Ev} {r : Int} (h : lateRet c s e = some r) : r = -5 ∨ r = 5 ∨ r = 2 := by
  unfold lateRet at h
  split at h
  · injection h with h; exact Or.inl h.symm
  · split at h
    · injection h with h; exact Or.inr (Or.inl h.symm)
    · split at h
      · injection h with h; exact Or.inr (Or.inr h.symm)
      · cases h

theorem outerRet_codes {A : Arith} {c : Cfg} {s : St} {e : Ev} {r : Int} (h : outerRet A c s e = some r) : r = 4 ∨ r = 3 := by
  unfold outerRet at h
  split at h
  · injection h with h; exact Or.inl h.symm
  · split at h
    · injection h with h; exact Or.inr h.symm
    · cases h

/-- the codes of a processed pass, and where each comes from -/
theorem verdict_codes {A : Arith} {c : Cfg} {s : St} {e : Ev} {r : Int} (h : verdict A c s e = some r) :
    lateRet c (proc c s e) e = some r ∨
    (lateRet c (proc c s e) e = none ∧
      ((innerDone c s e = true ∧ (r = 4 ∨ r = 3)) ∨ (innerDone c s e = false ∧ e.rhoInf = true ∧ r = -4))) := by
  unfold verdict at h
  split at h
  next r' hl => injection h with h; left; rw [hl, h]
  next hl =>
    right
    refine ⟨hl, ?_⟩
    split at h
    next hd => exact Or.inl ⟨hd, outerRet_codes h⟩
    next hd =>
      split at h
      next hri => injection h with h; exact Or.inr ⟨by simpa using hd, hri, h.symm⟩
      · cases h

/-- **T5.**  MINF_MAX_REACHED (2) is returned only right after the event that became the incumbent: the returned pair is
    the LAST consumed event `e`, which was completely processed; the driver's flag `feasible` is set; `*minf = e.f` is
    STRICTLY below stopval; and `e` is allowed in the sense of T4 (no positive constraint value, or feasible within the
    tolerances, or allowed by `inner_done`).  It is NOT guaranteed to be feasible within the tolerances
    (`returned_feasible_full_false`). -/
theorem stopval_strict (A : Arith) (c : Cfg) (evs : List Ev) (hret : (run A c evs).ret = 2) :
    ∃ pre e, evs.take (run A c evs).nevents = pre ++ [e] ∧ (run A c evs).nproc = (run A c evs).nevents ∧
      (run A c evs).x = e.x ∧ (run A c evs).minf = some e.f ∧ F64.lt e.f c.stop.minfMax = true ∧
      (run A c evs).feasible = true ∧ Adm c e := by
  rcases run_cases A c evs with ⟨s', hm, hr⟩ | ⟨pre, e, rest, sp, hes, hm, ⟨r, s', hst, hr⟩ | ⟨hst, hr⟩⟩
  · rw [hr] at hret; simp [St.res] at hret
  · have hr2 : r = 2 := by rw [hr] at hret; simpa [St.res] using hret
    subst hr2
    have hcnt := (done_facts hm hst).1
    obtain ⟨hcnt0, hnev0, hnp0, hall, hns, hstd⟩ := hm
    refine ⟨pre, e, by rw [hr, hes]; exact take_snoc hcnt, ?_⟩
    rw [hr]
    rcases step_done_shape hst with ⟨h0, hx, hf, ⟨hcb, hr', hs'⟩ | ⟨hcb, hl, hs'⟩⟩ |
      ⟨h1, ⟨hf, hr', hs'⟩ | ⟨hf, hc, hs'⟩ | ⟨hf, hc, hv, hs'⟩⟩
    · omega
    · obtain ⟨hd, hsi⟩ := hns h0
      subst hd; subst hs'
      obtain ⟨l1, l2⟩ := lateRet_two hl
      simp only [procInit_feasible, procInit_minf] at l1 l2
      exact ⟨rfl, by simp [St.res, hx], by simp [St.res], l2, by simp [St.res, l1], Or.inl (strict_of_feasInit l1)⟩
    · simp only [Ev.isFail, Bool.or_eq_true, decide_eq_true_eq] at hf; omega
    · rcases cut_codes hc with h | h <;> omega
    · obtain ⟨hne, hcore, hbud, hsv⟩ := hstd h1
      subst hs'
      have hl : lateRet c (proc c sp e) e = some 2 := by
        rcases verdict_codes hv with h | ⟨_, ⟨_, h⟩ | ⟨_, _, h⟩⟩
        · exact h
        · omega
        · omega
      obtain ⟨l1, l2⟩ := lateRet_two hl
      obtain ⟨_, ⟨e0, he0, hi⟩, _⟩ := hcore
      rcases proc_incOf e hi with ⟨hacc, hi'⟩ | ⟨hacc, _⟩
      · refine ⟨by simp [St.res, hnp0, hcnt0], hi'.1, by simp [St.res, h1, hi'.2.1], ?_, l1, hi'.2.2.2.2 l1⟩
        rw [← hi'.2.1]; exact l2
      · -- not accepted: the test was already false before the event
        have l1' : sp.feasible = true := by simpa [proc, hacc] using l1
        have l2' : F64.lt sp.minf c.stop.minfMax = true := by simpa [proc, hacc] using l2
        rw [l1', l2'] at hsv
        simp at hsv
  · rw [hr] at hret; simp [St.res] at hret

/-! ## T2 — forced stop (C04) -/

theorem lateRet_stop {c : Cfg} {s : St} {e : Ev} (h : e.stop ≠ 0) : lateRet c s e = some (-5) := by
  simp [lateRet, h]

theorem verdict_stop {A : Arith} {c : Cfg} {s : St} {e : Ev} (h : e.stop ≠ 0) : verdict A c s e = some (-5) := by
  simp [verdict, lateRet_stop h]

/-- a `short` run waits in a state that satisfies the invariant, and every longer event list goes on from there -/
theorem short_state (A : Arith) (c : Cfg) (pre : List Ev) (h : (run A c pre).short = true) :
    ∃ s, Inv c pre s ∧ run A c pre = s.res 0 true false ∧ ∀ rest, run A c (pre ++ rest) = go A c s rest := by
  obtain ⟨s', h1, h2, h3⟩ := go_short_advance A c pre (St.init c) h
  have := advance_induct A c (Inv c) (fun done s e s' h hs => inv_step h hs) pre [] (St.init c) s' (inv_start c) h1
  exact ⟨s', by simpa using this, h2, h3⟩

/-- **T2.**  If the run has not returned on `pre` and the force-stop flag is raised during the next evaluation event `e`
    (`e.stop ≠ 0`; no event of `pre` can have raised it), then `e` is the LAST event consumed — no further evaluation is
    made, whatever follows in the list — and the result is FORCED_STOP (-5); the only exception: the stop is reported for a
    constraint-callback position (`stop ≠ 1`) of a pass whose `fcur` or `dd.gval` is NaN: the NaN guard returns
    ROUNDOFF_LIMITED (-4) before any constraint callback is made (such an event cannot be recorded from a real run). -/
theorem forced_stop (A : Arith) (c : Cfg) (pre : List Ev) (e : Ev) (rest : List Ev)
    (hshort : (run A c pre).short = true) (hstop : e.stop ≠ 0) (hfail : e.isFail = false)
    (hwf : (run A c (pre ++ e :: rest)).malformed = false) :
    (∀ e' ∈ pre, e'.stop = 0) ∧
    (run A c (pre ++ e :: rest)).nevents = pre.length + 1 ∧ (run A c (pre ++ e :: rest)).short = false ∧
    ((run A c (pre ++ e :: rest)).ret = -5 ∨
     ((run A c (pre ++ e :: rest)).ret = -4 ∧ e.stop ≠ 1 ∧ pre ≠ [] ∧ (e.f.isNaN = true ∨ e.gvalNaN = true))) := by
  obtain ⟨s, hinv, _, hgo⟩ := short_state A c pre hshort
  refine ⟨fun e' he' => (hinv.2.2.2.1 e' he').1, ?_⟩
  rw [hgo] at hwf ⊢
  cases hv : step A c s e with
  | cont s' =>
    rcases step_cont_shape hv with ⟨_, _, _, _, hl, _⟩ | ⟨_, _, _, hvd, _⟩
    · exact absurd (lateRet_none hl).1 hstop
    · exact absurd (lateRet_none (verdict_none hvd)).1 hstop
  | bad => simp [go, hv, St.res] at hwf
  | done r s' =>
    have hcnt := (done_facts hinv hv).1
    simp only [go, hv, St.res]
    refine ⟨hcnt, by trivial, ?_⟩
    rcases step_done_shape hv with ⟨h0, hx, hf, ⟨hcb, hr', hs'⟩ | ⟨hcb, hl, hs'⟩⟩ |
      ⟨h1, ⟨hf, hr', hs'⟩ | ⟨hf, hc, hs'⟩ | ⟨hf, hc, hvd, hs'⟩⟩
    · exact Or.inl hr'
    · rw [lateRet_stop hstop] at hl; injection hl with hl; exact Or.inl hl.symm
    · rw [hfail] at hf; cases hf
    · rcases cut_codes hc with h | ⟨h2, h3, h4⟩
      · exact Or.inl h
      · exact Or.inr ⟨h2, h3, (hinv.2.2.2.2.2 h1).1, h4⟩
    · rw [verdict_stop hstop] at hvd; injection hvd with hvd; exact Or.inl hvd.symm

/-! ## extras -/

/-- the possible result codes: 0 (placeholder of a short / malformed run), FORCED_STOP, ROUNDOFF_LIMITED,
    MINF_MAX_REACHED, FTOL_REACHED, XTOL_REACHED, MAXEVAL_REACHED, or the code of a dual failure.  NLOPT_SUCCESS (1) is
    never returned. -/
theorem ret_codes (A : Arith) (c : Cfg) (evs : List Ev) :
    (run A c evs).ret = 0 ∨ (run A c evs).ret = -5 ∨ (run A c evs).ret = -4 ∨ (run A c evs).ret = 2 ∨
    (run A c evs).ret = 3 ∨ (run A c evs).ret = 4 ∨ (run A c evs).ret = 5 ∨
    (∃ e ∈ evs, e.isFail = true ∧ (run A c evs).ret = e.dual) := by
  rcases run_cases A c evs with ⟨s', hm, hr⟩ | ⟨pre, e, rest, sp, hes, hm, ⟨r, s', hst, hr⟩ | ⟨hst, hr⟩⟩
  · rw [hr]; simp [St.res]
  · rw [hr]
    simp only [St.res]
    rcases step_done_shape hst with ⟨h0, hx, hf, ⟨hcb, hr', hs'⟩ | ⟨hcb, hl, hs'⟩⟩ |
      ⟨h1, ⟨hf, hr', hs'⟩ | ⟨hf, hc, hs'⟩ | ⟨hf, hc, hv, hs'⟩⟩
    · omega
    · rcases lateRet_codes hl with h | h | h <;> omega
    · exact Or.inr (Or.inr (Or.inr (Or.inr (Or.inr (Or.inr (Or.inr ⟨e, by simp [hes], hf, hr'⟩))))))
    · rcases cut_codes hc with h | h <;> omega
    · rcases verdict_codes hv with h | ⟨_, ⟨_, h⟩ | ⟨_, _, h⟩⟩
      · rcases lateRet_codes h with h | h | h <;> omega
      · omega
      · omega
  · rw [hr]; simp [St.res]

theorem ret_ne_success (A : Arith) (c : Cfg) (evs : List Ev) (hnf : ∀ e ∈ evs, e.isFail = false) :
    (run A c evs).ret ≠ 1 := by
  rcases ret_codes A c evs with h | h | h | h | h | h | h | ⟨e, he, hf, _⟩
  all_goals first | omega | (rw [hnf e he] at hf; cases hf)

/-- a `short` run consumed (and processed) every event -/
theorem short_consumes_all (A : Arith) (c : Cfg) (evs : List Ev) (h : (run A c evs).short = true) :
    (run A c evs).nevents = evs.length ∧ (run A c evs).nproc = evs.length ∧ (run A c evs).nevals = evs.length := by
  obtain ⟨s, hinv, hr, _⟩ := short_state A c evs h
  rw [hr]; exact ⟨hinv.1, hinv.2.2.1, hinv.2.1⟩

theorem go_prefix (A : Arith) (c : Cfg) (more : List Ev) : ∀ (evs : List Ev) (s : St),
    (go A c s evs).short = false → go A c s (evs ++ more) = go A c s evs := by
  intro evs
  induction evs with
  | nil => intro s h; simp [go, St.res] at h
  | cons e es ih =>
    intro s h
    cases hv : step A c s e with
    | cont s' => simp only [go, hv, List.cons_append] at h ⊢; exact ih s' h
    | done r s' => simp [go, hv]
    | bad => simp [go, hv]

/-- events after the one at which the driver returned change nothing -/
theorem run_prefix (A : Arith) (c : Cfg) (evs more : List Ev) (h : (run A c evs).short = false) :
    run A c (evs ++ more) = run A c evs := go_prefix A c more evs (St.init c) h

/-! ## soundness of the search mode: one pass depends on the unobservable inputs only through four choices -/

theorem consAll_mono (mma : Bool) : ∀ (tol g fc : List F64) (cg : List Bool), consAllAux mma tol g fc cg = true →
    consAllAux mma tol g fc (tol.map fun _ => true) = true := by
  intro tol
  induction tol with
  | nil => intro g fc cg _; rfl
  | cons t ts ih =>
    intro g fc cg h
    simp only [consAllAux, Bool.and_eq_true] at h
    obtain ⟨h1, h2⟩ := h
    simp only [consAllAux, List.map_cons, List.headD_cons, List.tail_cons, Bool.and_eq_true]
    refine ⟨?_, ih g.tail fc.tail cg.tail h2⟩
    cases mma with
    | true => simp
    | false =>
      simp only [Bool.false_eq_true, if_false, Bool.and_eq_true] at h1 ⊢
      exact ⟨h1.1, trivial⟩

/-- two events that agree on what the callbacks see, on `gvalNaN`, on `inner_done` and — when the inner loop goes on — on
    `rhoInf` are indistinguishable for the driver -/
theorem stepTrial_congr {A : Arith} {c : Cfg} {s : St} {e e' : Ev} (hx : e'.x = e.x) (hf : e'.f = e.f)
    (hs : e'.stop = e.stop) (hg : e'.g = e.g) (hfl : e.isFail = false) (hfl' : e'.isFail = false)
    (hn : e'.gvalNaN = e.gvalNaN)
    (h : cut c e = none → innerDone c s e' = innerDone c s e ∧ (innerDone c s e = false → e'.rhoInf = e.rhoInf)) :
    stepTrial A c s e' = stepTrial A c s e := by
  have hcut : cut c e' = cut c e := by simp [cut, hs, hf, hn]
  unfold stepTrial
  rw [hfl, hfl', hcut]
  cases hc : cut c e with
  | some r => rfl
  | none =>
    obtain ⟨hi, hr⟩ := h hc
    have hacc : accepts c s e' = accepts c s e := by simp [accepts, hi, hf, feasTol, infeasOf, hg]
    have hproc : proc c s e' = proc c s e := by
      simp [proc, hacc, hx, hf, hg, infeasOf, feasAfter, strictFeas, newInf]
    have hlate : lateRet c (proc c s e') e' = lateRet c (proc c s e) e := by rw [hproc]; simp [lateRet, hs]
    have hout : outerRet A c s e' = outerRet A c s e := by simp [outerRet, hx, hf]
    have hver : verdict A c s e' = verdict A c s e := by
      unfold verdict
      rw [hlate, hi, hout]
      cases hd : innerDone c s e with
      | true => rfl
      | false => rw [hr hd]
    have hnext : next c s e' = next c s e := by simp [next, hi, hproc, hf, hx]
    simp only [hver, hnext, hproc, Bool.false_eq_true, if_false]

/-- **Soundness of `endsearch`.**  From a started state, an evaluation event behaves exactly like the event whose
    unobservable inputs are set by one of the four choices `d`, `c`, `r`, `n` (`Choice.ofEv`).  Hence trying the four
    choices at every recorded evaluation explores every behaviour the model has on the recorded callbacks. -/
theorem step_choice (A : Arith) (c : Cfg) (s : St) (e : Ev) (hst : s.started = true) (hfl : e.isFail = false) :
    step A c s ((Choice.ofEv c s e).apply c e) = step A c s e := by
  unfold step
  rw [hst]
  simp only [if_true]
  unfold Choice.ofEv
  split
  next hn =>
    -- gvalNaN: both events are cut by the NaN guard (or by the forced stop seen before it)
    refine stepTrial_congr rfl rfl rfl rfl hfl (by simp [Choice.apply, Ev.isFail]) (by simp [Choice.apply, hn]) ?_
    intro hc
    simp [cut, hn] at hc
    split at hc <;> simp at hc
  next hn =>
    have hn' : e.gvalNaN = false := by simpa using hn
    split
    next hd =>
      simp only [Bool.and_eq_true] at hd
      refine stepTrial_congr rfl rfl rfl rfl hfl (by simp [Choice.apply, Ev.isFail]) (by simp [Choice.apply, hn']) ?_
      intro _
      have h1 : innerDone c s e = true := by simp [innerDone, hd.1, hd.2]
      have h2 : innerDone c s (Choice.done.apply c e) = true := by
        simp [innerDone, Choice.apply, consAll_mono c.mma c.tol e.g s.fcval e.consG hd.2]
      exact ⟨by rw [h1, h2], fun hh => by rw [h1] at hh; cases hh⟩
    next hd =>
      have hd' : (e.consF && consAllAux c.mma c.tol e.g s.fcval e.consG) = false := by simpa using hd
      split
      next hr =>
        refine stepTrial_congr rfl rfl rfl rfl hfl (by simp [Choice.apply, Ev.isFail]) (by simp [Choice.apply, hn']) ?_
        intro _
        exact ⟨by simp [innerDone, Choice.apply, hd'], fun _ => by simp [Choice.apply, hr]⟩
      next hr =>
        refine stepTrial_congr rfl rfl rfl rfl hfl (by simp [Choice.apply, Ev.isFail]) (by simp [Choice.apply, hn']) ?_
        intro _
        exact ⟨by simp [innerDone, Choice.apply, hd'], fun _ => by simp [Choice.apply, hr]⟩

/-- the first event: the unobservable inputs are ignored -/
theorem step_init_choice (A : Arith) (c : Cfg) (s : St) (e : Ev) (hst : s.started = false) (hfl : e.isFail = false) :
    step A c s { e with dual := 1 } = step A c s e := by
  have h1 : ({ e with dual := 1 } : Ev).isFail = false := by simp [Ev.isFail]
  unfold step
  simp only [hst, Bool.false_eq_true, if_false]
  simp [stepInit, h1, hfl, procInit, bumpInit, lateRet, feasInit, infeasOf]

/-! ## Witnesses and non-vacuity

All runs below end in a test that precedes the `ftol` / `xtol` tests, so they do not depend on the arithmetic: the
statements hold for EVERY `Arith` (`rfl`).  n = 1, x0 = 0, one scalar constraint `g(x) <= 0`.  Each event list can be
replayed through `nlopt_model mma` (hex: 0 = 0000000000000000, 0.5 = 3fe0000000000000, 1 = 3ff0000000000000,
2 = 4000000000000000, 3 = 4008000000000000, -1 = bff0000000000000). -/

def stop0 : Stopping :=
  { n := 1, minfMax := F64.negInf, ftolRel := F64.zero, ftolAbs := F64.zero, xtolRel := F64.zero, xtolAbs := none,
    xWeights := none, nevals := 0, maxeval := 0, maxtime := F64.zero, start := F64.zero, forceStop := 0 }

def half : F64 := ⟨0x3FE0000000000000⟩
def two : F64 := ⟨0x4000000000000000⟩
def three : F64 := ⟨0x4008000000000000⟩

/-- one scalar constraint with tolerance `tol` -/
def cfgG (mma : Bool) (tol : F64) (maxeval : Int) (stopval : F64) (inner : Int := 0) : Cfg :=
  { mma := mma, n := 1, x0 := [F64.zero], tol := [tol], mfc := 1, innerMaxeval := inner
    stop := { stop0 with maxeval := maxeval, minfMax := stopval } }

/-- x0 = 0: f = 3, g = -1 (feasible) -/
def ev0 : Ev := { x := [F64.zero], f := three, g := [F64.negOne] }

/-- **The bound of T1 is attained**: maxeval = 2, the second evaluation is the last one; MAXEVAL_REACHED. -/
theorem nevals_bound_attained (A : Arith) :
    run A (cfgG true F64.zero 2 F64.negInf) [ev0, { x := [F64.one], f := two, g := [F64.negOne] }] =
      ⟨5, 2, 2, 2, [F64.one], some two, false, false, true⟩ := rfl

/-- non-vacuity of T1 / T3 / `best_feasible_partial`: the hypotheses hold on this run -/
example : Hyp (cfgG true F64.zero 2 F64.negInf) [ev0, { x := [F64.one], f := two, g := [F64.negOne] }] :=
  ⟨⟨ev0, _, rfl, by decide⟩, fun _ => by decide⟩

/-- non-vacuity of T2: the stop is raised during the constraint callback of the second evaluation (`stop = 2`); the
    third event is never consumed; `(x, *minf)` is still `(x0, f(x0))` although `f = 2 < 3` was seen -/
example (A : Arith) :
    (run A (cfgG true F64.zero 0 F64.negInf) [ev0]).short = true ∧
    run A (cfgG true F64.zero 0 F64.negInf)
      [ev0, { x := [F64.one], f := two, stop := 2, g := [F64.negOne] }, { x := [two], f := F64.one, g := [F64.negOne] }] =
      ⟨-5, 2, 2, 1, [F64.zero], some three, false, false, true⟩ := ⟨rfl, rfl⟩

/-- **The exception of T2**: a stop reported for the constraint-callback position of a pass whose objective value is NaN
    is pre-empted by the NaN guard (ROUNDOFF_LIMITED); in a real run the constraint callback is not made at all. -/
theorem forced_stop_nan_guard (A : Arith) :
    run A (cfgG true F64.zero 0 F64.negInf) [ev0, { x := [F64.one], f := F64.qnan, stop := 2, g := [F64.negOne] }] =
      ⟨-4, 2, 2, 1, [F64.zero], some three, false, false, true⟩ := rfl

/-- a stop raised in the objective callback of `x0`: `*minf = f(x0)` is already written -/
example (A : Arith) : run A (cfgG true F64.zero 0 F64.negInf) [{ ev0 with stop := 1 }] =
    ⟨-5, 1, 1, 0, [F64.zero], some three, false, false, true⟩ := rfl

/-- a dual failure (here FAILURE = -1) after the first evaluation: returned at once, no further evaluation -/
example (A : Arith) : run A (cfgG true F64.zero 0 F64.negInf) [ev0, { x := [], f := F64.zero, dual := -1 }] =
    ⟨-1, 1, 2, 1, [F64.zero], some three, false, false, true⟩ := rfl

/-- the first event must be the evaluation of `x0` -/
example (A : Arith) : (run A (cfgG true F64.zero 0 F64.negInf) [{ ev0 with x := [F64.one] }]).malformed = true := rfl

/-- **T4 full statement FALSE without "x0 feasible"** (tolerance 1 > 0, maxeval = 3).  x0 = 0: f = 3, g = 2 (infeasible).
    Trial 1.0: f = 1, g = 0.5 — feasible WITHIN THE TOLERANCE, accepted (`!feasible`), `infeasibility = 0.5`.
    Trial 2.0: f = 2, g = -1 — `fcur < *minf` fails, but `!feasible && infeasibility_cur < infeasibility` holds: the
    point REPLACES the incumbent although its objective value is larger.  The run returns (x, *minf) = (2.0, 2) with
    `feasible = 1`, while the processed event 1.0 is feasible within the tolerance and has f = 1 < 2.
    Replay: `cfg alg=mma n=1 maxeval=3 x0=0 tol=1` / `ev 0 3 0 2` / `ev 1 1 0 0.5` / `ev 2 2 0 -1` / `end` (values in hex). -/
theorem best_feasible_full_false (A : Arith) :
    let c := cfgG true F64.one 3 F64.negInf
    let e1 : Ev := { x := [F64.one], f := F64.one, g := [half] }
    let evs : List Ev := [{ x := [F64.zero], f := three, g := [two] }, e1, { x := [two], f := two, g := [F64.negOne] }]
    run A c evs = ⟨5, 3, 3, 3, [two], some two, false, false, true⟩ ∧
    e1 ∈ evs.take (run A c evs).nproc ∧ feasTol c e1 = true ∧ F64.lt e1.f two = true := by
  refine ⟨rfl, ?_, by decide, by decide⟩
  show _ ∈ List.take 3 _
  decide

/-- the same for CCSAQ -/
theorem best_feasible_full_false_ccsa (A : Arith) :
    run A (cfgG false F64.one 3 F64.negInf)
      [{ x := [F64.zero], f := three, g := [two] }, { x := [F64.one], f := F64.one, g := [half] },
       { x := [two], f := two, g := [F64.negOne] }] = ⟨5, 3, 3, 3, [two], some two, false, false, true⟩ := rfl

/-- **"The returned point of a run started at a feasible x0 is feasible within tolerance" is FALSE** (tolerance 0,
    stopval = 2).  x0 = 0: f = 3, g = -1 (feasible).  Trial 1.0: f = 1, g = 2 (violated), but the dual solve reports
    conservative approximations (`dd.gval >= fcur`, `dd.gcval[0] >= fcval_cur[0]`, which means the dual solution itself
    violates the approximate constraint): `inner_done`, the point is accepted ("MMA - using infeasible point?"),
    `feasible` stays 1 and, since 1 < stopval, the driver returns MINF_MAX_REACHED with the infeasible point.
    The hypothesis `Hyp` of `best_feasible_partial` holds. -/
theorem returned_feasible_full_false (A : Arith) :
    let c := cfgG true F64.zero 0 two
    let e1 : Ev := { x := [F64.one], f := F64.one, g := [two], consF := true, consG := [true] }
    run A c [ev0, e1] = ⟨2, 2, 2, 2, [F64.one], some F64.one, false, false, true⟩ ∧
    Hyp c [ev0, e1] ∧ feasTol c e1 = false ∧ strictFeas c e1 = false := by
  refine ⟨rfl, ⟨⟨ev0, _, rfl, by decide⟩, fun _ => by decide⟩, by decide, by decide⟩

/-- the same through the `inner_maxeval` cap (inner_maxeval = 1): NO conservativity is claimed by the dual solve, the
    first trial point of every outer iteration is `inner_done` by the cap, so any point with a smaller objective value
    is accepted, feasible or not; the flag `feasible` stays set and stopval ends the run with the infeasible point.
    Replay: `cfg alg=mma n=1 inner_maxeval=1 stopval=2 x0=0 tol=0` / `ev 0 3 0 -1` / `ev 1 1 0 2` / `end`. -/
theorem returned_feasible_full_false_cap (A : Arith) :
    let c := cfgG true F64.zero 0 two 1
    let e1 : Ev := { x := [F64.one], f := F64.one, g := [two] }
    run A c [ev0, e1] = ⟨2, 2, 2, 2, [F64.one], some F64.one, false, false, true⟩ ∧
    Hyp c [ev0, e1] ∧ feasTol c e1 = false ∧ strictFeas c e1 = false := by
  refine ⟨rfl, ⟨⟨ev0, _, rfl, by decide⟩, fun _ => by decide⟩, by decide, by decide⟩

/-- non-vacuity of T5 with a feasible returned point: the worked example of the model's header -/
example (A : Arith) :
    run A (cfgG true F64.zero 10 ⟨0x3FF8000000000000⟩)
      [ev0, { x := [F64.one], f := two, g := [F64.negOne] },
       { x := [two], f := F64.one, g := [⟨0xBFE0000000000000⟩], consF := true, consG := [true] }] =
      ⟨2, 3, 3, 3, [two], some F64.one, false, false, true⟩ := rfl

/-- **MMA: a NaN constraint value at the incumbent lets the flag `feasible` be reset.**  x0 = 0: f = 3, g = NaN (MMA:
    `feasible = 1`).  Trial 1.0: f = 1, g = 2, allowed by `inner_done`: accepted, and because `fcval[0]` was NaN and
    `fcval_cur[0] > 0` (`new_infeasible_constraint`) `feasible` becomes 0.  With CCSAQ the same x0 has `feasible = 0`
    from the start. -/
theorem mma_nan_resets_feasible (A : Arith) :
    run A (cfgG true F64.zero 2 F64.negInf)
      [{ x := [F64.zero], f := three, g := [F64.qnan] },
       { x := [F64.one], f := F64.one, g := [two], consF := true, consG := [true] }] =
      ⟨5, 2, 2, 2, [F64.one], some F64.one, false, false, false⟩ := rfl

end Nlopt.DrvMma
