import NloptModel.Model.CrsDriver
import NloptModel.Lemmas.CrsDrvLemmas
/-!
# Theorems about the control flow of `crs_minimize` (model: `Model/CrsDriver.lean`)

All statements are for EVERY configuration `c`, EVERY event list `evs` and EVERY rounded arithmetic `A`.
`consumed := evs.take (run A c evs).nevals` are the evaluations the driver actually made.

`run A c evs = runWith A scan c evs`, where `runWith A S c evs` is the driver with the tree's answers to its min / max queries
given by an arbitrary `S : Sel`.  The `_anyTree` theorems hold for EVERY `S` (T3 needs `S.BestMem`: the node reported as
minimum is a node of the tree), hence also for whatever the inconsistently ordered C tree reports when objective values are
NaN; they are specialised to `run` under the plain names.

  T1  `t1_budget`, `t1_maxeval_exact`            evaluation budget (C03): never more than maxeval, and ret = 5 exactly at maxeval
  T2  `t2_forced_stop`                           forced stop (C04): the evaluation that raises the stop is the last one, ret = -5
  T3  `t3_returned_pair_evaluated`               (x, minf) is one of the consumed evaluations (C02)
  T4  `t4_best_point`                            success code, no NaN: no consumed value is below minf (C05)
      `t4_forced_partial`, `t4_forced_full_false` FORCED_STOP: true for all but the evaluation that raised the stop;
                                                  false for that one (witness)
  T5  `t5_stopval`                               ret = 2 → minf < stopval (strict), no NaN; `t5_nan_false` NaN witness
  extras: return codes, `minf = none` characterisation, prefix stability, `nevals ≥ 1`, FTOL at f == stopval.
-/
namespace Nlopt.DrvCrs
open Nlopt Nlopt.CrsDrv

/-- a dummy arithmetic, only to exhibit concrete runs (witnesses and non-vacuity examples); with all tolerances 0 the
    ftol / xtol tests are false for every arithmetic anyway -/
def arithDummy : Arith :=
  { add := fun a _ => a, sub := fun a _ => a, mul := fun a _ => a, div := fun a _ => a, sqrt := id, tanh := id,
    atanh := id, pow := fun a _ => a, log := id, exp := id, ofInt := fun _ => F64.zero, toInt := fun _ => 0 }

/-! ## T1 for every tree: evaluation budget -/

/-- T1: with `maxeval > 0` the driver never makes more than `maxeval` evaluations (no overshoot). -/
theorem t1_budget_anyTree (A : Arith) (S : Sel) (c : Cfg) (evs : List Ev) (hm : 0 < c.maxeval) :
    ((runWith A S c evs).nevals : Int) ≤ c.maxeval := by
  rcases run_spec A S c evs with ⟨_, hr⟩ | ⟨_, st', _, I, hr⟩ | ⟨_, pre, e, post, st', r, _, _, I, hs, hr⟩
  · rw [hr]; simp [invalidRes]; omega
  · rw [hr, shortRes_nevals]; have := I.budget hm; omega
  · rw [hr]
    obtain ⟨_, hn, _⟩ := step_done_cases hs
    rw [hn]; have := I.budget hm; omega

/-- MAXEVAL_REACHED is returned exactly when the counter reaches `maxeval`. -/
theorem t1_maxeval_exact_anyTree (A : Arith) (S : Sel) (c : Cfg) (evs : List Ev) (hret : (runWith A S c evs).ret = 5) :
    ((runWith A S c evs).nevals : Int) = c.maxeval := by
  rcases run_spec A S c evs with ⟨_, hr⟩ | ⟨_, st', _, I, hr⟩ | ⟨_, pre, e, post, st', r, _, _, I, hs, hr⟩
  · rw [hr] at hret; simp [invalidRes] at hret
  · rw [hr, shortRes_ret] at hret; simp at hret
  · rw [hr] at hret ⊢
    obtain ⟨_, hn, hc⟩ := step_done_cases hs
    have key : Stop.evals c.maxeval ((st'.nevals + 1 : Nat) : Int) = true → (r.nevals : Int) = c.maxeval := by
      intro hev
      simp [Stop.evals] at hev
      have := I.budget hev.1
      rw [hn]; omega
    rcases hc with ⟨_, h5, _⟩ | ⟨_, _, _, _, h⟩ | ⟨_, inc, _, _, _, _, hev, _⟩ | ⟨_, inc, _, _, _, _, _, h⟩
    · omega
    · rcases h with ⟨h2, _⟩ | ⟨_, _, hev⟩
      · omega
      · exact key hev
    · exact key hev
    · rcases h with ⟨h2, _⟩ | ⟨h2, _⟩ | ⟨h2, _⟩ | ⟨_, _, _, _, hev⟩
      · omega
      · omega
      · omega
      · exact key hev

/-- the bound of T1 is attained: maxeval = 2 and two evaluations are made -/
example : (run arithDummy { n := 1, pop := 2, maxeval := 2, minfMax := F64.negInf }
    [⟨[F64.one], F64.one, false⟩, ⟨[F64.zero], F64.zero, false⟩, ⟨[F64.one], F64.one, false⟩]).nevals = 2 := by decide

/-! ## T2 for every tree: forced stop -/

/-- a run that has not returned has seen no forced evaluation -/
theorem short_unforced_anyTree (A : Arith) (S : Sel) (c : Cfg) (evs : List Ev) (hs : (runWith A S c evs).short = true) :
    ∀ e ∈ evs, e.forced = false := by
  rcases run_spec A S c evs with ⟨_, hr⟩ | ⟨_, st', _, I, _⟩ | ⟨_, pre, e, post, st', r, _, _, _, hst, hr⟩
  · rw [hr] at hs; simp [invalidRes] at hs
  · exact I.unforced
  · rw [hr, (step_done_cases hst).1] at hs; cases hs

/-- T2: if the run has not returned on `pre` and the next evaluation `e` raises the forced stop, the driver returns
    FORCED_STOP right after it: `nevals = |pre| + 1`, whatever events follow (none of them is consumed).
    (That `e` is the FIRST forced event follows from `short_unforced_anyTree`.) -/
theorem t2_forced_stop_anyTree (A : Arith) (S : Sel) (c : Cfg) (pre post : List Ev) (e : Ev)
    (hs : (runWith A S c pre).short = true) (he : e.forced = true) :
    (runWith A S c (pre ++ e :: post)).ret = -5 ∧ (runWith A S c (pre ++ e :: post)).nevals = pre.length + 1 ∧
    (runWith A S c (pre ++ e :: post)).short = false := by
  rcases run_spec A S c pre with ⟨_, hr⟩ | ⟨hi, st', ha, I, _⟩ | ⟨_, p, e', q, st', r, _, _, _, hst, hr⟩
  · rw [hr] at hs; simp [invalidRes] at hs
  · obtain ⟨r, hstep⟩ := step_forced (A := A) (S := S) (c := c) (st := st') he
    have hrun : runWith A S c (pre ++ e :: post) = r := by
      simp only [runWith, hi]
      rw [runFrom_append_of_advance A S c st0 st' pre (e :: post) ha]
      simp [runFrom, hstep]
    obtain ⟨h1, h2, hc⟩ := step_done_cases hstep
    rw [hrun]
    refine ⟨?_, by rw [h2, I.nev], h1⟩
    rcases hc with ⟨_, h5, _⟩ | ⟨hf, _⟩ | ⟨hf, _⟩ | ⟨hf, _⟩
    · exact h5
    · rw [he] at hf; cases hf
    · rw [he] at hf; cases hf
    · rw [he] at hf; cases hf
  · rw [hr, (step_done_cases hst).1] at hs; cases hs

/-- conversely FORCED_STOP is only ever returned for the evaluation that raised it, which is the last one consumed -/
theorem forced_stop_iff_last_forced_anyTree (A : Arith) (S : Sel) (c : Cfg) (evs : List Ev) (hs : (runWith A S c evs).short = false)
    (hv : c.invalid = false) :
    ∃ pre e, evs.take (runWith A S c evs).nevals = pre ++ [e] ∧ (∀ e' ∈ pre, e'.forced = false) ∧
      ((runWith A S c evs).ret = -5 ↔ e.forced = true) := by
  rcases run_spec A S c evs with ⟨hi, _⟩ | ⟨_, st', _, _, hr⟩ | ⟨_, pre, e, post, st', r, hevs, _, I, hst, hr⟩
  · rw [hv] at hi; cases hi
  · rw [hr, shortRes_short] at hs; cases hs
  · obtain ⟨_, hn, hc⟩ := step_done_cases hst
    refine ⟨pre, e, ?_, I.unforced, ?_⟩
    · rw [hr, hn, I.nev, hevs]; exact take_consumed
    · rw [hr]
      rcases hc with ⟨hf, h5, _⟩ | ⟨hf, _, _, _, h⟩ | ⟨hf, inc, _, _, _, h5, _⟩ | ⟨hf, inc, _, _, _, _, _, h⟩
      · simp [hf, h5]
      · rcases h with ⟨h2, _⟩ | ⟨h2, _⟩ <;> simp [hf, h2]
      · simp [hf, h5]
      · rcases h with ⟨h2, _⟩ | ⟨h2, _⟩ | ⟨h2, _⟩ | ⟨h2, _⟩ <;> simp [hf, h2]

/-! ## T3 for every tree that reports one of its nodes: the returned pair is an evaluated pair -/

/-- whenever `*minf` was written, `(x, *minf)` is one of the consumed evaluations (any return code, NaN or not) -/
theorem returned_pair_evaluated_anyTree (A : Arith) (S : Sel) (hS : S.BestMem) (c : Cfg) (evs : List Ev)
    (hs : (runWith A S c evs).short = false) (m : F64) (hm : (runWith A S c evs).minf = some m) :
    ∃ e ∈ evs.take (runWith A S c evs).nevals, (runWith A S c evs).x = e.x ∧ m = e.f := by
  rcases run_spec A S c evs with ⟨_, hr⟩ | ⟨_, st', _, _, hr⟩ | ⟨_, pre, e, post, st', r, hevs, _, I, hst, hr⟩
  · rw [hr] at hm; simp [invalidRes] at hm
  · rw [hr, shortRes_short] at hs; cases hs
  · obtain ⟨_, hn, hc⟩ := step_done_cases hst
    have htake : evs.take (runWith A S c evs).nevals = pre ++ [e] := by
      rw [hr, hn, I.nev, hevs]; exact take_consumed
    rw [htake]
    rw [hr] at hm ⊢
    -- every candidate slot comes from a consumed event
    have fromSlot : ∀ s : Slot, (∃ e' ∈ pre ++ [e], s = e'.slot) → r.x = s.x → r.minf = some s.f →
        ∃ e' ∈ pre ++ [e], r.x = e'.x ∧ m = e'.f := by
      intro s ⟨e', he', hse⟩ hx hf
      refine ⟨e', he', ?_, ?_⟩
      · rw [hx, hse]; rfl
      · rw [hf] at hm; cases hm; rw [hse]; rfl
    rcases hc with ⟨_, _, h⟩ | ⟨_, hnone, hx, hf, _⟩ | ⟨_, inc, hsome, hx, hf, _⟩ | ⟨_, inc, hsome, _, _, hx, hf, _⟩
    · rcases h with ⟨_, _, hnone⟩ | ⟨inc, hsome, hx, hf⟩
      · rw [hnone] at hm; cases hm
      · exact fromSlot inc (src_mono (I.incSrc hS _ hsome)) hx hf
    · refine fromSlot _ ?_ hx hf
      have hmem : S.best (st'.pop ++ [e.slot]) ∈ st'.pop ++ [e.slot] := hS _ (by simp)
      rcases List.mem_append.mp hmem with h1 | h1
      · exact src_mono (I.popSrc _ h1)
      · simp at h1; rw [h1]; exact src_new
    · exact fromSlot inc (src_mono (I.incSrc hS _ hsome)) hx hf
    · refine fromSlot _ ?_ hx hf
      have hne : st'.pop.set (S.worst st'.pop).1 e.slot ≠ [] := by
        intro h0; exact I.main inc hsome (by simpa using h0)
      rcases mem_set_cases (hS _ hne) with h1 | h1
      · exact src_mono (I.popSrc _ h1)
      · rw [h1]; exact src_new

/-- a positive return code always comes with a written `*minf` -/
theorem success_minf_written_anyTree (A : Arith) (S : Sel) (c : Cfg) (evs : List Ev) (hret : 0 < (runWith A S c evs).ret) :
    ∃ m, (runWith A S c evs).minf = some m := by
  rcases run_spec A S c evs with ⟨_, hr⟩ | ⟨_, st', _, _, hr⟩ | ⟨_, pre, e, post, st', r, _, _, I, hst, hr⟩
  · rw [hr] at hret; simp [invalidRes] at hret
  · rw [hr, shortRes_ret] at hret; simp at hret
  · rw [hr] at hret ⊢
    obtain ⟨_, _, hc⟩ := step_done_cases hst
    rcases hc with ⟨_, h5, _⟩ | ⟨_, _, _, hf, _⟩ | ⟨_, inc, _, _, hf, _⟩ | ⟨_, inc, _, _, _, _, hf, _⟩
    · omega
    · exact ⟨_, hf⟩
    · exact ⟨_, hf⟩
    · exact ⟨_, hf⟩

/-- T3: on a success code the returned `(x, minf)` is `(e.x, e.f)` for a consumed evaluation `e`. -/
theorem t3_returned_pair_evaluated_anyTree (A : Arith) (S : Sel) (hS : S.BestMem) (c : Cfg) (evs : List Ev)
    (hs : (runWith A S c evs).short = false) (hret : 0 < (runWith A S c evs).ret) :
    ∃ e ∈ evs.take (runWith A S c evs).nevals, (runWith A S c evs).x = e.x ∧ (runWith A S c evs).minf = some e.f := by
  obtain ⟨m, hm⟩ := success_minf_written_anyTree A S c evs hret
  obtain ⟨e, he, hx, hf⟩ := returned_pair_evaluated_anyTree A S hS c evs hs m hm
  exact ⟨e, he, hx, by rw [hm, hf]⟩

/-! ## further facts, for every tree -/

/-- the possible return codes -/
theorem ret_codes_anyTree (A : Arith) (S : Sel) (c : Cfg) (evs : List Ev) :
    ((runWith A S c evs).short = true ∧ (runWith A S c evs).ret = 0) ∨
    ((runWith A S c evs).short = false ∧ ((runWith A S c evs).ret = -2 ∨ (runWith A S c evs).ret = -5 ∨ (runWith A S c evs).ret = 2 ∨
       (runWith A S c evs).ret = 3 ∨ (runWith A S c evs).ret = 4 ∨ (runWith A S c evs).ret = 5)) := by
  rcases run_spec A S c evs with ⟨_, hr⟩ | ⟨_, st', _, _, hr⟩ | ⟨_, pre, e, post, st', r, _, _, _, hst, hr⟩
  · right; rw [hr]; simp [invalidRes]
  · left; rw [hr]; exact ⟨shortRes_short _ _, shortRes_ret _ _⟩
  · right; rw [hr]
    obtain ⟨h1, _, hc⟩ := step_done_cases hst
    refine ⟨h1, ?_⟩
    rcases hc with ⟨_, h5, _⟩ | ⟨_, _, _, _, h⟩ | ⟨_, inc, _, _, _, h5, _⟩ | ⟨_, inc, _, _, _, _, _, h⟩
    · simp [h5]
    · rcases h with ⟨h2, _⟩ | ⟨h2, _⟩ <;> simp [h2]
    · simp [h5]
    · rcases h with ⟨h2, _⟩ | ⟨h2, _⟩ | ⟨h2, _⟩ | ⟨h2, _⟩ <;> simp [h2]

/-- INVALID_ARGS: exactly when `N < n + 1`, before any evaluation, x and *minf untouched -/
theorem invalid_args_iff_anyTree (A : Arith) (S : Sel) (c : Cfg) (evs : List Ev) :
    (runWith A S c evs).ret = -2 ↔ c.invalid = true := by
  constructor
  · intro h
    rcases ret_codes_anyTree A S c evs with ⟨_, h0⟩ | _
    · omega
    · rcases run_spec A S c evs with ⟨hi, _⟩ | ⟨_, st', _, _, hr⟩ | ⟨_, pre, e, post, st', r, _, _, _, hst, hr⟩
      · exact hi
      · rw [hr, shortRes_ret] at h; simp at h
      · rw [hr] at h
        obtain ⟨_, _, hc⟩ := step_done_cases hst
        rcases hc with ⟨_, h5, _⟩ | ⟨_, _, _, _, h'⟩ | ⟨_, inc, _, _, _, h5, _⟩ | ⟨_, inc, _, _, _, _, _, h'⟩
        · omega
        · rcases h' with ⟨h2, _⟩ | ⟨h2, _⟩ <;> omega
        · omega
        · rcases h' with ⟨h2, _⟩ | ⟨h2, _⟩ | ⟨h2, _⟩ | ⟨h2, _⟩ <;> omega
  · intro h; simp [runWith, h, invalidRes]

theorem invalid_args_res_anyTree (A : Arith) (S : Sel) (c : Cfg) (evs : List Ev) (h : c.invalid = true) :
    runWith A S c evs = { ret := -2, nevals := 0, x := c.x0, minf := none, short := false } := by
  simp [runWith, h, invalidRes]

/-- the driver never consumes more events than there are, and at least one when the arguments are valid -/
theorem nevals_le_length_anyTree (A : Arith) (S : Sel) (c : Cfg) (evs : List Ev) : (runWith A S c evs).nevals ≤ evs.length := by
  rcases run_spec A S c evs with ⟨_, hr⟩ | ⟨_, st', _, I, hr⟩ | ⟨_, pre, e, post, st', r, hevs, _, I, hst, hr⟩
  · rw [hr]; simp [invalidRes]
  · rw [hr, shortRes_nevals, I.nev]; exact Nat.le_refl _
  · rw [hr, (step_done_cases hst).2.1, I.nev, hevs]; simp

theorem nevals_pos_anyTree (A : Arith) (S : Sel) (c : Cfg) (evs : List Ev) (hv : c.invalid = false) (hne : evs ≠ []) :
    1 ≤ (runWith A S c evs).nevals := by
  rcases run_spec A S c evs with ⟨hi, _⟩ | ⟨_, st', _, I, hr⟩ | ⟨_, pre, e, post, st', r, _, _, I, hst, hr⟩
  · rw [hv] at hi; cases hi
  · rw [hr, shortRes_nevals, I.nev]
    cases evs with
    | nil => exact absurd rfl hne
    | cons _ _ => simp
  · rw [hr, (step_done_cases hst).2.1]; omega

/-- `short` means: every event was consumed -/
theorem short_consumes_all_anyTree (A : Arith) (S : Sel) (c : Cfg) (evs : List Ev) (hs : (runWith A S c evs).short = true) :
    (runWith A S c evs).nevals = evs.length := by
  rcases run_spec A S c evs with ⟨_, hr⟩ | ⟨_, st', _, I, hr⟩ | ⟨_, pre, e, post, st', r, _, _, _, hst, hr⟩
  · rw [hr] at hs; simp [invalidRes] at hs
  · rw [hr, shortRes_nevals, I.nev]
  · rw [hr, (step_done_cases hst).1] at hs; cases hs

/-- prefix stability: once the driver has returned, further events change nothing -/
theorem run_append_of_returned_anyTree (A : Arith) (S : Sel) (c : Cfg) (evs more : List Ev) (hs : (runWith A S c evs).short = false) :
    runWith A S c (evs ++ more) = runWith A S c evs := by
  rcases run_spec A S c evs with ⟨hi, hr⟩ | ⟨_, st', _, _, hr⟩ | ⟨hi, pre, e, post, st', r, hevs, ha, _, hst, hr⟩
  · simp [runWith, hi]
  · rw [hr, shortRes_short] at hs; cases hs
  · rw [hr]
    simp only [runWith, hi]
    rw [hevs, List.append_assoc, runFrom_append_of_advance A S c st0 st' pre _ ha]
    simp [runFrom, hst]

/-- `short` is monotone: a run that is short on a list is short on every prefix -/
theorem short_prefix_anyTree (A : Arith) (S : Sel) (c : Cfg) (evs more : List Ev) (hs : (runWith A S c (evs ++ more)).short = true) :
    (runWith A S c evs).short = true := by
  cases h : (runWith A S c evs).short with
  | true => rfl
  | false => rw [run_append_of_returned_anyTree A S c evs more h, h] at hs; cases hs

/-- the result depends only on the consumed events -/
theorem run_take_consumed_anyTree (A : Arith) (S : Sel) (c : Cfg) (evs : List Ev) :
    runWith A S c (evs.take (runWith A S c evs).nevals) = runWith A S c evs := by
  cases hs : (runWith A S c evs).short with
  | true => rw [short_consumes_all_anyTree A S c evs hs, List.take_length]
  | false =>
    rcases run_spec A S c evs with ⟨hi, hr⟩ | ⟨_, st', _, _, hr⟩ | ⟨hi, pre, e, post, st', r, hevs, ha, I, hst, hr⟩
    · simp [runWith, hi]
    · rw [hr, shortRes_short] at hs; cases hs
    · have htake : evs.take (runWith A S c evs).nevals = pre ++ [e] := by
        rw [hr, (step_done_cases hst).2.1, I.nev, hevs]; exact take_consumed
      rw [htake, hr]
      simp only [runWith, hi]
      rw [runFrom_append_of_advance A S c st0 st' pre _ ha]
      simp [runFrom, hst]

/-- `*minf` is left unwritten exactly for INVALID_ARGS and for a FORCED_STOP (or the events running out) inside `crs_init`;
    in particular: FORCED_STOP with `minf = none` leaves the caller's x untouched -/
theorem minf_none_x_untouched_anyTree (A : Arith) (S : Sel) (c : Cfg) (evs : List Ev) (hm : (runWith A S c evs).minf = none) :
    (runWith A S c evs).x = c.x0 ∧ ((runWith A S c evs).short = true ∨ (runWith A S c evs).ret = -2 ∨ (runWith A S c evs).ret = -5) := by
  rcases run_spec A S c evs with ⟨_, hr⟩ | ⟨_, st', _, _, hr⟩ | ⟨_, pre, e, post, st', r, _, _, _, hst, hr⟩
  · rw [hr]; simp [invalidRes]
  · rw [hr] at hm ⊢
    refine ⟨?_, Or.inl (shortRes_short _ _)⟩
    unfold shortRes at hm ⊢
    split at hm
    · rfl
    · cases hm
  · rw [hr] at hm ⊢
    obtain ⟨_, _, hc⟩ := step_done_cases hst
    rcases hc with ⟨_, h5, h⟩ | ⟨_, _, _, hf, _⟩ | ⟨_, inc, _, _, hf, _⟩ | ⟨_, inc, _, _, _, _, hf, _⟩
    · rcases h with ⟨_, hx, _⟩ | ⟨inc, _, _, hf⟩
      · exact ⟨hx, Or.inr (Or.inr h5)⟩
      · rw [hf] at hm; cases hm
    · rw [hf] at hm; cases hm
    · rw [hf] at hm; cases hm
    · rw [hf] at hm; cases hm

/-- where the forced stop falls: the state reached on a short run knows its phase -/
theorem phase_of_short (A : Arith) (S : Sel) (c : Cfg) (pre : List Ev) (hs : (runWith A S c pre).short = true) :
    c.invalid = false ∧ ∃ st', advance A S c st0 pre = some st' ∧ Inv S c pre st' ∧ InvN c st' := by
  rcases run_spec A S c pre with ⟨_, hr⟩ | ⟨hi, st', ha, _, _⟩ | ⟨_, p, e', q, st', r, _, _, _, hst, hr⟩
  · rw [hr] at hs; simp [invalidRes] at hs
  · exact ⟨hi, st', ha, advance_invN A S c hi st' pre ha⟩
  · rw [hr, (step_done_cases hst).1] at hs; cases hs

/-- FORCED_STOP raised during one of the first `N` evaluations (inside `crs_init`): the caller's x and *minf are untouched. -/
theorem forced_in_init_anyTree (A : Arith) (S : Sel) (c : Cfg) (pre post : List Ev) (e : Ev)
    (hs : (runWith A S c pre).short = true) (he : e.forced = true) (hk : pre.length < c.N) :
    runWith A S c (pre ++ e :: post) =
      { ret := -5, nevals := pre.length + 1, x := c.x0, minf := none, short := false } := by
  obtain ⟨hi, st', ha, I, J⟩ := phase_of_short A S c pre hs
  obtain ⟨r, hstep⟩ := step_forced (A := A) (S := S) (c := c) (st := st') he
  have hrun : runWith A S c (pre ++ e :: post) = r := by
    simp only [runWith, hi]
    rw [runFrom_append_of_advance A S c st0 st' pre (e :: post) ha]
    simp [runFrom, hstep]
  rw [hrun]
  obtain ⟨h1, h2, hc⟩ := step_done_cases hstep
  rcases hc with ⟨_, h5, h⟩ | ⟨hf, _⟩ | ⟨hf, _⟩ | ⟨hf, _⟩
  · rcases h with ⟨_, hx, hm⟩ | ⟨inc, hsome, _⟩
    · cases r; simp_all [I.nev]
    · have := J.mainGe inc hsome; rw [I.nev] at this; omega
  · rw [he] at hf; cases hf
  · rw [he] at hf; cases hf
  · rw [he] at hf; cases hf

/-- FORCED_STOP raised after the initial population is complete: the incumbent is reported. -/
theorem forced_in_main_anyTree (A : Arith) (S : Sel) (c : Cfg) (pre post : List Ev) (e : Ev)
    (hs : (runWith A S c pre).short = true) (he : e.forced = true) (hk : c.N ≤ pre.length) :
    (runWith A S c (pre ++ e :: post)).minf = (runWith A S c pre).minf ∧
    (runWith A S c (pre ++ e :: post)).x = (runWith A S c pre).x ∧
    ∃ m, (runWith A S c (pre ++ e :: post)).minf = some m := by
  obtain ⟨hi, st', ha, I, J⟩ := phase_of_short A S c pre hs
  obtain ⟨r, hstep⟩ := step_forced (A := A) (S := S) (c := c) (st := st') he
  have hrun : runWith A S c (pre ++ e :: post) = r := by
    simp only [runWith, hi]
    rw [runFrom_append_of_advance A S c st0 st' pre (e :: post) ha]
    simp [runFrom, hstep]
  have hpre : runWith A S c pre = shortRes c st' := by
    simp only [runWith, hi]
    have := runFrom_append_of_advance A S c st0 st' pre [] ha
    simpa [runFrom] using this
  rw [hrun, hpre]
  obtain ⟨_, _, hc⟩ := step_done_cases hstep
  rcases hc with ⟨_, _, h⟩ | ⟨hf, _⟩ | ⟨hf, _⟩ | ⟨hf, _⟩
  · rcases h with ⟨hnone, _, _⟩ | ⟨inc, hsome, hx, hm⟩
    · have := J.initLt hnone; rw [I.nev] at this; omega
    · simp [shortRes, hsome, hx, hm]
  · rw [he] at hf; cases hf
  · rw [he] at hf; cases hf
  · rw [he] at hf; cases hf

/-! ## T1, T2, T3 and the further facts for `run` (= `runWith scan`, the consistently ordered tree) -/

/-- T1: with `maxeval > 0` the driver never makes more than `maxeval` evaluations (no overshoot). -/
theorem t1_budget (A : Arith) (c : Cfg) (evs : List Ev) (hm : 0 < c.maxeval) :
    ((run A c evs).nevals : Int) ≤ c.maxeval := t1_budget_anyTree A scan c evs hm

/-- MAXEVAL_REACHED is returned exactly when the counter reaches `maxeval`. -/
theorem t1_maxeval_exact (A : Arith) (c : Cfg) (evs : List Ev) (hret : (run A c evs).ret = 5) :
    ((run A c evs).nevals : Int) = c.maxeval := t1_maxeval_exact_anyTree A scan c evs hret

theorem short_unforced (A : Arith) (c : Cfg) (evs : List Ev) (hs : (run A c evs).short = true) :
    ∀ e ∈ evs, e.forced = false := short_unforced_anyTree A scan c evs hs

/-- T2: if the run has not returned on `pre` and the next evaluation `e` raises the forced stop, the driver returns
    FORCED_STOP right after it: `nevals = |pre| + 1`, whatever events follow (none of them is consumed). -/
theorem t2_forced_stop (A : Arith) (c : Cfg) (pre post : List Ev) (e : Ev)
    (hs : (run A c pre).short = true) (he : e.forced = true) :
    (run A c (pre ++ e :: post)).ret = -5 ∧ (run A c (pre ++ e :: post)).nevals = pre.length + 1 ∧
    (run A c (pre ++ e :: post)).short = false := t2_forced_stop_anyTree A scan c pre post e hs he

theorem forced_stop_iff_last_forced (A : Arith) (c : Cfg) (evs : List Ev) (hs : (run A c evs).short = false)
    (hv : c.invalid = false) :
    ∃ pre e, evs.take (run A c evs).nevals = pre ++ [e] ∧ (∀ e' ∈ pre, e'.forced = false) ∧
      ((run A c evs).ret = -5 ↔ e.forced = true) := forced_stop_iff_last_forced_anyTree A scan c evs hs hv

theorem returned_pair_evaluated (A : Arith) (c : Cfg) (evs : List Ev) (hs : (run A c evs).short = false)
    (m : F64) (hm : (run A c evs).minf = some m) :
    ∃ e ∈ evs.take (run A c evs).nevals, (run A c evs).x = e.x ∧ m = e.f :=
  returned_pair_evaluated_anyTree A scan scan_bestMem c evs hs m hm

theorem success_minf_written (A : Arith) (c : Cfg) (evs : List Ev) (hret : 0 < (run A c evs).ret) :
    ∃ m, (run A c evs).minf = some m := success_minf_written_anyTree A scan c evs hret

/-- T3: on a success code the returned `(x, minf)` is `(e.x, e.f)` for a consumed evaluation `e`. -/
theorem t3_returned_pair_evaluated (A : Arith) (c : Cfg) (evs : List Ev) (hs : (run A c evs).short = false)
    (hret : 0 < (run A c evs).ret) :
    ∃ e ∈ evs.take (run A c evs).nevals, (run A c evs).x = e.x ∧ (run A c evs).minf = some e.f :=
  t3_returned_pair_evaluated_anyTree A scan scan_bestMem c evs hs hret

theorem ret_codes (A : Arith) (c : Cfg) (evs : List Ev) :
    ((run A c evs).short = true ∧ (run A c evs).ret = 0) ∨
    ((run A c evs).short = false ∧ ((run A c evs).ret = -2 ∨ (run A c evs).ret = -5 ∨ (run A c evs).ret = 2 ∨
       (run A c evs).ret = 3 ∨ (run A c evs).ret = 4 ∨ (run A c evs).ret = 5)) := ret_codes_anyTree A scan c evs

theorem invalid_args_iff (A : Arith) (c : Cfg) (evs : List Ev) : (run A c evs).ret = -2 ↔ c.invalid = true :=
  invalid_args_iff_anyTree A scan c evs

theorem invalid_args_res (A : Arith) (c : Cfg) (evs : List Ev) (h : c.invalid = true) :
    run A c evs = { ret := -2, nevals := 0, x := c.x0, minf := none, short := false } :=
  invalid_args_res_anyTree A scan c evs h

theorem nevals_le_length (A : Arith) (c : Cfg) (evs : List Ev) : (run A c evs).nevals ≤ evs.length :=
  nevals_le_length_anyTree A scan c evs

theorem nevals_pos (A : Arith) (c : Cfg) (evs : List Ev) (hv : c.invalid = false) (hne : evs ≠ []) :
    1 ≤ (run A c evs).nevals := nevals_pos_anyTree A scan c evs hv hne

theorem short_consumes_all (A : Arith) (c : Cfg) (evs : List Ev) (hs : (run A c evs).short = true) :
    (run A c evs).nevals = evs.length := short_consumes_all_anyTree A scan c evs hs

/-- prefix stability: once the driver has returned, further events change nothing -/
theorem run_append_of_returned (A : Arith) (c : Cfg) (evs more : List Ev) (hs : (run A c evs).short = false) :
    run A c (evs ++ more) = run A c evs := run_append_of_returned_anyTree A scan c evs more hs

/-- `short` is monotone: a run that is short on a list is short on every prefix -/
theorem short_prefix (A : Arith) (c : Cfg) (evs more : List Ev) (hs : (run A c (evs ++ more)).short = true) :
    (run A c evs).short = true := short_prefix_anyTree A scan c evs more hs

/-- the result depends only on the consumed events -/
theorem run_take_consumed (A : Arith) (c : Cfg) (evs : List Ev) :
    run A c (evs.take (run A c evs).nevals) = run A c evs := run_take_consumed_anyTree A scan c evs

theorem minf_none_x_untouched (A : Arith) (c : Cfg) (evs : List Ev) (hm : (run A c evs).minf = none) :
    (run A c evs).x = c.x0 ∧ ((run A c evs).short = true ∨ (run A c evs).ret = -2 ∨ (run A c evs).ret = -5) :=
  minf_none_x_untouched_anyTree A scan c evs hm

/-! ## T4, T5 are about the consistently ordered tree (`run = runWith scan`) -/

/-! ## T4: the returned value is the least value evaluated -/

/-- T4: on a success code, if no consumed value is NaN, no consumed evaluation has a value below the returned `minf`. -/
theorem t4_best_point (A : Arith) (c : Cfg) (evs : List Ev) (hs : (run A c evs).short = false)
    (hret : 0 < (run A c evs).ret) (hnan : ∀ e ∈ evs.take (run A c evs).nevals, e.f.isNaN = false) :
    ∃ m, (run A c evs).minf = some m ∧ ∀ e ∈ evs.take (run A c evs).nevals, F64.lt e.f m = false := by
  unfold run at *
  rcases run_spec A scan c evs with ⟨_, hr⟩ | ⟨_, st', _, _, hr⟩ | ⟨_, pre, e, post, st', r, hevs, _, I, hst, hr⟩
  · rw [hr] at hret; simp [invalidRes] at hret
  · rw [hr, shortRes_short] at hs; cases hs
  · obtain ⟨_, hn, hc⟩ := step_done_cases hst
    have htake : evs.take (runWith A scan c evs).nevals = pre ++ [e] := by
      rw [hr, hn, I.nev, hevs]; exact take_consumed
    rw [htake] at hnan ⊢
    rw [hr] at hret ⊢
    rcases hc with ⟨_, h5, _⟩ | ⟨_, hnone, _, hf, _⟩ | ⟨_, inc, hsome, _, hf, _, _, h⟩ |
        ⟨_, inc, hsome, _, hlt2, _, hf, _⟩
    · omega
    · exact ⟨_, hf, fun e' he' => lt_false_of_le ((ord_init I hnone hnan).2 e' he')⟩
    · refine ⟨_, hf, fun e' he' => lt_false_of_le ?_⟩
      rcases h with hlt | ⟨_, hlt2⟩
      · exact ord_rej I hsome hlt hnan e' he'
      · exact ((ord_acc I hsome hnan).2 hlt2).2 e' he'
    · exact ⟨_, hf, fun e' he' => lt_false_of_le (((ord_acc I hsome hnan).1 hlt2).2 e' he')⟩

/-- T4 for FORCED_STOP, strongest true version: once an incumbent has been recorded (`minf = some m`), no evaluation
    BEFORE the one that raised the stop has a value below `m`.  (Only the earlier values need to be non-NaN.) -/
theorem t4_forced_partial (A : Arith) (c : Cfg) (evs : List Ev) (hs : (run A c evs).short = false)
    (hret : (run A c evs).ret = -5) (m : F64) (hm : (run A c evs).minf = some m)
    (hnan : ∀ e ∈ evs.take ((run A c evs).nevals - 1), e.f.isNaN = false) :
    ∀ e ∈ evs.take ((run A c evs).nevals - 1), F64.lt e.f m = false := by
  unfold run at *
  rcases run_spec A scan c evs with ⟨_, hr⟩ | ⟨_, st', _, _, hr⟩ | ⟨_, pre, e, post, st', r, hevs, _, I, hst, hr⟩
  · rw [hr] at hm; simp [invalidRes] at hm
  · rw [hr, shortRes_short] at hs; cases hs
  · obtain ⟨_, hn, hc⟩ := step_done_cases hst
    have htake : evs.take ((runWith A scan c evs).nevals - 1) = pre := by
      rw [hr, hn, I.nev, hevs]; simp
    rw [htake] at hnan ⊢
    rw [hr] at hret hm
    rcases hc with ⟨_, _, h⟩ | ⟨_, _, _, _, h⟩ | ⟨_, inc, _, _, _, h5, _⟩ | ⟨_, inc, _, _, _, _, _, h⟩
    · rcases h with ⟨_, _, hnone⟩ | ⟨inc, hsome, _, hf⟩
      · rw [hnone] at hm; cases hm
      · rw [hf] at hm; cases hm
        exact fun e' he' => lt_false_of_le ((I.ord rfl hnan inc hsome).2 e' he')
    · rcases h with ⟨h2, _⟩ | ⟨h2, _⟩ <;> omega
    · omega
    · rcases h with ⟨h2, _⟩ | ⟨h2, _⟩ | ⟨h2, _⟩ | ⟨h2, _⟩ <;> omega

/-- The FULL statement of T4 is false for FORCED_STOP: the evaluation that raises the stop is never compared with the
    incumbent.  Witness (replayable on the library: n = 1, population 2, no stopping criterion; the objective returns
    2.0 at the start point, 3.0 at the second initial point, and 1.0 — together with `nlopt_force_stop` — at the first
    trial point): the result is FORCED_STOP with minf = 2.0 although the value 1.0 has been evaluated. -/
theorem t4_forced_full_false :
    ¬ (∀ (A : Arith) (c : Cfg) (evs : List Ev), (run A c evs).short = false → (run A c evs).ret = -5 →
        ∀ m, (run A c evs).minf = some m →
        (∀ e ∈ evs.take (run A c evs).nevals, e.f.isNaN = false) →
        ∀ e ∈ evs.take (run A c evs).nevals, F64.lt e.f m = false) := by
  intro h
  have := h arithDummy { n := 1, pop := 2 }
    [⟨[F64.zero], ⟨0x4000000000000000⟩, false⟩, ⟨[F64.one], ⟨0x4008000000000000⟩, false⟩, ⟨[F64.zero], F64.one, true⟩]
    (by decide) (by decide) ⟨0x4000000000000000⟩ (by decide) (by decide) ⟨[F64.zero], F64.one, true⟩ (by decide)
  revert this; decide

/-! ## T5: stopval -/

/-- T5: MINF_MAX_REACHED is returned only with `minf < stopval` (STRICT `<`, as tested by the code), provided no consumed
    value is NaN. -/
theorem t5_stopval (A : Arith) (c : Cfg) (evs : List Ev) (hret : (run A c evs).ret = 2)
    (hnan : ∀ e ∈ evs.take (run A c evs).nevals, e.f.isNaN = false) :
    ∃ m, (run A c evs).minf = some m ∧ F64.lt m c.minfMax = true := by
  unfold run at *
  rcases run_spec A scan c evs with ⟨_, hr⟩ | ⟨_, st', _, _, hr⟩ | ⟨_, pre, e, post, st', r, hevs, _, I, hst, hr⟩
  · rw [hr] at hret; simp [invalidRes] at hret
  · rw [hr, shortRes_ret] at hret; simp at hret
  · obtain ⟨_, hn, hc⟩ := step_done_cases hst
    have htake : evs.take (runWith A scan c evs).nevals = pre ++ [e] := by
      rw [hr, hn, I.nev, hevs]; exact take_consumed
    rw [htake] at hnan
    rw [hr] at hret ⊢
    rcases hc with ⟨_, h5, _⟩ | ⟨_, hnone, _, hf, h⟩ | ⟨_, inc, _, _, _, h5, _⟩ | ⟨_, inc, _, _, _, _, hf, h⟩
    · omega
    · rcases h with ⟨_, hlt⟩ | ⟨h2, _⟩
      · exact ⟨_, hf, lt_of_le_of_lt ((ord_init I hnone hnan).2 e (by simp)) hlt⟩
      · omega
    · omega
    · rcases h with ⟨_, hlt⟩ | ⟨h2, _⟩ | ⟨h2, _⟩ | ⟨h2, _⟩
      · exact ⟨_, hf, hlt⟩
      · omega
      · omega
      · omega

/-- Without the non-NaN hypothesis T5 fails.  Witness (two-node tree, so the model is exact here): n = 1, population 2,
    stopval = 0; the objective returns NaN at the start point and -1.0 at the second initial point.  `crs_init` returns
    MINF_MAX_REACHED because -1 < 0, but the tree minimum is the NaN slot (slot 0 < slot 1 by address, and NaN ties with
    everything), so `*minf = NaN` and x = the start point. -/
theorem t5_nan_false :
    ¬ (∀ (A : Arith) (c : Cfg) (evs : List Ev), (run A c evs).ret = 2 →
        ∃ m, (run A c evs).minf = some m ∧ F64.lt m c.minfMax = true) := by
  intro h
  have := h arithDummy { n := 1, pop := 2, minfMax := F64.zero }
    [⟨[F64.zero], F64.qnan, false⟩, ⟨[F64.one], F64.negOne, false⟩] (by decide)
  revert this; decide

/-- Surprising but faithful: `crs_minimize` calls `nlopt_stop_f` (= `f <= minf_max || ftol test`) AFTER the strict stopval
    test, so a new best value exactly EQUAL to stopval is reported as FTOL_REACHED (3) although both ftol tolerances are 0.
    Replay: n = 1, population 2, stopval = 1.0, ftol_rel = ftol_abs = 0; values 3.0, 2.0 (initial population), then 1.0. -/
example : (run arithDummy { n := 1, pop := 2, minfMax := F64.one }
    [⟨[F64.zero], ⟨0x4008000000000000⟩, false⟩, ⟨[F64.one], ⟨0x4000000000000000⟩, false⟩,
     ⟨[F64.negOne], F64.one, false⟩]).ret = 3 := by decide

/-- A NaN value that becomes the tree maximum blocks all progress: `f < NaN` is false, so EVERY later trial is rejected.
    Replay (two-node tree, the model is exact): n = 1, population 2, maxeval = 3; values 1.0 (start point), NaN, then 0.0 at
    the first trial point: MAXEVAL_REACHED with minf = 1.0 although 0.0 has been evaluated. -/
example : run arithDummy { n := 1, pop := 2, maxeval := 3, x0 := [F64.one] }
    [⟨[F64.one], F64.one, false⟩, ⟨[F64.zero], F64.qnan, false⟩, ⟨[F64.negOne], F64.zero, false⟩]
    = { ret := 5, nevals := 3, x := [F64.one], minf := some F64.one, short := false } := by decide

/-! ## non-vacuity: concrete runs satisfying the hypotheses of T1–T5 -/

section Examples
def two : F64 := ⟨0x4000000000000000⟩
def three : F64 := ⟨0x4008000000000000⟩
def quarter : F64 := ⟨0x3FD0000000000000⟩
def halfv : F64 := ⟨0x3FE0000000000000⟩

/-- the worked example of the protocol header: initial population 3.0, 2.0; trial 0.25 accepted; stopval 0.5 reached -/
def cfgEx : Cfg := { n := 1, pop := 2, minfMax := halfv, x0 := [F64.one] }
def evsEx : List Ev := [⟨[F64.one], three, false⟩, ⟨[two], two, false⟩, ⟨[three], quarter, false⟩, ⟨[F64.zero], F64.zero, false⟩]

example : run arithDummy cfgEx evsEx = { ret := 2, nevals := 3, x := [three], minf := some quarter, short := false } := by decide
-- T3, T4, T5 hypotheses hold on it (success code, not short, no NaN among the 3 consumed events)
example : (run arithDummy cfgEx evsEx).short = false ∧ 0 < (run arithDummy cfgEx evsEx).ret ∧
    (∀ e ∈ evsEx.take (run arithDummy cfgEx evsEx).nevals, e.f.isNaN = false) := by decide
-- T1: maxeval = 4 > 0, a rejected trial (value 5.0 ≥ worst) is the 4th evaluation: MAXEVAL_REACHED with nevals = 4
example : run arithDummy { n := 1, pop := 3, maxeval := 4 }
    [⟨[F64.one], three, false⟩, ⟨[two], two, false⟩, ⟨[three], F64.one, false⟩, ⟨[F64.zero], ⟨0x4014000000000000⟩, false⟩,
     ⟨[F64.zero], F64.zero, false⟩]
    = { ret := 5, nevals := 4, x := [three], minf := some F64.one, short := false } := by decide
-- T2: the run is short on the first three events, the fourth raises the stop; the fifth is never consumed
example : (run arithDummy { n := 1, pop := 2 } [⟨[F64.one], three, false⟩, ⟨[two], two, false⟩, ⟨[three], F64.one, false⟩]).short = true := by
  decide
example : run arithDummy { n := 1, pop := 2 }
    ([⟨[F64.one], three, false⟩, ⟨[two], two, false⟩, ⟨[three], F64.one, false⟩] ++ ⟨[F64.zero], halfv, true⟩ :: [⟨[F64.zero], F64.zero, false⟩])
    = { ret := -5, nevals := 4, x := [three], minf := some F64.one, short := false } := by decide
-- forced stop inside crs_init: x and *minf untouched
example : run arithDummy { n := 1, pop := 2, x0 := [F64.one] } [⟨[F64.one], three, false⟩, ⟨[two], two, true⟩]
    = { ret := -5, nevals := 2, x := [F64.one], minf := none, short := false } := by decide
-- ties: two equal values, the LOWER slot is the tree minimum, the HIGHER slot is the tree maximum (and is replaced)
example : best [⟨two, [F64.zero]⟩, ⟨two, [F64.one]⟩] = ⟨two, [F64.zero]⟩ ∧
    worst [⟨two, [F64.zero]⟩, ⟨two, [F64.one]⟩] = (1, ⟨two, [F64.one]⟩) := by decide
end Examples

end Nlopt.DrvCrs
