import NloptModel.Lemmas.WrapLemmas
/-!
# Wrapper-layer properties of `nlopt_optimize` (src/api/optimize.c)

Model: `Model/Wrap.lean` (`Nlopt.optimize`, tied to the C code by the S-wrap replay stream).  Every theorem holds
for every `Arith`, every capability record `caps`, every user `Env σ` over every state type, every algorithm
factory `mk : Prob → Alg` and every `fuel`.  Auxiliary definitions (`innerRun`, `algRun`, `assemble`, `earlyFixed`,
`rejectInner`, `negUser`, `minimizeView`, `reducedUser`, `reducedView`, `memoEvals`, `AllRel`, `Rejected`,
`StartExact`, `ElimQ`, …) and the concrete objects of the examples (`WrapEx`) live in `Lemmas/WrapLemmas.lean`.

* T1 (C07b) `optimize_preserves_settings(_exact)`      * T2 (C08) `max_is_min_neg`
* T3 (C02/C05) `memo_returns_best_evaluated`           * T4 (C09) `ill_posed_rejected`, `rejected_*`, `zero_dim_single_eval`,
  `zero_dim_forced_stop`, `zero_dim_no_stop`
* T5 (C11) `elim_equiv`                                * T6 (C13) `wrappers_forward_trace`, `wrappers_forward_args`
* T7 (C03/C04) `wrappers_pass_result`, `wrappers_pass_running`, `stop_request_forwarded`
* witnesses of false target statements: `optimize_preserves_settings_unconditional_false`,
  `startExact_cannot_be_dropped_negzero`, `startExact_cannot_be_dropped_nan`
-/
set_option linter.unusedSimpArgs false
set_option linter.unusedVariables false
namespace Nlopt.WrapProps
open Nlopt

/-! ## T1 (C07b): `nlopt_optimize` leaves every setting of the object as it was -/

/-- exact form, every return path: everything but the evaluation counter and the force-stop flag is unchanged;
    the flag is the last value a callback set (0 if none) — except on the `f = NULL` rejection, which returns
    before the flag is cleared. -/
theorem optimize_preserves_settings_exact {σ : Type} (A : Arith) (caps : WrapCaps) (U : Env σ) (mk : Prob → Alg)
    (fuel : Nat) (v : CoreView) (hl : Bool) (x : List F64) (f0 : F64) (st st' : σ) (o : OptOut)
    (h : optimize A caps U mk fuel v hl x f0 st = (some o, st')) :
    o.after = { v with numevals := o.after.numevals,
                       forceStop := if v.f = 0 then v.forceStop else lastStop o.utrace } := by
  rcases optimize_some_cases h with ⟨hf, ho, _⟩ | ⟨hf, _, ho, _⟩ | ⟨hf, _, io, _, ho, _⟩
  · subst ho; rw [if_pos hf]
  · subst ho; simp [hf, lastStop]
  · subst ho; simp [hf, assemble]

/-- T1 as asked, for an object with an objective (or whose flag was clear) -/
theorem optimize_preserves_settings {σ : Type} (A : Arith) (caps : WrapCaps) (U : Env σ) (mk : Prob → Alg)
    (fuel : Nat) (v : CoreView) (hl : Bool) (x : List F64) (f0 : F64) (st st' : σ) (o : OptOut)
    (hv : v.f ≠ 0 ∨ v.forceStop = 0)
    (h : optimize A caps U mk fuel v hl x f0 st = (some o, st')) :
    o.after = { v with numevals := o.after.numevals, forceStop := lastStop o.utrace } := by
  have h1 := optimize_preserves_settings_exact A caps U mk fuel v hl x f0 st st' o h
  rcases hv with hv | hv
  · simpa [hv] using h1
  · by_cases hf : v.f = 0
    · rcases optimize_some_cases h with ⟨_, ho, _⟩ | ⟨hf', _⟩ | ⟨hf', _⟩
      · subst ho; cases v; simp_all [lastStop]
      · exact absurd hf hf'
      · exact absurd hf hf'
    · simpa [hf] using h1

/-- the individual settings, spelled out -/
theorem optimize_preserves_fields {σ : Type} (A : Arith) (caps : WrapCaps) (U : Env σ) (mk : Prob → Alg)
    (fuel : Nat) (v : CoreView) (hl : Bool) (x : List F64) (f0 : F64) (st st' : σ) (o : OptOut)
    (h : optimize A caps U mk fuel v hl x f0 st = (some o, st')) :
    o.after.maximize = v.maximize ∧ o.after.stopval = v.stopval ∧ o.after.lb = v.lb ∧ o.after.ub = v.ub ∧
    o.after.ftolRel = v.ftolRel ∧ o.after.ftolAbs = v.ftolAbs ∧ o.after.xtolRel = v.xtolRel ∧
    o.after.xtolAbs = v.xtolAbs ∧ o.after.xWeights = v.xWeights ∧ o.after.maxeval = v.maxeval ∧
    o.after.maxtime = v.maxtime ∧ o.after.pop = v.pop ∧ o.after.vs = v.vs ∧ o.after.dx = v.dx ∧
    o.after.fc = v.fc ∧ o.after.h = v.h ∧ o.after.algorithm = v.algorithm ∧ o.after.n = v.n ∧
    o.after.f = v.f ∧ o.after.fdata = v.fdata ∧ o.after.pre = v.pre ∧ o.after.params = v.params ∧
    o.after.mungeD = v.mungeD ∧ o.after.mungeC = v.mungeC := by
  have h1 := optimize_preserves_settings_exact A caps U mk fuel v hl x f0 st st' o h
  rw [h1]; simp

/-- the `f = NULL` rejection returns the object untouched, stale force-stop flag included -/
theorem optimize_nof_untouched {σ : Type} (A : Arith) (caps : WrapCaps) (U : Env σ) (mk : Prob → Alg)
    (fuel : Nat) (v : CoreView) (hl : Bool) (x : List F64) (f0 : F64) (st st' : σ) (o : OptOut)
    (hf : v.f = 0) (h : optimize A caps U mk fuel v hl x f0 st = (some o, st')) : o.after = v := by
  rw [optimize_nof _ _ _ _ _ _ _ _ _ _ hf] at h
  simp only [Prod.mk.injEq, Option.some.injEq] at h
  rw [← h.1]

/-! ## T2 (C08): maximising `f` = minimising `-f` -/

/-- `v.maximize = true`.  Run 1: the object as is, user `U`.  Run 2: the same object set to minimise with
    `stopval` negated (`minimizeView v`), user `negUser U` (objective value and gradient negated by `F64.neg`).
    `f0`, `f0'` are the previous contents of `*opt_f`; they matter only when the (reduced) dimension is 0 and the
    user returns no value, hence `hf0`. -/
theorem max_is_min_neg {σ : Type} (A : Arith) (caps : WrapCaps) (U : Env σ) (mk : Prob → Alg) (fuel : Nat)
    (v : CoreView) (hl : Bool) (x : List F64) (f0 f0' : F64) (st : σ) (hm : v.maximize = true)
    (hf0 : (innerView v true (layersOf caps v).elim).n = 0 → f0' = f0) :
    -- final user states equal (also when the fuel ran out)
    (optimize A caps U mk fuel v hl x f0 st).2 = (optimize A caps (negUser U) mk fuel (minimizeView v) hl x f0' st).2 ∧
    -- both `none` or both `some`
    ((optimize A caps U mk fuel v hl x f0 st).1 = none ↔
      (optimize A caps (negUser U) mk fuel (minimizeView v) hl x f0' st).1 = none) ∧
    ∀ o o', (optimize A caps U mk fuel v hl x f0 st).1 = some o →
      (optimize A caps (negUser U) mk fuel (minimizeView v) hl x f0' st).1 = some o' →
      o.ret = o'.ret ∧ o.x = o'.x ∧ o.atrace = o'.atrace ∧
      -- same user queries, objective answers negated
      o'.utrace = negTrace o.utrace ∧
      -- the two early rejections hand back the untouched inputs
      ((v.f = 0 ∨ earlyFixed caps v x = true) → o.x = x ∧ o.optf = f0 ∧ o'.optf = f0' ∧ o.utrace = []) ∧
      -- otherwise the reported optimum is the negation
      (¬ (v.f = 0 ∨ earlyFixed caps v x = true) → o.optf = o'.optf.neg) ∧
      -- the objects afterwards
      o.after.maximize = true ∧ o.after.stopval = v.stopval ∧
      o'.after.maximize = false ∧ o'.after.stopval = v.stopval.neg ∧
      o.after.numevals = o'.after.numevals ∧
      (v.f ≠ 0 → o.after.forceStop = o'.after.forceStop) := by
  have hf' : (minimizeView v).f = v.f := rfl
  have he' : earlyFixed caps (minimizeView v) x = earlyFixed caps v x := rfl
  by_cases hf : v.f = 0
  · rw [optimize_nof _ _ _ _ _ _ _ _ _ _ hf, optimize_nof _ _ _ _ _ _ _ _ _ _ (hf'.trans hf)]
    refine ⟨rfl, by simp, ?_⟩
    intro o o' ho ho'
    simp only [Option.some.injEq] at ho ho'
    subst ho; subst ho'
    simp [hf, hm, minimizeView, negTrace]
  · by_cases he : earlyFixed caps v x = true
    · rw [optimize_earlyFixed _ _ _ _ _ _ _ _ _ _ hf he,
        optimize_earlyFixed _ _ _ _ _ _ _ _ _ _ (by rw [hf']; exact hf) (he'.trans he)]
      refine ⟨rfl, by simp, ?_⟩
      intro o o' ho ho'
      simp only [Option.some.injEq] at ho ho'
      subst ho; subst ho'
      simp [hf, he, hm, minimizeView, negTrace]
    · simp only [Bool.not_eq_true] at he
      rw [optimize_main _ _ _ _ _ _ _ _ _ _ hf he,
        optimize_main _ _ _ _ _ _ _ _ _ _ (by rw [hf']; exact hf) (he'.trans he)]
      obtain ⟨h1, h2, h3, h4⟩ := innerRun_neg A caps U mk fuel v hl x f0 f0' st hm hf0
      rw [← h1]
      cases hio : (innerRun A caps U mk fuel v hl x f0 st).1 with
      | none => simp [h2]
      | some io =>
        refine ⟨by simp [h2], by simp, ?_⟩
        intro o o' ho ho'
        simp only [Option.some.injEq] at ho ho'
        subst ho; subst ho'
        rw [h3, h4]
        have hL : layersOf caps (minimizeView v) = { layersOf caps v with maximize := false } := rfl
        have hLm : (layersOf caps v).maximize = true := hm
        have hmx : (minimizeView v).maximize = false := rfl
        have hsv : (minimizeView v).stopval = v.stopval.neg := rfl
        simp only [assemble, hL, hLm]
        simp [hf, he, hm, hmx, hsv, lastStop_negTrace]

/-! ## T3 (C02/C05, memoized families): the result is the best evaluated point -/

/-- `(layersOf caps v).memoEvals o.utrace` is the list, in call order, of `(x, w)` for every objective invocation
    in the user trace that returned a single value `u`, with `w = if maximize then -u else u`.
    (i) If one of them lies in the box (`memoFeasible`, the test of `memoize_func`) with `w < DBL_MAX`, the list
    splits as `pre ++ (xb, wb) :: post` where `o.x = xb` bit for bit, `o.optf` is the sign-restored `wb`, i.e. exactly
    the user's value at that invocation; `xb` is in the box; `wb` strictly beats every earlier in-box non-NaN
    value (so it is the FIRST evaluation attaining the minimum) and no in-box evaluation is strictly better.
    (ii) If none is, `x` / `opt_f` are what the algorithm returned (expanded / sign restored). -/
theorem memo_returns_best_evaluated {σ : Type} (A : Arith) (caps : WrapCaps) (U : Env σ) (mk : Prob → Alg)
    (fuel : Nat) (v : CoreView) (hl : Bool) (x : List F64) (f0 : F64) (st st' : σ) (o : OptOut)
    (hmemo : (layersOf caps v).memo = true) (hf : v.f ≠ 0) (he : earlyFixed caps v x = false)
    (h : optimize A caps U mk fuel v hl x f0 st = (some o, st')) :
    ((∃ e ∈ (layersOf caps v).memoEvals o.utrace,
        memoFeasible (optV v.lb) (optV v.ub) e.1 = true ∧ F64.lt e.2 F64.dblMax = true) →
      ∃ pre xb wb post, (layersOf caps v).memoEvals o.utrace = pre ++ (xb, wb) :: post ∧
        o.x = xb ∧ o.optf = (if v.maximize then wb.neg else wb) ∧
        memoFeasible (optV v.lb) (optV v.ub) xb = true ∧ F64.lt wb F64.dblMax = true ∧
        (∀ e ∈ pre, memoFeasible (optV v.lb) (optV v.ub) e.1 = true → e.2.isNaN = false → F64.lt wb e.2 = true) ∧
        (∀ e ∈ post, memoFeasible (optV v.lb) (optV v.ub) e.1 = true → F64.lt e.2 wb = false) ∧
        (∀ e ∈ (layersOf caps v).memoEvals o.utrace,
            memoFeasible (optV v.lb) (optV v.ub) e.1 = true → F64.lt e.2 wb = false) ∧
        -- it IS a user invocation: the objective, at `o.x`, returning `o.optf`
        (∃ p ∈ o.utrace, p.1.fn = .obj ∧ p.1.x = o.x ∧ p.2.val = [o.optf])) ∧
    ((∀ e ∈ (layersOf caps v).memoEvals o.utrace,
        ¬ (memoFeasible (optV v.lb) (optV v.ub) e.1 = true ∧ F64.lt e.2 F64.dblMax = true)) →
      ∃ io, (innerRun A caps U mk fuel v hl x f0 st).1 = some io ∧
        o.x = (if (layersOf caps v).elim then expand (optV v.lb) (optV v.ub) io.x else io.x) ∧
        o.optf = (if v.maximize then io.minf.neg else io.minf)) := by
  rcases optimize_some_cases h with ⟨hf', _⟩ | ⟨_, he', _⟩ | ⟨_, _, io, hio, ho, _⟩
  · exact absurd hf' hf
  · rw [he] at he'; exact absurd he' Bool.false_ne_true
  · have hmem := innerRun_memo A caps U mk fuel v hl x f0 st
    generalize (innerRun A caps U mk fuel v hl x f0 st).2.1.1.2 = ut at hmem ho
    generalize (innerRun A caps U mk fuel v hl x f0 st).2.1.2 = m at hmem ho
    have hut : o.utrace = ut := by rw [ho]; rfl
    rw [hut]
    simp only [Layers.memoOf, hmemo, if_true, layersOf_lb, layersOf_ub] at hmem
    have hdm : ({} : MemoSt).minf = F64.dblMax := rfl
    rcases foldl_memoStep (optV v.lb) (optV v.ub) ((layersOf caps v).memoEvals ut) {} with
      ⟨h1, h2⟩ | ⟨pre, xb, wb, post, h1, h2, h3, h4, h5, h6⟩
    · -- nothing recorded
      rw [h1] at hmem
      constructor
      · rintro ⟨e, hemem, hfe, hlt⟩
        have := h2 e hemem hfe
        rw [hdm, hlt] at this; exact absurd this (by simp)
      · intro _
        refine ⟨io, hio, ?_⟩
        rw [ho, hmem, assemble_init_memo]
        exact ⟨rfl, rfl⟩
    · rw [h2] at hmem
      constructor
      · intro _
        have hall : ∀ e ∈ (layersOf caps v).memoEvals ut,
            memoFeasible (optV v.lb) (optV v.ub) e.1 = true → F64.lt e.2 wb = false := by
          intro e hemem hfe
          rw [h1] at hemem
          simp only [List.mem_append, List.mem_cons] at hemem
          rcases hemem with hp | rfl | hp
          · cases hn : e.2.isNaN with
            | true => simp [F64.lt, hn]
            | false => exact F64.lt_asymm' (h5 e hp hfe hn)
          · exact F64.lt_irrefl' _
          · exact h6 e hp hfe
        have hox : o.x = xb := by
          rw [ho, hmem]; simp only [assemble, hmemo]; rw [hdm] at h4; simp [h4]
        have hof : o.optf = (if v.maximize then wb.neg else wb) := by
          rw [ho, hmem]; simp only [assemble, hmemo, layersOf_maximize]; rw [hdm] at h4; simp [h4]
        refine ⟨pre, xb, wb, post, h1, hox, hof, h3, h4, h5, h6, hall, ?_⟩
        have hin : (xb, wb) ∈ (layersOf caps v).memoEvals ut := by rw [h1]; simp
        obtain ⟨p, u, hp, hfn, hval, hee⟩ := mem_memoEvals _ _ _ hin
        simp only [Prod.mk.injEq, layersOf_maximize] at hee
        refine ⟨p, hp, hfn, by rw [hox, hee.1], ?_⟩
        rw [hval, hof, hee.2]
        rcases Bool.eq_false_or_eq_true v.maximize with hmx | hmx <;> simp [hmx, F64.neg_neg']
      · intro hnone
        exfalso
        have hin : (xb, wb) ∈ (layersOf caps v).memoEvals ut := by rw [h1]; simp
        exact hnone _ hin ⟨h3, h4⟩

/-! ## T4 (C09): ill-posed problems are rejected before any user callback runs -/

/-- (a) no objective -/
theorem rejected_no_objective {σ : Type} (A : Arith) (caps : WrapCaps) (U : Env σ) (mk : Prob → Alg) (fuel : Nat)
    (v : CoreView) (hl : Bool) (x : List F64) (f0 : F64) (st : σ) (hf : v.f = 0) :
    Rejected (optimize A caps U mk fuel v hl x f0 st) st ∧
    ∀ o, (optimize A caps U mk fuel v hl x f0 st).1 = some o → o.x = x ∧ o.optf = f0 := by
  rw [optimize_nof _ _ _ _ _ _ _ _ _ _ hf]
  refine ⟨⟨_, rfl, rfl, rfl, rfl⟩, ?_⟩
  intro o ho; simp only [Option.some.injEq] at ho; subst ho; exact ⟨rfl, rfl⟩

/-- (b) a fixed coordinate of the start is off its bound (elimination algorithms) -/
theorem rejected_fixed_coord {σ : Type} (A : Arith) (caps : WrapCaps) (U : Env σ) (mk : Prob → Alg) (fuel : Nat)
    (v : CoreView) (hl : Bool) (x : List F64) (f0 : F64) (st : σ) (hf : v.f ≠ 0)
    (he : earlyFixed caps v x = true) :
    Rejected (optimize A caps U mk fuel v hl x f0 st) st ∧
    ∀ o, (optimize A caps U mk fuel v hl x f0 st).1 = some o → o.x = x ∧ o.optf = f0 := by
  rw [optimize_earlyFixed _ _ _ _ _ _ _ _ _ _ hf he]
  refine ⟨⟨_, rfl, rfl, rfl, rfl⟩, ?_⟩
  intro o ho; simp only [Option.some.injEq] at ho; subst ho; exact ⟨rfl, rfl⟩

/-- (c) one of the argument checks of `nlopt_optimize_` fires on the inner (possibly reduced) problem:
    bound check, infinite box for an algorithm that needs a finite one, missing local optimizer.
    `x` comes back as `expand (shrink x)` under elimination — equal to `x` exactly when `StartExact`. -/
theorem rejected_inner {σ : Type} (A : Arith) (caps : WrapCaps) (U : Env σ) (mk : Prob → Alg) (fuel : Nat)
    (v : CoreView) (hl : Bool) (x : List F64) (f0 : F64) (st : σ) (hf : v.f ≠ 0)
    (he : earlyFixed caps v x = false)
    (hn : (innerView v (layersOf caps v).maximize (layersOf caps v).elim).n ≠ 0)
    (hr : rejectInner A caps (innerView v (layersOf caps v).maximize (layersOf caps v).elim) hl (innerX caps v x) = true) :
    Rejected (optimize A caps U mk fuel v hl x f0 st) st ∧
    ∀ o, (optimize A caps U mk fuel v hl x f0 st).1 = some o →
      o.x = (if (layersOf caps v).elim then expand (optV v.lb) (optV v.ub) (shrink (optV v.lb) (optV v.ub) x) else x) ∧
      (StartExact caps v x → o.x = x) ∧
      o.optf = (if v.maximize then F64.negInf else F64.posInf) := by
  obtain ⟨ne, hir⟩ := innerRun_reject A caps U mk fuel v hl x f0 st hn hr
  rw [optimize_main _ _ _ _ _ _ _ _ _ _ hf he, hir]
  simp only [assemble_init_memo]
  refine ⟨⟨_, rfl, rfl, rfl, rfl⟩, ?_⟩
  intro o ho; simp only [Option.some.injEq] at ho; subst ho
  have hx : (if (layersOf caps v).elim = true then expand (optV v.lb) (optV v.ub) (innerX caps v x) else innerX caps v x)
      = (if (layersOf caps v).elim then expand (optV v.lb) (optV v.ub) (shrink (optV v.lb) (optV v.ub) x) else x) := by
    unfold innerX; cases (layersOf caps v).elim <;> simp [layersOf_lb, layersOf_ub]
  refine ⟨hx, ?_, ?_⟩
  · intro hse
    simp only [hx]
    cases hel : (layersOf caps v).elim with
    | false => simp
    | true =>
      obtain ⟨h1, h2, h3⟩ := hse hel
      simp [expand_shrink _ _ _ h1 h2 h3]
  · cases v.maximize <;> simp <;> decide


/-- (d) the user-level statement for the box: a start coordinate outside its bounds or `lb[i] > ub[i]`
    (`boundsFail` on the USER's box, see `boundsFail_of_index` for the index form) is rejected with or without
    dimension elimination — by the pre-elimination check when the coordinate is fixed, by the bound check of the
    reduced problem when it is free. -/
theorem rejected_bounds {σ : Type} (A : Arith) (caps : WrapCaps) (U : Env σ) (mk : Prob → Alg) (fuel : Nat)
    (v : CoreView) (hl : Bool) (x : List F64) (f0 : F64) (st : σ) (hf : v.f ≠ 0) (hx : x.length = v.n)
    (hb : boundsFail (optV v.lb) (optV v.ub) x = true) :
    Rejected (optimize A caps U mk fuel v hl x f0 st) st ∧
    ∀ o, (optimize A caps U mk fuel v hl x f0 st).1 = some o → StartExact caps v x → o.x = x := by
  cases he : earlyFixed caps v x with
  | true =>
    have := rejected_fixed_coord A caps U mk fuel v hl x f0 st hf he
    exact ⟨this.1, fun o ho _ => (this.2 o ho).1⟩
  | false =>
    have key : (innerView v (layersOf caps v).maximize (layersOf caps v).elim).n ≠ 0 ∧
        rejectInner A caps (innerView v (layersOf caps v).maximize (layersOf caps v).elim) hl (innerX caps v x) = true := by
      unfold rejectInner innerX
      rw [innerView_n, innerView_lb, innerView_ub]
      cases hel : (layersOf caps v).elim with
      | false =>
        simp only [Bool.false_eq_true, if_false, hb, Bool.true_or, and_true]
        intro h0
        rw [h0] at hx
        have : x = [] := List.length_eq_zero_iff.mp hx
        rw [this, boundsFail_nil] at hb
        exact Bool.false_ne_true hb
      | true =>
        have hfc : fixedCoordFail (optV v.lb) (optV v.ub) x = false := by
          simpa [earlyFixed, hel, layersOf_lb, layersOf_ub] using he
        have hs : boundsFail (shrink (optV v.lb) (optV v.ub) (optV v.lb)) (shrink (optV v.lb) (optV v.ub) (optV v.ub))
            (shrink (optV v.lb) (optV v.ub) x) = true := by
          rcases boundsFail_shrink _ _ _ hb with h | h
          · rw [hfc] at h; exact absurd h Bool.false_ne_true
          · exact h
        simp only [if_true, layersOf_lb, layersOf_ub, hs, Bool.true_or, and_true]
        intro h0
        rw [shrink_of_elimDimension_zero _ _ x h0, boundsFail_nil] at hs
        exact Bool.false_ne_true hs
    have := rejected_inner A caps U mk fuel v hl x f0 st hf he key.1 key.2
    exact ⟨this.1, fun o ho hse => (this.2 o ho).2.1 hse⟩

/-- (e) an algorithm that needs a local optimizer and has none -/
theorem rejected_no_local {σ : Type} (A : Arith) (caps : WrapCaps) (U : Env σ) (mk : Prob → Alg) (fuel : Nat)
    (v : CoreView) (x : List F64) (f0 : F64) (st : σ) (hf : v.f ≠ 0)
    (he : earlyFixed caps v x = false)
    (hn : (innerView v (layersOf caps v).maximize (layersOf caps v).elim).n ≠ 0)
    (hneed : caps.needLocal.contains v.algorithm = true) :
    Rejected (optimize A caps U mk fuel v false x f0 st) st ∧
    ∀ o, (optimize A caps U mk fuel v false x f0 st).1 = some o → StartExact caps v x → o.x = x := by
  have hr : rejectInner A caps (innerView v (layersOf caps v).maximize (layersOf caps v).elim) false (innerX caps v x) = true := by
    unfold rejectInner; rw [innerView_algorithm, hneed]; simp
  have := rejected_inner A caps U mk fuel v false x f0 st hf he hn hr
  exact ⟨this.1, fun o ho hse => (this.2 o ho).2.1 hse⟩

/-- (f) an algorithm that needs a finite box, and the box of the (reduced) problem has an infinite side -/
theorem rejected_infinite_box {σ : Type} (A : Arith) (caps : WrapCaps) (U : Env σ) (mk : Prob → Alg) (fuel : Nat)
    (v : CoreView) (hl : Bool) (x : List F64) (f0 : F64) (st : σ) (hf : v.f ≠ 0)
    (he : earlyFixed caps v x = false)
    (hn : (innerView v (layersOf caps v).maximize (layersOf caps v).elim).n ≠ 0)
    (hfin : caps.finiteAlgs.contains v.algorithm = true)
    (hbox : finiteDomain A
        (if (layersOf caps v).elim then shrink (optV v.lb) (optV v.ub) (optV v.lb) else optV v.lb)
        (if (layersOf caps v).elim then shrink (optV v.lb) (optV v.ub) (optV v.ub) else optV v.ub) = false) :
    Rejected (optimize A caps U mk fuel v hl x f0 st) st ∧
    ∀ o, (optimize A caps U mk fuel v hl x f0 st).1 = some o → StartExact caps v x → o.x = x := by
  have hr : rejectInner A caps (innerView v (layersOf caps v).maximize (layersOf caps v).elim) hl (innerX caps v x) = true := by
    unfold rejectInner; rw [innerView_algorithm, innerView_lb, innerView_ub, hfin, hbox]; simp
  have := rejected_inner A caps U mk fuel v hl x f0 st hf he hn hr
  exact ⟨this.1, fun o ho hse => (this.2 o ho).2.1 hse⟩

/-- (d) in index form: one offending coordinate `i` of the user's box suffices -/
theorem rejected_bounds_index {σ : Type} (A : Arith) (caps : WrapCaps) (U : Env σ) (mk : Prob → Alg) (fuel : Nat)
    (v : CoreView) (hl : Bool) (x : List F64) (f0 : F64) (st : σ) (hf : v.f ≠ 0) (hx : x.length = v.n)
    (i : Nat) (xi li ui : F64) (hxi : x[i]? = some xi) (hli : (optV v.lb)[i]? = some li)
    (hui : (optV v.ub)[i]? = some ui)
    (hbad : F64.lt xi li = true ∨ F64.gt xi ui = true ∨ F64.gt li ui = true) :
    Rejected (optimize A caps U mk fuel v hl x f0 st) st ∧
    ∀ o, (optimize A caps U mk fuel v hl x f0 st).1 = some o → StartExact caps v x → o.x = x :=
  rejected_bounds A caps U mk fuel v hl x f0 st hf hx (boundsFail_of_index _ _ _ i xi li ui hxi hli hui hbad)

/-- T4, all grounds in one statement -/
theorem ill_posed_rejected {σ : Type} (A : Arith) (caps : WrapCaps) (U : Env σ) (mk : Prob → Alg) (fuel : Nat)
    (v : CoreView) (hl : Bool) (x : List F64) (f0 : F64) (st : σ) (hx : x.length = v.n)
    (hbad : v.f = 0 ∨
      earlyFixed caps v x = true ∨
      boundsFail (optV v.lb) (optV v.ub) x = true ∨
      ((innerView v (layersOf caps v).maximize (layersOf caps v).elim).n ≠ 0 ∧
        rejectInner A caps (innerView v (layersOf caps v).maximize (layersOf caps v).elim) hl (innerX caps v x) = true)) :
    Rejected (optimize A caps U mk fuel v hl x f0 st) st ∧
    ∀ o, (optimize A caps U mk fuel v hl x f0 st).1 = some o → StartExact caps v x → o.x = x := by
  by_cases hf : v.f = 0
  · have := rejected_no_objective A caps U mk fuel v hl x f0 st hf
    exact ⟨this.1, fun o ho _ => (this.2 o ho).1⟩
  · cases he : earlyFixed caps v x with
    | true =>
      have := rejected_fixed_coord A caps U mk fuel v hl x f0 st hf he
      exact ⟨this.1, fun o ho _ => (this.2 o ho).1⟩
    | false =>
      rcases hbad with h | h | h | ⟨h1, h2⟩
      · exact absurd h hf
      · rw [he] at h; exact absurd h Bool.false_ne_true
      · exact rejected_bounds A caps U mk fuel v hl x f0 st hf hx h
      · have := rejected_inner A caps U mk fuel v hl x f0 st hf he h1 h2
        exact ⟨this.1, fun o ho hse => (this.2 o ho).2.1 hse⟩

/-- (g) dimension 0 (an `n = 0` object, or every coordinate eliminated): exactly one evaluation of the objective,
    at the start point; the result code is `NLOPT_FORCED_STOP` exactly when that evaluation called
    `nlopt_set_force_stop(opt, s)` with `s ≠ 0` (`return opt->force_stop ? NLOPT_FORCED_STOP : NLOPT_SUCCESS;`) and
    `NLOPT_SUCCESS` otherwise; the evaluation counter reads 1, the user's value comes back. -/
theorem zero_dim_single_eval {σ : Type} (A : Arith) (caps : WrapCaps) (U : Env σ) (mk : Prob → Alg) (fuel : Nat)
    (v : CoreView) (hl : Bool) (x : List F64) (f0 : F64) (st : σ) (hf : v.f ≠ 0)
    (he : earlyFixed caps v x = false)
    (hn : (innerView v (layersOf caps v).maximize (layersOf caps v).elim).n = 0) :
    (optimize A caps U mk fuel v hl x f0 st).2 = (U.call st (startQuery caps v x)).1 ∧
    ∃ o, (optimize A caps U mk fuel v hl x f0 st).1 = some o ∧
      o.ret = (match (U.call st (startQuery caps v x)).2.stop with
               | some s => if s ≠ 0 then rFORCED else rSUCCESS
               | none => rSUCCESS) ∧
      o.utrace = [(startQuery caps v x, (U.call st (startQuery caps v x)).2)] ∧
      o.atrace.length = 1 ∧ o.after.numevals = 1 ∧ o.x = (startQuery caps v x).x ∧
      (StartExact caps v x → o.x = x) ∧
      (∀ u, (U.call st (startQuery caps v x)).2.val = [u] → o.optf = u) := by
  rw [optimize_main _ _ _ _ _ _ _ _ _ _ hf he, innerRun_zero A caps U mk fuel v hl x f0 st hn]
  simp only []
  have hfn : (startQuery caps v x).fn = .obj := rfl
  have hx1 : (if (layersOf caps v).elim = true then expand (layersOf caps v).lb (layersOf caps v).ub (innerX caps v x)
      else innerX caps v x) = (startQuery caps v x).x := by
    simp only [startQuery, Layers.userQuery]
  generalize hua : (U.call st (startQuery caps v x)).2 = ua
  have hms := memo_first_step (layersOf caps v) (startQuery caps v x) ua
  have hval := algAnswer_obj_val (layersOf caps v) {} (startQuery caps v x) ua hfn
  have hd : F64.lt ({} : MemoSt).minf F64.dblMax = false := by decide
  refine ⟨by simp [hua], _, rfl, ?_⟩
  refine ⟨rfl, rfl, rfl, rfl, ?_⟩
  have hxx : ∀ r0 : Int, (assemble caps v
      { ret := r0, x := innerX caps v x,
        minf := ((layersOf caps v).algAnswer {} (startQuery caps v x) ua).2.val.headD f0,
        numevals := 1,
        atrace := [({ fn := .obj, x := innerX caps v x, wantGrad := false },
                    ((layersOf caps v).algAnswer {} (startQuery caps v x) ua).2)] }
      [(startQuery caps v x, ua)]
      ((layersOf caps v).algAnswer {} (startQuery caps v x) ua).1).x
      = (startQuery caps v x).x := by
    intro r0
    simp only [assemble, hx1]
    rcases hms with h | ⟨h1, h2⟩
    · rw [h, hd]; simp
    · rw [h1]; split <;> simp
  refine ⟨hxx _, ?_, ?_⟩
  · intro hse
    rw [hxx]
    simp only [startQuery, Layers.userQuery, innerX]
    cases hel : (layersOf caps v).elim with
    | false => simp
    | true =>
      obtain ⟨h1, h2, h3⟩ := hse hel
      simp [layersOf_lb, layersOf_ub, expand_shrink _ _ _ h1 h2 h3]
  · intro u hu
    rw [hu] at hval
    simp only [assemble, layersOf_maximize] at hval ⊢
    rcases hms with h | ⟨h1, h2⟩
    · rw [h, hd, hval]
      rcases Bool.eq_false_or_eq_true v.maximize with hmx | hmx <;> simp [hmx, F64.neg_neg']
    · rw [hval] at h2
      rcases Bool.eq_false_or_eq_true v.maximize with hmx | hmx <;> simp [hmx] at h2 hval <;>
        rw [hval, ← h2] <;> simp [hmx, F64.neg_neg'] <;> split <;> simp [F64.neg_neg']

/-- (g'), the objective raised a stop: if the single evaluation called `nlopt_set_force_stop(opt, s)` with `s ≠ 0`,
    the zero-dimensional call returns `NLOPT_FORCED_STOP` — still exactly one user evaluation, counter 1, same `x`. -/
theorem zero_dim_forced_stop {σ : Type} (A : Arith) (caps : WrapCaps) (U : Env σ) (mk : Prob → Alg) (fuel : Nat)
    (v : CoreView) (hl : Bool) (x : List F64) (f0 : F64) (st : σ) (hf : v.f ≠ 0)
    (he : earlyFixed caps v x = false)
    (hn : (innerView v (layersOf caps v).maximize (layersOf caps v).elim).n = 0)
    (s : Int) (hs : (U.call st (startQuery caps v x)).2.stop = some s) (hs0 : s ≠ 0) :
    (optimize A caps U mk fuel v hl x f0 st).2 = (U.call st (startQuery caps v x)).1 ∧
    ∃ o, (optimize A caps U mk fuel v hl x f0 st).1 = some o ∧
      o.ret = rFORCED ∧ o.utrace = [(startQuery caps v x, (U.call st (startQuery caps v x)).2)] ∧
      o.atrace.length = 1 ∧ o.after.numevals = 1 ∧ o.after.forceStop = s ∧ o.x = (startQuery caps v x).x ∧
      (StartExact caps v x → o.x = x) ∧
      (∀ u, (U.call st (startQuery caps v x)).2.val = [u] → o.optf = u) := by
  obtain ⟨h1, o, ho, hret, hut, hat, hne, hx, hse, hv⟩ := zero_dim_single_eval A caps U mk fuel v hl x f0 st hf he hn
  refine ⟨h1, o, ho, ?_, hut, hat, hne, ?_, hx, hse, hv⟩
  · rw [hret, hs]; simp [hs0]
  · rcases optimize_some_cases (show optimize A caps U mk fuel v hl x f0 st = (some o, _) from Prod.ext ho rfl) with
      ⟨hf', _⟩ | ⟨_, he', _⟩ | ⟨_, _, io, hio, ho', _⟩
    · exact absurd hf' hf
    · rw [he] at he'; exact absurd he' Bool.false_ne_true
    · have hfs : o.after.forceStop = lastStop o.utrace := by rw [ho']; rfl
      rw [hfs, hut]; simp [lastStop, hs]

/-- (g''), no stop raised by the single evaluation: `NLOPT_SUCCESS`. -/
theorem zero_dim_no_stop {σ : Type} (A : Arith) (caps : WrapCaps) (U : Env σ) (mk : Prob → Alg) (fuel : Nat)
    (v : CoreView) (hl : Bool) (x : List F64) (f0 : F64) (st : σ) (hf : v.f ≠ 0)
    (he : earlyFixed caps v x = false)
    (hn : (innerView v (layersOf caps v).maximize (layersOf caps v).elim).n = 0)
    (hs : (U.call st (startQuery caps v x)).2.stop = none) :
    (optimize A caps U mk fuel v hl x f0 st).2 = (U.call st (startQuery caps v x)).1 ∧
    ∃ o, (optimize A caps U mk fuel v hl x f0 st).1 = some o ∧
      o.ret = rSUCCESS ∧ o.utrace = [(startQuery caps v x, (U.call st (startQuery caps v x)).2)] ∧
      o.atrace.length = 1 ∧ o.after.numevals = 1 ∧ o.x = (startQuery caps v x).x ∧
      (StartExact caps v x → o.x = x) ∧
      (∀ u, (U.call st (startQuery caps v x)).2.val = [u] → o.optf = u) := by
  obtain ⟨h1, o, ho, hret, rest⟩ := zero_dim_single_eval A caps U mk fuel v hl x f0 st hf he hn
  exact ⟨h1, o, ho, by rw [hret, hs], rest⟩

/-! ## T5 (C11): dimension elimination = the hand-reduced problem -/

/-- `v`: an object on which `nlopt_optimize` eliminates at least one coordinate (`(layersOf caps v).elim = true`:
    the algorithm is in the elimination list and some `lb[i] == ub[i]`), well-formed box, start bitwise on the
    fixed bounds.  Run 2: the hand-reduced object `reducedView v` (n, lb, ub, xtol_abs, x_weights, dx shrunk) with the
    reduced user `reducedUser` (re-inserts `lb[i]`, calls the original callbacks with the same gradient request,
    restricts scalar gradients), started at `shrink x`.  Hypothesis on the algorithm (`ElimQ`): its queries have the
    reduced dimension and it never requests the gradient of a vector constraint (`elimdim_mfunc` passes NULL). -/
theorem elim_equiv {σ : Type} (A : Arith) (caps : WrapCaps) (U : Env σ) (mk : Prob → Alg) (fuel : Nat)
    (v : CoreView) (hl : Bool) (x : List F64) (f0 : F64) (st : σ)
    (hel : (layersOf caps v).elim = true)
    (hbox : (optV v.lb).length = (optV v.ub).length) (hx : x.length = (optV v.lb).length)
    (hfx : fixedExact (optV v.lb) (optV v.ub) x = true)
    (hmk : (mk (innerProb caps v x)).queriesSat (ElimQ (layersOf caps v))) :
    -- the algorithm is handed literally the same problem, and the reduced object needs no further elimination
    innerProb caps (reducedView v) (shrink (optV v.lb) (optV v.ub) x) = innerProb caps v x ∧
    (layersOf caps (reducedView v)).elim = false ∧
    -- same final user state, both `none` or both `some`
    (optimize A caps U mk fuel v hl x f0 st).2 =
      (optimize A caps (reducedUser (layersOf caps v) U) mk fuel (reducedView v) hl
        (shrink (optV v.lb) (optV v.ub) x) f0 st).2 ∧
    ((optimize A caps U mk fuel v hl x f0 st).1 = none ↔
      (optimize A caps (reducedUser (layersOf caps v) U) mk fuel (reducedView v) hl
        (shrink (optV v.lb) (optV v.ub) x) f0 st).1 = none) ∧
    ∀ o o', (optimize A caps U mk fuel v hl x f0 st).1 = some o →
      (optimize A caps (reducedUser (layersOf caps v) U) mk fuel (reducedView v) hl
        (shrink (optV v.lb) (optV v.ub) x) f0 st).1 = some o' →
      o.ret = o'.ret ∧ o.optf = o'.optf ∧ o.after.numevals = o'.after.numevals ∧
      o.after.forceStop = o'.after.forceStop ∧
      -- the free coordinates follow the same evaluation sequence
      o.atrace = o'.atrace ∧
      -- the final point (memoized or not) is the reduced one with the fixed coordinates re-inserted
      o.x = expand (optV v.lb) (optV v.ub) o'.x ∧
      -- user traces, entry by entry: same function and gradient request, fixed coordinates bitwise on the bound,
      -- free coordinates those of the reduced query, reduced answer = restriction of the full answer
      AllRel (fun u r =>
          u.1.fn = r.1.fn ∧ u.1.wantGrad = r.1.wantGrad ∧
          u.1.x = expand (optV v.lb) (optV v.ub) r.1.x ∧
          fixedExact (optV v.lb) (optV v.ub) u.1.x = true ∧
          shrink (optV v.lb) (optV v.ub) u.1.x = r.1.x ∧
          r.2 = redAns (layersOf caps v) r.1.fn u.2) o.utrace o'.utrace := by
  have hLr := layersOf_reducedView' caps v
  have hLr_elim : (layersOf caps (reducedView v)).elim = false := by rw [hLr]; rfl
  refine ⟨innerProb_reducedView caps v x hel, hLr_elim, ?_⟩
  have hf' : (reducedView v).f = v.f := rfl
  have he : earlyFixed caps v x = false := by
    unfold earlyFixed
    rw [layersOf_lb, layersOf_ub, fixedCoordFail_of_exact _ _ _ hfx]; simp
  have he' : earlyFixed caps (reducedView v) (shrink (optV v.lb) (optV v.ub) x) = false := by
    unfold earlyFixed; rw [hLr_elim]; rfl
  by_cases hf : v.f = 0
  · rw [optimize_nof _ _ _ _ _ _ _ _ _ _ hf, optimize_nof _ _ _ _ _ _ _ _ _ _ (hf'.trans hf)]
    refine ⟨rfl, by simp, ?_⟩
    intro o o' ho ho'
    simp only [Option.some.injEq] at ho ho'
    subst ho; subst ho'
    refine ⟨rfl, rfl, rfl, rfl, rfl, ?_, .nil⟩
    exact (expand_shrink _ _ _ hbox hx hfx).symm
  · rw [optimize_main _ _ _ _ _ _ _ _ _ _ hf he,
      optimize_main _ _ _ _ _ _ _ _ _ _ (by rw [hf']; exact hf) he']
    obtain ⟨h1, h2, h3, h4, h5⟩ := innerRun_elim A caps U mk fuel v hl x f0 st hel hbox hx hmk
    rw [← h1]
    cases hio : (innerRun A caps U mk fuel v hl x f0 st).1 with
    | none => simp [h2]
    | some io =>
      refine ⟨by simp [h2], by simp, ?_⟩
      intro o o' ho ho'
      simp only [Option.some.injEq] at ho ho'
      subst ho; subst ho'
      have hstop : lastStop (innerRun A caps U mk fuel v hl x f0 st).2.1.1.2 =
          lastStop (innerRun A caps (reducedUser (layersOf caps v) U) mk fuel (reducedView v) hl
            (shrink (optV v.lb) (optV v.ub) x) f0 st).2.1.1.2 := by
        apply lastStop_congr
        refine h5.mono ?_
        rintro u r _ _ ⟨_, _, hr⟩
        rw [hr]; unfold redAns; split <;> rfl
      have hr1 : (layersOf caps v).reduced.maximize = (layersOf caps v).maximize := rfl
      have hr2 : (layersOf caps v).reduced.memo = (layersOf caps v).memo := rfl
      have hr3 : (layersOf caps v).reduced.elim = false := rfl
      have hnum : (reducedView v).numevals = v.numevals := rfl
      refine ⟨rfl, ?_, rfl, ?_, rfl, ?_, ?_⟩
      · rw [assemble_optf, assemble_optf, hLr, hr1, hr2, h3]
      · simp only [assemble, hstop]
      · rw [assemble_x, assemble_x, hLr, hr2, hr3, h3, h4, hel]
        simp only [if_true, Bool.false_eq_true, if_false, layersOf_lb, layersOf_ub]
        split
        · cases (innerRun A caps (reducedUser (layersOf caps v) U) mk fuel (reducedView v) hl
            (shrink (optV v.lb) (optV v.ub) x) f0 st).2.1.2.bestx <;> rfl
        · rfl
      · show AllRel _ (innerRun A caps U mk fuel v hl x f0 st).2.1.1.2
          (innerRun A caps (reducedUser (layersOf caps v) U) mk fuel (reducedView v) hl
            (shrink (optV v.lb) (optV v.ub) x) f0 st).2.1.1.2
        refine h5.mono ?_
        rintro u r _ _ ⟨hu, hlen, hr⟩
        have hux : u.1.x = expand (optV v.lb) (optV v.ub) r.1.x := by rw [hu]; rfl
        refine ⟨by rw [hu], by rw [hu], hux, ?_, ?_, hr⟩
        · rw [hux]; exact fixedExact_expand _ _ _
        · rw [hux]; exact shrink_expand _ _ _ hlen

/-! ## T6 (C13): the wrappers forward the arguments -/

/-- unconditional part: on every return path the algorithm's trace and the user's trace have the same length
    (one user invocation per query of the algorithm, none after it returned) and correspond entry by entry:
    same function, the user's point is the algorithm's (expanded under elimination), the gradient request is the
    algorithm's except for vector constraints under elimination, the stop request reaches the algorithm, and the
    answer the algorithm got is `ansOf` of the user's. -/
theorem wrappers_forward_trace {σ : Type} (A : Arith) (caps : WrapCaps) (U : Env σ) (mk : Prob → Alg) (fuel : Nat)
    (v : CoreView) (hl : Bool) (x : List F64) (f0 : F64) (st st' : σ) (o : OptOut)
    (h : optimize A caps U mk fuel v hl x f0 st = (some o, st')) :
    o.atrace.length = o.utrace.length ∧
    AllRel (fun a u =>
        u.1.fn = a.1.fn ∧
        u.1.x = (if (layersOf caps v).elim then expand (optV v.lb) (optV v.ub) a.1.x else a.1.x) ∧
        u.1.wantGrad = (if (layersOf caps v).elim && (layersOf caps v).isVec a.1.fn then false else a.1.wantGrad) ∧
        a.2.stop = u.2.stop ∧
        a.2 = (layersOf caps v).ansOf u.1 u.2) o.atrace o.utrace := by
  rcases optimize_some_cases h with ⟨_, ho, _⟩ | ⟨_, _, ho, _⟩ | ⟨_, _, io, hio, ho, _⟩
  · subst ho; exact ⟨rfl, .nil⟩
  · subst ho; exact ⟨rfl, .nil⟩
  · have := innerRun_fwd A caps U mk fuel v hl x f0 st (fun _ => True) (fun _ _ _ _ _ => trivial)
      (fun _ => trivial) io hio
    have hat : o.atrace = io.atrace := by rw [ho]; rfl
    have hut : o.utrace = (innerRun A caps U mk fuel v hl x f0 st).2.1.1.2 := by rw [ho]; rfl
    rw [hat, hut]
    refine ⟨this.length_eq, this.mono ?_⟩
    rintro a u _ _ ⟨⟨h1, h2⟩, _⟩
    refine ⟨by rw [h1]; rfl, by rw [h1]; rfl, by rw [h1]; rfl, by rw [h2, ansOf_stop], h2⟩

/-- T6 with the dimension bookkeeping: if the algorithm only issues queries of the dimension of the problem it
    was given, every user callback receives a point of the dimension of the user's object. -/
theorem wrappers_forward_args {σ : Type} (A : Arith) (caps : WrapCaps) (U : Env σ) (mk : Prob → Alg) (fuel : Nat)
    (v : CoreView) (hl : Bool) (x : List F64) (f0 : F64) (st st' : σ) (o : OptOut)
    (hmk : (mk (innerProb caps v x)).queriesSat (fun q => q.x.length = (innerProb caps v x).v.n))
    (hx : x.length = v.n)
    (hbox : (layersOf caps v).elim = true → (optV v.lb).length = v.n ∧ (optV v.ub).length = v.n)
    (h : optimize A caps U mk fuel v hl x f0 st = (some o, st')) :
    o.atrace.length = o.utrace.length ∧
    AllRel (fun a u =>
        a.1.x.length = (innerProb caps v x).v.n ∧ u.1.x.length = v.n ∧
        u.1.fn = a.1.fn ∧
        u.1.x = (if (layersOf caps v).elim then expand (optV v.lb) (optV v.ub) a.1.x else a.1.x) ∧
        u.1.wantGrad = (if (layersOf caps v).elim && (layersOf caps v).isVec a.1.fn then false else a.1.wantGrad))
      o.atrace o.utrace := by
  have hn0 : (innerProb caps v x).v.n = (innerView v (layersOf caps v).maximize (layersOf caps v).elim).n := rfl
  rcases optimize_some_cases h with ⟨_, ho, _⟩ | ⟨_, _, ho, _⟩ | ⟨_, _, io, hio, ho, _⟩
  · subst ho; exact ⟨rfl, .nil⟩
  · subst ho; exact ⟨rfl, .nil⟩
  · have hx0 : (innerView v (layersOf caps v).maximize (layersOf caps v).elim).n = 0 →
        (innerX caps v x).length = (innerProb caps v x).v.n := by
      intro _
      rw [hn0, innerView_n]
      unfold innerX
      cases hel : (layersOf caps v).elim with
      | false => simpa using hx
      | true =>
        obtain ⟨h1, h2⟩ := hbox hel
        simp only [if_true, layersOf_lb, layersOf_ub]
        exact length_shrink _ _ _ (h1.trans h2.symm) (hx.trans h1.symm)
    have := innerRun_fwd A caps U mk fuel v hl x f0 st (fun q => q.x.length = (innerProb caps v x).v.n)
      hmk hx0 io hio
    have hat : o.atrace = io.atrace := by rw [ho]; rfl
    have hut : o.utrace = (innerRun A caps U mk fuel v hl x f0 st).2.1.1.2 := by rw [ho]; rfl
    rw [hat, hut]
    refine ⟨this.length_eq, this.mono ?_⟩
    rintro a u _ _ ⟨⟨h1, h2⟩, h3⟩
    have hux : u.1.x = (if (layersOf caps v).elim then expand (optV v.lb) (optV v.ub) a.1.x else a.1.x) := by
      rw [h1]; rfl
    refine ⟨h3, ?_, by rw [h1]; rfl, hux, by rw [h1]; rfl⟩
    rw [hux]
    cases hel : (layersOf caps v).elim with
    | false =>
      simp only [Bool.false_eq_true, if_false]
      rw [h3, hn0, innerView_n, hel]; simp
    | true =>
      obtain ⟨hb1, hb2⟩ := hbox hel
      simp only [if_true]
      rw [length_expand _ _ _ (hb1.trans hb2.symm), hb1]

/-! ## T7 (C03/C04 glue) -/

/-- whenever the algorithm was started, `nlopt_optimize` returns ITS result code (FORCED_STOP and every other code
    included), the object's evaluation counter is the algorithm's, and the traces are those of its run -/
theorem wrappers_pass_result {σ : Type} (A : Arith) (caps : WrapCaps) (U : Env σ) (mk : Prob → Alg) (fuel : Nat)
    (v : CoreView) (hl : Bool) (x : List F64) (f0 : F64) (st st' : σ) (o : OptOut)
    (hf : v.f ≠ 0) (he : earlyFixed caps v x = false)
    (hs : (innerRun A caps U mk fuel v hl x f0 st).2.2 = true)
    (h : optimize A caps U mk fuel v hl x f0 st = (some o, st')) :
    ∃ r, (algRun caps U mk fuel v x st).1 = some r ∧
      o.ret = r.ret ∧ o.after.numevals = r.numevals ∧
      o.atrace = (algRun caps U mk fuel v x st).2.2 ∧
      o.utrace = (algRun caps U mk fuel v x st).2.1.1.2 ∧
      st' = (algRun caps U mk fuel v x st).2.1.1.1 ∧
      ((layersOf caps v).memo = false →
        o.x = (if (layersOf caps v).elim then expand (optV v.lb) (optV v.ub) r.x else r.x) ∧
        o.optf = (if v.maximize then r.minf.neg else r.minf)) := by
  obtain ⟨hn, hr⟩ := innerRun_started A caps U mk fuel v hl x f0 st hs
  have heq := innerRun_eq_algRun A caps U mk fuel v hl x f0 st hn hr
  rcases optimize_some_cases h with ⟨hf', _⟩ | ⟨_, he', _⟩ | ⟨_, _, io, hio, ho, hst⟩
  · exact absurd hf' hf
  · rw [he] at he'; exact absurd he' Bool.false_ne_true
  · rw [heq] at hio ho hst
    simp only [Option.map_eq_some_iff] at hio
    obtain ⟨r, hr1, hr2⟩ := hio
    refine ⟨r, hr1, ?_⟩
    subst hr2
    subst ho
    refine ⟨rfl, rfl, rfl, rfl, hst, ?_⟩
    intro hm
    simp [assemble, hm, layersOf_lb, layersOf_ub, layersOf_maximize]

/-- and when the algorithm is still running when the fuel runs out, so is `nlopt_optimize` -/
theorem wrappers_pass_running {σ : Type} (A : Arith) (caps : WrapCaps) (U : Env σ) (mk : Prob → Alg) (fuel : Nat)
    (v : CoreView) (hl : Bool) (x : List F64) (f0 : F64) (st : σ)
    (h : (optimize A caps U mk fuel v hl x f0 st).1 = none) :
    (innerRun A caps U mk fuel v hl x f0 st).2.2 = true ∧ (algRun caps U mk fuel v x st).1 = none := by
  obtain ⟨hf, he, hnone⟩ := optimize_none_iff.mp h
  by_cases hn : (innerView v (layersOf caps v).maximize (layersOf caps v).elim).n = 0
  · rw [innerRun_zero A caps U mk fuel v hl x f0 st hn] at hnone; simp at hnone
  · cases hr : rejectInner A caps (innerView v (layersOf caps v).maximize (layersOf caps v).elim) hl (innerX caps v x) with
    | true =>
      obtain ⟨ne, hir⟩ := innerRun_reject A caps U mk fuel v hl x f0 st hn hr
      rw [hir] at hnone; simp at hnone
    | false =>
      rw [innerRun_eq_algRun A caps U mk fuel v hl x f0 st hn hr] at hnone ⊢
      simp only [Option.map_eq_none_iff] at hnone
      exact ⟨rfl, hnone⟩

/-- the algorithm sees every stop request: `Answer.stop` goes through `algAnswer` unchanged -/
theorem stop_request_forwarded (L : Layers) (m : MemoSt) (uq : Query) (ua : Answer) :
    (L.algAnswer m uq ua).2.stop = ua.stop := by
  rw [algAnswer_snd, ansOf_stop]

open Nlopt.WrapEx

/-! ## non-vacuity examples and witnesses

Objects: `WrapEx.view` (COBYLA — eliminated and memoized —, maximising, n = 2, coordinate 0 fixed at +0.0,
coordinate 1 in [0, 2], stale counter 5, stale force-stop flag 9), `WrapEx.alg` (two objective queries in the
reduced dimension, then FORCED_STOP with a deliberately poor x / minf), `WrapEx.user a b` (f = a, then b;
calls `nlopt_set_force_stop(opt, 3)` during its second invocation). -/

/-- T1: every setting survives; counter and flag are the run's (2 evaluations, last stop value 3), not the stale 5 / 9 -/
example : exRun.1.map (·.after) = some { view with numevals := 2, forceStop := 3 } := by decide
example : view.f ≠ 0 ∧ view.numevals = 5 ∧ view.forceStop = 9 := by decide

/-- WITNESS (T1 as literally stated is false): on the `f = NULL` rejection the force-stop flag is NOT cleared — the
    object still reads 9 although no callback ran (`lastStop [] = 0`). -/
theorem forceStop_stale_without_objective :
    (optimize (arith F64.zero) caps (user F64.one two) alg 10 { view with f := 0 } false x0 F64.zero 0).1.map
      (fun o => (o.ret, o.after.forceStop, lastStop o.utrace)) = some (rINVALID, 9, 0) := by decide

theorem optimize_preserves_settings_unconditional_false :
    ¬ (∀ (v : CoreView) (o : OptOut) (st' : Nat),
        optimize (arith F64.zero) caps (user F64.one two) alg 10 v false x0 F64.zero 0 = (some o, st') →
        o.after = { v with numevals := o.after.numevals, forceStop := lastStop o.utrace }) := by
  intro h
  have h1 := h { view with f := 0 } _ _ (optimize_nof _ _ _ _ _ _ _ _ _ _ rfl)
  have h2 := congrArg CoreView.forceStop h1
  revert h2
  decide

/-- T2: the maximising run reports +2.0, the minimising run of `-f` reports -2.0 (f0' = 2.0 ≠ f0 is allowed here:
    the reduced dimension is 1) -/
example : exRun.1.map (·.optf) = some two := by decide
example : (optimize (arith F64.zero) caps (negUser (user F64.one two)) alg 10 (minimizeView view) false x0 two 0).1.map
    (·.optf) = some negTwo := by decide
example : view.maximize = true ∧ (innerView view true (layersOf caps view).elim).n ≠ 0 := by decide

/-- T3 (i): the memo saw (0, 1) ↦ -1 and (0, 0.5) ↦ -2; the algorithm answered x = 1.0, minf = 0; `nlopt_optimize`
    hands back the second evaluation and the user's value there -/
example : (layersOf caps view).memo = true ∧ view.f ≠ 0 ∧ earlyFixed caps view x0 = false := by decide
example : exRun.1.map (fun o => (layersOf caps view).memoEvals o.utrace) =
    some [([F64.zero, F64.one], F64.negOne), ([F64.zero, half], negTwo)] := by decide
example : exRun.1.map (fun o => (o.x, o.optf)) = some ([F64.zero, half], two) := by decide
/-- T3 (ii): minimising, the user returns +inf then NaN: nothing is recorded, the algorithm's own answer comes back -/
example : (optimize (arith F64.zero) caps (user F64.posInf F64.qnan) alg 10 { view with maximize := false } false x0
    F64.zero 0).1.map (fun o => (o.x, o.optf)) = some ([F64.zero, F64.one], F64.zero) := by decide

/-- T4 (a): no objective -/
example : optimize (arith F64.zero) caps (user F64.one two) alg 10 { view with f := 0 } false x0 half 0 =
    (some { ret := rINVALID, x := x0, optf := half, after := { view with f := 0 }, utrace := [] }, 0) := by decide
/-- T4 (b): fixed coordinate of the start off its bound -/
example : earlyFixed caps view [F64.one, half] = true := by decide
example : (optimize (arith F64.zero) caps (user F64.one two) alg 10 view false [F64.one, half] half 0).1.map
    (fun o => (o.ret, o.x, o.optf, o.utrace)) = some (rINVALID, [F64.one, half], half, []) := by decide
/-- T4 (d): free coordinate of the start below its bound; note `*opt_f` is overwritten (-inf: HUGE_VAL, sign flipped) -/
example : boundsFail (optV view.lb) (optV view.ub) [F64.zero, negTwo] = true ∧
    earlyFixed caps view [F64.zero, negTwo] = false := by decide
example : (optimize (arith F64.zero) caps (user F64.one two) alg 10 view false [F64.zero, negTwo] half 0).1.map
    (fun o => (o.ret, o.x, o.optf, o.utrace)) = some (rINVALID, [F64.zero, negTwo], F64.negInf, []) := by decide
/-- T4 (d'): lb > ub on the free coordinate -/
example : (optimize (arith F64.zero) caps (user F64.one two) alg 10
    { view with lb := some [F64.zero, two], ub := some [F64.zero, F64.one] } false [F64.zero, two] half 0).1.map
    (fun o => (o.ret, o.x, o.utrace)) = some (rINVALID, [F64.zero, two], []) := by decide
/-- T4 (e): G_MLSL (38) without a local optimizer -/
example : (optimize (arith F64.zero) caps (user F64.one two) alg 10 { view with algorithm := 38 } false x0 half 0).1.map
    (fun o => (o.ret, o.x, o.utrace)) = some (rINVALID, x0, []) := by decide
/-- T4 (f): DIRECT (0) on a box whose width is reported infinite -/
example : (optimize (arith F64.posInf) caps (user F64.one two) alg 10 { view with algorithm := 0 } false x0 half 0).1.map
    (fun o => (o.ret, o.x, o.utrace)) = some (rINVALID, x0, []) := by decide
/-- T4 (g): every coordinate fixed: one evaluation, SUCCESS, counter 1, the user's value -/
example : (optimize (arith F64.zero) caps (user F64.one two) alg 10
    { view with lb := some [F64.zero, F64.one], ub := some [F64.zero, F64.one] } false [F64.zero, F64.one] half 0).1.map
    (fun o => (o.ret, o.x, o.optf, o.after.numevals, o.utrace.length)) =
    some (rSUCCESS, [F64.zero, F64.one], F64.one, 1, 1) := by decide
/-- T4 (g'): the same, but the single evaluation calls `nlopt_set_force_stop(opt, 3)` (user started in state 1):
    FORCED_STOP, still one evaluation, counter 1, the user's value, the flag reads 3 -/
example : (optimize (arith F64.zero) caps (user F64.one two) alg 10
    { view with lb := some [F64.zero, F64.one], ub := some [F64.zero, F64.one] } false [F64.zero, F64.one] half 1).1.map
    (fun o => (o.ret, o.x, o.optf, o.after.numevals, o.utrace.length, o.after.forceStop)) =
    some (rFORCED, [F64.zero, F64.one], two, 1, 1, 3) := by decide

/-- WITNESS (T4, "x unchanged" needs `StartExact`): start (-0.0, -2.0) with the fixed bound +0.0.  The pre-elimination
    check passes (`-0.0 < +0.0` is false), the bound check of the reduced problem rejects the call — and `x` comes
    back as (+0.0, -2.0): `nlopt_optimize` modified `x` on an `NLOPT_INVALID_ARGS` return. -/
theorem startExact_cannot_be_dropped_negzero :
    fixedCoordFail (optV view.lb) (optV view.ub) [negZero, negTwo] = false ∧
    fixedExact (optV view.lb) (optV view.ub) [negZero, negTwo] = false ∧
    (optimize (arith F64.zero) caps (user F64.one two) alg 10 view false [negZero, negTwo] half 0).1.map
      (fun o => (o.ret, o.x, o.utrace)) = some (rINVALID, [F64.zero, negTwo], []) ∧
    [negZero, negTwo] ≠ [F64.zero, negTwo] := by decide

/-- same with a NaN in the fixed coordinate: it is silently replaced by the bound -/
theorem startExact_cannot_be_dropped_nan :
    fixedCoordFail (optV view.lb) (optV view.ub) [F64.qnan, negTwo] = false ∧
    (optimize (arith F64.zero) caps (user F64.one two) alg 10 view false [F64.qnan, negTwo] half 0).1.map
      (fun o => (o.ret, o.x, o.utrace)) = some (rINVALID, [F64.zero, negTwo], []) := by decide

/-- ... and on the success path the same start coordinate reaches the user as +0.0 -/
example : (optimize (arith F64.zero) caps (user F64.one two) alg 10 view false [negZero, half] half 0).1.map
    (fun o => o.utrace.map (·.1.x)) = some [[F64.zero, F64.one], [F64.zero, half]] := by decide

/-- T5: hypotheses hold for the reference objects -/
example : (layersOf caps view).elim = true ∧ (optV view.lb).length = (optV view.ub).length ∧
    x0.length = (optV view.lb).length ∧ fixedExact (optV view.lb) (optV view.ub) x0 = true := by decide
example : (alg (innerProb caps view x0)).queriesSat (ElimQ (layersOf caps view)) :=
  alg_queriesSat _ _ (by unfold ElimQ; decide) (by unfold ElimQ; decide)
/-- T5: the reduced run ends at (0.5), the full run at (+0.0, 0.5); same value, code, counter -/
example : (optimize (arith F64.zero) caps (reducedUser (layersOf caps view) (user F64.one two)) alg 10 (reducedView view)
    false (shrink (optV view.lb) (optV view.ub) x0) F64.zero 0).1.map (fun o => (o.ret, o.x, o.optf, o.after.numevals)) =
    some (rFORCED, [half], two, 2) := by decide
example : exRun.1.map (fun o => (o.ret, o.x, o.optf, o.after.numevals)) =
    some (rFORCED, [F64.zero, half], two, 2) := by decide
/-- T5: the reduced user hands back the gradient restricted to the free coordinate -/
example : (optimize (arith F64.zero) caps (reducedUser (layersOf caps view) (user F64.one two)) alg 10 (reducedView view)
    false (shrink (optV view.lb) (optV view.ub) x0) F64.zero 0).1.map (fun o => o.utrace.map (·.2.grad)) =
    some [none, some [two]] := by decide

/-- T6: hypotheses, and the two traces -/
example : (alg (innerProb caps view x0)).queriesSat (fun q => q.x.length = (innerProb caps view x0).v.n) :=
  alg_queriesSat _ _ (by decide) (by decide)
example : x0.length = view.n ∧ (optV view.lb).length = view.n ∧ (optV view.ub).length = view.n := by decide
example : exRun.1.map (fun o => (o.atrace.map (·.1.x), o.utrace.map (·.1.x), o.utrace.map (·.1.wantGrad))) =
    some ([[F64.one], [half]], [[F64.zero, F64.one], [F64.zero, half]], [false, true]) := by decide

/-- T7: the algorithm's FORCED_STOP (-5) and its counter come back; the algorithm was started -/
example : (innerRun (arith F64.zero) caps (user F64.one two) alg 10 view false x0 F64.zero 0).2.2 = true := by decide
example : exRun.1.map (fun o => (o.ret, o.after.numevals)) = some (-5, 2) := by decide
/-- T7: the stop request of the second user invocation reaches the algorithm -/
example : exRun.1.map (fun o => o.atrace.map (·.2.stop)) = some [none, some 3] := by decide
/-- out of fuel: still running -/
example : (optimize (arith F64.zero) caps (user F64.one two) alg 2 view false x0 F64.zero 0).1 = none := by decide

/-- the exact relation for vector constraints under elimination (why T5 restricts the algorithm): the algorithm asks
    for the gradient, the user is called WITHOUT a gradient buffer (`elimdim_mfunc` passes NULL) and the algorithm
    gets none -/
example : (optimize (arith F64.zero) caps (user F64.one two) algVec 10 viewVec false x0 F64.zero 0).1.map
    (fun o => (o.atrace.map (·.1.wantGrad), o.utrace.map (·.1.wantGrad), o.atrace.map (·.2.grad))) =
    some ([true], [false], [none]) := by decide

end Nlopt.WrapProps
