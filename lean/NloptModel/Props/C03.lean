import NloptModel.Model.Stop
import NloptModel.Lemmas.F64Order
/-!
# C03 — evaluation and time limits (shared predicates and budget hand-down)

Model: `Model/Stop.lean` (transcription of `nlopt_stop_evals`, `nlopt_stop_time_`, `nlopt_stop_evalstime`,
`nlopt_stop_forced` and of the override rule of `nlopt_optimize_limited`).  The per-algorithm part of C03 (how many
evaluations an algorithm makes after a predicate became true) is covered by the wrapper theorems (`wrappers_pass_result`:
the counter the user reads is the algorithm's counter; `zero_dim_single_eval`) and by the monitors.
-/
namespace Nlopt.C03
open Nlopt Nlopt.Stop

/-- the evaluation limit fires exactly when a positive limit has been reached -/
theorem stop_evals_iff (maxeval nevals : Int) :
    evals maxeval nevals = true ↔ (0 < maxeval ∧ maxeval ≤ nevals) := by
  simp [evals]

/-- `MAXEVAL_REACHED` can only be reported when at least `maxeval` evaluations were counted -/
theorem maxeval_reached_sound (maxeval nevals : Int) (h : evals maxeval nevals = true) : maxeval ≤ nevals :=
  ((stop_evals_iff _ _).mp h).2

/-- once exhausted, the limit stays exhausted while the counter does not decrease -/
theorem stop_evals_mono (maxeval k k' : Int) (h : evals maxeval k = true) (hk : k ≤ k') : evals maxeval k' = true := by
  rw [stop_evals_iff] at *; omega

/-- no limit (`maxeval ≤ 0`) never fires -/
theorem stop_evals_unlimited (maxeval k : Int) (h : maxeval ≤ 0) : evals maxeval k = false := by
  simp [evals]; omega

/-- with a positive limit the counter can grow by at most `maxeval` steps of one before the predicate fires: after
    `maxeval` increments from 0 it is true (no run can evaluate forever past a check site) -/
theorem stop_evals_fires_by (maxeval : Int) (h : 0 < maxeval) : evals maxeval maxeval = true := by
  simp [evals]; omega

/-- monotone subtraction: the named IEEE fact used for the time predicate (true of round-to-nearest for non-NaN
    operands; a hypothesis, not an axiom) -/
def SubMono (A : Arith) : Prop :=
  ∀ a b c : F64, F64.le a b = true → (A.sub a c).isNaN = false → (A.sub b c).isNaN = false →
    F64.le (A.sub a c) (A.sub b c) = true

/-- the time limit is monotone in the clock: once `T` has elapsed it has elapsed at every later reading -/
theorem stop_time_mono (A : Arith) (hA : SubMono A) (start maxtime now now' : F64)
    (h : time A start maxtime now = true) (hle : F64.le now now' = true)
    (hn : (A.sub now' start).isNaN = false) : time A start maxtime now' = true := by
  simp only [time, Bool.and_eq_true] at *
  refine ⟨h.1, ?_⟩
  have h2 := h.2
  have hnn : (A.sub now start).isNaN = false := by
    simp [F64.ge, F64.le] at h2; exact h2.1.2
  have hm := hA now now' start hle hnn hn
  simp only [F64.ge] at *
  exact F64.le_trans' h2 hm

/-- `MAXTIME_REACHED` is only reported when the clock reading satisfies `now - start ≥ maxtime > 0` -/
theorem maxtime_reached_sound (A : Arith) (start maxtime now : F64) (h : time A start maxtime now = true) :
    F64.gt maxtime F64.zero = true ∧ F64.ge (A.sub now start) maxtime = true := by
  simpa [time] using h

/-- no time limit (`maxtime ≤ 0` or NaN) never fires -/
theorem stop_time_unlimited (A : Arith) (start maxtime now : F64) (h : F64.gt maxtime F64.zero = false) :
    time A start maxtime now = false := by
  simp [time, h]

/-- the forced-stop predicate is exactly "flag non-zero" -/
theorem stop_forced_iff (s : Stopping) : forced s = true ↔ s.forceStop ≠ 0 := by
  simp [forced]

/-! ### `nlopt_optimize_limited`: which evaluation limit is in force during the nested call -/

/-- both limits positive: the smaller one -/
theorem limited_both (save m : Int) (hs : 0 < save) (hm : 0 < m) : limitedMaxeval save m = min save m := by
  unfold limitedMaxeval
  by_cases h : m < save
  · simp [h, hm]; omega
  · have : ¬ (save ≤ 0 ∨ (m > 0 ∧ m < save)) := by omega
    simp [this]; omega

/-- the object has no limit of its own: the caller's budget is used as is -/
theorem limited_child_unlimited (save m : Int) (hs : save ≤ 0) : limitedMaxeval save m = m := by
  simp [limitedMaxeval, hs]

/-- the caller passes no budget: the object's own limit stays -/
theorem limited_no_budget (save m : Int) (hs : 0 < save) (hm : m ≤ 0) : limitedMaxeval save m = save := by
  have : ¬ (save ≤ 0 ∨ (m > 0 ∧ m < save)) := by omega
  simp [limitedMaxeval, this]

/-- **hand-down hazard** (the AUGLAG defect fixed by a `fix:` commit): a remaining budget of exactly 0 handed to an object
    without its own limit means "no limit".  Callers must therefore test their limits BEFORE the nested call. -/
theorem limited_zero_budget_is_unlimited (save : Int) (hs : save ≤ 0) :
    limitedMaxeval save 0 = 0 ∧ ∀ k, evals (limitedMaxeval save 0) k = false := by
  refine ⟨by simp [limitedMaxeval, hs], fun k => ?_⟩
  rw [limited_child_unlimited save 0 hs]
  exact stop_evals_unlimited 0 k (by omega)

/-- with a positive remaining budget the nested call is limited by it: it cannot count more than `budget` evaluations
    before its own `nlopt_stop_evals` fires -/
theorem limited_positive_budget_binds (save budget : Int) (hb : 0 < budget) :
    0 < limitedMaxeval save budget ∧ limitedMaxeval save budget ≤ budget := by
  unfold limitedMaxeval
  by_cases h : save ≤ 0 ∨ (budget > 0 ∧ budget < save)
  · simp [h]; omega
  · simp [h]; omega

/-- non-vacuity -/
example : evals 5 5 = true ∧ evals 5 4 = false ∧ evals 0 100 = false := by decide
example : limitedMaxeval 0 0 = 0 ∧ limitedMaxeval 10 3 = 3 ∧ limitedMaxeval 10 0 = 10 ∧ limitedMaxeval (-1) 7 = 7 := by decide

end Nlopt.C03
