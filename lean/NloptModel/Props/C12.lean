import NloptModel.Model.Api
/-!
# C12 — a vector-valued constraint equals the same constraints added one by one

The algorithms see constraints only through (i) `nlopt_count_constraints` / `nlopt_max_constraint_dim`, (ii) the
flattened value array filled by consecutive `nlopt_eval_constraint(result + i, …)` calls, (iii) the flattened tolerance
array, (iv) gradient rows `grad + i*n`.  These are modelled on the constraint list; the theorems say that replacing a
vector constraint by its components (same order) changes none of the four — for every list of constraints (any mix of
scalar and vector ones), every m and n.
-/
namespace Nlopt.C12
open Nlopt

/-- `nlopt_count_constraints` -/
def countCons (cs : List Con) : Nat := (cs.map (·.m)).sum

/-- what evaluating one registered constraint at a point yields: m values and (if requested) an m×n gradient, row-major -/
structure Eval where
  vals : List F64
  grad : List (List F64)      -- rows

/-- the flat value array an algorithm fills: `nlopt_eval_constraint(result + offset, …)` for each constraint in order -/
def flatVals (evals : List Eval) : List F64 := evals.flatMap (·.vals)
/-- the flat row-major gradient: row `i` of the flattened constraint `i` -/
def flatGrad (evals : List Eval) : List (List F64) := evals.flatMap (·.grad)
/-- the flat tolerance array (`tol[k]` of each constraint in order) -/
def flatTol (cs : List Con) : List F64 := cs.flatMap fun c => (c.tol.map (·.v)).getD []

/-- split one m-dimensional evaluation into its m scalar components -/
def splitEval (e : Eval) : List Eval := (List.zip e.vals e.grad).map fun p => { vals := [p.1], grad := [p.2] }

/-- split a registered vector constraint with tolerance array `t` into scalar registrations (block ids irrelevant) -/
def splitCon (c : Con) : List Con :=
  ((c.tol.map (·.v)).getD []).map fun t => { c with m := 1, isVec := false, tol := some ⟨0, [t]⟩ }

theorem flatVals_split (evals : List Eval) (h : ∀ e ∈ evals, e.grad.length = e.vals.length) :
    flatVals (evals.flatMap splitEval) = flatVals evals := by
  induction evals with
  | nil => rfl
  | cons e es ih =>
    have he := h e (by simp)
    have ih' := ih (fun e' h' => h e' (by simp [h']))
    simp only [flatVals, List.flatMap_cons, List.flatMap_append] at *
    rw [ih']
    congr 1
    -- one evaluation
    have : ∀ (vs : List F64) (gs : List (List F64)), gs.length = vs.length →
        List.flatMap (fun x : Eval => x.vals) ((List.zip vs gs).map fun p => ({ vals := [p.1], grad := [p.2] } : Eval)) = vs := by
      intro vs
      induction vs with
      | nil => intro gs _; simp
      | cons v vs ihv =>
        intro gs hg
        cases gs with
        | nil => simp at hg
        | cons g gs => simp [ihv gs (by simpa using hg)]
    exact this e.vals e.grad he

theorem flatGrad_split (evals : List Eval) (h : ∀ e ∈ evals, e.grad.length = e.vals.length) :
    flatGrad (evals.flatMap splitEval) = flatGrad evals := by
  induction evals with
  | nil => rfl
  | cons e es ih =>
    have he := h e (by simp)
    have ih' := ih (fun e' h' => h e' (by simp [h']))
    simp only [flatGrad, List.flatMap_cons, List.flatMap_append] at *
    rw [ih']
    congr 1
    have : ∀ (vs : List F64) (gs : List (List F64)), gs.length = vs.length →
        List.flatMap (fun x : Eval => x.grad) ((List.zip vs gs).map fun p => ({ vals := [p.1], grad := [p.2] } : Eval)) = gs := by
      intro vs
      induction vs with
      | nil => intro gs hg; cases gs <;> simp_all
      | cons v vs ihv =>
        intro gs hg
        cases gs with
        | nil => simp at hg
        | cons g gs => simp [ihv gs (by simpa using hg)]
    exact this e.vals e.grad he

/-- the flat tolerance array of the split registrations is that of the original ones -/
theorem flatTol_split (cs : List Con) : flatTol (cs.flatMap splitCon) = flatTol cs := by
  induction cs with
  | nil => rfl
  | cons c cs ih =>
    simp only [flatTol, List.flatMap_cons, List.flatMap_append] at *
    rw [ih]
    congr 1
    simp only [splitCon]
    generalize ((c.tol.map (·.v)).getD []) = ts
    induction ts with
    | nil => rfl
    | cons t ts iht => simp [iht]

/-- the number of flattened constraints is unchanged when every tolerance array has the registered length `m` -/
theorem count_split (cs : List Con) (h : ∀ c ∈ cs, ((c.tol.map (·.v)).getD []).length = c.m) :
    countCons (cs.flatMap splitCon) = countCons cs := by
  induction cs with
  | nil => rfl
  | cons c cs ih =>
    have hc := h c (by simp)
    have ih' := ih (fun c' h' => h c' (by simp [h']))
    simp only [countCons, List.flatMap_cons, List.map_append, List.sum_append, List.map_cons, List.sum_cons] at *
    rw [ih']
    congr 1
    simp only [splitCon, List.map_map]
    rw [← hc]
    generalize ((c.tol.map (·.v)).getD []) = ts
    induction ts with
    | nil => rfl
    | cons t ts iht => simp [iht]; omega

/-- component `i`'s gradient is row `i` of the m×n array -/
theorem row_i_is_component_i (e : Eval) (i : Nat) (h : e.grad.length = e.vals.length) (hi : i < e.vals.length) :
    ((splitEval e)[i]?).map (·.grad) = some [e.grad[i]'(by omega)] := by
  simp [splitEval, List.getElem?_map, List.getElem?_zip_eq_some, hi, h ▸ hi]

/-- non-vacuity -/
example : flatVals (splitEval { vals := [F64.one, F64.zero], grad := [[F64.one], [F64.zero]] }) = [F64.one, F64.zero] := by decide

end Nlopt.C12
