/-
  C20 -- Sobol' low-discrepancy sequence (src/util/sobolseq.c, src/util/soboldata.h).

  Property theorems about the model `NloptModel/Model/Sobol.lean`; all auxiliary
  definitions (`gray`, `xorV`, `nthOutput`, `cellAt`, ...) and lemmas are in
  `NloptModel/Lemmas/SobolLemmas.lean`.  Conventions:

    * dimensions are 0-based as in the C code: `i = 0 .. sdim-1`, `1 ≤ sdim ≤ 1111`;
      dimension 0 has all direction numbers equal to 1, dimension `i ≥ 1` uses table
      column `i - 1`;
    * `genN n st0` is the state after `n` calls of `sobol_gen` following `sobol_init`;
      the `p`-th call (`p ≥ 1`) produces the point with index `p`; index 0 is the origin,
      which the generator omits;
    * a coordinate is the pair `(num, shift)` of the C expression
      `((double) x[i]) / (1U << shift)`, `shift = b[i] + 1`; its real value is
      `num / 2^shift`.  This is what the C code computes *exactly*: `(double) x` is exact
      for `x < 2^32`, `1U << shift` is a power of two, and the quotient of a double by a
      power of two is exact (no underflow possible here).  All statements below are
      therefore statements about exact integers.
    * `shiftOverflow = true` marks the evaluation of `1U << 32` (undefined behaviour).
-/
import NloptModel.Lemmas.SobolLemmas

namespace Nlopt.Sobol.Props
open Nlopt.Sobol Nlopt.Sobol.Tables

/-! ### Tables and direction numbers -/

/-- Every table column used for a dimension `i = 1 .. 1110`: the polynomial `sobol_a[i-1]`
    has degree `1 ≤ d ≤ 13` (so only rows `0 .. MAXDEG` of `sobol_minit` are read; note
    that `d = MAXDEG + 1 = 13` does occur) and constant coefficient 1, and every initial
    direction number actually read, `sobol_minit[j][i-1]` with `j < d`, is odd and
    `< 2^(j+1)`. -/
theorem table_wellformed (i : Nat) (h1 : 1 ≤ i) (h2 : i < 1111) :
    1 ≤ degree (sobolA (i - 1)) ∧ degree (sobolA (i - 1)) ≤ 13 ∧ sobolA (i - 1) % 2 = 1 ∧
    ∀ j, j < degree (sobolA (i - 1)) →
      sobolMinit j (i - 1) % 2 = 1 ∧ sobolMinit j (i - 1) < 2 ^ (j + 1) :=
  entry_facts (i - 1) (by omega)

/-- `MAXDIM = 1111`, and the table has exactly `MAXDIM - 1` columns. -/
theorem table_size : maxdim = 1111 ∧ sobolTable.length = 1110 := ⟨rfl, table_len⟩

/-- All 32 direction numbers of all 1111 dimensions are odd and `m[j] < 2^(j+1)`. -/
theorem direction_numbers_ok (i : Nat) (hi : i < 1111) :
    (initM i).length = 32 ∧
    ∀ j, j < 32 → (initM i).getD j 0 % 2 = 1 ∧ (initM i).getD j 0 < 2 ^ (j + 1) := by
  obtain ⟨_, hlen, hok⟩ := initM_ok i hi
  exact ⟨hlen, fun j hj => hok j (by rw [hlen]; exact hj)⟩

/-- No 32-bit overflow in `sobol_init`: the computation with every `<<`/`*` reduced
    mod 2^32 (the model) gives the same direction numbers as unbounded arithmetic. -/
theorem direction_numbers_no_overflow (i : Nat) (hi : i < 1111) : initM i = initMExact i :=
  (initM_ok i hi).1

/-- `sobol_init` succeeds exactly for `1 ≤ sdim ≤ 1111`. -/
theorem init_succeeds_iff (sdim : Nat) : (init sdim).isSome = true ↔ 1 ≤ sdim ∧ sdim ≤ 1111 := by
  constructor
  · intro h
    false_or_by_contra
    rename_i hc
    rw [init_none sdim (by omega)] at h
    exact Bool.noConfusion h
  · intro ⟨h1, h2⟩; rw [init_eq sdim h1 h2]; rfl

/-! ### The state after `n` points -/

/-- After `n ≤ 2^32 - 1` calls of `sobol_gen`, in every dimension `i`:
    `m` is unchanged, `b = ⌊log2 n⌋` = position of the leading bit of the Gray code of `n`
    = the largest `c = ctz(~s)` over the steps `s < n` taken so far (`maxRZ n`; 0 for
    `n = 0`), `x < 2^(b+1)`, `x` is odd for `n ≥ 1`, and the 32-bit
    fraction `x << (31 - b)` is the XOR of `V j = m[j] << (31 - j)` over the set bits `j`
    of the Gray code `n ^ (n >> 1)`. -/
theorem state_invariant (sdim : Nat) (h1 : 1 ≤ sdim) (h2 : sdim ≤ 1111) (st0 : State)
    (hinit : init sdim = some st0) (n : Nat) (hn : n ≤ 4294967295) :
    (genN n st0).n = n ∧ (genN n st0).sdim = sdim ∧ (genN n st0).dims.length = sdim ∧
    ∀ i, i < sdim → ∃ s, (genN n st0).dims[i]? = some s ∧
      s.m = initM i ∧ s.b = n.log2 ∧ s.b = (gray n).log2 ∧ s.b = maxRZ n ∧
      s.x < 2 ^ (s.b + 1) ∧ (1 ≤ n → s.x % 2 = 1) ∧
      s.x <<< (31 - s.b) = xorV (initM i) (gray n) := by
  rw [init_eq sdim h1 h2] at hinit
  cases hinit
  rw [genN_stateAt sdim n 0 (by omega), Nat.zero_add]
  refine ⟨rfl, rfl, by simp [stateAt], ?_⟩
  intro i hi
  obtain ⟨inv, _⟩ := dimRun_inv (initM i) (initM_ok i (by omega)).2 n hn
  exact ⟨_, stateAt_dim sdim n i hi, inv.hm, inv.hb.log2, by rw [gray_log2]; exact inv.hb.log2,
    inv.hb.unique (maxRZ_inv n hn), inv.hx, inv.hodd, inv.hX⟩

/-- No 32-bit overflow in `sobol_gen`: in every reachable state the update of each
    dimension with the shifts reduced mod 2^32 equals the update in unbounded arithmetic,
    and the counter `n` does not wrap. -/
theorem gen_no_overflow (sdim : Nat) (h1 : 1 ≤ sdim) (h2 : sdim ≤ 1111) (st0 : State)
    (hinit : init sdim = some st0) (n : Nat) (hn : n < 4294967295) :
    (∀ s, s ∈ (genN n st0).dims →
      stepDim wrap32 (rightzero32 n) s = stepDim id (rightzero32 n) s) ∧
    (gen1 (genN n st0)).n = n + 1 := by
  rw [init_eq sdim h1 h2] at hinit
  cases hinit
  rw [genN_stateAt sdim n 0 (by omega), Nat.zero_add, gen1_stateAt sdim n hn]
  refine ⟨?_, rfl⟩
  intro s hs
  simp only [stateAt, List.mem_map, List.mem_range] at hs
  obtain ⟨i, hi, rfl⟩ := hs
  have hm := (initM_ok i (by omega)).2
  exact (stepDim_ok _ hm n hn _ (dimRun_inv _ hm n (by omega)).1).1

/-- `sobol_gen` succeeds for the first `2^32 - 1` calls and refuses the next one. -/
theorem gen_refuses_after (sdim : Nat) (h1 : 1 ≤ sdim) (h2 : sdim ≤ 1111) (st0 : State)
    (hinit : init sdim = some st0) :
    (∀ p, 1 ≤ p → p ≤ 4294967295 → (nthOutput st0 p).isSome = true) ∧
    nthOutput st0 4294967296 = none := by
  rw [init_eq sdim h1 h2] at hinit
  cases hinit
  refine ⟨?_, nthOutput_refuse sdim⟩
  intro p hp1 hp2
  rw [nthOutput_eq sdim p hp1 hp2]; rfl

/-- The portable (non-gcc) branch of `rightzero32` computes the same value as
    `__builtin_ctz(~n)` for every `n < 2^32 - 1`; the value is `< 32`. -/
theorem rightzero32_portable (n : Nat) (hn : n < 4294967295) :
    rightzero32Portable n = rightzero32 n ∧ rightzero32 n < 32 :=
  ⟨rightzero32Portable_eq n hn, (rightzero32_spec n hn).1⟩

/-! ### Coordinates -/

/-- For the points with index `1 ≤ p ≤ 2^31 - 1`, every coordinate `(num, shift)` is
    computed without undefined behaviour (`shift ≤ 31`), `num` is odd and
    `0 < num < 2^shift`: the value `num / 2^shift` lies strictly inside (0,1). -/
theorem coords_strictly_inside (sdim : Nat) (h1 : 1 ≤ sdim) (h2 : sdim ≤ 1111) (st0 : State)
    (hinit : init sdim = some st0) (p : Nat) (hp1 : 1 ≤ p) (hp2 : p ≤ 2147483647) :
    ∃ cs, nthOutput st0 p = some cs ∧ cs.length = sdim ∧
      ∀ c, c ∈ cs → c.shiftOverflow = false ∧ c.shift ≤ 31 ∧ c.num % 2 = 1 ∧
        0 < c.num ∧ c.num < 2 ^ c.shift := by
  rw [init_eq sdim h1 h2] at hinit
  cases hinit
  refine ⟨_, nthOutput_eq sdim p hp1 (by omega), by simp, ?_⟩
  intro c hc
  simp only [List.mem_map, List.mem_range] at hc
  obtain ⟨i, hi, rfl⟩ := hc
  obtain ⟨inv, _⟩ := dimRun_inv (initM i) (initM_ok i (by omega)).2 p (by omega)
  have hb : (dimRun (initM i) p).b ≤ 30 := by
    rcases inv.hb with ⟨h, _⟩ | ⟨h, _⟩
    · omega
    · false_or_by_contra
      have : (2:Nat) ^ 31 ≤ 2 ^ (dimRun (initM i) p).b := Nat.pow_le_pow_right (by omega) (by omega)
      have : (2:Nat) ^ 31 = 2147483648 := by decide
      omega
  have hodd := inv.hodd hp1
  refine ⟨?_, ?_, hodd, ?_, inv.hx⟩
  · simp [coordOf]; omega
  · simp [coordOf]; omega
  · show 0 < (dimRun (initM i) p).x
    omega

/-- From the `2^31`-th point on, every call of `sobol_gen` evaluates `1U << 32` in every
    dimension: undefined behaviour (on x86 the divisor becomes 1 and the "coordinate" is
    the integer `x ≥ 1`, far outside (0,1)). -/
theorem coords_shift_overflow (sdim : Nat) (h1 : 1 ≤ sdim) (h2 : sdim ≤ 1111) (st0 : State)
    (hinit : init sdim = some st0) (p : Nat) (hp1 : 2147483648 ≤ p) (hp2 : p ≤ 4294967295) :
    ∃ cs, nthOutput st0 p = some cs ∧ cs.length = sdim ∧
      ∀ c, c ∈ cs → c.shiftOverflow = true ∧ c.shift = 32 := by
  rw [init_eq sdim h1 h2] at hinit
  cases hinit
  refine ⟨_, nthOutput_eq sdim p (by omega) hp2, by simp, ?_⟩
  intro c hc
  simp only [List.mem_map, List.mem_range] at hc
  obtain ⟨i, hi, rfl⟩ := hc
  obtain ⟨inv, _⟩ := dimRun_inv (initM i) (initM_ok i (by omega)).2 p hp2
  have hb31 := inv.hb.le31 (by omega)
  have hb : (dimRun (initM i) p).b = 31 := by
    rcases inv.hb with ⟨h, _⟩ | ⟨_, h⟩
    · omega
    · false_or_by_contra
      have : (2:Nat) ^ ((dimRun (initM i) p).b + 1) ≤ 2 ^ 31 := Nat.pow_le_pow_right (by omega) (by omega)
      have : (2:Nat) ^ 31 = 2147483648 := by decide
      omega
  simp [coordOf, hb]

/-! ### Stratification -/

/-- One-dimensional stratification ((0,k,1)-net property in base 2) of every coordinate.
    Indices count from the omitted origin (`p = 0`, cell 0); `cellAt st0 i k p` is
    `⌊value · 2^k⌋ = num · 2^k / 2^shift` for coordinate `i` of the `p`-th output.
    For every `k ≤ 31` and every aligned block `{q·2^k, .., (q+1)·2^k - 1}` of indices
    below `2^31` (the range free of undefined behaviour), each of the `2^k` subintervals
    `[t/2^k, (t+1)/2^k)` contains exactly one point of the block. -/
theorem block_stratified (sdim : Nat) (h1 : 1 ≤ sdim) (h2 : sdim ≤ 1111) (st0 : State)
    (hinit : init sdim = some st0) (i : Nat) (hi : i < sdim) (k : Nat) (hk : k ≤ 31)
    (q : Nat) (hq : (q + 1) * 2 ^ k ≤ 2147483648) (t : Nat) (ht : t < 2 ^ k) :
    ∃ p, (q * 2 ^ k ≤ p ∧ p < (q + 1) * 2 ^ k ∧ cellAt st0 i k p = t) ∧
      ∀ p', q * 2 ^ k ≤ p' ∧ p' < (q + 1) * 2 ^ k ∧ cellAt st0 i k p' = t → p' = p := by
  rw [init_eq sdim h1 h2] at hinit
  cases hinit
  have hm := (initM_ok i (by omega)).2
  obtain ⟨p, ⟨hp1, hp2, hp3⟩, huniq⟩ := Xfrac_stratified (initM i) hm (k := k) (by omega) q t ht
  refine ⟨p, ⟨hp1, hp2, ?_⟩, ?_⟩
  · rw [cellAt_eq sdim i k p hi (by omega) (by omega) (by omega)]; exact hp3
  · intro p' ⟨h1', h2', h3'⟩
    rw [cellAt_eq sdim i k p' hi (by omega) (by omega) (by omega)] at h3'
    exact huniq p' ⟨h1', h2', h3'⟩

/-- The same on the raw integer state (`x`, `b`), for every `k ≤ 32` and all blocks of
    indices `≤ 2^32 - 1` (this ignores that the C code has already run into undefined
    behaviour when converting to `double` from index `2^31` on). -/
theorem block_stratified_state (sdim : Nat) (h1 : 1 ≤ sdim) (h2 : sdim ≤ 1111) (st0 : State)
    (hinit : init sdim = some st0) (i : Nat) (hi : i < sdim) (k : Nat) (hk : k ≤ 32)
    (q : Nat) (hq : (q + 1) * 2 ^ k ≤ 4294967296) (t : Nat) (ht : t < 2 ^ k) :
    let cell := fun p =>
      match (genN p st0).dims[i]? with
      | some s => s.x * 2 ^ k / 2 ^ (s.b + 1)
      | none => 0
    ∃ p, (q * 2 ^ k ≤ p ∧ p < (q + 1) * 2 ^ k ∧ cell p = t) ∧
      ∀ p', q * 2 ^ k ≤ p' ∧ p' < (q + 1) * 2 ^ k ∧ cell p' = t → p' = p := by
  rw [init_eq sdim h1 h2] at hinit
  cases hinit
  have hm := (initM_ok i (by omega)).2
  have hcell : ∀ p, p ≤ 4294967295 →
      (match (genN p (stateAt sdim 0)).dims[i]? with
        | some s => s.x * 2 ^ k / 2 ^ (s.b + 1)
        | none => 0) = Xfrac (initM i) p >>> (32 - k) := by
    intro p hp
    rw [genN_stateAt sdim p 0 (by omega), Nat.zero_add, stateAt_dim sdim p i hi]
    obtain ⟨inv, _⟩ := dimRun_inv (initM i) hm p hp
    show (dimRun (initM i) p).x * 2 ^ k / 2 ^ ((dimRun (initM i) p).b + 1) = _
    rw [cell_eq _ _ k (inv.hb.le31 (by omega)) hk, inv.hX]; rfl
  obtain ⟨p, ⟨hp1, hp2, hp3⟩, huniq⟩ := Xfrac_stratified (initM i) hm hk q t ht
  intro cell
  refine ⟨p, ⟨hp1, hp2, ?_⟩, ?_⟩
  · show (match (genN p (stateAt sdim 0)).dims[i]? with
        | some s => s.x * 2 ^ k / 2 ^ (s.b + 1)
        | none => 0) = t
    rw [hcell p (by omega)]; exact hp3
  · intro p' ⟨h1', h2', h3'⟩
    have h3'' : (match (genN p' (stateAt sdim 0)).dims[i]? with
        | some s => s.x * 2 ^ k / 2 ^ (s.b + 1)
        | none => 0) = t := h3'
    rw [hcell p' (by omega)] at h3''
    exact huniq p' ⟨h1', h2', h3''⟩

/-! ### `nlopt_sobol_next`, `nlopt_sobol_skip` -/

/-- EXACT-ARITHMETIC CONTENT ONLY of `x[i] = lb[i] + (ub[i] - lb[i]) * x[i]` in
    `nlopt_sobol_next` (the C statement is floating point and is NOT modelled here: the
    rounded result can be equal to `lb` or `ub`).  With the coordinate `t = num / 2^shift`,
    `0 < num < 2^shift`, and `lb < ub` (integers, or rationals after multiplication by a
    common denominator -- the statement is homogeneous):
    `lb < lb + (ub - lb) · t < ub`, written after multiplication by `2^shift`. -/
theorem sobol_next_scaled (lb ub : Int) (num shift : Nat) (hlu : lb < ub)
    (h0 : 0 < num) (h1 : num < 2 ^ shift) :
    lb * 2 ^ shift < lb * 2 ^ shift + (ub - lb) * num ∧
    lb * 2 ^ shift + (ub - lb) * num < ub * 2 ^ shift := by
  have hpos : 0 < (ub - lb) * (num : Int) := Int.mul_pos (by omega) (by omega)
  have hlt : (ub - lb) * (num : Int) < (ub - lb) * ((2 ^ shift : Nat) : Int) :=
    Int.mul_lt_mul_of_pos_left (by exact_mod_cast h1) (by omega)
  have he : (ub - lb) * ((2 ^ shift : Nat) : Int) = ub * 2 ^ shift - lb * 2 ^ shift := by
    rw [Int.sub_mul]; simp
  constructor
  · omega
  · omega

/-- `nlopt_sobol_skip(s, n, x)`: for `n ≤ 2^31` the loop `k = 1; while (k*2 < n) k *= 2`
    ends with `k = 2^e`, `n ≤ 2k`, and `k < n` unless `k = 1` (so `k` is the largest power
    of two smaller than `n` when `n ≥ 2`, and one point is skipped even for `n ≤ 1`). -/
theorem skip_count_spec (n : Nat) (hn : n ≤ 2147483648) :
    ∃ e, e ≤ 30 ∧ skipCount n = some (2 ^ e) ∧ n ≤ 2 ^ (e + 1) ∧ (e = 0 ∨ 2 ^ e < n) :=
  skipLoop_terminates n hn 40 0 (by omega) (by omega) (Or.inl rfl)

/-- For `2^31 < n` (`n` an `unsigned`) the loop in `nlopt_sobol_skip` never terminates:
    `k * 2` wraps to 0 in 32-bit arithmetic, `0 < n` holds, `k` becomes and stays 0.
    Stated for every amount of fuel, so `skipCount n = none` is not a fuel artefact. -/
theorem skip_diverges (n : Nat) (hn : 2147483648 < n) :
    (∀ fuel, skipLoop fuel 1 n = none) ∧ skipCount n = none :=
  ⟨fun f => skipLoop_diverges n hn 31 0 f (by omega), skipLoop_diverges n hn 31 0 40 (by omega)⟩

/-! ### Non-vacuity -/

-- the hypotheses `init sdim = some st0` are satisfiable for the extreme dimensions
example : ∃ st0, init 1 = some st0 := ⟨_, init_eq 1 (by omega) (by omega)⟩
example : ∃ st0, init 1111 = some st0 := ⟨_, init_eq 1111 (by omega) (by omega)⟩
example : init 0 = none ∧ init 1112 = none := ⟨rfl, rfl⟩
-- a block hypothesis of `block_stratified` with the largest `k` and the largest block
example : (0 + 1) * 2 ^ 31 ≤ 2147483648 := by decide
-- first points of the 3-dimensional sequence: (1/2,1/2,1/2), (3/4,1/4,3/4), (1/4,3/4,1/4)
example : nthOutput (stateAt 3 0) 1 =
    some [⟨1, 1, false⟩, ⟨1, 1, false⟩, ⟨1, 1, false⟩] := by decide
example : nthOutput (stateAt 3 0) 2 =
    some [⟨3, 2, false⟩, ⟨1, 2, false⟩, ⟨3, 2, false⟩] := by decide
example : nthOutput (stateAt 3 0) 3 =
    some [⟨1, 2, false⟩, ⟨3, 2, false⟩, ⟨1, 2, false⟩] := by decide
-- cells of the first block of 4 indices (origin included) in dimension 1, k = 2: a permutation
example : (List.range 4).map (cellAt (stateAt 3 0) 1 2) = [0, 2, 1, 3] := by decide
-- a direction number computed by the recurrence (dimension 2, j = 5: 0x3d, as in the C code)
example : (initM 2).getD 5 0 = 0x3d := by decide
-- skip counts
example : skipCount 1000 = some 512 ∧ skipCount 0 = some 1 ∧ skipCount 4294967295 = none := by decide

end Nlopt.Sobol.Props
