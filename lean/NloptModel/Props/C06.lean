import NloptModel.Model.Slsqp
import NloptModel.Lemmas.F64Order
/-!
# C06 — constrained runs return the best feasible point they evaluated (SLSQP driver rule)

`run es` is the incumbent of `nlopt_slsqp` after the evaluations `es` (any number, any values proposed by the f2c core).
Under the hypothesis `Separated` — every within-tolerance point has a strictly smaller violation measure than every
out-of-tolerance point, which is what EQUAL tolerances on all constraints give — the returned point is feasible as soon
as one feasible point was evaluated, is one of the evaluated points, and no feasible evaluated point is better.
Without `Separated` (different tolerances on different constraints) the statement is FALSE of the code: witness below.
-/
set_option linter.unusedSimpArgs false
namespace Nlopt.C06
open Nlopt Nlopt.Slsqp Nlopt.F64

/-- feasible points have a strictly smaller violation measure than infeasible ones, and all measures are comparable -/
def Separated (es : List Ev) : Prop :=
  ∀ e ∈ es, ∀ e' ∈ es, e.feas = true → e'.feas = false → lt e.infeas e'.infeas = true

def AllFinite (es : List Ev) : Prop := ∀ e ∈ es, e.f.isFinite = true

theorem isFinite_not_nan {a : F64} (h : a.isFinite = true) : a.isNaN = false := by
  simp only [isFinite, decide_eq_true_eq] at h
  simp only [isNaN, decide_eq_false_iff_not]
  omega

theorem lt_posInf_of_finite {a : F64} (h : a.isFinite = true) : lt a posInf = true := by
  have hn := isFinite_not_nan h
  simp only [isFinite, decide_eq_true_eq] at h
  have hm : a.mag < 9218868437227405312 := by simpa [infMag] using h
  simp only [lt, hn, Bool.not_false, Bool.true_and]
  have hp : posInf.isNaN = false := by decide
  have hk : posInf.key = 9218868437227405312 := by decide
  simp only [hp, Bool.not_false, Bool.true_and, hk, decide_eq_true_eq]
  unfold key
  split <;> omega

/-- the invariant carried by the fold -/
structure Good (es : List Ev) (s : Inc) : Prop where
  /-- the incumbent is an evaluated point with its own data (or nothing was accepted yet) -/
  mem : s.pt = none ∧ s.minf = posInf ∧ s.feasible = false ∧ s.infeas = posInf ∨
        ∃ e ∈ es, s.pt = some e.pt ∧ s.minf = e.f ∧ s.feasible = e.feas ∧ s.infeas = e.infeas
  /-- once a feasible point was seen the incumbent is feasible -/
  feas : (∃ e ∈ es, e.feas = true) → s.feasible = true
  /-- no feasible evaluated point is strictly better than a feasible incumbent -/
  best : s.feasible = true → ∀ e ∈ es, e.feas = true → lt e.f s.minf = false

theorem good_nil : Good [] ({} : Inc) :=
  ⟨Or.inl ⟨rfl, rfl, rfl, rfl⟩, by simp, by simp⟩

theorem lt_trans_false {a b c : F64} (hab : lt a b = true) (hc : lt c b = false) (hnc : c.isNaN = false) :
    lt c a = false := by
  simp [lt] at *
  intro _ _
  have := hc hnc hab.1.2
  omega

theorem good_step (es : List Ev) (e : Ev) (s : Inc) (hfin : AllFinite (es ++ [e])) (hsep : Separated (es ++ [e]))
    (h : Good es s) : Good (es ++ [e]) (update s e) := by
  have hef : e.f.isFinite = true := hfin e (by simp)
  have hen := isFinite_not_nan hef
  unfold update
  by_cases hacc : accepts s e = true
  · simp only [hacc, if_true]
    refine ⟨Or.inr ⟨e, by simp, rfl, rfl, rfl, rfl⟩, ?_, ?_⟩
    · -- feasibility: if a feasible point exists among es ++ [e], the new incumbent e is feasible
      intro hex
      simp only [accepts, hef, Bool.true_and, Bool.or_eq_true, Bool.and_eq_true] at hacc
      by_cases hfe : e.feas = true
      · exact hfe
      · exfalso
        have hfe' : e.feas = false := by simpa using hfe
        obtain ⟨e0, he0, hf0⟩ := hex
        have he0' : e0 ∈ es := by
          simp at he0; rcases he0 with h1 | h1
          · exact h1
          · subst h1; simp [hfe'] at hf0
        have hsf := h.feas ⟨e0, he0', hf0⟩
        rcases hacc with h1 | h1
        · simp [hfe', hsf] at h1
        · simp [hsf] at h1
    · -- optimality among feasible points
      intro hfe e' he' hf'
      simp only [accepts, hef, Bool.true_and, Bool.or_eq_true, Bool.and_eq_true] at hacc
      simp at he'
      rcases he' with he' | he'
      · -- an earlier feasible point: the old incumbent was feasible and at least as good, and e beat it
        have hsf := h.feas ⟨e', he', hf'⟩
        have hb := h.best hsf e' he' hf'
        rcases hacc with h1 | h1
        · exact lt_trans_false h1.1 hb (isFinite_not_nan (hfin e' (by simp [he'])))
        · simp [hsf] at h1
      · subst he'; exact lt_irrefl' _
  · have hacc' : accepts s e = false := by simpa using hacc
    simp only [hacc', Bool.false_eq_true, if_false]
    refine ⟨?_, ?_, ?_⟩
    · rcases h.mem with hm | ⟨e0, he0, hm⟩
      · exact Or.inl hm
      · exact Or.inr ⟨e0, by simp [he0], hm⟩
    · intro hex
      obtain ⟨e0, he0, hf0⟩ := hex
      simp at he0
      rcases he0 with he0 | he0
      · exact h.feas ⟨e0, he0, hf0⟩
      · subst he0
        -- e is feasible but was rejected: the incumbent must already be feasible
        by_cases hsf : s.feasible = true
        · exact hsf
        · exfalso
          have hsf' : s.feasible = false := by simpa using hsf
          simp only [accepts, hef, Bool.true_and, hsf', Bool.not_false, Bool.or_true, Bool.and_true, Bool.true_and,
            Bool.or_eq_false_iff] at hacc'
          -- rejected means neither better value nor smaller violation; but the incumbent is infeasible
          rcases h.mem with hm | ⟨ei, hei, hm⟩
          · -- nothing accepted yet: minf = +inf, and a finite value is below it
            have := lt_posInf_of_finite hef
            rw [hm.2.1] at hacc'
            simp [this] at hacc'
          · have hif : ei.feas = false := by rw [← hm.2.2.1]; exact hsf'
            have := hsep e0 (by simp) ei (by simp [hei]) hf0 hif
            rw [hm.2.2.2] at hacc'
            simp [this] at hacc'
    · intro hsf e' he' hf'
      simp at he'
      rcases he' with he' | he'
      · exact h.best hsf e' he' hf'
      · subst he'
        simp [accepts, hef, hsf, hf'] at hacc'
        exact hacc'

theorem good_run_aux (done es : List Ev) (s : Inc) (hfin : AllFinite (done ++ es)) (hsep : Separated (done ++ es))
    (h : Good done s) : Good (done ++ es) (es.foldl update s) := by
  induction es generalizing done s with
  | nil => simpa using h
  | cons e es ih =>
    have h1 : Good (done ++ [e]) (update s e) :=
      good_step done e s (fun x hx => hfin x (by simp at hx ⊢; rcases hx with h | h <;> simp [h]))
        (fun a ha b hb => hsep a (by simp at ha ⊢; rcases ha with h | h <;> simp [h]) b (by simp at hb ⊢; rcases hb with h | h <;> simp [h])) h
    have := ih (done ++ [e]) (update s e) (by simpa using hfin) (by simpa using hsep) h1
    simpa using this

/-- **SLSQP, equal tolerances**: for EVERY sequence of evaluated points with finite objective values — if some evaluated
    point was feasible, the returned point is feasible, it is one of the evaluated points with exactly its value, and no
    feasible evaluated point has a strictly better objective value. -/
theorem slsqp_best_feasible_partial (es : List Ev) (hfin : AllFinite es) (hsep : Separated es)
    (hex : ∃ e ∈ es, e.feas = true) :
    (run es).feasible = true ∧
    (∃ e ∈ es, (run es).pt = some e.pt ∧ (run es).minf = e.f ∧ e.feas = true) ∧
    ∀ e ∈ es, e.feas = true → lt e.f (run es).minf = false := by
  have g := good_run_aux [] es {} (by simpa using hfin) (by simpa using hsep) good_nil
  simp only [List.nil_append] at g
  have hf := g.feas hex
  refine ⟨hf, ?_, g.best hf⟩
  rcases g.mem with hm | ⟨e, he, hm⟩
  · rw [hm.2.2.1] at hf; simp at hf
  · exact ⟨e, he, hm.1, hm.2.1, by rw [← hm.2.2.1]; exact hf⟩

/-- the full statement (no hypothesis on the tolerances) is FALSE of the driver rule: with different tolerances a point
    that is feasible within tolerance is rejected because its (in-tolerance) violation exceeds the incumbent's
    (out-of-tolerance) violation on another constraint and its value is not lower.  Replayed on the real library by the
    C06 check (known finding). -/
theorem slsqp_best_feasible_full_false :
    ∃ es : List Ev, AllFinite es ∧ (∃ e ∈ es, e.feas = true) ∧ (run es).feasible = false := by
  -- incumbent: f = 1, violation 1e-9 (> its tolerance 0): infeasible.  candidate: f = 2, violation 1e-3 (<= tolerance 1e-2): feasible.
  refine ⟨[⟨F64.one, false, ⟨0x3E112E0BE826D695⟩, 0⟩, ⟨⟨0x4000000000000000⟩, true, ⟨0x3F50624DD2F1A9FC⟩, 1⟩], ?_, ?_, ?_⟩
  · intro e he; simp at he; rcases he with h | h <;> subst h <;> decide
  · exact ⟨⟨⟨0x4000000000000000⟩, true, ⟨0x3F50624DD2F1A9FC⟩, 1⟩, by simp, rfl⟩
  · decide

/-- original DIRECT / ISRES-style rule (only feasible points compete): best feasible of the trace, no hypothesis needed -/
theorem feasOnly_best (es : List Ev) (hn : ∀ e ∈ es, e.f.isNaN = false) :
    ∀ e ∈ es, e.feas = true → lt e.f (es.foldl updateFeasOnly {}).minf = false := by
  suffices H : ∀ (done es : List Ev) (s : Inc), (∀ e ∈ done ++ es, e.f.isNaN = false) → s.minf.isNaN = false →
      (∀ e ∈ done, e.feas = true → lt e.f s.minf = false) →
      ∀ e ∈ done ++ es, e.feas = true → lt e.f (es.foldl updateFeasOnly s).minf = false by
    exact H [] es {} (by simpa using hn) (by decide) (by simp)
  intro done es
  induction es generalizing done with
  | nil => intro s _ _ h e he; exact h e (by simpa using he)
  | cons x xs ih =>
    intro s hnan hsn h e he hfe
    have hx : x.f.isNaN = false := hnan x (by simp)
    have := ih (done ++ [x]) (updateFeasOnly s x) (by simpa using hnan)
      (by unfold updateFeasOnly; split <;> simp_all)
      (by
        intro e' he' hf'
        simp at he'
        unfold updateFeasOnly
        rcases he' with he' | he'
        · by_cases hc : (x.feas && lt x.f s.minf) = true
          · simp only [hc, if_true]
            simp only [Bool.and_eq_true] at hc
            exact lt_trans_false hc.2 (h e' he' hf') (hnan e' (by simp [he']))
          · simp only [hc]; exact h e' he' hf'
        · subst he'
          by_cases hc : (e'.feas && lt e'.f s.minf) = true
          · simp only [hc, if_true]; exact lt_irrefl' _
          · simp only [hc]; simpa [hf'] using hc)
      e (by simpa using he) hfe
    simpa using this

/-- non-vacuity of the hypotheses of `slsqp_best_feasible_partial` -/
example : AllFinite [⟨F64.one, true, F64.zero, 0⟩, ⟨F64.zero, false, F64.one, 1⟩] ∧
    Separated [⟨F64.one, true, F64.zero, 0⟩, ⟨F64.zero, false, F64.one, 1⟩] ∧
    (run [⟨F64.one, true, F64.zero, 0⟩, ⟨F64.zero, false, F64.one, 1⟩]).pt = some 0 := by
  refine ⟨?_, ?_, by decide⟩
  · intro e he; simp at he; rcases he with h | h <;> subst h <;> decide
  · intro e he e' he' h1 h2
    simp at he he'
    rcases he with h | h <;> rcases he' with h' | h' <;> subst h <;> subst h' <;> simp_all <;> decide

end Nlopt.C06
