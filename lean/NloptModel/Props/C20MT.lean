import NloptModel.Lemmas.MTLemmas
import NloptModel.Lemmas.F64Order
/-!
  C20 (MT19937 part): property theorems about `src/util/mt19937ar.c` as modelled in
  `Model/MT.lean`.  Only theorems and non-vacuity `example`s live here.

  Summary
  * `mt_impl_eq_spec` (FULL): for every seed and every stream position the C code's in-place
    block generator returns the Matsumoto--Nishimura sequence.  Variants: re-seeding an existing
    state (`mt_reseed_eq_spec`), the never-seeded default path (`mt_default_seed_eq_spec`),
    the executable memoised spec used by the driver (`mt_spec_exec_eq`), and the published
    recurrence equations that `mtSpec` satisfies (`mt_spec_*`).
  * `iurand_range`, `iurand_fits_int`, `iurandC_eq` (FULL).
  * `res53_range` (FULL, tight).
  * `urand_in_range` (HYPOTHESIS-CARRYING: `ScaleWithin`), `urand_exact_range` and
    `urand_exact_lt` (FULL, exact integer arithmetic).
  * `nrand_*` (FULL at the stated level: loop exit condition on the float model; zero/lower/upper
    bounds of `s` in exact integer arithmetic).
-/
namespace Nlopt.MT

/-! ## 1. The generator -/

/-- MAIN RESULT.  For ALL seeds (any `unsigned long`, indeed any natural number) and ALL stream
    positions, the `i`-th value returned by `nlopt_genrand_int32` after
    `nlopt_init_genrand(seed)` is output `i` of the MT19937 recurrence. -/
theorem mt_impl_eq_spec : ∀ (seed i : Nat), mtImpl seed i = mtSpec seed i := by
  intro seed i
  unfold mtImpl outputAt
  have h0 : Good seed (initGenrand seed) 0 := good_init _ seed (by simp [N_eq])
  exact (good_step seed _ i (good_stateAfter seed _ h0 i)).1

/-- The same after RE-seeding: whatever the generator did before (any state whose array has its
    624 words, any `mti`), `nlopt_init_genrand(seed)` restarts the spec stream for `seed`. -/
theorem mt_reseed_eq_spec (st : State) (hs : st.mt.size = 624) (seed i : Nat) :
    outputAt (initGenrandOn st.mt seed) i = mtSpec seed i := by
  unfold outputAt
  exact (good_step seed _ i (good_stateAfter seed _ (good_init _ seed hs) i)).1

/-- The never-seeded path (`mti == N+1`): the stream is that of seed 5489. -/
theorem mt_default_seed_eq_spec (i : Nat) : outputAt State.initial i = mtSpec 5489 i := by
  have hf : Fresh State.initial := ⟨by simp [State.initial, N_eq], rfl⟩
  have h1 := fresh_step State.initial hf
  cases i with
  | zero => exact h1.1
  | succ i =>
    have hg : Good 5489 (stateAfter State.initial 1) 1 := h1.2
    have := good_stateAfter_from 5489 State.initial 1 hg i
    unfold outputAt
    rw [Nat.add_comm i 1]
    exact (good_step 5489 _ (1 + i) this).1

/-- The state invariant behind the three theorems, exported: after `i` outputs the array is a
    624-word window of the spec sequence and `mti ≤ N` (so `mt[mti]` is never out of bounds and
    the sentinel `N+1` is never seen again). -/
theorem mt_state_window (seed i : Nat) :
    let st := stateAfter (initGenrand seed) i
    st.mt.size = 624 ∧ st.mti ≤ 624 ∧
      ∀ j, j < 624 → st.mt[j]! = X seed (i + 624 - st.mti + j) :=
  good_stateAfter seed _ (good_init _ seed (by simp [N_eq])) i

/-- The memoised executable spec (what the driver's `spec` op and the self-test run) IS the spec. -/
theorem mt_spec_exec_eq (seed i : Nat) : mtSpecExec seed i = mtSpec seed i := mtSpecExec_eq seed i

/-- `mtSpec` is the published definition: seeding … -/
theorem mt_spec_seed (seed : Nat) :
    X seed 0 = UInt32.ofNat (seed % 2 ^ 32) ∧
    ∀ k, 0 < k → k < 624 →
      X seed k = UInt32.ofNat
        ((1812433253 * (X seed (k - 1) ^^^ (X seed (k - 1) >>> 30)).toNat + k) % 2 ^ 32) :=
  ⟨X_zero seed, fun k h0 hk => X_init seed k h0 hk⟩

/-- … the linear recurrence `x_{k+n} = x_{k+m} xor (x_k^u | x_{k+1}^l) A` for every `k` … -/
theorem mt_spec_recurrence (seed k : Nat) :
    X seed (k + 624) =
      X seed (k + 397) ^^^
        twist ((X seed k &&& 0x80000000) ||| (X seed (k + 1) &&& 0x7fffffff)) :=
  X_rec seed k

/-- … and tempering of the words from index 624 on. -/
theorem mt_spec_output (seed i : Nat) : mtSpec seed i = temper (X seed (624 + i)) := rfl

/-- tempering with the published parameters `(u, s, b, t, c, l) = (11, 7, 9D2C5680, 15, EFC60000, 18)`
    spelled as literals (the model takes them from the generated constants file) -/
theorem mt_temper_published (y : UInt32) :
    temper y =
      (let y1 := y ^^^ (y >>> 11)
       let y2 := y1 ^^^ ((y1 <<< 7) &&& 0x9d2c5680)
       let y3 := y2 ^^^ ((y2 <<< 15) &&& 0xefc60000)
       y3 ^^^ (y3 >>> 18)) := rfl

/-- reference value: the first output of MT19937 with the reference seed 5489 is 3499211612 -/
theorem mt_spec_first_output_5489 : mtSpec 5489 0 = 3499211612 := by
  have h := X_rec 5489 0
  rw [X_eq_chain 5489 (0 + 397) (by omega), X_eq_chain 5489 0 (by omega),
    X_eq_chain 5489 (0 + 1) (by omega)] at h
  have c397 : seedChain 5489 (0 + 397) = 3183906156 := by decide +kernel
  have c0 : seedChain 5489 0 = 5489 := by decide +kernel
  have c1 : seedChain 5489 (0 + 1) = 1301868182 := by decide +kernel
  rw [c397, c0, c1] at h
  unfold mtSpec
  rw [show 624 + 0 = 0 + 624 from rfl, h]
  decide +kernel
/-- … and therefore so is the first output of the C code, seeded or never seeded -/
theorem mt_first_output_5489 : mtImpl 5489 0 = 3499211612 ∧ outputAt State.initial 0 = 3499211612 := by
  have h := mt_spec_first_output_5489
  exact ⟨by rw [mt_impl_eq_spec, h], by rw [mt_default_seed_eq_spec, h]⟩

/-- In 64-bit `unsigned long` arithmetic the seeding product never overflows, i.e. the C
    expression before `&= 0xffffffffUL` is the exact natural number of the definition. -/
theorem mt_seed_no_overflow64 (p : UInt32) (k : Nat) (hk : k < 624) :
    1812433253 * (p ^^^ (p >>> 30)).toNat + k < 2 ^ 64 :=
  seed_step_no_overflow64 p k hk

/-! ## 2. `nlopt_iurand` -/

theorem iurand_range (raw : UInt32) (n : Nat) (hn : 0 < n) : iurand raw n < n :=
  Nat.mod_lt _ hn

/-- for `0 < n ≤ INT_MAX` the value is a non-negative C `int` (and `< n`) -/
theorem iurand_fits_int (raw : UInt32) (n : Nat) (hn : 0 < n) (hmax : n ≤ 2 ^ 31 - 1) :
    (0 : Int) ≤ (iurand raw n : Int) ∧ (iurand raw n : Int) ≤ 2 ^ 31 - 2 ∧ iurand raw n < n := by
  have := iurand_range raw n hn
  omega

/-- With the C conversions spelled out (`n` converted to `uint32_t`, result converted back to
    `int`): for `0 < n ≤ INT_MAX` nothing wraps and the result is `iurand raw n`. -/
theorem iurandC_eq (raw : UInt32) (n : Int) (hn : 0 < n) (hmax : n ≤ 2147483647) :
    iurandC raw n = some (iurand raw n.toNat : Int) := by
  unfold iurandC iurand
  have h1 : (n % 4294967296).toNat = n.toNat := by omega
  simp only [h1]
  have h2 : n.toNat ≠ 0 := by omega
  simp only [h2, if_false]
  have h3 : raw.toNat % n.toNat < n.toNat := Nat.mod_lt _ (by omega)
  have h4 : raw.toNat % n.toNat < 2147483648 := by omega
  simp only [h4, if_true]

/-- `n = 0` is undefined behaviour in C (`% 0`); the model flags it. -/
theorem iurandC_zero (raw : UInt32) : iurandC raw 0 = none := rfl

/-- A negative `n` does NOT give a value in `(n, 0]`: `n` is converted to unsigned first.
    (`nlopt_iurand(-1)` returns `raw % 0xffffffff`, which as an `int` can be any value.) -/
example : iurandC 0xfffffffe (-1) = some (-2) ∧ iurandC 5 (-1) = some 5 := by decide

example : iurand 4294967295 2147483647 = 1 := by decide
example : ∃ raw n, 0 < n ∧ n ≤ 2 ^ 31 - 1 ∧ iurand raw n = n - 1 := ⟨2147483646, 2147483647, by decide⟩

/-! ## 3. `genrand_res53` -/

theorem res53_range (a b : UInt32) : res53 a b < 2 ^ 53 := by
  unfold res53
  have ha : (a >>> UInt32.ofNat RES53_SHIFT_A).toNat = a.toNat / 32 := by
    rw [UInt32.toNat_shiftRight, Nat.shiftRight_eq_div_pow]; rfl
  have hb : (b >>> UInt32.ofNat RES53_SHIFT_B).toNat = b.toNat / 64 := by
    rw [UInt32.toNat_shiftRight, Nat.shiftRight_eq_div_pow]; rfl
  have h1 := a.toNat_lt
  have h2 := b.toNat_lt
  have h3 : RES53_MUL = 67108864 := rfl
  rw [ha, hb, h3]
  omega

/-- `res53` is the concatenation of the 27 high bits of `a` and the 26 high bits of `b`:
    the two summands do not overlap (`a*67108864.0 + b` is exact in binary64). -/
theorem res53_parts (a b : UInt32) :
    res53 a b = (a.toNat / 32) * 2 ^ 26 + b.toNat / 64 ∧ a.toNat / 32 < 2 ^ 27 ∧ b.toNat / 64 < 2 ^ 26 := by
  unfold res53
  have ha : (a >>> UInt32.ofNat RES53_SHIFT_A).toNat = a.toNat / 32 := by
    rw [UInt32.toNat_shiftRight, Nat.shiftRight_eq_div_pow]; rfl
  have hb : (b >>> UInt32.ofNat RES53_SHIFT_B).toNat = b.toNat / 64 := by
    rw [UInt32.toNat_shiftRight, Nat.shiftRight_eq_div_pow]; rfl
  have h1 := a.toNat_lt
  have h2 := b.toNat_lt
  have h3 : RES53_MUL = 67108864 := rfl
  rw [ha, hb, h3]
  omega

/-- the bound is attained: the largest draw is `(2^53 - 1) / 2^53 < 1`, the smallest is 0 -/
example : res53 0xffffffff 0xffffffff = 2 ^ 53 - 1 ∧ res53 0 0 = 0 := by decide
/-- the denominator in the C source is 2^53 -/
example : RES53_DEN = 2 ^ 53 := by decide

/-! ## 4. `nlopt_urand` -/

/-- HYPOTHESIS-CARRYING (immediate from the named hypothesis `ScaleWithin A a b`, which is a
    statement about the rounded `+ - *` of `A` at these bounds; see its doc comment for where it
    fails in IEEE arithmetic).  Note the CLOSED upper end. -/
theorem urand_in_range (A : Arith) (a b r : F64) (hA : ScaleWithin A a b)
    (h0 : F64.le F64.zero r = true) (h1 : F64.lt r F64.one = true) :
    F64.inBox1 a b (urand A a b r) = true := by
  have := hA r h0 h1
  simp [F64.inBox1, this.1, this.2]

/-- the hypothesis is satisfiable (a degenerate `Arith` whose `add` returns its first argument) -/
example : ∃ A : Arith, ScaleWithin A F64.zero F64.one := by
  let c : F64 → F64 → F64 := fun x _ => x
  let u : F64 → F64 := fun x => x
  refine ⟨⟨c, c, c, c, u, u, u, c, u, u, fun _ => F64.zero, fun _ => 0⟩, ?_⟩
  intro r _ _
  show F64.le F64.zero F64.zero = true ∧ F64.le F64.zero F64.one = true
  decide

/-- EXACT-ARITHMETIC content of "urand in [a,b)".  `a b` are integers (every finite double is
    an integer multiple of 2^-1074, so scaling by 2^1074 covers all finite bounds), the draw is
    `k / 2^53` with `0 ≤ k < 2^53` (`res53_range`); everything multiplied by `2^53`:
    `a ≤ a + (b-a) * k/2^53 ≤ b`. -/
theorem urand_exact_range (a b k : Int) (hab : a ≤ b) (h0 : 0 ≤ k) (hk : k < 2 ^ 53) :
    a * 2 ^ 53 ≤ a * 2 ^ 53 + (b - a) * k ∧ a * 2 ^ 53 + (b - a) * k ≤ b * 2 ^ 53 := by
  have h1 : 0 ≤ (b - a) * k := Int.mul_nonneg (by omega) h0
  have h2 : (b - a) * k ≤ (b - a) * 2 ^ 53 :=
    Int.mul_le_mul_of_nonneg_left (by omega) (by omega)
  have h3 : (b - a) * 2 ^ 53 = b * 2 ^ 53 - a * 2 ^ 53 := Int.sub_mul ..
  omega

/-- … and the upper end is excluded when `a < b`: in exact arithmetic the value is `< b`. -/
theorem urand_exact_lt (a b k : Int) (hab : a < b) (h0 : 0 ≤ k) (hk : k < 2 ^ 53) :
    a * 2 ^ 53 + (b - a) * k < b * 2 ^ 53 := by
  have h2 : (b - a) * k ≤ (b - a) * (2 ^ 53 - 1) :=
    Int.mul_le_mul_of_nonneg_left (by omega) (by omega)
  have h3 : (b - a) * (2 ^ 53 - 1) = (b - a) * 2 ^ 53 - (b - a) := by
    rw [Int.mul_sub, Int.mul_one]
  have h4 : (b - a) * 2 ^ 53 = b * 2 ^ 53 - a * 2 ^ 53 := Int.sub_mul ..
  omega

/-- applied to an actual pair of raw outputs -/
theorem urand_exact_of_raw (a b : Int) (hab : a ≤ b) (w1 w2 : UInt32) :
    a * 2 ^ 53 ≤ a * 2 ^ 53 + (b - a) * (res53 w1 w2 : Int) ∧
    a * 2 ^ 53 + (b - a) * (res53 w1 w2 : Int) ≤ b * 2 ^ 53 := by
  have := res53_range w1 w2
  exact urand_exact_range a b _ hab (by omega) (by omega)

/-! ## 5. `nlopt_nrand` -/

/-- The `do … while (s >= 1.0)` loop is left only when `s >= 1.0` is FALSE … -/
theorem nrand_exit_not_ge (A : Arith) (mean stddev r1 r2 v : F64)
    (h : nrandBody A mean stddev r1 r2 = NrandStep.done v) :
    F64.ge (nrandS A (urand A F64.negOne F64.one r1) (urand A F64.negOne F64.one r2)) F64.one
      = false := by
  unfold nrandBody at h
  simp only [] at h
  split at h
  · cases h
  · rename_i hge; simpa using hge

/-- … which for a non-NaN `s` means `s < 1`.  (For a NaN `s` the C loop would also exit: `>=`
    is false on NaN.  With `v1, v2 ∈ [-1,1]` finite, `s` is not NaN; that is a fact about the
    rounded operations, hence the hypothesis.) -/
theorem nrand_exit_lt_one (A : Arith) (mean stddev r1 r2 v : F64)
    (h : nrandBody A mean stddev r1 r2 = NrandStep.done v)
    (hnan : (nrandS A (urand A F64.negOne F64.one r1) (urand A F64.negOne F64.one r2)).isNaN = false) :
    F64.lt (nrandS A (urand A F64.negOne F64.one r1) (urand A F64.negOne F64.one r2)) F64.one
      = true := by
  have h1 := nrand_exit_not_ge A mean stddev r1 r2 v h
  rw [F64.lt_iff_not_le hnan (by decide)]
  exact h1

/-- what is returned: `mean` itself when `s == 0`, the Box--Muller value otherwise -/
theorem nrand_value (A : Arith) (mean stddev r1 r2 v : F64)
    (h : nrandBody A mean stddev r1 r2 = NrandStep.done v) :
    let v1 := urand A F64.negOne F64.one r1
    let s := nrandS A v1 (urand A F64.negOne F64.one r2)
    (F64.feq s F64.zero = true ∧ v = mean) ∨
    (F64.feq s F64.zero = false ∧ v = nrandValue A mean stddev v1 s) := by
  unfold nrandBody at h
  simp only [] at h
  split at h
  · cases h
  · split at h
    · rename_i h0; left; exact ⟨h0, by cases h; rfl⟩
    · rename_i h0; right; exact ⟨by simpa using h0, by cases h; rfl⟩

/-- every value returned by the fuelled loop comes from an accepting trip of the body -/
theorem nrand_some_accepts (A : Arith) (mean stddev : F64) (fuel : Nat) :
    ∀ (st : State) (v : F64) (st' : State), nrand A mean stddev fuel st = some (v, st') →
      ∃ r1 r2, nrandBody A mean stddev r1 r2 = NrandStep.done v := by
  induction fuel with
  | zero => intro st v st' h; simp [nrand] at h
  | succ n ih =>
    intro st v st' h
    simp only [nrand] at h
    split at h
    · exact ih _ v st' h
    · rename_i w hw
      simp only [Option.some.injEq, Prod.mk.injEq] at h
      exact ⟨_, _, by rw [hw, h.1]⟩

/-- In exact arithmetic `urand(-1,1)` with draw `k/2^53` is `vNum k / 2^53`
    (`a*2^53 + (b-a)*k` with `a = -1`, `b = 1`). -/
theorem nrand_vNum_eq (k : Nat) : vNum k = (-1) * 2 ^ 53 + (1 - (-1)) * (k : Int) := by
  unfold vNum; omega

/-- `s = 0` in exact arithmetic happens for exactly one pair of draws: both equal to 1/2. -/
theorem nrand_s_zero_iff (k1 k2 : Nat) : sNum k1 k2 = 0 ↔ k1 = 2 ^ 52 ∧ k2 = 2 ^ 52 := by
  unfold sNum
  rw [vNum_sq, vNum_sq]
  have n1 := int_sq_nonneg ((k1 : Int) - 4503599627370496)
  have n2 := int_sq_nonneg ((k2 : Int) - 4503599627370496)
  constructor
  · intro h
    have z1 : ((k1 : Int) - 4503599627370496) * ((k1 : Int) - 4503599627370496) = 0 := by omega
    have z2 : ((k2 : Int) - 4503599627370496) * ((k2 : Int) - 4503599627370496) = 0 := by omega
    have e1 : (k1 : Int) - 4503599627370496 = 0 := by
      rcases Int.mul_eq_zero.mp z1 with h | h <;> exact h
    have e2 : (k2 : Int) - 4503599627370496 = 0 := by
      rcases Int.mul_eq_zero.mp z2 with h | h <;> exact h
    omega
  · intro ⟨h1, h2⟩
    subst h1; subst h2
    decide

/-- Otherwise `s ≥ 2^-104`: `sNum ≥ 4` and `s = sNum / 2^106`.  Together with `s < 1` this is
    what keeps `-2*log(s)/s` finite (`log s ∈ [-104 ln 2, 0)`, `1/s ≤ 2^104`). -/
theorem nrand_s_lower (k1 k2 : Nat) (h : sNum k1 k2 ≠ 0) : 4 ≤ sNum k1 k2 := by
  unfold sNum at *
  rw [vNum_sq, vNum_sq] at *
  have n1 := int_sq_nonneg ((k1 : Int) - 4503599627370496)
  have n2 := int_sq_nonneg ((k2 : Int) - 4503599627370496)
  by_cases e1 : (k1 : Int) - 4503599627370496 = 0
  · by_cases e2 : (k2 : Int) - 4503599627370496 = 0
    · rw [e1, e2] at h; simp at h
    · have := int_sq_pos _ e2; omega
  · have := int_sq_pos _ e1; omega

/-- the constant 4 (i.e. `2^-104`) is attained -/
example : sNum (2 ^ 52 + 1) (2 ^ 52) = 4 := by decide

/-- `s ≤ 2` in exact arithmetic for draws in range, so `s` itself cannot overflow -/
theorem nrand_s_upper (k1 k2 : Nat) (h1 : k1 < 2 ^ 53) (h2 : k2 < 2 ^ 53) :
    sNum k1 k2 ≤ 2 * 2 ^ 106 := by
  unfold sNum
  have a1 := int_sq_le (vNum k1) (2 ^ 53) (by omega) (by unfold vNum; omega) (by unfold vNum; omega)
  have a2 := int_sq_le (vNum k2) (2 ^ 53) (by omega) (by unfold vNum; omega) (by unfold vNum; omega)
  have : (2 : Int) ^ 53 * 2 ^ 53 = 2 ^ 106 := by decide
  omega

/-- all three, for an actual quadruple of raw outputs -/
theorem nrand_s_of_raw (w1 w2 w3 w4 : UInt32) :
    let S := sNum (res53 w1 w2) (res53 w3 w4)
    (S = 0 ↔ res53 w1 w2 = 2 ^ 52 ∧ res53 w3 w4 = 2 ^ 52) ∧ (S ≠ 0 → 4 ≤ S) ∧ S ≤ 2 * 2 ^ 106 :=
  ⟨nrand_s_zero_iff _ _, nrand_s_lower _ _, nrand_s_upper _ _ (res53_range _ _) (res53_range _ _)⟩

/-- the `s == 0` branch is reachable: raw outputs `0x80000000, 0, 0x80000000, 0` give
    `k1 = k2 = 2^52` -/
example : res53 0x80000000 0 = 2 ^ 52 := by decide

end Nlopt.MT
