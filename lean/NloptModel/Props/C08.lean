import NloptModel.Model.Glue
import NloptModel.Lemmas.F64Order
/-!
# C08 — the preconditioner side of "maximizing f is minimizing -f"

`Props/Wrap.lean` (`max_is_min_neg`) covers objective values and gradients for every algorithm machine.  Preconditioners
(`nlopt_set_precond_max_objective`, used by CCSAQ only) are not part of that wrapper model; this file states what `pre_max`
must do and the correspondence (hook event 42 against the user's result, `glue` stream op `premax`) ties it to optimize.c.
-/
namespace Nlopt.C08
open Nlopt

/-- a user preconditioner: (x, v) ↦ H(x)·v -/
abbrev Pre := List F64 → List F64 → List F64

/-- the preconditioner of −f belonging to a preconditioner of f -/
def negPre (pre : Pre) : Pre := fun x v => (pre x v).map F64.neg

/-- **for every preconditioner, point and vector**: what the algorithm receives when maximizing f with `pre` is what it
    receives when minimizing −f with the negated preconditioner -/
theorem premax_is_pre_of_neg (pre : Pre) (x v : List F64) : Glue.preMax (pre x v) = negPre pre x v := rfl

/-- the wrapper changes signs only: lengths are kept and applying it twice gives the user's result back bit for bit -/
theorem premax_length (vpre : List F64) : (Glue.preMax vpre).length = vpre.length := by
  simp [Glue.preMax]

theorem premax_involutive (vpre : List F64) : Glue.preMax (Glue.preMax vpre) = vpre := by
  induction vpre with
  | nil => rfl
  | cons a t ih =>
    simp only [Glue.preMax, List.map_cons, List.map_map] at *
    rw [ih, F64.neg_neg']

/-- every component is the IEEE negation of the user's component (never a copy of `v`, never unchanged unless it is its own
    negation, which no bit pattern is) -/
theorem premax_component (vpre : List F64) (i : Nat) (h : i < vpre.length) :
    (Glue.preMax vpre)[i]'(by simpa [Glue.preMax] using h) = F64.neg vpre[i] := by
  simp [Glue.preMax]

/-- non-vacuity -/
example : Glue.preMax [F64.one, F64.zero] = [F64.negOne, ⟨0x8000000000000000⟩] := by decide

end Nlopt.C08
