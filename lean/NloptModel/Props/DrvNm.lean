import NloptModel.Lemmas.NmDrvLemmas
/-!
# Nelder-Mead driver (`nldrmd.c`): theorems about the control-flow model `Nlopt.NmDrv.run`

All statements hold for EVERY configuration, EVERY event list (any length, any values, NaN included unless a hypothesis
says otherwise) and EVERY `Arith`; proofs are by induction over the event list (`run_inv`), never by enumeration.
"Consumed events" = `evs.take (runWith O A c evs).nevals`.
-/
set_option linter.unusedSimpArgs false
set_option linter.unusedVariables false
namespace Nlopt.DrvNm
open Nlopt Nlopt.NmDrv Nlopt.F64

/-! ## basic facts: counter, `short`, `*minf` written -/

/-- invariant of every waiting state after the events `seen` -/
def Base (c : Cfg) (seen : List Ev) (st : St) : Prop :=
  st.nev = seen.length ∧
  (st.ph = .first → st.wr = false ∧ st.x = c.x0 ∧ seen = [] ∧ c.minf0 = none) ∧
  (st.ph ≠ .first → st.wr = true ∧ (seen ≠ [] ∨ c.minf0 ≠ none))

/-- what every returned result satisfies -/
def BaseQ (c : Cfg) (seen : List Ev) (r : Res) : Prop :=
  r.nevals = seen.length ∧ r.short = false ∧ (∃ m, r.minf = some m) ∧ (seen ≠ [] ∨ c.minf0 ≠ none)

/-- the state `nldrmd_minimize_` is entered with in inner mode -/
def st0 (c : Cfg) (m : F64) : St := ⟨0, c.x0, m, true, [], F64.zero, .init 1, []⟩

theorem start_cases (O : Ord) (A : Arith) (c : Cfg) :
    (c.minf0 = none ∧ start O A c = .cont ⟨0, c.x0, F64.posInf, false, [], F64.zero, .first, []⟩) ∨
    (∃ m, c.minf0 = some m ∧
      Framed (st0 c m) (fun k => k = 3 ∨ k = 4 ∨ k = -1 ∨ (k = 2 ∧ F64.lt m c.s.minfMax = true)) (start O A c)) := by
  unfold start
  cases h : c.minf0 with
  | none => left; exact ⟨rfl, rfl⟩
  | some m => right; exact ⟨m, rfl, enter_framed O A c (st0 c m) c.stuck0⟩

theorem base_start (O : Ord) (A : Arith) (c : Cfg) (st : St) (h : start O A c = .cont st) : Base c [] st := by
  rcases start_cases O A c with ⟨hm, hs⟩ | ⟨m, hm, hf⟩
  · rw [hs] at h; injection h with h; subst h
    exact ⟨rfl, fun _ => ⟨rfl, rfl, rfl, hm⟩, fun hp => absurd rfl hp⟩
  · rw [h] at hf
    obtain ⟨⟨h1, h2, h3, h4⟩, h5⟩ := hf
    exact ⟨by rw [h1]; rfl, fun hp => absurd hp h5, fun _ => ⟨by rw [h4]; rfl, Or.inr (by simp [hm])⟩⟩

theorem base_start_done (O : Ord) (A : Arith) (c : Cfg) (r : Res) (h : start O A c = .done r) : BaseQ c [] r := by
  rcases start_cases O A c with ⟨hm, hs⟩ | ⟨m, hm, hf⟩
  · rw [hs] at h; cases h
  · rw [h] at hf
    obtain ⟨k, _, hr⟩ := hf
    subst hr
    exact ⟨rfl, rfl, ⟨m, rfl⟩, Or.inr (by simp [hm])⟩

theorem base_cont {O : Ord} {A : Arith} {c : Cfg} {seen : List Ev} {st st' : St} {e : Ev}
    (hb : Base c seen st) (h : step O A c st e = .cont st') : Base c (seen ++ [e]) st' := by
  obtain ⟨_, ⟨h1, _, _, h4⟩, h5⟩ := step_cont h
  have b1 := hb.1
  refine ⟨by rw [h1, upd_nev, b1]; simp, fun hp => absurd hp h5, fun _ => ⟨?_, Or.inl (by simp)⟩⟩
  rw [h4, upd_wr]
  by_cases hp : st.ph = .first
  · simp [hp]
  · simp [(hb.2.2 hp).1]

theorem base_done {O : Ord} {A : Arith} {c : Cfg} {seen : List Ev} {st : St} {e : Ev} {r : Res}
    (hb : Base c seen st) (h : step O A c st e = .done r) : BaseQ c (seen ++ [e]) r := by
  obtain ⟨k, hr, _⟩ := step_done h
  subst hr
  refine ⟨by simp [resOf, upd_nev, hb.1], rfl, ?_, Or.inl (by simp)⟩
  have : (upd st e).wr = true := by
    rw [upd_wr]
    by_cases hp : st.ph = .first
    · simp [hp]
    · simp [(hb.2.2 hp).1]
  exact ⟨(upd st e).minf, by simp [resOf, St.minfOpt, this]⟩

/-- The invariant principle in the form used below: the `Base` facts come for free, the step hypotheses are given in
    terms of `upd` / `stopCode`, and the conclusion speaks about `run` and the consumed events. -/
theorem run_inv' (O : Ord) (A : Arith) (c : Cfg) (P : List Ev → St → Prop) (Q : List Ev → Res → Prop)
    (h0 : ∀ st, start O A c = .cont st → P [] st)
    (h0d : ∀ r, start O A c = .done r → Q [] r)
    (hc : ∀ seen st e st', Base c seen st → P seen st → stopCode c st e = none → Same (upd st e) st' →
      st'.ph ≠ .first → P (seen ++ [e]) st')
    (hd : ∀ seen st e k, Base c seen st → P seen st →
      (stopCode c st e = some k ∨ (stopCode c st e = none ∧ (k = 3 ∨ k = 4 ∨ k = -1))) →
      Q (seen ++ [e]) (resOf k (upd st e)))
    (evs : List Ev) :
    ((runWith O A c evs).short = true →
      ∃ st, runOut O A c evs = .cont st ∧ runWith O A c evs = st.shortRes ∧ Base c evs st ∧ P evs st) ∧
    ((runWith O A c evs).short = false →
      runOut O A c evs = .done (runWith O A c evs) ∧ (runWith O A c evs).nevals ≤ evs.length ∧
      BaseQ c (evs.take (runWith O A c evs).nevals) (runWith O A c evs) ∧ Q (evs.take (runWith O A c evs).nevals) (runWith O A c evs)) := by
  have key := run_inv O A c (fun s st => Base c s st ∧ P s st) (fun s r => BaseQ c s r ∧ Q s r)
    (fun st h => ⟨base_start O A c st h, h0 st h⟩)
    (fun r h => ⟨base_start_done O A c r h, h0d r h⟩)
    (fun seen st e st' hp h => by
      obtain ⟨g1, g2, g3⟩ := step_cont h
      exact ⟨base_cont hp.1 h, hc seen st e st' hp.1 hp.2 g1 g2 g3⟩)
    (fun seen st e r hp h => by
      obtain ⟨k, hr, hk⟩ := step_done h
      exact ⟨base_done hp.1 h, by rw [hr]; exact hd seen st e k hp.1 hp.2 hk⟩)
    evs
  unfold runWith
  cases hr : runOut O A c evs with
  | cont st =>
    rw [hr] at key
    simp only [Out.res]
    exact ⟨fun _ => ⟨st, rfl, rfl, key.1, key.2⟩, fun h => by simp [St.shortRes] at h⟩
  | done r =>
    rw [hr] at key
    obtain ⟨k, hk, hb, hq⟩ := key
    have hn : r.nevals = k := by rw [hb.1]; simp; omega
    simp only [Out.res]
    refine ⟨fun h => ?_, fun _ => ⟨trivial, by omega, by rw [hn]; exact hb, by rw [hn]; exact hq⟩⟩
    rw [hb.2.1] at h; cases h

/-- the trivial instance -/
theorem run_base (O : Ord) (A : Arith) (c : Cfg) (evs : List Ev) :
    ((runWith O A c evs).short = true →
      ∃ st, runOut O A c evs = .cont st ∧ runWith O A c evs = st.shortRes ∧ Base c evs st) ∧
    ((runWith O A c evs).short = false →
      runOut O A c evs = .done (runWith O A c evs) ∧ (runWith O A c evs).nevals ≤ evs.length ∧
      BaseQ c (evs.take (runWith O A c evs).nevals) (runWith O A c evs)) := by
  have := run_inv' O A c (fun _ _ => True) (fun _ _ => True) (fun _ _ => trivial) (fun _ _ => trivial)
    (fun _ _ _ _ _ _ _ _ _ => trivial) (fun _ _ _ _ _ _ _ => trivial) evs
  exact ⟨fun h => by obtain ⟨st, h1, h2, h3, _⟩ := this.1 h; exact ⟨st, h1, h2, h3⟩,
         fun h => by obtain ⟨h1, h2, h3, _⟩ := this.2 h; exact ⟨h1, h2, h3⟩⟩

/-- the events run out exactly when all of them were consumed -/
theorem short_nevals (O : Ord) (A : Arith) (c : Cfg) (evs : List Ev) (h : (runWith O A c evs).short = true) :
    (runWith O A c evs).nevals = evs.length := by
  obtain ⟨st, _, h2, h3⟩ := (run_base O A c evs).1 h
  rw [h2]; exact h3.1

theorem nevals_le_length (O : Ord) (A : Arith) (c : Cfg) (evs : List Ev) : (runWith O A c evs).nevals ≤ evs.length := by
  cases h : (runWith O A c evs).short with
  | true => rw [short_nevals O A c evs h]; exact Nat.le_refl _
  | false => exact ((run_base O A c evs).2 h).2.1

/-! ## T1 — evaluation budget (C03) -/

theorem evalsStop_false {c : Cfg} {k : Nat} (hm : 0 < c.s.maxeval) (h : c.evalsStop k = false) :
    c.s.nevals + (k : Int) < c.s.maxeval := by
  simp [Cfg.evalsStop, Stop.evals, hm] at h
  omega

/-- T1, general form (`nevals0 = c.s.nevals` = the counter on entry, which Sbplx shares with its Nelder-Mead calls):
    with a positive `maxeval` the counter never passes `maxeval` — unless it was there already on entry, in which case
    exactly one evaluation is made (the code tests only AFTER an evaluation). -/
theorem t1_general (O : Ord) (A : Arith) (c : Cfg) (evs : List Ev) (hm : 0 < c.s.maxeval) :
    c.s.nevals + ((runWith O A c evs).nevals : Int) ≤ max c.s.maxeval (c.s.nevals + 1) := by
  have key := run_inv' O A c
    (fun _ st => c.s.nevals + (st.nev : Int) < c.s.maxeval ∨ st.nev = 0)
    (fun _ r => c.s.nevals + (r.nevals : Int) ≤ max c.s.maxeval (c.s.nevals + 1))
    (fun st h => Or.inr (base_start O A c st h).1)
    (fun r h => by have := (base_start_done O A c r h).1; simp at this; rw [this]; omega)
    (fun seen st e st' _ _ hs hsame _ => by
      left
      have := evalsStop_false hm (stopCode_none hs).2
      rw [hsame.1, upd_nev]; exact this)
    (fun seen st e k _ hp _ => by
      simp only [resOf, upd_nev]
      rcases hp with hp | hp
      · omega
      · rw [hp]; omega)
    evs
  cases hsh : (runWith O A c evs).short with
  | true =>
    obtain ⟨st, _, h2, _, hp⟩ := key.1 hsh
    rw [h2]; simp only [St.shortRes]
    rcases hp with hp | hp
    · omega
    · rw [hp]; omega
  | false => exact (key.2 hsh).2.2.2

/-- **T1** (C03): through `nlopt_optimize` (counter reset to 0) at most `maxeval` evaluations are made. No overshoot. -/
theorem t1_budget (O : Ord) (A : Arith) (c : Cfg) (evs : List Ev) (hm : 0 < c.s.maxeval) (h0 : c.s.nevals = 0) :
    ((runWith O A c evs).nevals : Int) ≤ c.s.maxeval := by
  have := t1_general O A c evs hm
  rw [h0] at this
  omega

/-- and when the budget stops the run, it is exhausted exactly -/
theorem t1_exact (O : Ord) (A : Arith) (c : Cfg) (evs : List Ev) (hm : 0 < c.s.maxeval)
    (hs : (runWith O A c evs).short = false) (hr : (runWith O A c evs).ret = 5) :
    c.s.nevals + ((runWith O A c evs).nevals : Int) ≥ c.s.maxeval := by
  have key := run_inv' O A c (fun _ _ => True)
    (fun _ r => r.ret = 5 → c.s.nevals + (r.nevals : Int) ≥ c.s.maxeval)
    (fun _ _ => trivial)
    (fun r h hr => by
      rcases start_cases O A c with ⟨_, hs⟩ | ⟨m, _, hf⟩
      · rw [hs] at h; cases h
      · rw [h] at hf; obtain ⟨k, hk, hr'⟩ := hf; subst hr'; simp at hr; omega)
    (fun _ _ _ _ _ _ _ _ _ => trivial)
    (fun seen st e k _ _ hk hr => by
      simp only [resOf] at hr
      subst hr
      rcases hk with hk | ⟨_, hk⟩
      · rcases stopCode_some hk with ⟨h, _⟩ | ⟨h, _⟩ | ⟨_, _, h⟩
        · omega
        · omega
        · simp only [resOf, upd_nev]
          simp [Cfg.evalsStop, Stop.evals] at h
          omega
      · omega)
    evs
  exact (key.2 hs).2.2.2 hr

/-! ## T2 — forced stop (C04) -/

/-- **T2** (C04).  If the run has not returned on the events `pre` (it is still waiting for an evaluation) and the next
    evaluation raises the forced stop, the driver returns FORCED_STOP right there: `nevals = |pre| + 1`, whatever events
    might follow are not consumed.  (The hypothesis "first forced event" is not even needed: `pre` not having returned
    implies that no event of `pre` was forced, see `t2_forced_is_last`.) -/
theorem t2_forced (O : Ord) (A : Arith) (c : Cfg) (pre post : List Ev) (e : Ev)
    (hpre : (runWith O A c pre).short = true) (he : e.forced = true) :
    (runWith O A c (pre ++ e :: post)).nevals = pre.length + 1 ∧ (runWith O A c (pre ++ e :: post)).ret = -5 ∧
    (runWith O A c (pre ++ e :: post)).short = false := by
  obtain ⟨st, h1, _, hb⟩ := (run_base O A c pre).1 hpre
  have hstep : step O A c st e = .done (resOf (-5) (upd st e)) := by
    rcases step_out O A c st e with ⟨k, hk, hs⟩ | ⟨hn, _⟩
    · rw [stopCode_forced he] at hk; injection hk with hk; subst hk; exact hs
    · rw [stopCode_forced he] at hn; cases hn
  have : runWith O A c (pre ++ e :: post) = resOf (-5) (upd st e) := by
    unfold runWith; rw [runOut_append, h1]; simp [go, hstep, Out.res]
  rw [this]
  exact ⟨by simp [resOf, upd_nev, hb.1], rfl, rfl⟩

/-- the statement in the "first forced event" wording of the task -/
theorem t2_first_forced (O : Ord) (A : Arith) (c : Cfg) (evs : List Ev) (k : Nat) (e : Ev)
    (hk : evs[k]? = some e) (he : e.forced = true) (hfirst : ∀ j, j < k → ∀ e', evs[j]? = some e' → e'.forced = false)
    (hrun : (runWith O A c (evs.take k)).short = true) :
    (runWith O A c evs).nevals = k + 1 ∧ (runWith O A c evs).ret = -5 := by
  have hlt : k < evs.length := by
    rcases Nat.lt_or_ge k evs.length with h | h
    · exact h
    · rw [List.getElem?_eq_none h] at hk; cases hk
  have hsplit : evs = evs.take k ++ e :: evs.drop (k + 1) := by
    have h1 : evs.drop k = e :: evs.drop (k + 1) := by
      rw [List.drop_eq_getElem_cons hlt]
      congr 1
      rw [List.getElem?_eq_getElem hlt] at hk; injection hk
    rw [← h1, List.take_append_drop]
  have := t2_forced O A c (evs.take k) (evs.drop (k + 1)) e hrun he
  rw [← hsplit] at this
  simp only [List.length_take] at this
  exact ⟨by omega, this.2.1⟩

/-- Conversely: a consumed event that raised the stop is the LAST consumed event, and the code is FORCED_STOP; and
    FORCED_STOP is returned only for that reason. -/
theorem t2_forced_is_last (O : Ord) (A : Arith) (c : Cfg) (evs : List Ev) :
    (∀ j e, j + 1 < (runWith O A c evs).nevals → evs[j]? = some e → e.forced = false) ∧
    ((runWith O A c evs).short = false →
      ((runWith O A c evs).ret = -5 ↔ ∃ e, evs[(runWith O A c evs).nevals - 1]? = some e ∧ 0 < (runWith O A c evs).nevals ∧ e.forced = true)) := by
  have key := run_inv' O A c
    (fun seen _ => ∀ e ∈ seen, e.forced = false)
    (fun seen r => (∀ e ∈ seen.dropLast, e.forced = false) ∧
      (r.ret = -5 ↔ ∃ e, seen.getLast? = some e ∧ e.forced = true))
    (fun _ _ => by simp)
    (fun r h => by
      rcases start_cases O A c with ⟨_, hs⟩ | ⟨m, _, hf⟩
      · rw [hs] at h; cases h
      · rw [h] at hf; obtain ⟨k, hk, hr'⟩ := hf; subst hr'; simp; omega)
    (fun seen st e st' _ hp hs _ _ => by
      intro e' he'
      rcases List.mem_append.mp he' with h | h
      · exact hp e' h
      · simp at h; subst h; exact (stopCode_none hs).1)
    (fun seen st e k _ hp hk => by
      refine ⟨by simpa using hp, ?_⟩
      simp only [resOf, List.getLast?_append, List.getLast?_singleton, Option.some_or]
      rcases hk with hk | ⟨hn, hk⟩
      · rcases stopCode_some hk with ⟨h1, h2⟩ | ⟨h1, h2, _⟩ | ⟨h1, h2, _⟩
        · simp [h1, h2]
        · simp [h1, h2]
        · simp [h1, h2]
      · have := (stopCode_none hn).1
        simp [this]; omega)
    evs
  cases hsh : (runWith O A c evs).short with
  | true =>
    obtain ⟨st, _, h2, hb, hp⟩ := key.1 hsh
    refine ⟨fun j e _ hj => hp e (List.mem_of_getElem? hj), fun h => by cases h⟩
  | false =>
    obtain ⟨_, hle, hb, hq1, hq2⟩ := key.2 hsh
    refine ⟨fun j e hj hje => ?_, fun _ => ?_⟩
    · apply hq1 e
      generalize (runWith O A c evs).nevals = n at hle hj ⊢
      rw [List.dropLast_eq_take, List.length_take, List.take_take]
      apply List.mem_of_getElem? (i := j)
      rw [List.getElem?_take]
      have : j < min (min n evs.length - 1) n := by omega
      simp [this, hje]
    · rw [hq2]
      generalize (runWith O A c evs).nevals = n at hle ⊢
      rw [List.getLast?_eq_getElem?, List.length_take, Nat.min_eq_left hle]
      constructor
      · rintro ⟨e, h1, h2⟩
        have hn : 0 < n := by
          rcases Nat.eq_zero_or_pos n with h | h
          · subst h; simp at h1
          · exact h
        rw [List.getElem?_take] at h1
        have : n - 1 < n := by omega
        simp [this] at h1
        exact ⟨e, h1, hn, h2⟩
      · rintro ⟨e, h1, hn, h2⟩
        refine ⟨e, ?_, h2⟩
        rw [List.getElem?_take]
        have : n - 1 < n := by omega
        simp [this, h1]

/-! ## T3 — the returned pair was evaluated (C02) -/

/-- `(x, m)` is an evaluated pair of `seen`, or it is the start pair: `x = x0` together with the value of `f(x0)` (the
    first event's value in wrapper mode — the wrapper evaluates `f` AT the caller's `x` and never copies that point; the
    given `minf0` in inner mode). -/
def Inc (c : Cfg) (seen : List Ev) (x : List F64) (m : F64) : Prop :=
  (∃ e ∈ seen, x = e.x ∧ m = e.f) ∨
  (x = c.x0 ∧ (c.minf0 = some m ∨ (c.minf0 = none ∧ ∃ e, seen.head? = some e ∧ m = e.f)))

theorem Inc.mono {c : Cfg} {seen : List Ev} {x : List F64} {m : F64} (h : Inc c seen x m) (e : Ev) :
    Inc c (seen ++ [e]) x m := by
  rcases h with ⟨e', he', h⟩ | ⟨hx, h⟩
  · exact Or.inl ⟨e', List.mem_append_left _ he', h⟩
  · refine Or.inr ⟨hx, ?_⟩
    rcases h with h | ⟨hn, e', he', h⟩
    · exact Or.inl h
    · exact Or.inr ⟨hn, e', by simp [List.head?_append, he'], h⟩

/-- the incumbent after one more evaluation is again an evaluated pair (or the start pair) -/
theorem inc_upd {c : Cfg} {seen : List Ev} {st : St} {e : Ev} (hb : Base c seen st)
    (hp : st.ph ≠ .first → Inc c seen st.x st.minf) : Inc c (seen ++ [e]) (upd st e).x (upd st e).minf := by
  by_cases hph : st.ph = .first
  · obtain ⟨_, hx, hs, hm⟩ := hb.2.1 hph
    rw [upd_first hph]
    exact Or.inr ⟨hx, Or.inr ⟨hm, e, by simp [hs], rfl⟩⟩
  · rw [upd_other hph]
    unfold record
    split
    · exact Or.inl ⟨e, by simp, rfl, rfl⟩
    · exact (hp hph).mono e

theorem t3_general (O : Ord) (A : Arith) (c : Cfg) (evs : List Ev) (hs : (runWith O A c evs).short = false) :
    ∃ m, (runWith O A c evs).minf = some m ∧ Inc c (evs.take (runWith O A c evs).nevals) (runWith O A c evs).x m := by
  have key := run_inv' O A c
    (fun seen st => st.ph ≠ .first → Inc c seen st.x st.minf)
    (fun seen r => ∃ m, r.minf = some m ∧ Inc c seen r.x m)
    (fun st h hp => by
      rcases start_cases O A c with ⟨_, hs⟩ | ⟨m, hm, hf⟩
      · rw [hs] at h; injection h with h; subst h; exact absurd rfl hp
      · rw [h] at hf
        obtain ⟨⟨_, h2, h3, _⟩, _⟩ := hf
        exact Or.inr ⟨h2, Or.inl (by rw [h3]; exact hm)⟩)
    (fun r h => by
      rcases start_cases O A c with ⟨_, hs⟩ | ⟨m, hm, hf⟩
      · rw [hs] at h; cases h
      · rw [h] at hf; obtain ⟨k, _, hr'⟩ := hf; subst hr'
        exact ⟨m, rfl, Or.inr ⟨rfl, Or.inl hm⟩⟩)
    (fun seen st e st' hb hp _ hsame _ _ => by
      rw [hsame.2.1, hsame.2.2.1]; exact inc_upd hb hp)
    (fun seen st e k hb hp _ => by
      have hw : (upd st e).wr = true := by
        rw [upd_wr]
        by_cases hph : st.ph = .first
        · simp [hph]
        · simp [(hb.2.2 hph).1]
      exact ⟨(upd st e).minf, by simp [resOf, St.minfOpt, hw], inc_upd hb hp⟩)
    evs
  exact (key.2 hs).2.2.2

/-- **T3** (C02), wrapper `nldrmd_minimize` as reached through `nlopt_optimize`: the first evaluation is made AT the
    caller's `x0` (hypothesis `hx0`: that is what the C code does, `*minf = f(n, x, NULL, f_data)`); then for every result
    code (success or not) the returned `(x, *minf)` is the `(x, f)` of one CONSUMED event. -/
theorem t3_evaluated (O : Ord) (A : Arith) (c : Cfg) (evs : List Ev) (hw : c.minf0 = none)
    (hx0 : ∀ e, evs.head? = some e → e.x = c.x0) (hs : (runWith O A c evs).short = false) :
    ∃ e ∈ evs.take (runWith O A c evs).nevals, (runWith O A c evs).x = e.x ∧ (runWith O A c evs).minf = some e.f := by
  obtain ⟨m, hm, hi⟩ := t3_general O A c evs hs
  rcases hi with ⟨e, he, h1, h2⟩ | ⟨hx, h⟩
  · exact ⟨e, he, h1, by rw [hm, h2]⟩
  · rcases h with h | ⟨_, e, he, h⟩
    · rw [hw] at h; cases h
    · have hmem : e ∈ evs.take (runWith O A c evs).nevals := List.mem_of_mem_head? he
      have hhead : evs.head? = some e := by
        cases hn : (runWith O A c evs).nevals with
        | zero => rw [hn] at he; simp at he
        | succ n =>
          rw [hn] at he
          cases evs with
          | nil => simp at he
          | cons a t => simpa using he
      exact ⟨e, hmem, by rw [hx, hx0 e hhead], by rw [hm, h]⟩

/-- T3 in the wording of the task (success codes) -/
theorem t3_success (O : Ord) (A : Arith) (c : Cfg) (evs : List Ev) (hw : c.minf0 = none)
    (hx0 : ∀ e, evs.head? = some e → e.x = c.x0) (hs : (runWith O A c evs).short = false) (hr : 0 < (runWith O A c evs).ret) :
    ∃ e ∈ evs.take (runWith O A c evs).nevals, ((runWith O A c evs).x, (runWith O A c evs).minf) = (e.x, some e.f) := by
  obtain ⟨e, he, h1, h2⟩ := t3_evaluated O A c evs hw hx0 hs
  exact ⟨e, he, by rw [h1, h2]⟩

/-! ## T5 — stopval (C02) -/

/-- **T5**: MINF_MAX_REACHED is returned only with `*minf < stopval`, STRICTLY (`*minf < stop->minf_max` in the wrapper,
    at the entry of `nldrmd_minimize_` and in `CHECK_EVAL`) — whereas the documentation of `nlopt_set_stopval` promises a
    stop for `f ≤ stopval`: a value EQUAL to stopval does not stop Nelder-Mead. -/
theorem t5_stopval (O : Ord) (A : Arith) (c : Cfg) (evs : List Ev) (hs : (runWith O A c evs).short = false)
    (hr : (runWith O A c evs).ret = 2) :
    ∃ m, (runWith O A c evs).minf = some m ∧ F64.lt m c.s.minfMax = true := by
  have key := run_inv' O A c (fun _ _ => True)
    (fun _ r => r.ret = 2 → ∃ m, r.minf = some m ∧ F64.lt m c.s.minfMax = true)
    (fun _ _ => trivial)
    (fun r h hr => by
      rcases start_cases O A c with ⟨_, hs⟩ | ⟨m, _, hf⟩
      · rw [hs] at h; cases h
      · rw [h] at hf; obtain ⟨k, hk, hr'⟩ := hf; subst hr'
        simp at hr
        refine ⟨m, rfl, ?_⟩
        rcases hk with h | h | h | ⟨_, h⟩
        · omega
        · omega
        · omega
        · exact h)
    (fun _ _ _ _ _ _ _ _ _ => trivial)
    (fun seen st e k hb _ hk hr => by
      simp only [resOf] at hr; subst hr
      rcases hk with hk | ⟨_, hk⟩
      · rcases stopCode_some hk with ⟨h, _⟩ | ⟨_, hf, hlt, hle⟩ | ⟨h, _⟩
        · omega
        · by_cases hph : st.ph = .first
          · exact ⟨e.f, by simp [resOf, upd_first hph, St.minfOpt], hlt⟩
          · refine ⟨e.f, ?_, hlt⟩
            simp [resOf, upd_other hph, record, hf, hle hph, St.minfOpt, (hb.2.2 hph).1]
        · omega
      · omega)
    evs
  exact (key.2 hs).2.2.2 hr

/-! ## T4 — the returned value is the best evaluated one (C05) -/

/-- the non-NaN hypothesis: every objective value of `seen` is a number, and so is the given `minf0` (inner mode) -/
def NumOK (c : Cfg) (seen : List Ev) : Prop :=
  (∀ e ∈ seen, e.f.isNaN = false) ∧ (∀ m, c.minf0 = some m → m.isNaN = false)

theorem NumOK.take {c : Cfg} {evs : List Ev} (h : NumOK c evs) (k : Nat) : NumOK c (evs.take k) :=
  ⟨fun e he => h.1 e (List.mem_of_mem_take he), h.2⟩

/-- invariant: `*minf` is a number and a lower bound of all values seen -/
def Best (seen : List Ev) (m : F64) : Prop := m.isNaN = false ∧ ∀ e ∈ seen, F64.le m e.f = true

theorem best_upd {c : Cfg} {seen : List Ev} {st : St} {e : Ev} (hb : Base c seen st)
    (hp : st.ph ≠ .first → Best seen st.minf) (hn : e.f.isNaN = false) :
    Best seen (upd st e).minf ∧ (e.forced = false → F64.le (upd st e).minf e.f = true) := by
  by_cases hph : st.ph = .first
  · obtain ⟨_, _, hs, _⟩ := hb.2.1 hph
    rw [upd_first hph]
    exact ⟨⟨hn, by simp [hs]⟩, fun _ => le_refl_of_not_nan hn⟩
  · obtain ⟨hm, hall⟩ := hp hph
    rw [upd_other hph]
    unfold record
    split
    · rename_i hc
      simp at hc
      exact ⟨⟨hn, fun e' he' => le_trans' hc.2 (hall e' he')⟩, fun _ => le_refl_of_not_nan hn⟩
    · rename_i hc
      refine ⟨⟨hm, hall⟩, fun hf => ?_⟩
      simp [hf] at hc
      rcases le_total_of_not_nan hn hm with h | h
      · rw [h] at hc; cases hc
      · exact h

/-- **T4** (C05), general form.  If no objective value is NaN, then on return (any code) `*minf` is a lower bound of the
    value of EVERY consumed event — except, when the code is FORCED_STOP, the last one: the evaluation during which the
    stop was raised is counted but its value is not compared (`CHECK_EVAL` tests the flag first). -/
theorem t4_general (O : Ord) (A : Arith) (c : Cfg) (evs : List Ev) (hnum : NumOK c evs) (hs : (runWith O A c evs).short = false) :
    ∃ m, (runWith O A c evs).minf = some m ∧ m.isNaN = false ∧
      ∀ e ∈ (if (runWith O A c evs).ret = -5 then (evs.take (runWith O A c evs).nevals).dropLast
             else evs.take (runWith O A c evs).nevals), F64.le m e.f = true := by
  have key := run_inv' O A c
    (fun seen st => st.ph ≠ .first → NumOK c seen → Best seen st.minf)
    (fun seen r => NumOK c seen → ∃ m, r.minf = some m ∧ m.isNaN = false ∧
      ∀ e ∈ (if r.ret = -5 then seen.dropLast else seen), F64.le m e.f = true)
    (fun st h hp hn => by
      rcases start_cases O A c with ⟨_, hs⟩ | ⟨m, hm, hf⟩
      · rw [hs] at h; injection h with h; subst h; exact absurd rfl hp
      · rw [h] at hf
        obtain ⟨⟨_, _, h3, _⟩, _⟩ := hf
        exact ⟨by rw [h3]; exact hn.2 m hm, by simp⟩)
    (fun r h hn => by
      rcases start_cases O A c with ⟨_, hs⟩ | ⟨m, hm, hf⟩
      · rw [hs] at h; cases h
      · rw [h] at hf; obtain ⟨k, _, hr'⟩ := hf; subst hr'
        exact ⟨m, rfl, hn.2 m hm, by simp⟩)
    (fun seen st e st' hb hp hsc hsame _ _ hn => by
      have hn' : NumOK c seen := ⟨fun e' he' => hn.1 e' (List.mem_append_left _ he'), hn.2⟩
      obtain ⟨⟨h1, h2⟩, h3⟩ := best_upd hb (fun hph => hp hph hn') (hn.1 e (by simp))
      rw [hsame.2.2.1]
      refine ⟨h1, fun e' he' => ?_⟩
      rcases List.mem_append.mp he' with h | h
      · exact h2 e' h
      · simp at h; subst h; exact h3 (stopCode_none hsc).1)
    (fun seen st e k hb hp hk hn => by
      have hn' : NumOK c seen := ⟨fun e' he' => hn.1 e' (List.mem_append_left _ he'), hn.2⟩
      obtain ⟨⟨h1, h2⟩, h3⟩ := best_upd hb (fun hph => hp hph hn') (hn.1 e (by simp))
      have hw : (upd st e).wr = true := by
        rw [upd_wr]
        by_cases hph : st.ph = .first
        · simp [hph]
        · simp [(hb.2.2 hph).1]
      refine ⟨(upd st e).minf, by simp [resOf, St.minfOpt, hw], h1, ?_⟩
      simp only [resOf]
      by_cases hk5 : k = -5
      · simpa [hk5] using h2
      · have hf : e.forced = false := by
          rcases hk with hk | ⟨hk, _⟩
          · rcases stopCode_some hk with ⟨h, _⟩ | ⟨_, h, _⟩ | ⟨_, h, _⟩
            · exact absurd h hk5
            · exact h
            · exact h
          · exact (stopCode_none hk).1
        simp only [hk5, if_false]
        intro e' he'
        rcases List.mem_append.mp he' with h | h
        · exact h2 e' h
        · simp at h; subst h; exact h3 hf)
    evs
  exact (key.2 hs).2.2.2 (hnum.take _)

/-- **T4** (C05) for success codes: no consumed event has `f < *minf`. -/
theorem t4_best (O : Ord) (A : Arith) (c : Cfg) (evs : List Ev) (hnum : NumOK c evs) (hs : (runWith O A c evs).short = false)
    (hr : 0 < (runWith O A c evs).ret) :
    ∃ m, (runWith O A c evs).minf = some m ∧ ∀ e ∈ evs.take (runWith O A c evs).nevals, F64.lt e.f m = false := by
  obtain ⟨m, h1, h2, h3⟩ := t4_general O A c evs hnum hs
  have : ¬ (runWith O A c evs).ret = -5 := by omega
  simp only [this, if_false] at h3
  refine ⟨m, h1, fun e he => ?_⟩
  have hle := h3 e he
  have hne := not_nan_of_le_right hle
  cases hlt : F64.lt e.f m with
  | false => rfl
  | true => rw [(lt_iff_not_le hne h2).mp hlt] at hle; cases hle

/-- **T4** for FORCED_STOP: no event consumed BEFORE the one that raised the stop has `f < *minf`. -/
theorem t4_best_forced (O : Ord) (A : Arith) (c : Cfg) (evs : List Ev) (hnum : NumOK c evs) (hs : (runWith O A c evs).short = false)
    (hr : (runWith O A c evs).ret = -5) :
    ∃ m, (runWith O A c evs).minf = some m ∧ ∀ e ∈ evs.take ((runWith O A c evs).nevals - 1), F64.lt e.f m = false := by
  obtain ⟨m, h1, h2, h3⟩ := t4_general O A c evs hnum hs
  simp only [hr, if_true] at h3
  refine ⟨m, h1, fun e he => ?_⟩
  have hle : F64.le m e.f = true := by
    apply h3 e
    rw [List.dropLast_eq_take, List.length_take, List.take_take]
    have hlen := nevals_le_length O A c evs
    rw [Nat.min_eq_left hlen, Nat.min_eq_left (Nat.sub_le _ _)]
    exact he
  have hne := not_nan_of_le_right hle
  cases hlt : F64.lt e.f m with
  | false => rfl
  | true => rw [(lt_iff_not_le hne h2).mp hlt] at hle; cases hle

theorem lt_of_lt_of_le {a b c : F64} (h1 : F64.lt a b = true) (h2 : F64.le b c = true) : F64.lt a c = true := by
  simp [F64.lt, F64.le] at *
  obtain ⟨⟨ha, _⟩, hab⟩ := h1
  obtain ⟨⟨_, hc⟩, hbc⟩ := h2
  exact ⟨⟨ha, hc⟩, by omega⟩

/-- invariant without any NaN hypothesis: no value seen compares `<` the incumbent value -/
def NoLess (seen : List Ev) (m : F64) : Prop := ∀ e ∈ seen, F64.lt e.f m = false

theorem noless_upd {c : Cfg} {seen : List Ev} {st : St} {e : Ev} (hb : Base c seen st)
    (hp : st.ph ≠ .first → NoLess seen st.minf) :
    NoLess seen (upd st e).minf ∧ (e.forced = false → F64.lt e.f (upd st e).minf = false) := by
  by_cases hph : st.ph = .first
  · obtain ⟨_, _, hs, _⟩ := hb.2.1 hph
    rw [upd_first hph]
    exact ⟨by simp [NoLess, hs], fun _ => lt_irrefl' _⟩
  · have hall := hp hph
    rw [upd_other hph]
    unfold record
    split
    · rename_i hc
      simp at hc
      refine ⟨fun e' he' => ?_, fun _ => lt_irrefl' _⟩
      cases hlt : F64.lt e'.f e.f with
      | false => rfl
      | true => have := lt_of_lt_of_le hlt hc.2; rw [hall e' he'] at this; cases this
    · rename_i hc
      refine ⟨hall, fun hf => ?_⟩
      simp [hf] at hc
      cases hlt : F64.lt e.f st.minf with
      | false => rfl
      | true => rw [le_of_lt hlt] at hc; cases hc

/-- **T4 without the NaN hypothesis** (all values, NaN included, wrapper and inner mode): on return no consumed event —
    except the one that raised a forced stop — has `f < *minf` in the IEEE sense.  (When `*minf` is NaN this says nothing:
    see `nan_start_sticks` for what the code does then.) -/
theorem t4_noless (O : Ord) (A : Arith) (c : Cfg) (evs : List Ev) (hs : (runWith O A c evs).short = false) :
    ∃ m, (runWith O A c evs).minf = some m ∧
      ∀ e ∈ (if (runWith O A c evs).ret = -5 then (evs.take (runWith O A c evs).nevals).dropLast
             else evs.take (runWith O A c evs).nevals), F64.lt e.f m = false := by
  have key := run_inv' O A c
    (fun seen st => st.ph ≠ .first → NoLess seen st.minf)
    (fun seen r => ∃ m, r.minf = some m ∧
      ∀ e ∈ (if r.ret = -5 then seen.dropLast else seen), F64.lt e.f m = false)
    (fun st h hp => by
      rcases start_cases O A c with ⟨_, hs⟩ | ⟨m, hm, hf⟩
      · rw [hs] at h; injection h with h; subst h; exact absurd rfl hp
      · simp [NoLess])
    (fun r h => by
      rcases start_cases O A c with ⟨_, hs⟩ | ⟨m, hm, hf⟩
      · rw [hs] at h; cases h
      · rw [h] at hf; obtain ⟨k, _, hr'⟩ := hf; subst hr'
        exact ⟨m, rfl, by simp⟩)
    (fun seen st e st' hb hp hsc hsame _ _ => by
      obtain ⟨h2, h3⟩ := noless_upd (e := e) hb hp
      rw [hsame.2.2.1]
      intro e' he'
      rcases List.mem_append.mp he' with h | h
      · exact h2 e' h
      · simp at h; subst h; exact h3 (stopCode_none hsc).1)
    (fun seen st e k hb hp hk => by
      obtain ⟨h2, h3⟩ := noless_upd (e := e) hb hp
      have hw : (upd st e).wr = true := by
        rw [upd_wr]
        by_cases hph : st.ph = .first
        · simp [hph]
        · simp [(hb.2.2 hph).1]
      refine ⟨(upd st e).minf, by simp [resOf, St.minfOpt, hw], ?_⟩
      simp only [resOf]
      by_cases hk5 : k = -5
      · simpa [hk5, NoLess] using h2
      · have hf : e.forced = false := by
          rcases hk with hk | ⟨hk, _⟩
          · rcases stopCode_some hk with ⟨h, _⟩ | ⟨_, h, _⟩ | ⟨_, h, _⟩
            · exact absurd h hk5
            · exact h
            · exact h
          · exact (stopCode_none hk).1
        simp only [hk5, if_false]
        intro e' he'
        rcases List.mem_append.mp he' with h | h
        · exact h2 e' h
        · simp at h; subst h; exact h3 hf)
    evs
  exact (key.2 hs).2.2.2

/-! ## further facts -/

/-- the result codes Nelder-Mead can return: FORCED_STOP, FAILURE (degenerate initial step), STOPVAL, FTOL, XTOL,
    MAXEVAL.  In particular NEVER `NLOPT_SUCCESS` (1) and never INVALID_ARGS / ROUNDOFF_LIMITED. -/
theorem ret_codes (O : Ord) (A : Arith) (c : Cfg) (evs : List Ev) (hs : (runWith O A c evs).short = false) :
    (runWith O A c evs).ret = -5 ∨ (runWith O A c evs).ret = -1 ∨ (runWith O A c evs).ret = 2 ∨ (runWith O A c evs).ret = 3 ∨
    (runWith O A c evs).ret = 4 ∨ (runWith O A c evs).ret = 5 := by
  have key := run_inv' O A c (fun _ _ => True)
    (fun _ r => r.ret = -5 ∨ r.ret = -1 ∨ r.ret = 2 ∨ r.ret = 3 ∨ r.ret = 4 ∨ r.ret = 5)
    (fun _ _ => trivial)
    (fun r h => by
      rcases start_cases O A c with ⟨_, hs⟩ | ⟨m, _, hf⟩
      · rw [hs] at h; cases h
      · rw [h] at hf; obtain ⟨k, hk, hr'⟩ := hf; subst hr'; simp only []; omega)
    (fun _ _ _ _ _ _ _ _ _ => trivial)
    (fun seen st e k _ _ hk => by
      simp only [resOf]
      rcases hk with hk | ⟨_, hk⟩
      · rcases stopCode_some hk with ⟨h, _⟩ | ⟨h, _⟩ | ⟨h, _⟩ <;> omega
      · omega)
    evs
  exact (key.2 hs).2.2.2

/-- the public entry always makes at least one evaluation (`f(x0)`) -/
theorem wrapper_evaluates (O : Ord) (A : Arith) (c : Cfg) (evs : List Ev) (hw : c.minf0 = none)
    (hs : (runWith O A c evs).short = false) : 1 ≤ (runWith O A c evs).nevals := by
  obtain ⟨_, _, hb⟩ := (run_base O A c evs).2 hs
  obtain ⟨h1, _, _, h4⟩ := hb
  rcases h4 with h | h
  · rw [h1]; exact List.length_pos_iff.mpr h
  · exact absurd hw h

/-- a run that has returned ignores whatever events follow -/
theorem run_append_done (O : Ord) (A : Arith) (c : Cfg) (a b : List Ev) (h : (runWith O A c a).short = false) :
    runWith O A c (a ++ b) = runWith O A c a := by
  have h1 := ((run_base O A c a).2 h).1
  unfold runWith at *
  rw [runOut_append_done O A c a b _ h1, ← h1]

/-- `short` is monotone: if the run on a list is short, so is the run on every prefix -/
theorem short_prefix (O : Ord) (A : Arith) (c : Cfg) (a b : List Ev) (h : (runWith O A c (a ++ b)).short = true) :
    (runWith O A c a).short = true := by
  cases hs : (runWith O A c a).short with
  | true => rfl
  | false =>
    rw [run_append_done O A c a b hs, hs] at h; cases h

/-- the result depends on the consumed events only -/
theorem run_take (O : Ord) (A : Arith) (c : Cfg) (evs : List Ev) (hs : (runWith O A c evs).short = false) :
    runWith O A c (evs.take (runWith O A c evs).nevals) = runWith O A c evs := by
  have key := run_inv O A c (fun s st => Base c s st ∧ runOut O A c s = .cont st)
    (fun s r => BaseQ c s r ∧ runOut O A c s = .done r)
    (fun st h => ⟨base_start O A c st h, by simp [runOut, h, go]⟩)
    (fun r h => ⟨base_start_done O A c r h, by simp [runOut, h]⟩)
    (fun seen st e st' hp h => ⟨base_cont hp.1 h, by rw [runOut_append, hp.2]; simp [go, h]⟩)
    (fun seen st e r hp h => ⟨base_done hp.1 h, by rw [runOut_append, hp.2]; simp [go, h]⟩)
    evs
  have h1 := ((run_base O A c evs).2 hs).1
  rw [h1] at key
  obtain ⟨k, hk, hb, hr⟩ := key
  have hn : (runWith O A c evs).nevals = k := by rw [hb.1]; simp; omega
  rw [hn]
  show (runOut O A c (evs.take k)).res = _
  rw [hr]; rfl

/-! ## witnesses and non-vacuity

Concrete runs, checked by `decide`.  `A0` is a dummy arithmetic (every operation returns +0): with all tolerances 0 no
tolerance test can fire under it, so the branch taken is decided by the comparisons of the objective values alone — the same
traces are produced by the C library (they are replayable: points and values are given as bit patterns).
`h k` = the double with bit pattern `k`: 1.0 = 0x3ff0…, 2.0 = 0x4000…, 2.5 = 0x4004…, 3.0 = 0x4008…, 4.0 = 0x4010…,
5.0 = 0x4014…, -10.0 = 0xc024…. -/

def A0 : Arith := ⟨fun _ _ => F64.zero, fun _ _ => F64.zero, fun _ _ => F64.zero, fun _ _ => F64.zero, fun _ => F64.zero,
  fun _ => F64.zero, fun _ => F64.zero, fun _ _ => F64.zero, fun _ => F64.zero, fun _ => F64.zero, fun _ => F64.zero,
  fun _ => 0⟩

def h (k : Nat) : F64 := ⟨UInt64.ofNat k⟩

/-- stopping record: n = 1, given stopval / ftol_abs / maxeval, everything else off -/
def stp (stopval ftolAbs : F64) (maxeval : Int) : Stopping :=
  ⟨1, stopval, F64.zero, ftolAbs, F64.zero, none, none, 0, maxeval, F64.zero, F64.zero, 0⟩

/-- wrapper mode, n = 1, x0 = [1.0] -/
def cfgW (stopval ftolAbs : F64) (maxeval : Int) : Cfg := { n := 1, s := stp stopval ftolAbs maxeval, x0 := [h 0x3ff0000000000000] }

def ev (x f : Nat) (forced : Bool := false) (stuck : Bool := false) : Ev := ⟨[h x], h f, forced, stuck⟩

/-- f(1.0) = 5, f(2.0) = 3 (initial simplex), reflection f(3.0) = 4 (not better than pred(high) = low: contract),
    contraction f(2.5) = 1, and a fifth event that is never consumed -/
def evsA : List Ev :=
  [ev 0x3ff0000000000000 0x4014000000000000, ev 0x4000000000000000 0x4008000000000000,
   ev 0x4008000000000000 0x4010000000000000, ev 0x4004000000000000 0x3ff0000000000000,
   ev 0x4004000000000000 0x3ff0000000000000]

/-- T1 is sharp: with maxeval = 4 exactly 4 evaluations are made (and the 5th event is not consumed);
    T3/T4: the returned pair is the event (2.5, 1.0), the best one. -/
theorem t1_attained :
    run A0 (cfgW F64.negInf F64.zero 4) evsA = ⟨5, 4, [h 0x4004000000000000], some (h 0x3ff0000000000000), false⟩ := by
  decide

example : 0 < (cfgW F64.negInf F64.zero 4).s.maxeval ∧ (cfgW F64.negInf F64.zero 4).s.nevals = 0 := by decide
example : NumOK (cfgW F64.negInf F64.zero 4) evsA := ⟨by decide, fun m hm => by simp [cfgW] at hm⟩
example : ∀ e, evsA.head? = some e → e.x = (cfgW F64.negInf F64.zero 4).x0 := by decide

/-- without a budget the same events do not suffice: the model reports `short` with all 5 consumed -/
example : run A0 (cfgW F64.negInf F64.zero 0) evsA = ⟨0, 5, [h 0x4004000000000000], some (h 0x3ff0000000000000), true⟩ := by
  decide

/-- the third evaluation (the reflection) raises the forced stop and returns -10.0, lower than everything before -/
def evsF : List Ev :=
  [ev 0x3ff0000000000000 0x4014000000000000, ev 0x4000000000000000 0x4008000000000000,
   ev 0x4008000000000000 0xc024000000000000 true, ev 0x4004000000000000 0x3ff0000000000000]

/-- T2 non-vacuity: the run on the first two events is short, the third is forced → 3 evaluations, FORCED_STOP,
    and the pair returned is the best of the evaluations BEFORE the forced one: (2.0, 3.0). -/
theorem t2_witness :
    (run A0 (cfgW F64.negInf F64.zero 0) (evsF.take 2)).short = true ∧
    run A0 (cfgW F64.negInf F64.zero 0) evsF = ⟨-5, 3, [h 0x4000000000000000], some (h 0x4008000000000000), false⟩ := by
  decide

/-- **The "full" T4 for FORCED_STOP (all consumed events) is FALSE**: the evaluation during which the stop was raised is
    counted in `nevals` but `CHECK_EVAL` returns before comparing its value, so a consumed (non-NaN) event can have
    `f < *minf`.  Witness `evsF`: replay on the C library with an objective that returns 5, 3, -10 at the points 1, 2, 3
    and calls `nlopt_force_stop` during the third evaluation: the result is FORCED_STOP with x = 2.0, minf = 3.0. -/
theorem t4_forced_full_false :
    ¬ ∀ (O : Ord) (A : Arith) (c : Cfg) (evs : List Ev), NumOK c evs → (runWith O A c evs).short = false → (runWith O A c evs).ret = -5 →
      ∃ m, (runWith O A c evs).minf = some m ∧ ∀ e ∈ evs.take (runWith O A c evs).nevals, F64.lt e.f m = false := by
  intro hall
  obtain ⟨m, h1, h2⟩ := hall treeOrd A0 (cfgW F64.negInf F64.zero 0) evsF ⟨by decide, fun m hm => by simp [cfgW] at hm⟩ (by decide) (by decide)
  have hm : m = h 0x4008000000000000 := by
    have : (runWith treeOrd A0 (cfgW F64.negInf F64.zero 0) evsF).minf = some (h 0x4008000000000000) := by decide
    rw [this] at h1; injection h1 with h1; exact h1.symm
  subst hm
  have := h2 (ev 0x4008000000000000 0xc024000000000000 true) (by decide)
  revert this; decide

/-- T5 / T3 non-vacuity: stopval = 4.0; f(x0) = 5 is not below, f(2.0) = 3 is → STOPVAL after 2 evaluations -/
theorem t5_witness :
    run A0 (cfgW (h 0x4010000000000000) F64.zero 0) evsA = ⟨2, 2, [h 0x4000000000000000], some (h 0x4008000000000000), false⟩ := by
  decide

/-- The stopval test is STRICT: with stopval = 3.0 the value f(2.0) = 3.0 = stopval does not stop the run (it goes on to
    the reflection and is still running after 3 evaluations), although `nlopt_set_stopval` is documented as "stop when an objective value
    of at least stopval is found" (≤ for minimisation). -/
theorem stopval_equal_does_not_stop :
    run A0 (cfgW (h 0x4008000000000000) F64.zero 0) (evsA.take 3)
      = ⟨0, 3, [h 0x4000000000000000], some (h 0x4008000000000000), true⟩ := by
  decide

/-- FTOL: with ftol_abs = 1.0 (and the dummy arithmetic, |fl - fh| = 0 < 1) the run stops at the first loop head -/
example : run A0 (cfgW F64.negInf (h 0x3ff0000000000000) 0) evsA
    = ⟨3, 2, [h 0x4000000000000000], some (h 0x4008000000000000), false⟩ := by decide

/-- XTOL through a degenerate reflection (`stuck` on the event before it) -/
example : run A0 (cfgW F64.negInf F64.zero 0)
    [ev 0x3ff0000000000000 0x4014000000000000, ev 0x4000000000000000 0x4008000000000000 false true]
    = ⟨4, 2, [h 0x4000000000000000], some (h 0x4008000000000000), false⟩ := by decide

/-- FAILURE through a degenerate initial step (`stuck` on the first event): one evaluation, x = x0, minf = f(x0) -/
example : run A0 (cfgW F64.negInf F64.zero 0) [ev 0x3ff0000000000000 0x4014000000000000 false true]
    = ⟨-1, 1, [h 0x3ff0000000000000], some (h 0x4014000000000000), false⟩ := by decide

/-- expansion: f(1.0) = 5, f(2.0) = 3, reflection f(3.0) = 1 < fl → expansion f(4.0) = 4 ≥ fr: the reflected point is kept;
    next reflection etc.  Budget 4. -/
example : run A0 (cfgW F64.negInf F64.zero 4)
    [ev 0x3ff0000000000000 0x4014000000000000, ev 0x4000000000000000 0x4008000000000000,
     ev 0x4008000000000000 0x3ff0000000000000, ev 0x4010000000000000 0x4010000000000000]
    = ⟨5, 4, [h 0x4008000000000000], some (h 0x3ff0000000000000), false⟩ := by decide

/-- inner mode (`nldrmd_minimize_` as called by Sbplx): returns before any evaluation when `*minf < stopval` on entry,
    or when the first step is degenerate -/
example : run A0 { cfgW (h 0x4018000000000000) F64.zero 0 with minf0 := some (h 0x4014000000000000) } evsA
    = ⟨2, 0, [h 0x3ff0000000000000], some (h 0x4014000000000000), false⟩ := by decide
example : run A0 { cfgW F64.negInf F64.zero 0 with minf0 := some (h 0x4014000000000000), stuck0 := true } evsA
    = ⟨-1, 0, [h 0x3ff0000000000000], some (h 0x4014000000000000), false⟩ := by decide

/-- **NaN at the starting point sticks.**  `*minf = f(x0)` is assigned unconditionally by the wrapper; every later update
    is guarded by `fc <= *minf`, false for a NaN `*minf`.  So if `f(x0)` is NaN the run returns `x = x0`, `*minf = NaN`
    whatever finite values were found afterwards (here 3, 4, 1; budget 4).  The result pair does not depend on the
    simplex order, so the model is exact here although a NaN sits in the simplex.  (Reproduced on the C library.) -/
theorem nan_start_sticks :
    run A0 (cfgW F64.negInf F64.zero 4)
      [ev 0x3ff0000000000000 0x7ff8000000000000, ev 0x4000000000000000 0x4008000000000000,
       ev 0x4008000000000000 0x4010000000000000, ev 0x4004000000000000 0x3ff0000000000000]
    = ⟨5, 4, [h 0x3ff0000000000000], some (h 0x7ff8000000000000), false⟩ := by decide

/-! ## the statements for `run` (= `runWith treeOrd`) -/

theorem run_eq (A : Arith) (c : Cfg) (evs : List Ev) : run A c evs = runWith treeOrd A c evs := rfl

/-- T1 (C03) -/
theorem T1 (A : Arith) (c : Cfg) (evs : List Ev) (hm : 0 < c.s.maxeval) (h0 : c.s.nevals = 0) :
    ((run A c evs).nevals : Int) ≤ c.s.maxeval := t1_budget treeOrd A c evs hm h0

/-- T2 (C04) -/
theorem T2 (A : Arith) (c : Cfg) (evs : List Ev) (k : Nat) (e : Ev)
    (hk : evs[k]? = some e) (he : e.forced = true) (hfirst : ∀ j, j < k → ∀ e', evs[j]? = some e' → e'.forced = false)
    (hrun : (run A c (evs.take k)).short = true) :
    (run A c evs).nevals = k + 1 ∧ (run A c evs).ret = -5 := t2_first_forced treeOrd A c evs k e hk he hfirst hrun

/-- T3 (C02) -/
theorem T3 (A : Arith) (c : Cfg) (evs : List Ev) (hw : c.minf0 = none)
    (hx0 : ∀ e, evs.head? = some e → e.x = c.x0) (hs : (run A c evs).short = false) (hr : 0 < (run A c evs).ret) :
    ∃ e ∈ evs.take (run A c evs).nevals, ((run A c evs).x, (run A c evs).minf) = (e.x, some e.f) :=
  t3_success treeOrd A c evs hw hx0 hs hr

/-- T4 (C05) -/
theorem T4 (A : Arith) (c : Cfg) (evs : List Ev) (hnum : NumOK c evs) (hs : (run A c evs).short = false)
    (hr : 0 < (run A c evs).ret) :
    ∃ m, (run A c evs).minf = some m ∧ ∀ e ∈ evs.take (run A c evs).nevals, F64.lt e.f m = false :=
  t4_best treeOrd A c evs hnum hs hr

/-- T4 for FORCED_STOP -/
theorem T4_forced (A : Arith) (c : Cfg) (evs : List Ev) (hnum : NumOK c evs) (hs : (run A c evs).short = false)
    (hr : (run A c evs).ret = -5) :
    ∃ m, (run A c evs).minf = some m ∧ ∀ e ∈ evs.take ((run A c evs).nevals - 1), F64.lt e.f m = false :=
  t4_best_forced treeOrd A c evs hnum hs hr

/-- T5 (C02) -/
theorem T5 (A : Arith) (c : Cfg) (evs : List Ev) (hs : (run A c evs).short = false) (hr : (run A c evs).ret = 2) :
    ∃ m, (run A c evs).minf = some m ∧ F64.lt m c.s.minfMax = true := t5_stopval treeOrd A c evs hs hr

end Nlopt.DrvNm
