import NloptModel.Props.Wrap
import NloptModel.Props.C14
import NloptModel.Generated.AlgLists
/-!
# C09 — ill-posed calls are rejected without side effects

* `nlopt_optimize` level: `Nlopt.WrapProps.ill_posed_rejected` and its components (`rejected_no_objective`,
  `rejected_fixed_coord`, `rejected_bounds(_index)`, `rejected_infinite_box`, `rejected_no_local`) — for EVERY algorithm
  machine: `NLOPT_INVALID_ARGS`, no user callback invoked, `x` unchanged.
* configuration functions: every `nlopt_result`-returning function answers `NLOPT_INVALID_ARGS` to a NULL handle
  (an empty vector constraint is a successful no-op) and changes nothing (below); invalid arguments on a live handle
  return a negative code and change no getter (`Nlopt.C14.failed_call_changes_nothing`).
-/
set_option linter.unusedSimpArgs false
namespace Nlopt.C09
open Nlopt

/-- the API calls that return an `nlopt_result` -/
def Op.returnsCode : Op → Bool
  | .oracle _ | .mcfail _ | .create .. | .destroy _ | .copy .. | .setMunge .. => false
  | _ => true

def Op.withSlot (slot : Option Nat) : Op → Op
  | .setObjective _ f p d m => .setObjective slot f p d m
  | .setLb _ a => .setLb slot a
  | .setUb _ a => .setUb slot a
  | .setLb1 _ x => .setLb1 slot x
  | .setUb1 _ x => .setUb1 slot x
  | .setLbi _ i x => .setLbi slot i x
  | .setUbi _ i x => .setUbi slot i x
  | .getLb _ b => .getLb slot b
  | .getUb _ b => .getUb slot b
  | .getXtolAbs _ b => .getXtolAbs slot b
  | .getXw _ b => .getXw slot b
  | .addCon _ e m v f p d t => .addCon slot e m v f p d t
  | .rmIneq _ => .rmIneq slot
  | .rmEq _ => .rmEq slot
  | .setScalar _ v => .setScalar slot v
  | .setXtolAbs _ a => .setXtolAbs slot a
  | .setXtolAbs1 _ x => .setXtolAbs1 slot x
  | .setXw _ a => .setXw slot a
  | .setXw1 _ x => .setXw1 slot x
  | .setDx _ a => .setDx slot a
  | .setDx1 _ x => .setDx1 slot x
  | .setDefaultDx _ x => .setDefaultDx slot x
  | .getDx _ x => .getDx slot x
  | .setParam _ n x => .setParam slot n x
  | .setLocal _ l => .setLocal slot l
  | op => op

/-- adding an EMPTY vector constraint (`m = 0`) -/
def Op.isEmptyVecCon : Op → Bool
  | .addCon _ _ m isVec _ _ _ _ => isVec && m == 0
  | _ => false

/-- **NULL handle**: every `nlopt_result`-returning configuration function called with a NULL handle returns
    `NLOPT_INVALID_ARGS` — except the empty vector constraint, which is a successful no-op — allocates nothing, calls no
    hook and leaves every object untouched. -/
theorem null_handle_rejected (A : Arith) (w : World) (op : Op) (h : Op.returnsCode op = true) :
    (applyOpRaw A w (Op.withSlot none op)).1 = w ∧
    (applyOpRaw A w (Op.withSlot none op)).2.1 =
      .code (if Op.isEmptyVecCon op then rSUCCESS else rINVALID) := by
  cases op <;> simp [Op.returnsCode] at h <;>
    simp [Op.withSlot, applyOpRaw, onCore, onCoreOut, Op.isEmptyVecCon]

/-- non-vacuity -/
example : (applyOpRaw C14.arithTriv C14.w1 (.setLb none (some [F64.one, F64.one]))).2.1 = .code rINVALID := by decide
example : (applyOpRaw C14.arithTriv C14.w1 (.addCon none false 0 true 1 0 7 none)).2.1 = .code rSUCCESS := by decide

/-- which algorithms refuse an unbounded box is decided by the `finite_domain` calls in the dispatch of nlopt_optimize_ (regenerated
    list `finiteDomainAlgs`): exactly the global algorithms (every enum name beginning with `NLOPT_G`) -/
def globalAlgNames : List String :=
  ["NLOPT_GN_DIRECT", "NLOPT_GN_DIRECT_L", "NLOPT_GN_DIRECT_L_RAND", "NLOPT_GN_DIRECT_NOSCAL", "NLOPT_GN_DIRECT_L_NOSCAL",
   "NLOPT_GN_DIRECT_L_RAND_NOSCAL", "NLOPT_GN_ORIG_DIRECT", "NLOPT_GN_ORIG_DIRECT_L", "NLOPT_GD_STOGO", "NLOPT_GD_STOGO_RAND",
   "NLOPT_GN_CRS2_LM", "NLOPT_GN_MLSL", "NLOPT_GD_MLSL", "NLOPT_GN_MLSL_LDS", "NLOPT_GD_MLSL_LDS", "NLOPT_GN_ISRES",
   "NLOPT_G_MLSL", "NLOPT_G_MLSL_LDS", "NLOPT_GN_ESCH", "NLOPT_GN_AGS"]

theorem finite_domain_list_is_the_global_algorithms :
    Gen.finiteDomainAlgs.map (fun i => Gen.algNames.getD i "?") = globalAlgNames := by decide

/-- and exactly the algorithms that cannot run without a subsidiary optimizer are refused without one -/
theorem need_local_list : Gen.needLocalAlgs.map (fun i => Gen.algNames.getD i "?") =
    ["NLOPT_AUGLAG", "NLOPT_AUGLAG_EQ", "NLOPT_G_MLSL", "NLOPT_G_MLSL_LDS"] := by decide

end Nlopt.C09
