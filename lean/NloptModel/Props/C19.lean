import NloptModel.Lemmas.RBTreeLemmas
/-!
  C19 — the red-black tree of `src/util/redblack.c` (model: `Model/RBTree.lean`).

  Vocabulary (defined in `Lemmas/RBTreeLemmas.lean`):
  * `toList t`      in-order sequence of the keys of `t`;
  * `Sorted l`      `l.Pairwise (fun a b => a.val ≤ b.val)`;
  * `insSorted k l` `l` with `k` inserted in front of the first element whose `val` is `≥ k.val`;
  * `Ordered t`     at every node: all keys of the left subtree have `val ≤` the node's, all keys of
                    the right subtree have `val ≥` the node's (this non-strict form on BOTH sides is
                    what the C code maintains: the descent sends equal keys to the left, but the
                    rotations move them to either side); equivalent to `Sorted (toList t)`
                    (`ordered_iff_sorted`);
  * `NoRedRed t`    no red node has a red child;  `Balanced t`: at every node the black heights (`bh`)
                    of both subtrees agree;  `isRed t = false`: the root is black (NIL is black);
  * `UniqueKids t`  no key object occurs twice (`((toList t).map kid).Nodup`);
  * `height t`      number of nodes on the longest root-to-NIL path.

  All statements are for arbitrary trees / keys / histories (proofs by induction, no enumeration).
-/
namespace Nlopt.RB
open Tree Color

/-! ## the invariant -/

/-- the red-black invariant maintained by `redblack.c` -/
structure RBInv (t : Tree) : Prop where
  /-- binary-search order w.r.t. `val`: left subtree `≤` node `≤` right subtree -/
  ordered : Ordered t
  /-- the root is black -/
  rootBlack : isRed t = false
  /-- no red node has a red child -/
  noRedRed : NoRedRed t
  /-- every root-to-NIL path has the same number of black nodes -/
  balanced : Balanced t

theorem rbInv_nil : RBInv nil := ⟨trivial, rfl, trivial, trivial⟩

/-- `Ordered` is exactly sortedness of the in-order sequence -/
theorem ordered_iff (t : Tree) : Ordered t ↔ Sorted (toList t) := ordered_iff_sorted t

/-! ## contents and size -/

/-- `insert` puts `k` in front of the first key with `val ≥ k.val` (stable sorted insertion) -/
theorem toList_insert (t : Tree) (k : Key) (h : Ordered t) :
    toList (insert t k) = insSorted k (toList t) :=
  toList_insert_of_sorted t k ((ordered_iff_sorted t).mp h)

/-- in particular the contents are a permutation of `k :: toList t` (this needs no ordering) … -/
theorem toList_insert_perm' (t : Tree) (k : Key) : (toList (insert t k)).Perm (k :: toList t) :=
  toList_insert_perm t k

/-- … and sorted -/
theorem toList_insert_sorted (t : Tree) (k : Key) (h : Ordered t) : Sorted (toList (insert t k)) := by
  rw [toList_insert t k h]; exact insSorted_sorted k _ ((ordered_iff_sorted t).mp h)

/-- `remove` erases exactly the key object `kid` (no ordering assumption: `resort` relies on this) -/
theorem toList_remove (t : Tree) (kid : Nat) (hu : UniqueKids t) :
    toList (remove t kid) = (toList t).filter (fun x => x.kid ≠ kid) :=
  toList_remove_filter t kid hu

/-- without the uniqueness assumption: one occurrence of a key with that `kid` disappears -/
theorem toList_remove_split (t : Tree) (kid : Nat) (h : contains t kid = true) :
    ∃ A B k, k.kid = kid ∧ toList t = A ++ k :: B ∧ toList (remove t kid) = A ++ B := by
  unfold contains at h
  cases hl : locate kid t [] with
  | none => simp [hl] at h
  | some x =>
    obtain ⟨h1, h2, h3⟩ := toList_remove_of_locate hl
    exact ⟨pbefore x.path ++ toList x.l, toList x.r ++ pafter x.path, x.k, h3,
      by simp [h1], by simp [h2]⟩

theorem remove_absent (t : Tree) (kid : Nat) (h : contains t kid = false) : remove t kid = t :=
  remove_of_not_contains h

theorem contains_iff_mem (t : Tree) (kid : Nat) :
    contains t kid = true ↔ ∃ k ∈ toList t, k.kid = kid := contains_iff

theorem size_eq_length_toList (t : Tree) : size t = (toList t).length := size_eq_length t

/-- the C counter `N` after `insert` -/
theorem size_insert (t : Tree) (k : Key) : size (insert t k) = size t + 1 := size_insert' t k

/-- the C counter `N` after `remove` -/
theorem size_remove (t : Tree) (kid : Nat) (h : contains t kid = true) :
    size (remove t kid) = size t - 1 := by
  have := size_remove' h; omega

/-! ## preservation of the invariant -/

theorem insert_inv (t : Tree) (k : Key) (h : RBInv t) : RBInv (insert t k) := by
  have hc := insert_rbcolor t k ⟨h.rootBlack, h.noRedRed, h.balanced⟩
  exact ⟨(ordered_iff_sorted _).mpr (toList_insert_sorted t k h.ordered), hc.1, hc.2.1, hc.2.2⟩

/-- the colour part of `remove_inv` does not depend on the ordering -/
theorem remove_inv_color (t : Tree) (kid : Nat)
    (h : isRed t = false ∧ NoRedRed t ∧ Balanced t) :
    isRed (remove t kid) = false ∧ NoRedRed (remove t kid) ∧ Balanced (remove t kid) :=
  remove_rbcolor t kid h

theorem remove_ordered (t : Tree) (kid : Nat) (h : Ordered t) : Ordered (remove t kid) := by
  cases hc : contains t kid with
  | false => rw [remove_of_not_contains hc]; exact h
  | true =>
    obtain ⟨A, B, k, _, h1, h2⟩ := toList_remove_split t kid hc
    rw [ordered_iff_sorted] at h ⊢
    rw [h2]; rw [h1] at h
    exact List.Pairwise.sublist
      (List.Sublist.append (List.Sublist.refl A) (List.sublist_cons_self k B)) h

theorem remove_inv (t : Tree) (kid : Nat) (h : RBInv t) : RBInv (remove t kid) := by
  have hc := remove_rbcolor t kid ⟨h.rootBlack, h.noRedRed, h.balanced⟩
  exact ⟨remove_ordered t kid h.ordered, hc.1, hc.2.1, hc.2.2⟩

/-- `rekey` = the caller changes the value in place, then calls `nlopt_rb_tree_resort`.  At that
moment the tree is NOT ordered; what is required is that all OTHER keys are ordered. -/
theorem rekey_inv (t : Tree) (kid : Nat) (v : Int) (hu : UniqueKids t)
    (hc : isRed t = false ∧ NoRedRed t ∧ Balanced t)
    (ho : Sorted ((toList t).filter (fun x => x.kid ≠ kid))) : RBInv (rekey t kid v) := by
  have ho' : Ordered (remove t kid) := by
    rw [ordered_iff_sorted, toList_remove_filter t kid hu]; exact ho
  have hr := remove_rbcolor t kid hc
  rw [rekey_eq hu]
  split
  · exact insert_inv _ _ ⟨ho', hr.1, hr.2.1, hr.2.2⟩
  · next hn =>
    rw [remove_of_not_contains (by simpa using hn)] at ho'
    exact ⟨ho', hc.1, hc.2.1, hc.2.2⟩

/-- `rekey` is "erase, then sorted insert" on the contents -/
theorem toList_rekey (t : Tree) (kid : Nat) (v : Int) (hu : UniqueKids t)
    (ho : Sorted ((toList t).filter (fun x => x.kid ≠ kid))) (hc : contains t kid = true) :
    toList (rekey t kid v) = insSorted ⟨kid, v⟩ ((toList t).filter (fun x => x.kid ≠ kid)) := by
  rw [rekey_eq hu, if_pos hc, toList_insert_of_sorted, toList_remove_filter t kid hu]
  rw [toList_remove_filter t kid hu]; exact ho

theorem rekey_absent (t : Tree) (kid : Nat) (v : Int) (h : contains t kid = false) :
    rekey t kid v = t := by
  unfold rekey
  have : contains t kid ≠ true := by simp [h]
  simp [h]

/-! ### key objects stay unique -/

theorem insert_unique (t : Tree) (k : Key) (hu : UniqueKids t) (hf : ∀ x ∈ toList t, x.kid ≠ k.kid) :
    UniqueKids (insert t k) := by
  unfold UniqueKids at *
  rw [((toList_insert_perm t k).map Key.kid).nodup_iff]
  simp only [List.map_cons, List.nodup_cons, List.mem_map, not_exists, not_and]
  exact ⟨fun x hx he => hf x hx he, hu⟩

theorem remove_unique (t : Tree) (kid : Nat) (hu : UniqueKids t) : UniqueKids (remove t kid) := by
  unfold UniqueKids
  rw [toList_remove_filter t kid hu]
  exact List.Nodup.sublist (List.Sublist.map _ List.filter_sublist) hu

theorem rekey_unique (t : Tree) (kid : Nat) (v : Int) (hu : UniqueKids t) :
    UniqueKids (rekey t kid v) := by
  rw [rekey_eq hu]
  split
  · apply insert_unique _ _ (remove_unique t kid hu)
    intro x hx
    rw [toList_remove_filter t kid hu] at hx
    simpa using (List.mem_filter.mp hx).2
  · exact hu

/-! ## queries against the sorted in-order sequence -/

theorem min_spec (t : Tree) : min t = (toList t).head? := min_eq_head t

theorem max_spec (t : Tree) : max t = (toList t).getLast? := max_eq_getLast t

/-- `succ`: the element right after key object `kid` in the in-order sequence (`none` at the end) -/
theorem succ_spec (t : Tree) (kid : Nat) (A B : List Key) (k : Key) (hu : UniqueKids t)
    (ht : toList t = A ++ k :: B) (hk : k.kid = kid) : succ t kid = B.head? :=
  succ_spec' hu ht hk

/-- `pred`: the element right before key object `kid` (`none` at the beginning) -/
theorem pred_spec (t : Tree) (kid : Nat) (A B : List Key) (k : Key) (hu : UniqueKids t)
    (ht : toList t = A ++ k :: B) (hk : k.kid = kid) : pred t kid = A.getLast? :=
  pred_spec' hu ht hk

theorem succ_pred_absent (t : Tree) (kid : Nat) (h : contains t kid = false) :
    succ t kid = none ∧ pred t kid = none := by
  have : ∀ k ∈ toList t, k.kid ≠ kid := by
    intro k hk he
    have := (contains_iff (t := t) (kid := kid)).mpr ⟨k, hk, he⟩
    simp [h] at this
  exact ⟨succ_absent this, pred_absent this⟩

/-- `find v` answers with a key of value `v` (always), and finds one iff there is one (ordered tree) -/
theorem find_spec (t : Tree) (v : Int) (ho : Ordered t) :
    (∀ k, find t v = some k → k ∈ toList t ∧ k.val = v) ∧
    ((find t v).isSome = true ↔ ∃ k ∈ toList t, k.val = v) := by
  refine ⟨fun k hk => find_some hk, ?_, find_isSome ho⟩
  intro h
  cases hf : find t v with
  | none => simp [hf] at h
  | some k => exact ⟨k, find_some hf⟩

/-- `find_le v`: the LAST element of the in-order sequence with `val ≤ v` -/
theorem findLe_last (t : Tree) (v : Int) (ho : Ordered t) :
    findLe t v = ((toList t).filter (fun k => decide (k.val ≤ v))).getLast? := findLe_spec v ho

/-- `find_lt v`: the LAST element with `val < v` -/
theorem findLt_last (t : Tree) (v : Int) (ho : Ordered t) :
    findLt t v = ((toList t).filter (fun k => decide (k.val < v))).getLast? := findLt_spec v ho

/-- `find_gt v`: the FIRST element with `val > v` -/
theorem findGt_first (t : Tree) (v : Int) (ho : Ordered t) :
    findGt t v = ((toList t).filter (fun k => decide (k.val > v))).head? := findGt_spec v ho

/-! ## every history refines the sorted multiset -/

/-- the mutating operations of the interface -/
inductive Op
  | ins (k : Key)
  | rem (kid : Nat)
  | rekey (kid : Nat) (v : Int)

/-- the implementation -/
def applyOp (t : Tree) : Op → Tree
  | .ins k => insert t k
  | .rem kid => remove t kid
  | .rekey kid v => rekey t kid v

/-- the specification: a sorted list of keys -/
def specOp (s : List Key) : Op → List Key
  | .ins k => insSorted k s
  | .rem kid => s.filter (fun x => x.kid ≠ kid)
  | .rekey kid v =>
    if s.any (fun x => x.kid = kid) then insSorted ⟨kid, v⟩ (s.filter (fun x => x.kid ≠ kid)) else s

/-- a history is well formed when no key object is inserted while it is already in the tree -/
def WellFormed : List Key → List Op → Prop
  | _, [] => True
  | s, op :: ops =>
    (match op with
      | .ins k => ∀ x ∈ s, x.kid ≠ k.kid
      | _ => True) ∧ WellFormed (specOp s op) ops

theorem step_refines (t : Tree) (op : Op) (hi : RBInv t) (hu : UniqueKids t)
    (hw : match op with
      | .ins k => ∀ x ∈ toList t, x.kid ≠ k.kid
      | _ => True) :
    RBInv (applyOp t op) ∧ UniqueKids (applyOp t op) ∧
      toList (applyOp t op) = specOp (toList t) op := by
  have hs := (ordered_iff_sorted t).mp hi.ordered
  cases op with
  | ins k => exact ⟨insert_inv t k hi, insert_unique t k hu hw, toList_insert t k hi.ordered⟩
  | rem kid => exact ⟨remove_inv t kid hi, remove_unique t kid hu, toList_remove t kid hu⟩
  | rekey kid v =>
    have ho : Sorted ((toList t).filter (fun x => x.kid ≠ kid)) := List.Pairwise.filter _ hs
    refine ⟨rekey_inv t kid v hu ⟨hi.rootBlack, hi.noRedRed, hi.balanced⟩ ho,
      rekey_unique t kid v hu, ?_⟩
    simp only [applyOp, specOp]
    cases hc : contains t kid with
    | true =>
      have : (toList t).any (fun x => decide (x.kid = kid)) = true := by
        obtain ⟨k, hk, he⟩ := contains_iff.mp hc
        exact List.any_eq_true.mpr ⟨k, hk, by simpa using he⟩
      rw [if_pos this]; exact toList_rekey t kid v hu ho hc
    | false =>
      have : ¬ (toList t).any (fun x => decide (x.kid = kid)) = true := by
        intro h
        obtain ⟨k, hk, he⟩ := List.any_eq_true.mp h
        have := contains_iff.mpr ⟨k, hk, by simpa using he⟩
        simp [hc] at this
      rw [if_neg this, rekey_absent t kid v hc]

theorem history_refines_from (t : Tree) (ops : List Op) (hi : RBInv t) (hu : UniqueKids t)
    (hw : WellFormed (toList t) ops) :
    RBInv (ops.foldl applyOp t) ∧ UniqueKids (ops.foldl applyOp t) ∧
      toList (ops.foldl applyOp t) = ops.foldl specOp (toList t) := by
  induction ops generalizing t with
  | nil => exact ⟨hi, hu, rfl⟩
  | cons op ops ih =>
    obtain ⟨h1, h2⟩ := hw
    obtain ⟨s1, s2, s3⟩ := step_refines t op hi hu h1
    simp only [List.foldl_cons]
    rw [← s3] at h2 ⊢
    exact ih _ s1 s2 h2

/-- after EVERY well-formed history of `ins`/`rem`/`rekey` started on the empty tree, the tree
satisfies the red-black invariant and its in-order sequence is the result of the same operations on
a sorted list -/
theorem history_refines_multiset (ops : List Op) (hw : WellFormed [] ops) :
    RBInv (ops.foldl applyOp nil) ∧ UniqueKids (ops.foldl applyOp nil) ∧
      toList (ops.foldl applyOp nil) = ops.foldl specOp [] :=
  history_refines_from nil ops rbInv_nil (by simp [UniqueKids]) hw

/-- hence all queries agree with the sorted multiset after every history -/
theorem history_queries (ops : List Op) (hw : WellFormed [] ops) (v : Int) :
    let t := ops.foldl applyOp nil
    let s := ops.foldl specOp []
    Sorted s ∧ size t = s.length ∧ min t = s.head? ∧ max t = s.getLast? ∧
      ((find t v).isSome = true ↔ ∃ k ∈ s, k.val = v) ∧
      findLe t v = (s.filter (fun k => decide (k.val ≤ v))).getLast? ∧
      findLt t v = (s.filter (fun k => decide (k.val < v))).getLast? ∧
      findGt t v = (s.filter (fun k => decide (k.val > v))).head? ∧
      (∀ A B k, s = A ++ k :: B → succ t k.kid = B.head? ∧ pred t k.kid = A.getLast?) := by
  intro t s
  obtain ⟨hi, hu, hl⟩ := history_refines_multiset ops hw
  have hl : toList t = s := hl
  have ho : Ordered t := hi.ordered
  refine ⟨hl ▸ (ordered_iff_sorted t).mp ho, hl ▸ size_eq_length t, hl ▸ min_eq_head t,
    hl ▸ max_eq_getLast t, hl ▸ (find_spec t v ho).2, hl ▸ findLe_spec v ho,
    hl ▸ findLt_spec v ho, hl ▸ findGt_spec v ho, ?_⟩
  intro A B k hs
  exact ⟨succ_spec' hu (hl.trans hs) rfl, pred_spec' hu (hl.trans hs) rfl⟩

/-! ## height -/

/-- a red-black tree with `n` nodes has height at most `2·⌊log₂(n+1)⌋`
(`Nat.log2` is the floor of the binary logarithm) -/
theorem height_bound (t : Tree) (h : RBInv t) : height t ≤ 2 * Nat.log2 (size t + 1) :=
  height_le_log t h.rootBlack h.noRedRed h.balanced

/-- the two ingredients: `2^bh ≤ n+1` and `height ≤ 2·bh` for a black root -/
theorem height_bound_pow (t : Tree) (h : RBInv t) :
    2 ^ bh t ≤ size t + 1 ∧ height t ≤ 2 * bh t := by
  have := height_le_bh t h.balanced h.noRedRed
  simp only [h.rootBlack] at this
  exact ⟨pow_bh_le_size t h.balanced, by simpa using this⟩

/-! ## `nlopt_rb_tree_check` -/

/-- `check` tests exactly: root black, no red-red, equal black counts, and the LOCAL ordering of
each child against its parent (`LocalOrd`), which is weaker than `Ordered` -/
theorem check_iff (t : Tree) :
    check t = true ↔ isRed t = false ∧ NoRedRed t ∧ Balanced t ∧ LocalOrd t := by
  cases t with
  | nil => simp [check, LocalOrd]
  | node c l k r =>
    cases c with
    | red => simp [check]
    | black =>
      simp only [check, Option.isSome_iff_exists, checkNode_eq_some]
      constructor
      · rintro ⟨n, h1, h2, h3, _⟩; exact ⟨by simp, h2, h3, h1⟩
      · rintro ⟨_, h2, h3, h1⟩; exact ⟨_, h1, h2, h3, rfl⟩

/-- `check` accepts every tree satisfying the invariant -/
theorem check_of_inv (t : Tree) (h : RBInv t) : check t = true := by
  rw [check_iff]
  refine ⟨h.rootBlack, h.noRedRed, h.balanced, ?_⟩
  have ho := h.ordered
  clear h
  induction t with
  | nil => trivial
  | node c l k r ihl ihr =>
    obtain ⟨o1, o2, o3, o4⟩ := ho
    refine ⟨?_, ?_, ihl o3, ihr o4⟩
    · cases l with
      | nil => trivial
      | node lc ll lk lr => exact o1 lk (by simp)
    · cases r with
      | nil => trivial
      | node rc rl rk rr => exact o2 rk (by simp)

/-- `check` is strictly weaker than the invariant: it accepts this tree, in which key `10` sits in
the left subtree of key `5` (each child is locally consistent with its own parent) -/
example :
    let t := node black (node black nil ⟨0, 3⟩ (node red nil ⟨1, 10⟩ nil)) ⟨2, 5⟩
      (node black nil ⟨3, 7⟩ nil)
    check t = true ∧ ¬ Ordered t := by
  refine ⟨by decide, ?_⟩
  intro h
  have := h.1 ⟨1, 10⟩ (by simp)
  simp at this

/-! ## the hypotheses are satisfiable on concrete non-trivial trees -/

/-- a 7-key tree with duplicated values, built by the model itself -/
def sampleTree : Tree :=
  insert (insert (insert (insert (insert (insert (insert nil ⟨0, 5⟩) ⟨1, 3⟩) ⟨2, 5⟩) ⟨3, 9⟩)
    ⟨4, 5⟩) ⟨5, -2⟩) ⟨6, 3⟩

example : sampleTree =
    node black
      (node red (node black nil ⟨5, -2⟩ (node red nil ⟨6, 3⟩ nil)) ⟨1, 3⟩ (node black nil ⟨4, 5⟩ nil))
      ⟨2, 5⟩
      (node black nil ⟨0, 5⟩ (node red nil ⟨3, 9⟩ nil)) := by decide

example : RBInv sampleTree :=
  insert_inv _ _ (insert_inv _ _ (insert_inv _ _ (insert_inv _ _ (insert_inv _ _
    (insert_inv _ _ (insert_inv _ _ rbInv_nil))))))

example : UniqueKids sampleTree := by unfold UniqueKids; decide

example : contains sampleTree 4 = true := by decide

example : WellFormed [] [.ins ⟨0, 5⟩, .ins ⟨1, 3⟩, .ins ⟨2, 5⟩, .rekey 0 1, .rem 1, .ins ⟨1, 7⟩] := by
  simp [WellFormed, specOp, insSorted]

example : (toList sampleTree).map Key.kid = [5, 6, 1, 4, 2, 0, 3] := by decide
example : (succ sampleTree 4).map Key.kid = some 2 := by decide
example : (findLe sampleTree 5).map Key.kid = some 0 := by decide
example : (findGt sampleTree 3).map Key.kid = some 4 := by decide
example : toList (remove sampleTree 4) = (toList sampleTree).filter (fun x => x.kid ≠ 4) := by decide
example : check (rekey sampleTree 4 100) = true := by decide

end Nlopt.RB
