import NloptModel.Model.Legacy
import NloptModel.Props.C14b
/-!
# C17 — the legacy one-call interface is the object interface with the same settings

`Legacy.build` is `nlopt_minimize_econstrained` up to its call of `nlopt_optimize`: the SAME `applyOp` transitions as the
object API (so every C14 theorem applies to each step).  Determinism of `nlopt_optimize` (C07) then gives equal traces
for the legacy call and the hand-built object.
-/
namespace Nlopt.C17
open Nlopt Nlopt.Legacy

/-- the legacy call is literally a fold of object-API calls: if no call fails, the object handed to `nlopt_optimize`
    is the one obtained by applying `configOps` to a fresh object -/
theorem legacy_is_object_api (A : Arith) (w0 : World) (a : Args) (w : World)
    (h : build A w0 a = .inr w) :
    ∃ w1, (applyOp A w0 (Op.create 0 a.algorithm a.n.toNat)).1 = w1 ∧ runUntilFail A w1 (configOps a) = .inr w := by
  unfold build at h
  split at h
  · cases h
  · split at h
    · rename_i w1 _ heq
      exact ⟨w1, by rw [heq], h⟩
    · cases h

/-- when no step fails, `runUntilFail` is `runOps` -/
theorem runUntilFail_eq_runOps (A : Arith) (w : World) (ops : List Op) (w' : World)
    (h : runUntilFail A w ops = .inr w') : w' = runOps A w ops := by
  induction ops generalizing w with
  | nil => simp [runUntilFail] at h; simp [runOps, h]
  | cons op rest ih =>
    simp only [runUntilFail] at h
    simp only [runOps, List.foldl_cons]
    generalize hr : applyOp A w op = r at h
    obtain ⟨w1, ret, o⟩ := r
    cases ret with
    | code c =>
      simp only [] at h
      split at h
      · have := ih w1 h
        simpa [runOps, hr] using this
      · cases h
    | ptr b => simp only [] at h; have := ih w1 h; simpa [runOps, hr] using this
    | void => simp only [] at h; have := ih w1 h; simpa [runOps, hr] using this

/-- negative dimensions / counts are rejected before anything is created -/
theorem legacy_rejects_negative (A : Arith) (w0 : World) (a : Args) (h : a.n < 0 ∨ a.m < 0 ∨ a.p < 0) :
    build A w0 a = .inl rINVALID := by
  simp [build, h]

/-- an early return hands back exactly the code of the first object-API call that did not succeed -/
theorem legacy_error_is_setter_error (A : Arith) (w : World) (ops : List Op) (r : Int)
    (h : runUntilFail A w ops = .inl r) :
    ∃ pre op post w1, ops = pre ++ op :: post ∧ runUntilFail A w pre = .inr w1 ∧
      (applyOp A w1 op).2.1 = .code r ∧ r ≠ rSUCCESS := by
  induction ops generalizing w with
  | nil => simp [runUntilFail] at h
  | cons op rest ih =>
    simp only [runUntilFail] at h
    generalize hr : applyOp A w op = res at h
    obtain ⟨w1, ret, o⟩ := res
    cases ret with
    | code c =>
      simp only [] at h
      split at h
      · rename_i hc
        obtain ⟨pre, op', post, w2, h1, h2, h3, h4⟩ := ih w1 h
        refine ⟨op :: pre, op', post, w2, by simp [h1], ?_, h3, h4⟩
        simp [runUntilFail, hr, hc, h2]
      · rename_i hc
        cases h
        exact ⟨[], op, rest, w, rfl, rfl, by rw [hr], hc⟩
    | ptr b =>
      simp only [] at h
      obtain ⟨pre, op', post, w2, h1, h2, h3, h4⟩ := ih w1 h
      exact ⟨op :: pre, op', post, w2, by simp [h1], by simp [runUntilFail, hr, h2], h3, h4⟩
    | void =>
      simp only [] at h
      obtain ⟨pre, op', post, w2, h1, h2, h3, h4⟩ := ih w1 h
      exact ⟨op :: pre, op', post, w2, by simp [h1], by simp [runUntilFail, hr, h2], h3, h4⟩

/-- constraint `i` is registered with the data pointer `base + i * stride`, inequality tolerance 0 and equality
    tolerance `htol_abs` (the shape of the calls the legacy wrapper makes) -/
theorem legacy_constraint_calls (a : Args) (i : Nat) (hi : i < a.m.toNat) :
    Op.addCon (some 0) false 1 false 2 0 (a.fcData + i * a.fcStride) (some [F64.zero]) ∈ configOps a := by
  simp only [configOps, List.mem_append, List.mem_map, List.mem_range]
  left; left; left; left; right
  exact ⟨i, hi, rfl⟩

theorem legacy_equality_calls (a : Args) (i : Nat) (hi : i < a.p.toNat) :
    Op.addCon (some 0) true 1 false 3 0 (a.hData + i * a.hStride) (some [a.htolAbs]) ∈ configOps a := by
  simp only [configOps, List.mem_append, List.mem_map, List.mem_range]
  left; left; left; right
  exact ⟨i, hi, rfl⟩

/-- a NULL `xtol_abs` makes no call at all (the object keeps "unset", i.e. the documented zeros) -/
theorem legacy_null_xtol_abs (a : Args) (h : a.xtolAbs = none) :
    ∀ v, Op.setXtolAbs (some 0) v ∉ configOps a := by
  intro v hv
  simp [configOps, h] at hv

/-- non-vacuity: a concrete legacy call that builds an object -/
example : ∃ w, build C14.arithTriv { as := { numAlgs := 44 }, caps := { ineqOk := [25], eqOk := [25] } }
    { algorithm := 25, n := 2, fdata := 7, m := 2, fcData := 100, fcStride := 24, p := 1, hData := 200, hStride := 8,
      lb := some [F64.zero, F64.zero], ub := some [F64.one, F64.one], minfMax := F64.negInf, ftolRel := F64.zero,
      ftolAbs := F64.zero, xtolRel := F64.zero, xtolAbs := none, htolAbs := F64.one, maxeval := 10, maxtime := F64.zero } = .inr w ∧
    ((w.get (some 0)).map fun o => (o.core.fc.map (·.fdata), o.core.h.map (·.fdata), o.core.maxeval)) = some ([100, 124], [200], 10) := by
  refine ⟨_, rfl, ?_⟩
  decide

end Nlopt.C17
