import NloptModel.Model.F64
/-!
# Classification of doubles (`nlopt_isinf`, `nlopt_isfinite`, `nlopt_istiny`, `nlopt_isnan` of stop.c)

The models use `F64.isInf / isFinite / isTiny / isNaN`, defined on the bit pattern.  These theorems state that the four predicates
partition the patterns the way IEEE-754 does (every pattern is exactly one of NaN / infinite / finite; tiny = zero or subnormal is
a sub-case of finite; the sign bit is irrelevant), and the `stop` stream compares them with the library's functions on boundary
patterns and random patterns on every run of C03 (`cls` operation).
-/
namespace Nlopt.F64Class
open Nlopt Nlopt.F64

theorem mag_lt (a : F64) : a.mag < 9223372036854775808 := by
  unfold mag; omega

/-- exactly one of NaN / infinite / finite -/
theorem trichotomy (a : F64) :
    (a.isNaN = true ∧ a.isInf = false ∧ a.isFinite = false) ∨
    (a.isNaN = false ∧ a.isInf = true ∧ a.isFinite = false) ∨
    (a.isNaN = false ∧ a.isInf = false ∧ a.isFinite = true) := by
  unfold isNaN isInf isFinite
  rcases Nat.lt_trichotomy a.mag infMag with h | h | h
  · right; right; simp [h]; omega
  · right; left; simp [h]
  · left; simp [h]; omega

theorem isFinite_iff (a : F64) : a.isFinite = (!a.isNaN && !a.isInf) := by
  rcases trichotomy a with ⟨h1, h2, h3⟩ | ⟨h1, h2, h3⟩ | ⟨h1, h2, h3⟩ <;> simp [h1, h2, h3]

/-- tiny (zero or subnormal) values are finite -/
theorem isTiny_finite (a : F64) (h : a.isTiny = true) : a.isFinite = true := by
  unfold isTiny at h; unfold isFinite
  simp only [decide_eq_true_eq] at h ⊢
  unfold minNormalMag at h; unfold infMag; omega

theorem isZero_tiny (a : F64) (h : a.isZero = true) : a.isTiny = true := by
  unfold isZero at h; unfold isTiny
  simp only [decide_eq_true_eq] at h ⊢
  unfold minNormalMag; omega

/-- the classification ignores the sign bit -/
theorem class_abs (a : F64) :
    (abs a).isNaN = a.isNaN ∧ (abs a).isInf = a.isInf ∧ (abs a).isFinite = a.isFinite ∧ (abs a).isTiny = a.isTiny := by
  have hm : (abs a).mag = a.mag := by
    unfold abs mag
    have : a.bits.toNat % 9223372036854775808 < 18446744073709551616 := by omega
    simp [UInt64.toNat_ofNat', Nat.mod_eq_of_lt this]
  simp [isNaN, isInf, isFinite, isTiny, hm]

/-- the named constants fall in the expected classes -/
example : posInf.isInf = true ∧ negInf.isInf = true ∧ qnan.isNaN = true ∧ dblMax.isFinite = true ∧ zero.isTiny = true ∧
    one.isTiny = false ∧ (⟨0x000FFFFFFFFFFFFF⟩ : F64).isTiny = true ∧ (⟨0x0010000000000000⟩ : F64).isTiny = false := by decide

end Nlopt.F64Class
