import NloptModel.Model.IsresDriver
import NloptModel.Lemmas.IsresDrvLemmas
import NloptModel.Props.C06Isres
/-!
# Theorems about the control flow of `isres_minimize` (model: `Nlopt.IsresDrv`, Model/IsresDriver.lean)

All statements are for EVERY configuration, EVERY event list and EVERY `Arith`, by induction over the event list.

* T1 `nevals_le_maxeval`          maxeval > 0 → nevals ≤ maxeval (exact: no overshoot), attained (`example`)
* T2 `forced_stop`                the first event during which the flag is seen is the last one consumed; ret = -5 when the
                                  flag was raised inside a callback; only an ASYNCHRONOUS stop seen at the last test of the
                                  loop body can be overridden by 2 / 3 / 4 (`forced_stop_late_overridden`)
* T3 `returned_pair`              (x, minf) is the pair of a consumed event, or still (x0, +Inf) when the rule never accepted;
     `returned_pair_stop`         ret ∈ {2,3,4}: it is the pair of the LAST consumed event;
     `returned_pair_success`      ret > 0 and the first member is accepted (always so without constraints,
                                  `returned_pair_unconstrained`, or when the first point is feasible): an evaluated pair;
     `returned_pair_initial_possible`  witness that MAXEVAL_REACHED can return (x0, +Inf) with x0 evaluated to a finite value
* T4 `best_feasible_partial`      under the hypotheses of C06Isres (no NaN at feasible points; infeasible ⇒ penalties > 0) the
                                  returned pair is the FIRST best feasible consumed event;
     `best_feasible_full_false`   without the penalty hypothesis this is false (underflow of g*g), concrete witness;
     `no_better_feasible_ineq`    without equality constraints and without the penalty hypothesis: still no feasible consumed
                                  event has f < minf (but the returned point itself may be infeasible);
     `no_better_feasible_eq_false` with equality constraints even that is false (the FIXME in isres.c), concrete witness
* T5 `stopval_strict`             ret = 2 → minf = some m with m < stopval (strict `<`, isres.c line 178) at a feasible member
* extras: `ret_codes`, `nevals_pos`, `short_iff`, `run_prefix`, `invalid_args`, `agrees_with_Isres_run`.
-/
set_option linter.unusedSimpArgs false
set_option linter.unusedVariables false
namespace Nlopt.DrvIsres
open Nlopt Nlopt.IsresDrv

/-! ## The master invariant and the shape of every run -/

/-- what is known about the memory after the events `done` were consumed and the loop goes on -/
def Master (A : Arith) (c : Cfg) (done : List Ev) (s : St) : Prop :=
  Inv A c done s ∧ (c.stop.maxeval > 0 → (s.nev : Int) < c.stop.maxeval) ∧ (∀ e ∈ done, e.stop = 0) ∧
  (∀ j e, done[j]? = some e → ∃ m, member A c e j = some m)

theorem master_init (A : Arith) (c : Cfg) : Master A c [] (St.init c) :=
  ⟨inv_init A c, fun h => by simpa [St.init] using h, by simp, by simp⟩

theorem master_post {A : Arith} {c : Cfg} {done : List Ev} {s : St} {e : Ev} (h : Master A c done s)
    (hv : verdict A c s e = none) : Master A c (done ++ [e]) (post A c s e) := by
  obtain ⟨hinv, hb, hs, hm⟩ := h
  obtain ⟨h0, hev, m, hmem⟩ := verdict_none hv
  refine ⟨inv_post e hinv, ?_, ?_, ?_⟩
  · intro hpos
    rw [post_nev]
    simp [Stop.evals, hpos] at hev
    exact hev
  · intro e' he'
    simp at he'
    rcases he' with h | h
    · exact hs e' h
    · subst h; exact h0
  · intro j e' hj
    rcases Nat.lt_or_ge j done.length with hlt | hge
    · rw [List.getElem?_append_left hlt] at hj; exact hm j e' hj
    · rw [List.getElem?_append_right hge] at hj
      have : j - done.length = 0 := by
        rcases Nat.eq_zero_or_pos (j - done.length) with h | h
        · exact h
        · rw [List.getElem?_eq_none (by simp; omega)] at hj; cases hj
      rw [this] at hj; simp at hj; subst hj
      have hj' : j = done.length := by omega
      rw [hj', ← hinv.1]; exact ⟨m, hmem⟩

/-- **Shape of every run** of a valid configuration: the events run out (`short`), or the run ends at some event `e`
    with the code given by `verdict`; the returned `(nevals, x, *minf)` is the memory after that last pass. -/
theorem run_cases (A : Arith) (c : Cfg) (evs : List Ev) (hv : valid c = true) :
    (∃ s', Master A c evs s' ∧ run A c evs = s'.res 0 true) ∨
    (∃ pre e rest sp r, evs = pre ++ e :: rest ∧ Master A c pre sp ∧ verdict A c sp e = some r ∧
      run A c evs = (post A c sp e).res r false) := by
  have := go_induct A c (Master A c) (fun done s e h hvd => master_post h hvd) evs [] (St.init c) (master_init A c)
  simpa [run, hv] using this

theorem invalid_args (A : Arith) (c : Cfg) (evs : List Ev) (hv : valid c = false) :
    run A c evs = ⟨-2, 0, c.x0, some F64.posInf, false⟩ := by
  simp [run, hv]

/-- the consumed events are `evs.take nevals`; the memory at return satisfies the invariant `Inv` on them -/
theorem run_final (A : Arith) (c : Cfg) (evs : List Ev) (hv : valid c = true) :
    ∃ sf ret short, run A c evs = sf.res ret short ∧ Inv A c (evs.take (run A c evs).nevals) sf ∧
      (run A c evs).nevals ≤ evs.length := by
  rcases run_cases A c evs hv with ⟨s', hm, hr⟩ | ⟨pre, e, rest, sp, r, hes, hm, hvd, hr⟩
  · refine ⟨s', 0, true, hr, ?_, ?_⟩
    · have hn : (run A c evs).nevals = evs.length := by rw [hr]; exact hm.1.1
      rw [hn, List.take_length]; exact hm.1
    · rw [hr]; exact Nat.le_of_eq hm.1.1
  · have hinv := inv_post e hm.1
    have hn : (run A c evs).nevals = (pre ++ [e]).length := by rw [hr]; exact hinv.1
    refine ⟨post A c sp e, r, false, hr, ?_, ?_⟩
    · rw [hn, hes]
      have : pre ++ e :: rest = (pre ++ [e]) ++ rest := by simp
      rw [this, List.take_left']; exact hinv; rfl
    · rw [hn, hes]; simp

/-! ## T1 — evaluation budget (C03) -/

/-- **T1.** With `maxeval > 0` the driver never makes more than `maxeval` objective evaluations (no overshoot). -/
theorem nevals_le_maxeval (A : Arith) (c : Cfg) (evs : List Ev) (hmax : c.stop.maxeval > 0) :
    ((run A c evs).nevals : Int) ≤ c.stop.maxeval := by
  cases hv : valid c with
  | false => rw [invalid_args A c evs hv]; simp; omega
  | true =>
    rcases run_cases A c evs hv with ⟨s', hm, hr⟩ | ⟨pre, e, rest, sp, r, hes, hm, hvd, hr⟩
    · rw [hr]; have := hm.2.1 hmax; simp [St.res]; omega
    · rw [hr]; have := hm.2.1 hmax; simp [St.res, post_nev]; omega

/-- the run is over as soon as `maxeval` events were consumed (the bound of T1 is attained and ends the run) -/
theorem maxeval_ends_run (A : Arith) (c : Cfg) (evs : List Ev) (hmax : c.stop.maxeval > 0)
    (hlen : c.stop.maxeval ≤ (evs.length : Int)) : (run A c evs).short = false := by
  cases hv : valid c with
  | false => rw [invalid_args A c evs hv]
  | true =>
    rcases run_cases A c evs hv with ⟨s', hm, hr⟩ | ⟨pre, e, rest, sp, r, hes, hm, hvd, hr⟩
    · have := hm.2.1 hmax
      rw [hm.1.1] at this; omega
    · rw [hr]; rfl

/-! ## T2 — forced stop (C04) -/

theorem go_append_short (A : Arith) (c : Cfg) (rest : List Ev) :
    ∀ (pre : List Ev) (s : St), (go A c s pre).short = true →
      go A c s (pre ++ rest) = go A c (pre.foldl (post A c) s) rest ∧ (pre.foldl (post A c) s).nev = s.nev + pre.length := by
  intro pre
  induction pre with
  | nil => intro s _; exact ⟨rfl, rfl⟩
  | cons e es ih =>
    intro s h
    cases hv : verdict A c s e with
    | some r => simp [go, hv, St.res] at h
    | none =>
      simp only [go, hv] at h
      obtain ⟨h1, h2⟩ := ih (post A c s e) h
      refine ⟨by simp [go, hv, h1], ?_⟩
      simp only [List.foldl_cons, h2, post_nev, List.length_cons]; omega

/-- **T2.** If the run has not returned before event number `pre.length + 1` and the forced-stop flag is seen during that
    event (`e.forced`), the run ends there: `nevals = pre.length + 1`, no further evaluation.  The code is FORCED_STOP
    whenever the flag is seen at a test that follows a callback (`e.stop ≤ 1 + m + p`: every stop raised from inside the
    objective or a constraint).  A flag first seen at the last test of the loop body (asynchronous stop) can be overridden
    by the code of the acceptance branch (2, 3 or 4), nothing else.
    (The hypothesis "first forced event" of the task statement is implied by `hshort` and not needed.) -/
theorem forced_stop (A : Arith) (c : Cfg) (pre : List Ev) (e : Ev) (rest : List Ev)
    (hshort : (run A c pre).short = true) (he : e.forced = true) :
    (run A c (pre ++ e :: rest)).nevals = pre.length + 1 ∧ (run A c (pre ++ e :: rest)).short = false ∧
    (e.stop ≤ 1 + ncb c → (run A c (pre ++ e :: rest)).ret = -5) ∧
    ((run A c (pre ++ e :: rest)).ret = -5 ∨ (run A c (pre ++ e :: rest)).ret = 2 ∨
      (run A c (pre ++ e :: rest)).ret = 3 ∨ (run A c (pre ++ e :: rest)).ret = 4) := by
  cases hv : valid c with
  | false => rw [invalid_args A c pre hv] at hshort; cases hshort
  | true =>
    simp only [run, hv, if_true] at hshort ⊢
    obtain ⟨h1, h2⟩ := go_append_short A c (e :: rest) pre (St.init c) hshort
    have hne : e.stop ≠ 0 := by simpa [Ev.forced] using he
    obtain ⟨r, hr, hcodes, hcb⟩ := verdict_forced (A := A) (c := c) (s := pre.foldl (post A c) (St.init c)) hne
    rw [h1]
    simp only [go, hr, St.res, post_nev, h2]
    refine ⟨by simp [St.init], trivial, hcb, hcodes⟩

/-- **T2 in the form of the task statement**: if event number `k+1` (position `k`) is the first one during which the flag
    is seen and the run has not returned on the `k` events before it, then exactly `k+1` evaluations are made. -/
theorem forced_stop_first (A : Arith) (c : Cfg) (evs : List Ev) (k : Nat) (e : Ev) (hk : evs[k]? = some e)
    (hfirst : ∀ j e', j < k → evs[j]? = some e' → e'.forced = false) (he : e.forced = true)
    (hshort : (run A c (evs.take k)).short = true) :
    (run A c evs).nevals = k + 1 ∧ (run A c evs).short = false ∧ (e.stop ≤ 1 + ncb c → (run A c evs).ret = -5) ∧
    ((run A c evs).ret = -5 ∨ (run A c evs).ret = 2 ∨ (run A c evs).ret = 3 ∨ (run A c evs).ret = 4) := by
  obtain ⟨hlt, heq⟩ := List.getElem?_eq_some_iff.mp hk
  have hsplit : evs = evs.take k ++ e :: evs.drop (k + 1) := by
    rw [← heq, ← List.drop_eq_getElem_cons hlt, List.take_append_drop]
  have hlen : (evs.take k).length = k := by simp; omega
  have := forced_stop A c (evs.take k) e (evs.drop (k + 1)) hshort he
  rw [← hsplit, hlen] at this
  exact this

/-- the forced-stop return leaves `x` and `*minf` as they were before the interrupted event when the flag is seen after a
    callback: the interrupted member is not considered -/
theorem forced_stop_keeps_incumbent (A : Arith) (c : Cfg) (pre : List Ev) (e : Ev) (rest : List Ev)
    (hshort : (run A c pre).short = true) (he : 1 ≤ e.stop ∧ e.stop ≤ 1 + ncb c) :
    (run A c (pre ++ e :: rest)).x = (run A c pre).x ∧ (run A c (pre ++ e :: rest)).minf = (run A c pre).minf := by
  cases hv : valid c with
  | false => rw [invalid_args A c pre hv] at hshort; cases hshort
  | true =>
    simp only [run, hv, if_true] at hshort ⊢
    obtain ⟨h1, h2⟩ := go_append_short A c (e :: rest) pre (St.init c) hshort
    obtain ⟨h3, _⟩ := go_append_short A c [] pre (St.init c) hshort
    simp only [List.append_nil] at h3
    have hmem := (member_none_iff A c e (pre.foldl (post A c) (St.init c)).nev).mpr he
    rw [h1, h3]
    simp [go, verdict, post, hmem, St.res]

/-! ## T3 — the returned pair is an evaluated pair (C02) -/

/-- **T3, general form.**  On return (any code, also `short`) of a valid configuration: either the rule never accepted a
    member — then `x` is still the caller's `x0` and `*minf = +Inf` — or `(x, *minf)` is exactly `(e.x, e.f)` for a consumed,
    completely evaluated event `e`. -/
theorem returned_pair (A : Arith) (c : Cfg) (evs : List Ev) (hv : valid c = true) :
    ((run A c evs).x = c.x0 ∧ (run A c evs).minf = some F64.posInf ∧
      Isres.run (mems A c 0 (evs.take (run A c evs).nevals)) = {}) ∨
    (∃ i e m, i < (run A c evs).nevals ∧ evs[i]? = some e ∧ member A c e i = some m ∧
      (run A c evs).x = e.x ∧ (run A c evs).minf = some e.f) := by
  obtain ⟨sf, ret, short, hr, hinv, hle⟩ := run_final A c evs hv
  obtain ⟨hn, hi, hx⟩ := hinv
  rcases hx with ⟨h1, h2⟩ | ⟨i, e, m, h1, h2, h3, h4⟩
  · left
    refine ⟨by rw [hr]; exact h2, by rw [hr]; simp [St.res, h1], ?_⟩
    rw [← hi, h1]
  · right
    have hlt : i < (evs.take (run A c evs).nevals).length := by
      rcases Nat.lt_or_ge i (evs.take (run A c evs).nevals).length with h | h
      · exact h
      · rw [List.getElem?_eq_none h] at h1; cases h1
    have hlt' : i < (run A c evs).nevals := by
      simp at hlt; omega
    refine ⟨i, e, m, hlt', ?_, h2, by rw [hr]; exact h4, ?_⟩
    · rw [List.getElem?_take] at h1; simpa [hlt'] using h1
    · rw [hr]; simp [St.res, h3, (member_f h2).1]

/-- **T3 for the codes 2, 3, 4** (STOPVAL / FTOL / XTOL): they are returned from inside the acceptance branch, after the
    copy: `(x, *minf)` is the pair of the LAST consumed event. -/
theorem returned_pair_stop (A : Arith) (c : Cfg) (evs : List Ev)
    (hret : (run A c evs).ret = 2 ∨ (run A c evs).ret = 3 ∨ (run A c evs).ret = 4) :
    ∃ e, evs[(run A c evs).nevals - 1]? = some e ∧ 0 < (run A c evs).nevals ∧
      (run A c evs).x = e.x ∧ (run A c evs).minf = some e.f := by
  cases hv : valid c with
  | false => rw [invalid_args A c evs hv] at hret; simp at hret
  | true =>
    rcases run_cases A c evs hv with ⟨s', hm, hr⟩ | ⟨pre, e, rest, sp, r, hes, hm, hvd, hr⟩
    · rw [hr] at hret; simp [St.res] at hret
    · rw [hr] at hret ⊢
      simp only [St.res] at hret
      rcases verdict_some hvd with ⟨h1, _⟩ | ⟨m, hmem, ⟨hacc, _, _⟩ | ⟨h1, _⟩ | ⟨h1, _⟩⟩
      · omega
      · refine ⟨e, ?_, by simp [St.res, post_nev], ?_, ?_⟩
        · simp [St.res, post_nev, hm.1.1, hes]
        · simp [St.res, post, hmem, hacc]
        · simp [St.res, post, hmem, update_accept hacc, (member_f hmem).1]
      · omega
      · omega

theorem update_pt_isSome {s : Isres.Inc} (m : Isres.Ev) (h : s.pt.isSome = true) : (Isres.update s m).pt.isSome = true := by
  unfold Isres.update; split <;> simp [h]

theorem foldl_update_pt_isSome (l : List Isres.Ev) (s : Isres.Inc) (h : s.pt.isSome = true) :
    (l.foldl Isres.update s).pt.isSome = true := by
  induction l generalizing s with
  | nil => exact h
  | cons m ms ih => exact ih _ (update_pt_isSome m h)

/-- **T3 for every success code.**  If the run returns a success code (> 0; in fact 2, 3, 4 or 5) and the rule accepts
    the first member from the initial state `(+Inf, +Inf, +Inf)`, then `(x, *minf) = (e.x, e.f)` for a consumed event `e`.
    (The first member is rejected only if it is out of tolerance and its penalty is NaN, or if `f = +Inf` and its penalty
    is `+Inf`; see `returned_pair_initial_possible`.) -/
theorem returned_pair_success (A : Arith) (c : Cfg) (evs : List Ev)
    (hfirst : ∀ e m, evs.head? = some e → member A c e 0 = some m → Isres.accepts {} m = true)
    (hret : 0 < (run A c evs).ret) (hns : (run A c evs).short = false) :
    ∃ i e m, i < (run A c evs).nevals ∧ evs[i]? = some e ∧ member A c e i = some m ∧
      (run A c evs).x = e.x ∧ (run A c evs).minf = some e.f := by
  cases hv : valid c with
  | false => rw [invalid_args A c evs hv] at hret; simp at hret
  | true =>
    rcases returned_pair A c evs hv with ⟨_, _, h3⟩ | h
    · exfalso
      rcases run_cases A c evs hv with ⟨s', hm, hr⟩ | ⟨pre, e, rest, sp, r, hes, hm, hvd, hr⟩
      · rw [hr] at hns; cases hns
      · have hn : (run A c evs).nevals = pre.length + 1 := by rw [hr]; simp [St.res, post_nev, hm.1.1]
        have hr' : (run A c evs).ret = r := by rw [hr]; rfl
        -- the first consumed event is completely evaluated
        have hfirstmem : ∃ e0 m0, evs.head? = some e0 ∧ member A c e0 0 = some m0 := by
          cases pre with
          | nil =>
            rcases verdict_some hvd with ⟨h1, _⟩ | ⟨m, hmem, _⟩
            · omega
            · have h0 : sp.nev = 0 := hm.1.1
              rw [h0] at hmem
              exact ⟨e, m, by simp [hes], hmem⟩
          | cons e0 pre' =>
            obtain ⟨m0, hm0⟩ := hm.2.2.2 0 e0 rfl
            exact ⟨e0, m0, by simp [hes], hm0⟩
        obtain ⟨e0, m0, he0, hm0⟩ := hfirstmem
        have hacc := hfirst e0 m0 he0 hm0
        have hevs : evs = e0 :: evs.tail := by
          cases evs with
          | nil => simp at he0
          | cons a l => simp at he0; subst he0; rfl
        rw [hn, hevs] at h3
        simp only [List.take_succ_cons, mems, hm0, Option.toList_some] at h3
        have hpt := foldl_update_pt_isSome (mems A c (0 + 1) (List.take pre.length evs.tail)) (Isres.update {} m0)
          (by simp [update_accept hacc])
        simp only [Isres.run, List.cons_append, List.nil_append, List.foldl_cons] at h3
        rw [h3] at hpt
        cases hpt
    · exact h

/-- the rule accepts every within-tolerance first member -/
theorem accepts_init_of_feas {m : Isres.Ev} (h : m.feas = true) : Isres.accepts {} m = true := by
  simp [Isres.accepts, Isres.effPen, h, C06Isres.gt_posInf_zero, C06Isres.fne_zero_posInf]

/-- **T3 without constraints** (m = p = 0): every success return hands back an evaluated pair. -/
theorem returned_pair_unconstrained (A : Arith) (c : Cfg) (evs : List Ev) (hg : c.gtol = []) (hh : c.htol = [])
    (hret : 0 < (run A c evs).ret) (hns : (run A c evs).short = false) :
    ∃ i e, i < (run A c evs).nevals ∧ evs[i]? = some e ∧ (run A c evs).x = e.x ∧ (run A c evs).minf = some e.f := by
  obtain ⟨i, e, m, h1, h2, _, h4, h5⟩ := returned_pair_success A c evs (by
    intro e m _ hm
    rw [member_unconstrained hg hh] at hm
    split at hm
    · cases hm
    · cases hm; exact accepts_init_of_feas rfl) hret hns
  exact ⟨i, e, h1, h2, h4, h5⟩

/-! ## T5 — stopval (C02) -/

/-- **T5.** `ret = 2` (NLOPT_MINF_MAX_REACHED / STOPVAL_REACHED) only with `*minf < stopval` — STRICT `<`, as tested at
    isres.c line 178 (`fval[k] < stop->minf_max && feasible`) — and the returned pair is the last consumed event, which is
    within tolerance (`feasible`). -/
theorem stopval_strict (A : Arith) (c : Cfg) (evs : List Ev) (hret : (run A c evs).ret = 2) :
    ∃ e m, evs[(run A c evs).nevals - 1]? = some e ∧ member A c e ((run A c evs).nevals - 1) = some m ∧ m.feas = true ∧
      (run A c evs).x = e.x ∧ (run A c evs).minf = some e.f ∧ F64.lt e.f c.stop.minfMax = true := by
  cases hv : valid c with
  | false => rw [invalid_args A c evs hv] at hret; simp at hret
  | true =>
    rcases run_cases A c evs hv with ⟨s', hm, hr⟩ | ⟨pre, e, rest, sp, r, hes, hm, hvd, hr⟩
    · rw [hr] at hret; simp [St.res] at hret
    · rw [hr] at hret ⊢
      simp only [St.res] at hret
      rcases verdict_some hvd with ⟨h1, _⟩ | ⟨m, hmem, ⟨hacc, hr2, _⟩ | ⟨h1, _⟩ | ⟨h1, _⟩⟩
      · omega
      · rw [hret] at hr2
        obtain ⟨hlt, hfeas⟩ := acceptRet_two hr2.symm
        refine ⟨e, m, ?_, ?_, hfeas, ?_, ?_, ?_⟩
        · simp [St.res, post_nev, hm.1.1, hes]
        · simp only [St.res, post_nev, Nat.add_sub_cancel]; exact hmem
        · simp [St.res, post, hmem, hacc]
        · simp [St.res, post, hmem, update_accept hacc, (member_f hmem).1]
        · rw [← (member_f hmem).1]; exact hlt
      · omega
      · omega

/-- T5 in the short form of the task statement -/
theorem stopval_minf_lt (A : Arith) (c : Cfg) (evs : List Ev) (hret : (run A c evs).ret = 2) :
    ∃ m, (run A c evs).minf = some m ∧ F64.lt m c.stop.minfMax = true := by
  obtain ⟨e, _, _, _, _, _, h5, h6⟩ := stopval_strict A c evs hret
  exact ⟨e.f, h5, h6⟩

/-! ## Further facts -/

/-- the result codes the driver can return (0 is the placeholder of a `short` run) -/
theorem ret_codes (A : Arith) (c : Cfg) (evs : List Ev) :
    (run A c evs).ret = -2 ∨ (run A c evs).ret = -5 ∨ (run A c evs).ret = 2 ∨ (run A c evs).ret = 3 ∨
    (run A c evs).ret = 4 ∨ (run A c evs).ret = 5 ∨ ((run A c evs).ret = 0 ∧ (run A c evs).short = true) := by
  cases hv : valid c with
  | false => rw [invalid_args A c evs hv]; simp
  | true =>
    rcases run_cases A c evs hv with ⟨s', hm, hr⟩ | ⟨pre, e, rest, sp, r, hes, hm, hvd, hr⟩
    · rw [hr]; simp [St.res]
    · rw [hr]; simp only [St.res]
      rcases verdict_some hvd with ⟨h1, _⟩ | ⟨m, hmem, ⟨_, _, h1⟩ | ⟨h1, _⟩ | ⟨h1, _⟩⟩ <;> omega

/-- NLOPT_SUCCESS (1) is never returned: the loop `while (1)` is only left through `goto done` with `ret != SUCCESS` -/
theorem ret_ne_success (A : Arith) (c : Cfg) (evs : List Ev) : (run A c evs).ret ≠ 1 := by
  rcases ret_codes A c evs with h | h | h | h | h | h | ⟨h, _⟩ <;> omega

/-- a valid configuration that returns has made at least one evaluation -/
theorem nevals_pos (A : Arith) (c : Cfg) (evs : List Ev) (hv : valid c = true) (hns : (run A c evs).short = false) :
    0 < (run A c evs).nevals := by
  rcases run_cases A c evs hv with ⟨s', hm, hr⟩ | ⟨pre, e, rest, sp, r, hes, hm, hvd, hr⟩
  · rw [hr] at hns; cases hns
  · rw [hr]; simp [St.res, post_nev]

/-- INVALID_ARGS makes no evaluation and leaves `x`; `*minf` was already set to `+Inf` -/
theorem invalid_args_iff (A : Arith) (c : Cfg) (evs : List Ev) : (run A c evs).ret = -2 ↔ valid c = false := by
  constructor
  · intro h
    cases hv : valid c with
    | false => rfl
    | true =>
      rcases run_cases A c evs hv with ⟨s', hm, hr⟩ | ⟨pre, e, rest, sp, r, hes, hm, hvd, hr⟩
      · rw [hr] at h; simp [St.res] at h
      · rw [hr] at h; simp only [St.res] at h
        rcases verdict_some hvd with ⟨h1, _⟩ | ⟨m, hmem, ⟨_, _, h1⟩ | ⟨h1, _⟩ | ⟨h1, _⟩⟩ <;> omega
  · intro h; rw [invalid_args A c evs h]

/-- `*minf` is always written -/
theorem minf_isSome (A : Arith) (c : Cfg) (evs : List Ev) : (run A c evs).minf.isSome = true := by
  cases hv : valid c with
  | false => rw [invalid_args A c evs hv]; rfl
  | true =>
    rcases run_cases A c evs hv with ⟨s', hm, hr⟩ | ⟨pre, e, rest, sp, r, hes, hm, hvd, hr⟩ <;> rw [hr] <;> rfl

/-- a run that is `short` consumed every event, and every event was stop-free -/
theorem short_all (A : Arith) (c : Cfg) (evs : List Ev) (h : (run A c evs).short = true) :
    (run A c evs).nevals = evs.length ∧ ∀ e ∈ evs, e.stop = 0 := by
  cases hv : valid c with
  | false => rw [invalid_args A c evs hv] at h; cases h
  | true =>
    rcases run_cases A c evs hv with ⟨s', hm, hr⟩ | ⟨pre, e, rest, sp, r, hes, hm, hvd, hr⟩
    · rw [hr]; exact ⟨hm.1.1, hm.2.2.1⟩
    · rw [hr] at h; cases h

/-- prefix monotonicity: a run that returned (not `short`) returns the same result on every extension of its consumed
    prefix — the driver does not look at later events -/
theorem go_prefix (A : Arith) (c : Cfg) (more : List Ev) : ∀ (evs : List Ev) (s : St), (go A c s evs).short = false →
    go A c s (evs ++ more) = go A c s evs := by
  intro evs
  induction evs with
  | nil => intro s h; simp [go, St.res] at h
  | cons e es ih =>
    intro s h
    cases hv : verdict A c s e with
    | some r => simp [go, hv]
    | none =>
      simp only [go, hv] at h
      simp only [List.cons_append, go, hv]
      exact ih _ h

theorem run_prefix (A : Arith) (c : Cfg) (evs more : List Ev) (h : (run A c evs).short = false) :
    run A c (evs ++ more) = run A c evs := by
  cases hv : valid c with
  | false => simp [run, hv]
  | true =>
    simp only [run, hv, if_true] at h ⊢
    exact go_prefix A c more evs _ h

/-- **Agreement with Model/Isres.lean**: on return of a valid configuration `*minf` is the `minf` of `Isres.run` applied to
    the completely evaluated consumed members (`Isres.update` is literally the rule used by the driver model). -/
theorem agrees_with_Isres_run (A : Arith) (c : Cfg) (evs : List Ev) (hv : valid c = true) :
    (run A c evs).minf = some (Isres.run (mems A c 0 (evs.take (run A c evs).nevals))).minf := by
  obtain ⟨sf, ret, short, hr, hinv, _⟩ := run_final A c evs hv
  rw [← hinv.2.1]
  rw [hr]; rfl

/-! ## T4 — best point (C05 / C06) -/

/-- the members (data seen by the incumbent rule) of the completely evaluated events among the consumed ones -/
def evaluated (A : Arith) (c : Cfg) (evs : List Ev) : List Isres.Ev := mems A c 0 (evs.take (run A c evs).nevals)

/-- every evaluated member is the member of a consumed event, tagged with its position -/
theorem evaluated_event {A : Arith} {c : Cfg} {evs : List Ev} {m : Isres.Ev} (h : m ∈ evaluated A c evs) :
    ∃ j e, j < (run A c evs).nevals ∧ evs[j]? = some e ∧ member A c e j = some m ∧ m.f = e.f ∧ m.pt = j := by
  obtain ⟨j, e, hj, hm⟩ := mem_mems h
  rw [Nat.zero_add] at hm
  rw [List.getElem?_take] at hj
  by_cases hlt : j < (run A c evs).nevals
  · simp only [hlt, if_true] at hj
    exact ⟨j, e, hlt, hj, hm, (member_f hm).1, (member_f hm).2⟩
  · simp [hlt] at hj

/-- **T4 (partial: under the penalty hypothesis of C06Isres).**  For EVERY return of a valid configuration — success
    codes, FORCED_STOP, and also the state when the events run out — if
    * no within-tolerance consumed member has a NaN objective (`NoNaNFeas`),
    * every out-of-tolerance consumed member has `penalty > 0` and `gpenalty > 0` as COMPUTED (`InfeasPos`; fails only by
      underflow of `g*g` or through an equality constraint, see the two `_false` theorems), and
    * some consumed member is within tolerance,
    then `(x, *minf)` is the pair of a consumed, completely evaluated, within-tolerance event, and no within-tolerance
    consumed member has a smaller objective value. -/
theorem best_feasible_partial (A : Arith) (c : Cfg) (evs : List Ev) (hv : valid c = true)
    (hn : C06Isres.NoNaNFeas (evaluated A c evs)) (hp : C06Isres.InfeasPos (evaluated A c evs))
    (hex : ∃ m ∈ evaluated A c evs, m.feas = true) :
    ∃ i e m, i < (run A c evs).nevals ∧ evs[i]? = some e ∧ member A c e i = some m ∧ m.feas = true ∧
      (run A c evs).x = e.x ∧ (run A c evs).minf = some e.f ∧
      ∀ m' ∈ evaluated A c evs, m'.feas = true → F64.le e.f m'.f = true := by
  obtain ⟨sf, ret, short, hr, hinv, hle⟩ := run_final A c evs hv
  obtain ⟨hnev, hi, hx⟩ := hinv
  obtain ⟨⟨m, hmin, hminf, hpt, hfeas⟩, _, _, hall⟩ := C06Isres.isres_best_feasible (evaluated A c evs) hn hp hex
  unfold evaluated at hmin hminf hpt hall
  rw [← hi] at hminf hpt hall
  rcases hx with ⟨h1, _⟩ | ⟨i, e, m', h1, h2, h3, h4⟩
  · rw [h1] at hpt; cases hpt
  · obtain ⟨j, e2, hj, hm2, hmm, _, hmpt⟩ := evaluated_event hmin
    rw [h3] at hpt
    simp only [Option.some.injEq] at hpt
    have hij : i = j := by omega
    subst hij
    rw [List.getElem?_take] at h1
    simp only [hj, if_true] at h1
    rw [h1] at hm2
    cases hm2
    rw [hmm] at h2
    cases h2
    refine ⟨i, e, m, hj, h1, hmm, hfeas, by rw [hr]; exact h4, ?_, ?_⟩
    · rw [hr]; simp [St.res, h3, (member_f hmm).1]
    · intro m'' hm'' hf''
      have := hall m'' hm'' hf''
      rw [h3] at this
      simpa [(member_f hmm).1] using this

/-! ### without the penalty hypothesis, inequality constraints only -/

/-- the invariant behind `isres_minf_le_feasible_ineq` -/
def J (seen : List Isres.Ev) (s : Isres.Inc) : Prop :=
  s.minf.isNaN = false ∧ s.pen.isNaN = false ∧ s.gpen = s.pen ∧
  ((∀ x ∈ seen, x.feas = false) ∨
   (F64.le s.pen F64.zero = true ∧ ∀ x ∈ seen, x.feas = true → F64.le s.minf x.f = true))

theorem le_zero_of_not_gt {a : F64} (hn : a.isNaN = false) (h : F64.gt a F64.zero = false) : F64.le a F64.zero = true := by
  unfold F64.gt at h
  exact F64.le_of_not_nan_of_not_lt C06Isres.zero_not_nan hn h

theorem le_of_feq {a b : F64} (h : F64.feq a b = true) : F64.le b a = true := by
  simp [F64.feq, F64.le] at *
  exact ⟨⟨h.1.2, h.1.1⟩, by omega⟩

theorem not_gt_of_le_zero {a : F64} (h : F64.le a F64.zero = true) : F64.gt a F64.zero = false := by
  simp [F64.gt, F64.lt, F64.le, C06Isres.zero_key] at *
  intro _ _; omega

theorem J_step (seen : List Isres.Ev) (x : Isres.Ev) (s : Isres.Inc) (hxn : x.f.isNaN = false)
    (hxg : x.gpenalty = x.penalty) (h : J seen s) : J (seen ++ [x]) (Isres.update s x) := by
  obtain ⟨hm, hpn, hgp, hd⟩ := h
  cases hacc : Isres.accepts s x with
  | false =>
    rw [update_reject hacc]
    refine ⟨hm, hpn, hgp, ?_⟩
    cases hxf : x.feas with
    | false =>
      rcases hd with hd | ⟨hd1, hd2⟩
      · left; intro y hy; simp at hy; rcases hy with hy | hy
        · exact hd y hy
        · subst hy; exact hxf
      · right; refine ⟨hd1, ?_⟩
        intro y hy hyf; simp at hy; rcases hy with hy | hy
        · exact hd2 y hy hyf
        · subst hy; rw [hxf] at hyf; cases hyf
    | true =>
      -- a rejected within-tolerance member: `minf_penalty <= 0` and `minf <= f`
      have hkey : F64.le s.pen F64.zero = true ∧ F64.le s.minf x.f = true := by
        simp only [Isres.accepts, Isres.effPen, hxf, Bool.or_true, Bool.true_and, if_true] at hacc
        rw [Bool.and_eq_false_iff] at hacc
        rcases hacc with hA | hB
        · rw [Bool.or_eq_false_iff] at hA
          obtain ⟨hA1, hA2⟩ := hA
          rw [hgp] at hA2
          refine ⟨le_zero_of_not_gt hpn hA2, ?_⟩
          have : F64.lt s.minf x.f = true := (F64.lt_iff_not_le hm hxn).mpr hA1
          exact F64.le_of_lt this
        · rw [Bool.or_eq_false_iff] at hB
          obtain ⟨hB1, hB2⟩ := hB
          simp only [F64.fne, Bool.not_eq_false'] at hB1 hB2
          exact ⟨le_of_feq hB1, le_of_feq hB2⟩
      right
      refine ⟨hkey.1, ?_⟩
      intro y hy hyf; simp at hy; rcases hy with hy | hy
      · rcases hd with hd | ⟨_, hd2⟩
        · rw [hd y hy] at hyf; cases hyf
        · exact hd2 y hy hyf
      · subst hy; exact hkey.2
  | true =>
    rw [update_accept hacc]
    have hacc' := hacc
    simp only [Isres.accepts, Bool.and_eq_true] at hacc'
    obtain ⟨⟨hc1, hc2⟩, _⟩ := hacc'
    cases hxf : x.feas with
    | true =>
      refine ⟨hxn, by simp [Isres.effPen, hxf]; decide, by simp [Isres.effPen, Isres.effGpen, hxf], ?_⟩
      right
      refine ⟨by simp [Isres.effPen, hxf]; decide, ?_⟩
      intro y hy hyf; simp at hy; rcases hy with hy | hy
      · rcases hd with hd | ⟨hd1, hd2⟩
        · rw [hd y hy] at hyf; cases hyf
        · have hle : F64.le x.f s.minf = true := by
            rw [hgp, not_gt_of_le_zero hd1] at hc2; simpa using hc2
          exact F64.le_trans' hle (hd2 y hy hyf)
      · subst hy; exact F64.le_refl_of_not_nan hxn
    | false =>
      have hple : F64.le x.penalty s.pen = true := by simpa [hxf] using hc1
      refine ⟨hxn, by simp [Isres.effPen, hxf]; exact F64.not_nan_of_le_left hple,
        by simp [Isres.effPen, Isres.effGpen, hxf, hxg], ?_⟩
      rcases hd with hd | ⟨hd1, hd2⟩
      · left; intro y hy; simp at hy; rcases hy with hy | hy
        · exact hd y hy
        · subst hy; exact hxf
      · right
        have hle : F64.le x.f s.minf = true := by
          rw [hgp, not_gt_of_le_zero hd1] at hc2; simpa using hc2
        refine ⟨by simp [Isres.effPen, hxf]; exact F64.le_trans' hple hd1, ?_⟩
        intro y hy hyf; simp at hy; rcases hy with hy | hy
        · exact F64.le_trans' hle (hd2 y hy hyf)
        · subst hy; rw [hxf] at hyf; cases hyf

theorem J_fold (es seen : List Isres.Ev) (s : Isres.Inc) (hn : ∀ e ∈ es, e.f.isNaN = false)
    (hg : ∀ e ∈ es, e.gpenalty = e.penalty) (h : J seen s) : J (seen ++ es) (es.foldl Isres.update s) := by
  induction es generalizing seen s with
  | nil => simpa using h
  | cons e es ih =>
    have := ih (seen ++ [e]) (Isres.update s e) (fun y hy => hn y (by simp [hy])) (fun y hy => hg y (by simp [hy]))
      (J_step seen e s (hn e (by simp)) (hg e (by simp)) h)
    simpa using this

/-- **The incumbent rule, inequality constraints only, NO penalty hypothesis**: if all objective values are numbers and
    `gpenalty = penalty` for every member (no equality constraints), then no within-tolerance member has a value below the
    incumbent's — although the incumbent itself may be an out-of-tolerance point (`best_feasible_full_false`). -/
theorem isres_minf_le_feasible_ineq (es : List Isres.Ev) (hn : ∀ e ∈ es, e.f.isNaN = false)
    (hg : ∀ e ∈ es, e.gpenalty = e.penalty) :
    ∀ e ∈ es, e.feas = true → F64.le (Isres.run es).minf e.f = true := by
  have h0 : J [] ({} : Isres.Inc) := ⟨by decide, by decide, rfl, Or.inl (by simp)⟩
  have := J_fold es [] {} hn hg h0
  simp only [List.nil_append] at this
  obtain ⟨_, _, _, hd⟩ := this
  intro e he hf
  rcases hd with hd | ⟨_, hd⟩
  · rw [hd e he] at hf; cases hf
  · exact hd e he hf

/-- **T4, literal form, for inequality constraints only** (`htol = []`): if every consumed objective value is a number,
    no consumed within-tolerance member has `f < *minf` — for every return code, with NO hypothesis on the penalties. -/
theorem no_better_feasible_ineq (A : Arith) (c : Cfg) (evs : List Ev) (hv : valid c = true) (hh : c.htol = [])
    (hn : ∀ e ∈ evs, e.f.isNaN = false) :
    ∃ mf, (run A c evs).minf = some mf ∧ ∀ m ∈ evaluated A c evs, m.feas = true → F64.le mf m.f = true := by
  refine ⟨_, agrees_with_Isres_run A c evs hv, ?_⟩
  apply isres_minf_le_feasible_ineq
  · intro m hm
    obtain ⟨j, e, _, hj, _, hf, _⟩ := evaluated_event hm
    rw [hf]; exact hn e (List.mem_of_getElem? hj)
  · intro m hm
    obtain ⟨j, e, _, _, hmem, _, _⟩ := evaluated_event hm
    exact member_ineq_only hh hmem

/-! ## Concrete witnesses and non-vacuity -/

def two : F64 := ⟨0x4000000000000000⟩
def four : F64 := ⟨0x4010000000000000⟩
def seven : F64 := ⟨0x401c000000000000⟩
def hundred : F64 := ⟨0x4059000000000000⟩
def negZero : F64 := ⟨0x8000000000000000⟩
/-- 1e-170 -/
def tiny : F64 := ⟨0x1ca3529ba7d19eaf⟩

/-- An INCOMPLETE (table-based) IEEE arithmetic for the concrete examples: every value it returns other than the "don't know" NaN is the
    correctly rounded IEEE-754 result:
    `0 + b = b`, `a + 0 = a` (with `+0 + -0 = +0`); `a - 0 = a`, `0 - b = -b`, `a - a = +0` (finite a);
    `1 * b = b`, `a * 1 = a`, `2 * 2 = 4`, and UNDERFLOW: `|a|, |b| < 2^-538` ⇒ `a * b = ±0`;
    everything else: NaN. -/
def exArith : Arith :=
  { add := fun a b => if a = F64.zero then (if b = negZero then F64.zero else b)
                      else if b = F64.zero then (if a = negZero then F64.zero else a) else F64.qnan
    sub := fun a b => if b = F64.zero then a else if a = F64.zero then F64.neg b
                      else if a = b ∧ a.isFinite then F64.zero else F64.qnan
    mul := fun a b => if a.mag < 0x1e50000000000000 ∧ b.mag < 0x1e50000000000000 then
                        (if a.sign = b.sign then F64.zero else negZero)
                      else if a = F64.one then b else if b = F64.one then a
                      else if a = two ∧ b = two then four else F64.qnan
    div := fun _ _ => F64.qnan, sqrt := fun _ => F64.qnan, tanh := fun _ => F64.qnan, atanh := fun _ => F64.qnan
    pow := fun _ _ => F64.qnan, log := fun _ => F64.qnan, exp := fun _ => F64.qnan
    ofInt := fun _ => F64.qnan, toInt := fun _ => 0 }

def stop0 : Stopping :=
  { n := 1, minfMax := F64.negInf, ftolRel := F64.zero, ftolAbs := F64.zero, xtolRel := F64.zero, xtolAbs := none,
    xWeights := none, nevals := 0, maxeval := 0, maxtime := F64.zero, start := F64.zero, forceStop := 0 }

/-- n = 1, box [-1, 2], x0 = 0, one scalar inequality constraint `g(x) <= 0` with tolerance 0 -/
def cfgG (maxeval : Int) : Cfg :=
  { n := 1, x0 := [F64.zero], lb := [F64.negOne], ub := [two], gtol := [[F64.zero]],
    stop := { stop0 with maxeval := maxeval } }

/-- event 1: x = 0, f = 1, g = 1e-170 > 0: OUT of tolerance, but `g*g` underflows, penalty = +0;
    event 2: x = 1, f = 2, g = -1: strictly feasible -/
def evsUnderflow : List Ev :=
  [ { x := [F64.zero], f := F64.one, gs := [[tiny]] }, { x := [F64.one], f := two, gs := [[F64.negOne]] } ]

/-- **T4 is FALSE without the penalty hypothesis** (witness carried over from `C06Isres.isres_best_feasible_full_false`).
    Replay on the C library: NLOPT_GN_ISRES, n = 1, bounds [-1, 2], one inequality constraint with tolerance 0,
    maxeval = 2, any population; make the callbacks return f = 1, g = 1e-170 at the first evaluated point (x0) and f = 2,
    g = -1 at the second.  The first point violates the constraint (`g > tol`), but `g*g` underflows to `+0`, so it is
    recorded with `minf_penalty = minf_gpenalty = 0`; the strictly feasible second point is rejected (`2 <= 1` fails and
    `minf_gpenalty > 0` fails).  The run returns MAXEVAL_REACHED with `x` = the infeasible first point, `minf = 1`,
    although a feasible point was evaluated.  All objective values are numbers. -/
theorem best_feasible_full_false :
    ¬ (∀ (A : Arith) (c : Cfg) (evs : List Ev), valid c = true → C06Isres.NoNaN (evaluated A c evs) →
        (∃ m ∈ evaluated A c evs, m.feas = true) → 0 < (run A c evs).ret →
        ∃ i e m, i < (run A c evs).nevals ∧ evs[i]? = some e ∧ member A c e i = some m ∧ m.feas = true ∧
          (run A c evs).x = e.x ∧ (run A c evs).minf = some e.f) := by
  intro h
  have hrun : run exArith (cfgG 2) evsUnderflow = ⟨5, 2, [F64.zero], some F64.one, false⟩ := by decide
  have hevd : evaluated exArith (cfgG 2) evsUnderflow =
      [⟨F64.one, false, F64.zero, F64.zero, 0⟩, ⟨two, true, F64.zero, F64.zero, 1⟩] := by
    unfold evaluated; rw [hrun]; decide
  obtain ⟨i, e, m, hi, he, hm, hf, hx, _⟩ := h exArith (cfgG 2) evsUnderflow (by decide)
    (by rw [hevd]; intro e he; simp at he; rcases he with h | h <;> subst h <;> decide)
    (by rw [hevd]; exact ⟨⟨two, true, F64.zero, F64.zero, 1⟩, by simp, rfl⟩) (by rw [hrun]; decide)
  rw [hrun] at hi hx
  simp only at hi hx
  have : i = 0 ∨ i = 1 := by omega
  rcases this with h0 | h1
  · subst h0
    simp [evsUnderflow] at he; subst he
    have : member exArith (cfgG 2) { x := [F64.zero], f := F64.one, gs := [[tiny]] } 0 =
        some ⟨F64.one, false, F64.zero, F64.zero, 0⟩ := by decide
    rw [this] at hm; cases hm; cases hf
  · subst h1
    simp [evsUnderflow] at he; subst he
    revert hx; decide

/-- the driver-level run of that witness, for the replay: code 5, 2 evaluations, x = [0], minf = 1 -/
example : run exArith (cfgG 2) evsUnderflow = ⟨5, 2, [F64.zero], some F64.one, false⟩ := by decide

/-- one inequality and one equality constraint, tolerances 0 -/
def cfgGH (maxeval : Int) : Cfg :=
  { n := 1, x0 := [F64.zero], lb := [F64.negOne], ub := [two], gtol := [[F64.zero]], htol := [[F64.zero]],
    stop := { stop0 with maxeval := maxeval } }

/-- 1: f = -Inf, g = -1, h = 2  (violates only the equality constraint: penalty 4, gpenalty 0) — accepted;
    2: f = 7,    g = -1, h = 0  (feasible) — rejected: `7 <= -Inf` fails and `minf_gpenalty > 0` fails;
    3: f = -Inf, g = 1,  h = 0  (penalty 1 = gpenalty) — accepted: smaller penalty; now `minf_gpenalty = 1 > 0`;
    4: f = 100,  g = -1, h = 0  (feasible) — accepted whatever its value because `minf_gpenalty > 0`. -/
def evsEq : List Ev :=
  [ { x := [F64.zero], f := F64.negInf, gs := [[F64.negOne]], hs := [[two]] },
    { x := [F64.one], f := seven, gs := [[F64.negOne]], hs := [[F64.zero]] },
    { x := [two], f := F64.negInf, gs := [[F64.one]], hs := [[F64.zero]] },
    { x := [F64.negOne], f := hundred, gs := [[F64.negOne]], hs := [[F64.zero]] } ]

/-- **With an equality constraint even the literal T4 is false** (the FIXME of isres.c: "with equality constraints, how
    do we decide which solution is the best so far?").  The run `evsEq` returns MAXEVAL_REACHED with the FEASIBLE point of
    value 100 although the FEASIBLE point of value 7 was evaluated before.  All penalties of out-of-tolerance members are
    > 0 except the `gpenalty` of member 1 (violation of the equality constraint only).  The infinite objective values only
    serve to keep `exArith` out of the ftol/xtol tests; with all tolerances 0 the finite variant f = 5, 7, 4, 100 takes
    the same path on the C library. -/
theorem no_better_feasible_eq_false :
    ∃ (A : Arith) (c : Cfg) (evs : List Ev), valid c = true ∧ (∀ e ∈ evs, e.f.isNaN = false) ∧ (run A c evs).ret = 5 ∧
      ∃ m ∈ evaluated A c evs, m.feas = true ∧ ∃ mf, (run A c evs).minf = some mf ∧ F64.lt m.f mf = true := by
  have hrun : run exArith (cfgGH 4) evsEq = ⟨5, 4, [F64.negOne], some hundred, false⟩ := by decide
  refine ⟨exArith, cfgGH 4, evsEq, by decide, ?_, by rw [hrun], ?_⟩
  · intro e he; simp [evsEq] at he; rcases he with h | h | h | h <;> subst h <;> decide
  · refine ⟨⟨seven, true, F64.zero, F64.zero, 1⟩, ?_, rfl, hundred, by rw [hrun], by decide⟩
    unfold evaluated; rw [hrun]; decide

/-- **T3: the "still (x0, +Inf)" case does occur with a success code.**  One vector-valued inequality constraint
    (tolerances 0, 0) returning (NaN, 1) at x0: the member is out of tolerance and its penalty is NaN, so
    `penalty <= minf_penalty` is false and it is never accepted; with maxeval = 1 the driver returns MAXEVAL_REACHED (5)
    with `x = x0` and `minf = +Inf` although `f(x0) = 1` was evaluated. -/
theorem returned_pair_initial_possible :
    ∃ (A : Arith) (c : Cfg) (evs : List Ev), valid c = true ∧ (run A c evs).ret = 5 ∧ (run A c evs).short = false ∧
      (run A c evs).minf = some F64.posInf ∧ (run A c evs).x = c.x0 ∧ ∀ e ∈ evs, e.f = F64.one := by
  refine ⟨exArith, { cfgG 1 with gtol := [[F64.zero, F64.zero]] },
    [{ x := [F64.zero], f := F64.one, gs := [[F64.qnan, F64.one]] }], by decide, by decide, by decide, by decide, by decide, ?_⟩
  intro e he; simp at he; subst he; rfl

/-! ### non-vacuity of T1 – T5 -/

/-- a mixed trace for `cfgG`: infeasible (g = 1, f = 0), feasible f = 2, feasible f = 1, feasible f = 2 -/
def demo : List Ev :=
  [ { x := [F64.zero], f := F64.zero, gs := [[F64.one]] },
    { x := [F64.one], f := two, gs := [[F64.negOne]] },
    { x := [two], f := F64.one, gs := [[F64.zero]] },
    { x := [F64.negOne], f := two, gs := [[F64.negOne]] } ]

/-- T1 is attained: maxeval = 3 and the driver stops after exactly 3 evaluations with MAXEVAL_REACHED, returning the best
    feasible point (x = [2], f = 1) -/
example : run exArith (cfgG 3) demo = ⟨5, 3, [two], some F64.one, false⟩ := by decide
example : (cfgG 3).stop.maxeval > 0 ∧ ((run exArith (cfgG 3) demo).nevals : Int) = (cfgG 3).stop.maxeval := by decide

/-- T2: a stop raised inside the INEQUALITY-constraint callback (test number 2) of the third event: 3 evaluations counted,
    FORCED_STOP, and the incumbent is the one after two events (x = [1], f = 2) -/
example : (run exArith (cfgG 0) (demo.take 2)).short = true ∧
    run exArith (cfgG 0) (demo.take 2 ++ { x := [two], f := F64.one, stop := 2, gs := [[F64.zero]] } :: demo.drop 3)
      = ⟨-5, 3, [F64.one], some two, false⟩ := by decide

/-- T2, asynchronous stop seen only at the last test of the body (stop = 3 > 1 + m + p = 2) of an event that reaches the
    stop value: the code of the acceptance branch wins, MINF_MAX_REACHED instead of FORCED_STOP -/
theorem forced_stop_late_overridden :
    ∃ (A : Arith) (c : Cfg) (evs : List Ev), (∃ e ∈ evs, e.forced = true) ∧ (run A c evs).ret = 2 := by
  refine ⟨exArith, { cfgG 0 with stop := { stop0 with minfMax := two } },
    [{ x := [two], f := F64.one, stop := 3, gs := [[F64.zero]] }],
    ⟨{ x := [two], f := F64.one, stop := 3, gs := [[F64.zero]] }, by simp, by decide⟩, by decide⟩

/-- T3 / T5: stopval = 2: the first feasible point with f < 2 ends the run with code 2 and is returned -/
example : run exArith { cfgG 0 with stop := { stop0 with minfMax := two } } (demo.drop 1) =
    ⟨2, 2, [two], some F64.one, false⟩ := by decide

/-- `f = stopval` does not give code 2 (strict `<`): the feasible point with f = 2 = stopval is passed, the run goes on -/
example : (run exArith { cfgG 0 with stop := { stop0 with minfMax := two } } ((demo.drop 1).take 1)).short = true := by
  decide

/-- **A stop value makes `nlopt_stop_f` fire on the PENALTY.**  isres.c line 181-183 calls
    `nlopt_stop_f(stop, fval, *minf) && nlopt_stop_f(stop, feasible ? 0 : penalty, minf_penalty)`, and `nlopt_stop_f(s, f,
    oldf)` is `f <= s->minf_max || ftol test`: the second call compares the constraint PENALTY with the user's stop value.
    Witness (ftol_rel = ftol_abs = 0, i.e. no ftol criterion at all; stopval = 4; one inequality constraint, tolerance 0):
    member 1: f = 2, g = 2 (infeasible, penalty 4) — first incumbent; member 2: f = 1, g = 1 (infeasible, penalty 1) —
    accepted (smaller penalty, smaller value), not feasible so no STOPVAL, but `1 <= 4` and `1 <= 4`: the run returns
    NLOPT_FTOL_REACHED (3) with an INFEASIBLE point after 2 evaluations. -/
theorem ftol_reached_by_stopval :
    ∃ (A : Arith) (c : Cfg) (evs : List Ev), valid c = true ∧ c.stop.ftolRel = F64.zero ∧ c.stop.ftolAbs = F64.zero ∧
      (run A c evs).ret = 3 ∧ (run A c evs).nevals = 2 ∧ ∀ m ∈ evaluated A c evs, m.feas = false := by
  have hrun : run exArith { cfgG 0 with stop := { stop0 with minfMax := four } }
      [ { x := [F64.zero], f := two, gs := [[two]] }, { x := [F64.one], f := F64.one, gs := [[F64.one]] } ] =
      ⟨3, 2, [F64.one], some F64.one, false⟩ := by decide
  refine ⟨exArith, { cfgG 0 with stop := { stop0 with minfMax := four } },
    [ { x := [F64.zero], f := two, gs := [[two]] }, { x := [F64.one], f := F64.one, gs := [[F64.one]] } ],
    by decide, rfl, rfl, by rw [hrun], by rw [hrun], ?_⟩
  unfold evaluated; rw [hrun]; decide

/-- the same effect on `demo`: with stopval = 2 the feasible point with f = 2 = stopval (not `<`) ends the run with
    FTOL_REACHED (3), not STOPVAL_REACHED, because `2 <= 2` and `0 <= 2` -/
example : run exArith { cfgG 0 with stop := { stop0 with minfMax := two } } demo = ⟨3, 2, [F64.one], some two, false⟩ := by
  decide

/-- FTOL_REACHED (3): ftol_rel = 1, ftol_abs = 2; the feasible point with the SAME value as the infeasible incumbent is
    accepted (penalty differs) and both `nlopt_stop_f` tests hold -/
example : run exArith { cfgG 0 with stop := { stop0 with ftolRel := F64.one, ftolAbs := two } }
    [ { x := [F64.zero], f := F64.one, gs := [[F64.one]] }, { x := [F64.one], f := F64.one, gs := [[F64.negOne]] } ]
      = ⟨3, 2, [F64.one], some F64.one, false⟩ := by decide

/-- XTOL_REACHED (4): xtol_abs = [2]; the better point at distance 1 from the incumbent is accepted and `nlopt_stop_x` holds -/
example : run exArith { cfgG 0 with stop := { stop0 with xtolAbs := some [two] } }
    [ { x := [F64.zero], f := two, gs := [[F64.negOne]] }, { x := [F64.one], f := F64.one, gs := [[F64.negOne]] } ]
      = ⟨4, 2, [F64.one], some F64.one, false⟩ := by decide

/-- INVALID_ARGS: negative population, infinite bound -/
example : run exArith { cfgG 0 with pop := -1 } demo = ⟨-2, 0, [F64.zero], some F64.posInf, false⟩ := by decide
example : run exArith { cfgG 0 with ub := [F64.posInf] } demo = ⟨-2, 0, [F64.zero], some F64.posInf, false⟩ := by decide
example : popSize (cfgG 0) = 40 := by decide

/-- T4: the hypotheses of `best_feasible_partial` hold on `demo` (penalty of the infeasible member is 1 > 0) -/
theorem demo_evaluated : evaluated exArith (cfgG 0) demo =
    [⟨F64.zero, false, F64.one, F64.one, 0⟩, ⟨two, true, F64.zero, F64.zero, 1⟩,
     ⟨F64.one, true, F64.zero, F64.zero, 2⟩, ⟨two, true, F64.zero, F64.zero, 3⟩] := by
  have : run exArith (cfgG 0) demo = ⟨0, 4, [two], some F64.one, true⟩ := by decide
  unfold evaluated; rw [this]; decide

example : valid (cfgG 0) = true ∧ C06Isres.NoNaNFeas (evaluated exArith (cfgG 0) demo) ∧
    C06Isres.InfeasPos (evaluated exArith (cfgG 0) demo) ∧ (∃ m ∈ evaluated exArith (cfgG 0) demo, m.feas = true) := by
  rw [demo_evaluated]
  refine ⟨by decide, ?_, ?_, ⟨⟨two, true, F64.zero, F64.zero, 1⟩, by simp, rfl⟩⟩
  · intro e he; simp at he; rcases he with h | h | h | h <;> subst h <;> decide
  · intro e he; simp at he; rcases he with h | h | h | h <;> subst h <;> decide

/-- non-vacuity of `no_better_feasible_ineq`: its hypotheses hold on the underflow witness (where the returned point is
    infeasible), and its conclusion there reads `1 <= 2` -/
example : valid (cfgG 2) = true ∧ (cfgG 2).htol = [] ∧ (∀ e ∈ evsUnderflow, e.f.isNaN = false) := by
  refine ⟨by decide, rfl, ?_⟩
  intro e he; simp [evsUnderflow] at he; rcases he with h | h <;> subst h <;> decide

end Nlopt.DrvIsres
