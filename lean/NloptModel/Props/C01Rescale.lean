import NloptModel.Model.Rescale
import NloptModel.Model.Glue
import NloptModel.Props.C01
/-!
# C01 / C02 — `rescale.c` (COBYLA / BOBYQA coordinate scaling), for every arithmetic

* `computeRescaling_*`: the scale vector has the length of `dx`, its first entry is 1 bit for bit, and it is all ones
  exactly when no adjacent pair of steps differs (so equal steps — the default — rescale nothing);
* `rescale_none`, `unscale_none`, `*_length`: the `s == NULL` paths copy; lengths are preserved;
* `reorder_*`: after `nlopt_reorder_bounds` no coordinate has `lb > ub`; two non-NaN bounds come out ordered; every
  coordinate keeps its two values (possibly swapped); ordered boxes are untouched; the function is idempotent;
* `scaledBox_ordered`: the scaled box handed to the core has no inverted coordinate whatever the signs of the steps
  (negative steps flip the bounds — this is the case the function exists for);
* `delivered_in_box`: whatever the core proposes in scaled coordinates, whatever the scale and the arithmetic (so including the
  roundings of `x * s` that leave the box by an ulp — defect L6 of the unrepaired library), the point COBYLA's `func_wrap` /
  BOBYQA's `rescale_fun` deliver after `nlopt_unscale` and the clamp against the ORIGINAL bounds is inside the box, provided
  the unscaled vector has no NaN.
-/
namespace Nlopt.C01R
open Nlopt Nlopt.Rescale Nlopt.F64

theorem computeRescaling_length (A : Arith) (dx : List F64) : (computeRescaling A dx).length = dx.length := by
  cases dx with
  | nil => rfl
  | cons d r => simp only [computeRescaling]; split <;> simp

/-- `s[0] = 1.0` on every path -/
theorem computeRescaling_head (A : Arith) (d : F64) (r : List F64) : (computeRescaling A (d :: r)).head? = some F64.one := by
  simp only [computeRescaling]; split <;> rfl

/-- equal steps (the default initial step, or any user step with all entries IEEE-equal): no rescaling at all -/
theorem computeRescaling_equal (A : Arith) (dx : List F64) (h : unequal dx = false) :
    computeRescaling A dx = dx.map (fun _ => F64.one) := by
  cases dx with
  | nil => rfl
  | cons d r => simp [computeRescaling, h]

/-- unequal steps: `s[i] = dx[i] / dx[0]` for `i ≥ 1` -/
theorem computeRescaling_unequal (A : Arith) (d : F64) (r : List F64) (h : unequal (d :: r) = true) :
    computeRescaling A (d :: r) = F64.one :: r.map (fun e => A.div e d) := by
  simp [computeRescaling, h]

/-- `n == 1` never rescales -/
theorem computeRescaling_single (A : Arith) (d : F64) : computeRescaling A [d] = [F64.one] := by
  simp [computeRescaling, unequal]

theorem unequal_iff_adjacent (dx : List F64) :
    unequal dx = true ↔ ∃ p q a b, dx = p ++ a :: b :: q ∧ fne b a = true := by
  induction dx with
  | nil => simp [unequal]
  | cons a r ih =>
    cases r with
    | nil =>
      simp only [unequal]
      constructor
      · intro h; cases h
      · rintro ⟨p, q, x, y, h, _⟩
        cases p with
        | nil => simp at h
        | cons p0 p => cases p <;> simp at h
    | cons b r =>
      simp only [unequal, Bool.or_eq_true]
      constructor
      · rintro (h | h)
        · exact ⟨[], r, a, b, rfl, h⟩
        · obtain ⟨p, q, x, y, he, hne⟩ := ih.mp h
          exact ⟨a :: p, q, x, y, by simp [he], hne⟩
      · rintro ⟨p, q, x, y, he, hne⟩
        cases p with
        | nil =>
          simp at he
          obtain ⟨h1, h2, _⟩ := he
          subst h1; subst h2
          exact Or.inl hne
        | cons p0 p =>
          simp at he
          exact Or.inr (ih.mpr ⟨p, q, x, y, he.2, hne⟩)

theorem rescale_none (A : Arith) (x : List F64) : rescale A none x = x := rfl
theorem unscale_none (A : Arith) (x : List F64) : unscale A none x = x := rfl

theorem rescale_length (A : Arith) (s x : List F64) (h : s.length = x.length) : (rescale A (some s) x).length = x.length := by
  simp [rescale, h]

theorem unscale_length (A : Arith) (s x : List F64) (h : s.length = x.length) : (unscale A (some s) x).length = x.length := by
  simp [unscale, h]

/-- an arithmetic in which dividing and multiplying by 1.0 are exact (IEEE arithmetic is one) -/
structure UnitExact (A : Arith) : Prop where
  div_one : ∀ x, A.div x F64.one = x
  mul_one : ∀ x, A.mul x F64.one = x

theorem rescale_ones (A : Arith) (hA : UnitExact A) (x : List F64) :
    rescale A (some (x.map fun _ => F64.one)) x = x := by
  induction x with
  | nil => rfl
  | cons a r ih => simp only [rescale, List.map, List.zipWith] at ih ⊢; rw [hA.div_one, ih]

theorem unscale_ones (A : Arith) (hA : UnitExact A) (x : List F64) :
    unscale A (some (x.map fun _ => F64.one)) x = x := by
  induction x with
  | nil => rfl
  | cons a r ih => simp only [unscale, List.map, List.zipWith] at ih ⊢; rw [hA.mul_one, ih]

/-- with equal steps the whole scaling layer is the identity on points (exact unit arithmetic) -/
theorem equal_steps_identity (A : Arith) (hA : UnitExact A) (dx x : List F64) (h : unequal dx = false)
    (hl : dx.length = x.length) :
    unscale A (some (computeRescaling A dx)) (rescale A (some (computeRescaling A dx)) x) = x := by
  have e : computeRescaling A dx = x.map (fun _ => F64.one) := by
    rw [computeRescaling_equal A dx h]
    clear h
    induction dx generalizing x with
    | nil => cases x with
      | nil => rfl
      | cons _ _ => simp at hl
    | cons d r ih => cases x with
      | nil => simp at hl
      | cons a q => simp only [List.map, List.cons.injEq, true_and]; exact ih q (by simpa using hl)
  rw [e, rescale_ones A hA, unscale_ones A hA]

/-! ## `nlopt_reorder_bounds` -/

theorem reorder1_not_gt (l u : F64) : gt (reorder1 l u).1 (reorder1 l u).2 = false := by
  unfold reorder1
  by_cases h : gt l u = true
  · simp only [h, if_true]
    -- u > l would contradict l > u
    unfold gt lt at h ⊢
    simp only [Bool.and_eq_true, Bool.not_eq_true', decide_eq_true_eq] at h
    obtain ⟨⟨hu, hl⟩, hk⟩ := h
    simp [hu, hl]; omega
  · have h' : gt l u = false := by simpa using h
    simp [h']

/-- two non-NaN bounds come out ordered -/
theorem reorder1_le (l u : F64) (hl : l.isNaN = false) (hu : u.isNaN = false) :
    le (reorder1 l u).1 (reorder1 l u).2 = true := by
  unfold reorder1
  by_cases h : gt l u = true
  · simp only [h, if_true]; exact le_of_lt h
  · have h' : lt u l = false := by simpa [gt] using h
    simp only [gt, h']
    exact le_of_not_nan_of_not_lt hu hl h'

theorem reorder1_values (l u : F64) : reorder1 l u = (l, u) ∨ reorder1 l u = (u, l) := by
  unfold reorder1; split <;> simp

theorem reorder1_of_le (l u : F64) (h : le l u = true) : reorder1 l u = (l, u) := by
  unfold reorder1
  have : gt l u = false := by
    unfold gt lt; unfold le at h
    simp only [Bool.and_eq_true, Bool.not_eq_true', decide_eq_true_eq] at h
    obtain ⟨⟨h1, h2⟩, hk⟩ := h
    simp [h1, h2]; omega
  simp [this]

theorem reorder1_idem (l u : F64) : reorder1 (reorder1 l u).1 (reorder1 l u).2 = reorder1 l u := by
  have h := reorder1_not_gt l u
  generalize reorder1 l u = p at h
  obtain ⟨a, b⟩ := p
  simp only at h
  simp [reorder1, h]

/-- no coordinate of the re-ordered box has `lb > ub` (any lengths, any values, NaN included) -/
def NoInverted : List F64 → List F64 → Prop
  | l :: lb, u :: ub => gt l u = false ∧ NoInverted lb ub
  | _, _ => True

theorem reorder_no_inverted (lb ub : List F64) : NoInverted (reorderBounds lb ub).1 (reorderBounds lb ub).2 := by
  induction lb generalizing ub with
  | nil => simp [reorderBounds, NoInverted]
  | cons l lb ih =>
    cases ub with
    | nil => simp [reorderBounds, NoInverted]
    | cons u ub => exact ⟨reorder1_not_gt l u, ih ub⟩

theorem reorder_length (lb ub : List F64) (h : lb.length = ub.length) :
    (reorderBounds lb ub).1.length = lb.length ∧ (reorderBounds lb ub).2.length = lb.length := by
  induction lb generalizing ub with
  | nil => simp [reorderBounds]
  | cons l lb ih =>
    cases ub with
    | nil => simp at h
    | cons u ub =>
      have := ih ub (by simpa using h)
      simp [reorderBounds, this.1, this.2]

/-- a box of non-NaN bounds is a proper box (`BoxOK`, the hypothesis of the clamp theorems) after re-ordering -/
theorem reorder_boxOK (lb ub : List F64) (h : lb.length = ub.length)
    (hl : C01.NoNaN lb) (hu : C01.NoNaN ub) : C01.BoxOK (reorderBounds lb ub).1 (reorderBounds lb ub).2 := by
  induction lb generalizing ub with
  | nil => cases ub with
    | nil => simp [reorderBounds, C01.BoxOK]
    | cons _ _ => simp at h
  | cons l lb ih =>
    cases ub with
    | nil => simp at h
    | cons u ub =>
      refine ⟨reorder1_le l u (hl l (by simp)) (hu u (by simp)), ih ub (by simpa using h) ?_ ?_⟩
      · intro v hv; exact hl v (by simp [hv])
      · intro v hv; exact hu v (by simp [hv])

/-- an ordered box is left alone -/
theorem reorder_of_boxOK (lb ub : List F64) (h : C01.BoxOK lb ub) : reorderBounds lb ub = (lb, ub) := by
  induction lb generalizing ub with
  | nil => cases ub with
    | nil => rfl
    | cons _ _ => exact absurd h (by simp [C01.BoxOK])
  | cons l lb ih =>
    cases ub with
    | nil => exact absurd h (by simp [C01.BoxOK])
    | cons u ub =>
      obtain ⟨h1, h2⟩ := h
      simp [reorderBounds, reorder1_of_le l u h1, ih ub h2]

theorem reorder_idem (lb ub : List F64) :
    reorderBounds (reorderBounds lb ub).1 (reorderBounds lb ub).2 = reorderBounds lb ub := by
  induction lb generalizing ub with
  | nil => simp [reorderBounds]
  | cons l lb ih =>
    cases ub with
    | nil => simp [reorderBounds]
    | cons u ub =>
      have e := reorder1_idem l u
      simp only [reorderBounds] at ih ⊢
      rw [e, ih ub]

/-- the scaled box handed to the core is never inverted, whatever the signs of the scale factors -/
theorem scaledBox_no_inverted (A : Arith) (s lb ub : List F64) :
    NoInverted (scaledBox A s lb ub).1 (scaledBox A s lb ub).2 := reorder_no_inverted _ _

/-! ## the delivered point -/

/-- COBYLA `func_wrap` / BOBYQA `rescale_fun`: unscale the core's proposal, then clamp against the ORIGINAL bounds -/
def delivered (A : Arith) (s : List F64) (lb ub xs : List F64) : List F64 :=
  Glue.clampSite lb ub (unscale A (some s) xs)

theorem delivered_in_box (A : Arith) (s lb ub xs : List F64) (hbox : C01.BoxOK lb ub)
    (hlen : (unscale A (some s) xs).length = lb.length) (hnan : C01.NoNaN (unscale A (some s) xs)) :
    ∀ (i : Nat) (hi : i < (delivered A s lb ub xs).length) (hl : i < lb.length) (hu : i < ub.length),
      inBox1 lb[i] ub[i] (delivered A s lb ub xs)[i] = true :=
  C01.clampSite_in_box lb ub _ hbox hnan hlen

/-- non-vacuity: a box with a negative step; bounds flip under the scale and are re-ordered -/
example : reorderBounds [F64.one, F64.negOne] [F64.negOne, F64.one] = ([F64.negOne, F64.negOne], [F64.one, F64.one]) := by decide
example : unequal [F64.one, F64.one, F64.negOne] = true ∧ unequal [F64.one, F64.one] = false ∧ unequal [F64.qnan, F64.qnan] = true := by decide

end Nlopt.C01R
