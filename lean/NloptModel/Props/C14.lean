import NloptModel.Lemmas.ApiWorld
/-!
# C14 — the optimizer object stores what was set, validates atomically and copies deeply

Model: `Model/Api.lean`, `Model/ApiOps.lean` (transcription of `src/api/options.c`, tied to the code by the
S-api correspondence stream).  `Core.view` / `World.views` is everything a getter can observe.
All theorems hold for every `Arith` (rounded arithmetic is a parameter) and every world / history.
-/
set_option linter.unusedSimpArgs false
set_option linter.unusedVariables false
namespace Nlopt.C14
open Nlopt

theorem failed_call_raw (A : Arith) (w : World) (op : Op) (r : Int) (hneg : r < 0) (i : Nat)
    (hr : (applyOpRaw A w op).2.1 = .code r) : (applyOpRaw A w op).1.views i = w.views i := by
  cases op with
  | oracle k => simp [applyOpRaw] at hr
  | mcfail k => simp [applyOpRaw] at hr
  | create dst alg n => simp [applyOpRaw] at hr
  | destroy slot =>
    simp only [applyOpRaw] at hr
    split at hr <;> simp at hr
  | copy src dst =>
    simp only [applyOpRaw] at hr
    split at hr <;> simp at hr
  | setObjective slot f pre fdata mx =>
    exact onCore_views _ _ _ _ (fun s c h => setObjective_fail s c f pre fdata mx h) r hr hneg i
  | setLb slot arg => exact onCore_views _ _ _ _ (fun s c h => setLowerBounds_fail A s c arg h) r hr hneg i
  | setUb slot arg => exact onCore_views _ _ _ _ (fun s c h => setUpperBounds_fail A s c arg h) r hr hneg i
  | setLb1 slot x => exact onCore_views _ _ _ _ (fun s c h => setLowerBounds1_fail A s c x h) r hr hneg i
  | setUb1 slot x => exact onCore_views _ _ _ _ (fun s c h => setUpperBounds1_fail A s c x h) r hr hneg i
  | setLbi slot k x => exact onCore_views _ _ _ _ (fun s c h => setLowerBound_fail A s c k x h) r hr hneg i
  | setUbi slot k x => exact onCore_views _ _ _ _ (fun s c h => setUpperBound_fail A s c k x h) r hr hneg i
  | getLb slot nul => exact onCoreOut_views _ _ _ (fun s c => getLowerBounds_view s c nul) i
  | getUb slot nul => exact onCoreOut_views _ _ _ (fun s c => getUpperBounds_view s c nul) i
  | getXtolAbs slot nul => exact onCoreOut_views _ _ _ (fun s c => getXtolAbs_view s c nul) i
  | getXw slot nul => exact onCoreOut_views _ _ _ (fun s c => getXWeights_view s c nul) i
  | addCon slot eq m isVec f pre fdata tol =>
    exact onCore_views _ _ _ _ (fun s c h => addCon_fail _ eq s c m isVec f pre fdata tol h) r hr hneg i
  | rmIneq slot => exact onCore_views _ _ _ _ (fun s c h => removeIneq_fail s c h) r hr hneg i
  | rmEq slot => exact onCore_views _ _ _ _ (fun s c h => removeEq_fail s c h) r hr hneg i
  | setScalar slot v =>
    refine onCore_views _ _ _ _ (fun s c h => ?_) r hr hneg i
    simp [setScalar, rSUCCESS] at h
  | setXtolAbs slot arg => exact onCore_views _ _ _ _ (fun s c h => setXtolAbs_fail s c arg h) r hr hneg i
  | setXtolAbs1 slot x => exact onCore_views _ _ _ _ (fun s c h => setXtolAbs1_fail s c x h) r hr hneg i
  | setXw slot arg => exact onCore_views _ _ _ _ (fun s c h => setXWeights_fail s c arg h) r hr hneg i
  | setXw1 slot x => exact onCore_views _ _ _ _ (fun s c h => setXWeights1_fail s c x h) r hr hneg i
  | setDx slot arg => exact onCore_views _ _ _ _ (fun s c h => setInitialStep_fail s c arg h) r hr hneg i
  | setDx1 slot x => exact onCore_views _ _ _ _ (fun s c h => setInitialStep1_fail s c x h) r hr hneg i
  | setDefaultDx slot x => exact onCore_views _ _ _ _ (fun s c h => setDefaultInitialStep_fail A s c x h) r hr hneg i
  | getDx slot x => exact onCoreOut_views _ _ _ (fun s c => getInitialStep_view A s c x) i
  | setMunge slot d c =>
    simp only [applyOpRaw] at hr
    split at hr <;> simp at hr
  | setParam slot nm x => exact onCore_views _ _ _ _ (fun s c h => setParam_fail s c nm x h) r hr hneg i
  | setLocal slot lo =>
    simp only [applyOpRaw] at hr ⊢
    cases slot with
    | none => simp
    | some j =>
      cases hg : w.get (some j) with
      | none => simp [hg]
      | some o =>
        simp only [hg] at hr ⊢
        have hlt := World.get_some_lt hg
        simp only [World.views, World.get_set, World.get_as]
        by_cases hij : i = j
        · subst hij
          simp only [hlt, and_self, if_true, hg, Option.map_some]
          congr 1
          apply setLocalOptimizer_fail
          simp only [Ret.code.injEq] at hr
          rw [hr]; exact hneg
        · simp [hij]

/-- **A setter that returns an error leaves all getters unchanged** — for EVERY operation of the API,
    every world (any number of live objects, any allocation-oracle state) and every slot:
    if the call returns a negative `nlopt_result`, the view of every object is what it was. -/
theorem failed_call_changes_nothing (A : Arith) (w : World) (op : Op) (r : Int)
    (hr : (applyOp A w op).2.1 = .code r) (hneg : r < 0) (i : Nat) :
    (applyOp A w op).1.views i = w.views i := by
  unfold applyOp at *
  cases op <;> simp only [] at hr ⊢ <;> first
    | exact failed_call_raw A w _ r hneg i hr
    | (have := failed_call_raw A w _ r hneg i hr; simpa [World.views] using this)

/-- a dummy arithmetic, only to exhibit concrete worlds in the non-vacuity examples -/
def arithTriv : Arith :=
  { add := fun a _ => a, sub := fun a _ => a, mul := fun a _ => a, div := fun a _ => a, sqrt := id, tanh := id,
    atanh := id, pow := fun a _ => a, log := id, exp := id, ofInt := fun _ => F64.zero, toInt := fun _ => 0 }

def w1 : World := (applyOp arithTriv { as := { numAlgs := 44 } } (.create 0 28 2)).1

/-- non-vacuity: a failing call on a live object exists (bound index out of range) -/
example : (applyOp arithTriv w1 (.setLbi (some 0) 5 F64.one)).2.1 = .code (-2) ∧ (w1.views 0).isSome = true := by
  decide

end Nlopt.C14
