import NloptModel.Props.C14b
/-!
# C14 (continued) — well-formedness is an invariant, hence `copy_equal` applies to every reachable object

`Core.wf` (the bound arrays exist exactly when the dimension is positive) is established by `nlopt_create`
(`create_wf`) and preserved by every API call; it is the hypothesis of `copy_equal`.
-/
set_option linter.unusedSimpArgs false
set_option linter.unusedVariables false
namespace Nlopt.C14
open Nlopt

@[simp] theorem wf_errmsg (c : Core) (e : Option Nat) : ({ c with errmsg := e } : Core).wf ↔ c.wf := Iff.rfl

@[simp] theorem setErrmsg_wf (s : AS) (c : Core) : (setErrmsg s c).2.wf ↔ c.wf := by
  obtain ⟨e, he⟩ := setErrmsg_snd s c
  rw [he]; rfl

@[simp] theorem setErrmsg_lb (s : AS) (c : Core) : (setErrmsg s c).2.lb = c.lb := by
  obtain ⟨e, he⟩ := setErrmsg_snd s c; rw [he]
@[simp] theorem setErrmsg_ub (s : AS) (c : Core) : (setErrmsg s c).2.ub = c.ub := by
  obtain ⟨e, he⟩ := setErrmsg_snd s c; rw [he]
@[simp] theorem setErrmsg_xtolAbs (s : AS) (c : Core) : (setErrmsg s c).2.xtolAbs = c.xtolAbs := by
  obtain ⟨e, he⟩ := setErrmsg_snd s c; rw [he]
@[simp] theorem setErrmsg_xWeights (s : AS) (c : Core) : (setErrmsg s c).2.xWeights = c.xWeights := by
  obtain ⟨e, he⟩ := setErrmsg_snd s c; rw [he]

theorem setLowerBounds_wf (A : Arith) (s : AS) (c : Core) (arg : Option (List F64)) (h : c.wf) : (setLowerBounds A s c arg).2.1.wf := by
  generalize hres : setLowerBounds A s c arg = res
  unfold setLowerBounds at hres
  simp only [unsetErrmsg_snd] at hres
  repeat' split at hres
  all_goals subst hres
  all_goals first
    | exact h
    | (simpa using h)
    | (obtain ⟨h1, h2⟩ := h
       simp only [Core.wf] at h1 h2 ⊢
       constructor
       · intro hn; have := h1 (by simpa using hn); cases hl : c.lb <;> cases hu : c.ub <;> simp_all [setArrV]
       · intro hn; have := h2 (by simpa using hn); simp_all [setArrV])

theorem setUpperBounds_wf (A : Arith) (s : AS) (c : Core) (arg : Option (List F64)) (h : c.wf) : (setUpperBounds A s c arg).2.1.wf := by
  generalize hres : setUpperBounds A s c arg = res
  unfold setUpperBounds at hres
  simp only [unsetErrmsg_snd] at hres
  repeat' split at hres
  all_goals subst hres
  all_goals first
    | exact h
    | (simpa using h)
    | (obtain ⟨h1, h2⟩ := h
       simp only [Core.wf] at h1 h2 ⊢
       constructor
       · intro hn; have := h1 (by simpa using hn); cases hl : c.lb <;> cases hu : c.ub <;> simp_all [setArrV]
       · intro hn; have := h2 (by simpa using hn); simp_all [setArrV])

theorem setLowerBounds1_wf (A : Arith) (s : AS) (c : Core) (x : F64) (h : c.wf) : (setLowerBounds1 A s c x).2.1.wf := by
  generalize hres : setLowerBounds1 A s c x = res
  unfold setLowerBounds1 at hres
  simp only [unsetErrmsg_snd] at hres
  repeat' split at hres
  all_goals subst hres
  all_goals first
    | exact h
    | (simpa using h)
    | (obtain ⟨h1, h2⟩ := h
       simp only [Core.wf] at h1 h2 ⊢
       constructor
       · intro hn; have := h1 (by simpa using hn); cases hl : c.lb <;> cases hu : c.ub <;> simp_all [setArrV]
       · intro hn; have := h2 (by simpa using hn); simp_all [setArrV])

theorem setUpperBounds1_wf (A : Arith) (s : AS) (c : Core) (x : F64) (h : c.wf) : (setUpperBounds1 A s c x).2.1.wf := by
  generalize hres : setUpperBounds1 A s c x = res
  unfold setUpperBounds1 at hres
  simp only [unsetErrmsg_snd] at hres
  repeat' split at hres
  all_goals subst hres
  all_goals first
    | exact h
    | (simpa using h)
    | (obtain ⟨h1, h2⟩ := h
       simp only [Core.wf] at h1 h2 ⊢
       constructor
       · intro hn; have := h1 (by simpa using hn); cases hl : c.lb <;> cases hu : c.ub <;> simp_all [setArrV]
       · intro hn; have := h2 (by simpa using hn); simp_all [setArrV])

theorem setLowerBound_wf (A : Arith) (s : AS) (c : Core) (i : Int) (x : F64) (h : c.wf) : (setLowerBound A s c i x).2.1.wf := by
  generalize hres : setLowerBound A s c i x = res
  unfold setLowerBound at hres
  simp only [unsetErrmsg_snd] at hres
  repeat' split at hres
  all_goals subst hres
  all_goals first
    | exact h
    | (simpa using h)
    | (obtain ⟨h1, h2⟩ := h
       simp only [Core.wf] at h1 h2 ⊢
       constructor
       · intro hn; have := h1 (by simpa using hn); cases hl : c.lb <;> cases hu : c.ub <;> simp_all [setArrV]
       · intro hn; have := h2 (by simpa using hn); simp_all [setArrV])

theorem setUpperBound_wf (A : Arith) (s : AS) (c : Core) (i : Int) (x : F64) (h : c.wf) : (setUpperBound A s c i x).2.1.wf := by
  generalize hres : setUpperBound A s c i x = res
  unfold setUpperBound at hres
  simp only [unsetErrmsg_snd] at hres
  repeat' split at hres
  all_goals subst hres
  all_goals first
    | exact h
    | (simpa using h)
    | (obtain ⟨h1, h2⟩ := h
       simp only [Core.wf] at h1 h2 ⊢
       constructor
       · intro hn; have := h1 (by simpa using hn); cases hl : c.lb <;> cases hu : c.ub <;> simp_all [setArrV]
       · intro hn; have := h2 (by simpa using hn); simp_all [setArrV])

theorem setParam_wf  (s : AS) (c : Core) (nm : Option String) (x : F64) (h : c.wf) : (setParam s c nm x).2.1.wf := by
  generalize hres : setParam s c nm x = res
  unfold setParam at hres
  simp only [unsetErrmsg_snd] at hres
  repeat' split at hres
  all_goals subst hres
  all_goals first
    | exact h
    | (simpa using h)
    | (obtain ⟨h1, h2⟩ := h
       simp only [Core.wf] at h1 h2 ⊢
       constructor
       · intro hn; have := h1 (by simpa using hn); cases hl : c.lb <;> cases hu : c.ub <;> simp_all [setArrV]
       · intro hn; have := h2 (by simpa using hn); simp_all [setArrV])

theorem setXtolAbs_wf  (s : AS) (c : Core) (arg : Option (List F64)) (h : c.wf) : (setXtolAbs s c arg).2.1.wf := by
  generalize hres : setXtolAbs s c arg = res
  unfold setXtolAbs at hres
  simp only [unsetErrmsg_snd] at hres
  repeat' split at hres
  all_goals subst hres
  all_goals first
    | exact h
    | (simpa using h)
    | (obtain ⟨h1, h2⟩ := h
       simp only [Core.wf] at h1 h2 ⊢
       constructor
       · intro hn; have := h1 (by simpa using hn); cases hl : c.lb <;> cases hu : c.ub <;> simp_all [setArrV]
       · intro hn; have := h2 (by simpa using hn); simp_all [setArrV])

theorem setXtolAbs1_wf  (s : AS) (c : Core) (x : F64) (h : c.wf) : (setXtolAbs1 s c x).2.1.wf := by
  generalize hres : setXtolAbs1 s c x = res
  unfold setXtolAbs1 at hres
  simp only [unsetErrmsg_snd] at hres
  repeat' split at hres
  all_goals subst hres
  all_goals first
    | exact h
    | (simpa using h)
    | (obtain ⟨h1, h2⟩ := h
       simp only [Core.wf] at h1 h2 ⊢
       constructor
       · intro hn; have := h1 (by simpa using hn); cases hl : c.lb <;> cases hu : c.ub <;> simp_all [setArrV]
       · intro hn; have := h2 (by simpa using hn); simp_all [setArrV])

theorem setXWeights_wf  (s : AS) (c : Core) (arg : Option (List F64)) (h : c.wf) : (setXWeights s c arg).2.1.wf := by
  generalize hres : setXWeights s c arg = res
  unfold setXWeights at hres
  simp only [unsetErrmsg_snd] at hres
  repeat' split at hres
  all_goals subst hres
  all_goals first
    | exact h
    | (simpa using h)
    | (obtain ⟨h1, h2⟩ := h
       simp only [Core.wf] at h1 h2 ⊢
       constructor
       · intro hn; have := h1 (by simpa using hn); cases hl : c.lb <;> cases hu : c.ub <;> simp_all [setArrV]
       · intro hn; have := h2 (by simpa using hn); simp_all [setArrV])

theorem setXWeights1_wf  (s : AS) (c : Core) (x : F64) (h : c.wf) : (setXWeights1 s c x).2.1.wf := by
  generalize hres : setXWeights1 s c x = res
  unfold setXWeights1 at hres
  simp only [unsetErrmsg_snd] at hres
  repeat' split at hres
  all_goals subst hres
  all_goals first
    | exact h
    | (simpa using h)
    | (obtain ⟨h1, h2⟩ := h
       simp only [Core.wf] at h1 h2 ⊢
       constructor
       · intro hn; have := h1 (by simpa using hn); cases hl : c.lb <;> cases hu : c.ub <;> simp_all [setArrV]
       · intro hn; have := h2 (by simpa using hn); simp_all [setArrV])

theorem setInitialStep1_wf  (s : AS) (c : Core) (x : F64) (h : c.wf) : (setInitialStep1 s c x).2.1.wf := by
  generalize hres : setInitialStep1 s c x = res
  unfold setInitialStep1 at hres
  simp only [unsetErrmsg_snd] at hres
  repeat' split at hres
  all_goals subst hres
  all_goals first
    | exact h
    | (simpa using h)
    | (obtain ⟨h1, h2⟩ := h
       simp only [Core.wf] at h1 h2 ⊢
       constructor
       · intro hn; have := h1 (by simpa using hn); cases hl : c.lb <;> cases hu : c.ub <;> simp_all [setArrV]
       · intro hn; have := h2 (by simpa using hn); simp_all [setArrV])

theorem setInitialStep_wf  (s : AS) (c : Core) (arg : Option (List F64)) (h : c.wf) : (setInitialStep s c arg).2.1.wf := by
  generalize hres : setInitialStep s c arg = res
  unfold setInitialStep setInitialStep1 at hres
  simp only [unsetErrmsg_snd] at hres
  repeat' split at hres
  all_goals subst hres
  all_goals first
    | exact h
    | (simpa using h)
    | (obtain ⟨h1, h2⟩ := h
       simp only [Core.wf] at h1 h2 ⊢
       constructor
       · intro hn; have := h1 (by simpa using hn); cases hl : c.lb <;> cases hu : c.ub <;> simp_all [setArrV]
       · intro hn; have := h2 (by simpa using hn); simp_all [setArrV])

theorem setDefaultInitialStep_wf (A : Arith) (s : AS) (c : Core) (x : Option (List F64)) (h : c.wf) : (setDefaultInitialStep A s c x).2.1.wf := by
  generalize hres : setDefaultInitialStep A s c x = res
  unfold setDefaultInitialStep setInitialStep1 at hres
  simp only [unsetErrmsg_snd] at hres
  repeat' split at hres
  all_goals subst hres
  all_goals first
    | exact h
    | (simpa using h)
    | (obtain ⟨h1, h2⟩ := h
       simp only [Core.wf] at h1 h2 ⊢
       constructor
       · intro hn; have := h1 (by simpa using hn); cases hl : c.lb <;> cases hu : c.ub <;> simp_all [setArrV]
       · intro hn; have := h2 (by simpa using hn); simp_all [setArrV])

theorem getLowerBounds_wf  (s : AS) (c : Core) (b : Bool) (h : c.wf) : (getLowerBounds s c b).2.1.wf := by
  generalize hres : getLowerBounds s c b = res
  unfold getLowerBounds at hres
  simp only [unsetErrmsg_snd] at hres
  repeat' split at hres
  all_goals subst hres
  all_goals first
    | exact h
    | (simpa using h)
    | (obtain ⟨h1, h2⟩ := h
       simp only [Core.wf] at h1 h2 ⊢
       constructor
       · intro hn; have := h1 (by simpa using hn); cases hl : c.lb <;> cases hu : c.ub <;> simp_all [setArrV]
       · intro hn; have := h2 (by simpa using hn); simp_all [setArrV])

theorem getUpperBounds_wf  (s : AS) (c : Core) (b : Bool) (h : c.wf) : (getUpperBounds s c b).2.1.wf := by
  generalize hres : getUpperBounds s c b = res
  unfold getUpperBounds at hres
  simp only [unsetErrmsg_snd] at hres
  repeat' split at hres
  all_goals subst hres
  all_goals first
    | exact h
    | (simpa using h)
    | (obtain ⟨h1, h2⟩ := h
       simp only [Core.wf] at h1 h2 ⊢
       constructor
       · intro hn; have := h1 (by simpa using hn); cases hl : c.lb <;> cases hu : c.ub <;> simp_all [setArrV]
       · intro hn; have := h2 (by simpa using hn); simp_all [setArrV])

theorem getXtolAbs_wf  (s : AS) (c : Core) (b : Bool) (h : c.wf) : (getXtolAbs s c b).2.1.wf := by
  generalize hres : getXtolAbs s c b = res
  unfold getXtolAbs at hres
  simp only [unsetErrmsg_snd] at hres
  repeat' split at hres
  all_goals subst hres
  all_goals first
    | exact h
    | (simpa using h)
    | (obtain ⟨h1, h2⟩ := h
       simp only [Core.wf] at h1 h2 ⊢
       constructor
       · intro hn; have := h1 (by simpa using hn); cases hl : c.lb <;> cases hu : c.ub <;> simp_all [setArrV]
       · intro hn; have := h2 (by simpa using hn); simp_all [setArrV])

theorem getXWeights_wf  (s : AS) (c : Core) (b : Bool) (h : c.wf) : (getXWeights s c b).2.1.wf := by
  generalize hres : getXWeights s c b = res
  unfold getXWeights at hres
  simp only [unsetErrmsg_snd] at hres
  repeat' split at hres
  all_goals subst hres
  all_goals first
    | exact h
    | (simpa using h)
    | (obtain ⟨h1, h2⟩ := h
       simp only [Core.wf] at h1 h2 ⊢
       constructor
       · intro hn; have := h1 (by simpa using hn); cases hl : c.lb <;> cases hu : c.ub <;> simp_all [setArrV]
       · intro hn; have := h2 (by simpa using hn); simp_all [setArrV])

theorem getInitialStep_wf (A : Arith) (s : AS) (c : Core) (x : Option (List F64)) (h : c.wf) : (getInitialStep A s c x).2.1.wf := by
  generalize hres : getInitialStep A s c x = res
  unfold getInitialStep setDefaultInitialStep setInitialStep1 at hres
  simp only [unsetErrmsg_snd] at hres
  repeat' split at hres
  all_goals subst hres
  all_goals first
    | exact h
    | (simpa using h)
    | (obtain ⟨h1, h2⟩ := h
       simp only [Core.wf] at h1 h2 ⊢
       constructor
       · intro hn; have := h1 (by simpa using hn); cases hl : c.lb <;> cases hu : c.ub <;> simp_all [setArrV]
       · intro hn; have := h2 (by simpa using hn); simp_all [setArrV])

theorem setObjective_wf  (s : AS) (c : Core) (f pre fdata : Nat) (mx : Bool) (h : c.wf) : (setObjective s c f pre fdata mx).2.1.wf := by
  generalize hres : setObjective s c f pre fdata mx = res
  unfold setObjective at hres
  simp only [unsetErrmsg_snd] at hres
  repeat' split at hres
  all_goals subst hres
  all_goals first
    | exact h
    | (simpa using h)
    | (obtain ⟨h1, h2⟩ := h
       simp only [Core.wf] at h1 h2 ⊢
       constructor
       · intro hn; have := h1 (by simpa using hn); cases hl : c.lb <;> cases hu : c.ub <;> simp_all [setArrV]
       · intro hn; have := h2 (by simpa using hn); simp_all [setArrV])

theorem removeIneq_wf  (s : AS) (c : Core)  (h : c.wf) : (removeIneq s c ).2.1.wf := by
  generalize hres : removeIneq s c  = res
  unfold removeIneq at hres
  simp only [unsetErrmsg_snd] at hres
  repeat' split at hres
  all_goals subst hres
  all_goals first
    | exact h
    | (simpa using h)
    | (obtain ⟨h1, h2⟩ := h
       simp only [Core.wf] at h1 h2 ⊢
       constructor
       · intro hn; have := h1 (by simpa using hn); cases hl : c.lb <;> cases hu : c.ub <;> simp_all [setArrV]
       · intro hn; have := h2 (by simpa using hn); simp_all [setArrV])

theorem removeEq_wf  (s : AS) (c : Core)  (h : c.wf) : (removeEq s c ).2.1.wf := by
  generalize hres : removeEq s c  = res
  unfold removeEq at hres
  simp only [unsetErrmsg_snd] at hres
  repeat' split at hres
  all_goals subst hres
  all_goals first
    | exact h
    | (simpa using h)
    | (obtain ⟨h1, h2⟩ := h
       simp only [Core.wf] at h1 h2 ⊢
       constructor
       · intro hn; have := h1 (by simpa using hn); cases hl : c.lb <;> cases hu : c.ub <;> simp_all [setArrV]
       · intro hn; have := h2 (by simpa using hn); simp_all [setArrV])


/-! well-formedness only depends on the view -/

def wfV (v : CoreView) : Prop :=
  (v.n > 0 → v.lb.isSome = true ∧ v.ub.isSome = true) ∧
  (v.n = 0 → v.lb = none ∧ v.ub = none ∧ v.xtolAbs = none ∧ v.xWeights = none)

theorem wf_iff_wfV (c : Core) : c.wf ↔ wfV c.view := by
  simp [Core.wf, wfV, Core.view]

theorem wfV_noData (v : CoreView) : wfV v.noData ↔ wfV v := Iff.rfl

theorem wf_of_view {c c' : Core} (h : c'.view = c.view) : c'.wf ↔ c.wf := by
  rw [wf_iff_wfV, wf_iff_wfV, h]

theorem setScalar_wf (s : AS) (c : Core) (v : ScalarSet) (h : c.wf) :
    (setScalar s c (ScalarSet.apply · v)).2.1.wf := by
  simp only [setScalar, unsetErrmsg_snd]
  cases v <;> exact h

theorem addCon_wf (caps : List Nat) (eq : Bool) (s : AS) (c : Core) (fm : Nat) (isVec : Bool)
    (fid pre fdata : Nat) (tol : Option (List F64)) (h : c.wf) :
    (addCon caps eq s c fm isVec fid pre fdata tol).2.1.wf := by
  have hcode : (addCon caps eq s c fm isVec fid pre fdata tol).2.2 = rSUCCESS ∨
      (addCon caps eq s c fm isVec fid pre fdata tol).2.2 < 0 := by
    rcases addCon_cases caps eq s c fm isVec fid pre fdata tol with ⟨h1, _⟩ | ⟨h1 | ⟨_, h1⟩, _⟩
    · exact Or.inl h1
    · exact Or.inr h1
    · exact Or.inl h1
  rcases hcode with hr | hr
  · rw [wf_iff_wfV, setter_stores_addCon caps eq s c fm isVec fid pre fdata tol hr]
    have := (wf_iff_wfV c).mp h
    (repeat' split) <;> exact this
  · rw [wf_of_view (addCon_fail caps eq s c fm isVec fid pre fdata tol hr)]; exact h

/-- the copies made by a successful `nlopt_copy` of well-formed objects are well formed -/
theorem copyChain_wf (s : AS) (ch ch' : List Core) (hwf : ∀ c ∈ ch, c.wf) (h : (copyChain s ch).2 = some ch') :
    ∀ c' ∈ ch', c'.wf := by
  have hv := copyChain_view s ch ch' hwf h
  intro c' hc'
  have hm : c'.view.noData ∈ ch'.map (·.view.noData) := List.mem_map_of_mem hc'
  rw [hv] at hm
  obtain ⟨c, hc, e⟩ := List.mem_map.mp hm
  rw [wf_iff_wfV, ← wfV_noData, ← e, wfV_noData, ← wf_iff_wfV]
  exact hwf c hc

theorem setLocalOptimizer_wf (A : Arith) (s : AS) (o : Obj) (lo : Option Obj) (ho : ∀ c ∈ o.chain, c.wf)
    (hlo : ∀ l, lo = some l → ∀ c ∈ l.chain, c.wf) :
    ∀ c ∈ (setLocalOptimizer A s o lo).2.1.chain, c.wf := by
  have hcore : o.core.wf := ho o.core (by simp [Obj.chain])
  have hloc : ∀ c ∈ o.locals, c.wf := fun c hc => ho c (by simp [Obj.chain, hc])
  unfold setLocalOptimizer
  simp only [unsetErrmsg_snd]
  cases lo with
  | none =>
    simp only [Obj.chain, List.mem_cons, List.not_mem_nil, or_false]
    intro c hc; subst hc; exact hcore
  | some l =>
    simp only []
    split
    · intro c hc
      simp only [Obj.chain, List.mem_cons] at hc
      rcases hc with rfl | hc
      · simpa using hcore
      · exact hloc c hc
    · have hcw := copyChain_wf (unsetErrmsg s o.core).1 l.chain
      generalize copyChain (unsetErrmsg s o.core).1 l.chain = r at *
      obtain ⟨s', res⟩ := r
      have horig : ∀ c ∈ ({ o with core := { o.core with errmsg := none } } : Obj).chain, c.wf := by
        intro c hc
        simp only [Obj.chain, List.mem_cons] at hc
        rcases hc with rfl | hc
        · exact hcore
        · exact hloc c hc
      cases res with
      | none => exact horig
      | some ch =>
        cases ch with
        | nil => exact horig
        | cons nl nrest =>
          simp only []
          have hw := hcw (nl :: nrest) (hlo l rfl) rfl
          have hnl : nl.wf := hw nl (by simp)
          have key : ∀ x : Core, x.wf → ({ x with mungeD := false, mungeC := false, forceStop := 0 } : Core).wf :=
            fun x h => h
          intro c hc
          simp only [Obj.chain, List.mem_cons] at hc
          rcases hc with rfl | rfl | hc
          · exact hcore
          · exact key _ (setObjective_wf _ _ 0 0 0 false (removeEq_wf _ _ (removeIneq_wf _ _
              (setUpperBounds_wf A _ _ _ (setLowerBounds_wf A _ _ _ hnl)))))
          · exact hw c (by simp [hc])

/-! the world level -/

/-- every object of every live chain is well formed -/
def WfWorld (w : World) : Prop := ∀ i o, w.get (some i) = some o → ∀ c ∈ o.chain, c.wf

theorem wfWorld_set {w : World} (hw : WfWorld w) (s' : AS) (j : Nat) (x : Option Obj)
    (hx : ∀ o, x = some o → ∀ c ∈ o.chain, c.wf) : WfWorld (({ w with as := s' } : World).set j x) := by
  intro i o hi
  rw [World.get_set] at hi
  split at hi
  · exact hx o hi
  · exact hw i o (by simpa using hi)

theorem onCore_wf (w : World) (slot : Option Nat) (nr : Int) (f : AS → Core → AS × Core × Int)
    (hf : ∀ s c, c.wf → (f s c).2.1.wf) (hw : WfWorld w) : WfWorld (onCore w slot nr f).1 := by
  unfold onCore
  split
  · rename_i j o hj
    simp only []
    refine wfWorld_set hw _ j _ ?_
    intro o' ho' c hc
    simp only [Option.some.injEq] at ho'
    subst ho'
    simp only [Obj.chain, List.mem_cons] at hc
    rcases hc with rfl | hc
    · exact hf _ _ (hw j o hj o.core (by simp [Obj.chain]))
    · exact hw j o hj c (by simp [Obj.chain, hc])
  · exact hw

theorem onCoreOut_wf (w : World) (slot : Option Nat) (f : AS → Core → AS × Core × Int × List F64)
    (hf : ∀ s c, c.wf → (f s c).2.1.wf) (hw : WfWorld w) : WfWorld (onCoreOut w slot f).1 := by
  unfold onCoreOut
  split
  · rename_i j o hj
    simp only []
    refine wfWorld_set hw _ j _ ?_
    intro o' ho' c hc
    simp only [Option.some.injEq] at ho'
    subst ho'
    simp only [Obj.chain, List.mem_cons] at hc
    rcases hc with rfl | hc
    · exact hf _ _ (hw j o hj o.core (by simp [Obj.chain]))
    · exact hw j o hj c (by simp [Obj.chain, hc])
  · exact hw

theorem applyOpRaw_wf (A : Arith) (w : World) (op : Op) (hw : WfWorld w) : WfWorld (applyOpRaw A w op).1 := by
  cases op with
  | oracle k => exact hw
  | mcfail k => exact hw
  | create dst alg n =>
    simp only [applyOpRaw]
    refine wfWorld_set hw _ dst _ ?_
    intro o ho c hc
    obtain ⟨h1, h2⟩ := create_wf A w.as alg n o ho
    simp only [Obj.chain, h2, List.mem_cons, List.not_mem_nil, or_false] at hc
    subst hc; exact h1
  | destroy slot =>
    simp only [applyOpRaw]
    split
    · exact wfWorld_set hw _ _ none (by simp)
    · exact hw
  | copy src dst =>
    simp only [applyOpRaw]
    split
    · have := wfWorld_set hw w.as dst none (by simp)
      exact this
    · rename_i o hsrc
      simp only []
      refine wfWorld_set hw _ dst _ ?_
      intro o' ho'
      have hsrc' : ∃ j, src = some j ∧ w.get (some j) = some o := by
        cases src with
        | none => simp [World.get] at hsrc
        | some j => exact ⟨j, rfl, hsrc⟩
      obtain ⟨j, _, hj⟩ := hsrc'
      have hcw := copyChain_wf w.as o.chain
      unfold copy at ho'
      generalize copyChain w.as o.chain = r at *
      obtain ⟨s', res⟩ := r
      cases res with
      | none => simp at ho'
      | some ch =>
        have := hcw ch (hw j o hj) rfl
        cases ch with
        | nil => simp [ofChain] at ho'
        | cons nc nrest =>
          simp only [ofChain, Option.some.injEq] at ho'
          subst ho'
          exact this
  | setObjective slot f pre fdata mx => exact onCore_wf _ _ _ _ (fun s c h => setObjective_wf s c f pre fdata mx h) hw
  | setLb slot arg => exact onCore_wf _ _ _ _ (fun s c h => setLowerBounds_wf A s c arg h) hw
  | setUb slot arg => exact onCore_wf _ _ _ _ (fun s c h => setUpperBounds_wf A s c arg h) hw
  | setLb1 slot x => exact onCore_wf _ _ _ _ (fun s c h => setLowerBounds1_wf A s c x h) hw
  | setUb1 slot x => exact onCore_wf _ _ _ _ (fun s c h => setUpperBounds1_wf A s c x h) hw
  | setLbi slot k x => exact onCore_wf _ _ _ _ (fun s c h => setLowerBound_wf A s c k x h) hw
  | setUbi slot k x => exact onCore_wf _ _ _ _ (fun s c h => setUpperBound_wf A s c k x h) hw
  | getLb slot nul => exact onCoreOut_wf _ _ _ (fun s c h => getLowerBounds_wf s c nul h) hw
  | getUb slot nul => exact onCoreOut_wf _ _ _ (fun s c h => getUpperBounds_wf s c nul h) hw
  | getXtolAbs slot nul => exact onCoreOut_wf _ _ _ (fun s c h => getXtolAbs_wf s c nul h) hw
  | getXw slot nul => exact onCoreOut_wf _ _ _ (fun s c h => getXWeights_wf s c nul h) hw
  | addCon slot eq m isVec f pre fdata tol =>
    exact onCore_wf _ _ _ _ (fun s c h => addCon_wf _ eq s c m isVec f pre fdata tol h) hw
  | rmIneq slot => exact onCore_wf _ _ _ _ (fun s c h => removeIneq_wf s c h) hw
  | rmEq slot => exact onCore_wf _ _ _ _ (fun s c h => removeEq_wf s c h) hw
  | setScalar slot v => exact onCore_wf _ _ _ _ (fun s c h => setScalar_wf s c v h) hw
  | setXtolAbs slot arg => exact onCore_wf _ _ _ _ (fun s c h => setXtolAbs_wf s c arg h) hw
  | setXtolAbs1 slot x => exact onCore_wf _ _ _ _ (fun s c h => setXtolAbs1_wf s c x h) hw
  | setXw slot arg => exact onCore_wf _ _ _ _ (fun s c h => setXWeights_wf s c arg h) hw
  | setXw1 slot x => exact onCore_wf _ _ _ _ (fun s c h => setXWeights1_wf s c x h) hw
  | setDx slot arg => exact onCore_wf _ _ _ _ (fun s c h => setInitialStep_wf s c arg h) hw
  | setDx1 slot x => exact onCore_wf _ _ _ _ (fun s c h => setInitialStep1_wf s c x h) hw
  | setDefaultDx slot x => exact onCore_wf _ _ _ _ (fun s c h => setDefaultInitialStep_wf A s c x h) hw
  | getDx slot x => exact onCoreOut_wf _ _ _ (fun s c h => getInitialStep_wf A s c x h) hw
  | setMunge slot d c =>
    simp only [applyOpRaw]
    split
    · rename_i j o hj
      have := wfWorld_set hw w.as j (some { o with core := { o.core with mungeD := d, mungeC := c } }) (by
        intro o' ho' c' hc'
        simp only [Option.some.injEq] at ho'
        subst ho'
        simp only [Obj.chain, List.mem_cons] at hc'
        rcases hc' with rfl | hc'
        · exact hw j o hj o.core (by simp [Obj.chain])
        · exact hw j o hj c' (by simp [Obj.chain, hc']))
      exact this
    · exact hw
  | setParam slot nm x => exact onCore_wf _ _ _ _ (fun s c h => setParam_wf s c nm x h) hw
  | setLocal slot lo =>
    simp only [applyOpRaw]
    split
    · rename_i j o hj
      simp only []
      refine wfWorld_set hw _ j _ ?_
      intro o' ho'
      simp only [Option.some.injEq] at ho'
      subst ho'
      refine setLocalOptimizer_wf A w.as o (w.get lo) (hw j o hj) ?_
      intro l hl
      cases lo with
      | none => simp [World.get] at hl
      | some k => exact hw k l hl
    · exact hw

/-- **well-formedness is an invariant of every API history** -/
theorem wf_history (A : Arith) (ops : List Op) (w : World) (hw : WfWorld w) : WfWorld (runOps A w ops) := by
  induction ops generalizing w with
  | nil => exact hw
  | cons op ops ih =>
    refine ih _ ?_
    have := applyOpRaw_wf A w op hw
    unfold applyOp
    cases op <;> first | exact this | (intro i o hi; exact this i o (by simpa [World.get] using hi))

/-- **`copy_equal` for every reachable object**: after ANY history from a world without objects, a successful
    `nlopt_copy` of any live object yields an object equal in every getter up to the user-data pointers — and
    equal in every getter if the object has no copy hook -/
theorem copy_equal_reachable (A : Arith) (ops : List Op) (w0 : World) (h0 : ∀ i, w0.get (some i) = none)
    (i : Nat) (o : Obj) (hi : (runOps A w0 ops).get (some i) = some o) (ch' : List Core)
    (h : (copyChain (runOps A w0 ops).as o.chain).2 = some ch') :
    ch'.map (·.view.noData) = o.chain.map (·.view.noData) ∧
    ((∀ c ∈ o.chain, c.mungeC = false) → ch'.map Core.view = o.chain.map Core.view) := by
  have hw : WfWorld (runOps A w0 ops) := wf_history A ops w0 (fun i o hi => by rw [h0 i] at hi; simp at hi)
  obtain ⟨h1, _, h3⟩ := copy_equal (runOps A w0 ops).as o.chain ch' (hw i o hi) h
  exact ⟨h1, h3⟩

end Nlopt.C14
