import NloptModel.Generated.AlgLists
/-!
# C05 — which algorithms run behind the memoizing wrapper

`Props/Wrap.lean` (`memo_returns_best_evaluated`) proves "opt_f is the best in-box evaluation" for every algorithm machine that is
run behind the memoizing wrapper.  Which algorithms are is decided by the switch of `memoize_wrapcheck` (optimize.c), regenerated
into `Generated/AlgLists.lean` on every run; this file pins it to the families the proof is claimed for (COBYLA and the
truncated-Newton family).  For the other incumbent-keeping algorithms the property is monitored, not proved.
-/
namespace Nlopt.C05
open Nlopt.Gen

def documented : List String :=
  ["NLOPT_LD_TNEWTON", "NLOPT_LD_TNEWTON_RESTART", "NLOPT_LD_TNEWTON_PRECOND", "NLOPT_LD_TNEWTON_PRECOND_RESTART", "NLOPT_LN_COBYLA"]

def memoNames : List String := memoAlgs.map (fun i => algNames.getD i "?")

theorem memo_list_is_documented : memoNames = documented := by decide

end Nlopt.C05
