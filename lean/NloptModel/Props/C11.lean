import NloptModel.Generated.AlgLists
/-!
# C11 — the set of algorithms that get the elimination wrapper is the documented one

`Props/Wrap.lean` (`elim_equiv`) proves the equivalence "fixed coordinates ≡ removed coordinates" for every algorithm machine
that is run behind the elimination wrapper.  WHICH algorithms are run behind it is decided by the switch of
`elimdim_wrapcheck` in optimize.c; that list is regenerated into `Generated/AlgLists.lean` on every run, and this file pins it to
the list the property names (the DIRECT family, CRS2, PRAXIS, COBYLA, the NEWUOA variants, BOBYQA, Nelder-Mead, Sbplx, ISRES,
ESCH, AGS and StoGO).  Dropping or adding a `case` label breaks `elim_list_is_documented`.
-/
namespace Nlopt.C11
open Nlopt.Gen

/-- the algorithms the property quantifies over, in enum order -/
def documented : List String :=
  ["NLOPT_GN_DIRECT", "NLOPT_GN_DIRECT_L", "NLOPT_GN_DIRECT_L_RAND", "NLOPT_GN_DIRECT_NOSCAL", "NLOPT_GN_DIRECT_L_NOSCAL",
   "NLOPT_GN_DIRECT_L_RAND_NOSCAL", "NLOPT_GN_ORIG_DIRECT", "NLOPT_GN_ORIG_DIRECT_L", "NLOPT_GD_STOGO", "NLOPT_GD_STOGO_RAND",
   "NLOPT_LN_PRAXIS", "NLOPT_GN_CRS2_LM", "NLOPT_LN_COBYLA", "NLOPT_LN_NEWUOA", "NLOPT_LN_NEWUOA_BOUND", "NLOPT_LN_NELDERMEAD",
   "NLOPT_LN_SBPLX", "NLOPT_LN_BOBYQA", "NLOPT_GN_ISRES", "NLOPT_GN_ESCH", "NLOPT_GN_AGS"]

/-- names of the algorithms in the regenerated switch of `elimdim_wrapcheck` -/
def elimNames : List String := elimAlgs.map (fun i => algNames.getD i "?")

theorem elim_list_is_documented : elimNames = documented := by decide

/-- every eliminated algorithm is a dispatched one (the wrapper is never applied to an algorithm nlopt_optimize_ cannot run) -/
theorem elim_subset_dispatched : elimAlgs.all (fun i => dispatchedAlgs.contains i) = true := by decide

end Nlopt.C11
