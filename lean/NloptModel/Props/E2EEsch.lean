import NloptModel.Lemmas.EschAlgLemmas
import NloptModel.Props.DrvEsch
import NloptModel.Props.Wrap
/-!
# ESCH end to end: from the control-flow theorems of `EschDrv.run` to statements about the TRACE of real callback
# invocations of the machine `EschAlg.mk P c`, and through the wrapper stack of `nlopt_optimize`

Layer 1 (`Props/DrvEsch.lean`): theorems about `EschDrv.run A c evs` for an arbitrary event list.
Layer 2 (`Props/Wrap.lean`): theorems about `Nlopt.optimize` for an ARBITRARY algorithm machine.
This file connects them for ESCH.

* `esch_refines` (R): every returned run of `EschAlg.mk P c` — EVERY proposer `P`, environment `E`, fuel, start state — is
  a returned (`short = false`) run of `EschDrv.run` on the events of its trace, with the same `ret`, `x`, `*minf`,
  evaluation count = trace length; every query is an objective evaluation without gradient, the first one at `c.x0`.
* E1 `e2e_evals_le_maxeval`, E2 `e2e_forced_stop` (+ `e2e_forced_iff`), E3 `e2e_returned_pair_partial` /
  `e2e_returned_pair_of_better` / `e2e_returned_pair` (+ the witness `e2e_returned_pair_full_false`),
  E4 `e2e_best_no_better`, E5 `e2e_stopval_strict`; more: `e2e_ret_codes`, `e2e_maxeval_exact`, `e2e_numevals`.
* through `nlopt_optimize` (`eschMk`, the factory `Prob → Alg` with the configuration `nlopt_optimize_` hands to
  `chevolutionarystrategy`): `optimize_esch_core`, `optimize_esch_returned_pair`, `optimize_esch_best_no_better`,
  `optimize_esch_evals_le_maxeval`, `optimize_esch_forced_stop`, `optimize_esch_stopval_strict`.
-/
set_option linter.unusedSimpArgs false
set_option linter.unusedVariables false
namespace Nlopt.E2EEsch
open Nlopt Nlopt.EschDrv Nlopt.EschAlg Nlopt.DrvEsch Nlopt.F64

/-! ## R: refinement -/

/-- R.  A returned run of the ESCH machine against any environment IS a returned run of the control-flow model on the
    events of its trace. -/
theorem esch_refines {σ : Type} (A : Arith) (P : Proposer) (c : Cfg) (E : Env σ) (fuel : Nat) (st st' : σ)
    (r : AlgResult) (tr : List (Query × Answer)) (h : Nlopt.run (mk P c) E fuel st = (some r, st', tr)) :
    (EschDrv.run A c (events tr)).short = false ∧
    (EschDrv.run A c (events tr)).ret = r.ret ∧
    (EschDrv.run A c (events tr)).x = r.x ∧
    (EschDrv.run A c (events tr)).minfMem c = r.minf ∧
    ((EschDrv.run A c (events tr)).nevals : Int) = r.numevals ∧
    (EschDrv.run A c (events tr)).nevals = tr.length ∧
    consumed A c (events tr) = events tr ∧
    (∀ p ∈ tr, p.1.fn = .obj ∧ p.1.wantGrad = false) ∧
    (∀ p, tr.head? = some p → p.1.x = c.x0) := by
  have hJ : J P c (mk P c).init none [] := ⟨by intro p hp; simp at hp, rfl, rfl, rfl⟩
  obtain ⟨R, hfeed, hr, hn, hobj, hhead⟩ := runAlg_refines P c E fuel _ none st [] hJ r st' tr h
  have hrun : EschDrv.run A c (events tr) = R := by rw [run_eq, hfeed]; rfl
  have hcons : consumed A c (events tr) = events tr := by
    unfold consumed; rw [hrun, hn, ← events_length tr, List.take_length]
  rw [hrun, hr]
  exact ⟨feed_done_short hfeed, rfl, rfl, rfl, rfl, hn, hcons, hobj, hhead⟩

theorem mem_events {tr : List (Query × Answer)} {e : EschDrv.Ev} (h : e ∈ events tr) : ∃ p ∈ tr, evOf p = e := by
  simpa [events] using h

theorem evOf_mem_events {tr : List (Query × Answer)} {p : Query × Answer} (h : p ∈ tr) : evOf p ∈ events tr :=
  List.mem_map_of_mem h

/-- `forcedOf` spelled out: the callback called `nlopt_set_force_stop(opt, s)` with `s ≠ 0` during the invocation -/
theorem forcedOf_iff (a : Answer) : forcedOf a = true ↔ ∃ s, a.stop = some s ∧ s ≠ 0 := by
  unfold forcedOf
  cases a.stop with
  | none => simp
  | some s => simp

/-! ## E1: evaluation budget -/

/-- E1.  With `maxeval > 0` the number of callback invocations (all of them objective evaluations, `esch_refines`) is at
    most `maxeval`, and it is the count the algorithm reports. -/
theorem e2e_evals_le_maxeval {σ : Type} (P : Proposer) (c : Cfg) (E : Env σ) (fuel : Nat) (st st' : σ)
    (r : AlgResult) (tr : List (Query × Answer)) (h : Nlopt.run (mk P c) E fuel st = (some r, st', tr))
    (hmax : 0 < c.maxeval) :
    (tr.length : Int) ≤ c.maxeval ∧ r.numevals = tr.length ∧ ∀ p ∈ tr, p.1.fn = .obj ∧ p.1.wantGrad = false := by
  obtain ⟨_, _, _, _, hne, hn, _, hobj, _⟩ := esch_refines arithTriv P c E fuel st st' r tr h
  have := evals_le_maxeval arithTriv c (events tr) hmax
  rw [hn] at this hne
  exact ⟨this, hne.symm, hobj⟩

/-- the count reported is the number of invocations, unconditionally; a returned run made at least one -/
theorem e2e_numevals {σ : Type} (P : Proposer) (c : Cfg) (E : Env σ) (fuel : Nat) (st st' : σ)
    (r : AlgResult) (tr : List (Query × Answer)) (h : Nlopt.run (mk P c) E fuel st = (some r, st', tr)) :
    r.numevals = tr.length ∧ 1 ≤ tr.length := by
  obtain ⟨hs, _, _, _, hne, hn, _, _, _⟩ := esch_refines arithTriv P c E fuel st st' r tr h
  have := nevals_pos arithTriv c (events tr) hs
  rw [hn] at this hne
  exact ⟨hne.symm, this⟩

/-- `MAXEVAL_REACHED` is returned exactly at invocation number `maxeval` -/
theorem e2e_maxeval_exact {σ : Type} (P : Proposer) (c : Cfg) (E : Env σ) (fuel : Nat) (st st' : σ)
    (r : AlgResult) (tr : List (Query × Answer)) (h : Nlopt.run (mk P c) E fuel st = (some r, st', tr))
    (h5 : r.ret = 5) : 0 < c.maxeval ∧ (tr.length : Int) = c.maxeval := by
  obtain ⟨_, hret, _, _, _, hn, _, _, _⟩ := esch_refines arithTriv P c E fuel st st' r tr h
  have := maxeval_exact arithTriv c (events tr) (by rw [hret]; exact h5)
  rw [hn] at this
  exact this

/-- the only result codes: FORCED_STOP, MINF_MAX_REACHED, MAXEVAL_REACHED -/
theorem e2e_ret_codes {σ : Type} (P : Proposer) (c : Cfg) (E : Env σ) (fuel : Nat) (st st' : σ)
    (r : AlgResult) (tr : List (Query × Answer)) (h : Nlopt.run (mk P c) E fuel st = (some r, st', tr)) :
    r.ret = -5 ∨ r.ret = 2 ∨ r.ret = 5 := by
  obtain ⟨hs, hret, _⟩ := esch_refines arithTriv P c E fuel st st' r tr h
  rcases ret_codes arithTriv c (events tr) with ⟨h1, _⟩ | ⟨_, h2⟩
  · rw [hs] at h1; cases h1
  · rw [hret] at h2; exact h2

/-! ## E2: forced stop -/

/-- E2.  An answer that requests a stop (`nlopt_set_force_stop(opt, s)`, `s ≠ 0`, during the invocation) is the LAST
    entry of the trace — no callback is invoked after it — and the result is `FORCED_STOP`.  (Proof: `forced_stop`, T2
    of the driver, applied at that position; the prefix before it has not returned, `prefix_short`.) -/
theorem e2e_forced_stop {σ : Type} (P : Proposer) (c : Cfg) (E : Env σ) (fuel : Nat) (st st' : σ)
    (r : AlgResult) (tr : List (Query × Answer)) (h : Nlopt.run (mk P c) E fuel st = (some r, st', tr))
    (pre post : List (Query × Answer)) (p : Query × Answer) (htr : tr = pre ++ p :: post)
    (hp : forcedOf p.2 = true) : post = [] ∧ r.ret = -5 := by
  subst htr
  obtain ⟨_, hret, _, _, _, hn, _, _, _⟩ := esch_refines arithTriv P c E fuel st st' r _ h
  have hev : events (pre ++ p :: post) = events pre ++ evOf p :: events post := by simp
  have hshort : (EschDrv.run arithTriv c (events pre)).short = true := by
    have := prefix_short arithTriv c (events (pre ++ p :: post)) pre.length (by rw [hn]; simp)
    rw [hev] at this
    simpa [List.take_left' (events_length pre)] using this
  obtain ⟨h1, h2, _⟩ := forced_stop arithTriv c (events pre) (events post) (evOf p) hp hshort
  rw [← hev] at h1 h2
  rw [hn] at h2
  refine ⟨?_, by rw [← hret]; exact h1⟩
  simp only [List.length_append, List.length_cons, events_length] at h2
  exact List.length_eq_zero_iff.mp (by omega)

/-- … and conversely: `FORCED_STOP` is returned iff the last invocation requested the stop. -/
theorem e2e_forced_iff {σ : Type} (P : Proposer) (c : Cfg) (E : Env σ) (fuel : Nat) (st st' : σ)
    (r : AlgResult) (tr : List (Query × Answer)) (h : Nlopt.run (mk P c) E fuel st = (some r, st', tr)) :
    r.ret = -5 ↔ ∃ p, tr.getLast? = some p ∧ forcedOf p.2 = true := by
  obtain ⟨hs, hret, _, _, _, _, hcons, _, _⟩ := esch_refines arithTriv P c E fuel st st' r tr h
  have := forced_iff arithTriv c (events tr)
  rw [hret, hs, hcons] at this
  rw [this]
  simp only [true_and, events, List.getLast?_map]
  constructor
  · rintro ⟨e, he, hf⟩
    cases hl : tr.getLast? with
    | none => rw [hl] at he; simp at he
    | some p => rw [hl] at he; simp at he; subst he; exact ⟨p, rfl, hf⟩
  · rintro ⟨p, hl, hf⟩
    exact ⟨evOf p, by rw [hl]; rfl, hf⟩

/-! ## E3: the returned pair is an evaluated pair of the trace -/

/-- E3, strongest unconditional form (every result code): either the driver never wrote its outputs — `x` is the start
    point, `minf` is the entry value `c.minf0`, and no invocation returned a value below that — or `(x, minf)` is the
    point and the value of one invocation of the trace. -/
theorem e2e_returned_pair_partial {σ : Type} (P : Proposer) (c : Cfg) (E : Env σ) (fuel : Nat) (st st' : σ)
    (r : AlgResult) (tr : List (Query × Answer)) (h : Nlopt.run (mk P c) E fuel st = (some r, st', tr)) :
    (r.x = c.x0 ∧ r.minf = c.minf0 ∧ ∀ p ∈ tr, lt (valOf p.2) c.minf0 = false) ∨
    (∃ p ∈ tr, r.x = p.1.x ∧ r.minf = valOf p.2) := by
  obtain ⟨_, _, hx, hm, _, _, hcons, _, _⟩ := esch_refines arithTriv P c E fuel st st' r tr h
  rcases returned_pair_partial arithTriv c (events tr) with ⟨h1, h2, h3⟩ | ⟨e, he, h1, h2⟩
  · left
    refine ⟨by rw [← hx, h2], by rw [← hm]; simp [Res.minfMem, h1], ?_⟩
    intro p hp
    exact h3 _ (by rw [hcons]; exact evOf_mem_events hp)
  · right
    rw [hcons] at he
    obtain ⟨p, hp, rfl⟩ := mem_events he
    exact ⟨p, hp, by rw [← hx, h1]; rfl, by rw [← hm]; simp [Res.minfMem, h2]; rfl⟩

/-- E3 under the hypothesis the driver theorem needs: some invocation returned a value below the entry value of `*minf`. -/
theorem e2e_returned_pair_of_better {σ : Type} (P : Proposer) (c : Cfg) (E : Env σ) (fuel : Nat) (st st' : σ)
    (r : AlgResult) (tr : List (Query × Answer)) (h : Nlopt.run (mk P c) E fuel st = (some r, st', tr))
    (hb : ∃ p ∈ tr, lt (valOf p.2) c.minf0 = true) :
    ∃ p ∈ tr, p.1.fn = .obj ∧ r.x = p.1.x ∧ r.minf = valOf p.2 := by
  obtain ⟨_, _, _, _, _, _, _, hobj, _⟩ := esch_refines arithTriv P c E fuel st st' r tr h
  rcases e2e_returned_pair_partial P c E fuel st st' r tr h with ⟨_, _, hn⟩ | ⟨p, hp, h1, h2⟩
  · obtain ⟨p, hp, hl⟩ := hb
    rw [hn p hp] at hl; cases hl
  · exact ⟨p, hp, (hobj p hp).1, h1, h2⟩

/-- E3 as the driver is actually called (`*minf = +Inf` on entry; the first evaluated point IS the caller's start point,
    by construction of the machine), when the value at the start point is a number: for EVERY result code (success
    codes `2`, `5` and `FORCED_STOP`), `(x, minf)` is the point and value of one objective invocation of the trace. -/
theorem e2e_returned_pair {σ : Type} (P : Proposer) (c : Cfg) (E : Env σ) (fuel : Nat) (st st' : σ)
    (r : AlgResult) (tr : List (Query × Answer)) (h : Nlopt.run (mk P c) E fuel st = (some r, st', tr))
    (h0 : c.minf0 = posInf) (hf : ∀ p, tr.head? = some p → (valOf p.2).isNaN = false) :
    ∃ p ∈ tr, p.1.fn = .obj ∧ r.x = p.1.x ∧ r.minf = valOf p.2 := by
  obtain ⟨hs, _, hx, hm, _, hn, hcons, hobj, hhead⟩ := esch_refines arithTriv P c E fuel st st' r tr h
  have hpos := nevals_pos arithTriv c (events tr) hs
  rw [hn] at hpos
  cases tr with
  | nil => simp at hpos
  | cons p0 ps =>
    have := returned_pair_mem arithTriv c (evOf p0) (events ps) h0 (hhead p0 rfl) (hf p0 rfl)
    rw [← events_cons, hcons] at this
    obtain ⟨e, he, h1, h2⟩ := this
    obtain ⟨p, hp, rfl⟩ := mem_events he
    exact ⟨p, hp, (hobj p hp).1, by rw [← hx, h1]; rfl, by rw [← hm, h2]; rfl⟩

/-! ## E4: nothing evaluated is better than the result -/

/-- E4 (unconditional: every result code, NaN values allowed): no invocation of the trace returned a value below the
    reported `minf` (IEEE `<`). -/
theorem e2e_best_no_better {σ : Type} (P : Proposer) (c : Cfg) (E : Env σ) (fuel : Nat) (st st' : σ)
    (r : AlgResult) (tr : List (Query × Answer)) (h : Nlopt.run (mk P c) E fuel st = (some r, st', tr)) :
    ∀ p ∈ tr, lt (valOf p.2) r.minf = false := by
  obtain ⟨_, _, _, hm, _, _, hcons, _, _⟩ := esch_refines arithTriv P c E fuel st st' r tr h
  intro p hp
  have := best_no_better arithTriv c (events tr) (evOf p) (by rw [hcons]; exact evOf_mem_events hp)
  rw [hm] at this
  exact this

/-! ## E5: stopval -/

/-- E5.  `MINF_MAX_REACHED` only with `minf` STRICTLY below stopval. -/
theorem e2e_stopval_strict {σ : Type} (P : Proposer) (c : Cfg) (E : Env σ) (fuel : Nat) (st st' : σ)
    (r : AlgResult) (tr : List (Query × Answer)) (h : Nlopt.run (mk P c) E fuel st = (some r, st', tr))
    (h2 : r.ret = 2) : lt r.minf c.stopval = true := by
  obtain ⟨_, hret, _, hm, _⟩ := esch_refines arithTriv P c E fuel st st' r tr h
  have := stopval_strict arithTriv c (events tr) (by rw [hret]; exact h2)
  rw [hm] at this
  exact this

/-! ## non-vacuity of R, E1–E5 and the witness for E3 -/
namespace Ex

/-- a concrete proposer: state = number of proposals made; proposes the points (0.0), (-1.0), (-1.0), … -/
def prop : Proposer :=
  { PS := Nat, init := 0, next := fun k _ _ _ => (k + 1, [if k = 0 then F64.zero else F64.negOne]) }

/-- np = no = 1, at most 3 evaluations, start point (1.0), `*minf = +Inf` on entry, no stopval -/
def cfg : Cfg := { n := 1, np := 1, no := 1, maxeval := 3, x0 := [F64.one] }

/-- the user: f(x) = x₀ (the value IS the coordinate), state = number of calls so far; never requests a stop -/
def env : Env Nat := { call := fun st q => (st + 1, { val := [q.x.headD F64.qnan], grad := none }) }

/-- the same user, but the call number `k` (0-based) does `nlopt_set_force_stop(opt, 3)` -/
def envStop (k : Nat) : Env Nat :=
  { call := fun st q => (st + 1, { val := [q.x.headD F64.qnan], grad := none, stop := if st = k then some 3 else none }) }

/-- a user whose objective returns NaN -/
def envNaN : Env Nat := { call := fun st _ => (st + 1, { val := [F64.qnan], grad := none }) }

/-- R / E1 / E3 / E4: the run returns MAXEVAL_REACHED after exactly 3 invocations at 1.0, 0.0, -1.0; the result is the
    third evaluated pair -/
example : Nlopt.run (mk prop cfg) env 10 0 =
    (some { ret := 5, x := [F64.negOne], minf := F64.negOne, numevals := 3 }, 3,
     [(qOf [F64.one], { val := [F64.one], grad := none }), (qOf [F64.zero], { val := [F64.zero], grad := none }),
      (qOf [F64.negOne], { val := [F64.negOne], grad := none })]) := by decide
/-- hypotheses of E1 and of `e2e_returned_pair` hold for it -/
example : 0 < cfg.maxeval ∧ cfg.minf0 = posInf ∧ (valOf ({ val := [F64.one], grad := none } : Answer)).isNaN = false := by
  decide
/-- out of fuel: 3 steps are not enough for 3 evaluations plus the return -/
example : (Nlopt.run (mk prop cfg) env 3 0).1 = none := by decide

/-- E2: the second invocation requests the stop: FORCED_STOP after exactly 2 invocations (the better point 0.0 of that
    very invocation is recorded) -/
example : (Nlopt.run (mk prop cfg) (envStop 1) 10 0).1 = some { ret := -5, x := [F64.zero], minf := F64.zero, numevals := 2 } ∧
    (Nlopt.run (mk prop cfg) (envStop 1) 10 0).2.2.map (fun p => forcedOf p.2) = [false, true] := by decide

/-- E5: stopval 0.5: the second value 0.0 is below it -/
example : (Nlopt.run (mk prop { cfg with stopval := ⟨0x3FE0000000000000⟩ }) env 10 0).1 =
    some { ret := 2, x := [F64.zero], minf := F64.zero, numevals := 2 } := by decide

end Ex

/-- WITNESS: E3 without a hypothesis on the values is FALSE end to end as well: `maxeval = 1`, an objective that returns
    NaN: the run returns the success code MAXEVAL_REACHED with `minf = +Inf`, a value no invocation of the trace returned
    (bitwise: the only value in the trace is the NaN). -/
theorem e2e_returned_pair_full_false :
    ¬ ∀ (P : Proposer) (c : Cfg) (E : Env Nat) (fuel : Nat) (st st' : Nat) (r : AlgResult) (tr : List (Query × Answer)),
        Nlopt.run (mk P c) E fuel st = (some r, st', tr) → c.minf0 = posInf → r.ret > 0 →
        ∃ p ∈ tr, r.x = p.1.x ∧ r.minf = valOf p.2 := by
  intro h
  have := h Ex.prop { Ex.cfg with maxeval := 1 } Ex.envNaN 10 0 1
    { ret := 5, x := [F64.one], minf := posInf, numevals := 1 }
    [(qOf [F64.one], { val := [F64.qnan], grad := none })] (by decide) rfl (by decide)
  revert this
  decide

/-! ## the per-event flag IS the sticky C flag -/

/-- one step of `lastStop` -/
def stopStep (acc : Int) (p : Query × Answer) : Int := p.2.stop.getD acc

theorem lastStop_eq (tr : List (Query × Answer)) : lastStop tr = tr.foldl stopStep 0 := by
  unfold lastStop
  congr 1
  funext acc p
  unfold stopStep
  cases p.2.stop <;> rfl

theorem foldl_stop_zero (l : List (Query × Answer)) (hl : ∀ q ∈ l, forcedOf q.2 = false) :
    l.foldl stopStep 0 = 0 := by
  induction l with
  | nil => rfl
  | cons q l ih =>
    have hq := hl q (by simp)
    simp only [List.foldl_cons]
    have : stopStep 0 q = 0 := by
      unfold forcedOf at hq
      unfold stopStep
      cases hs : q.2.stop with
      | none => rfl
      | some v => rw [hs] at hq; simpa using hq
    rw [this]
    exact ih (fun q' hq' => hl q' (by simp [hq']))

/-- Fidelity of `forcedOf`.  The C flag `opt->force_stop` is sticky: after the invocations `pre ++ [p]` it holds
    `lastStop (pre ++ [p])` (Wrap.lean: cleared on entry, then the last value a callback set).  On every prefix of the
    trace of a returned run, "the sticky flag is non-zero" (what `nlopt_stop_forced` tests) coincides with the per-event
    flag `forcedOf p.2` the machine uses. -/
theorem e2e_sticky_flag {σ : Type} (P : Proposer) (c : Cfg) (E : Env σ) (fuel : Nat) (st st' : σ)
    (r : AlgResult) (tr : List (Query × Answer)) (h : Nlopt.run (mk P c) E fuel st = (some r, st', tr))
    (pre post : List (Query × Answer)) (p : Query × Answer) (htr : tr = pre ++ p :: post) :
    decide (lastStop (pre ++ [p]) ≠ 0) = forcedOf p.2 := by
  have hpre : ∀ q ∈ pre, forcedOf q.2 = false := by
    intro q hq
    cases hfq : forcedOf q.2 with
    | false => rfl
    | true =>
      exfalso
      obtain ⟨a, b, rfl⟩ := List.append_of_mem hq
      have := (e2e_forced_stop P c E fuel st st' r tr h a (b ++ p :: post) q (by rw [htr]; simp) hfq).1
      simp at this
  have h0 := foldl_stop_zero pre hpre
  rw [lastStop_eq, List.foldl_append, h0]
  simp only [List.foldl_cons, List.foldl_nil]
  unfold forcedOf stopStep
  split
  · next s hs => simp [hs]
  · next hs => simp [hs]

/-! ## Through the wrapper stack of `nlopt_optimize` -/

/-- the configuration `nlopt_optimize_` hands to `chevolutionarystrategy(n, f, f_data, lb, ub, x, minf, &stop,
    (unsigned) POP(0), (unsigned) (POP(0) * 1.5))`, read off the problem the algorithm receives; `*minf = HUGE_VAL` is
    stored by `nlopt_optimize_` before the dispatch -/
def cfgOf (p : Prob) : Cfg :=
  { n := p.v.n, np := p.v.pop, no := p.v.pop * 3 / 2, maxeval := p.v.maxeval, stopval := p.v.stopval,
    x0 := p.x0, minf0 := posInf }

/-- ESCH as an algorithm factory for `Nlopt.optimize`; the proposer may depend on the problem in any way -/
def eschMk (P : Prob → Proposer) : Prob → Alg := fun p => mk (P p) (cfgOf p)

theorem AllRel.exists_right {α β : Type} {R : α → β → Prop} {l₁ : List α} {l₂ : List β} (h : AllRel R l₁ l₂) :
    ∀ a ∈ l₁, ∃ b ∈ l₂, R a b := by
  induction h with
  | nil => intro a ha; simp at ha
  | cons h1 _ ih =>
    intro a ha
    simp only [List.mem_cons] at ha
    rcases ha with rfl | ha
    · exact ⟨_, by simp, h1⟩
    · obtain ⟨b, hb, hr⟩ := ih a ha
      exact ⟨b, by simp [hb], hr⟩

theorem AllRel.exists_left {α β : Type} {R : α → β → Prop} {l₁ : List α} {l₂ : List β} (h : AllRel R l₁ l₂) :
    ∀ b ∈ l₂, ∃ a ∈ l₁, R a b := by
  induction h with
  | nil => intro a ha; simp at ha
  | cons h1 _ ih =>
    intro b hb
    simp only [List.mem_cons] at hb
    rcases hb with rfl | hb
    · exact ⟨_, by simp, h1⟩
    · obtain ⟨a, ha, hr⟩ := ih b hb
      exact ⟨a, by simp [ha], hr⟩

/-- split the left list where the right list is split -/
theorem AllRel.split_right {α β : Type} {R : α → β → Prop} {l₁ : List α} {pre post : List β} {b : β}
    (h : AllRel R l₁ (pre ++ b :: post)) :
    ∃ pre' a post', l₁ = pre' ++ a :: post' ∧ R a b ∧ post'.length = post.length := by
  induction pre generalizing l₁ with
  | nil =>
    cases h with
    | cons h1 h2 => exact ⟨[], _, _, rfl, h1, h2.length_eq⟩
  | cons c cs ih =>
    cases h with
    | cons h1 h2 =>
      obtain ⟨pre', a, post', rfl, hr, hl⟩ := ih h2
      exact ⟨_ :: pre', a, post', rfl, hr, hl⟩

theorem AllRel.head {α β : Type} {R : α → β → Prop} {l₁ : List α} {l₂ : List β} (h : AllRel R l₁ l₂) :
    ∀ a, l₁.head? = some a → ∃ b, l₂.head? = some b ∧ R a b := by
  cases h with
  | nil => intro a ha; simp at ha
  | cons h1 _ => intro a ha; simp at ha; subst ha; exact ⟨_, rfl, h1⟩

theorem innerView_maxeval (v : CoreView) (m e : Bool) : (innerView v m e).maxeval = v.maxeval := by
  unfold innerView; cases m <;> cases e <;> rfl

theorem innerView_stopval (v : CoreView) (m e : Bool) :
    (innerView v m e).stopval = if m then v.stopval.neg else v.stopval := by
  unfold innerView; cases m <;> cases e <;> rfl

/-- what the algorithm gets for a user answer to an OBJECTIVE query: the user's value, negated when maximising -/
theorem valOf_ansOf (L : Layers) (uq : Query) (ua : Answer) (hfn : uq.fn = .obj) :
    (∀ w, ua.val = [w] → valOf (L.ansOf uq ua) = if L.maximize then w.neg else w) ∧
    (L.maximize = false → valOf (L.ansOf uq ua) = valOf ua) := by
  unfold valOf
  rw [ansOf_val]
  constructor
  · intro w hw
    cases hm : L.maximize <;> simp [hfn, hm, hw]
  · intro hm; simp [hm]

theorem forcedOf_congr {a b : Answer} (h : a.stop = b.stop) : forcedOf a = forcedOf b := by
  unfold forcedOf; rw [h]

/-- the entry-by-entry relation of `wrappers_forward_trace` -/
def FwdRel (caps : WrapCaps) (v : CoreView) (a u : Query × Answer) : Prop :=
  u.1.fn = a.1.fn ∧
  u.1.x = (if (layersOf caps v).elim then expand (optV v.lb) (optV v.ub) a.1.x else a.1.x) ∧
  u.1.wantGrad = (if (layersOf caps v).elim && (layersOf caps v).isVec a.1.fn then false else a.1.wantGrad) ∧
  a.2.stop = u.2.stop ∧
  a.2 = (layersOf caps v).ansOf u.1 u.2

/-- Core of the lift (`wrappers_pass_result` + `wrappers_forward_trace` instantiated with `eschMk P`): when
    `nlopt_optimize` got as far as starting the algorithm (`hs`; by `innerRun_started` / `innerRun_eq_algRun` this is
    exactly: reduced dimension ≠ 0 and none of the argument checks of `nlopt_optimize_` fired) and returns `o`, then
    `o.atrace` is the trace of a returned run of the ESCH machine — configured by `cfgOf` on the inner problem — against
    the wrapped user; `o.utrace` corresponds to it entry by entry; code and counter are the machine's; and, when the
    memoization layer is off (ESCH is not in `memoAlgs`), `x` / `opt_f` are the machine's `x` (expanded) / `minf`
    (sign restored). -/
theorem optimize_esch_core {σ : Type} (A : Arith) (caps : WrapCaps) (U : Env σ) (P : Prob → Proposer) (fuel : Nat)
    (v : CoreView) (hl : Bool) (x : List F64) (f0 : F64) (st st' : σ) (o : OptOut)
    (hf : v.f ≠ 0) (he : earlyFixed caps v x = false)
    (hs : (innerRun A caps U (eschMk P) fuel v hl x f0 st).2.2 = true)
    (h : optimize A caps U (eschMk P) fuel v hl x f0 st = (some o, st')) :
    ∃ r es, Nlopt.run (mk (P (innerProb caps v x)) (cfgOf (innerProb caps v x))) (wrappedEnv (layersOf caps v) U) fuel
        ((st, []), ({} : MemoSt)) = (some r, es, o.atrace) ∧
      o.ret = r.ret ∧ o.after.numevals = r.numevals ∧
      o.atrace.length = o.utrace.length ∧ AllRel (FwdRel caps v) o.atrace o.utrace ∧
      ((layersOf caps v).memo = false →
        o.x = (if (layersOf caps v).elim then expand (optV v.lb) (optV v.ub) r.x else r.x) ∧
        o.optf = (if v.maximize then r.minf.neg else r.minf)) := by
  obtain ⟨r, hr, hret, hnum, hat, _, _, hxf⟩ := WrapProps.wrappers_pass_result A caps U (eschMk P) fuel v hl x f0 st st' o hf he hs h
  obtain ⟨hlen, hrel⟩ := WrapProps.wrappers_forward_trace A caps U (eschMk P) fuel v hl x f0 st st' o h
  refine ⟨r, (algRun caps U (eschMk P) fuel v x st).2.1, ?_, hret, hnum, hlen, hrel, hxf⟩
  have : algRun caps U (eschMk P) fuel v x st =
      ((algRun caps U (eschMk P) fuel v x st).1, (algRun caps U (eschMk P) fuel v x st).2.1,
       (algRun caps U (eschMk P) fuel v x st).2.2) := rfl
  rw [hr, ← hat] at this
  exact this

/-- E3 for the user: the result of `nlopt_optimize` running ESCH — minimising OR maximising, with or without fixed
    (eliminated) coordinates — is an evaluated pair of the user's own callback trace: `o.x` is, bit for bit, the point of
    one invocation of the user's objective, and `o.optf` is the value the user returned there.
    Hypotheses: the algorithm was started (`hf`, `he`, `hs`), no memoization layer (`hmemo`), and the user's answer to
    the FIRST invocation (at the start point) is a single number (not NaN).  No hypothesis on the result code: it holds
    for `FORCED_STOP` as well. -/
theorem optimize_esch_returned_pair {σ : Type} (A : Arith) (caps : WrapCaps) (U : Env σ) (P : Prob → Proposer)
    (fuel : Nat) (v : CoreView) (hl : Bool) (x : List F64) (f0 : F64) (st st' : σ) (o : OptOut)
    (hf : v.f ≠ 0) (he : earlyFixed caps v x = false)
    (hs : (innerRun A caps U (eschMk P) fuel v hl x f0 st).2.2 = true)
    (hmemo : (layersOf caps v).memo = false)
    (h : optimize A caps U (eschMk P) fuel v hl x f0 st = (some o, st'))
    (hfirst : ∀ u, o.utrace.head? = some u → ∃ w, u.2.val = [w] ∧ w.isNaN = false) :
    ∃ u ∈ o.utrace, u.1.fn = .obj ∧ o.x = u.1.x ∧
      (v.maximize = false → o.optf = valOf u.2) ∧ (∀ w, u.2.val = [w] → o.optf = w) := by
  obtain ⟨r, es, hrun, _, _, _, hrel, hxf⟩ := optimize_esch_core A caps U P fuel v hl x f0 st st' o hf he hs h
  obtain ⟨hox, hof⟩ := hxf hmemo
  obtain ⟨_, _, _, _, _, _, _, hobj, _⟩ := esch_refines arithTriv _ _ _ fuel _ es r o.atrace hrun
  have hnan : ∀ p, o.atrace.head? = some p → (valOf p.2).isNaN = false := by
    intro p hp
    obtain ⟨u, hu, hfn, _, _, _, hans⟩ := AllRel.head hrel p hp
    obtain ⟨w, hw, hwn⟩ := hfirst u hu
    have hp1 : p ∈ o.atrace := by
      cases hl : o.atrace with
      | nil => rw [hl] at hp; simp at hp
      | cons a as => rw [hl] at hp; simp at hp; subst hp; simp
    have hfn' : u.1.fn = .obj := by rw [hfn]; exact (hobj p hp1).1
    rw [hans, (valOf_ansOf _ u.1 u.2 hfn').1 w hw]
    split
    · rw [isNaN_neg]; exact hwn
    · exact hwn
  obtain ⟨p, hp, hpfn, hpx, hpm⟩ := e2e_returned_pair _ _ _ fuel _ es r o.atrace hrun rfl hnan
  obtain ⟨u, hu, hfn, hux, _, _, hans⟩ := AllRel.exists_right hrel p hp
  have hfn' : u.1.fn = .obj := by rw [hfn]; exact hpfn
  refine ⟨u, hu, hfn', by rw [hox, hux, hpx], ?_, ?_⟩
  · intro hmin
    rw [hof, hmin, hpm, hans]
    exact (valOf_ansOf _ u.1 u.2 hfn').2 hmin
  · intro w hw
    rw [hof, hpm, hans, (valOf_ansOf _ u.1 u.2 hfn').1 w hw, layersOf_maximize]
    cases v.maximize <;> simp [neg_neg']

/-- E4 for the user (every result code, NaN allowed): no invocation of the user's objective returned a value better
    than the reported `opt_f` — below it when minimising, above it when maximising. -/
theorem optimize_esch_best_no_better {σ : Type} (A : Arith) (caps : WrapCaps) (U : Env σ) (P : Prob → Proposer)
    (fuel : Nat) (v : CoreView) (hl : Bool) (x : List F64) (f0 : F64) (st st' : σ) (o : OptOut)
    (hf : v.f ≠ 0) (he : earlyFixed caps v x = false)
    (hs : (innerRun A caps U (eschMk P) fuel v hl x f0 st).2.2 = true)
    (hmemo : (layersOf caps v).memo = false)
    (h : optimize A caps U (eschMk P) fuel v hl x f0 st = (some o, st')) :
    (v.maximize = false → ∀ u ∈ o.utrace, lt (valOf u.2) o.optf = false) ∧
    (v.maximize = true → ∀ u ∈ o.utrace, ∀ w, u.2.val = [w] → lt o.optf w = false) := by
  obtain ⟨r, es, hrun, _, _, _, hrel, hxf⟩ := optimize_esch_core A caps U P fuel v hl x f0 st st' o hf he hs h
  obtain ⟨_, hof⟩ := hxf hmemo
  obtain ⟨_, _, _, _, _, _, _, hobj, _⟩ := esch_refines arithTriv _ _ _ fuel _ es r o.atrace hrun
  have hbest := e2e_best_no_better _ _ _ fuel _ es r o.atrace hrun
  constructor
  · intro hmin u hu
    obtain ⟨p, hp, hfn, _, _, _, hans⟩ := AllRel.exists_left hrel u hu
    have hfn' : u.1.fn = .obj := by rw [hfn]; exact (hobj p hp).1
    have := hbest p hp
    rw [hans, (valOf_ansOf _ u.1 u.2 hfn').2 hmin] at this
    rw [hof, hmin]; exact this
  · intro hmax u hu w hw
    obtain ⟨p, hp, hfn, _, _, _, hans⟩ := AllRel.exists_left hrel u hu
    have hfn' : u.1.fn = .obj := by rw [hfn]; exact (hobj p hp).1
    have := hbest p hp
    rw [hans, (valOf_ansOf _ u.1 u.2 hfn').1 w hw, layersOf_maximize, hmax] at this
    rw [hof, hmax]
    simp only [if_true] at this ⊢
    rw [← lt_neg_neg, neg_neg'] at this
    exact this

/-- E1 for the user: with `maxeval > 0`, `nlopt_optimize` running ESCH invokes the user's callbacks at most `maxeval`
    times, every invocation is an objective evaluation without gradient, and `nlopt_get_numevals` afterwards is exactly
    the number of invocations. -/
theorem optimize_esch_evals_le_maxeval {σ : Type} (A : Arith) (caps : WrapCaps) (U : Env σ) (P : Prob → Proposer)
    (fuel : Nat) (v : CoreView) (hl : Bool) (x : List F64) (f0 : F64) (st st' : σ) (o : OptOut)
    (hf : v.f ≠ 0) (he : earlyFixed caps v x = false)
    (hs : (innerRun A caps U (eschMk P) fuel v hl x f0 st).2.2 = true)
    (h : optimize A caps U (eschMk P) fuel v hl x f0 st = (some o, st')) (hmax : 0 < v.maxeval) :
    (o.utrace.length : Int) ≤ v.maxeval ∧ o.after.numevals = o.utrace.length ∧
    ∀ u ∈ o.utrace, u.1.fn = .obj ∧ u.1.wantGrad = false := by
  obtain ⟨r, es, hrun, _, hnum, hlen, hrel, _⟩ := optimize_esch_core A caps U P fuel v hl x f0 st st' o hf he hs h
  have hm : (cfgOf (innerProb caps v x)).maxeval = v.maxeval := innerView_maxeval v _ _
  obtain ⟨h1, h2, hobj⟩ := e2e_evals_le_maxeval _ _ _ fuel _ es r o.atrace hrun (by rw [hm]; exact hmax)
  rw [hm, hlen] at h1
  refine ⟨h1, by rw [hnum, h2, hlen], ?_⟩
  intro u hu
  obtain ⟨p, hp, hfn, _, hg, _, _⟩ := AllRel.exists_left hrel u hu
  obtain ⟨hp1, hp2⟩ := hobj p hp
  refine ⟨by rw [hfn]; exact hp1, ?_⟩
  rw [hg, hp2]; simp

/-- E2 for the user: an invocation of the user's callback during which `nlopt_set_force_stop(opt, s)`, `s ≠ 0`, was called
    is the LAST invocation `nlopt_optimize` makes, and the call returns `NLOPT_FORCED_STOP`. -/
theorem optimize_esch_forced_stop {σ : Type} (A : Arith) (caps : WrapCaps) (U : Env σ) (P : Prob → Proposer)
    (fuel : Nat) (v : CoreView) (hl : Bool) (x : List F64) (f0 : F64) (st st' : σ) (o : OptOut)
    (hf : v.f ≠ 0) (he : earlyFixed caps v x = false)
    (hs : (innerRun A caps U (eschMk P) fuel v hl x f0 st).2.2 = true)
    (h : optimize A caps U (eschMk P) fuel v hl x f0 st = (some o, st'))
    (pre post : List (Query × Answer)) (u : Query × Answer) (hut : o.utrace = pre ++ u :: post)
    (s : Int) (hstop : u.2.stop = some s) (hs0 : s ≠ 0) : post = [] ∧ o.ret = -5 := by
  obtain ⟨r, es, hrun, hret, _, _, hrel, _⟩ := optimize_esch_core A caps U P fuel v hl x f0 st st' o hf he hs h
  rw [hut] at hrel
  obtain ⟨pre', p, post', hat, ⟨_, _, _, hst, _⟩, hl⟩ := AllRel.split_right hrel
  have hforced : forcedOf p.2 = true := by
    rw [forcedOf_congr hst]; exact (forcedOf_iff u.2).mpr ⟨s, hstop, hs0⟩
  obtain ⟨h1, h2⟩ := e2e_forced_stop _ _ _ fuel _ es r o.atrace hrun pre' post' p hat hforced
  rw [h1] at hl
  exact ⟨List.length_eq_zero_iff.mp hl.symm, by rw [hret]; exact h2⟩

/-- E5 for the user: `NLOPT_STOPVAL_REACHED` (2) only when the reported `opt_f` is STRICTLY beyond stopval
    (the documentation says "at least as good as"). -/
theorem optimize_esch_stopval_strict {σ : Type} (A : Arith) (caps : WrapCaps) (U : Env σ) (P : Prob → Proposer)
    (fuel : Nat) (v : CoreView) (hl : Bool) (x : List F64) (f0 : F64) (st st' : σ) (o : OptOut)
    (hf : v.f ≠ 0) (he : earlyFixed caps v x = false)
    (hs : (innerRun A caps U (eschMk P) fuel v hl x f0 st).2.2 = true)
    (hmemo : (layersOf caps v).memo = false)
    (h : optimize A caps U (eschMk P) fuel v hl x f0 st = (some o, st')) (h2 : o.ret = 2) :
    (if v.maximize then lt v.stopval o.optf else lt o.optf v.stopval) = true := by
  obtain ⟨r, es, hrun, hret, _, _, _, hxf⟩ := optimize_esch_core A caps U P fuel v hl x f0 st st' o hf he hs h
  obtain ⟨_, hof⟩ := hxf hmemo
  have hsv : (cfgOf (innerProb caps v x)).stopval = if v.maximize then v.stopval.neg else v.stopval :=
    innerView_stopval v _ _
  have := e2e_stopval_strict _ _ _ fuel _ es r o.atrace hrun (by rw [← hret]; exact h2)
  rw [hsv] at this
  rw [hof]
  cases hm : v.maximize with
  | false => simpa [hm] using this
  | true =>
    simp only [hm, if_true] at this ⊢
    rw [← lt_neg_neg, neg_neg'] at this
    exact this

/-- "the algorithm was started" (`hs` of the theorems above and of `wrappers_pass_result`), solved for the inputs: the
    (reduced) dimension is not 0 and none of the argument checks of `nlopt_optimize_` fires (start within the box and
    `lb ≤ ub`; finite box — ESCH is in `finiteAlgs` —; local optimizer when needed — not for ESCH). -/
theorem started_iff {σ : Type} (A : Arith) (caps : WrapCaps) (U : Env σ) (mk' : Prob → Alg) (fuel : Nat)
    (v : CoreView) (hl : Bool) (x : List F64) (f0 : F64) (st : σ) :
    (innerRun A caps U mk' fuel v hl x f0 st).2.2 = true ↔
      ((innerView v (layersOf caps v).maximize (layersOf caps v).elim).n ≠ 0 ∧
       rejectInner A caps (innerView v (layersOf caps v).maximize (layersOf caps v).elim) hl (innerX caps v x) = false) := by
  constructor
  · exact innerRun_started A caps U mk' fuel v hl x f0 st
  · rintro ⟨hn, hr⟩
    rw [innerRun_eq_algRun A caps U mk' fuel v hl x f0 st hn hr]

/-- Termination, end to end: with `maxeval > 0` the ESCH machine returns within `maxeval + 1` steps against every
    environment, for every proposer … -/
theorem e2e_returns {σ : Type} (P : Proposer) (c : Cfg) (E : Env σ) (fuel : Nat) (st : σ)
    (hmax : 0 < c.maxeval) (hfuel : c.maxeval + 1 ≤ fuel) : ∃ r, (Nlopt.run (mk P c) E fuel st).1 = some r :=
  run_returns P c E hmax fuel hfuel st

/-- … hence `nlopt_optimize` running ESCH with `maxeval > 0` returns (is not "still running") as soon as the fuel covers
    `maxeval + 1` steps: together with `optimize_esch_evals_le_maxeval`, the call makes at most `maxeval` user
    invocations and then returns, whatever the user's callbacks answer. -/
theorem optimize_esch_returns {σ : Type} (A : Arith) (caps : WrapCaps) (U : Env σ) (P : Prob → Proposer)
    (fuel : Nat) (v : CoreView) (hl : Bool) (x : List F64) (f0 : F64) (st : σ)
    (hmax : 0 < v.maxeval) (hfuel : v.maxeval + 1 ≤ fuel) :
    ∃ o, (optimize A caps U (eschMk P) fuel v hl x f0 st).1 = some o := by
  cases ho : (optimize A caps U (eschMk P) fuel v hl x f0 st).1 with
  | some o => exact ⟨o, rfl⟩
  | none =>
    exfalso
    obtain ⟨_, hnone⟩ := WrapProps.wrappers_pass_running A caps U (eschMk P) fuel v hl x f0 st ho
    have hm : (cfgOf (innerProb caps v x)).maxeval = v.maxeval := innerView_maxeval v _ _
    obtain ⟨r, hr⟩ := run_returns (P (innerProb caps v x)) (cfgOf (innerProb caps v x)) (wrappedEnv (layersOf caps v) U)
      (by rw [hm]; exact hmax) fuel (by rw [hm]; exact hfuel) ((st, []), ({} : MemoSt))
    have : (algRun caps U (eschMk P) fuel v x st).1 = some r := hr
    rw [hnone] at this
    cases this

/-! ## non-vacuity of the lifted statements -/
namespace WEx
open Nlopt.WrapEx

/-- NLOPT_GN_ESCH (42: eliminated, NOT memoized, finite box required), n = 2, coordinate 0 fixed at +0.0, coordinate 1
    in [0, 2], population 1, maxeval 3, stale counter 5 and stale force-stop flag 9 -/
def view (maximize : Bool) : CoreView :=
  { WrapEx.view with algorithm := 42, maximize := maximize, maxeval := 3, pop := 1,
                     stopval := if maximize then F64.posInf else F64.negInf }

/-- a proposer in the REDUCED dimension: (1.0), then (2.0), (2.0), … -/
def prop (_ : Prob) : Proposer :=
  { PS := Nat, init := 0, next := fun k _ _ _ => (k + 1, [if k = 0 then F64.one else two]) }

/-- the user: f(x) = x₁ (the free coordinate); state = number of calls -/
def user : Env Nat := { call := fun st q => (st + 1, { val := [q.x.getD 1 F64.qnan], grad := none }) }

/-- the same, requesting a stop (value 7) during call number 1 (0-based) -/
def userStop : Env Nat :=
  { call := fun st q => (st + 1, { val := [q.x.getD 1 F64.qnan], grad := none, stop := if st = 1 then some 7 else none }) }

/-- the hypotheses of the lifted theorems hold: objective set, start accepted, algorithm started, no memo layer, elimination on -/
example : (view false).f ≠ 0 ∧ earlyFixed caps (view false) x0 = false ∧
    (innerRun (arith F64.zero) caps user (eschMk prop) 10 (view false) false x0 F64.zero 0).2.2 = true ∧
    (layersOf caps (view false)).memo = false ∧ (layersOf caps (view false)).elim = true ∧ 0 < (view false).maxeval := by
  decide
example : (view true).f ≠ 0 ∧ earlyFixed caps (view true) x0 = false ∧
    (innerRun (arith F64.zero) caps user (eschMk prop) 10 (view true) false x0 F64.zero 0).2.2 = true ∧
    (layersOf caps (view true)).memo = false := by decide

/-- minimising: three user invocations at (+0.0, 0.5), (+0.0, 1.0), (+0.0, 2.0) with values 0.5, 1.0, 2.0; the call
    returns MAXEVAL_REACHED with the first evaluated pair, counter 3 -/
example : (optimize (arith F64.zero) caps user (eschMk prop) 10 (view false) false x0 F64.zero 0).1.map
      (fun o => (o.ret, o.x, o.optf, o.after.numevals)) = some (5, [F64.zero, half], half, 3) := by decide
example : (optimize (arith F64.zero) caps user (eschMk prop) 10 (view false) false x0 F64.zero 0).1.map
      (fun o => o.utrace.map (fun u => (u.1.x, u.2.val))) =
    some [([F64.zero, half], [half]), ([F64.zero, F64.one], [F64.one]), ([F64.zero, two], [two])] := by decide
example : (optimize (arith F64.zero) caps user (eschMk prop) 10 (view false) false x0 F64.zero 0).1.map
      (fun o => o.utrace.map (fun u => (u.1.fn, u.1.wantGrad))) =
    some [(.obj, false), (.obj, false), (.obj, false)] := by decide

/-- maximising: the same three invocations; the call returns the LAST pair ((+0.0, 2.0), 2.0) -/
example : (optimize (arith F64.zero) caps user (eschMk prop) 10 (view true) false x0 F64.zero 0).1.map
      (fun o => (o.ret, o.x, o.optf, o.after.numevals)) = some (5, [F64.zero, two], two, 3) := by decide
example : (optimize (arith F64.zero) caps user (eschMk prop) 10 (view true) false x0 F64.zero 0).1.map
      (fun o => o.utrace.map (fun u => (u.1.x, u.2.val))) =
    some [([F64.zero, half], [half]), ([F64.zero, F64.one], [F64.one]), ([F64.zero, two], [two])] := by decide

/-- forced stop during the second invocation: FORCED_STOP, exactly two invocations, the flag reads 7 afterwards -/
example : (optimize (arith F64.zero) caps userStop (eschMk prop) 10 (view false) false x0 F64.zero 0).1.map
      (fun o => (o.ret, o.x, o.optf, o.after.numevals, o.utrace.length, o.after.forceStop)) =
    some (-5, [F64.zero, half], half, 2, 2, 7) := by decide

end WEx

end Nlopt.E2EEsch
