import NloptModel.Lemmas.ApiCopy
import NloptModel.Props.C14
/-!
# C15 — every callback-data pointer handed to an object is released exactly once

Model: `Model/Api.lean`.  User-data pointers are data ids (`Nat`, 0 = NULL).  The state `AS` logs, in program
order, every call of the user's destroy hook (`Ev.mungeD d`) and copy hook (`Ev.mungeC d d'`).

* `Core.held c`     : the ids the object holds (objective, inequality constraints, equality constraints; NULLs included)
* `released evs`    : the arguments of the destroy-hook calls in `evs`, in order
* `copied evs`      : the (argument, result) pairs of the copy-hook calls in `evs`, in order
* `newEvs s s'`     : the events emitted between `s` and `s'` (every operation only appends: `Step.le`)

The per-operation conservation law (`ledger_*`), with the destroy hook installed:
`held(after) ++ released(new events)  ~  held(before) ++ ids handed in by the call`   (`~` = permutation).
All theorems hold for every `Arith`, every state (any allocation / hook oracle), every object.
-/
set_option linter.unusedSimpArgs false
set_option linter.unusedVariables false
namespace Nlopt.C15
open Nlopt

/-! ## operations that do not touch user data -/

theorem ledger_of_nodata {s s' : AS} {c c' : Core} (hs : Step s s' []) (hd : c'.data = c.data) :
    (c'.held ++ released (newEvs s s')).Perm (c.held ++ []) ∧ released (newEvs s s') = [] ∧
    copied (newEvs s s') = [] ∧ c'.mungeD = c.mungeD ∧ c'.mungeC = c.mungeC := by
  rw [hs.released_new, hs.copied_new, Core.held_eq, Core.held_eq, Core.mungeD_eq, Core.mungeC_eq, hd]
  simp [Core.mungeD_eq, Core.mungeC_eq]

/-- `setLowerBounds` calls no hook and the object holds what it held (whatever the call returns) -/
theorem ledger_setLowerBounds (A : Arith) (s : AS) (c : Core) (arg : Option (List F64)) :
    ((setLowerBounds A s c arg).2.1.held ++ released (newEvs s (setLowerBounds A s c arg).1)).Perm (c.held ++ []) ∧
    released (newEvs s (setLowerBounds A s c arg).1) = [] ∧ copied (newEvs s (setLowerBounds A s c arg).1) = [] ∧
    (setLowerBounds A s c arg).2.1.mungeD = c.mungeD ∧ (setLowerBounds A s c arg).2.1.mungeC = c.mungeC :=
  ledger_of_nodata (Step.of_hk (setLowerBounds_le A s s c arg (AS.le_refl s)) (setLowerBounds_hk A s c arg)) (setLowerBounds_data A s c arg)

/-- `setUpperBounds` calls no hook and the object holds what it held (whatever the call returns) -/
theorem ledger_setUpperBounds (A : Arith) (s : AS) (c : Core) (arg : Option (List F64)) :
    ((setUpperBounds A s c arg).2.1.held ++ released (newEvs s (setUpperBounds A s c arg).1)).Perm (c.held ++ []) ∧
    released (newEvs s (setUpperBounds A s c arg).1) = [] ∧ copied (newEvs s (setUpperBounds A s c arg).1) = [] ∧
    (setUpperBounds A s c arg).2.1.mungeD = c.mungeD ∧ (setUpperBounds A s c arg).2.1.mungeC = c.mungeC :=
  ledger_of_nodata (Step.of_hk (setUpperBounds_le A s s c arg (AS.le_refl s)) (setUpperBounds_hk A s c arg)) (setUpperBounds_data A s c arg)

/-- `setLowerBounds1` calls no hook and the object holds what it held (whatever the call returns) -/
theorem ledger_setLowerBounds1 (A : Arith) (s : AS) (c : Core) (x : F64) :
    ((setLowerBounds1 A s c x).2.1.held ++ released (newEvs s (setLowerBounds1 A s c x).1)).Perm (c.held ++ []) ∧
    released (newEvs s (setLowerBounds1 A s c x).1) = [] ∧ copied (newEvs s (setLowerBounds1 A s c x).1) = [] ∧
    (setLowerBounds1 A s c x).2.1.mungeD = c.mungeD ∧ (setLowerBounds1 A s c x).2.1.mungeC = c.mungeC :=
  ledger_of_nodata (Step.of_hk (setLowerBounds1_le A s s c x (AS.le_refl s)) (setLowerBounds1_hk A s c x)) (setLowerBounds1_data A s c x)

/-- `setUpperBounds1` calls no hook and the object holds what it held (whatever the call returns) -/
theorem ledger_setUpperBounds1 (A : Arith) (s : AS) (c : Core) (x : F64) :
    ((setUpperBounds1 A s c x).2.1.held ++ released (newEvs s (setUpperBounds1 A s c x).1)).Perm (c.held ++ []) ∧
    released (newEvs s (setUpperBounds1 A s c x).1) = [] ∧ copied (newEvs s (setUpperBounds1 A s c x).1) = [] ∧
    (setUpperBounds1 A s c x).2.1.mungeD = c.mungeD ∧ (setUpperBounds1 A s c x).2.1.mungeC = c.mungeC :=
  ledger_of_nodata (Step.of_hk (setUpperBounds1_le A s s c x (AS.le_refl s)) (setUpperBounds1_hk A s c x)) (setUpperBounds1_data A s c x)

/-- `setLowerBound` calls no hook and the object holds what it held (whatever the call returns) -/
theorem ledger_setLowerBound (A : Arith) (s : AS) (c : Core) (i : Int) (x : F64) :
    ((setLowerBound A s c i x).2.1.held ++ released (newEvs s (setLowerBound A s c i x).1)).Perm (c.held ++ []) ∧
    released (newEvs s (setLowerBound A s c i x).1) = [] ∧ copied (newEvs s (setLowerBound A s c i x).1) = [] ∧
    (setLowerBound A s c i x).2.1.mungeD = c.mungeD ∧ (setLowerBound A s c i x).2.1.mungeC = c.mungeC :=
  ledger_of_nodata (Step.of_hk (setLowerBound_le A s s c i x (AS.le_refl s)) (setLowerBound_hk A s c i x)) (setLowerBound_data A s c i x)

/-- `setUpperBound` calls no hook and the object holds what it held (whatever the call returns) -/
theorem ledger_setUpperBound (A : Arith) (s : AS) (c : Core) (i : Int) (x : F64) :
    ((setUpperBound A s c i x).2.1.held ++ released (newEvs s (setUpperBound A s c i x).1)).Perm (c.held ++ []) ∧
    released (newEvs s (setUpperBound A s c i x).1) = [] ∧ copied (newEvs s (setUpperBound A s c i x).1) = [] ∧
    (setUpperBound A s c i x).2.1.mungeD = c.mungeD ∧ (setUpperBound A s c i x).2.1.mungeC = c.mungeC :=
  ledger_of_nodata (Step.of_hk (setUpperBound_le A s s c i x (AS.le_refl s)) (setUpperBound_hk A s c i x)) (setUpperBound_data A s c i x)

/-- `setParam` calls no hook and the object holds what it held (whatever the call returns) -/
theorem ledger_setParam  (s : AS) (c : Core) (nm : Option String) (x : F64) :
    ((setParam s c nm x).2.1.held ++ released (newEvs s (setParam s c nm x).1)).Perm (c.held ++ []) ∧
    released (newEvs s (setParam s c nm x).1) = [] ∧ copied (newEvs s (setParam s c nm x).1) = [] ∧
    (setParam s c nm x).2.1.mungeD = c.mungeD ∧ (setParam s c nm x).2.1.mungeC = c.mungeC :=
  ledger_of_nodata (Step.of_hk (setParam_le s s c nm x (AS.le_refl s)) (setParam_hk s c nm x)) (setParam_data s c nm x)

/-- `setXtolAbs` calls no hook and the object holds what it held (whatever the call returns) -/
theorem ledger_setXtolAbs  (s : AS) (c : Core) (arg : Option (List F64)) :
    ((setXtolAbs s c arg).2.1.held ++ released (newEvs s (setXtolAbs s c arg).1)).Perm (c.held ++ []) ∧
    released (newEvs s (setXtolAbs s c arg).1) = [] ∧ copied (newEvs s (setXtolAbs s c arg).1) = [] ∧
    (setXtolAbs s c arg).2.1.mungeD = c.mungeD ∧ (setXtolAbs s c arg).2.1.mungeC = c.mungeC :=
  ledger_of_nodata (Step.of_hk (setXtolAbs_le s s c arg (AS.le_refl s)) (setXtolAbs_hk s c arg)) (setXtolAbs_data s c arg)

/-- `setXtolAbs1` calls no hook and the object holds what it held (whatever the call returns) -/
theorem ledger_setXtolAbs1  (s : AS) (c : Core) (x : F64) :
    ((setXtolAbs1 s c x).2.1.held ++ released (newEvs s (setXtolAbs1 s c x).1)).Perm (c.held ++ []) ∧
    released (newEvs s (setXtolAbs1 s c x).1) = [] ∧ copied (newEvs s (setXtolAbs1 s c x).1) = [] ∧
    (setXtolAbs1 s c x).2.1.mungeD = c.mungeD ∧ (setXtolAbs1 s c x).2.1.mungeC = c.mungeC :=
  ledger_of_nodata (Step.of_hk (setXtolAbs1_le s s c x (AS.le_refl s)) (setXtolAbs1_hk s c x)) (setXtolAbs1_data s c x)

/-- `setXWeights` calls no hook and the object holds what it held (whatever the call returns) -/
theorem ledger_setXWeights  (s : AS) (c : Core) (arg : Option (List F64)) :
    ((setXWeights s c arg).2.1.held ++ released (newEvs s (setXWeights s c arg).1)).Perm (c.held ++ []) ∧
    released (newEvs s (setXWeights s c arg).1) = [] ∧ copied (newEvs s (setXWeights s c arg).1) = [] ∧
    (setXWeights s c arg).2.1.mungeD = c.mungeD ∧ (setXWeights s c arg).2.1.mungeC = c.mungeC :=
  ledger_of_nodata (Step.of_hk (setXWeights_le s s c arg (AS.le_refl s)) (setXWeights_hk s c arg)) (setXWeights_data s c arg)

/-- `setXWeights1` calls no hook and the object holds what it held (whatever the call returns) -/
theorem ledger_setXWeights1  (s : AS) (c : Core) (x : F64) :
    ((setXWeights1 s c x).2.1.held ++ released (newEvs s (setXWeights1 s c x).1)).Perm (c.held ++ []) ∧
    released (newEvs s (setXWeights1 s c x).1) = [] ∧ copied (newEvs s (setXWeights1 s c x).1) = [] ∧
    (setXWeights1 s c x).2.1.mungeD = c.mungeD ∧ (setXWeights1 s c x).2.1.mungeC = c.mungeC :=
  ledger_of_nodata (Step.of_hk (setXWeights1_le s s c x (AS.le_refl s)) (setXWeights1_hk s c x)) (setXWeights1_data s c x)

/-- `setInitialStep1` calls no hook and the object holds what it held (whatever the call returns) -/
theorem ledger_setInitialStep1  (s : AS) (c : Core) (x : F64) :
    ((setInitialStep1 s c x).2.1.held ++ released (newEvs s (setInitialStep1 s c x).1)).Perm (c.held ++ []) ∧
    released (newEvs s (setInitialStep1 s c x).1) = [] ∧ copied (newEvs s (setInitialStep1 s c x).1) = [] ∧
    (setInitialStep1 s c x).2.1.mungeD = c.mungeD ∧ (setInitialStep1 s c x).2.1.mungeC = c.mungeC :=
  ledger_of_nodata (Step.of_hk (setInitialStep1_le s s c x (AS.le_refl s)) (setInitialStep1_hk s c x)) (setInitialStep1_data s c x)

/-- `setInitialStep` calls no hook and the object holds what it held (whatever the call returns) -/
theorem ledger_setInitialStep  (s : AS) (c : Core) (arg : Option (List F64)) :
    ((setInitialStep s c arg).2.1.held ++ released (newEvs s (setInitialStep s c arg).1)).Perm (c.held ++ []) ∧
    released (newEvs s (setInitialStep s c arg).1) = [] ∧ copied (newEvs s (setInitialStep s c arg).1) = [] ∧
    (setInitialStep s c arg).2.1.mungeD = c.mungeD ∧ (setInitialStep s c arg).2.1.mungeC = c.mungeC :=
  ledger_of_nodata (Step.of_hk (setInitialStep_le s s c arg (AS.le_refl s)) (setInitialStep_hk s c arg)) (setInitialStep_data s c arg)

/-- `setDefaultInitialStep` calls no hook and the object holds what it held (whatever the call returns) -/
theorem ledger_setDefaultInitialStep (A : Arith) (s : AS) (c : Core) (x : Option (List F64)) :
    ((setDefaultInitialStep A s c x).2.1.held ++ released (newEvs s (setDefaultInitialStep A s c x).1)).Perm (c.held ++ []) ∧
    released (newEvs s (setDefaultInitialStep A s c x).1) = [] ∧ copied (newEvs s (setDefaultInitialStep A s c x).1) = [] ∧
    (setDefaultInitialStep A s c x).2.1.mungeD = c.mungeD ∧ (setDefaultInitialStep A s c x).2.1.mungeC = c.mungeC :=
  ledger_of_nodata (Step.of_hk (setDefaultInitialStep_le A s s c x (AS.le_refl s)) (setDefaultInitialStep_hk A s c x)) (setDefaultInitialStep_data A s c x)

/-- `getLowerBounds` calls no hook and the object holds what it held (whatever the call returns) -/
theorem ledger_getLowerBounds  (s : AS) (c : Core) (b : Bool) :
    ((getLowerBounds s c b).2.1.held ++ released (newEvs s (getLowerBounds s c b).1)).Perm (c.held ++ []) ∧
    released (newEvs s (getLowerBounds s c b).1) = [] ∧ copied (newEvs s (getLowerBounds s c b).1) = [] ∧
    (getLowerBounds s c b).2.1.mungeD = c.mungeD ∧ (getLowerBounds s c b).2.1.mungeC = c.mungeC :=
  ledger_of_nodata (Step.of_hk (getLowerBounds_le s s c b (AS.le_refl s)) (getLowerBounds_hk s c b)) (getLowerBounds_data s c b)

/-- `getUpperBounds` calls no hook and the object holds what it held (whatever the call returns) -/
theorem ledger_getUpperBounds  (s : AS) (c : Core) (b : Bool) :
    ((getUpperBounds s c b).2.1.held ++ released (newEvs s (getUpperBounds s c b).1)).Perm (c.held ++ []) ∧
    released (newEvs s (getUpperBounds s c b).1) = [] ∧ copied (newEvs s (getUpperBounds s c b).1) = [] ∧
    (getUpperBounds s c b).2.1.mungeD = c.mungeD ∧ (getUpperBounds s c b).2.1.mungeC = c.mungeC :=
  ledger_of_nodata (Step.of_hk (getUpperBounds_le s s c b (AS.le_refl s)) (getUpperBounds_hk s c b)) (getUpperBounds_data s c b)

/-- `getXtolAbs` calls no hook and the object holds what it held (whatever the call returns) -/
theorem ledger_getXtolAbs  (s : AS) (c : Core) (b : Bool) :
    ((getXtolAbs s c b).2.1.held ++ released (newEvs s (getXtolAbs s c b).1)).Perm (c.held ++ []) ∧
    released (newEvs s (getXtolAbs s c b).1) = [] ∧ copied (newEvs s (getXtolAbs s c b).1) = [] ∧
    (getXtolAbs s c b).2.1.mungeD = c.mungeD ∧ (getXtolAbs s c b).2.1.mungeC = c.mungeC :=
  ledger_of_nodata (Step.of_hk (getXtolAbs_le s s c b (AS.le_refl s)) (getXtolAbs_hk s c b)) (getXtolAbs_data s c b)

/-- `getXWeights` calls no hook and the object holds what it held (whatever the call returns) -/
theorem ledger_getXWeights  (s : AS) (c : Core) (b : Bool) :
    ((getXWeights s c b).2.1.held ++ released (newEvs s (getXWeights s c b).1)).Perm (c.held ++ []) ∧
    released (newEvs s (getXWeights s c b).1) = [] ∧ copied (newEvs s (getXWeights s c b).1) = [] ∧
    (getXWeights s c b).2.1.mungeD = c.mungeD ∧ (getXWeights s c b).2.1.mungeC = c.mungeC :=
  ledger_of_nodata (Step.of_hk (getXWeights_le s s c b (AS.le_refl s)) (getXWeights_hk s c b)) (getXWeights_data s c b)

/-- `getInitialStep` calls no hook and the object holds what it held (whatever the call returns) -/
theorem ledger_getInitialStep (A : Arith) (s : AS) (c : Core) (x : Option (List F64)) :
    ((getInitialStep A s c x).2.1.held ++ released (newEvs s (getInitialStep A s c x).1)).Perm (c.held ++ []) ∧
    released (newEvs s (getInitialStep A s c x).1) = [] ∧ copied (newEvs s (getInitialStep A s c x).1) = [] ∧
    (getInitialStep A s c x).2.1.mungeD = c.mungeD ∧ (getInitialStep A s c x).2.1.mungeC = c.mungeC :=
  ledger_of_nodata (Step.of_hk (getInitialStep_le A s s c x (AS.le_refl s)) (getInitialStep_hk A s c x)) (getInitialStep_data A s c x)

/-- the scalar setters (`stopval`, tolerances, `maxeval`, `maxtime`, population, vector storage, force stop) -/
theorem ledger_setScalar (s : AS) (c : Core) (v : ScalarSet) :
    ((setScalar s c (ScalarSet.apply · v)).2.1.held ++ released (newEvs s (setScalar s c (ScalarSet.apply · v)).1)).Perm
      (c.held ++ []) ∧
    released (newEvs s (setScalar s c (ScalarSet.apply · v)).1) = [] ∧
    copied (newEvs s (setScalar s c (ScalarSet.apply · v)).1) = [] ∧
    (setScalar s c (ScalarSet.apply · v)).2.1.mungeD = c.mungeD ∧
    (setScalar s c (ScalarSet.apply · v)).2.1.mungeC = c.mungeC :=
  ledger_of_nodata (Step.of_hk (setScalar_le s s c _ (AS.le_refl s)) (setScalar_hk s c _)) (setScalar_data s c v)

/-! ## operations that take or release user data -/

/-- `nlopt_set_{min,max}_objective`: the old objective data goes to the destroy hook, exactly once and at once,
    and the new one is held in its place -/
theorem setObjective_exact (s : AS) (c : Core) (f pre fdata : Nat) (mx : Bool) :
    released (newEvs s (setObjective s c f pre fdata mx).1) = (if c.mungeD then [c.fdata] else []) ∧
    copied (newEvs s (setObjective s c f pre fdata mx).1) = [] ∧
    (setObjective s c f pre fdata mx).2.1.held = fdata :: c.held.tail ∧
    (setObjective s c f pre fdata mx).2.1.mungeD = c.mungeD ∧
    (setObjective s c f pre fdata mx).2.1.mungeC = c.mungeC := by
  have hs := setObjective_step s c f pre fdata mx
  have hd := setObjective_data s c f pre fdata mx
  refine ⟨hs.released_new, hs.copied_new, ?_, ?_, ?_⟩
  · rw [Core.held_eq, hd]; rfl
  · rw [Core.mungeD_eq, hd]; rfl
  · rw [Core.mungeC_eq, hd]; rfl

theorem ledger_setObjective (s : AS) (c : Core) (f pre fdata : Nat) (mx : Bool) (hD : c.mungeD = true) :
    ((setObjective s c f pre fdata mx).2.1.held ++ released (newEvs s (setObjective s c f pre fdata mx).1)).Perm
      (c.held ++ [fdata]) := by
  obtain ⟨h1, _, h3, _⟩ := setObjective_exact s c f pre fdata mx
  rw [h1, h3, hD]
  simp only [if_true, Core.held, List.tail_cons]
  -- fdata :: (rest ++ [old])  ~  old :: rest ++ [fdata]
  refine List.Perm.trans (List.perm_append_comm (l₁ := fdata :: _) (l₂ := [c.fdata])) ?_
  simp only [List.singleton_append, List.cons_append]
  refine List.Perm.cons _ ?_
  exact (List.perm_append_comm (l₁ := [fdata])).trans (by simp)

/-- `nlopt_remove_inequality_constraints`: every inequality-constraint data pointer goes to the destroy hook,
    in order, at once -/
theorem removeIneq_exact (s : AS) (c : Core) :
    released (newEvs s (removeIneq s c).1) = (if c.mungeD then c.fc.map (·.fdata) else []) ∧
    copied (newEvs s (removeIneq s c).1) = [] ∧
    (removeIneq s c).2.1.held = c.fdata :: c.h.map (·.fdata) ∧
    (removeIneq s c).2.1.mungeD = c.mungeD ∧ (removeIneq s c).2.1.mungeC = c.mungeC := by
  have hs := removeIneq_step s c
  have hd := removeIneq_data s c
  refine ⟨hs.released_new, hs.copied_new, ?_, ?_, ?_⟩
  · rw [Core.held_eq, hd]; rfl
  · rw [Core.mungeD_eq, hd]; rfl
  · rw [Core.mungeC_eq, hd]; rfl

theorem ledger_removeIneq (s : AS) (c : Core) (hD : c.mungeD = true) :
    ((removeIneq s c).2.1.held ++ released (newEvs s (removeIneq s c).1)).Perm (c.held ++ []) := by
  obtain ⟨h1, _, h3, _⟩ := removeIneq_exact s c
  rw [h1, h3, hD]
  simp only [if_true, Core.held, List.append_nil, List.cons_append]
  exact List.Perm.cons _ List.perm_append_comm

theorem removeEq_exact (s : AS) (c : Core) :
    released (newEvs s (removeEq s c).1) = (if c.mungeD then c.h.map (·.fdata) else []) ∧
    copied (newEvs s (removeEq s c).1) = [] ∧
    (removeEq s c).2.1.held = c.fdata :: c.fc.map (·.fdata) ∧
    (removeEq s c).2.1.mungeD = c.mungeD ∧ (removeEq s c).2.1.mungeC = c.mungeC := by
  have hs := removeEq_step s c
  have hd := removeEq_data s c
  refine ⟨hs.released_new, hs.copied_new, ?_, ?_, ?_⟩
  · rw [Core.held_eq, hd]; simp [DataSt.held, Core.data]
  · rw [Core.mungeD_eq, hd]; rfl
  · rw [Core.mungeC_eq, hd]; rfl

theorem ledger_removeEq (s : AS) (c : Core) (hD : c.mungeD = true) :
    ((removeEq s c).2.1.held ++ released (newEvs s (removeEq s c).1)).Perm (c.held ++ []) := by
  obtain ⟨h1, _, h3, _⟩ := removeEq_exact s c
  rw [h1, h3, hD]
  simp [Core.held]

/-- the four public adders (`nlopt_add_[precond_]{in}equality_[m]constraint`), exact form.
    Either the entry is stored (success, non-empty): nothing is released and `fdata` is appended to the
    constraint list; or it is not stored — invalid algorithm, bad arguments, negative tolerance, out of
    memory, or an EMPTY vector constraint (which returns success) — and then `fdata` goes to the destroy
    hook at once. -/
theorem addCon_exact (caps : List Nat) (eq : Bool) (s : AS) (c : Core) (fm : Nat) (isVec : Bool)
    (fid pre fdata : Nat) (tol : Option (List F64)) :
    copied (newEvs s (addCon caps eq s c fm isVec fid pre fdata tol).1) = [] ∧
    (addCon caps eq s c fm isVec fid pre fdata tol).2.1.mungeD = c.mungeD ∧
    (addCon caps eq s c fm isVec fid pre fdata tol).2.1.mungeC = c.mungeC ∧
    (((addCon caps eq s c fm isVec fid pre fdata tol).2.2 = rSUCCESS ∧ ¬ (isVec = true ∧ fm = 0) ∧
        released (newEvs s (addCon caps eq s c fm isVec fid pre fdata tol).1) = [] ∧
        (addCon caps eq s c fm isVec fid pre fdata tol).2.1.held =
          (if eq then c.held ++ [fdata]
           else c.fdata :: (c.fc.map (·.fdata) ++ [fdata] ++ c.h.map (·.fdata)))) ∨
     (((addCon caps eq s c fm isVec fid pre fdata tol).2.2 < 0 ∨
         ((isVec = true ∧ fm = 0) ∧ (addCon caps eq s c fm isVec fid pre fdata tol).2.2 = rSUCCESS)) ∧
        released (newEvs s (addCon caps eq s c fm isVec fid pre fdata tol).1) = (if c.mungeD then [fdata] else []) ∧
        (addCon caps eq s c fm isVec fid pre fdata tol).2.1.held = c.held)) := by
  rcases addCon_cases caps eq s c fm isVec fid pre fdata tol with ⟨h1, h2, h3, h4⟩ | ⟨h1, h3, h4⟩
  · refine ⟨h3.copied_new, ?_, ?_, Or.inl ⟨h1, h2, h3.released_new, ?_⟩⟩
    · rw [Core.mungeD_eq, h4]; cases eq <;> rfl
    · rw [Core.mungeC_eq, h4]; cases eq <;> rfl
    · rw [Core.held_eq, h4]; cases eq <;> simp [DataSt.held, Core.data, Core.held]
  · refine ⟨h3.copied_new, ?_, ?_, Or.inr ⟨h1, h3.released_new, ?_⟩⟩
    · rw [Core.mungeD_eq, h4]; rfl
    · rw [Core.mungeC_eq, h4]; rfl
    · rw [Core.held_eq, h4]; rfl

theorem ledger_addCon (caps : List Nat) (eq : Bool) (s : AS) (c : Core) (fm : Nat) (isVec : Bool)
    (fid pre fdata : Nat) (tol : Option (List F64)) (hD : c.mungeD = true) :
    ((addCon caps eq s c fm isVec fid pre fdata tol).2.1.held ++
        released (newEvs s (addCon caps eq s c fm isVec fid pre fdata tol).1)).Perm (c.held ++ [fdata]) := by
  obtain ⟨_, _, _, h⟩ := addCon_exact caps eq s c fm isVec fid pre fdata tol
  rcases h with ⟨_, _, h3, h4⟩ | ⟨_, h3, h4⟩
  · rw [h3, h4]
    cases eq
    · simp only [Bool.false_eq_true, if_false, List.append_nil, Core.held, List.cons_append]
      refine List.Perm.cons _ ?_
      simp only [List.append_assoc]
      exact List.Perm.append_left _ List.perm_append_comm
    · simp
  · rw [h3, h4, hD]; simp

/-! ## nlopt_destroy -/

/-- **`nlopt_destroy` releases the rest.**  The destroy-hook calls made by `nlopt_destroy` on an object with its
    chain of nested local optimizers are exactly: for every object of the chain (parent first) whose own
    destroy hook is installed, its objective data, then its inequality-constraint data in order, then its
    equality-constraint data in order — NULL pointers included.  No copy-hook call is made. -/
theorem destroy_releases_rest (s : AS) (ch : List Core) :
    released (newEvs s (destroyChain s ch)) =
      ch.flatMap (fun c => if c.mungeD then c.fdata :: (c.fc.map (·.fdata) ++ c.h.map (·.fdata)) else []) ∧
    copied (newEvs s (destroyChain s ch)) = [] :=
  ⟨(destroyChain_step s ch).released_new, (destroyChain_step s ch).copied_new⟩

/-- for an object as the API builds it (hook on the parent, none on the private local optimizers):
    destroying it releases exactly what the parent holds -/
theorem destroy_releases_held (s : AS) (o : Obj) (hD : o.core.mungeD = true)
    (hl : ∀ l ∈ o.locals, l.mungeD = false) :
    released (newEvs s (destroy s o)) = o.core.held := by
  unfold destroy Obj.chain
  rw [(destroyChain_step s _).released_new]
  simp [flatMap_heldIfD_of_false o.locals hl, Core.heldIfD, hD]

/-! ## the copy hook's specification `mungeIds` -/

/-- one hook call per non-NULL pointer, in order -/
theorem mungeIds_calls_fst (k : Nat) (ds : List Nat) :
    (mungeIds k ds).2.map Prod.fst = ds.filter (· ≠ 0) := by
  induction ds generalizing k with
  | nil => rfl
  | cons d ds ih => by_cases hd : d = 0 <;> simp [mungeIds, hd, ih]

/-- the results are the consecutive fresh ids `k, k+1, …`: pairwise distinct and `≥ k` -/
theorem mungeIds_calls_snd (k : Nat) (ds : List Nat) :
    (mungeIds k ds).2.map Prod.snd = List.range' k (ds.filter (· ≠ 0)).length := by
  induction ds generalizing k with
  | nil => rfl
  | cons d ds ih => by_cases hd : d = 0 <;> simp [mungeIds, hd, ih, List.range'_succ]

theorem mungeIds_calls_length (k : Nat) (ds : List Nat) :
    (mungeIds k ds).2.length = (ds.filter (· ≠ 0)).length := by
  have := congrArg List.length (mungeIds_calls_fst k ds)
  simpa using this

/-- position by position (the two lists have the same length, `mungeIds_fst_length`): NULL stays NULL,
    a non-NULL pointer is replaced by the result of *its* hook call -/
theorem mungeIds_positions (k : Nat) (ds : List Nat) :
    ∀ p ∈ ds.zip (mungeIds k ds).1, if p.1 = 0 then p.2 = 0 else p ∈ (mungeIds k ds).2 := by
  induction ds generalizing k with
  | nil => simp [mungeIds]
  | cons d ds ih =>
    intro p hp
    by_cases hd : d = 0
    · simp only [mungeIds, hd, if_true, List.zip_cons_cons, List.mem_cons] at hp ⊢
      rcases hp with rfl | hp
      · simp
      · exact ih k p hp
    · simp only [mungeIds, hd, if_false, List.zip_cons_cons, List.mem_cons] at hp ⊢
      rcases hp with rfl | hp
      · simp [hd]
      · have := ih (k + 1) p hp
        by_cases hp0 : p.1 = 0
        · simpa [hp0] using this
        · simp only [hp0, if_false] at this ⊢
          exact Or.inr this

/-- the non-NULL ids of the copy are exactly the hook's results -/
theorem mungeIds_fresh_eq (k : Nat) (ds : List Nat) (hk : 0 < k) :
    (mungeIds k ds).1.filter (· ≠ 0) = (mungeIds k ds).2.map Prod.snd := by
  induction ds generalizing k with
  | nil => rfl
  | cons d ds ih =>
    by_cases hd : d = 0
    · simpa [mungeIds, hd] using ih k hk
    · have : k ≠ 0 := by omega
      simpa [mungeIds, hd, this] using ih (k + 1) (by omega)

/-! ## nlopt_copy -/

/-- **`nlopt_copy`, whole chain, any hooks.**  If `nlopt_copy` succeeds then it called the destroy hook on
    nothing; its copy-hook calls and the ids held by the copies are those of the specification `chainIds`
    (object by object, parent first: `mungeIds` where the object's copy hook is installed, the very same
    ids where it is not); the hooks themselves are copied; the hook's counter advanced by the number of calls. -/
theorem copy_chain_ledger (s : AS) (ch ch' : List Core) (h : (copyChain s ch).2 = some ch') :
    released (newEvs s (copyChain s ch).1) = [] ∧
    copied (newEvs s (copyChain s ch).1) = (chainIds s.nextData ch).2 ∧
    ch'.map Core.held = (chainIds s.nextData ch).1 ∧
    ch'.map (·.mungeD) = ch.map (·.mungeD) ∧ ch'.map (·.mungeC) = ch.map (·.mungeC) ∧
    (copyChain s ch).1.nextData = s.nextData + (chainIds s.nextData ch).2.length := by
  obtain ⟨hle, hok, _⟩ := copyChain_hooks s ch
  have ok := hok ch' h
  refine ⟨released_new hle [] (by simpa [AS.hk] using ok.rel), copied_new hle _ (by simpa [AS.hk] using ok.cps),
    ok.held, ok.mungeD, ok.mungeC, ok.next⟩

/-- **`nlopt_copy` calls the copy hook once per non-NULL pointer.**  Copy of an object `c` whose nested local
    optimizers (`rest`) have no copy hook — as is the case for every object built through the API.
    If the copy succeeds (in particular: if no hook call and no allocation failed), then

    * with the copy hook installed on `c`: the hook was called exactly on the non-NULL data pointers of `c`
      (objective, inequality constraints, equality constraints), in that order, once each; the results are the
      consecutive fresh ids `nextData, nextData+1, …` (pairwise distinct, none older than the counter);
      position by position the copy holds NULL where `c` holds NULL and otherwise the result of the hook
      call made for that very pointer;
    * without the copy hook: no hook call at all, and the copy holds the same pointers as `c`;
    * in both cases nothing went to the destroy hook, the local optimizers' copies hold what the originals
      hold, and both hooks are inherited. -/
theorem copy_calls_hook_once_per_nonnull (s : AS) (c : Core) (rest : List Core) (nc : Core) (nrest : List Core)
    (h : (copyChain s (c :: rest)).2 = some (nc :: nrest)) (hrest : ∀ l ∈ rest, l.mungeC = false) :
    released (newEvs s (copyChain s (c :: rest)).1) = [] ∧
    (c.mungeC = true →
      (copied (newEvs s (copyChain s (c :: rest)).1)).map Prod.fst = c.held.filter (· ≠ 0) ∧
      (copied (newEvs s (copyChain s (c :: rest)).1)).map Prod.snd =
        List.range' s.nextData (c.held.filter (· ≠ 0)).length ∧
      (copyChain s (c :: rest)).1.nextData = s.nextData + (c.held.filter (· ≠ 0)).length ∧
      nc.held.length = c.held.length ∧
      (∀ p ∈ c.held.zip nc.held,
        if p.1 = 0 then p.2 = 0 else p ∈ copied (newEvs s (copyChain s (c :: rest)).1))) ∧
    (c.mungeC = false → copied (newEvs s (copyChain s (c :: rest)).1) = [] ∧ nc.held = c.held) ∧
    nrest.map Core.held = rest.map Core.held ∧
    nc.mungeD = c.mungeD ∧ nc.mungeC = c.mungeC ∧
    nrest.map (·.mungeD) = rest.map (·.mungeD) ∧ nrest.map (·.mungeC) = rest.map (·.mungeC) := by
  obtain ⟨h1, h2, h3, h4, h5, h6⟩ := copy_chain_ledger s _ _ h
  simp only [chainIds, List.map_cons, List.cons.injEq] at h2 h3 h4 h5 h6
  rw [chainIds_nohook _ rest hrest] at h2 h3 h6
  simp only [List.append_nil, List.length_append, List.length_nil, Nat.add_zero] at h2 h3 h6
  refine ⟨h1, ?_, ?_, h3.2, h4.1, h5.1, h4.2, h5.2⟩
  · intro hm
    simp only [hm, if_true] at h2 h3 h6
    rw [h2, h6, h3.1]
    exact ⟨mungeIds_calls_fst _ _, mungeIds_calls_snd _ _, by rw [mungeIds_calls_length],
      mungeIds_fst_length _ _, mungeIds_positions _ _⟩
  · intro hm
    simp only [hm, Bool.false_eq_true, if_false] at h2 h3
    exact ⟨h2, h3.1⟩

/-- **`copy_oom_leaks_fresh_ids`.**  The failure exit of `nlopt_copy` clears `munge_on_destroy` on the half-built
    copy before destroying it ("better to leak memory than crash", options.c).  Hence: when `nlopt_copy` of an
    object fails (out of memory or a failing copy hook), NOTHING is passed to the destroy hook — every fresh
    pointer the copy hook had already returned for this object (`copied (newEvs …)`) is neither held by any
    object nor released: it is leaked.  (Hypothesis: the nested local optimizers carry no destroy hook, as is
    the case for objects built through the API.)  `copy_oom_leak_witness` below shows that the leak does occur. -/
theorem copy_oom_leaks_fresh_ids (s : AS) (ch : List Core) (h : (copyChain s ch).2 = none)
    (hl : ∀ l ∈ ch.tail, l.mungeD = false) :
    released (newEvs s (copyChain s ch).1) = [] := by
  obtain ⟨hle, _, hf⟩ := copyChain_hooks s ch
  exact released_new hle [] (by simpa [AS.hk] using hf h hl)

/-! ## nlopt_set_local_optimizer -/

theorem setLocalOptimizer_success_inv (A : Arith) (s : AS) (o l : Obj)
    (hr : (setLocalOptimizer A s o (some l)).2.2 = rSUCCESS) :
    l.core.n = o.core.n ∧
    ∃ nl nrest, (copyChain (unsetErrmsg s o.core).1 l.chain).2 = some (nl :: nrest) := by
  unfold setLocalOptimizer at hr
  simp only [] at hr
  by_cases hn : l.core.n ≠ (unsetErrmsg s o.core).2.n
  · rw [if_pos hn] at hr; simp [rINVALID, rSUCCESS] at hr
  · rw [if_neg hn] at hr
    refine ⟨by simpa using hn, ?_⟩
    generalize copyChain (unsetErrmsg s o.core).1 l.chain = r at *
    obtain ⟨s', ch⟩ := r
    cases ch with
    | none => simp [rOOM, rSUCCESS] at hr
    | some ch =>
      cases ch with
      | nil => simp [rOOM, rSUCCESS] at hr
      | cons nl nrest => exact ⟨nl, nrest, rfl⟩

/-- **`set_local_optimizer_balanced`** (C15 "local_optimizer_copy_drops_dup").
    A successful `nlopt_set_local_optimizer(opt, local_opt)` (`local_opt ≠ NULL`, whose own nested local
    optimizers carry no copy hook):

    * `opt` itself holds exactly what it held, with the same hooks;
    * the new private local optimizer keeps NO user data: it holds `[NULL]`, both hooks cleared; the copies of
      `local_opt`'s own nested optimizers hold what the originals hold;
    * the copy-hook calls are those of `nlopt_copy(local_opt)`: `mungeIds` on `local_opt`'s pointers if its copy
      hook is installed, none otherwise;
    * the destroy-hook calls are, in order: those of destroying the OLD local optimizer chain of `opt`, then —
      if `local_opt`'s destroy hook is installed — every pointer `H` held by the fresh copy: inequality
      constraints, equality constraints, objective (`H.tail ++ [H.head]`, NULLs included).

    So with both hooks installed every fresh pointer obtained from the copy hook is passed to the destroy hook
    before the call returns (`set_local_optimizer_fresh_all_released`). -/
theorem set_local_optimizer_balanced (A : Arith) (s : AS) (o l : Obj)
    (hr : (setLocalOptimizer A s o (some l)).2.2 = rSUCCESS) (hloc : ∀ x ∈ l.locals, x.mungeC = false) :
    (setLocalOptimizer A s o (some l)).2.1.core.held = o.core.held ∧
    (setLocalOptimizer A s o (some l)).2.1.core.mungeD = o.core.mungeD ∧
    (setLocalOptimizer A s o (some l)).2.1.core.mungeC = o.core.mungeC ∧
    (∃ nl' nrest, (setLocalOptimizer A s o (some l)).2.1.locals = nl' :: nrest ∧ nl'.held = [0] ∧
      nl'.mungeD = false ∧ nl'.mungeC = false ∧ nrest.map Core.held = l.locals.map Core.held ∧
      nrest.map (·.mungeD) = l.locals.map (·.mungeD) ∧ nrest.map (·.mungeC) = l.locals.map (·.mungeC)) ∧
    copied (newEvs s (setLocalOptimizer A s o (some l)).1) =
      (if l.core.mungeC then (mungeIds s.nextData l.core.held).2 else []) ∧
    released (newEvs s (setLocalOptimizer A s o (some l)).1) =
      o.locals.flatMap Core.heldIfD ++
        (if l.core.mungeD then
          (if l.core.mungeC then (mungeIds s.nextData l.core.held).1 else l.core.held).tail ++
          [(if l.core.mungeC then (mungeIds s.nextData l.core.held).1 else l.core.held).headD 0]
         else []) := by
  obtain ⟨hn, nl, nrest, hc⟩ := setLocalOptimizer_success_inv A s o l hr
  obtain ⟨_, hle, hrel, hcps, _, hdata, nl', hloc', hh, hd, hcc⟩ := setLocalOptimizer_ok A s o l hn nl nrest hc
  obtain ⟨_, cok, _⟩ := copyChain_hooks (unsetErrmsg s o.core).1 l.chain
  have cok := cok _ hc
  have hnd : (unsetErrmsg s o.core).1.nextData = s.nextData := congrArg HookSt.nextData (hk_unsetErrmsg s o.core)
  have hcp0 : (unsetErrmsg s o.core).1.hk.cps = s.hk.cps := congrArg HookSt.cps (hk_unsetErrmsg s o.core)
  have c1 := cok.cps
  have c2 := cok.held
  have c3 := cok.mungeD
  have c4 := cok.mungeC
  simp only [Obj.chain, chainIds, List.map_cons, List.cons.injEq, hnd] at c1 c2 c3 c4 hcps
  rw [chainIds_nohook _ l.locals hloc] at c1 c2
  simp only [List.append_nil] at c1 c2
  refine ⟨?_, ?_, ?_, ⟨nl', nrest, hloc', hh, hd, hcc, c2.2, c3.2, c4.2⟩, ?_, ?_⟩
  · rw [Core.held_eq, hdata]; rfl
  · rw [Core.mungeD_eq, hdata]; rfl
  · rw [Core.mungeC_eq, hdata]; rfl
  · refine copied_new hle _ ?_
    have : ∀ x : AS, x.hk.cps = copied x.evs := fun _ => rfl
    rw [← this, ← this, hcps, c1, hcp0]
  · refine released_new hle _ ?_
    have : ∀ x : AS, x.hk.rel = released x.evs := fun _ => rfl
    rw [← this, ← this, hrel, c3.1, ← c2.1]
    simp [Core.held]

/-- with both hooks installed on `local_opt`: the non-NULL pointers passed to the destroy hook for the fresh copy
    are exactly the pointers the copy hook returned during this very call — nothing obtained is kept, nothing
    is leaked -/
theorem set_local_optimizer_fresh_all_released (A : Arith) (s : AS) (o l : Obj)
    (hr : (setLocalOptimizer A s o (some l)).2.2 = rSUCCESS) (hloc : ∀ x ∈ l.locals, x.mungeC = false)
    (hold : ∀ x ∈ o.locals, x.mungeD = false)
    (hD : l.core.mungeD = true) (hC : l.core.mungeC = true) (hk : 0 < s.nextData) :
    ((released (newEvs s (setLocalOptimizer A s o (some l)).1)).filter (· ≠ 0)).Perm
      ((copied (newEvs s (setLocalOptimizer A s o (some l)).1)).map Prod.snd) := by
  obtain ⟨_, _, _, _, h5, h6⟩ := set_local_optimizer_balanced A s o l hr hloc
  rw [h5, h6, flatMap_heldIfD_of_false _ hold]
  simp only [hD, hC, if_true, List.nil_append]
  rw [← mungeIds_fresh_eq _ _ hk]
  generalize (mungeIds s.nextData l.core.held).1 = H
  cases H with
  | nil => simp
  | cons a H =>
    have : a :: H = [a] ++ H := rfl
    simp only [List.tail_cons, List.headD_cons]
    rw [this, List.filter_append, List.filter_append]
    exact List.perm_append_comm

/-- **Hazard (true of the model, and of the C code).**  If `local_opt` has a destroy hook but NO copy hook,
    `nlopt_copy` duplicates its pointers shallowly and `nlopt_set_local_optimizer` then passes every one of
    `local_opt`'s OWN pointers to the destroy hook — while `local_opt` is still alive and still holds them. -/
theorem set_local_optimizer_shallow_hazard (A : Arith) (s : AS) (o l : Obj)
    (hr : (setLocalOptimizer A s o (some l)).2.2 = rSUCCESS) (hloc : ∀ x ∈ l.locals, x.mungeC = false)
    (hD : l.core.mungeD = true) (hC : l.core.mungeC = false) :
    released (newEvs s (setLocalOptimizer A s o (some l)).1) =
      o.locals.flatMap Core.heldIfD ++ (l.core.held.tail ++ [l.core.fdata]) := by
  obtain ⟨_, _, _, _, _, h6⟩ := set_local_optimizer_balanced A s o l hr hloc
  rw [h6]; simp [hD, hC, Core.held]

/-- the failure paths of `nlopt_set_local_optimizer`: dimension mismatch or a failing `nlopt_copy` — nothing
    is passed to the destroy hook (fresh pointers already obtained by the failing copy are leaked,
    `copy_oom_leaks_fresh_ids`), `opt` keeps its old local optimizer and holds what it held -/
theorem set_local_optimizer_failure (A : Arith) (s : AS) (o l : Obj)
    (hr : (setLocalOptimizer A s o (some l)).2.2 < 0) (hl : ∀ x ∈ l.locals, x.mungeD = false) :
    (setLocalOptimizer A s o (some l)).2.1.core.data = o.core.data ∧
    (setLocalOptimizer A s o (some l)).2.1.locals = o.locals ∧
    (setLocalOptimizer A s o (some l)).1.hk.rel = s.hk.rel := by
  unfold setLocalOptimizer at hr ⊢
  simp only [] at hr ⊢
  by_cases hn : l.core.n ≠ (unsetErrmsg s o.core).2.n
  · rw [if_pos hn]; simp
  · rw [if_neg hn] at hr ⊢
    obtain ⟨_, hs, hf⟩ := copyChain_hooks (unsetErrmsg s o.core).1 l.chain
    generalize copyChain (unsetErrmsg s o.core).1 l.chain = r at *
    obtain ⟨s', ch⟩ := r
    cases ch with
    | none =>
      have := hf rfl (by simpa [Obj.chain] using hl)
      simp only [] at this ⊢
      simp [this]
    | some ch =>
      cases ch with
      | nil =>
        have := (hs [] rfl).rel
        simp only [] at this ⊢
        simp [this]
      | cons nl nrest => simp [rSUCCESS] at hr

/-! ## non-vacuity: concrete small worlds (dummy arithmetic `C14.arithTriv`) -/

open Nlopt.C14 (arithTriv)

/-- a world whose capability tables accept algorithm 28 for both kinds of constraints -/
def w0 : World := { as := { numAlgs := 44 }, caps := { ineqOk := [28], eqOk := [28] } }

/-- object 0: dimension 2, both hooks, objective data 5, one inequality constraint with data 7 -/
def w1 : World := runOps arithTriv w0
  [.create 0 28 2, .setMunge (some 0) true true, .setObjective (some 0) 1 0 5 false,
   .addCon (some 0) false 1 false 2 0 7 none]

example : (w1.get (some 0)).map (·.core.held) = some [5, 7] ∧ released w1.as.evs = [0] := by decide

/-- replacing the objective releases the old pointer at once -/
example : released (runOps arithTriv w1 [.setObjective (some 0) 1 0 6 true]).as.evs = [0, 5] := by decide

/-- a failing adder (negative tolerance) releases the pointer it was given -/
example : (applyOp arithTriv w1 (.addCon (some 0) false 1 false 2 0 9 (some [F64.negOne]))).2.1 = .code (-2) ∧
    released (applyOp arithTriv w1 (.addCon (some 0) false 1 false 2 0 9 (some [F64.negOne]))).1.as.evs = [0, 9] := by
  decide

/-- an empty vector constraint "succeeds" and releases its pointer -/
example : (applyOp arithTriv w1 (.addCon (some 0) true 0 true 3 0 9 none)).2.1 = .code 1 ∧
    released (applyOp arithTriv w1 (.addCon (some 0) true 0 true 3 0 9 none)).1.as.evs = [0, 9] := by decide

/-- copy with hooks: one call per non-NULL pointer, fresh ids, held by the copy; destroying both objects
    releases every pointer exactly once -/
example :
    let w2 := runOps arithTriv w1 [.copy (some 0) 1]
    copied w2.as.evs = [(5, 1000), (7, 1001)] ∧ (w2.get (some 1)).map (·.core.held) = some [1000, 1001] ∧
    released (runOps arithTriv w2 [.destroy (some 0), .destroy (some 1)]).as.evs = [0, 5, 7, 1000, 1001] := by
  decide

/-- **`copy_oom_leak_witness`**: the 2nd allocation of `nlopt_copy` fails (after the objective's pointer went
    through the copy hook): the copy returns NULL, the fresh pointer 1000 was obtained, is held by nobody and is
    never released — not even after every object has been destroyed -/
example :
    let w2 := runOps arithTriv w1 [.oracle 2, .copy (some 0) 1]
    (w2.get (some 1)).isNone = true ∧ copied w2.as.evs = [(5, 1000)] ∧ released w2.as.evs = [0] ∧
    released (runOps arithTriv w2 [.destroy (some 0)]).as.evs = [0, 5, 7] := by
  decide

/-- `nlopt_set_local_optimizer` with both hooks: the fresh pointers 1000, 1001 are released before the call
    returns; the private copy holds only NULL -/
example :
    let w2 := runOps arithTriv w1 [.create 1 28 2, .setMunge (some 1) true true, .setLocal (some 1) (some 0)]
    copied w2.as.evs = [(5, 1000), (7, 1001)] ∧ released w2.as.evs = [0, 1001, 1000] ∧
    (w2.get (some 1)).map (fun o => o.locals.map Core.held) = some [[0]] ∧
    (w2.get (some 0)).map (·.core.held) = some [5, 7] := by
  decide

/-- **hazard witness**: destroy hook without copy hook on `local_opt`: `nlopt_set_local_optimizer` passes
    `local_opt`'s own pointers 7 and 5 to the destroy hook while `local_opt` (slot 0) still holds them; destroying
    `local_opt` afterwards releases them a second time -/
example :
    let w2 := runOps arithTriv w1 [.setMunge (some 0) true false, .create 1 28 2, .setLocal (some 1) (some 0)]
    released w2.as.evs = [0, 7, 5] ∧ (w2.get (some 0)).map (·.core.held) = some [5, 7] ∧
    released (runOps arithTriv w2 [.destroy (some 0)]).as.evs = [0, 7, 5, 5, 7] := by
  decide

end Nlopt.C15
