import NloptModel.Model.MlslDriver
import NloptModel.Lemmas.MlslDrvLemmas
import NloptModel.Lemmas.RBTreeLemmas
/-!
# Theorems about the control flow of `mlsl_minimize` (model: `Nlopt.MlslDrv`, Model/MlslDriver.lean)

All statements are for EVERY configuration, EVERY event list and EVERY `Arith`, by induction over the event list.
"Consumed events" = `evs.take (run A c evs).nevents`.  A local search is FAILED when it returned a negative code (its result
is not inserted into the tree of local minima; `Ev.failed`).

* T1 `nevals_le_maxeval`          maxeval > 0 and every local search respects the budget it was handed → nevals ≤ maxeval
                                  (NO overshoot: every event is followed by a test of the counter); attained
                                  (`nevals_bound_attained`); without the hypothesis unbounded (`nevals_unbounded_without_respect`)
     `budgets_pos`                maxeval > 0 → no local search is ever started with a budget ≤ 0 (= "no limit")
     `budget_eq`                  the budget handed to a local search is `maxeval - nevals` at that moment
* T2 `forced_stop_own`            an own evaluation with the flag raised is the last event consumed, ret = -5 (and `get_minf`
                                  is still executed: `*minf` is written)
     `forced_stop_sub`            a local search that comes back with the flag raised is the last event consumed; ret = -5 if
                                  it returned a code ≥ 0, else the code it returned
     `failed_sub_returns`         any failed local search ends the run with its code and leaves `(x, *minf)` as written at the
                                  top of the current pass of the outer loop
* T3 `returned_pair`              ret > 0 → `(x, *minf)` is the pair of a consumed own evaluation or of a consumed not-failed
                                  local search
     `returned_pair_any`          every run: `*minf` unwritten and `x = x0`, or such a pair
* T4 `best_point`                 no NaN among the consumed values, the run returned through the final `get_minf` (ret > 0, or
                                  the last event is not a failed local search) → no consumed own evaluation and no consumed
                                  not-failed local search has f < *minf
     `best_point_failed_sub_false`  for a run ended by a failed local search (e.g. FORCED_STOP raised inside it) this is
                                  FALSE: `goto done` skips `get_minf`; concrete witness
* T5 `stopval_strict`             (no NaN) ret = 2 → `*minf < stopval` (STRICT `<`: lines 343, 368, 414)
     `stopval_nan_false`          with a NaN sample value: ret = 2 with `*minf = NaN`
* extras: `ret_codes`, `ret_ne_success`, `nevals_eq_costs`, `nsubs_eq`, `short_consumes_all`, `run_prefix`, `invalid_pop`,
  `minf_written`; `insBy_matches_rbtree`: the ordered list of the model IS the in-order sequence of the verified red-black
  tree model (Model/RBTree.lean) after `rb_tree_insert`, for keys without NaN (ties newest first, whatever the shape).
-/
set_option linter.unusedSimpArgs false
set_option linter.unusedVariables false
namespace Nlopt.DrvMlsl
open Nlopt Nlopt.MlslDrv

/-! ## The shape of every run -/

/-- every local search that was handed a positive budget made at most that many evaluations -/
def Resp (subs : List (Int × Nat)) : Prop := ∀ p ∈ subs, p.1 > 0 → (p.2 : Int) ≤ p.1

instance (subs : List (Int × Nat)) : Decidable (Resp subs) := by unfold Resp; infer_instance

/-- the hypothesis of T1, a predicate over the run: `Res.subs` lists (budget handed, evaluations used) of every consumed
    local search -/
def SubsRespectBudget (A : Arith) (c : Cfg) (evs : List Ev) : Prop := Resp (run A c evs).subs

/-- **Shape of every run**: `Nsamples` is invalid and nothing happens; or the events run out (`short`); or the run ends at
    some event `e` which either makes the driver return (`step = .done r s'`) or is not an event the driver could have
    produced (`.bad`: malformed). -/
theorem run_cases (A : Arith) (c : Cfg) (evs : List Ev) :
    (popN c < 1 ∧ run A c evs = (St.init c).res (-2) false false) ∨
    (1 ≤ popN c ∧
      ((∃ s', Master c evs s' ∧ run A c evs = s'.res 0 true false) ∨
       (∃ pre e rest php sp, evs = pre ++ e :: rest ∧ Master c pre sp ∧
         ((∃ r s', step A c php sp e = .done r s' ∧ run A c evs = s'.res r false false) ∨
          (step A c php sp e = .bad ∧ run A c evs = sp.res 0 false true))))) := by
  by_cases hp : popN c < 1
  · exact Or.inl ⟨hp, by simp [run, hp]⟩
  · refine Or.inr ⟨by omega, ?_⟩
    have := go_induct A c (fun done _ s => Master c done s) (fun done ph s e ph' s' h hs => master_step h hs) evs []
      .init (St.init c) (master_start c)
    simp only [List.nil_append] at this
    rcases this with ⟨ph', s', h1, h2⟩ | ⟨pre, e, rest, php, sp, h1, h2, h3⟩
    · exact Or.inl ⟨s', h1, by simp [run, hp, h2]⟩
    · refine Or.inr ⟨pre, e, rest, php, sp, h1, h2, ?_⟩
      rcases h3 with ⟨r, s', h4, h5⟩ | ⟨h4, h5⟩
      · exact Or.inl ⟨r, s', h4, by simp [run, hp, h5]⟩
      · exact Or.inr ⟨h4, by simp [run, hp, h5]⟩

theorem take_pre_succ {pre rest : List Ev} {e : Ev} : (pre ++ e :: rest).take (pre ++ [e]).length = pre ++ [e] := by
  have : pre ++ e :: rest = (pre ++ [e]) ++ rest := by simp
  rw [this, List.take_left']; rfl

/-- the consumed events are `evs.take nevents`; the memory at return satisfies the invariant on them -/
theorem run_final (A : Arith) (c : Cfg) (evs : List Ev) :
    ∃ sf ret short mal, run A c evs = sf.res ret short mal ∧ Core c (evs.take (run A c evs).nevents) sf ∧
      (run A c evs).nevents ≤ evs.length := by
  rcases run_cases A c evs with ⟨_, hr⟩ | ⟨_, ⟨s', hm, hr⟩ | ⟨pre, e, rest, php, sp, hes, hm, ⟨r, s', hst, hr⟩ | ⟨hst, hr⟩⟩⟩
  · refine ⟨St.init c, -2, false, false, hr, ?_, by rw [hr]; simp [St.res, St.init]⟩
    have : (run A c evs).nevents = 0 := by rw [hr]; rfl
    rw [this]; simpa using core_init c
  · have hn : (run A c evs).nevents = evs.length := by rw [hr]; exact hm.1.cnt
    refine ⟨s', 0, true, false, hr, ?_, Nat.le_of_eq hn⟩
    rw [hn, List.take_length]; exact hm.1
  · have hcore := core_done hm hst
    have hn : (run A c evs).nevents = (pre ++ [e]).length := by rw [hr]; exact hcore.cnt
    refine ⟨s', r, false, false, hr, ?_, by rw [hn, hes]; simp⟩
    rw [hn, hes, take_pre_succ]; exact hcore
  · have hn : (run A c evs).nevents = pre.length := by rw [hr]; exact hm.1.cnt
    refine ⟨sp, 0, false, true, hr, ?_, by rw [hn, hes]; simp⟩
    rw [hn, hes, List.take_left' rfl]; exact hm.1

theorem advance_master (A : Arith) (c : Cfg) : ∀ (pre done : List Ev) (ph : Phase) (s : St) (ph' : Phase) (s' : St),
    Master c done s → advance A c ph s pre = some (ph', s') → Master c (done ++ pre) s' := by
  intro pre
  induction pre with
  | nil => intro done ph s ph' s' h ha; simp [advance] at ha; obtain ⟨h1, h2⟩ := ha; subst h1; subst h2; simpa using h
  | cons e es ih =>
    intro done ph s ph' s' h ha
    cases hv : step A c ph s e with
    | done r s1 => simp [advance, hv] at ha
    | bad => simp [advance, hv] at ha
    | cont ph1 s1 =>
      simp only [advance, hv] at ha
      have := ih (done ++ [e]) ph1 s1 ph' s' (master_step h hv) ha
      simpa using this

/-- a `short` run waits in a state that satisfies the invariant, and every longer event list goes on from there -/
theorem short_state (A : Arith) (c : Cfg) (pre : List Ev) (h : (run A c pre).short = true) :
    ∃ ph s, Master c pre s ∧ run A c pre = s.res 0 true false ∧
      ∀ rest, run A c (pre ++ rest) = go A c ph s rest := by
  by_cases hp : popN c < 1
  · simp [run, hp, St.res] at h
  · have h' : (go A c .init (St.init c) pre).short = true := by simpa [run, hp] using h
    obtain ⟨ph', s', h1, h2, h3⟩ := go_short_advance A c pre .init (St.init c) h'
    have := advance_master A c pre [] .init (St.init c) ph' s' (master_start c) h1
    exact ⟨ph', s', by simpa using this, by simp [run, hp, h2], fun rest => by simp [run, hp, h3]⟩

/-! ## T1 — evaluation budget (C03) -/

/-- `*nevals_p` on return = evaluations made by the consumed events (own evaluations count 1, local searches `used`) -/
theorem nevals_eq_costs (A : Arith) (c : Cfg) (evs : List Ev) :
    (run A c evs).nevals = costs (evs.take (run A c evs).nevents) := by
  obtain ⟨sf, ret, sh, mal, hr, hcore, _⟩ := run_final A c evs
  rw [← hcore.nev, hr]; rfl

/-- one entry of `Res.subs` per consumed local search -/
theorem nsubs_eq (A : Arith) (c : Cfg) (evs : List Ev) :
    (run A c evs).subs.length = ((evs.take (run A c evs).nevents).filter fun e => !e.isEval).length := by
  obtain ⟨sf, ret, sh, mal, hr, hcore, _⟩ := run_final A c evs
  rw [← hcore.nsub, hr]; rfl

/-- **T1b.** With `maxeval > 0` no local search is ever started with a budget ≤ 0 (which `nlopt_optimize_limited` would
    read as "no limit"): every event is followed by a test of the counter. -/
theorem budgets_pos (A : Arith) (c : Cfg) (evs : List Ev) (hmax : c.maxeval > 0) :
    ∀ p ∈ (run A c evs).subs, p.1 > 0 := by
  obtain ⟨sf, ret, sh, mal, hr, hcore, _⟩ := run_final A c evs
  rw [hr]; exact hcore.bud hmax

/-- **T1.** With `maxeval > 0`, if every local search makes at most as many evaluations as the budget it was handed, the
    total number of evaluations of the user's objective is at most `maxeval`: no overshoot. -/
theorem nevals_le_maxeval (A : Arith) (c : Cfg) (evs : List Ev) (hmax : c.maxeval > 0)
    (hresp : SubsRespectBudget A c evs) : ((run A c evs).nevals : Int) ≤ c.maxeval := by
  unfold SubsRespectBudget at hresp
  rcases run_cases A c evs with ⟨_, hr⟩ | ⟨_, ⟨s', hm, hr⟩ | ⟨pre, e, rest, php, sp, hes, hm, ⟨r, s', hst, hr⟩ | ⟨hst, hr⟩⟩⟩
  · rw [hr]; simp only [St.res, St.init]; omega
  · rw [hr]; have := lt_of_evals_false hm.2 hmax; simp only [St.res]; omega
  · rw [hr] at hresp ⊢
    simp only [St.res] at hresp ⊢
    have hlt := lt_of_evals_false hm.2 hmax
    rcases step_done_shape hst with ⟨_, x, f, fo, _, _, _, hs'⟩ | ⟨i, x, f, fo, _, _, _, hs'⟩ |
      ⟨j, i, R, ret, x0, x, f, used, fo, p, _, _, _, _, ⟨_, _, hs'⟩ | ⟨_, _, hs'⟩⟩
    · subst hs'; simp only [getMinf_nev, afterInit_nev]; push_cast; omega
    · subst hs'; simp only [getMinf_nev, afterSampleStop_nev]; push_cast; omega
    · subst hs'
      have := hresp (c.maxeval - (sp.nev : Int), used) (by simp) (by simp only []; omega)
      simp only [afterSubFail_nev] at this ⊢
      push_cast; omega
    · subst hs'
      have := hresp (c.maxeval - (sp.nev : Int), used) (by simp) (by simp only []; omega)
      simp only [getMinf_nev, afterSubIns_nev] at this ⊢
      push_cast; omega
  · rw [hr]; have := lt_of_evals_false hm.2 hmax; simp only [St.res]; omega

/-! ## T3 — the returned pair is an evaluated pair (C02) -/

theorem mem_evalPairs {l : List Ev} {q : List F64 × F64} (h : q ∈ evalPairs l) :
    ∃ e ∈ l, e.isEval = true ∧ e.failed = false ∧ e.xv = q.1 ∧ e.fv = q.2 := by
  simp only [evalPairs, List.mem_filterMap] at h
  obtain ⟨e, he, hq⟩ := h
  cases e with
  | eval x f fo => simp [Ev.epair] at hq; subst hq; exact ⟨_, he, rfl, rfl, rfl, rfl⟩
  | sub => simp [Ev.epair] at hq

theorem mem_subPairs {l : List Ev} {q : List F64 × F64} (h : q ∈ subPairs l) :
    ∃ e ∈ l, e.isEval = false ∧ e.failed = false ∧ e.xv = q.1 ∧ e.fv = q.2 := by
  simp only [subPairs, List.mem_filterMap] at h
  obtain ⟨e, he, hq⟩ := h
  cases e with
  | eval => simp [Ev.spair] at hq
  | sub r x0 x f u fo =>
    by_cases hr : r < 0
    · simp [Ev.spair, hr] at hq
    · simp [Ev.spair, hr] at hq; subst hq; exact ⟨_, he, rfl, by simp [Ev.failed, hr], rfl, rfl⟩

/-- the pair of a consumed event that is not a failed local search is in one of the two pair lists -/
theorem pair_mem {l : List Ev} {e : Ev} (he : e ∈ l) (hf : e.failed = false) :
    (e.xv, e.fv) ∈ evalPairs l ∨ (e.xv, e.fv) ∈ subPairs l := by
  cases e with
  | eval x f fo =>
    left; simp only [evalPairs, List.mem_filterMap]; exact ⟨_, he, rfl⟩
  | sub r x0 x f u fo =>
    right; simp only [subPairs, List.mem_filterMap]
    have hr : ¬ r < 0 := by simpa [Ev.failed] using hf
    exact ⟨_, he, by simp [Ev.spair, hr, Ev.xv, Ev.fv]⟩

theorem mem_take_index {l : List Ev} {k : Nat} {e : Ev} (h : e ∈ l.take k) : ∃ i, i < k ∧ l[i]? = some e := by
  obtain ⟨i, hi⟩ := List.getElem?_of_mem h
  have hlt : i < (l.take k).length := by
    rcases Nat.lt_or_ge i (l.take k).length with h | h
    · exact h
    · rw [List.getElem?_eq_none h] at hi; cases hi
  have hlt' : i < k := by simp at hlt; omega
  refine ⟨i, hlt', ?_⟩
  rw [List.getElem?_take] at hi; simpa [hlt'] using hi

/-- **T3, general form.**  On every return (any code, also `short` / malformed): `*minf` was never written and `x` is
    still the caller's `x0`, or `(x, *minf)` is exactly the `(x, f)` of a consumed own evaluation or of a consumed local
    search that did not fail. -/
theorem returned_pair_any (A : Arith) (c : Cfg) (evs : List Ev) :
    ((run A c evs).minf = none ∧ (run A c evs).x = c.x0) ∨
    (∃ i e, i < (run A c evs).nevents ∧ evs[i]? = some e ∧ e.failed = false ∧
      (run A c evs).x = e.xv ∧ (run A c evs).minf = some e.fv) := by
  obtain ⟨sf, ret, sh, mal, hr, hcore, _⟩ := run_final A c evs
  rcases hcore.mem with ⟨h1, h2⟩ | ⟨m, h1, h2⟩
  · left; rw [hr]; exact ⟨h1, h2⟩
  · right
    have : ∃ e ∈ evs.take (run A c evs).nevents, e.failed = false ∧ e.xv = sf.x ∧ e.fv = m := by
      rcases h2 with h2 | h2
      · obtain ⟨e, he, _, h3, h4, h5⟩ := mem_evalPairs h2; exact ⟨e, he, h3, h4, h5⟩
      · obtain ⟨e, he, _, h3, h4, h5⟩ := mem_subPairs h2; exact ⟨e, he, h3, h4, h5⟩
    obtain ⟨e, he, h3, h4, h5⟩ := this
    obtain ⟨i, hi, hie⟩ := mem_take_index he
    refine ⟨i, e, hi, hie, h3, ?_, ?_⟩
    · rw [hr]; exact h4.symm
    · rw [hr]; simp [St.res, h1, h5]

theorem setMin_ne_nil {l : List Pt} {j : Nat} {p : Pt} (h : l[j]? = some p) : setMin l j ≠ [] := by
  cases l with
  | nil => simp at h
  | cons q qs => cases j <;> simp [setMin]

theorem getMinf_some {s : St} (h : s.pts ≠ []) : ∃ m, (getMinf s).minf = some m := by
  cases hp : s.pts with
  | nil => exact absurd hp h
  | cons p ps =>
    rcases getMinf_cons s p ps hp with ⟨h1, _⟩ | ⟨l, ls, _, _, h1, _⟩
    · exact ⟨_, h1⟩
    · exact ⟨_, h1⟩

/-- the memory after an event that makes the driver return through the final `get_minf`: `*minf` is written -/
theorem done_minf_some {A : Arith} {c : Cfg} {ph : Phase} {s : St} {e : Ev} {r : Int} {s' : St}
    (hs : step A c ph s e = .done r s') (hf : r > 0 ∨ e.failed = false) : ∃ m, s'.minf = some m := by
  rcases step_done_shape hs with ⟨_, x, f, fo, _, _, _, hs'⟩ | ⟨i, x, f, fo, _, _, _, hs'⟩ |
    ⟨j, i, R, ret, x0, x, f, used, fo, p, _, he, hp, _, ⟨hr, hrr, hs'⟩ | ⟨_, _, hs'⟩⟩
  · subst hs'; exact getMinf_some (by simp [afterInit, insBy_ne_nil])
  · subst hs'; exact getMinf_some (by simp [afterSampleStop, insBy_ne_nil])
  · exfalso
    rcases hf with hf | hf
    · omega
    · subst he; simp [Ev.failed, hr] at hf
  · subst hs'; exact getMinf_some (by simp [afterSubIns, afterSubFail, setMin_ne_nil hp])

/-- `*minf` is written on every return with a success code -/
theorem minf_written (A : Arith) (c : Cfg) (evs : List Ev) (hret : (run A c evs).ret > 0) :
    ∃ m, (run A c evs).minf = some m := by
  rcases run_cases A c evs with ⟨_, hr⟩ | ⟨_, ⟨s', hm, hr⟩ | ⟨pre, e, rest, php, sp, hes, hm, ⟨r, s', hst, hr⟩ | ⟨hst, hr⟩⟩⟩
  · rw [hr] at hret; simp [St.res] at hret
  · rw [hr] at hret; simp [St.res] at hret
  · rw [hr] at hret ⊢; exact done_minf_some hst (Or.inl hret)
  · rw [hr] at hret; simp [St.res] at hret

/-- **T3.**  If `mlsl_minimize` returns a success code (> 0), then `(x, *minf) = (e.x, e.f)` for a consumed own evaluation
    or a consumed local search that did not fail. -/
theorem returned_pair (A : Arith) (c : Cfg) (evs : List Ev) (hret : (run A c evs).ret > 0) :
    ∃ i e, i < (run A c evs).nevents ∧ evs[i]? = some e ∧ e.failed = false ∧
      (run A c evs).x = e.xv ∧ (run A c evs).minf = some e.fv := by
  rcases returned_pair_any A c evs with ⟨h, _⟩ | h
  · obtain ⟨m, hm⟩ := minf_written A c evs hret
    rw [hm] at h; cases h
  · exact h

/-! ## T4 — the best point (C05) -/

/-- no NaN among the values that get inserted into one of the trees -/
def NoNaN (l : List Ev) : Prop := ∀ e ∈ l, e.failed = false → e.fv.isNaN = false

instance (l : List Ev) : Decidable (NoNaN l) := by unfold NoNaN; infer_instance

/-- `get_minf` on two trees without NaN whose heads are minimal: `*minf` is below nothing in either tree -/
theorem best_getMinf {s : St} (hp : s.pts ≠ [])
    (hnP : ∀ q ∈ PL s, q.2.isNaN = false) (hnL : ∀ q ∈ LL s, q.2.isNaN = false)
    (hmP : HeadMin Prod.snd (PL s)) (hmL : HeadMin Prod.snd (LL s)) :
    ∃ m, (getMinf s).minf = some m ∧ (∀ q ∈ PL s, F64.lt q.2 m = false) ∧ (∀ q ∈ LL s, F64.lt q.2 m = false) := by
  cases hpts : s.pts with
  | nil => exact absurd hpts hp
  | cons p ps =>
    have hPL : PL s = (p.x, p.f) :: ps.map Pt.pair := by simp [PL, hpts, Pt.pair]
    rw [hPL] at hmP hnP
    have hP : ∀ q ∈ (p.x, p.f) :: ps.map Pt.pair, F64.lt q.2 p.f = false := by
      intro q hq
      rcases List.mem_cons.1 hq with h | h
      · subst h; exact F64.lt_irrefl' _
      · exact hmP q h
    rcases getMinf_cons s p ps hpts with ⟨h1, _, h3⟩ | ⟨l, ls, hl, hlt, h1, _⟩
    · refine ⟨p.f, h1, by rw [hPL]; exact hP, ?_⟩
      rcases h3 with h3 | ⟨l, ls, hl, hlt⟩
      · intro q hq; simp [LL, h3] at hq
      · have hLL : LL s = (l.x, l.f) :: ls.map Lm.pair := by simp [LL, hl, Lm.pair]
        rw [hLL] at hmL hnL ⊢
        intro q hq
        rcases List.mem_cons.1 hq with h | h
        · subst h; exact hlt
        · exact not_lt_trans (hnL q hq) (hnL (l.x, l.f) (List.mem_cons_self ..)) (hnP (p.x, p.f) (List.mem_cons_self ..))
            (hmL q h) hlt
    · have hLL : LL s = (l.x, l.f) :: ls.map Lm.pair := by simp [LL, hl, Lm.pair]
      rw [hLL] at hmL ⊢
      refine ⟨l.f, h1, ?_, ?_⟩
      · rw [hPL]; intro q hq; exact not_lt_of_lt_of_not_lt hlt (hP q hq)
      · intro q hq
        rcases List.mem_cons.1 hq with h | h
        · subst h; exact F64.lt_irrefl' _
        · exact hmL q h

/-- the invariant and a non-empty tree of sample points: after `get_minf`, `*minf` is below no consumed pair -/
theorem best_of_core {c : Cfg} {done : List Ev} {s : St} (h : Core c done s) (hp : s.pts ≠ []) (hnn : NoNaN done) :
    ∃ m, (getMinf s).minf = some m ∧ ∀ e ∈ done, e.failed = false → F64.lt e.fv m = false := by
  have hnP : ∀ q ∈ PL s, q.2.isNaN = false := by
    intro q hq
    obtain ⟨e, he, _, h3, _, h5⟩ := mem_evalPairs ((h.pl q).1 hq)
    rw [← h5]; exact hnn e he h3
  have hnL : ∀ q ∈ LL s, q.2.isNaN = false := by
    intro q hq
    obtain ⟨e, he, _, h3, _, h5⟩ := mem_subPairs ((h.ll q).1 hq)
    rw [← h5]; exact hnn e he h3
  obtain ⟨m, h1, h2, h3⟩ := best_getMinf hp hnP hnL (h.hmP hnP) (h.hmL hnL)
  refine ⟨m, h1, ?_⟩
  intro e he hf
  rcases pair_mem he hf with hq | hq
  · exact h2 _ ((h.pl _).2 hq)
  · exact h3 _ ((h.ll _).2 hq)

/-- the event that makes the driver return through the final `get_minf` -/
theorem done_best {A : Arith} {c : Cfg} {done : List Ev} {ph : Phase} {s : St} {e : Ev} {r : Int} {s' : St}
    (h : Master c done s) (hs : step A c ph s e = .done r s') (hf : r > 0 ∨ e.failed = false)
    (hnn : NoNaN (done ++ [e])) :
    ∃ m, s'.minf = some m ∧ ∀ e' ∈ done ++ [e], e'.failed = false → F64.lt e'.fv m = false := by
  rcases step_done_shape hs with ⟨_, x, f, fo, he, _, _, hs'⟩ | ⟨i, x, f, fo, _, he, _, hs'⟩ |
    ⟨j, i, R, ret, x0, x, f, used, fo, p, _, he, hp, _, ⟨hr, hrr, hs'⟩ | ⟨hr, _, hs'⟩⟩
  · subst he; subst hs'
    exact best_of_core (core_afterInit h.1 x f fo) (by simp [afterInit, insBy_ne_nil]) hnn
  · subst he; subst hs'
    exact best_of_core (core_afterSampleStop h.1 x f fo) (by simp [afterSampleStop, insBy_ne_nil]) hnn
  · exfalso
    rcases hf with hf | hf
    · omega
    · subst he; simp [Ev.failed, hr] at hf
  · subst he; subst hs'
    exact best_of_core (core_afterSubIns h j ret x0 x f used fo hr)
      (by simp [afterSubIns, afterSubFail, setMin_ne_nil hp]) hnn

/-- the run returned through the final `get_minf` of `mlsl_minimize` (line 431): it returned, and not by the `goto done`
    that follows a failed local search -/
def ViaGetMinf (A : Arith) (c : Cfg) (evs : List Ev) : Prop :=
  (run A c evs).ret > 0 ∨
  ((run A c evs).ret = -5 ∧ ∃ e, evs[(run A c evs).nevents - 1]? = some e ∧ e.failed = false)

/-- **T4.**  If no consumed value is NaN and the run returned through the final `get_minf` — every success code, and
    FORCED_STOP unless the last event is a failed local search — then no consumed own evaluation and no consumed local
    search that did not fail has a value below `*minf`. -/
theorem best_point (A : Arith) (c : Cfg) (evs : List Ev) (hnn : NoNaN (evs.take (run A c evs).nevents))
    (hv : ViaGetMinf A c evs) :
    ∃ m, (run A c evs).minf = some m ∧
      ∀ e ∈ evs.take (run A c evs).nevents, e.failed = false → F64.lt e.fv m = false := by
  rcases run_cases A c evs with ⟨_, hr⟩ | ⟨_, ⟨s', hm, hr⟩ | ⟨pre, e, rest, php, sp, hes, hm, ⟨r, s', hst, hr⟩ | ⟨hst, hr⟩⟩⟩
  · exfalso; rcases hv with hv | ⟨hv, _⟩ <;> (rw [hr] at hv; simp [St.res] at hv)
  · exfalso; rcases hv with hv | ⟨hv, _⟩ <;> (rw [hr] at hv; simp [St.res] at hv)
  · have hcore := core_done hm hst
    have hn : (run A c evs).nevents = (pre ++ [e]).length := by rw [hr]; exact hcore.cnt
    rw [hn, hes, take_pre_succ] at hnn
    have hf : r > 0 ∨ e.failed = false := by
      rcases hv with hv | ⟨_, e', he', hf'⟩
      · left; rw [hr] at hv; exact hv
      · right
        rw [hn, hes] at he'
        simp at he'
        rw [he']; exact hf'
    obtain ⟨m, h1, h2⟩ := done_best hm hst hf hnn
    refine ⟨m, by rw [hr]; exact h1, ?_⟩
    rw [hn, hes, take_pre_succ]; exact h2
  · exfalso; rcases hv with hv | ⟨hv, _⟩ <;> (rw [hr] at hv; simp [St.res] at hv)

/-! ## T5 — stopval (C02) -/

/-- **T5.**  (No consumed value is NaN.)  `ret = 2` (NLOPT_MINF_MAX_REACHED / STOPVAL_REACHED) → `*minf < stopval`, STRICT
    `<` (mlsl.c lines 343 / 368: `p->f < stop->minf_max`, line 414: `*lm < stop->minf_max`); the value that triggered the
    test is the `f` of the last consumed event. -/
theorem stopval_strict (A : Arith) (c : Cfg) (evs : List Ev) (hnn : NoNaN (evs.take (run A c evs).nevents))
    (hret : (run A c evs).ret = 2) :
    ∃ m, (run A c evs).minf = some m ∧ F64.lt m c.stopval = true ∧
      ∃ e, evs[(run A c evs).nevents - 1]? = some e ∧ F64.lt e.fv c.stopval = true ∧ F64.lt e.fv m = false := by
  rcases run_cases A c evs with ⟨_, hr⟩ | ⟨_, ⟨s', hm, hr⟩ | ⟨pre, e, rest, php, sp, hes, hm, ⟨r, s', hst, hr⟩ | ⟨hst, hr⟩⟩⟩
  · rw [hr] at hret; simp [St.res] at hret
  · rw [hr] at hret; simp [St.res] at hret
  · have hcore := core_done hm hst
    have hn : (run A c evs).nevents = (pre ++ [e]).length := by rw [hr]; exact hcore.cnt
    rw [hn, hes, take_pre_succ] at hnn
    have hr2 : r = 2 := by rw [hr] at hret; exact hret
    subst hr2
    obtain ⟨m, h1, h2⟩ := done_best hm hst (Or.inl (by omega)) hnn
    -- the last event triggered the test
    have htrig : e.failed = false ∧ F64.lt e.fv c.stopval = true := by
      rcases step_done_shape hst with ⟨_, x, f, fo, he, _, hso, _⟩ | ⟨i, x, f, fo, _, he, hso, _⟩ |
        ⟨j, i, R, ret, x0, x, f, used, fo, p, _, he, _, _, ⟨hr', hrr, _⟩ | ⟨hr', hso, _⟩⟩
      · subst he
        rcases stopOwn_some hso with ⟨_, h⟩ | ⟨_, _, h⟩ | ⟨_, _, h, _⟩
        · omega
        · omega
        · exact ⟨rfl, h⟩
      · subst he
        rcases stopOwn_some hso with ⟨_, h⟩ | ⟨_, _, h⟩ | ⟨_, _, h, _⟩
        · omega
        · omega
        · exact ⟨rfl, h⟩
      · omega
      · subst he
        rcases stopSub_some hso with ⟨_, h⟩ | ⟨_, h, _⟩ | ⟨_, _, _, h⟩
        · omega
        · exact ⟨by simp [Ev.failed, hr'], h⟩
        · omega
    have hle := h2 e (by simp) htrig.1
    -- `m` is itself a consumed value, hence not NaN
    have hmn : m.isNaN = false := by
      rcases hcore.mem with ⟨h3, _⟩ | ⟨m', h3, h4⟩
      · rw [h1] at h3; cases h3
      · rw [h1] at h3; cases h3
        rcases h4 with h4 | h4
        · obtain ⟨e', he', _, h5, _, h6⟩ := mem_evalPairs h4
          have h6' : e'.fv = m := h6
          rw [← h6']; exact hnn e' he' h5
        · obtain ⟨e', he', _, h5, _, h6⟩ := mem_subPairs h4
          have h6' : e'.fv = m := h6
          rw [← h6']; exact hnn e' he' h5
    refine ⟨m, by rw [hr]; exact h1, lt_of_not_lt_of_lt hmn hle htrig.2, e, ?_, htrig.2, hle⟩
    rw [hn, hes]; simp
  · rw [hr] at hret; simp [St.res] at hret

/-! ## T2 — forced stop (C04) -/

/-- **T2, own evaluations.**  If the run has not returned on `pre` and the flag is raised during the own evaluation that
    follows, the run ends there with FORCED_STOP: exactly one more evaluation is counted, no further event is consumed
    (the final `get_minf` is still executed, so `*minf` is written). -/
theorem forced_stop_own (A : Arith) (c : Cfg) (pre : List Ev) (x : List F64) (f : F64) (rest : List Ev)
    (hshort : (run A c pre).short = true)
    (hnm : (run A c (pre ++ Ev.eval x f true :: rest)).malformed = false) :
    (run A c (pre ++ Ev.eval x f true :: rest)).ret = -5 ∧
    (run A c (pre ++ Ev.eval x f true :: rest)).nevents = pre.length + 1 ∧
    (run A c (pre ++ Ev.eval x f true :: rest)).short = false ∧
    (run A c (pre ++ Ev.eval x f true :: rest)).nevals = (run A c pre).nevals + 1 ∧
    ∃ m, (run A c (pre ++ Ev.eval x f true :: rest)).minf = some m := by
  obtain ⟨ph, s, hm, hr, hgo⟩ := short_state A c pre hshort
  have hcnt : s.cnt = pre.length := hm.1.cnt
  rw [hgo (Ev.eval x f true :: rest)] at hnm ⊢
  rw [hr]
  cases hv : step A c ph s (Ev.eval x f true) with
  | bad => simp [go, hv, St.res] at hnm
  | cont ph' s' =>
    exfalso
    rcases step_cont_shape hv with ⟨_, x', f', fo', he, _, hso, _⟩ | ⟨i, x', f', fo', _, he, hso, _⟩ |
      ⟨j, i, R, ret, x0, x', f', used, fo', p, _, he, _⟩
    · cases he; have := (stopOwn_none hso).1; cases this
    · cases he; have := (stopOwn_none hso).1; cases this
    · cases he
  | done r s' =>
    simp only [go, hv, St.res]
    have hms := done_minf_some hv (Or.inr rfl)
    rcases step_done_shape hv with ⟨_, x', f', fo', he, _, hso, hs'⟩ | ⟨i, x', f', fo', _, he, hso, hs'⟩ |
      ⟨j, i, R, ret, x0, x', f', used, fo', p, _, he, _⟩
    · cases he
      rcases stopOwn_some hso with ⟨_, h⟩ | ⟨h, _⟩ | ⟨h, _⟩
      · subst hs'; exact ⟨h, by simp [hcnt], trivial, by simp, hms⟩
      · cases h
      · cases h
    · cases he
      rcases stopOwn_some hso with ⟨_, h⟩ | ⟨h, _⟩ | ⟨h, _⟩
      · subst hs'; exact ⟨h, by simp [hcnt], trivial, by simp, hms⟩
      · cases h
      · cases h
    · cases he

/-- **T2, local searches.**  If the run has not returned on `pre` and the local search that follows comes back with the
    flag raised, the run ends there: no further event is consumed; the code is FORCED_STOP when the local search returned a
    code ≥ 0, otherwise the (negative) code of the local search — which is FORCED_STOP for every local optimizer that
    honours the flag. -/
theorem forced_stop_sub (A : Arith) (c : Cfg) (pre : List Ev) (ret : Int) (x0 x : List F64) (f : F64) (u : Nat)
    (rest : List Ev) (hshort : (run A c pre).short = true)
    (hnm : (run A c (pre ++ Ev.sub ret x0 x f u true :: rest)).malformed = false) :
    (run A c (pre ++ Ev.sub ret x0 x f u true :: rest)).ret = (if ret < 0 then ret else -5) ∧
    (run A c (pre ++ Ev.sub ret x0 x f u true :: rest)).nevents = pre.length + 1 ∧
    (run A c (pre ++ Ev.sub ret x0 x f u true :: rest)).short = false ∧
    (run A c (pre ++ Ev.sub ret x0 x f u true :: rest)).nevals = (run A c pre).nevals + u := by
  obtain ⟨ph, s, hm, hr, hgo⟩ := short_state A c pre hshort
  have hcnt : s.cnt = pre.length := hm.1.cnt
  rw [hgo (Ev.sub ret x0 x f u true :: rest)] at hnm ⊢
  rw [hr]
  cases hv : step A c ph s (Ev.sub ret x0 x f u true) with
  | bad => simp [go, hv, St.res] at hnm
  | cont ph' s' =>
    exfalso
    rcases step_cont_shape hv with ⟨_, x', f', fo', he, _⟩ | ⟨i, x', f', fo', _, he, _⟩ |
      ⟨j, i, R, ret', x0', x', f', used, fo', p, _, he, _, _, _, hso, _⟩
    · cases he
    · cases he
    · cases he; have := (stopSub_none hso).1; cases this
  | done r s' =>
    simp only [go, hv, St.res]
    rcases step_done_shape hv with ⟨_, x', f', fo', he, _⟩ | ⟨i, x', f', fo', _, he, _⟩ |
      ⟨j, i, R, ret', x0', x', f', used, fo', p, _, he, _, _, ⟨hr', hrr, hs'⟩ | ⟨hr', hso, hs'⟩⟩
    · cases he
    · cases he
    · cases he; subst hs'
      exact ⟨by simp [hr', hrr], by simp [hcnt], trivial, by simp⟩
    · cases he; subst hs'
      rcases stopSub_some hso with ⟨_, h⟩ | ⟨h, _⟩ | ⟨h, _⟩
      · exact ⟨by simp [hr', h], by simp [hcnt], trivial, by simp⟩
      · cases h
      · cases h

/-- **A failed local search ends the run** (flag or not): the code of the local search is returned, no further event is
    consumed, and `(x, *minf)` are left as the `get_minf` at the top of the current pass of the outer loop wrote them
    (`goto done` at line 409 skips the final `get_minf`). -/
theorem failed_sub_returns (A : Arith) (c : Cfg) (pre : List Ev) (ret : Int) (x0 x : List F64) (f : F64) (u : Nat)
    (fo : Bool) (rest : List Ev) (hshort : (run A c pre).short = true) (hret : ret < 0)
    (hnm : (run A c (pre ++ Ev.sub ret x0 x f u fo :: rest)).malformed = false) :
    (run A c (pre ++ Ev.sub ret x0 x f u fo :: rest)).ret = ret ∧
    (run A c (pre ++ Ev.sub ret x0 x f u fo :: rest)).nevents = pre.length + 1 ∧
    (run A c (pre ++ Ev.sub ret x0 x f u fo :: rest)).short = false ∧
    (run A c (pre ++ Ev.sub ret x0 x f u fo :: rest)).nevals = (run A c pre).nevals + u ∧
    (run A c (pre ++ Ev.sub ret x0 x f u fo :: rest)).x = (run A c pre).x ∧
    (run A c (pre ++ Ev.sub ret x0 x f u fo :: rest)).minf = (run A c pre).minf := by
  obtain ⟨ph, s, hm, hr, hgo⟩ := short_state A c pre hshort
  have hcnt : s.cnt = pre.length := hm.1.cnt
  rw [hgo (Ev.sub ret x0 x f u fo :: rest)] at hnm ⊢
  rw [hr]
  cases hv : step A c ph s (Ev.sub ret x0 x f u fo) with
  | bad => simp [go, hv, St.res] at hnm
  | cont ph' s' =>
    exfalso
    rcases step_cont_shape hv with ⟨_, x', f', fo', he, _⟩ | ⟨i, x', f', fo', _, he, _⟩ |
      ⟨j, i, R, ret', x0', x', f', used, fo', p, _, he, _, _, hnr, _⟩
    · cases he
    · cases he
    · cases he; exact hnr hret
  | done r s' =>
    simp only [go, hv, St.res]
    rcases step_done_shape hv with ⟨_, x', f', fo', he, _⟩ | ⟨i, x', f', fo', _, he, _⟩ |
      ⟨j, i, R, ret', x0', x', f', used, fo', p, _, he, _, _, ⟨hr', hrr, hs'⟩ | ⟨hr', hso, hs'⟩⟩
    · cases he
    · cases he
    · cases he; subst hs'
      exact ⟨hrr, by simp [hcnt], trivial, by simp, rfl, rfl⟩
    · cases he; exact absurd hret hr'

/-! ## Further facts -/

/-- the result codes `mlsl_minimize` can return (0 is the placeholder of a `short` or malformed run): INVALID_ARGS for an
    invalid `Nsamples` (nothing evaluated), FORCED_STOP, MAXEVAL_REACHED, STOPVAL_REACHED, or the negative code with which
    the last consumed event, a local search, failed -/
theorem ret_codes (A : Arith) (c : Cfg) (evs : List Ev) :
    ((run A c evs).ret = -2 ∧ popN c < 1 ∧ (run A c evs).nevents = 0) ∨
    (run A c evs).ret = -5 ∨ (run A c evs).ret = 5 ∨ (run A c evs).ret = 2 ∨
    ((run A c evs).ret = 0 ∧ ((run A c evs).short = true ∨ (run A c evs).malformed = true)) ∨
    ((run A c evs).ret < 0 ∧ ∃ x0 x f u fo,
      evs[(run A c evs).nevents - 1]? = some (Ev.sub (run A c evs).ret x0 x f u fo)) := by
  rcases run_cases A c evs with ⟨hp, hr⟩ | ⟨_, ⟨s', hm, hr⟩ | ⟨pre, e, rest, php, sp, hes, hm, ⟨r, s', hst, hr⟩ | ⟨hst, hr⟩⟩⟩
  · rw [hr]; exact Or.inl ⟨rfl, hp, rfl⟩
  · rw [hr]; simp [St.res]
  · have hcore := core_done hm hst
    have hn : (run A c evs).nevents = (pre ++ [e]).length := by rw [hr]; exact hcore.cnt
    rw [hn]; rw [hr]; simp only [St.res]
    rcases step_done_shape hst with ⟨_, x, f, fo, _, _, hso, _⟩ | ⟨i, x, f, fo, _, _, hso, _⟩ |
      ⟨j, i, R, ret, x0, x, f, used, fo, p, _, he, _, _, ⟨hr', hrr, _⟩ | ⟨_, hso, _⟩⟩
    · rcases stopOwn_some hso with ⟨_, h⟩ | ⟨_, _, h⟩ | ⟨_, _, _, h⟩ <;> simp [h]
    · rcases stopOwn_some hso with ⟨_, h⟩ | ⟨_, _, h⟩ | ⟨_, _, _, h⟩ <;> simp [h]
    · subst he; subst hrr
      refine Or.inr (Or.inr (Or.inr (Or.inr (Or.inr ⟨hr', x0, x, f, used, fo, ?_⟩))))
      simp [hes]
    · rcases stopSub_some hso with ⟨_, h⟩ | ⟨_, _, h⟩ | ⟨_, _, _, h⟩ <;> simp [h]
  · rw [hr]; simp [St.res]

/-- NLOPT_SUCCESS (1) is never returned: the outer loop only ends with another code -/
theorem ret_ne_success (A : Arith) (c : Cfg) (evs : List Ev) : (run A c evs).ret ≠ 1 := by
  rcases ret_codes A c evs with ⟨h, _⟩ | h | h | h | ⟨h, _⟩ | ⟨h, _⟩ <;> omega

/-- `Nsamples < 0` (or anything that makes `d.N < 1`): INVALID_ARGS before anything is evaluated or written -/
theorem invalid_pop (A : Arith) (c : Cfg) (evs : List Ev) (h : popN c < 1) :
    run A c evs = ⟨-2, 0, 0, c.x0, none, false, false, []⟩ := by
  simp [run, h, St.res, St.init]

/-- a `short` run consumed every event -/
theorem short_consumes_all (A : Arith) (c : Cfg) (evs : List Ev) (h : (run A c evs).short = true) :
    (run A c evs).nevents = evs.length ∧ (run A c evs).malformed = false ∧ (run A c evs).ret = 0 := by
  obtain ⟨ph, s, hm, hr, _⟩ := short_state A c evs h
  rw [hr]; exact ⟨hm.1.cnt, rfl, rfl⟩

/-- a run that returned (or is malformed) does not look at later events -/
theorem go_prefix (A : Arith) (c : Cfg) (more : List Ev) : ∀ (evs : List Ev) (ph : Phase) (s : St),
    (go A c ph s evs).short = false → go A c ph s (evs ++ more) = go A c ph s evs := by
  intro evs
  induction evs with
  | nil => intro ph s h; simp [go, St.res] at h
  | cons e es ih =>
    intro ph s h
    cases hv : step A c ph s e with
    | bad => simp [go, hv]
    | done r s' => simp [go, hv]
    | cont ph' s' =>
      simp only [go, hv] at h
      simp only [List.cons_append, go, hv]
      exact ih ph' s' h

theorem run_prefix (A : Arith) (c : Cfg) (evs more : List Ev) (h : (run A c evs).short = false) :
    run A c (evs ++ more) = run A c evs := by
  by_cases hp : popN c < 1
  · simp [run, hp]
  · simp only [run, hp, if_false] at h ⊢
    exact go_prefix A c more evs _ _ h

/-- the budget handed to a local search is `maxeval - nevals` at that moment, and the run records it -/
theorem budget_eq (A : Arith) (c : Cfg) (pre : List Ev) (ret : Int) (x0 x : List F64) (f : F64) (u : Nat) (fo : Bool)
    (hshort : (run A c pre).short = true)
    (hnm : (run A c (pre ++ [Ev.sub ret x0 x f u fo])).malformed = false) :
    (run A c (pre ++ [Ev.sub ret x0 x f u fo])).subs =
      (run A c pre).subs ++ [(c.maxeval - ((run A c pre).nevals : Int), u)] := by
  obtain ⟨ph, s, hm, hrp, hgo⟩ := short_state A c pre hshort
  rw [hgo [Ev.sub ret x0 x f u fo]] at hnm ⊢
  rw [hrp]
  cases hv : step A c ph s (Ev.sub ret x0 x f u fo) with
  | bad => simp [go, hv, St.res] at hnm
  | cont ph' s' =>
    rcases step_cont_shape hv with ⟨_, x', f', fo', he, _⟩ | ⟨i, x', f', fo', _, he, _⟩ |
      ⟨j, i, R, ret', x0', x', f', used, fo', p, _, he, _, _, _, _, hh⟩
    · cases he
    · cases he
    · cases he
      rcases hh with ⟨_, hs'⟩ | ⟨_, _, _, _, hs'⟩ <;> (subst hs'; simp [go, hv, St.res])
  | done r s' =>
    rcases step_done_shape hv with ⟨_, x', f', fo', he, _⟩ | ⟨i, x', f', fo', _, he, _⟩ |
      ⟨j, i, R, ret', x0', x', f', used, fo', p, _, he, _, _, ⟨_, _, hs'⟩ | ⟨_, _, hs'⟩⟩
    · cases he
    · cases he
    · cases he; subst hs'; simp [go, hv, St.res]
    · cases he; subst hs'; simp [go, hv, St.res]

/-! ## The ordered list is the in-order sequence of the red-black tree -/

/-- `insBy` is the list insertion `RB.insSorted` of Lemmas/RBTreeLemmas.lean (insert in front of the first element that is
    not smaller) when the keys are not NaN and are read through the order-isomorphic integer key `F64.key` -/
theorem insBy_map_insSorted {α : Type} (key : α → F64) (toK : α → RB.Key) (hk : ∀ a, (toK a).val = (key a).key)
    (k : α) (l : List α) (hn : ∀ a ∈ k :: l, (key a).isNaN = false) :
    (insBy key k l).map toK = RB.insSorted (toK k) (l.map toK) := by
  induction l with
  | nil => rfl
  | cons e es ih =>
    have hnk := hn k (by simp)
    have hne := hn e (by simp)
    simp only [insBy, List.map_cons, RB.insSorted]
    by_cases hg : F64.gt (key k) (key e) = true
    · have hlt : ¬ (toK k).val ≤ (toK e).val := by
        rw [hk, hk]; simp [F64.gt, F64.lt, hnk, hne] at hg; omega
      rw [if_pos hg, if_neg hlt]
      have := ih (fun a ha => hn a (by
        rcases List.mem_cons.1 ha with h | h
        · exact List.mem_cons.2 (Or.inl h)
        · exact List.mem_cons.2 (Or.inr (List.mem_cons.2 (Or.inr h)))))
      simp [this]
    · have hle : (toK k).val ≤ (toK e).val := by
        rw [hk, hk]; simp [F64.gt, F64.lt, hnk, hne] at hg; omega
      rw [if_neg hg, if_pos hle]; simp

/-- **The list model is the tree.**  If a red-black tree `t` of the verified model `RB` (Model/RBTree.lean, shape and
    colours as in redblack.c) holds, in order, the keys of the list `l` (no NaN, sorted), then after `rb_tree_insert` of a
    new key it holds, in order, the keys of `insBy key k l`: ties are resolved NEWEST FIRST whatever the shape. -/
theorem insBy_matches_rbtree {α : Type} (key : α → F64) (toK : α → RB.Key) (hk : ∀ a, (toK a).val = (key a).key)
    (k : α) (l : List α) (hn : ∀ a ∈ k :: l, (key a).isNaN = false) (t : RB.Tree)
    (ht : RB.toList t = l.map toK) (hs : RB.Sorted (RB.toList t)) :
    RB.toList (RB.insert t (toK k)) = (insBy key k l).map toK := by
  rw [RB.toList_insert_of_sorted t (toK k) hs, ht, insBy_map_insSorted key toK hk k l hn]

/-! ## Concrete witnesses and non-vacuity -/

def half : F64 := ⟨0x3FE0000000000000⟩
def quarter : F64 := ⟨0x3FD0000000000000⟩
def threeQ : F64 := ⟨0x3FE8000000000000⟩       -- 0.75
def eighth : F64 := ⟨0x3FC0000000000000⟩       -- 0.125
def three : F64 := ⟨0x4008000000000000⟩
def four : F64 := ⟨0x4010000000000000⟩
def c06 : F64 := ⟨0x3FE3333333333333⟩          -- 0.3 * 2
def c09 : F64 := ⟨0x3FECCCCCCCCCCCCC⟩          -- 0.3 * 3
def c12 : F64 := ⟨0x3FF3333333333333⟩          -- 0.3 * 4
def c15 : F64 := ⟨0x3FF8000000000000⟩          -- 1.5
def c25 : F64 := ⟨0x4004000000000000⟩          -- 2.5

/-- A TOY arithmetic for the concrete examples, which all have `n = 1`.  For `n = 1` the C code computes
    `gam(1) = sqrt(pow(K2PI * 0, 1) * 0) * exp(-0.5) = 0` (integer division `n/2 = 0`), hence `R_prefactor = 0` and `R = 0`
    for every number of points: every threshold of `is_potential_minimizer` is `+0` and the run only ever distinguishes
    "zero" from "positive".  The toy arithmetic is exact on what decides that: products with `+0` are `+0`, `pow(0, y) = 0`,
    `sqrt(0) = 0`, `a - a = 0`, `0 + b = b`, `1 * b = b`, `a / 1 = a`, `(double) k` for `0 <= k <= 4`, `0.3 * k` for
    `k <= 4`, `k + 0.5` and `(int)` of those; every other result is the PLACEHOLDER `1.0` ("some positive finite
    number": squares of non-zero differences, `x - lb` for `x > lb`, `log`, `exp`, ...) or `-1.0` (a negative
    difference).  Every example below was replayed with the hardware arithmetic (`nlopt_model mlsl`) and on
    `mlsl_minimize` itself (replay/witnesses.c, replay/witnesses.txt). -/
def exArith : Arith :=
  { add := fun a b => if a = F64.zero then b else if b = F64.zero then a
                      else if a = F64.one ∧ b = half then c15 else if a = two ∧ b = half then c25 else F64.one
    sub := fun a b => if a = b then F64.zero else if F64.lt b a then F64.one else F64.negOne
    mul := fun a b => if a = F64.zero ∨ b = F64.zero then F64.zero else if a = F64.one then b else if b = F64.one then a
                      else if a = gammaC ∧ b = two then c06 else if a = gammaC ∧ b = three then c09
                      else if a = gammaC ∧ b = four then c12 else F64.one
    div := fun a b => if b = F64.one then a else F64.one
    sqrt := fun a => if a = F64.zero then F64.zero else F64.one
    tanh := fun _ => F64.qnan, atanh := fun _ => F64.qnan
    pow := fun a _ => if a = F64.zero then F64.zero else F64.one
    log := fun _ => F64.one, exp := fun _ => F64.one
    ofInt := fun k => if k = 0 then F64.zero else if k = 1 then F64.one else if k = 2 then two else if k = 3 then three
                      else if k = 4 then four else F64.qnan
    toInt := fun v => if v = c15 ∨ v = c12 then 1 else if v = c25 then 2 else 0 }

/-- n = 1, the box [0, 1], x0 = 0.5, one sample per pass of the outer loop -/
def cfg1 (maxeval : Int) (stopval : F64) : Cfg :=
  { n := 1, pop := 1, lb := [F64.zero], ub := [F64.one], maxeval := maxeval, stopval := stopval, x0 := [half] }

/-- with `n = 1` the critical radius is `+0` -/
example : rPrefactor exArith (cfg1 0 F64.negInf) = F64.zero ∧ radius exArith (cfg1 0 F64.negInf) 2 = F64.zero ∧
    loopBound exArith 1 = 1 ∧ loopBound exArith 2 = 1 ∧ loopBound exArith 3 = 1 ∧ loopBound exArith 4 = 2 := by decide

/-- x0 = 0.5 has f = 3; the sample 0.25 has f = 1: it is the best of the 2 points, the loop bound is `ceil(0.6) = 1`, its
    closest better point is at distance +Inf > R = 0, it is off the boundary: the local search starts from it -/
def evsTwo : List Ev := [.eval [half] three false, .eval [quarter] F64.one false]

example : (run exArith (cfg1 0 F64.negInf) evsTwo).short = true ∧
    waiting exArith (cfg1 0 F64.negInf) .init (St.init (cfg1 0 F64.negInf)) evsTwo = "sub 3fd0000000000000" := by decide

/-- **The bound of T1 is attained**: maxeval = 5; two own evaluations, the local search is handed 5 - 2 = 3 evaluations
    and uses them all: MAXEVAL_REACHED with nevals = 5 = maxeval.  The local minimum (0.125, 0.5) is returned. -/
theorem nevals_bound_attained :
    SubsRespectBudget exArith (cfg1 5 F64.negInf) (evsTwo ++ [.sub 4 [quarter] [eighth] half 3 false]) ∧
    run exArith (cfg1 5 F64.negInf) (evsTwo ++ [.sub 4 [quarter] [eighth] half 3 false]) =
      ⟨5, 5, 3, [eighth], some half, false, false, [(3, 3)]⟩ := by
  have hrun : run exArith (cfg1 5 F64.negInf) (evsTwo ++ [.sub 4 [quarter] [eighth] half 3 false]) =
      ⟨5, 5, 3, [eighth], some half, false, false, [(3, 3)]⟩ := by decide
  refine ⟨?_, hrun⟩
  unfold SubsRespectBudget; rw [hrun]; decide

/-- **Without the hypothesis of T1 nothing bounds the count**: a local optimizer that ignores the limit it was given
    (budget 3, 1000 evaluations) -/
theorem nevals_unbounded_without_respect :
    run exArith (cfg1 5 F64.negInf) (evsTwo ++ [.sub 4 [quarter] [eighth] half 1000 false]) =
      ⟨5, 1002, 3, [eighth], some half, false, false, [(3, 1000)]⟩ := by decide

/-- non-vacuity of `forced_stop_own`: the flag is raised during the second own evaluation; FORCED_STOP, and the final
    `get_minf` returns the point just evaluated (it is the best) -/
example : (run exArith (cfg1 0 F64.negInf) [.eval [half] three false]).short = true ∧
    run exArith (cfg1 0 F64.negInf) [.eval [half] three false, .eval [quarter] F64.one true, .eval [threeQ] two false] =
      ⟨-5, 2, 2, [quarter], some F64.one, false, false, []⟩ := by decide

/-- non-vacuity of `forced_stop_sub`, code ≥ 0: the local search returns XTOL_REACHED with the flag raised: FORCED_STOP,
    the local minimum is in the tree and is returned -/
example : run exArith (cfg1 0 F64.negInf) (evsTwo ++ [.sub 4 [quarter] [eighth] half 3 true, .eval [threeQ] two false]) =
    ⟨-5, 5, 3, [eighth], some half, false, false, [(-2, 3)]⟩ := by decide

/-- **T4 is FALSE for a run ended by a failed local search** — in particular for the ordinary way a forced stop reaches
    MLSL (the flag is raised inside the objective during a local search, the local optimizer returns FORCED_STOP).
    Replay on the C library: NLOPT_GN_MLSL, n = 1, bounds [0, 1], x0 = 0.5, population 1, objective with f(0.5) = 3 and
    f(sample) = 1 for the first sample point, `nlopt_force_stop` called during the first evaluation of the local search.
    `mlsl_minimize` returns FORCED_STOP with `x = 0.5, *minf = 3`: the `goto done` of line 409 skips the `get_minf` of line
    431, so the result is the one written at the top of the pass (line 349), before the sample with f = 1 was drawn — and
    before every local minimum found during the pass.  (The budget handed to the local search is `0 - 2 = -2`, which `nlopt_optimize_limited` reads as "no limit".) -/
def evsStale : List Ev := evsTwo ++ [.sub (-5) [quarter] [eighth] half 3 true]

theorem evsStale_run : run exArith (cfg1 0 F64.negInf) evsStale =
    ⟨-5, 5, 3, [half], some three, false, false, [(-2, 3)]⟩ := by decide

theorem best_point_failed_sub_false :
    ¬ (∀ (A : Arith) (c : Cfg) (evs : List Ev), NoNaN (evs.take (run A c evs).nevents) → (run A c evs).ret = -5 →
        ∀ m, (run A c evs).minf = some m →
          ∀ e ∈ evs.take (run A c evs).nevents, e.failed = false → F64.lt e.fv m = false) := by
  intro h
  have := h exArith (cfg1 0 F64.negInf) evsStale (by rw [evsStale_run]; decide) (by rw [evsStale_run]) three
    (by rw [evsStale_run]) (.eval [quarter] F64.one false) (by rw [evsStale_run]; decide) rfl
  revert this; decide

/-- the same run with a local search that does not fail: `best_point` applies, `*minf = 0.5` -/
example : ViaGetMinf exArith (cfg1 0 F64.negInf) (evsTwo ++ [.sub 4 [quarter] [eighth] half 3 true]) ∧
    NoNaN (evsTwo ++ [.sub 4 [quarter] [eighth] half 3 true]) ∧
    (run exArith (cfg1 0 F64.negInf) (evsTwo ++ [.sub 4 [quarter] [eighth] half 3 true])).minf = some half := by
  refine ⟨Or.inr ⟨by decide, .sub 4 [quarter] [eighth] half 3 true, by decide, by decide⟩, by decide, by decide⟩

/-- non-vacuity of T3 / T5: stopval = 2, the sample has f = 1 < 2: STOPVAL_REACHED with `*minf = 1` -/
example : run exArith (cfg1 0 two) evsTwo = ⟨2, 2, 2, [quarter], some F64.one, false, false, []⟩ := by decide

/-- T5 through a local search: stopval = 0.75; the local minimum has f = 0.5 -/
example : run exArith (cfg1 0 threeQ) (evsTwo ++ [.sub 4 [quarter] [eighth] half 3 false]) =
    ⟨2, 5, 3, [eighth], some half, false, false, [(-2, 3)]⟩ := by decide

/-- **T5 (and any reading of T4) fails with a NaN sample value.**  x0 = 0.5 has f = 3, the sample 0.25 has f = NaN:
    `compare(NaN, anything) = 0` sends it to the left, it becomes the minimum of the tree (in the 2-node C tree as in the
    model), it is a "potential minimizer" (its `closest_pt_d` is +Inf), the local search from it finds (0.75, 0) with
    0 < stopval = 1: STOPVAL_REACHED — and `get_minf` returns the NaN point: `*minf = NaN` is written first and
    `0 < NaN` is false.  Replayed on the C code (replay/witnesses.txt). -/
theorem stopval_nan_false :
    run exArith (cfg1 0 F64.one) [.eval [half] three false, .eval [quarter] F64.qnan false,
      .sub 4 [quarter] [threeQ] F64.zero 3 false] = ⟨2, 5, 3, [quarter], some F64.qnan, false, false, [(-2, 3)]⟩ := by decide

/-- ties: the newest of two sample points with equal values is the head of the tree (x0 and the sample both have f = 1) -/
example : run exArith (cfg1 2 F64.negInf) [.eval [half] F64.one false, .eval [quarter] F64.one false] =
    ⟨5, 2, 2, [quarter], some F64.one, false, false, []⟩ := by decide

/-- the boundary rule: the best point sits ON the lower bound (x = 0): it is not a potential minimizer, no local search is
    started, the next pass of the outer loop begins (the driver waits for a sample) -/
example : waiting exArith (cfg1 0 F64.negInf) .init (St.init (cfg1 0 F64.negInf))
    [.eval [half] three false, .eval [F64.zero] F64.one false] = "eval" := by decide

/-- a second pass of the outer loop: x0 = 0.5 (f = 3), sample 0.25 (f = 1), local search from 0.25 finds (0.125, 0.5);
    pass 2: the sample 0.75 (f = 0.25) is the new best of 3 points: local search from 0.75 -/
example : waiting exArith (cfg1 0 F64.negInf) .init (St.init (cfg1 0 F64.negInf))
    (evsTwo ++ [.sub 4 [quarter] [eighth] half 3 false, .eval [threeQ] quarter false]) = "sub 3fe8000000000000" := by decide

def threeE : F64 := ⟨0x3FD8000000000000⟩       -- 0.375
def five : F64 := ⟨0x4014000000000000⟩

/-- **the "closest better point" rule** (R = 0, so only distance 0 counts): three samples per pass; 4 points, the loop
    examines the `ceil(1.2) = 2` best.  The best, (0.25, 1), gets a local search.  The second best, (0.25, 2), sits at the
    SAME place as a better point (`closest_pt_d = 0 <= R^2 = 0`): it is skipped and the next pass begins ... -/
example : waiting exArith { cfg1 0 F64.negInf with pop := 3 } .init (St.init (cfg1 0 F64.negInf))
    [.eval [half] three false, .eval [quarter] F64.one false, .eval [quarter] two false, .eval [threeQ] five false,
     .sub 4 [quarter] [eighth] half 3 false] = "eval" := by decide

/-- ... while at 0.375 (distance > 0 from every better point and from the local minimum) it gets its own local search -/
example : waiting exArith { cfg1 0 F64.negInf with pop := 3 } .init (St.init (cfg1 0 F64.negInf))
    [.eval [half] three false, .eval [quarter] F64.one false, .eval [threeE] two false, .eval [threeQ] five false,
     .sub 4 [quarter] [eighth] half 3 false] = "sub 3fd8000000000000" := by decide

/-- malformed event lists: a local search where a sample is due; a local search from another point than the selected one -/
example : (run exArith (cfg1 0 F64.negInf) [.eval [half] three false, .sub 4 [half] [eighth] half 3 false]).malformed = true ∧
    (run exArith (cfg1 0 F64.negInf) (evsTwo ++ [.sub 4 [half] [eighth] half 3 false])).malformed = true ∧
    (run exArith (cfg1 0 F64.negInf) [.eval [quarter] three false]).malformed = true := by decide

/-- `Nsamples = -1`: INVALID_ARGS, nothing evaluated, `*minf` not written -/
example : run exArith { cfg1 0 F64.negInf with pop := -1 } evsTwo = ⟨-2, 0, 0, [half], none, false, false, []⟩ := by decide

end Nlopt.DrvMlsl
