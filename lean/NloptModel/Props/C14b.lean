import NloptModel.Lemmas.ApiCopyView
import NloptModel.Props.C14
/-!
# C14 (continued) — getters return what the last successful setter stored; algorithm and dimension never
change; `nlopt_copy` yields an equal, independent object

`Core.view` is everything the getters can observe (block ids and the error message erased).
All theorems hold for every `Arith`, every allocator state and every object.
-/
set_option linter.unusedSimpArgs false
set_option linter.unusedVariables false
namespace Nlopt.C14
open Nlopt

/-! ## plumbing -/

theorem unsetErrmsg_snd (s : AS) (c : Core) : (unsetErrmsg s c).2 = { c with errmsg := none } := by
  unfold unsetErrmsg
  split
  · rfl
  · rename_i h; cases c; simp_all

theorem setErrmsg_snd (s : AS) (c : Core) : ∃ e, (setErrmsg s c).2 = { c with errmsg := e } := by
  unfold setErrmsg
  split <;> exact ⟨_, rfl⟩

@[simp] theorem view_errmsg (c : Core) (e : Option Nat) : ({ c with errmsg := e } : Core).view = c.view := rfl

@[simp] theorem setArrV_map_v (a : Option Arr) (v : List F64) : (setArrV a v).map (·.v) = a.map (fun _ => v) := by
  cases a <;> rfl

@[simp] theorem one_feq_zero : F64.feq F64.one F64.zero = false := by decide

/-! ## setter_stores: a successful setter replaces exactly one field of the view -/

theorem setter_stores_setLowerBounds (A : Arith) (s : AS) (c : Core) (arg : Option (List F64))
    (hr : (setLowerBounds A s c arg).2.2 = rSUCCESS) :
    (setLowerBounds A s c arg).2.1.view = { c.view with lb := c.view.lb.map (fun _ => collapseLb A (if c.n > 0 then (arg.getD []).take c.n else arrV c.lb) (arrV c.ub)) } := by
  generalize hres : setLowerBounds A s c arg = res at hr ⊢
  unfold setLowerBounds at hres
  simp only [unsetErrmsg_snd] at hres
  repeat' split at hres
  all_goals subst hres
  all_goals first
    | (simp [rSUCCESS, rINVALID, rOOM] at hr; done)
    | (simp [Core.view, Function.comp_def]; done)
    | (simp_all [Core.view, Function.comp_def]; done)

theorem setter_stores_setUpperBounds (A : Arith) (s : AS) (c : Core) (arg : Option (List F64))
    (hr : (setUpperBounds A s c arg).2.2 = rSUCCESS) :
    (setUpperBounds A s c arg).2.1.view = { c.view with ub := c.view.ub.map (fun _ => collapseUb A (arrV c.lb) (if c.n > 0 then (arg.getD []).take c.n else arrV c.ub)) } := by
  generalize hres : setUpperBounds A s c arg = res at hr ⊢
  unfold setUpperBounds at hres
  simp only [unsetErrmsg_snd] at hres
  repeat' split at hres
  all_goals subst hres
  all_goals first
    | (simp [rSUCCESS, rINVALID, rOOM] at hr; done)
    | (simp [Core.view, Function.comp_def]; done)
    | (simp_all [Core.view, Function.comp_def]; done)

theorem setter_stores_setLowerBounds1 (A : Arith) (s : AS) (c : Core) (x : F64)
    (hr : (setLowerBounds1 A s c x).2.2 = rSUCCESS) :
    (setLowerBounds1 A s c x).2.1.view = { c.view with lb := c.view.lb.map (fun _ => collapseLb A (List.replicate c.n x) (arrV c.ub)) } := by
  generalize hres : setLowerBounds1 A s c x = res at hr ⊢
  unfold setLowerBounds1 at hres
  simp only [unsetErrmsg_snd] at hres
  repeat' split at hres
  all_goals subst hres
  all_goals first
    | (simp [rSUCCESS, rINVALID, rOOM] at hr; done)
    | (simp [Core.view, Function.comp_def]; done)
    | (simp_all [Core.view, Function.comp_def]; done)

theorem setter_stores_setUpperBounds1 (A : Arith) (s : AS) (c : Core) (x : F64)
    (hr : (setUpperBounds1 A s c x).2.2 = rSUCCESS) :
    (setUpperBounds1 A s c x).2.1.view = { c.view with ub := c.view.ub.map (fun _ => collapseUb A (arrV c.lb) (List.replicate c.n x)) } := by
  generalize hres : setUpperBounds1 A s c x = res at hr ⊢
  unfold setUpperBounds1 at hres
  simp only [unsetErrmsg_snd] at hres
  repeat' split at hres
  all_goals subst hres
  all_goals first
    | (simp [rSUCCESS, rINVALID, rOOM] at hr; done)
    | (simp [Core.view, Function.comp_def]; done)
    | (simp_all [Core.view, Function.comp_def]; done)

theorem setter_stores_setLowerBound (A : Arith) (s : AS) (c : Core) (i : Int) (x : F64)
    (hr : (setLowerBound A s c i x).2.2 = rSUCCESS) :
    (setLowerBound A s c i x).2.1.view = { c.view with lb := c.view.lb.map (fun _ => (arrV c.lb).set i.toNat (if tinyGap A x ((arrV c.ub).getD i.toNat F64.zero) then (arrV c.ub).getD i.toNat F64.zero else x)) } := by
  generalize hres : setLowerBound A s c i x = res at hr ⊢
  unfold setLowerBound at hres
  simp only [unsetErrmsg_snd] at hres
  repeat' split at hres
  all_goals subst hres
  all_goals first
    | (simp [rSUCCESS, rINVALID, rOOM] at hr; done)
    | (simp [Core.view, Function.comp_def]; done)
    | (simp_all [Core.view, Function.comp_def]; done)

theorem setter_stores_setUpperBound (A : Arith) (s : AS) (c : Core) (i : Int) (x : F64)
    (hr : (setUpperBound A s c i x).2.2 = rSUCCESS) :
    (setUpperBound A s c i x).2.1.view = { c.view with ub := c.view.ub.map (fun _ => (arrV c.ub).set i.toNat (if tinyGap A ((arrV c.lb).getD i.toNat F64.zero) x then (arrV c.lb).getD i.toNat F64.zero else x)) } := by
  generalize hres : setUpperBound A s c i x = res at hr ⊢
  unfold setUpperBound at hres
  simp only [unsetErrmsg_snd] at hres
  repeat' split at hres
  all_goals subst hres
  all_goals first
    | (simp [rSUCCESS, rINVALID, rOOM] at hr; done)
    | (simp [Core.view, Function.comp_def]; done)
    | (simp_all [Core.view, Function.comp_def]; done)

theorem setter_stores_setObjective (s : AS) (c : Core) (f pre fdata : Nat) (mx : Bool)
    (hr : (setObjective s c f pre fdata mx).2.2 = rSUCCESS) :
    (setObjective s c f pre fdata mx).2.1.view = { c.view with f := f, fdata := fdata, pre := pre, maximize := mx, stopval := (if mx then (if c.stopval.isInf && F64.lt c.stopval F64.zero then F64.posInf else c.stopval) else (if c.stopval.isInf && F64.gt c.stopval F64.zero then F64.negInf else c.stopval)) } := by
  generalize hres : setObjective s c f pre fdata mx = res at hr ⊢
  unfold setObjective at hres
  simp only [unsetErrmsg_snd] at hres
  repeat' split at hres
  all_goals subst hres
  all_goals first
    | (simp [rSUCCESS, rINVALID, rOOM] at hr; done)
    | (simp [Core.view, Function.comp_def]; done)
    | (simp_all [Core.view, Function.comp_def]; done)

theorem setter_stores_removeIneq (s : AS) (c : Core)
    (hr : (removeIneq s c).2.2 = rSUCCESS) :
    (removeIneq s c).2.1.view = { c.view with fc := [] } := by
  generalize hres : removeIneq s c = res at hr ⊢
  unfold removeIneq at hres
  simp only [unsetErrmsg_snd] at hres
  repeat' split at hres
  all_goals subst hres
  all_goals first
    | (simp [rSUCCESS, rINVALID, rOOM] at hr; done)
    | (simp [Core.view, Function.comp_def]; done)
    | (simp_all [Core.view, Function.comp_def]; done)

theorem setter_stores_removeEq (s : AS) (c : Core)
    (hr : (removeEq s c).2.2 = rSUCCESS) :
    (removeEq s c).2.1.view = { c.view with h := [] } := by
  generalize hres : removeEq s c = res at hr ⊢
  unfold removeEq at hres
  simp only [unsetErrmsg_snd] at hres
  repeat' split at hres
  all_goals subst hres
  all_goals first
    | (simp [rSUCCESS, rINVALID, rOOM] at hr; done)
    | (simp [Core.view, Function.comp_def]; done)
    | (simp_all [Core.view, Function.comp_def]; done)

theorem setter_stores_setXtolAbs_null (s : AS) (c : Core)
    (hr : (setXtolAbs s c none).2.2 = rSUCCESS) :
    (setXtolAbs s c none).2.1.view = { c.view with xtolAbs := none } := by
  generalize hres : setXtolAbs s c none = res at hr ⊢
  unfold setXtolAbs at hres
  simp only [unsetErrmsg_snd] at hres
  repeat' split at hres
  all_goals subst hres
  all_goals first
    | (simp [rSUCCESS, rINVALID, rOOM] at hr; done)
    | (simp [Core.view, Function.comp_def]; done)
    | (simp_all [Core.view, Function.comp_def]; done)

theorem setter_stores_setXtolAbs (s : AS) (c : Core) (v : List F64)
    (hr : (setXtolAbs s c (some v)).2.2 = rSUCCESS) :
    (setXtolAbs s c (some v)).2.1.view = { c.view with xtolAbs := if c.n > 0 ∨ c.xtolAbs.isSome then some (v.take c.n) else none } := by
  generalize hres : setXtolAbs s c (some v) = res at hr ⊢
  unfold setXtolAbs at hres
  simp only [unsetErrmsg_snd] at hres
  repeat' split at hres
  all_goals subst hres
  all_goals first
    | (simp [rSUCCESS, rINVALID, rOOM] at hr; done)
    | (simp [Core.view, Function.comp_def]; done)
    | (simp_all [Core.view, Function.comp_def]; done)
    | (rename_i heq; have hv := allocArr_v' heq; simp_all [Core.view, Function.comp_def]; done)
    | (cases hx : c.xtolAbs <;> simp_all [Core.view, Function.comp_def, setArrV]; done)

theorem setter_stores_setXtolAbs1 (s : AS) (c : Core) (x : F64)
    (hr : (setXtolAbs1 s c x).2.2 = rSUCCESS) :
    (setXtolAbs1 s c x).2.1.view = { c.view with xtolAbs := if c.n > 0 ∨ c.xtolAbs.isSome then some (List.replicate c.n x) else none } := by
  generalize hres : setXtolAbs1 s c x = res at hr ⊢
  unfold setXtolAbs1 at hres
  simp only [unsetErrmsg_snd] at hres
  repeat' split at hres
  all_goals subst hres
  all_goals first
    | (simp [rSUCCESS, rINVALID, rOOM] at hr; done)
    | (simp [Core.view, Function.comp_def]; done)
    | (simp_all [Core.view, Function.comp_def]; done)
    | (rename_i heq; have hv := allocArr_v' heq; simp_all [Core.view, Function.comp_def]; done)
    | (cases hx : c.xtolAbs <;> simp_all [Core.view, Function.comp_def, setArrV]; done)

theorem setter_stores_setXWeights_null (s : AS) (c : Core)
    (hr : (setXWeights s c none).2.2 = rSUCCESS) :
    (setXWeights s c none).2.1.view = { c.view with xWeights := none } := by
  generalize hres : setXWeights s c none = res at hr ⊢
  unfold setXWeights at hres
  simp only [unsetErrmsg_snd] at hres
  repeat' split at hres
  all_goals subst hres
  all_goals first
    | (simp [rSUCCESS, rINVALID, rOOM] at hr; done)
    | (simp [Core.view, Function.comp_def]; done)
    | (simp_all [Core.view, Function.comp_def]; done)

theorem setter_stores_setXWeights (s : AS) (c : Core) (v : List F64)
    (hr : (setXWeights s c (some v)).2.2 = rSUCCESS) :
    (setXWeights s c (some v)).2.1.view = { c.view with xWeights := if c.n > 0 ∨ c.xWeights.isSome then some (v.take c.n) else none } := by
  generalize hres : setXWeights s c (some v) = res at hr ⊢
  unfold setXWeights at hres
  simp only [unsetErrmsg_snd] at hres
  repeat' split at hres
  all_goals subst hres
  all_goals first
    | (simp [rSUCCESS, rINVALID, rOOM] at hr; done)
    | (simp [Core.view, Function.comp_def]; done)
    | (simp_all [Core.view, Function.comp_def]; done)
    | (rename_i heq; have hv := allocArr_v' heq; simp_all [Core.view, Function.comp_def]; done)
    | (cases hx : c.xWeights <;> simp_all [Core.view, Function.comp_def, setArrV]; done)

theorem setter_stores_setXWeights1 (s : AS) (c : Core) (x : F64)
    (hr : (setXWeights1 s c x).2.2 = rSUCCESS) :
    (setXWeights1 s c x).2.1.view = { c.view with xWeights := if c.n > 0 ∨ c.xWeights.isSome then some (List.replicate c.n x) else none } := by
  generalize hres : setXWeights1 s c x = res at hr ⊢
  unfold setXWeights1 at hres
  simp only [unsetErrmsg_snd] at hres
  repeat' split at hres
  all_goals subst hres
  all_goals first
    | (simp [rSUCCESS, rINVALID, rOOM] at hr; done)
    | (simp [Core.view, Function.comp_def]; done)
    | (simp_all [Core.view, Function.comp_def]; done)
    | (rename_i heq; have hv := allocArr_v' heq; simp_all [Core.view, Function.comp_def]; done)
    | (cases hx : c.xWeights <;> simp_all [Core.view, Function.comp_def, setArrV]; done)

theorem setter_stores_setInitialStep1 (s : AS) (c : Core) (x : F64)
    (hr : (setInitialStep1 s c x).2.2 = rSUCCESS) :
    (setInitialStep1 s c x).2.1.view = { c.view with dx := if c.n > 0 ∨ c.dx.isSome then some (List.replicate c.n x) else none } := by
  generalize hres : setInitialStep1 s c x = res at hr ⊢
  unfold setInitialStep1 at hres
  simp only [unsetErrmsg_snd] at hres
  repeat' split at hres
  all_goals subst hres
  all_goals first
    | (simp [rSUCCESS, rINVALID, rOOM] at hr; done)
    | (simp [Core.view, Function.comp_def]; done)
    | (simp_all [Core.view, Function.comp_def]; done)
    | (rename_i heq; have hv := allocArr_v' heq; simp_all [Core.view, Function.comp_def]; done)
    | (cases hx : c.dx <;> simp_all [Core.view, Function.comp_def, setArrV]; done)

theorem setter_stores_setInitialStep_null (s : AS) (c : Core)
    (hr : (setInitialStep s c none).2.2 = rSUCCESS) :
    (setInitialStep s c none).2.1.view = { c.view with dx := none } := by
  generalize hres : setInitialStep s c none = res at hr ⊢
  unfold setInitialStep at hres
  simp only [unsetErrmsg_snd] at hres
  repeat' split at hres
  all_goals subst hres
  all_goals first
    | (simp [rSUCCESS, rINVALID, rOOM] at hr; done)
    | (simp [Core.view, Function.comp_def]; done)
    | (simp_all [Core.view, Function.comp_def]; done)

theorem setter_stores_setInitialStep (s : AS) (c : Core) (v : List F64)
    (hr : (setInitialStep s c (some v)).2.2 = rSUCCESS) :
    (setInitialStep s c (some v)).2.1.view = { c.view with dx := if c.n > 0 ∨ c.dx.isSome then some (v.take c.n) else none } := by
  generalize hres : setInitialStep s c (some v) = res at hr ⊢
  unfold setInitialStep setInitialStep1 at hres
  simp only [unsetErrmsg_snd] at hres
  repeat' split at hres
  all_goals subst hres
  all_goals first
    | (simp [rSUCCESS, rINVALID, rOOM] at hr; done)
    | (simp [Core.view, Function.comp_def]; done)
    | (simp_all [Core.view, Function.comp_def]; done)
    | (rename_i heq; have hv := allocArr_v' heq; simp_all [Core.view, Function.comp_def]; done)
    | (cases hx : c.dx <;> simp_all [Core.view, Function.comp_def, setArrV]; done)

theorem setter_stores_setDefaultInitialStep (A : Arith) (s : AS) (c : Core) (xv : List F64)
    (hr : (setDefaultInitialStep A s c (some xv)).2.2 = rSUCCESS) :
    (setDefaultInitialStep A s c (some xv)).2.1.view = { c.view with dx := if c.n > 0 ∨ c.dx.isSome then some (zipWith3 (defaultStep1 A) (arrV c.lb) (arrV c.ub) (xv.take c.n)) else none } := by
  generalize hres : setDefaultInitialStep A s c (some xv) = res at hr ⊢
  unfold setDefaultInitialStep setInitialStep1 at hres
  simp only [unsetErrmsg_snd] at hres
  repeat' split at hres
  all_goals subst hres
  all_goals first
    | (simp [rSUCCESS, rINVALID, rOOM] at hr; done)
    | (simp [Core.view, Function.comp_def]; done)
    | (simp_all [Core.view, Function.comp_def]; done)
    | (rename_i heq; have hv := allocArr_v' heq; simp_all [Core.view, Function.comp_def]; done)
    | (cases hx : c.dx <;> simp_all [Core.view, Function.comp_def, setArrV]; done)


/-! parameters -/

theorem findIdx?_view (ps : List Param) (nm : String) :
    (ps.map (fun p => (p.name, p.val))).findIdx? (fun q => q.1 == nm) = findParam ps nm := by
  unfold findParam
  induction ps with
  | nil => rfl
  | cons p ps ih => simp [List.findIdx?_cons, ih]

theorem modify_view (ps : List Param) (i : Nat) (x : F64) :
    (ps.modify i (fun p => { p with val := x })).map (fun p => (p.name, p.val)) =
      (ps.map (fun p => (p.name, p.val))).modify i (fun q => (q.1, x)) := by
  induction ps generalizing i with
  | nil => simp
  | cons p ps ih => cases i <;> simp [List.modify_cons, ih]

/-- `nlopt_set_param` overwrites the value of an existing name, or appends a new (name, value) pair -/
theorem setter_stores_setParam (s : AS) (c : Core) (nm : String) (x : F64)
    (hr : (setParam s c (some nm) x).2.2 = rSUCCESS) :
    (setParam s c (some nm) x).2.1.view =
      { c.view with params :=
          match c.view.params.findIdx? (fun q => q.1 == nm) with
          | some i => c.view.params.modify i (fun q => (q.1, x))
          | none => c.view.params ++ [(nm, x)] } := by
  have hv : c.view.params = c.params.map (fun p => (p.name, p.val)) := rfl
  rw [hv, findIdx?_view]
  generalize hres : setParam s c (some nm) x = res at hr ⊢
  unfold setParam at hres
  simp only [] at hres
  repeat' split at hres
  all_goals subst hres
  all_goals first
    | (simp [rSUCCESS, rINVALID, rOOM] at hr; done)
    | (simp_all [Core.view, modify_view]; done)

/-! scalars -/

/-- the SET macro on the view -/
def ScalarSet.applyView (v : CoreView) : ScalarSet → CoreView
  | .stopval x => { v with stopval := x }
  | .ftolRel x => { v with ftolRel := x }
  | .ftolAbs x => { v with ftolAbs := x }
  | .xtolRel x => { v with xtolRel := x }
  | .maxtime x => { v with maxtime := x }
  | .maxeval k => { v with maxeval := k }
  | .pop k => { v with pop := k }
  | .vs k => { v with vs := k }
  | .forceStop k => { v with forceStop := k }

/-- every scalar setter succeeds and stores its argument in its own field -/
theorem setter_stores_setScalar (s : AS) (c : Core) (v : ScalarSet) :
    (setScalar s c (ScalarSet.apply · v)).2.2 = rSUCCESS ∧
    (setScalar s c (ScalarSet.apply · v)).2.1.view = ScalarSet.applyView c.view v := by
  simp only [setScalar, unsetErrmsg_snd, true_and]
  cases v <;> rfl

/-! constraints -/

/-- the tolerance array a constraint is registered with: the caller's first `m` values, or zeros for NULL -/
def tolOrZeros (tol : Option (List F64)) (m : Nat) : List F64 :=
  match tol with
  | some t => t.take m
  | none => List.replicate m F64.zero

theorem addConstraint_ok (s : AS) (c : Core) (cs : List Con) (al : Nat) (blk : Option Nat)
    (fm : Nat) (isVec : Bool) (fid pre fdata : Nat) (tol : Option (List F64))
    (hr : (addConstraint s c cs al blk fm isVec fid pre fdata tol).2.2.2.2.2 = rSUCCESS) :
    (addConstraint s c cs al blk fm isVec fid pre fdata tol).2.2.1.map Con.view =
      cs.map Con.view ++ [⟨fm, isVec, fid, pre, fdata,
        some (tolOrZeros tol fm)⟩] := by
  generalize hres : addConstraint s c cs al blk fm isVec fid pre fdata tol = res at hr ⊢
  unfold addConstraint at hres
  simp only [] at hres
  repeat' split at hres
  all_goals subst hres
  all_goals first
    | (simp [rSUCCESS, rINVALID, rOOM] at hr; done)
    | (simp [Con.view, tolOrZeros]; done)

/-- the four public adders: a successful call on a non-empty constraint appends exactly one entry — with the
    caller's tolerances copied (`tol.take m`) or zeros when the tolerance pointer is NULL — to the list of its
    kind and changes nothing else; an empty vector constraint changes nothing at all -/
theorem setter_stores_addCon (caps : List Nat) (eq : Bool) (s : AS) (c : Core) (fm : Nat) (isVec : Bool)
    (fid pre fdata : Nat) (tol : Option (List F64))
    (hr : (addCon caps eq s c fm isVec fid pre fdata tol).2.2 = rSUCCESS) :
    (addCon caps eq s c fm isVec fid pre fdata tol).2.1.view =
      (if isVec = true ∧ fm = 0 then c.view
       else if eq then
        { c.view with h := c.view.h ++ [⟨fm, isVec, fid, pre, fdata,
            some (tolOrZeros tol fm)⟩] }
       else
        { c.view with fc := c.view.fc ++ [⟨fm, isVec, fid, pre, fdata,
            some (tolOrZeros tol fm)⟩] }) := by
  unfold addCon at hr ⊢
  by_cases hh : (isVec = true ∧ fm = 0)
  · rw [if_pos hh, if_pos hh]; simp
  · rw [if_neg hh] at hr ⊢
    rw [if_neg hh]
    simp only [] at hr ⊢
    unfold addConCore at hr ⊢
    by_cases hcap : (!caps.contains (unsetErrmsg s c).2.algorithm) = true
    · rw [if_pos hcap] at hr; simp [rINVALID, rSUCCESS] at hr
    · rw [if_neg hcap] at hr ⊢
      by_cases heq : eq = true
      · rw [if_pos heq] at hr ⊢
        rw [if_pos heq]
        simp only [] at hr ⊢
        have h1 := addConstraint_ok _ _ _ _ _ _ _ _ _ _ _ hr
        have h2 := addConstraint_view (unsetErrmsg s c).1 (unsetErrmsg s c).2 (unsetErrmsg s c).2.h
          (unsetErrmsg s c).2.pAlloc (unsetErrmsg s c).2.hBlk fm isVec fid pre fdata tol
        rw [unsetErrmsg_view] at h2
        generalize addConstraint (unsetErrmsg s c).1 (unsetErrmsg s c).2 (unsetErrmsg s c).2.h
          (unsetErrmsg s c).2.pAlloc (unsetErrmsg s c).2.hBlk fm isVec fid pre fdata tol = R at *
        show ({ R.2.1.view with h := R.2.2.1.map Con.view } : CoreView) = _
        rw [h2, h1]
        simp [Core.view, unsetErrmsg_snd]
      · rw [if_neg heq] at hr ⊢
        rw [if_neg heq]
        simp only [] at hr ⊢
        have h1 := addConstraint_ok _ _ _ _ _ _ _ _ _ _ _ hr
        have h2 := addConstraint_view (unsetErrmsg s c).1 (unsetErrmsg s c).2 (unsetErrmsg s c).2.fc
          (unsetErrmsg s c).2.mAlloc (unsetErrmsg s c).2.fcBlk fm isVec fid pre fdata tol
        rw [unsetErrmsg_view] at h2
        generalize addConstraint (unsetErrmsg s c).1 (unsetErrmsg s c).2 (unsetErrmsg s c).2.fc
          (unsetErrmsg s c).2.mAlloc (unsetErrmsg s c).2.fcBlk fm isVec fid pre fdata tol = R at *
        show ({ R.2.1.view with fc := R.2.2.1.map Con.view } : CoreView) = _
        rw [h2, h1]
        simp [Core.view, unsetErrmsg_snd]


/-! ## getter_returns_stored -/

/-- `nlopt_get_lower_bounds` / `nlopt_get_upper_bounds` with a non-NULL output buffer succeed and return the
    stored arrays (and leave the view alone: `getLowerBounds_view`) -/
theorem getter_returns_stored_bounds (s : AS) (c : Core) :
    (getLowerBounds s c false).2.2 = (rSUCCESS, (c.view.lb).getD []) ∧
    (getUpperBounds s c false).2.2 = (rSUCCESS, (c.view.ub).getD []) := by
  simp [getLowerBounds, getUpperBounds, unsetErrmsg_snd, arrV_eq, Core.view]

/-- `nlopt_get_xtol_abs`: the stored array, or `n` zeros when unset -/
theorem getter_returns_stored_xtolAbs (s : AS) (c : Core) :
    (getXtolAbs s c false).2.2 =
      (rSUCCESS, match c.view.xtolAbs with | some v => v | none => List.replicate c.n F64.zero) := by
  simp only [getXtolAbs, unsetErrmsg_snd, Core.view]
  cases c.xtolAbs <;> simp

/-- `nlopt_get_x_weights`: the stored array, or `n` ones when unset -/
theorem getter_returns_stored_xWeights (s : AS) (c : Core) :
    (getXWeights s c false).2.2 =
      (rSUCCESS, match c.view.xWeights with | some v => v | none => List.replicate c.n F64.one) := by
  simp only [getXWeights, unsetErrmsg_snd, Core.view]
  cases c.xWeights <;> simp

/-- `nlopt_get_initial_step` with a stored step returns it -/
theorem getter_returns_stored_dx (A : Arith) (s : AS) (c : Core) (x : Option (List F64)) (v : List F64)
    (hn : c.n ≠ 0) (hdx : c.view.dx = some v) :
    (getInitialStep A s c x).2.2 = (rSUCCESS, v) := by
  simp only [getInitialStep, unsetErrmsg_snd, hn, if_false]
  cases hd : c.dx with
  | none => simp [Core.view, hd] at hdx
  | some a =>
    simp only [Core.view, hd, Option.map_some, Option.some.injEq] at hdx
    simp [hdx]

/-- `nlopt_get_initial_step` with NO stored step: if it succeeds, it returns the heuristic default step
    `defaultStep1` per coordinate (computed from the bounds and the point `x`) — and does not store it:
    the view is unchanged (`getInitialStep_view`), in particular `dx` stays unset -/
theorem getter_returns_default_dx (A : Arith) (s : AS) (c : Core) (xv : List F64)
    (hn : c.n ≠ 0) (hdx : c.dx = none) (hr : (getInitialStep A s c (some xv)).2.2.1 = rSUCCESS) :
    (getInitialStep A s c (some xv)).2.2.2 = zipWith3 (defaultStep1 A) (arrV c.lb) (arrV c.ub) (xv.take c.n) ∧
    (getInitialStep A s c (some xv)).2.1.view = c.view := by
  refine ⟨?_, getInitialStep_view A s c _⟩
  generalize hres : getInitialStep A s c (some xv) = res at hr ⊢
  unfold getInitialStep setDefaultInitialStep setInitialStep1 at hres
  simp only [unsetErrmsg_snd, hn, if_false, hdx] at hres
  have hn' : c.n > 0 := Nat.pos_of_ne_zero hn
  repeat' split at hres
  all_goals subst hres
  all_goals first
    | (simp [rSUCCESS, rINVALID, rOOM] at hr; done)
    | (simp_all [arrV, setArrV, rSUCCESS, rINVALID, rOOM]; done)

/-- **`getter_returns_stored`** (array getters, summary): with a non-NULL output buffer the four array getters
    succeed and return the stored array, or the documented default when unset — zeros for `xtol_abs`, ones for
    `x_weights` — and none of them changes the view.  (`nlopt_get_initial_step`: `getter_returns_stored_dx`,
    `getter_returns_default_dx`; `nlopt_get_param`: `getParam_after_setParam`, `getParam_after_setParam_other`,
    `getParam_default`.) -/
theorem getter_returns_stored (s : AS) (c : Core) :
    (getLowerBounds s c false).2.2 = (rSUCCESS, (c.view.lb).getD []) ∧
    (getUpperBounds s c false).2.2 = (rSUCCESS, (c.view.ub).getD []) ∧
    (getXtolAbs s c false).2.2 =
      (rSUCCESS, match c.view.xtolAbs with | some v => v | none => List.replicate c.n F64.zero) ∧
    (getXWeights s c false).2.2 =
      (rSUCCESS, match c.view.xWeights with | some v => v | none => List.replicate c.n F64.one) ∧
    (getLowerBounds s c false).2.1.view = c.view ∧ (getUpperBounds s c false).2.1.view = c.view ∧
    (getXtolAbs s c false).2.1.view = c.view ∧ (getXWeights s c false).2.1.view = c.view :=
  ⟨(getter_returns_stored_bounds s c).1, (getter_returns_stored_bounds s c).2, getter_returns_stored_xtolAbs s c,
    getter_returns_stored_xWeights s c, getLowerBounds_view s c false, getUpperBounds_view s c false,
    getXtolAbs_view s c false, getXWeights_view s c false⟩

/-! parameters: lookup after update -/

theorem getParam_view (c : Core) (nm : String) (d : F64) :
    getParam c (some nm) d =
      (if nm.utf8ByteSize ≥ 1024 then d
       else match c.view.params.find? (fun q => q.1 == nm) with | some q => q.2 | none => d) := by
  simp only [getParam, Core.view, List.find?_map, Function.comp_def]
  split
  · rfl
  · cases c.params.find? (fun p => p.name == nm) <;> rfl

/-- the update performed by `nlopt_set_param` on the (name, value) list -/
def updParams (l : List (String × F64)) (nm : String) (x : F64) : List (String × F64) :=
  match l.findIdx? (fun q => q.1 == nm) with
  | some i => l.modify i (fun q => (q.1, x))
  | none => l ++ [(nm, x)]

theorem updParams_cons (q : String × F64) (l : List (String × F64)) (nm : String) (x : F64) :
    updParams (q :: l) nm x = if q.1 == nm then (q.1, x) :: l else q :: updParams l nm x := by
  unfold updParams
  by_cases h : (q.1 == nm) = true
  · simp [List.findIdx?_cons, h]
  · simp only [List.findIdx?_cons, h, Bool.false_eq_true, if_false]
    cases hi : l.findIdx? (fun q => q.1 == nm) <;> simp [hi, List.modify_cons]

theorem find_updParams_same (l : List (String × F64)) (nm : String) (x : F64) :
    ((updParams l nm x).find? (fun q => q.1 == nm)).map (·.2) = some x := by
  induction l with
  | nil => simp [updParams]
  | cons q l ih =>
    rw [updParams_cons]
    by_cases h : (q.1 == nm) = true
    · simp [h]
    · simp [h, ih]

theorem find_updParams_other (l : List (String × F64)) (nm nm' : String) (x : F64) (hne : nm' ≠ nm) :
    ((updParams l nm x).find? (fun q => q.1 == nm')).map (·.2) = (l.find? (fun q => q.1 == nm')).map (·.2) := by
  induction l with
  | nil =>
    have : (nm == nm') = false := by simpa using fun e => hne e.symm
    simp [updParams, this]
  | cons q l ih =>
    rw [updParams_cons]
    by_cases h : (q.1 == nm) = true
    · have hq : q.1 = nm := by simpa using h
      have : (q.1 == nm') = false := by simpa [hq] using fun e => hne e.symm
      simp [h, this]
    · by_cases h' : (q.1 == nm') = true
      · simp [h, h']
      · simp [h, h', ih]

/-- `nlopt_get_param` returns the value of the last successful `nlopt_set_param` of that name … -/
theorem getParam_after_setParam (s : AS) (c : Core) (nm : String) (x d : F64)
    (hr : (setParam s c (some nm) x).2.2 = rSUCCESS) :
    getParam (setParam s c (some nm) x).2.1 (some nm) d = x := by
  have hlen : ¬ nm.utf8ByteSize ≥ 1024 := by
    intro h
    unfold setParam at hr
    simp only [] at hr
    rw [if_pos (by omega)] at hr
    simp [rINVALID, rSUCCESS] at hr
  rw [getParam_view, setter_stores_setParam s c nm x hr, if_neg hlen]
  have := find_updParams_same c.view.params nm x
  simp only [updParams] at this
  generalize (match List.findIdx? (fun q => q.1 == nm) c.view.params with
      | some i => c.view.params.modify i (fun q => (q.1, x))
      | none => c.view.params ++ [(nm, x)]) = L at *
  cases hf : L.find? (fun q => q.1 == nm) <;> simp_all

/-- … and a call for one name never changes what is returned for another name (whatever the call returns) -/
theorem getParam_after_setParam_other (s : AS) (c : Core) (nm nm' : String) (x d : F64) (hne : nm' ≠ nm) :
    getParam (setParam s c (some nm) x).2.1 (some nm') d = getParam c (some nm') d := by
  rw [getParam_view, getParam_view]
  by_cases hr : (setParam s c (some nm) x).2.2 = rSUCCESS
  · rw [setter_stores_setParam s c nm x hr]
    have := find_updParams_other c.view.params nm nm' x hne
    simp only [updParams] at this
    generalize (match List.findIdx? (fun q => q.1 == nm) c.view.params with
        | some i => c.view.params.modify i (fun q => (q.1, x))
        | none => c.view.params ++ [(nm, x)]) = L at *
    split
    · rfl
    · cases hf : L.find? (fun q => q.1 == nm') <;> cases hg : c.view.params.find? (fun q => q.1 == nm') <;> simp_all
  · have hneg : (setParam s c (some nm) x).2.2 < 0 := by
      generalize hres : setParam s c (some nm) x = res at hr ⊢
      unfold setParam at hres
      simp only [] at hres
      repeat' split at hres
      all_goals subst hres
      all_goals simp_all [rSUCCESS, rINVALID, rOOM]
    rw [setParam_fail s c (some nm) x hneg]

/-- unset parameters: the caller's default -/
theorem getParam_default (c : Core) (nm : String) (d : F64)
    (h : ∀ q ∈ c.view.params, q.1 ≠ nm) : getParam c (some nm) d = d := by
  rw [getParam_view]
  split
  · rfl
  · have : c.view.params.find? (fun q => q.1 == nm) = none := by
      simp only [List.find?_eq_none]
      intro q hq; simpa using h q hq
    simp [this]


/-! ## bounds_collapse_tiny: a bound pair closer than the smallest normal number is collapsed -/

theorem collapseLb_getElem? (A : Arith) (lb ub : List F64) (i : Nat) (l u : F64)
    (hl : lb[i]? = some l) (hu : ub[i]? = some u) :
    (collapseLb A lb ub)[i]? = some (if tinyGap A l u then u else l) := by
  simp [collapseLb, List.getElem?_zipWith, hl, hu]

theorem collapseUb_getElem? (A : Arith) (lb ub : List F64) (i : Nat) (l u : F64)
    (hl : lb[i]? = some l) (hu : ub[i]? = some u) :
    (collapseUb A lb ub)[i]? = some (if tinyGap A l u then l else u) := by
  simp [collapseUb, List.getElem?_zipWith, hl, hu]

theorem stored_lb {c c' : Core} {X : List F64}
    (h : c'.view = { c.view with lb := c.view.lb.map (fun _ => X) }) (hlb : c.lb.isSome = true) :
    arrV c'.lb = X ∧ arrV c'.ub = arrV c.ub := by
  have h1 := congrArg CoreView.lb h
  have h2 := congrArg CoreView.ub h
  simp only [Core.view] at h1 h2
  rw [arrV_eq, arrV_eq, arrV_eq, h1, h2]
  cases hc : c.lb <;> simp_all

theorem stored_ub {c c' : Core} {X : List F64}
    (h : c'.view = { c.view with ub := c.view.ub.map (fun _ => X) }) (hub : c.ub.isSome = true) :
    arrV c'.ub = X ∧ arrV c'.lb = arrV c.lb := by
  have h1 := congrArg CoreView.lb h
  have h2 := congrArg CoreView.ub h
  simp only [Core.view] at h1 h2
  rw [arrV_eq, arrV_eq, arrV_eq, h1, h2]
  cases hc : c.ub <;> simp_all

/-- `tinyGap A l u` is the C test `l < u && nlopt_istiny(u - l)` -/
theorem tinyGap_iff (A : Arith) (l u : F64) : tinyGap A l u = true ↔ (F64.lt l u = true ∧ (A.sub u l).isTiny = true) := by
  simp [tinyGap]

/-- **`nlopt_set_lower_bounds`**: for every coordinate `i` written (`l` = the value written, `u` = the stored
    upper bound): the stored lower bound is `l`, unless `l < u` and `u - l` is tiny, in which case it is `u` — the
    stored pair is then equal; the upper bound is untouched (the lower bound moves) -/
theorem bounds_collapse_tiny_setLowerBounds (A : Arith) (s : AS) (c : Core) (arg : Option (List F64))
    (hr : (setLowerBounds A s c arg).2.2 = rSUCCESS) (hlb : c.lb.isSome = true) (i : Nat) (l u : F64)
    (hl : (if c.n > 0 then (arg.getD []).take c.n else arrV c.lb)[i]? = some l) (hu : (arrV c.ub)[i]? = some u) :
    (arrV (setLowerBounds A s c arg).2.1.lb)[i]? = some (if tinyGap A l u then u else l) ∧
    (arrV (setLowerBounds A s c arg).2.1.ub)[i]? = some u ∧
    ((F64.lt l u = true ∧ (A.sub u l).isTiny = true) →
      (arrV (setLowerBounds A s c arg).2.1.lb)[i]? = (arrV (setLowerBounds A s c arg).2.1.ub)[i]?) := by
  obtain ⟨e1, e2⟩ := stored_lb (setter_stores_setLowerBounds A s c arg hr) hlb
  rw [e1, e2, collapseLb_getElem? A _ _ i l u hl hu]
  refine ⟨rfl, hu, fun h => ?_⟩
  rw [hu, if_pos ((tinyGap_iff A l u).mpr h)]

theorem bounds_collapse_tiny_setLowerBounds1 (A : Arith) (s : AS) (c : Core) (x : F64)
    (hlb : c.lb.isSome = true) (i : Nat) (u : F64) (hi : i < c.n) (hu : (arrV c.ub)[i]? = some u) :
    (setLowerBounds1 A s c x).2.2 = rSUCCESS ∧
    (arrV (setLowerBounds1 A s c x).2.1.lb)[i]? = some (if tinyGap A x u then u else x) ∧
    (arrV (setLowerBounds1 A s c x).2.1.ub)[i]? = some u ∧
    ((F64.lt x u = true ∧ (A.sub u x).isTiny = true) →
      (arrV (setLowerBounds1 A s c x).2.1.lb)[i]? = (arrV (setLowerBounds1 A s c x).2.1.ub)[i]?) := by
  have hr : (setLowerBounds1 A s c x).2.2 = rSUCCESS := by simp [setLowerBounds1]
  obtain ⟨e1, e2⟩ := stored_lb (setter_stores_setLowerBounds1 A s c x hr) hlb
  have hl : (List.replicate c.n x)[i]? = some x := by simp [hi]
  rw [e1, e2, collapseLb_getElem? A _ _ i x u hl hu]
  refine ⟨hr, rfl, hu, fun h => ?_⟩
  rw [hu, if_pos ((tinyGap_iff A x u).mpr h)]

theorem bounds_collapse_tiny_setLowerBound (A : Arith) (s : AS) (c : Core) (i : Int) (x : F64)
    (hr : (setLowerBound A s c i x).2.2 = rSUCCESS) (hlb : c.lb.isSome = true) (u : F64)
    (hi : i.toNat < (arrV c.lb).length) (hu : (arrV c.ub)[i.toNat]? = some u) :
    (arrV (setLowerBound A s c i x).2.1.lb)[i.toNat]? = some (if tinyGap A x u then u else x) ∧
    (arrV (setLowerBound A s c i x).2.1.ub)[i.toNat]? = some u ∧
    ((F64.lt x u = true ∧ (A.sub u x).isTiny = true) →
      (arrV (setLowerBound A s c i x).2.1.lb)[i.toNat]? = (arrV (setLowerBound A s c i x).2.1.ub)[i.toNat]?) := by
  obtain ⟨e1, e2⟩ := stored_lb (setter_stores_setLowerBound A s c i x hr) hlb
  have hg : (arrV c.ub).getD i.toNat F64.zero = u := by simp [List.getD_eq_getElem?_getD, hu]
  rw [e1, e2, hg]
  refine ⟨by simp [hi], hu, fun h => ?_⟩
  rw [hu, if_pos ((tinyGap_iff A x u).mpr h)]
  simp [hi]

/-- **`nlopt_set_upper_bounds`**: symmetric — here the UPPER bound moves to the lower bound -/
theorem bounds_collapse_tiny_setUpperBounds (A : Arith) (s : AS) (c : Core) (arg : Option (List F64))
    (hr : (setUpperBounds A s c arg).2.2 = rSUCCESS) (hub : c.ub.isSome = true) (i : Nat) (l u : F64)
    (hl : (arrV c.lb)[i]? = some l) (hu : (if c.n > 0 then (arg.getD []).take c.n else arrV c.ub)[i]? = some u) :
    (arrV (setUpperBounds A s c arg).2.1.ub)[i]? = some (if tinyGap A l u then l else u) ∧
    (arrV (setUpperBounds A s c arg).2.1.lb)[i]? = some l ∧
    ((F64.lt l u = true ∧ (A.sub u l).isTiny = true) →
      (arrV (setUpperBounds A s c arg).2.1.lb)[i]? = (arrV (setUpperBounds A s c arg).2.1.ub)[i]?) := by
  obtain ⟨e1, e2⟩ := stored_ub (setter_stores_setUpperBounds A s c arg hr) hub
  rw [e1, e2, collapseUb_getElem? A _ _ i l u hl hu]
  refine ⟨rfl, hl, fun h => ?_⟩
  rw [hl, if_pos ((tinyGap_iff A l u).mpr h)]

theorem bounds_collapse_tiny_setUpperBounds1 (A : Arith) (s : AS) (c : Core) (x : F64)
    (hub : c.ub.isSome = true) (i : Nat) (l : F64) (hi : i < c.n) (hl : (arrV c.lb)[i]? = some l) :
    (setUpperBounds1 A s c x).2.2 = rSUCCESS ∧
    (arrV (setUpperBounds1 A s c x).2.1.ub)[i]? = some (if tinyGap A l x then l else x) ∧
    (arrV (setUpperBounds1 A s c x).2.1.lb)[i]? = some l ∧
    ((F64.lt l x = true ∧ (A.sub x l).isTiny = true) →
      (arrV (setUpperBounds1 A s c x).2.1.lb)[i]? = (arrV (setUpperBounds1 A s c x).2.1.ub)[i]?) := by
  have hr : (setUpperBounds1 A s c x).2.2 = rSUCCESS := by simp [setUpperBounds1]
  obtain ⟨e1, e2⟩ := stored_ub (setter_stores_setUpperBounds1 A s c x hr) hub
  have hu : (List.replicate c.n x)[i]? = some x := by simp [hi]
  rw [e1, e2, collapseUb_getElem? A _ _ i l x hl hu]
  refine ⟨hr, rfl, hl, fun h => ?_⟩
  rw [hl, if_pos ((tinyGap_iff A l x).mpr h)]

theorem bounds_collapse_tiny_setUpperBound (A : Arith) (s : AS) (c : Core) (i : Int) (x : F64)
    (hr : (setUpperBound A s c i x).2.2 = rSUCCESS) (hub : c.ub.isSome = true) (l : F64)
    (hi : i.toNat < (arrV c.ub).length) (hl : (arrV c.lb)[i.toNat]? = some l) :
    (arrV (setUpperBound A s c i x).2.1.ub)[i.toNat]? = some (if tinyGap A l x then l else x) ∧
    (arrV (setUpperBound A s c i x).2.1.lb)[i.toNat]? = some l ∧
    ((F64.lt l x = true ∧ (A.sub x l).isTiny = true) →
      (arrV (setUpperBound A s c i x).2.1.lb)[i.toNat]? = (arrV (setUpperBound A s c i x).2.1.ub)[i.toNat]?) := by
  obtain ⟨e1, e2⟩ := stored_ub (setter_stores_setUpperBound A s c i x hr) hub
  have hg : (arrV c.lb).getD i.toNat F64.zero = l := by simp [List.getD_eq_getElem?_getD, hl]
  rw [e1, e2, hg]
  refine ⟨by simp [hi], hl, fun h => ?_⟩
  rw [hl, if_pos ((tinyGap_iff A l x).mpr h)]
  simp [hi]

/-! ## default_step_nonzero_finite -/

theorem final_step_guard (t : F64) :
    (if t.isInf || F64.feq t F64.zero then F64.one else t).isInf = false ∧
    F64.feq (if t.isInf || F64.feq t F64.zero then F64.one else t) F64.zero = false := by
  have h1 : F64.one.isInf = false := by decide
  have h2 : F64.feq F64.one F64.zero = false := by decide
  split
  · exact ⟨h1, h2⟩
  · rename_i h
    simpa using h

/-- **The default initial step is never infinite and never zero** (`step == 0` in the IEEE sense), for every
    arithmetic, every pair of bounds and every `x` — the last two lines of the C heuristic enforce exactly
    this.  Nothing more is true in general: the result may be NaN (if `x` or an arithmetic result is NaN —
    NaN is neither infinite nor `== 0`) and it may be subnormal (a tiny non-zero `x` is taken as is). -/
theorem default_step_nonzero_finite (A : Arith) (lb ub x : F64) :
    (defaultStep1 A lb ub x).isInf = false ∧ F64.feq (defaultStep1 A lb ub x) F64.zero = false :=
  final_step_guard _


example : (defaultStep1 arithTriv F64.negInf F64.posInf F64.qnan).isNaN = true := by decide
example : (defaultStep1 arithTriv F64.negInf F64.posInf ⟨1⟩).isTiny = true ∧
    F64.feq (defaultStep1 arithTriv F64.negInf F64.posInf ⟨1⟩) F64.zero = false := by decide

/-! ## alg_dim_immutable -/

theorem ident_of_view {c c' : Core} (h : c'.view = c.view) : c'.ident = c.ident := by
  have h1 := congrArg CoreView.algorithm h
  have h2 := congrArg CoreView.n h
  simp only [Core.view] at h1 h2
  simp [Core.ident, h1, h2]

theorem addCon_ident (caps : List Nat) (eq : Bool) (s : AS) (c : Core) (fm : Nat) (isVec : Bool)
    (fid pre fdata : Nat) (tol : Option (List F64)) :
    (addCon caps eq s c fm isVec fid pre fdata tol).2.1.ident = c.ident := by
  unfold addCon
  by_cases hh : (isVec = true ∧ fm = 0)
  · rw [if_pos hh]; simp
  · rw [if_neg hh]
    simp only []
    unfold addConCore
    by_cases hcap : (!caps.contains (unsetErrmsg s c).2.algorithm) = true
    · rw [if_pos hcap]; simp
    · rw [if_neg hcap]
      by_cases heq : eq = true
      · rw [if_pos heq]
        have := ident_of_view (addConstraint_view (unsetErrmsg s c).1 (unsetErrmsg s c).2 (unsetErrmsg s c).2.h
          (unsetErrmsg s c).2.pAlloc (unsetErrmsg s c).2.hBlk fm isVec fid pre fdata tol)
        rw [unsetErrmsg_ident] at this
        exact this
      · rw [if_neg heq]
        have := ident_of_view (addConstraint_view (unsetErrmsg s c).1 (unsetErrmsg s c).2 (unsetErrmsg s c).2.fc
          (unsetErrmsg s c).2.mAlloc (unsetErrmsg s c).2.fcBlk fm isVec fid pre fdata tol)
        rw [unsetErrmsg_ident] at this
        exact this

theorem setLocalOptimizer_ident (A : Arith) (s : AS) (o : Obj) (lo : Option Obj) :
    (setLocalOptimizer A s o lo).2.1.core.ident = o.core.ident := by
  unfold setLocalOptimizer
  simp only []
  (repeat' split) <;> simp

theorem onCore_ident (w : World) (slot : Option Nat) (nr : Int) (f : AS → Core → AS × Core × Int)
    (hf : ∀ s c, (f s c).2.1.ident = c.ident) (i : Nat) (o : Obj) (hg : w.get (some i) = some o) :
    ∃ o', (onCore w slot nr f).1.get (some i) = some o' ∧ o'.core.ident = o.core.ident := by
  unfold onCore
  cases slot with
  | none => exact ⟨o, hg, rfl⟩
  | some j =>
    cases hj : w.get (some j) with
    | none => exact ⟨o, hg, rfl⟩
    | some oj =>
      simp only []
      rw [World.get_set]
      by_cases hij : i = j
      · subst hij
        have hlt := World.get_some_lt hg
        rw [hj] at hg
        simp only [Option.some.injEq] at hg
        subst hg
        simp only [World.set_slots_length, hlt, and_self, if_true]
        exact ⟨_, rfl, hf _ _⟩
      · simp only [hij, false_and, if_false, World.get_as]
        exact ⟨o, hg, rfl⟩

theorem onCoreOut_ident (w : World) (slot : Option Nat) (f : AS → Core → AS × Core × Int × List F64)
    (hf : ∀ s c, (f s c).2.1.ident = c.ident) (i : Nat) (o : Obj) (hg : w.get (some i) = some o) :
    ∃ o', (onCoreOut w slot f).1.get (some i) = some o' ∧ o'.core.ident = o.core.ident := by
  unfold onCoreOut
  cases slot with
  | none => exact ⟨o, hg, rfl⟩
  | some j =>
    cases hj : w.get (some j) with
    | none => exact ⟨o, hg, rfl⟩
    | some oj =>
      simp only []
      rw [World.get_set]
      by_cases hij : i = j
      · subst hij
        have hlt := World.get_some_lt hg
        rw [hj] at hg
        simp only [Option.some.injEq] at hg
        subst hg
        simp only [World.set_slots_length, hlt, and_self, if_true]
        exact ⟨_, rfl, hf _ _⟩
      · simp only [hij, false_and, if_false, World.get_as]
        exact ⟨o, hg, rfl⟩

/-- the operations that create, replace or remove whole objects -/
def Op.isLifecycle : Op → Bool
  | .create _ _ _ | .copy _ _ | .destroy _ => true
  | _ => false

theorem alg_dim_raw (A : Arith) (w : World) (op : Op) (hop : Op.isLifecycle op = false)
    (i : Nat) (o : Obj) (hg : w.get (some i) = some o) :
    ∃ o', (applyOpRaw A w op).1.get (some i) = some o' ∧ o'.core.ident = o.core.ident := by
  cases op with
  | oracle k => exact ⟨o, by simpa [applyOpRaw] using hg, rfl⟩
  | mcfail k => exact ⟨o, by simpa [applyOpRaw] using hg, rfl⟩
  | create dst alg n => simp [Op.isLifecycle] at hop
  | destroy slot => simp [Op.isLifecycle] at hop
  | copy src dst => simp [Op.isLifecycle] at hop
  | setObjective slot f pre fdata mx => exact onCore_ident _ _ _ _ (fun s c => setObjective_ident s c f pre fdata mx) i o hg
  | setLb slot arg => exact onCore_ident _ _ _ _ (fun s c => setLowerBounds_ident A s c arg) i o hg
  | setUb slot arg => exact onCore_ident _ _ _ _ (fun s c => setUpperBounds_ident A s c arg) i o hg
  | setLb1 slot x => exact onCore_ident _ _ _ _ (fun s c => setLowerBounds1_ident A s c x) i o hg
  | setUb1 slot x => exact onCore_ident _ _ _ _ (fun s c => setUpperBounds1_ident A s c x) i o hg
  | setLbi slot k x => exact onCore_ident _ _ _ _ (fun s c => setLowerBound_ident A s c k x) i o hg
  | setUbi slot k x => exact onCore_ident _ _ _ _ (fun s c => setUpperBound_ident A s c k x) i o hg
  | getLb slot nul => exact onCoreOut_ident _ _ _ (fun s c => ident_of_view (getLowerBounds_view s c nul)) i o hg
  | getUb slot nul => exact onCoreOut_ident _ _ _ (fun s c => ident_of_view (getUpperBounds_view s c nul)) i o hg
  | getXtolAbs slot nul => exact onCoreOut_ident _ _ _ (fun s c => ident_of_view (getXtolAbs_view s c nul)) i o hg
  | getXw slot nul => exact onCoreOut_ident _ _ _ (fun s c => ident_of_view (getXWeights_view s c nul)) i o hg
  | addCon slot eq m isVec f pre fdata tol =>
    exact onCore_ident _ _ _ _ (fun s c => addCon_ident _ eq s c m isVec f pre fdata tol) i o hg
  | rmIneq slot => exact onCore_ident _ _ _ _ (fun s c => removeIneq_ident s c) i o hg
  | rmEq slot => exact onCore_ident _ _ _ _ (fun s c => removeEq_ident s c) i o hg
  | setScalar slot v =>
    refine onCore_ident _ _ _ _ (fun s c => ?_) i o hg
    simp only [setScalar]
    rw [← unsetErrmsg_ident s c]
    cases v <;> rfl
  | setXtolAbs slot arg => exact onCore_ident _ _ _ _ (fun s c => setXtolAbs_ident s c arg) i o hg
  | setXtolAbs1 slot x => exact onCore_ident _ _ _ _ (fun s c => setXtolAbs1_ident s c x) i o hg
  | setXw slot arg => exact onCore_ident _ _ _ _ (fun s c => setXWeights_ident s c arg) i o hg
  | setXw1 slot x => exact onCore_ident _ _ _ _ (fun s c => setXWeights1_ident s c x) i o hg
  | setDx slot arg => exact onCore_ident _ _ _ _ (fun s c => setInitialStep_ident s c arg) i o hg
  | setDx1 slot x => exact onCore_ident _ _ _ _ (fun s c => setInitialStep1_ident s c x) i o hg
  | setDefaultDx slot x => exact onCore_ident _ _ _ _ (fun s c => setDefaultInitialStep_ident A s c x) i o hg
  | getDx slot x => exact onCoreOut_ident _ _ _ (fun s c => ident_of_view (getInitialStep_view A s c x)) i o hg
  | setMunge slot d c =>
    simp only [applyOpRaw]
    cases slot with
    | none => exact ⟨o, hg, rfl⟩
    | some j =>
      cases hj : w.get (some j) with
      | none => exact ⟨o, hg, rfl⟩
      | some oj =>
        simp only []
        rw [World.get_set]
        by_cases hij : i = j
        · subst hij
          have hlt := World.get_some_lt hg
          rw [hj] at hg
          simp only [Option.some.injEq] at hg
          subst hg
          simp only [hlt, and_self, if_true]
          exact ⟨_, rfl, rfl⟩
        · simp only [hij, false_and, if_false]
          exact ⟨o, hg, rfl⟩
  | setParam slot nm x => exact onCore_ident _ _ _ _ (fun s c => setParam_ident s c nm x) i o hg
  | setLocal slot lo =>
    simp only [applyOpRaw]
    cases slot with
    | none => exact ⟨o, hg, rfl⟩
    | some j =>
      cases hj : w.get (some j) with
      | none => exact ⟨o, hg, rfl⟩
      | some oj =>
        simp only []
        rw [World.get_set]
        by_cases hij : i = j
        · subst hij
          have hlt := World.get_some_lt hg
          rw [hj] at hg
          simp only [Option.some.injEq] at hg
          subst hg
          simp only [World.set_slots_length, hlt, and_self, if_true]
          exact ⟨_, rfl, setLocalOptimizer_ident A _ _ _⟩
        · simp only [hij, false_and, if_false, World.get_as]
          exact ⟨o, hg, rfl⟩

/-- **Algorithm and dimension never change.**  For every API call other than create / copy / destroy (which
    install, replace or remove whole objects), every world and every slot: a slot that holds an object before
    the call holds an object after it, with the same algorithm and the same dimension. -/
theorem alg_dim_immutable (A : Arith) (w : World) (op : Op) (hop : Op.isLifecycle op = false)
    (i : Nat) (o : Obj) (hg : w.get (some i) = some o) :
    ∃ o', (applyOp A w op).1.get (some i) = some o' ∧
      o'.core.algorithm = o.core.algorithm ∧ o'.core.n = o.core.n := by
  obtain ⟨o', h1, h2⟩ := alg_dim_raw A w op hop i o hg
  simp only [Core.ident, Prod.mk.injEq] at h2
  refine ⟨o', ?_, h2.1, h2.2⟩
  unfold applyOp
  cases op <;> simp only [] <;> first | exact h1 | (simpa [World.get] using h1)

/-- … hence along every history without lifecycle operations -/
theorem alg_dim_immutable_history (A : Arith) (ops : List Op) (hops : ∀ op ∈ ops, Op.isLifecycle op = false)
    (w : World) (i : Nat) (o : Obj) (hg : w.get (some i) = some o) :
    ∃ o', (runOps A w ops).get (some i) = some o' ∧
      o'.core.algorithm = o.core.algorithm ∧ o'.core.n = o.core.n := by
  induction ops generalizing w o with
  | nil => exact ⟨o, hg, rfl, rfl⟩
  | cons op ops ih =>
    obtain ⟨o1, h1, ha, hn⟩ := alg_dim_immutable A w op (hops op (by simp)) i o hg
    obtain ⟨o2, h2, ha2, hn2⟩ := ih (fun op' h => hops op' (by simp [h])) (applyOp A w op).1 o1 h1
    exact ⟨o2, by simpa [runOps] using h2, ha2.trans ha, hn2.trans hn⟩


/-! ## copy_equal, copy_fresh_blocks -/

theorem map_view_eq (ch ch' : List Core) (h1 : ch'.map (·.view.noData) = ch.map (·.view.noData))
    (h2 : ch'.map Core.held = ch.map Core.held) : ch'.map Core.view = ch.map Core.view := by
  induction ch generalizing ch' with
  | nil => simpa using h1
  | cons c ch ih =>
    cases ch' with
    | nil => simp at h1
    | cons c' ch' =>
      simp only [List.map_cons, List.cons.injEq] at h1 h2 ⊢
      exact ⟨view_eq_of_noData_held h1.1 h2.1, ih ch' h1.2 h2.2⟩

/-- **`nlopt_copy` yields an object equal in every getter.**  If `nlopt_copy` succeeds on a well-formed object
    (with its chain of nested local optimizers), then, object by object:

    * everything the getters can observe — algorithm, dimension, objective and preconditioner ids, maximize
      flag, every parameter, the bound / tolerance / weight / initial-step ARRAYS (by value), every constraint
      (dimension, kind, function ids, tolerances by value), both hooks, stopval and all tolerances, maxeval,
      **numevals**, maxtime, **force_stop** (`*nopt = *opt` copies these two as well), population, vector storage —
      is equal, up to the user-data pointers;
    * the user-data pointers are those of `chainIds` (the copy hook's results where installed — C15);
    * hence, when no object of the chain has a copy hook, the copy is equal in EVERY getter.

    (The error message is not copied; it is not part of the view.) -/
theorem copy_equal (s : AS) (ch ch' : List Core) (hwf : ∀ c ∈ ch, c.wf) (h : (copyChain s ch).2 = some ch') :
    ch'.map (·.view.noData) = ch.map (·.view.noData) ∧
    ch'.map Core.held = (chainIds s.nextData ch).1 ∧
    ((∀ c ∈ ch, c.mungeC = false) → ch'.map Core.view = ch.map Core.view) := by
  have h1 := copyChain_view s ch ch' hwf h
  have h2 := ((copyChain_hooks s ch).2.1 ch' h).held
  refine ⟨h1, h2, fun hm => map_view_eq ch ch' h1 ?_⟩
  rw [h2, chainIds_nohook _ ch hm]

/-- `nlopt_create` builds a well-formed object (the hypothesis of `copy_equal`) -/
theorem create_wf (A : Arith) (s : AS) (alg : Int) (n : Nat) (o : Obj) (h : (create A s alg n).2 = some o) :
    o.core.wf ∧ o.locals = [] := by
  generalize hres : create A s alg n = res at h
  unfold create setLowerBounds1 setUpperBounds1 at hres
  simp only [unsetErrmsg_snd] at hres
  repeat' split at hres
  all_goals subst hres
  all_goals first
    | (simp at h; done)
    | (simp only [Option.some.injEq] at h
       subst h
       simp_all [Core.wf, setArrV]
       try omega)

/-- **The copy shares no memory with anything that existed before**: every block owned by a successful copy
    (the object structs, every array, every tolerance array, the constraint and parameter tables, every
    parameter name) was allocated during the call — its id is `≥` the allocator's counter before the call —
    hence it is distinct from every block of every object whose blocks are all older. -/
theorem copy_fresh_blocks (s : AS) (ch ch' : List Core) (h : (copyChain s ch).2 = some ch') :
    (∀ nc ∈ ch', ∀ b ∈ nc.blocks, s.next ≤ b) ∧
    (∀ o : Core, (∀ b ∈ o.blocks, b < s.next) → ∀ nc ∈ ch', ∀ b ∈ nc.blocks, b ∉ o.blocks) := by
  have h1 := (copyChain_blocks s.next s ch ch' (Nat.le_refl _) h).1
  refine ⟨h1, fun o ho nc hnc b hb hbo => ?_⟩
  have := h1 nc hnc b hb
  have := ho b hbo
  omega

/-- an API call addressed to one slot never touches an object in another slot: modifying or destroying
    the copy does not affect the original (and vice versa) -/
def Op.writes : Op → Option Nat
  | .oracle _ | .mcfail _ => none
  | .create dst _ _ => some dst
  | .destroy slot => slot
  | .copy _ dst => some dst
  | .setObjective slot _ _ _ _ | .setLb slot _ | .setUb slot _ | .setLb1 slot _ | .setUb1 slot _
  | .setLbi slot _ _ | .setUbi slot _ _ | .getLb slot _ | .getUb slot _ | .getXtolAbs slot _ | .getXw slot _
  | .addCon slot _ _ _ _ _ _ _ | .rmIneq slot | .rmEq slot | .setScalar slot _ | .setXtolAbs slot _
  | .setXtolAbs1 slot _ | .setXw slot _ | .setXw1 slot _ | .setDx slot _ | .setDx1 slot _
  | .setDefaultDx slot _ | .getDx slot _ | .setMunge slot _ _ | .setParam slot _ _ | .setLocal slot _ => slot

theorem onCore_frame (w : World) (slot : Option Nat) (nr : Int) (f : AS → Core → AS × Core × Int) (i : Nat)
    (hi : slot ≠ some i) : (onCore w slot nr f).1.get (some i) = w.get (some i) := by
  unfold onCore
  split
  · rename_i j o hj
    simp only []
    rw [World.get_set]
    have : ¬ (i = j) := fun e => hi (by rw [e])
    simp [this]
  · rfl

theorem onCoreOut_frame (w : World) (slot : Option Nat) (f : AS → Core → AS × Core × Int × List F64) (i : Nat)
    (hi : slot ≠ some i) : (onCoreOut w slot f).1.get (some i) = w.get (some i) := by
  unfold onCoreOut
  split
  · rename_i j o hj
    simp only []
    rw [World.get_set]
    have : ¬ (i = j) := fun e => hi (by rw [e])
    simp [this]
  · rfl

theorem copy_independent (A : Arith) (w : World) (op : Op) (i : Nat) (hi : Op.writes op ≠ some i) :
    (applyOp A w op).1.get (some i) = w.get (some i) := by
  have hraw : (applyOpRaw A w op).1.get (some i) = w.get (some i) := by
    cases op
    case oracle => rfl
    case mcfail => rfl
    case create dst alg n =>
      have : ¬ (i = dst) := fun e => hi (by rw [e]; rfl)
      simp [applyOpRaw, World.get_set, this]
    case destroy slot =>
      simp only [applyOpRaw]
      split
      · rename_i j o hj
        have : ¬ (i = j) := fun e => hi (by rw [e]; rfl)
        simp [World.get_set, this]
      · rfl
    case copy src dst =>
      have : ¬ (i = dst) := fun e => hi (by rw [e]; rfl)
      simp only [applyOpRaw]
      split <;> simp [World.get_set, this]
    case setMunge slot d c =>
      simp only [applyOpRaw]
      split
      · rename_i j o hj
        have : ¬ (i = j) := fun e => hi (by rw [e]; rfl)
        simp [World.get_set, this]
      · rfl
    case setLocal slot lo =>
      simp only [applyOpRaw]
      split
      · rename_i j o hj
        have : ¬ (i = j) := fun e => hi (by rw [e]; rfl)
        simp [World.get_set, this]
      · rfl
    all_goals first
      | exact onCore_frame _ _ _ _ i hi
      | exact onCoreOut_frame _ _ _ i hi
  unfold applyOp
  cases op <;> simp only [] <;> first | exact hraw | (simpa [World.get] using hraw)

end Nlopt.C14
