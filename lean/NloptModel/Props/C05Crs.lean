import NloptModel.Model.Crs
import NloptModel.Lemmas.F64Order
/-!
# C05 (CRS) — Controlled Random Search reports the best value it ever evaluated

`run init trials` is the population (list of objective values) of `crs_minimize` after the initial points `init` and the
trial values `trials` (any number, any values: `random_trial` only proposes the points); `result init trials` is the
minimal value of the tree, which is what `crs_minimize` reports.

Results.

* `crs_members` (`crs_mem`, `crs_length`) — the population only ever holds evaluated values and its size never changes
  (no hypothesis at all, not even `init ≠ []`).
* `crs_best_is_min` — for `init ≠ []` and `NoNaN (init ++ trials)`: the reported value is one of the evaluated values
  and no evaluated value is better.
* `crs_best_is_min_head` — the same at full strength: all that is needed is that the FIRST initial value is a number
  (`HeadNum init`).  NaN values anywhere else (later initial points, trials) are harmless: they are never the best,
  never the worst, a NaN trial is always rejected, and the reported value is a number `≤` every evaluated NUMBER.
* `crs_best_is_min_nan_false` — the hypothesis cannot be dropped: a NaN as first initial value stays `worst` and `best`
  for ever, every trial is rejected and NaN is reported although `1.0` was evaluated.
* step facts: `crs_trial_accept_iff`, `crs_trial_reject_iff`, `crs_best_mono`, `crs_replace_best_key` (`best` after
  replacing the worst by a strictly smaller value is `min (best pop) f`, as keys), `crs_replace_new_best` (bit-exact
  when the trial is a new strict best), `crs_best_trial_key`, `crs_rejected_not_better`.

All conclusions are stated with the IEEE comparisons / the sign-magnitude `key`, so `-0.0` vs `+0.0` and `±Inf` are fine.
-/
set_option linter.unusedSimpArgs false
set_option linter.unusedVariables false
namespace Nlopt.C05Crs
open Nlopt Nlopt.Crs Nlopt.F64

/-! ## Hypotheses -/

/-- every value is a number -/
def NoNaN (l : List F64) : Prop := ∀ e ∈ l, e.isNaN = false

/-- the list is non-empty and its FIRST value is a number (all the proofs need; implied by `NoNaN l ∧ l ≠ []`) -/
def HeadNum (l : List F64) : Prop := ∃ a t, l = a :: t ∧ a.isNaN = false

theorem NoNaN.headNum {l : List F64} (hn : NoNaN l) (hne : l ≠ []) : HeadNum l := by
  cases l with
  | nil => exact absurd rfl hne
  | cons a t => exact ⟨a, t, rfl, hn a (by simp)⟩

theorem HeadNum.ne_nil {l : List F64} (h : HeadNum l) : l ≠ [] := by
  obtain ⟨a, t, rfl, _⟩ := h; simp

theorem NoNaN.left {l1 l2 : List F64} (h : NoNaN (l1 ++ l2)) : NoNaN l1 := fun e he => h e (by simp [he])
theorem NoNaN.right {l1 l2 : List F64} (h : NoNaN (l1 ++ l2)) : NoNaN l2 := fun e he => h e (by simp [he])

/-! ## Order facts used -/

theorem not_nan_of_lt_left {a b : F64} (h : lt a b = true) : a.isNaN = false := by
  simp [lt] at h; exact h.1.1
theorem not_nan_of_lt_right {a b : F64} (h : lt a b = true) : b.isNaN = false := by
  simp [lt] at h; exact h.1.2

theorem lt_nan_left {a b : F64} (h : a.isNaN = true) : lt a b = false := by simp [lt, h]
theorem lt_nan_right {a b : F64} (h : b.isNaN = true) : lt a b = false := by simp [lt, h]

/-- nothing is below `-Inf` -/
theorem lt_negInf (f : F64) : lt f negInf = false := by
  have hk : negInf.key = -9218868437227405312 := by decide
  cases hf : f.isNaN with
  | true => simp [lt, hf]
  | false =>
    have hm : f.mag ≤ 9218868437227405312 := by
      have := of_decide_eq_false hf
      simp only [infMag] at this
      omega
    simp only [lt, hf, hk, Bool.not_false, Bool.true_and, Bool.and_eq_false_imp, decide_eq_false_iff_not]
    intro _
    unfold key
    split <;> omega

theorem not_lt_of_le {a b : F64} (h : le a b = true) : lt b a = false := by
  simp [le, lt] at *
  intro _ _; omega

theorem lt_of_lt_of_le' {a b c : F64} (h1 : lt a b = true) (h2 : le b c = true) : lt a c = true := by
  simp [lt, le] at *
  exact ⟨⟨h1.1.1, h2.1.2⟩, by omega⟩

theorem key_eq_of_le_le {a b : F64} (h1 : le a b = true) (h2 : le b a = true) : a.key = b.key := by
  simp [le] at *
  omega

theorem key_le_of_le {a b : F64} (h : le a b = true) : a.key ≤ b.key := by
  simp [le] at h; exact h.2

/-! ## `best` and `worst` as folds -/

/-- a selecting fold returns its start value or one of the list elements -/
theorem foldl_sel_mem (p : F64 → F64 → Bool) (t : List F64) (a : F64) :
    t.foldl (fun m x => if p x m then x else m) a = a ∨ t.foldl (fun m x => if p x m then x else m) a ∈ t := by
  induction t generalizing a with
  | nil => exact Or.inl rfl
  | cons x xs ih =>
    simp only [List.foldl_cons]
    rcases ih (if p x a then x else a) with h | h
    · by_cases hp : p x a = true
      · simp only [hp, if_true] at h ⊢
        exact Or.inr (by rw [h]; simp)
      · simp only [hp] at h ⊢
        exact Or.inl h
    · exact Or.inr (by simp [h])

/-- the `best` fold started at a number: the result is a number, `≤` the start value and `≤` every NUMBER of the list
    (NaN elements are skipped: `NaN < m` is false) -/
theorem foldl_min_spec (t : List F64) (a : F64) (ha : a.isNaN = false) :
    (t.foldl (fun m x => if lt x m then x else m) a).isNaN = false ∧
    le (t.foldl (fun m x => if lt x m then x else m) a) a = true ∧
    ∀ x ∈ t, x.isNaN = false → le (t.foldl (fun m x => if lt x m then x else m) a) x = true := by
  induction t generalizing a with
  | nil => exact ⟨ha, le_refl_of_not_nan ha, by simp⟩
  | cons x xs ih =>
    simp only [List.foldl_cons]
    cases hc : lt x a with
    | true =>
      simp only [if_true]
      have hx := not_nan_of_lt_left hc
      obtain ⟨h1, h2, h3⟩ := ih x hx
      refine ⟨h1, le_trans' h2 (le_of_lt hc), ?_⟩
      intro y hy hyn
      simp at hy
      rcases hy with hy | hy
      · subst hy; exact h2
      · exact h3 y hy hyn
    | false =>
      simp only [Bool.false_eq_true, if_false]
      obtain ⟨h1, h2, h3⟩ := ih a ha
      refine ⟨h1, h2, ?_⟩
      intro y hy hyn
      simp at hy
      rcases hy with hy | hy
      · subst hy; exact le_trans' h2 (le_of_not_nan_of_not_lt hyn ha hc)
      · exact h3 y hy hyn

/-- the `worst` fold started at a number -/
theorem foldl_max_spec (t : List F64) (a : F64) (ha : a.isNaN = false) :
    (t.foldl (fun m x => if gt x m then x else m) a).isNaN = false ∧
    le a (t.foldl (fun m x => if gt x m then x else m) a) = true ∧
    ∀ x ∈ t, x.isNaN = false → le x (t.foldl (fun m x => if gt x m then x else m) a) = true := by
  induction t generalizing a with
  | nil => exact ⟨ha, le_refl_of_not_nan ha, by simp⟩
  | cons x xs ih =>
    simp only [List.foldl_cons]
    cases hc : gt x a with
    | true =>
      simp only [if_true]
      have hc' : lt a x = true := hc
      have hx := not_nan_of_lt_right hc'
      obtain ⟨h1, h2, h3⟩ := ih x hx
      refine ⟨h1, le_trans' (le_of_lt hc') h2, ?_⟩
      intro y hy hyn
      simp at hy
      rcases hy with hy | hy
      · subst hy; exact h2
      · exact h3 y hy hyn
    | false =>
      simp only [Bool.false_eq_true, if_false]
      have hc' : lt a x = false := hc
      obtain ⟨h1, h2, h3⟩ := ih a ha
      refine ⟨h1, h2, ?_⟩
      intro y hy hyn
      simp at hy
      rcases hy with hy | hy
      · subst hy; exact le_trans' (le_of_not_nan_of_not_lt ha hyn hc') h2
      · exact h3 y hy hyn

/-- if nothing in the list is strictly below the start value, the `best` fold returns the start value (bit-exact) -/
theorem foldl_min_eq_start (t : List F64) (a : F64) (h : ∀ x ∈ t, lt x a = false) :
    t.foldl (fun m x => if lt x m then x else m) a = a := by
  induction t with
  | nil => rfl
  | cons x xs ih =>
    simp only [List.foldl_cons, h x (by simp), Bool.false_eq_true, if_false]
    exact ih (fun y hy => h y (by simp [hy]))

theorem best_mem {l : List F64} (hne : l ≠ []) : best l ∈ l := by
  cases l with
  | nil => exact absurd rfl hne
  | cons a t =>
    rcases foldl_sel_mem lt t a with h | h
    · simp only [best]; rw [h]; simp
    · simp only [best]; simp [h]

theorem worst_mem {l : List F64} (hne : l ≠ []) : worst l ∈ l := by
  cases l with
  | nil => exact absurd rfl hne
  | cons a t =>
    rcases foldl_sel_mem gt t a with h | h
    · simp only [worst]; rw [h]; simp
    · simp only [worst]; simp [h]

/-- `best` of a population whose first value is a number: a number, a member, `≤` every member that is a number -/
theorem best_spec {l : List F64} (h : HeadNum l) :
    (best l).isNaN = false ∧ best l ∈ l ∧ ∀ e ∈ l, e.isNaN = false → le (best l) e = true := by
  have hm := best_mem h.ne_nil
  obtain ⟨a, t, rfl, ha⟩ := h
  obtain ⟨h1, h2, h3⟩ := foldl_min_spec t a ha
  refine ⟨h1, hm, ?_⟩
  intro e he hen
  simp at he
  rcases he with he | he
  · subst he; exact h2
  · exact h3 e he hen

/-- `worst` of a population whose first value is a number: a number, a member, `≥` every member that is a number -/
theorem worst_spec {l : List F64} (h : HeadNum l) :
    (worst l).isNaN = false ∧ worst l ∈ l ∧ ∀ e ∈ l, e.isNaN = false → le e (worst l) = true := by
  have hm := worst_mem h.ne_nil
  obtain ⟨a, t, rfl, ha⟩ := h
  obtain ⟨h1, h2, h3⟩ := foldl_max_spec t a ha
  refine ⟨h1, hm, ?_⟩
  intro e he hen
  simp at he
  rcases he with he | he
  · subst he; exact h2
  · exact h3 e he hen

theorem best_le_worst {l : List F64} (h : HeadNum l) : le (best l) (worst l) = true :=
  (best_spec h).2.2 _ (worst_spec h).2.1 (worst_spec h).1

/-! ## `removeOne` -/

theorem mem_of_mem_removeOne {v e : F64} {l : List F64} (h : e ∈ removeOne v l) : e ∈ l := by
  induction l with
  | nil => simp [removeOne] at h
  | cons a t ih =>
    simp only [removeOne] at h
    by_cases hav : a = v
    · simp only [hav, if_true] at h; simp [h]
    · simp only [hav, if_false] at h
      simp at h
      rcases h with h | h
      · simp [h]
      · simp [ih h]

/-- exactly one occurrence is removed: every member is the removed value or survives -/
theorem mem_removeOne_or {v e : F64} {l : List F64} (h : e ∈ l) : e = v ∨ e ∈ removeOne v l := by
  induction l with
  | nil => simp at h
  | cons a t ih =>
    simp only [removeOne]
    by_cases hav : a = v
    · simp only [hav, if_true]
      simp at h
      rcases h with h | h
      · exact Or.inl (by rw [h, hav])
      · exact Or.inr h
    · simp only [hav, if_false]
      simp at h
      rcases h with h | h
      · exact Or.inr (by simp [h])
      · rcases ih h with h' | h'
        · exact Or.inl h'
        · exact Or.inr (by simp [h'])

theorem length_removeOne {v : F64} {l : List F64} (h : v ∈ l) : (removeOne v l).length + 1 = l.length := by
  induction l with
  | nil => simp at h
  | cons a t ih =>
    simp only [removeOne]
    by_cases hav : a = v
    · simp [hav]
    · simp only [hav, if_false, List.length_cons]
      have : v ∈ t := by
        simp at h
        rcases h with h | h
        · exact absurd h.symm hav
        · exact h
      rw [ih this]

/-! ## One trial -/

theorem trial_accept {pop : List F64} {f : F64} (h : lt f (worst pop) = true) :
    trial pop f = f :: removeOne (worst pop) pop := by simp [trial, h]

theorem trial_reject {pop : List F64} {f : F64} (h : lt f (worst pop) = false) : trial pop f = pop := by
  simp [trial, h]

/-- on the empty population nothing is ever accepted (`worst = -Inf`) -/
theorem trial_nil (f : F64) : trial [] f = [] := trial_reject (by simp [worst, lt_negInf])

/-- a NaN trial value is always rejected -/
theorem crs_trial_nan (pop : List F64) {f : F64} (h : f.isNaN = true) : trial pop f = pop :=
  trial_reject (lt_nan_left h)

/-- the population size never changes (no hypothesis) -/
theorem trial_length (pop : List F64) (f : F64) : (trial pop f).length = pop.length := by
  cases hc : lt f (worst pop) with
  | false => rw [trial_reject hc]
  | true =>
    have hne : pop ≠ [] := by
      intro h; subst h; simp [worst, lt_negInf] at hc
    rw [trial_accept hc, List.length_cons, length_removeOne (worst_mem hne)]

/-- replacing one occurrence of `w` by a DIFFERENT value at the head changes the list -/
theorem ne_cons_removeOne {f w : F64} (hfw : f ≠ w) (l : List F64) : l ≠ f :: removeOne w l := by
  induction l with
  | nil => simp
  | cons a t ih =>
    intro h
    simp only [removeOne] at h
    by_cases haw : a = w
    · simp only [haw, if_true] at h
      simp at h
      exact hfw h.symm
    · simp only [haw, if_false] at h
      simp at h
      obtain ⟨h1, h2⟩ := h
      rw [h1] at h2
      exact ih h2

/-- **a trial is accepted (the population changes) iff `f < worst`**; the new population is then
    `f :: removeOne (worst pop) pop` (`trial_accept`: the worst value is overwritten by the trial value).
    (`trial pop f = f :: removeOne (worst pop) pop` alone does not characterise acceptance: for `f` bit-equal to a worst
    value at the head this list IS `pop`.) -/
theorem crs_trial_accept_iff (pop : List F64) (f : F64) :
    (trial pop f ≠ pop ∧ trial pop f = f :: removeOne (worst pop) pop) ↔ lt f (worst pop) = true := by
  constructor
  · intro h
    cases hc : lt f (worst pop) with
    | true => rfl
    | false => exact absurd (trial_reject hc) h.1
  · intro hc
    have hfw : f ≠ worst pop := by
      intro h; rw [← h, lt_irrefl'] at hc; cases hc
    refine ⟨?_, trial_accept hc⟩
    rw [trial_accept hc]
    exact (ne_cons_removeOne hfw pop).symm

/-- **a trial leaves the population unchanged iff `f < worst` fails** (in particular for NaN) -/
theorem crs_trial_reject_iff (pop : List F64) (f : F64) : trial pop f = pop ↔ lt f (worst pop) = false := by
  constructor
  · intro h
    cases hc : lt f (worst pop) with
    | false => rfl
    | true => exact absurd h ((crs_trial_accept_iff pop f).mpr hc).1
  · exact trial_reject

theorem trial_mem {pop : List F64} {f e : F64} (h : e ∈ trial pop f) : e = f ∨ e ∈ pop := by
  cases hc : lt f (worst pop) with
  | false => rw [trial_reject hc] at h; exact Or.inr h
  | true =>
    rw [trial_accept hc] at h
    simp at h
    rcases h with h | h
    · exact Or.inl h
    · exact Or.inr (mem_of_mem_removeOne h)

theorem trial_headNum {pop : List F64} (f : F64) (h : HeadNum pop) : HeadNum (trial pop f) := by
  cases hc : lt f (worst pop) with
  | false => rw [trial_reject hc]; exact h
  | true => rw [trial_accept hc]; exact ⟨f, _, rfl, not_nan_of_lt_left hc⟩

/-- **corollary in the shape of the C code** (`if (d->p[0] < worst->k[0]) break;` failed): a rejected trial value is not
    better than the incumbent.  `hf` is needed only because `le _ NaN` is false by definition. -/
theorem crs_rejected_not_better_head (pop : List F64) (f : F64) (hp : HeadNum pop) (hf : f.isNaN = false)
    (hrej : lt f (worst pop) = false) : le (best pop) f = true :=
  le_trans' (best_le_worst hp) (le_of_not_nan_of_not_lt hf (worst_spec hp).1 hrej)

theorem crs_rejected_not_better (pop : List F64) (f : F64) (hne : pop ≠ []) (hn : NoNaN pop) (hf : f.isNaN = false)
    (hrej : lt f (worst pop) = false) : le (best pop) f = true :=
  crs_rejected_not_better_head pop f (hn.headNum hne) hf hrej

/-- **the incumbent never gets worse and is at least as good as every trial value** (first value a number) -/
theorem crs_best_mono_head (pop : List F64) (f : F64) (hp : HeadNum pop) :
    le (best (trial pop f)) (best pop) = true ∧ (f.isNaN = false → le (best (trial pop f)) f = true) := by
  obtain ⟨hbn, hbm, hbl⟩ := best_spec hp
  cases hc : lt f (worst pop) with
  | false =>
    rw [trial_reject hc]
    exact ⟨le_refl_of_not_nan hbn, fun hf => crs_rejected_not_better_head pop f hp hf hc⟩
  | true =>
    have hfn := not_nan_of_lt_left hc
    have hp' : HeadNum (f :: removeOne (worst pop) pop) := ⟨f, _, rfl, hfn⟩
    obtain ⟨hbn', hbm', hbl'⟩ := best_spec hp'
    rw [trial_accept hc]
    have hf' : le (best (f :: removeOne (worst pop) pop)) f = true := hbl' f (by simp) hfn
    refine ⟨?_, fun _ => hf'⟩
    rcases mem_removeOne_or (v := worst pop) hbm with h | h
    · -- the old best IS the value that was overwritten: the trial is strictly below it
      rw [h]; exact le_trans' hf' (le_of_lt hc)
    · exact hbl' _ (by simp [h]) hbn

theorem crs_best_mono (pop : List F64) (f : F64) (hne : pop ≠ []) (hn : NoNaN (f :: pop)) :
    le (best (trial pop f)) (best pop) = true ∧ le (best (trial pop f)) f = true := by
  have hp : HeadNum pop := NoNaN.headNum (fun e he => hn e (by simp [he])) hne
  exact ⟨(crs_best_mono_head pop f hp).1, (crs_best_mono_head pop f hp).2 (hn f (by simp))⟩

/-- **key lemma**: removing the worst value and inserting a strictly smaller one gives `best = min (best pop) f`
    (as sign-magnitude keys, i.e. as real values; `-0.0`/`+0.0` may differ in the bit pattern) -/
theorem crs_replace_best_key (pop : List F64) (f : F64) (hp : HeadNum pop) (hacc : lt f (worst pop) = true) :
    (best (f :: removeOne (worst pop) pop)).key = min (best pop).key f.key := by
  have hfn := not_nan_of_lt_left hacc
  obtain ⟨h1, h2⟩ := crs_best_mono_head pop f hp
  rw [trial_accept hacc] at h1 h2
  have h2 := h2 hfn
  have hp' : HeadNum (f :: removeOne (worst pop) pop) := ⟨f, _, rfl, hfn⟩
  obtain ⟨hbn', hbm', _⟩ := best_spec hp'
  have k1 := key_le_of_le h1
  have k2 := key_le_of_le h2
  simp at hbm'
  rcases hbm' with h | h
  · rw [h] at k1 ⊢; omega
  · have k3 := key_le_of_le ((best_spec hp).2.2 _ (mem_of_mem_removeOne h) hbn')
    omega

/-- ... in `le`/`lt` form: the new best is `≤` both, and it is `≥` one of them -/
theorem crs_replace_best_le (pop : List F64) (f : F64) (hp : HeadNum pop) (hacc : lt f (worst pop) = true) :
    le (best (f :: removeOne (worst pop) pop)) (best pop) = true ∧
    le (best (f :: removeOne (worst pop) pop)) f = true ∧
    (le (best pop) (best (f :: removeOne (worst pop) pop)) = true ∨
     le f (best (f :: removeOne (worst pop) pop)) = true) := by
  have hfn := not_nan_of_lt_left hacc
  obtain ⟨h1, h2⟩ := crs_best_mono_head pop f hp
  rw [trial_accept hacc] at h1 h2
  have hp' : HeadNum (f :: removeOne (worst pop) pop) := ⟨f, _, rfl, hfn⟩
  obtain ⟨hbn', hbm', _⟩ := best_spec hp'
  refine ⟨h1, h2 hfn, ?_⟩
  simp at hbm'
  rcases hbm' with h | h
  · exact Or.inr (by rw [h]; exact le_refl_of_not_nan hfn)
  · exact Or.inl ((best_spec hp).2.2 _ (mem_of_mem_removeOne h) hbn')

/-- a trial strictly below the incumbent is accepted and becomes the new incumbent, BIT-exactly -/
theorem crs_replace_new_best (pop : List F64) (f : F64) (hp : HeadNum pop) (hlt : lt f (best pop) = true) :
    lt f (worst pop) = true ∧ best (trial pop f) = f := by
  have hacc : lt f (worst pop) = true := lt_of_lt_of_le' hlt (best_le_worst hp)
  refine ⟨hacc, ?_⟩
  rw [trial_accept hacc]
  simp only [best]
  apply foldl_min_eq_start
  intro x hx
  cases hxn : x.isNaN with
  | true => exact lt_nan_left hxn
  | false =>
    have h1 := (best_spec hp).2.2 x (mem_of_mem_removeOne hx) hxn
    exact not_lt_of_le (le_of_lt (lt_of_lt_of_le' hlt h1))

/-- a trial that is not strictly below the incumbent leaves the incumbent's VALUE unchanged, accepted or not -/
theorem crs_no_new_best (pop : List F64) (f : F64) (hp : HeadNum pop) (hlt : lt f (best pop) = false) :
    (best (trial pop f)).key = (best pop).key := by
  cases hc : lt f (worst pop) with
  | false => rw [trial_reject hc]
  | true =>
    rw [trial_accept hc, crs_replace_best_key pop f hp hc]
    have := key_le_of_le (le_of_not_nan_of_not_lt (not_nan_of_lt_left hc) (best_spec hp).1 hlt)
    omega

/-- one trial, accepted or not: `best` becomes `min (best pop) f` (as keys) for every trial value that is a number -/
theorem crs_best_trial_key (pop : List F64) (f : F64) (hp : HeadNum pop) (hf : f.isNaN = false) :
    (best (trial pop f)).key = min (best pop).key f.key := by
  cases hc : lt f (worst pop) with
  | true => rw [trial_accept hc]; exact crs_replace_best_key pop f hp hc
  | false =>
    rw [trial_reject hc]
    have := key_le_of_le (crs_rejected_not_better_head pop f hp hf hc)
    omega

/-! ## The run -/

theorem run_nil (init : List F64) : run init [] = init := rfl
theorem run_cons (init : List F64) (f : F64) (fs : List F64) : run init (f :: fs) = run (trial init f) fs := rfl
theorem run_append (init ts1 ts2 : List F64) : run init (ts1 ++ ts2) = run (run init ts1) ts2 := by
  simp [run, List.foldl_append]

/-- **the population only ever holds evaluated values** (no hypothesis) -/
theorem crs_mem (init trials : List F64) : ∀ e ∈ run init trials, e ∈ init ++ trials := by
  induction trials generalizing init with
  | nil => intro e he; simpa [run_nil] using he
  | cons f fs ih =>
    intro e he
    rw [run_cons] at he
    have := ih (trial init f) e he
    simp at this ⊢
    rcases this with h | h
    · rcases trial_mem h with h' | h'
      · exact Or.inr (Or.inl h')
      · exact Or.inl h'
    · exact Or.inr (Or.inr h)

/-- **the population size is constant** (no hypothesis: on the empty population nothing is ever accepted) -/
theorem crs_length (init trials : List F64) : (run init trials).length = init.length := by
  induction trials generalizing init with
  | nil => rfl
  | cons f fs ih => rw [run_cons, ih, trial_length]

/-- **population bookkeeping**: only evaluated values, constant size — for EVERY `init` (even `[]`) and `trials`,
    NaN or not -/
theorem crs_members (init trials : List F64) :
    (∀ e ∈ run init trials, e ∈ init ++ trials) ∧ (run init trials).length = init.length :=
  ⟨crs_mem init trials, crs_length init trials⟩

theorem crs_run_headNum (init trials : List F64) (h : HeadNum init) : HeadNum (run init trials) := by
  induction trials generalizing init with
  | nil => exact h
  | cons f fs ih => rw [run_cons]; exact ih _ (trial_headNum f h)

/-- the fold lemma: along any continuation the incumbent does not get worse, and it is `≤` every trial NUMBER -/
theorem crs_run_best (pop trials : List F64) (hp : HeadNum pop) :
    le (best (run pop trials)) (best pop) = true ∧
    ∀ f ∈ trials, f.isNaN = false → le (best (run pop trials)) f = true := by
  induction trials generalizing pop with
  | nil => exact ⟨le_refl_of_not_nan (best_spec hp).1, by simp⟩
  | cons f fs ih =>
    rw [run_cons]
    obtain ⟨h1, h2⟩ := ih (trial pop f) (trial_headNum f hp)
    obtain ⟨s1, s2⟩ := crs_best_mono_head pop f hp
    refine ⟨le_trans' h1 s1, ?_⟩
    intro g hg hgn
    simp at hg
    rcases hg with hg | hg
    · subst hg; exact le_trans' h1 (s2 hgn)
    · exact h2 g hg hgn

/-! ## Main theorems -/

/-- **CRS reports the best value it ever evaluated — full strength.**  For EVERY initial population whose first value
    is a number and EVERY sequence of trial values (NaN allowed everywhere else):
    (a) the reported value is one of the evaluated values; (b) it is a number;
    (c) it is `≤` every evaluated value that is a number. -/
theorem crs_best_is_min_head (init trials : List F64) (h : HeadNum init) :
    result init trials ∈ init ++ trials ∧ (result init trials).isNaN = false ∧
    ∀ e ∈ init ++ trials, e.isNaN = false → le (result init trials) e = true := by
  have hr := crs_run_headNum init trials h
  obtain ⟨r1, r2, _⟩ := best_spec hr
  obtain ⟨h1, h2⟩ := crs_run_best init trials h
  refine ⟨crs_mem init trials _ r2, r1, ?_⟩
  intro e he hen
  simp at he
  rcases he with he | he
  · exact le_trans' h1 ((best_spec h).2.2 e he hen)
  · exact h2 e he hen

/-- **CRS reports the best value it ever evaluated.**  For every non-empty initial population and every sequence of
    trial values, all numbers: (a) the reported value is one of the evaluated values;
    (b) no evaluated value is better than the reported one. -/
theorem crs_best_is_min (init trials : List F64) (hne : init ≠ []) (hn : NoNaN (init ++ trials)) :
    result init trials ∈ init ++ trials ∧ ∀ e ∈ init ++ trials, le (result init trials) e = true := by
  obtain ⟨h1, _, h3⟩ := crs_best_is_min_head init trials (hn.left.headNum hne)
  exact ⟨h1, fun e he => h3 e he (hn e he)⟩

/-- the same as a statement about real values: the reported key is the minimum of the evaluated keys -/
theorem crs_result_key_min (init trials : List F64) (hne : init ≠ []) (hn : NoNaN (init ++ trials)) :
    (∃ e ∈ init ++ trials, (result init trials).key = e.key) ∧
    ∀ e ∈ init ++ trials, (result init trials).key ≤ e.key := by
  obtain ⟨h1, h2⟩ := crs_best_is_min init trials hne hn
  exact ⟨⟨_, h1, rfl⟩, fun e he => key_le_of_le (h2 e he)⟩

/-- the reported value never gets worse when the run is continued -/
theorem crs_result_mono (init ts1 ts2 : List F64) (h : HeadNum init) :
    le (result init (ts1 ++ ts2)) (result init ts1) = true := by
  simp only [result, run_append]
  exact (crs_run_best (run init ts1) ts2 (crs_run_headNum init ts1 h)).1

/-! ## The hypothesis cannot be dropped -/

/-- **Without "the first value is a number" the statement is FALSE of the rule**: initial values `NaN, 2.0`, trial `1.0`.
    `NaN` stays both `worst` and `best` (`x > NaN`, `x < NaN` are false), the trial is rejected (`1.0 < NaN` is false),
    the population never changes and NaN is reported: it is not `≤` any evaluated value, although `1.0` and `2.0` were
    evaluated.  (A NaN at any LATER position is harmless: `crs_best_is_min_head`.) -/
theorem crs_best_is_min_nan_false :
    ∃ init trials : List F64, init ≠ [] ∧ NoNaN trials ∧ (∃ e ∈ init ++ trials, e.isNaN = false) ∧
      run init trials = init ∧ (result init trials).isNaN = true ∧
      ∀ e ∈ init ++ trials, le (result init trials) e = false := by
  refine ⟨[qnan, ⟨0x4000000000000000⟩], [F64.one], by simp, ?_, ⟨F64.one, by simp, by decide⟩, by decide, by decide, ?_⟩
  · intro e he; simp at he; subst he; decide
  · intro e he; simp at he; rcases he with h | h | h <;> subst h <;> decide

/-- the step corollaries fail as well with a NaN first value: the rejected trial `1.0` IS better than everything -/
theorem crs_rejected_not_better_nan_false :
    ∃ (pop : List F64) (f : F64), pop ≠ [] ∧ f.isNaN = false ∧ lt f (worst pop) = false ∧ le (best pop) f = false ∧
      ∃ e ∈ pop, lt f e = true :=
  ⟨[qnan, ⟨0x4000000000000000⟩], F64.one, by simp, by decide, by decide, by decide,
    ⟨⟨0x4000000000000000⟩, by simp, by decide⟩⟩

/-! ## Non-vacuity -/

def two : F64 := ⟨0x4000000000000000⟩
def three : F64 := ⟨0x4008000000000000⟩
def onePt5 : F64 := ⟨0x3FF8000000000000⟩
def half : F64 := ⟨0x3FE0000000000000⟩
def negZero : F64 := ⟨0x8000000000000000⟩

/-- initial population `2, 1, 2` (duplicate worst value) -/
def demoInit : List F64 := [two, F64.one, two]
/-- trials: `1.5` accepted (replaces ONE of the two `2`), `3` rejected, `2` equal to the worst: rejected,
    `0.5` accepted: new best, `1.5` equal to the worst by now: rejected, `1` accepted (not a new best) -/
def demoTrials : List F64 := [onePt5, three, two, half, onePt5, F64.one]

example : worst demoInit = two ∧ best demoInit = F64.one := by decide
/-- accepted: one occurrence of the worst value is overwritten -/
example : run demoInit [onePt5] = [onePt5, F64.one, two] := by decide
/-- rejected (larger than the worst) -/
example : run demoInit [onePt5, three] = [onePt5, F64.one, two] := by decide
/-- rejected (equal to the worst: `<` is strict) -/
example : run demoInit [onePt5, three, two] = [onePt5, F64.one, two] := by decide
/-- accepted, new best -/
example : run demoInit [onePt5, three, two, half] = [half, onePt5, F64.one] := by decide
example : run demoInit demoTrials = [F64.one, half, F64.one] := by decide
example : result demoInit demoTrials = half := by decide
example : (run demoInit demoTrials).length = demoInit.length := crs_length _ _

theorem demo_noNaN : NoNaN (demoInit ++ demoTrials) := by
  unfold NoNaN; decide

/-- the hypotheses of `crs_best_is_min` hold on the demo, and the result is what the theorem says -/
example : demoInit ≠ [] ∧ NoNaN (demoInit ++ demoTrials) ∧ result demoInit demoTrials = half :=
  ⟨by decide, demo_noNaN, by decide⟩

/-- the main theorem instantiated on the demo -/
example : result demoInit demoTrials ∈ demoInit ++ demoTrials ∧
    ∀ e ∈ demoInit ++ demoTrials, le (result demoInit demoTrials) e = true :=
  crs_best_is_min demoInit demoTrials (by decide) demo_noNaN

/-- `crs_trial_accept_iff` both ways on the demo -/
example : lt onePt5 (worst demoInit) = true ∧ lt two (worst [onePt5, F64.one, two]) = false := by decide

/-- a NaN that is not the first value is harmless (full-strength theorem is not vacuous beyond `NoNaN`):
    population `2, NaN, 1`, trials `NaN` (rejected), `0.5` (accepted: replaces `2`, new best) -/
example : HeadNum [two, qnan, F64.one] ∧ run [two, qnan, F64.one] [qnan, half] = [half, qnan, F64.one] ∧
    result [two, qnan, F64.one] [qnan, half] = half :=
  ⟨⟨two, _, rfl, by decide⟩, by decide, by decide⟩

/-- why the key lemma is stated with `key`: `-0.0` is accepted into `[+0.0, 1.0]` and becomes the head, so the incumbent's
    bit pattern changes (`+0.0` to `-0.0`) while its value does not; `lt` is false both ways -/
example : best [zero, F64.one] = zero ∧ best (trial [zero, F64.one] negZero) = negZero ∧
    (best (trial [zero, F64.one] negZero)).key = (best [zero, F64.one]).key ∧
    lt negZero zero = false ∧ lt zero negZero = false ∧ negZero ≠ zero := by decide

end Nlopt.C05Crs
