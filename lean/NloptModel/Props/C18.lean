import NloptModel.Lemmas.ApiOom
import NloptModel.Props.C14
/-!
# C18 — out-of-memory safety of the object API (ownership invariant)

"If any single memory allocation fails inside nlopt_create, nlopt_copy, a setter, nlopt_add_*constraint,
nlopt_set_param or nlopt_set_local_optimizer, the call returns NULL or NLOPT_OUT_OF_MEMORY, the object (if it
exists) remains valid with its previous settings readable, and it can still be used and destroyed without crash,
double free or leak of library-owned memory."

Model: `Model/Api.lean`, `Model/ApiOps.lean`.  `Owns w` (Lemmas/ApiOwnership.lean): the multiset of block ids
owned by the objects in the slots (`World.owned`, built from `Core.owned`) equals the multiset of live blocks
`w.as.live`, no block is live twice, all live ids are below the fresh-id counter.

All theorems hold for every `Arith`, every world, every operation and every state of the allocation oracle
(`w.as.failIn`) and of the copy-hook oracle (`w.as.mcFailIn`).

The one precondition (`Op.okFor`): `create dst` / `copy src dst` must target an existing, empty slot
(`w.get (some dst) = none ∧ dst < w.slots.length`).  Otherwise the *driver* overwrites a handle it still holds,
or (`World.set` ignores an out-of-range index) drops the new handle — a leak that is not the library's doing;
see `create_out_of_range_leaks` below.
-/
set_option linter.unusedSimpArgs false
set_option linter.unusedVariables false
namespace Nlopt.C18
open Nlopt

/-- `Owns` in its textbook form: the owned blocks are a permutation of the live blocks, which are pairwise
    distinct (so no block is owned twice, i.e. no two objects share memory) and below the fresh-id counter -/
theorem owns_iff (w : World) :
    Owns w ↔ (World.owned w).Perm w.as.live ∧ w.as.live.Nodup ∧ ∀ b ∈ w.as.live, b < w.as.next := by
  unfold Owns
  rw [List.perm_iff_count, List.nodup_iff_count]

/-- the empty world (no objects, nothing allocated) satisfies the invariant -/
theorem owns_init (w : World) (hs : ∀ o ∈ w.slots, o = none) (hl : w.as.live = []) : Owns w := by
  have h0 : World.owned w = [] := by
    unfold World.owned
    apply List.eq_nil_iff_forall_not_mem.mpr
    intro b hb
    simp only [List.mem_flatMap] at hb
    obtain ⟨o, ho, hb⟩ := hb
    rw [hs o ho] at hb
    simp [slotOwned] at hb
  exact ⟨fun b => by rw [h0, hl], fun b => by rw [hl]; simp, fun b hb => by rw [hl] at hb; simp at hb⟩

/-- **every API call preserves the ownership invariant** — all 33 operations, including every out-of-memory
    path (whatever the oracle state) and every copy-hook failure path -/
theorem owns_step (A : Arith) (w : World) (op : Op) (h : Owns w) (hok : op.okFor w) :
    Owns (applyOp A w op).1 :=
  (applyOp_wgood A w op hok h.toWGood).toOwns rfl

/-- … hence after every history whose `create`/`copy` destinations are free when used -/
theorem owns_history (A : Arith) (w : World) (ops : List Op) (h : Owns w) (hok : HistOk A w ops) :
    Owns (runOps A w ops) :=
  (runOps_wgood A ops w hok h.toWGood).toOwns rfl

/-- **no double free, no free of a block the library does not own**: under the invariant an API call logs no
    `badFree` event — for every operation, including the out-of-memory exits of `nlopt_copy`
    (`nlopt_destroy` of the half-built copy) and of `nlopt_create` -/
theorem no_bad_free (A : Arith) (w : World) (op : Op) (h : Owns w) (hok : op.okFor w) :
    ∃ new, (applyOp A w op).1.as.evs = w.as.evs ++ new ∧ ∀ b, Ev.badFree b ∉ new := by
  obtain ⟨new, h1, h2⟩ := (applyOp_wgood A w op hok h.toWGood).evs
  exact ⟨new, h1, fun b hb => by have := h2 _ hb; simp [Ev.isBad] at this⟩

theorem no_bad_free_history (A : Arith) (w : World) (ops : List Op) (h : Owns w) (hok : HistOk A w ops) :
    ∃ new, (runOps A w ops).as.evs = w.as.evs ++ new ∧ ∀ b, Ev.badFree b ∉ new := by
  obtain ⟨new, h1, h2⟩ := (runOps_wgood A ops w hok h.toWGood).evs
  exact ⟨new, h1, fun b hb => by have := h2 _ hb; simp [Ev.isBad] at this⟩

/-- **no leak**: destroying every object that is still alive releases every live block, without a bad free -/
theorem destroy_all_no_leak (w : World) (h : Owns w) :
    (destroyAll w).live = [] ∧ ∃ new, (destroyAll w).evs = w.as.evs ++ new ∧ ∀ b, Ev.badFree b ∉ new := by
  have hg : Good ⟨[], [], w.as.evs⟩ (destroyAll w) [] :=
    destroySlots_good w.slots (x := []) (by
      have := h.toWGood
      unfold WGood World.owned at this
      simpa using this)
  refine ⟨hg.live_nil rfl, ?_⟩
  obtain ⟨new, h1, h2⟩ := hg.evs
  exact ⟨new, h1, fun b hb => by have := h2 _ hb; simp [Ev.isBad] at this⟩

/-- … in particular at the end of every well-formed history that starts in an empty world -/
theorem history_then_destroy_all_no_leak (A : Arith) (w : World) (ops : List Op)
    (hs : ∀ o ∈ w.slots, o = none) (hl : w.as.live = []) (hok : HistOk A w ops) :
    (destroyAll (runOps A w ops)).live = [] :=
  (destroy_all_no_leak _ (owns_history A w ops (owns_init w hs hl) hok)).1

/-- **an allocation failure is always reported**: if during the call an allocation request fails (the log gains
    an `allocFail` or `reallocFail` event), the call returns NULL (`create`, `copy`) or a negative `nlopt_result`.
    (When the failing request is the best-effort error message, the code is the error being reported, e.g.
    NLOPT_INVALID_ARGS; in all other cases it is NLOPT_OUT_OF_MEMORY.)  No invariant is needed. -/
theorem oom_reported (A : Arith) (w : World) (op : Op) (new : List Ev)
    (hnew : (applyOp A w op).1.as.evs = w.as.evs ++ new)
    (hfail : ∃ e ∈ new, e = Ev.allocFail ∨ ∃ o, e = Ev.reallocFail o) :
    (applyOp A w op).2.1 = .ptr false ∨ ∃ r, (applyOp A w op).2.1 = .code r ∧ r < 0 := by
  have hlt : w.as.nfail < (applyOp A w op).1.as.nfail := by
    unfold AS.nfail
    rw [hnew, List.countP_append]
    obtain ⟨e, he, hf⟩ := hfail
    have : 0 < new.countP Ev.isFail := by
      apply List.countP_pos_iff.mpr
      refine ⟨e, he, ?_⟩
      rcases hf with rfl | ⟨o, rfl⟩ <;> rfl
    omega
  have := applyOp_oom A w op hlt
  generalize (applyOp A w op).2.1 = ret at this ⊢
  cases ret with
  | code r => exact Or.inr ⟨r, rfl, this⟩
  | ptr ok => simp only [RetFailed] at this; subst this; exact Or.inl rfl
  | void => exact absurd this (by simp [RetFailed])

/-- a failed `create`/`copy` stores NULL in the destination and leaves every other slot literally unchanged -/
theorem failed_create_slots (A : Arith) (w : World) (dst : Nat) (alg : Int) (n : Nat)
    (hr : (applyOp A w (.create dst alg n)).2.1 = .ptr false) :
    (applyOp A w (.create dst alg n)).1.slots = w.slots.set dst none := by
  simp only [applyOp, applyOpRaw] at hr ⊢
  generalize create A w.as alg n = r at hr ⊢
  obtain ⟨s', o'⟩ := r
  cases o' with
  | none => rfl
  | some o => simp at hr

theorem failed_copy_slots (A : Arith) (w : World) (src : Option Nat) (dst : Nat)
    (hr : (applyOp A w (.copy src dst)).2.1 = .ptr false) :
    (applyOp A w (.copy src dst)).1.slots = w.slots.set dst none := by
  simp only [applyOp, applyOpRaw] at hr ⊢
  cases hs : w.get src with
  | none => rfl
  | some o =>
    simp only [hs] at hr ⊢
    generalize copy w.as o = r at hr ⊢
    obtain ⟨s', o'⟩ := r
    cases o' with
    | none => rfl
    | some o => simp at hr

/-- only `create` and `copy` return a pointer -/
theorem ptr_ops (A : Arith) (w : World) (op : Op) (ok : Bool) (hr : (applyOp A w op).2.1 = .ptr ok) :
    (∃ dst alg n, op = .create dst alg n) ∨ (∃ src dst, op = .copy src dst) := by
  cases op
  case create dst alg n => exact Or.inl ⟨dst, alg, n, rfl⟩
  case copy src dst => exact Or.inr ⟨src, dst, rfl⟩
  all_goals
    exfalso
    simp only [applyOp, applyOpRaw, onCore, onCoreOut] at hr
    repeat' split at hr
    all_goals simp at hr

/-- **the previous settings stay readable**: under the premise of `oom_reported` the view of every object
    (everything the getters can observe) is what it was before the call.  For setters this is
    `C14.failed_call_changes_nothing`; for `create`/`copy` the destination was empty and stays empty. -/
theorem oom_keeps_settings (A : Arith) (w : World) (op : Op) (new : List Ev) (hok : op.okFor w)
    (hnew : (applyOp A w op).1.as.evs = w.as.evs ++ new)
    (hfail : ∃ e ∈ new, e = Ev.allocFail ∨ ∃ o, e = Ev.reallocFail o) (i : Nat) :
    (applyOp A w op).1.views i = w.views i := by
  rcases oom_reported A w op new hnew hfail with hp | ⟨r, hr, hneg⟩
  · have hset : ∀ dst, w.get (some dst) = none → w.slots.set dst none = w.slots := by
      intro dst hd
      have := set_getD_self w.slots dst
      simp only [World.get] at hd
      rw [hd] at this; exact this
    rcases ptr_ops A w op false hp with ⟨dst, alg, n, rfl⟩ | ⟨src, dst, rfl⟩
    · have := failed_create_slots A w dst alg n hp
      rw [hset dst hok.1] at this
      simp only [World.views, World.get, this]
    · have := failed_copy_slots A w src dst hp
      rw [hset dst hok.1] at this
      simp only [World.views, World.get, this]
  · exact C14.failed_call_changes_nothing A w op r hr hneg i

/-- **everything allocated on the way is released again**: when `create`/`copy` returns NULL, the list of live
    blocks is literally what it was before the call -/
theorem failed_create_restores_live (A : Arith) (w : World) (dst : Nat) (alg : Int) (n : Nat) (h : Owns w)
    (hr : (applyOp A w (.create dst alg n)).2.1 = .ptr false) :
    (applyOp A w (.create dst alg n)).1.as.live = w.as.live := by
  have hg := create_good (A := A) (alg := alg) (n := n) h.footprint
  simp only [applyOp, applyOpRaw] at hr ⊢
  generalize create A w.as alg n = r at hr hg ⊢
  obtain ⟨s', o'⟩ := r
  cases o' with
  | some o => simp at hr
  | none =>
    have hg' : Good ⟨w.as.live, World.owned w, w.as.evs⟩ s' [] := by simpa [slotOwned] using hg
    exact Good.live_restored hg' h.1

theorem failed_copy_restores_live (A : Arith) (w : World) (src : Option Nat) (dst : Nat) (h : Owns w)
    (hr : (applyOp A w (.copy src dst)).2.1 = .ptr false) :
    (applyOp A w (.copy src dst)).1.as.live = w.as.live := by
  simp only [applyOp, applyOpRaw] at hr ⊢
  cases hs : w.get src with
  | none => rfl
  | some o =>
    simp only [hs] at hr ⊢
    have hg := copy_good (o := o) h.footprint
    generalize copy w.as o = r at hr hg ⊢
    obtain ⟨s', o'⟩ := r
    cases o' with
    | some o => simp at hr
    | none =>
    have hg' : Good ⟨w.as.live, World.owned w, w.as.evs⟩ s' [] := by simpa [slotOwned] using hg
    exact Good.live_restored hg' h.1

/-- the two statements together, as in the property text -/
theorem failed_create_copy_restores_live (A : Arith) (w : World) (op : Op) (h : Owns w)
    (hop : (∃ dst alg n, op = .create dst alg n) ∨ (∃ src dst, op = .copy src dst))
    (hr : (applyOp A w op).2.1 = .ptr false) : (applyOp A w op).1.as.live = w.as.live := by
  rcases hop with ⟨dst, alg, n, rfl⟩ | ⟨src, dst, rfl⟩
  · exact failed_create_restores_live A w dst alg n h hr
  · exact failed_copy_restores_live A w src dst h hr

/-- **the object can still be used and destroyed**: after any call (failed or not) from a state satisfying the
    invariant, any further well-formed history followed by destroying everything ends with no live block and
    with no bad free anywhere on the way -/
theorem still_usable_and_destroyable (A : Arith) (w : World) (op : Op) (ops : List Op) (h : Owns w)
    (hok : op.okFor w) (hoks : HistOk A (applyOp A w op).1 ops) :
    Owns (runOps A (applyOp A w op).1 ops) ∧
    (destroyAll (runOps A (applyOp A w op).1 ops)).live = [] ∧
    ∃ new, (destroyAll (runOps A (applyOp A w op).1 ops)).evs = w.as.evs ++ new ∧ ∀ b, Ev.badFree b ∉ new := by
  have hw : WGood ⟨[], [], w.as.evs⟩ (runOps A (applyOp A w op).1 ops) :=
    runOps_wgood A ops _ hoks (applyOp_wgood A w op hok h.toWGood)
  have hg : Good ⟨[], [], w.as.evs⟩ (destroyAll (runOps A (applyOp A w op).1 ops)) [] :=
    destroySlots_good _ (x := []) (by
      unfold WGood World.owned at hw
      simpa using hw)
  refine ⟨hw.toOwns rfl, hg.live_nil rfl, ?_⟩
  obtain ⟨new, h1, h2⟩ := hg.evs
  exact ⟨new, h1, fun b hb => by have := h2 _ hb; simp [Ev.isBad] at this⟩

/-! ### non-vacuity and the necessity of the precondition (concrete worlds, dummy arithmetic) -/

open Nlopt.C14 (arithTriv)

/-- empty world; algorithm 28 may carry constraints -/
def w0 : World := { as := { numAlgs := 44 }, caps := { ineqOk := [28], eqOk := [28] } }

/-- one 2-dimensional object with an inequality constraint and an initial step, in slot 0 -/
def wObj : World :=
  runOps arithTriv w0 [.create 0 28 2, .addCon (some 0) false 1 false 7 0 9 (some [F64.zero]), .setDx1 (some 0) F64.one]

example : Owns w0 := owns_init w0 (by decide) rfl

example : HistOk arithTriv w0
    [.create 0 28 2, .addCon (some 0) false 1 false 7 0 9 (some [F64.zero]), .setDx1 (some 0) F64.one] := by
  refine ⟨⟨by decide, by decide⟩, trivial, trivial, trivial⟩

/-- `nlopt_create` whose 2nd allocation (lb) fails: NULL, an `allocFail` event, nothing left allocated -/
example :
    let w := (applyOp arithTriv w0 (.oracle 2)).1
    let r := applyOp arithTriv w (.create 0 28 2)
    r.2.1 = .ptr false ∧ Ev.allocFail ∈ r.1.as.evs ∧ r.1.as.live = [] ∧ r.1.get (some 0) = none := by
  decide

/-- a setter that needs memory: NLOPT_OUT_OF_MEMORY, view unchanged -/
example :
    let w := (applyOp arithTriv wObj (.oracle 1)).1
    let r := applyOp arithTriv w (.setXtolAbs1 (some 0) F64.one)
    r.2.1 = .code (-3) ∧ Ev.allocFail ∈ r.1.as.evs ∧ r.1.views 0 = w.views 0 ∧ r.1.as.live = w.as.live := by
  decide

/-- the failing request is only the error message: the call still returns its own (negative) error code -/
example :
    let w := (applyOp arithTriv wObj (.oracle 1)).1
    let r := applyOp arithTriv w (.setLbi (some 0) 5 F64.one)
    r.2.1 = .code (-2) ∧ Ev.allocFail ∈ r.1.as.evs := by
  decide

/-- `nlopt_copy` failing at each of its 6 allocations (object, lb, ub, fc block, tolerance, dx): NULL, the
    half-built copy is released again, no bad free -/
example : ∀ k ∈ [1, 2, 3, 4, 5, 6],
    let w := (applyOp arithTriv wObj (.oracle k)).1
    let r := applyOp arithTriv w (.copy (some 0) 1)
    r.2.1 = .ptr false ∧ Ev.allocFail ∈ r.1.as.evs ∧ r.1.as.live = w.as.live ∧
    r.1.as.evs.all (fun e => !e.isBad) = true := by
  decide

/-- … and with no failure the copy succeeds and owns 6 new blocks -/
example :
    let r := applyOp arithTriv wObj (.copy (some 0) 1)
    r.2.1 = .ptr true ∧ r.1.as.live.length = wObj.as.live.length + 6 := by
  decide

/-- `nlopt_set_local_optimizer` failing in its internal copy: NLOPT_OUT_OF_MEMORY, object unchanged -/
example :
    let w := (applyOp arithTriv wObj (.oracle 3)).1
    let r := applyOp arithTriv w (.setLocal (some 0) (some 0))
    r.2.1 = .code (-3) ∧ r.1.views 0 = w.views 0 ∧ r.1.as.live = w.as.live := by
  decide

/-- the precondition `dst < w.slots.length` of `owns_step` is necessary: `World.set` drops a handle stored at an
    out-of-range index, so the driver (not the library) leaks the new object -/
theorem create_out_of_range_leaks : ¬ Owns (applyOp arithTriv w0 (.create 100 28 0)).1 := by
  intro h
  exact absurd (h.1 0) (by decide)

/-- … and so is `w.get (some dst) = none`: creating over a live handle orphans the old object -/
theorem create_over_live_handle_leaks : ¬ Owns (applyOp arithTriv wObj (.create 0 28 0)).1 := by
  intro h
  exact absurd (h.1 0) (by decide)

end Nlopt.C18
