import NloptModel.Lemmas.CrsAlgLemmas
import NloptModel.Props.DrvCrs
import NloptModel.Props.Wrap
import NloptModel.Props.E2EEsch
/-!
# CRS end to end: from the control-flow theorems of `CrsDrv.runWith` to statements about the TRACE of real callback
# invocations of the machine `CrsAlg.mk A T P c`, and through the wrapper stack of `nlopt_optimize`

Layer 1 (`Props/DrvCrs.lean`): theorems about `CrsDrv.runWith A T c evs` for an arbitrary event list.
Layer 2 (`Props/Wrap.lean`): theorems about `Nlopt.optimize` for an ARBITRARY algorithm machine.
This file connects them for CRS (`NLOPT_GN_CRS2_LM`), following `Props/E2EEsch.lean`.

* `crs_refines` (R): every returned run of `CrsAlg.mk A T P c` — EVERY arithmetic `A`, tree `T : Sel`, proposer `P`,
  environment `E`, fuel, start state — is a returned (`short = false`) run of `CrsDrv.runWith A T c` on the events of its
  trace, with the same `ret`, `x`, `*minf`, evaluation count = trace length; every query is an objective evaluation
  without gradient, the first one at `c.x0`.
* E1 `e2e_evals_le_maxeval` (every `T`), E2 `e2e_forced_stop` (+ `e2e_forced_iff`) (every `T`), E3 `e2e_returned_pair_partial` /
  `e2e_returned_pair` (every `T` that reports one of its nodes as minimum), E4 `e2e_best_no_better` (`T = scan`, success
  code, no NaN), E5 `e2e_stopval_strict` (`T = scan`, no NaN); more: `e2e_numevals`, `e2e_maxeval_exact`, `e2e_ret_codes`,
  `e2e_returns`.
* through `nlopt_optimize` (`crsMk`, the factory `Prob → Alg` with the configuration `nlopt_optimize_` hands to
  `crs_minimize`): `optimize_crs_core`, `optimize_crs_evals_le_maxeval` (C03), `optimize_crs_forced_stop` (C04),
  `optimize_crs_returned_pair` / `optimize_crs_returned_pair_partial` (C02), `optimize_crs_best_no_better` (C05), `optimize_crs_stopval_strict`,
  `optimize_crs_returns`.

The helper lemmas about `AllRel`, `FwdRel`, `valOf_ansOf`, `forcedOf_iff`, `innerView_*` are those of `Props/E2EEsch.lean`.
-/
set_option linter.unusedSimpArgs false
set_option linter.unusedVariables false
namespace Nlopt.E2ECrs
open Nlopt Nlopt.CrsDrv Nlopt.CrsAlg Nlopt.DrvCrs Nlopt.F64
open Nlopt.EschAlg (valOf forcedOf qOf ObjOnly)
open Nlopt.E2EEsch (FwdRel valOf_ansOf forcedOf_congr forcedOf_iff innerView_maxeval innerView_stopval started_iff)

/-! ## R: refinement -/

/-- R.  A returned run of the CRS machine against any environment IS a returned run of the control-flow model on the
    events of its trace. -/
theorem crs_refines {σ : Type} (A : Arith) (T : Sel) (P : Proposer) (c : Cfg) (E : Env σ) (fuel : Nat) (st st' : σ)
    (r : AlgResult) (tr : List (Query × Answer)) (h : Nlopt.run (mk A T P c) E fuel st = (some r, st', tr)) :
    (runWith A T c (events tr)).short = false ∧
    (runWith A T c (events tr)).ret = r.ret ∧
    (runWith A T c (events tr)).x = r.x ∧
    Res.minfMem (runWith A T c (events tr)) = r.minf ∧
    ((runWith A T c (events tr)).nevals : Int) = r.numevals ∧
    (runWith A T c (events tr)).nevals = tr.length ∧
    (events tr).take (runWith A T c (events tr)).nevals = events tr ∧
    (∀ p ∈ tr, p.1.fn = .obj ∧ p.1.wantGrad = false) ∧
    (∀ p, tr.head? = some p → p.1.x = c.x0) := by
  have hJ : J A T P c (mk A T P c).init none [] := ⟨by intro p hp; simp at hp, rfl, rfl, rfl⟩
  obtain ⟨R, hrun, hs, hr, hn, hobj, hhead⟩ := runAlg_refines A T P c E fuel _ none st [] hJ r st' tr h
  have hcons : (events tr).take R.nevals = events tr := by
    rw [hn, ← events_length tr, List.take_length]
  rw [hrun, hr]
  exact ⟨hs, rfl, rfl, rfl, rfl, hn, hcons, hobj, hhead⟩

theorem mem_events {tr : List (Query × Answer)} {e : CrsDrv.Ev} (h : e ∈ events tr) : ∃ p ∈ tr, evOf p = e := by
  simpa [events] using h

theorem evOf_mem_events {tr : List (Query × Answer)} {p : Query × Answer} (h : p ∈ tr) : evOf p ∈ events tr :=
  List.mem_map_of_mem h

/-! ## E1: evaluation budget -/

/-- E1.  With `maxeval > 0` the number of callback invocations (all of them objective evaluations, `crs_refines`) is at
    most `maxeval`, and it is the count the algorithm reports.  Every tree `T`. -/
theorem e2e_evals_le_maxeval {σ : Type} (A : Arith) (T : Sel) (P : Proposer) (c : Cfg) (E : Env σ) (fuel : Nat)
    (st st' : σ) (r : AlgResult) (tr : List (Query × Answer))
    (h : Nlopt.run (mk A T P c) E fuel st = (some r, st', tr)) (hmax : 0 < c.maxeval) :
    (tr.length : Int) ≤ c.maxeval ∧ r.numevals = tr.length ∧ ∀ p ∈ tr, p.1.fn = .obj ∧ p.1.wantGrad = false := by
  obtain ⟨_, _, _, _, hne, hn, _, hobj, _⟩ := crs_refines A T P c E fuel st st' r tr h
  have := t1_budget_anyTree A T c (events tr) hmax
  rw [hn] at this hne
  exact ⟨this, hne.symm, hobj⟩

/-- the count reported is the number of invocations, unconditionally; a run with valid arguments made at least one -/
theorem e2e_numevals {σ : Type} (A : Arith) (T : Sel) (P : Proposer) (c : Cfg) (E : Env σ) (fuel : Nat)
    (st st' : σ) (r : AlgResult) (tr : List (Query × Answer))
    (h : Nlopt.run (mk A T P c) E fuel st = (some r, st', tr)) :
    r.numevals = tr.length ∧ (r.ret ≠ -2 → 1 ≤ tr.length) := by
  obtain ⟨hs, hret, _, _, hne, hn, _, _, _⟩ := crs_refines A T P c E fuel st st' r tr h
  rw [hn] at hne
  refine ⟨hne.symm, fun h2 => ?_⟩
  cases tr with
  | cons _ _ => simp
  | nil =>
    exfalso
    cases hv : c.invalid with
    | true => rw [invalid_args_res_anyTree A T c _ hv] at hret; exact h2 hret.symm
    | false =>
      have : runWith A T c (events []) = shortRes c st0 := by simp [runWith, hv, runFrom]
      rw [this, shortRes_short] at hs; cases hs

/-- `MAXEVAL_REACHED` is returned exactly at invocation number `maxeval` -/
theorem e2e_maxeval_exact {σ : Type} (A : Arith) (T : Sel) (P : Proposer) (c : Cfg) (E : Env σ) (fuel : Nat)
    (st st' : σ) (r : AlgResult) (tr : List (Query × Answer))
    (h : Nlopt.run (mk A T P c) E fuel st = (some r, st', tr)) (h5 : r.ret = 5) : (tr.length : Int) = c.maxeval := by
  obtain ⟨_, hret, _, _, _, hn, _, _, _⟩ := crs_refines A T P c E fuel st st' r tr h
  have := t1_maxeval_exact_anyTree A T c (events tr) (by rw [hret]; exact h5)
  rw [hn] at this
  exact this

/-- the only result codes: INVALID_ARGS, FORCED_STOP, MINF_MAX_REACHED, FTOL_REACHED, XTOL_REACHED, MAXEVAL_REACHED -/
theorem e2e_ret_codes {σ : Type} (A : Arith) (T : Sel) (P : Proposer) (c : Cfg) (E : Env σ) (fuel : Nat)
    (st st' : σ) (r : AlgResult) (tr : List (Query × Answer))
    (h : Nlopt.run (mk A T P c) E fuel st = (some r, st', tr)) :
    r.ret = -2 ∨ r.ret = -5 ∨ r.ret = 2 ∨ r.ret = 3 ∨ r.ret = 4 ∨ r.ret = 5 := by
  obtain ⟨hs, hret, _⟩ := crs_refines A T P c E fuel st st' r tr h
  rcases ret_codes_anyTree A T c (events tr) with ⟨h1, _⟩ | ⟨_, h2⟩
  · rw [hs] at h1; cases h1
  · rw [hret] at h2; exact h2

/-! ## E2: forced stop -/

/-- E2.  An answer that requests a stop (`nlopt_set_force_stop(opt, s)`, `s ≠ 0`, during the invocation) is the LAST
    entry of the trace — no callback is invoked after it — and the result is `FORCED_STOP`.  Every tree `T`. -/
theorem e2e_forced_stop {σ : Type} (A : Arith) (T : Sel) (P : Proposer) (c : Cfg) (E : Env σ) (fuel : Nat)
    (st st' : σ) (r : AlgResult) (tr : List (Query × Answer))
    (h : Nlopt.run (mk A T P c) E fuel st = (some r, st', tr))
    (pre post : List (Query × Answer)) (p : Query × Answer) (htr : tr = pre ++ p :: post)
    (hp : forcedOf p.2 = true) : post = [] ∧ r.ret = -5 := by
  subst htr
  obtain ⟨_, hret, _, _, _, hn, _, _, _⟩ := crs_refines A T P c E fuel st st' r _ h
  have hev : events (pre ++ p :: post) = events pre ++ evOf p :: events post := by simp
  have hshort : (runWith A T c (events pre)).short = true := by
    cases hsh : (runWith A T c (events pre)).short with
    | true => rfl
    | false =>
      exfalso
      have h1 := run_append_of_returned_anyTree A T c (events pre) (evOf p :: events post) hsh
      have h2 := nevals_le_length_anyTree A T c (events pre)
      rw [hev, h1] at hn
      simp only [events_length, List.length_append, List.length_cons] at h2 hn
      omega
  obtain ⟨h1, h2, _⟩ := t2_forced_stop_anyTree A T c (events pre) (events post) (evOf p) hshort hp
  rw [← hev] at h1 h2
  rw [hn] at h2
  refine ⟨?_, by rw [← hret]; exact h1⟩
  simp only [List.length_append, List.length_cons, events_length] at h2
  exact List.length_eq_zero_iff.mp (by omega)

/-- … and conversely (valid arguments): `FORCED_STOP` is returned iff the last invocation requested the stop. -/
theorem e2e_forced_iff {σ : Type} (A : Arith) (T : Sel) (P : Proposer) (c : Cfg) (E : Env σ) (fuel : Nat)
    (st st' : σ) (r : AlgResult) (tr : List (Query × Answer))
    (h : Nlopt.run (mk A T P c) E fuel st = (some r, st', tr)) (hv : c.invalid = false) :
    r.ret = -5 ↔ ∃ p, tr.getLast? = some p ∧ forcedOf p.2 = true := by
  obtain ⟨hs, hret, _, _, _, _, hcons, _, _⟩ := crs_refines A T P c E fuel st st' r tr h
  obtain ⟨pre, e, htake, _, hiff⟩ := forced_stop_iff_last_forced_anyTree A T c (events tr) hs hv
  rw [hcons] at htake
  rw [hret] at hiff
  rw [hiff]
  have hlast : (events tr).getLast? = some e := by rw [htake]; simp
  simp only [events, List.getLast?_map] at hlast
  constructor
  · intro hf
    cases hl : tr.getLast? with
    | none => rw [hl] at hlast; simp at hlast
    | some p => rw [hl] at hlast; simp at hlast; subst hlast; exact ⟨p, rfl, hf⟩
  · rintro ⟨p, hl, hf⟩
    rw [hl] at hlast; simp at hlast; subst hlast; exact hf

/-! ## E3: the returned pair is an evaluated pair of the trace -/

/-- E3, unconditional form (every result code), for every tree that reports one of its nodes as the minimum: either the
    driver never wrote its outputs — `x` is the start point, `minf` is the entry value `+Inf`, and the code is
    INVALID_ARGS or FORCED_STOP (raised inside `crs_init`) — or `(x, minf)` is the point and the value of one objective
    invocation of the trace. -/
theorem e2e_returned_pair_partial {σ : Type} (A : Arith) (T : Sel) (hT : T.BestMem) (P : Proposer) (c : Cfg) (E : Env σ)
    (fuel : Nat) (st st' : σ) (r : AlgResult) (tr : List (Query × Answer))
    (h : Nlopt.run (mk A T P c) E fuel st = (some r, st', tr)) :
    (r.x = c.x0 ∧ r.minf = posInf ∧ (r.ret = -2 ∨ r.ret = -5)) ∨
    (∃ p ∈ tr, p.1.fn = .obj ∧ r.x = p.1.x ∧ r.minf = valOf p.2) := by
  obtain ⟨hs, hret, hx, hm, _, _, hcons, hobj, _⟩ := crs_refines A T P c E fuel st st' r tr h
  cases hmf : (runWith A T c (events tr)).minf with
  | none =>
    left
    obtain ⟨h1, h2⟩ := minf_none_x_untouched_anyTree A T c (events tr) hmf
    refine ⟨by rw [← hx, h1], by rw [← hm]; simp [Res.minfMem, hmf], ?_⟩
    rcases h2 with h2 | h2 | h2
    · rw [hs] at h2; cases h2
    · left; rw [← hret]; exact h2
    · right; rw [← hret]; exact h2
  | some m =>
    right
    obtain ⟨e, he, h1, h2⟩ := returned_pair_evaluated_anyTree A T hT c (events tr) hs m hmf
    rw [hcons] at he
    obtain ⟨p, hp, rfl⟩ := mem_events he
    exact ⟨p, hp, (hobj p hp).1, by rw [← hx, h1]; rfl, by rw [← hm]; simp [Res.minfMem, hmf, h2]; rfl⟩

/-- E3 on a success code: `(x, minf)` is the point and value of one objective invocation of the trace. -/
theorem e2e_returned_pair {σ : Type} (A : Arith) (T : Sel) (hT : T.BestMem) (P : Proposer) (c : Cfg) (E : Env σ)
    (fuel : Nat) (st st' : σ) (r : AlgResult) (tr : List (Query × Answer))
    (h : Nlopt.run (mk A T P c) E fuel st = (some r, st', tr)) (hret : 0 < r.ret) :
    ∃ p ∈ tr, p.1.fn = .obj ∧ r.x = p.1.x ∧ r.minf = valOf p.2 := by
  rcases e2e_returned_pair_partial A T hT P c E fuel st st' r tr h with ⟨_, _, h2 | h2⟩ | h2
  · omega
  · omega
  · exact h2

/-! ## E4: nothing evaluated is better than the result -/

/-- E4 (consistently ordered tree `scan`; success code; no invocation returned NaN): no invocation of the trace returned
    a value below the reported `minf` (IEEE `<`).  For FORCED_STOP the statement is false (`DrvCrs.t4_forced_full_false`). -/
theorem e2e_best_no_better {σ : Type} (A : Arith) (P : Proposer) (c : Cfg) (E : Env σ) (fuel : Nat) (st st' : σ)
    (r : AlgResult) (tr : List (Query × Answer)) (h : Nlopt.run (mk A scan P c) E fuel st = (some r, st', tr))
    (hret : 0 < r.ret) (hnan : ∀ p ∈ tr, (valOf p.2).isNaN = false) :
    ∀ p ∈ tr, lt (valOf p.2) r.minf = false := by
  obtain ⟨hs, hr, _, hm, _, _, hcons, _, _⟩ := crs_refines A scan P c E fuel st st' r tr h
  have hnan' : ∀ e ∈ (events tr).take (runWith A scan c (events tr)).nevals, e.f.isNaN = false := by
    intro e he
    rw [hcons] at he
    obtain ⟨p, hp, rfl⟩ := mem_events he
    exact hnan p hp
  obtain ⟨m, hmf, hall⟩ := t4_best_point A c (events tr) hs (by rw [← hr] at hret; exact hret) hnan'
  have hmm : r.minf = m := by
    rw [← hm]
    show Res.minfMem (runWith A scan c (events tr)) = m
    have hmf' : (runWith A scan c (events tr)).minf = some m := hmf
    simp [Res.minfMem, hmf']
  intro p hp
  rw [hmm]
  have hall' : ∀ e ∈ (events tr).take (runWith A scan c (events tr)).nevals, F64.lt e.f m = false := hall
  rw [hcons] at hall'
  exact hall' (evOf p) (evOf_mem_events hp)

/-! ## E5: stopval -/

/-- E5 (consistently ordered tree, no NaN).  `MINF_MAX_REACHED` only with `minf` STRICTLY below stopval. -/
theorem e2e_stopval_strict {σ : Type} (A : Arith) (P : Proposer) (c : Cfg) (E : Env σ) (fuel : Nat) (st st' : σ)
    (r : AlgResult) (tr : List (Query × Answer)) (h : Nlopt.run (mk A scan P c) E fuel st = (some r, st', tr))
    (h2 : r.ret = 2) (hnan : ∀ p ∈ tr, (valOf p.2).isNaN = false) : lt r.minf c.minfMax = true := by
  obtain ⟨hs, hr, _, hm, _, _, hcons, _, _⟩ := crs_refines A scan P c E fuel st st' r tr h
  have hnan' : ∀ e ∈ (events tr).take (runWith A scan c (events tr)).nevals, e.f.isNaN = false := by
    intro e he
    rw [hcons] at he
    obtain ⟨p, hp, rfl⟩ := mem_events he
    exact hnan p hp
  obtain ⟨m, hmf, hlt⟩ := t5_stopval A c (events tr) (by rw [← h2, ← hr]; rfl) hnan'
  have hmf' : (runWith A scan c (events tr)).minf = some m := hmf
  have hmm : r.minf = m := by
    rw [← hm]; simp [Res.minfMem, hmf']
  rw [hmm]; exact hlt

/-- Termination: with `maxeval > 0` the CRS machine returns within `maxeval + 1` steps against every environment, for
    every arithmetic, tree and proposer. -/
theorem e2e_returns {σ : Type} (A : Arith) (T : Sel) (P : Proposer) (c : Cfg) (E : Env σ) (fuel : Nat) (st : σ)
    (hmax : 0 < c.maxeval) (hfuel : c.maxeval + 1 ≤ fuel) : ∃ r, (Nlopt.run (mk A T P c) E fuel st).1 = some r :=
  run_returns A T P c E hmax fuel hfuel st

/-! ## non-vacuity of R, E1–E5 -/
namespace Ex

/-- a concrete proposer: state = number of proposals made; proposes the points (0.0), (-1.0), (-1.0), … -/
def prop : Proposer :=
  { PS := Nat, init := 0, next := fun k _ _ _ => (k + 1, [if k = 0 then F64.zero else F64.negOne]) }

/-- n = 1, population 2 (= n + 1: valid), at most 3 evaluations, start point (1.0), no stopval, all tolerances 0 -/
def cfg : Cfg := { n := 1, pop := 2, maxeval := 3, x0 := [F64.one] }

/-- the user: f(x) = x₀ (the value IS the coordinate), state = number of calls so far; never requests a stop -/
def env : Env Nat := { call := fun st q => (st + 1, { val := [q.x.headD F64.qnan], grad := none }) }

/-- the same user, but the call number `k` (0-based) does `nlopt_set_force_stop(opt, 3)` -/
def envStop (k : Nat) : Env Nat :=
  { call := fun st q => (st + 1, { val := [q.x.headD F64.qnan], grad := none, stop := if st = k then some 3 else none }) }

/-- R / E1 / E3 / E4: the run returns MAXEVAL_REACHED after exactly 3 invocations at 1.0, 0.0 (initial population), -1.0
    (a trial, accepted: it replaces the worst slot and becomes the new best); the result is the third evaluated pair -/
example : Nlopt.run (mk arithDummy scan prop cfg) env 10 0 =
    (some { ret := 5, x := [F64.negOne], minf := F64.negOne, numevals := 3 }, 3,
     [(qOf [F64.one], { val := [F64.one], grad := none }), (qOf [F64.zero], { val := [F64.zero], grad := none }),
      (qOf [F64.negOne], { val := [F64.negOne], grad := none })]) := by decide
/-- hypotheses of E1, E3, E4 hold for it: budget set, the scan tree reports one of its nodes, success code, no NaN -/
example : 0 < cfg.maxeval ∧ (0 : Int) < 5 ∧
    (∀ p ∈ (Nlopt.run (mk arithDummy scan prop cfg) env 10 0).2.2, (valOf p.2).isNaN = false) := by decide
example : scan.BestMem := scan_bestMem
/-- out of fuel: 3 steps are not enough for 3 evaluations plus the return -/
example : (Nlopt.run (mk arithDummy scan prop cfg) env 3 0).1 = none := by decide

/-- E2 inside `crs_init`: the second invocation requests the stop: FORCED_STOP after exactly 2 invocations, x and *minf
    untouched (start point, +Inf): the first disjunct of `e2e_returned_pair_partial` -/
example : (Nlopt.run (mk arithDummy scan prop cfg) (envStop 1) 10 0).1 =
      some { ret := -5, x := [F64.one], minf := F64.posInf, numevals := 2 } ∧
    (Nlopt.run (mk arithDummy scan prop cfg) (envStop 1) 10 0).2.2.map (fun p => forcedOf p.2) = [false, true] := by decide

/-- E2 after `crs_init`: the third invocation (a trial with the better value -1.0) requests the stop: FORCED_STOP with the
    incumbent (0.0, 0.0); the value -1.0 of the stopping invocation is NOT taken into account (why E4 needs a success
    code) -/
example : (Nlopt.run (mk arithDummy scan prop cfg) (envStop 2) 10 0).1 =
      some { ret := -5, x := [F64.zero], minf := F64.zero, numevals := 3 } := by decide

/-- E5: stopval 0.5: the second value 0.0 is below it (inside `crs_init`; the tree minimum is reported) -/
example : (Nlopt.run (mk arithDummy scan prop { cfg with minfMax := ⟨0x3FE0000000000000⟩ }) env 10 0).1 =
    some { ret := 2, x := [F64.zero], minf := F64.zero, numevals := 2 } := by decide

/-- INVALID_ARGS: population 1 < n + 1 = 2: no invocation at all, x and *minf untouched -/
example : Nlopt.run (mk arithDummy scan prop { cfg with pop := 1 }) env 10 0 =
    (some { ret := -2, x := [F64.one], minf := F64.posInf, numevals := 0 }, 0, []) := by decide

end Ex

/-- WITNESS: E4 is FALSE for FORCED_STOP end to end as well: the invocation that requests the stop returned -1.0, below
    the reported `minf = 0.0`. -/
theorem e2e_best_no_better_forced_false :
    ¬ ∀ (A : Arith) (P : Proposer) (c : Cfg) (E : Env Nat) (fuel : Nat) (st st' : Nat) (r : AlgResult)
        (tr : List (Query × Answer)), Nlopt.run (mk A scan P c) E fuel st = (some r, st', tr) →
        (∀ p ∈ tr, (valOf p.2).isNaN = false) → ∀ p ∈ tr, lt (valOf p.2) r.minf = false := by
  intro h
  have := h arithDummy Ex.prop Ex.cfg (Ex.envStop 2) 10 0 3
    { ret := -5, x := [F64.zero], minf := F64.zero, numevals := 3 }
    [(qOf [F64.one], { val := [F64.one], grad := none }), (qOf [F64.zero], { val := [F64.zero], grad := none }),
     (qOf [F64.negOne], { val := [F64.negOne], grad := none, stop := some 3 })] (by decide) (by decide)
    (qOf [F64.negOne], { val := [F64.negOne], grad := none, stop := some 3 }) (by decide)
  revert this
  decide

/-! ## the per-event flag IS the sticky C flag -/

/-- Fidelity of `forcedOf` (as for ESCH).  The C flag `opt->force_stop` is sticky: after the invocations `pre ++ [p]` it
    holds `lastStop (pre ++ [p])`.  On every prefix of the trace of a returned run, "the sticky flag is non-zero" (what
    `nlopt_stop_forced` tests) coincides with the per-event flag `forcedOf p.2` the machine uses. -/
theorem e2e_sticky_flag {σ : Type} (A : Arith) (T : Sel) (P : Proposer) (c : Cfg) (E : Env σ) (fuel : Nat)
    (st st' : σ) (r : AlgResult) (tr : List (Query × Answer))
    (h : Nlopt.run (mk A T P c) E fuel st = (some r, st', tr))
    (pre post : List (Query × Answer)) (p : Query × Answer) (htr : tr = pre ++ p :: post) :
    decide (lastStop (pre ++ [p]) ≠ 0) = forcedOf p.2 := by
  have hpre : ∀ q ∈ pre, forcedOf q.2 = false := by
    intro q hq
    cases hfq : forcedOf q.2 with
    | false => rfl
    | true =>
      exfalso
      obtain ⟨a, b, rfl⟩ := List.append_of_mem hq
      have := (e2e_forced_stop A T P c E fuel st st' r tr h a (b ++ p :: post) q (by rw [htr]; simp) hfq).1
      simp at this
  have h0 := E2EEsch.foldl_stop_zero pre hpre
  rw [E2EEsch.lastStop_eq, List.foldl_append, h0]
  simp only [List.foldl_cons, List.foldl_nil]
  unfold EschAlg.forcedOf E2EEsch.stopStep
  split
  · next s hs => simp [hs]
  · next hs => simp [hs]

/-! ## Through the wrapper stack of `nlopt_optimize` -/

/-- the configuration `nlopt_optimize_` hands to `crs_minimize(ni, f, f_data, lb, ub, x, minf, &stop, POP(0), 0)`, read
    off the problem the algorithm receives (`POP(0)` = `opt->stochastic_population`, 0 = default `10*(n+1)`; the global
    `nlopt_stochastic_population` is taken to be 0); `*minf = HUGE_VAL` is stored by `nlopt_optimize_` before the
    dispatch (`Res.minfMem`) -/
def cfgOf (p : Prob) : Cfg :=
  { n := p.v.n, pop := p.v.pop, maxeval := p.v.maxeval, minfMax := p.v.stopval, ftolRel := p.v.ftolRel,
    ftolAbs := p.v.ftolAbs, xtolRel := p.v.xtolRel, xtolAbs := p.v.xtolAbs, xWeights := p.v.xWeights, x0 := p.x0 }

/-- CRS as an algorithm factory for `Nlopt.optimize`; `B` = the arithmetic of the stopping tests inside `crs_minimize`,
    `T` = the tree; the proposer may depend on the problem in any way -/
def crsMk (B : Arith) (T : Sel) (P : Prob → Proposer) : Prob → Alg := fun p => mk B T (P p) (cfgOf p)

/-- Core of the lift (`wrappers_pass_result` + `wrappers_forward_trace` instantiated with `crsMk B T P`): when
    `nlopt_optimize` got as far as starting the algorithm (`hs`) and returns `o`, then `o.atrace` is the trace of a
    returned run of the CRS machine — configured by `cfgOf` on the inner problem — against the wrapped user; `o.utrace`
    corresponds to it entry by entry; code and counter are the machine's; and, when the memoization layer is off (CRS is
    not in `memoAlgs`), `x` / `opt_f` are the machine's `x` (expanded) / `minf` (sign restored). -/
theorem optimize_crs_core {σ : Type} (A B : Arith) (T : Sel) (caps : WrapCaps) (U : Env σ) (P : Prob → Proposer)
    (fuel : Nat) (v : CoreView) (hl : Bool) (x : List F64) (f0 : F64) (st st' : σ) (o : OptOut)
    (hf : v.f ≠ 0) (he : earlyFixed caps v x = false)
    (hs : (innerRun A caps U (crsMk B T P) fuel v hl x f0 st).2.2 = true)
    (h : optimize A caps U (crsMk B T P) fuel v hl x f0 st = (some o, st')) :
    ∃ r es, Nlopt.run (mk B T (P (innerProb caps v x)) (cfgOf (innerProb caps v x))) (wrappedEnv (layersOf caps v) U) fuel
        ((st, []), ({} : MemoSt)) = (some r, es, o.atrace) ∧
      o.ret = r.ret ∧ o.after.numevals = r.numevals ∧
      o.atrace.length = o.utrace.length ∧ AllRel (FwdRel caps v) o.atrace o.utrace ∧
      ((layersOf caps v).memo = false →
        o.x = (if (layersOf caps v).elim then expand (optV v.lb) (optV v.ub) r.x else r.x) ∧
        o.optf = (if v.maximize then r.minf.neg else r.minf)) := by
  obtain ⟨r, hr, hret, hnum, hat, _, _, hxf⟩ :=
    WrapProps.wrappers_pass_result A caps U (crsMk B T P) fuel v hl x f0 st st' o hf he hs h
  obtain ⟨hlen, hrel⟩ := WrapProps.wrappers_forward_trace A caps U (crsMk B T P) fuel v hl x f0 st st' o h
  refine ⟨r, (algRun caps U (crsMk B T P) fuel v x st).2.1, ?_, hret, hnum, hlen, hrel, hxf⟩
  have : algRun caps U (crsMk B T P) fuel v x st =
      ((algRun caps U (crsMk B T P) fuel v x st).1, (algRun caps U (crsMk B T P) fuel v x st).2.1,
       (algRun caps U (crsMk B T P) fuel v x st).2.2) := rfl
  rw [hr, ← hat] at this
  exact this

/-- E1 / C03 for the user: with `maxeval > 0`, `nlopt_optimize` running CRS invokes the user's callbacks at most `maxeval`
    times, every invocation is an objective evaluation without gradient, and `nlopt_get_numevals` afterwards is exactly
    the number of invocations.  Every tree, every arithmetic, every proposer, every user. -/
theorem optimize_crs_evals_le_maxeval {σ : Type} (A B : Arith) (T : Sel) (caps : WrapCaps) (U : Env σ)
    (P : Prob → Proposer) (fuel : Nat) (v : CoreView) (hl : Bool) (x : List F64) (f0 : F64) (st st' : σ) (o : OptOut)
    (hf : v.f ≠ 0) (he : earlyFixed caps v x = false)
    (hs : (innerRun A caps U (crsMk B T P) fuel v hl x f0 st).2.2 = true)
    (h : optimize A caps U (crsMk B T P) fuel v hl x f0 st = (some o, st')) (hmax : 0 < v.maxeval) :
    (o.utrace.length : Int) ≤ v.maxeval ∧ o.after.numevals = o.utrace.length ∧
    ∀ u ∈ o.utrace, u.1.fn = .obj ∧ u.1.wantGrad = false := by
  obtain ⟨r, es, hrun, _, hnum, hlen, hrel, _⟩ := optimize_crs_core A B T caps U P fuel v hl x f0 st st' o hf he hs h
  have hm : (cfgOf (innerProb caps v x)).maxeval = v.maxeval := innerView_maxeval v _ _
  obtain ⟨h1, h2, hobj⟩ := e2e_evals_le_maxeval _ _ _ _ _ fuel _ es r o.atrace hrun (by rw [hm]; exact hmax)
  rw [hm, hlen] at h1
  refine ⟨h1, by rw [hnum, h2, hlen], ?_⟩
  intro u hu
  obtain ⟨p, hp, hfn, _, hg, _, _⟩ := E2EEsch.AllRel.exists_left hrel u hu
  obtain ⟨hp1, hp2⟩ := hobj p hp
  refine ⟨by rw [hfn]; exact hp1, ?_⟩
  rw [hg, hp2]; simp

/-- E2 / C04 for the user: an invocation of the user's callback during which `nlopt_set_force_stop(opt, s)`, `s ≠ 0`, was
    called is the LAST invocation `nlopt_optimize` makes, and the call returns `NLOPT_FORCED_STOP`. -/
theorem optimize_crs_forced_stop {σ : Type} (A B : Arith) (T : Sel) (caps : WrapCaps) (U : Env σ)
    (P : Prob → Proposer) (fuel : Nat) (v : CoreView) (hl : Bool) (x : List F64) (f0 : F64) (st st' : σ) (o : OptOut)
    (hf : v.f ≠ 0) (he : earlyFixed caps v x = false)
    (hs : (innerRun A caps U (crsMk B T P) fuel v hl x f0 st).2.2 = true)
    (h : optimize A caps U (crsMk B T P) fuel v hl x f0 st = (some o, st'))
    (pre post : List (Query × Answer)) (u : Query × Answer) (hut : o.utrace = pre ++ u :: post)
    (s : Int) (hstop : u.2.stop = some s) (hs0 : s ≠ 0) : post = [] ∧ o.ret = -5 := by
  obtain ⟨r, es, hrun, hret, _, _, hrel, _⟩ := optimize_crs_core A B T caps U P fuel v hl x f0 st st' o hf he hs h
  rw [hut] at hrel
  obtain ⟨pre', p, post', hat, ⟨_, _, _, hst, _⟩, hl⟩ := E2EEsch.AllRel.split_right hrel
  have hforced : forcedOf p.2 = true := by
    rw [forcedOf_congr hst]; exact (forcedOf_iff u.2).mpr ⟨s, hstop, hs0⟩
  obtain ⟨h1, h2⟩ := e2e_forced_stop _ _ _ _ _ fuel _ es r o.atrace hrun pre' post' p hat hforced
  rw [h1] at hl
  exact ⟨List.length_eq_zero_iff.mp hl.symm, by rw [hret]; exact h2⟩

/-- E3 / C02 for the user: on a success code, the result of `nlopt_optimize` running CRS — minimising OR maximising, with
    or without fixed (eliminated) coordinates — is an evaluated pair of the user's own callback trace: `o.x` is, bit for
    bit, the point of one invocation of the user's objective, and `o.optf` is the value the user returned there.
    Hypotheses: the algorithm was started (`hf`, `he`, `hs`), no memoization layer (`hmemo`), the tree reports one of its
    nodes as its minimum (`hT`; true for the C tree whatever its order), success code.  NaN values allowed. -/
theorem optimize_crs_returned_pair {σ : Type} (A B : Arith) (T : Sel) (hT : T.BestMem) (caps : WrapCaps) (U : Env σ)
    (P : Prob → Proposer) (fuel : Nat) (v : CoreView) (hl : Bool) (x : List F64) (f0 : F64) (st st' : σ) (o : OptOut)
    (hf : v.f ≠ 0) (he : earlyFixed caps v x = false)
    (hs : (innerRun A caps U (crsMk B T P) fuel v hl x f0 st).2.2 = true)
    (hmemo : (layersOf caps v).memo = false)
    (h : optimize A caps U (crsMk B T P) fuel v hl x f0 st = (some o, st')) (hpos : 0 < o.ret) :
    ∃ u ∈ o.utrace, u.1.fn = .obj ∧ o.x = u.1.x ∧
      (v.maximize = false → o.optf = valOf u.2) ∧ (∀ w, u.2.val = [w] → o.optf = w) := by
  obtain ⟨r, es, hrun, hret, _, _, hrel, hxf⟩ := optimize_crs_core A B T caps U P fuel v hl x f0 st st' o hf he hs h
  obtain ⟨hox, hof⟩ := hxf hmemo
  obtain ⟨p, hp, hpfn, hpx, hpm⟩ := e2e_returned_pair _ _ hT _ _ _ fuel _ es r o.atrace hrun (by rw [← hret]; exact hpos)
  obtain ⟨u, hu, hfn, hux, _, _, hans⟩ := E2EEsch.AllRel.exists_right hrel p hp
  have hfn' : u.1.fn = .obj := by rw [hfn]; exact hpfn
  refine ⟨u, hu, hfn', by rw [hox, hux, hpx], ?_, ?_⟩
  · intro hmin
    rw [hof, hmin, hpm, hans]
    exact (valOf_ansOf _ u.1 u.2 hfn').2 hmin
  · intro w hw
    rw [hof, hpm, hans, (valOf_ansOf _ u.1 u.2 hfn').1 w hw, layersOf_maximize]
    cases v.maximize <;> simp [neg_neg']

/-- E3 / C02 for the user, every result code: either `nlopt_optimize` returns INVALID_ARGS or FORCED_STOP with
    `opt_f = ±HUGE_VAL` (the driver wrote nothing: bad population size, or the stop was requested inside `crs_init`), or
    the result is an evaluated pair of the user's own callback trace. -/
theorem optimize_crs_returned_pair_partial {σ : Type} (A B : Arith) (T : Sel) (hT : T.BestMem) (caps : WrapCaps)
    (U : Env σ) (P : Prob → Proposer) (fuel : Nat) (v : CoreView) (hl : Bool) (x : List F64) (f0 : F64) (st st' : σ)
    (o : OptOut) (hf : v.f ≠ 0) (he : earlyFixed caps v x = false)
    (hs : (innerRun A caps U (crsMk B T P) fuel v hl x f0 st).2.2 = true)
    (hmemo : (layersOf caps v).memo = false)
    (h : optimize A caps U (crsMk B T P) fuel v hl x f0 st = (some o, st')) :
    ((o.ret = -2 ∨ o.ret = -5) ∧ o.optf = (if v.maximize then posInf.neg else posInf)) ∨
    (∃ u ∈ o.utrace, u.1.fn = .obj ∧ o.x = u.1.x ∧
      (v.maximize = false → o.optf = valOf u.2) ∧ (∀ w, u.2.val = [w] → o.optf = w)) := by
  obtain ⟨r, es, hrun, hret, _, _, hrel, hxf⟩ := optimize_crs_core A B T caps U P fuel v hl x f0 st st' o hf he hs h
  obtain ⟨hox, hof⟩ := hxf hmemo
  rcases e2e_returned_pair_partial _ _ hT _ _ _ fuel _ es r o.atrace hrun with ⟨_, hm, hc⟩ | ⟨p, hp, hpfn, hpx, hpm⟩
  · left
    exact ⟨by rw [hret]; exact hc, by rw [hof, hm]⟩
  · right
    obtain ⟨u, hu, hfn, hux, _, _, hans⟩ := E2EEsch.AllRel.exists_right hrel p hp
    have hfn' : u.1.fn = .obj := by rw [hfn]; exact hpfn
    refine ⟨u, hu, hfn', by rw [hox, hux, hpx], ?_, ?_⟩
    · intro hmin
      rw [hof, hmin, hpm, hans]
      exact (valOf_ansOf _ u.1 u.2 hfn').2 hmin
    · intro w hw
      rw [hof, hpm, hans, (valOf_ansOf _ u.1 u.2 hfn').1 w hw, layersOf_maximize]
      cases v.maximize <;> simp [neg_neg']

/-- the algorithm sees no NaN when every user answer is a single number that is not NaN -/
theorem atrace_no_nan {caps : WrapCaps} {v : CoreView} {at_ ut : List (Query × Answer)}
    (hrel : AllRel (FwdRel caps v) at_ ut) (hobj : ∀ p ∈ at_, p.1.fn = .obj ∧ p.1.wantGrad = false)
    (hnum : ∀ u ∈ ut, ∃ w, u.2.val = [w] ∧ w.isNaN = false) : ∀ p ∈ at_, (valOf p.2).isNaN = false := by
  intro p hp
  obtain ⟨u, hu, hfn, _, _, _, hans⟩ := E2EEsch.AllRel.exists_right hrel p hp
  obtain ⟨w, hw, hwn⟩ := hnum u hu
  have hfn' : u.1.fn = .obj := by rw [hfn]; exact (hobj p hp).1
  rw [hans, (valOf_ansOf _ u.1 u.2 hfn').1 w hw]
  split
  · rw [isNaN_neg]; exact hwn
  · exact hwn

/-- E4 / C05 for the user (consistently ordered tree; success code; every user answer is one number, not NaN): no
    invocation of the user's objective returned a value better than the reported `opt_f` — below it when minimising,
    above it when maximising. -/
theorem optimize_crs_best_no_better {σ : Type} (A B : Arith) (caps : WrapCaps) (U : Env σ)
    (P : Prob → Proposer) (fuel : Nat) (v : CoreView) (hl : Bool) (x : List F64) (f0 : F64) (st st' : σ) (o : OptOut)
    (hf : v.f ≠ 0) (he : earlyFixed caps v x = false)
    (hs : (innerRun A caps U (crsMk B scan P) fuel v hl x f0 st).2.2 = true)
    (hmemo : (layersOf caps v).memo = false)
    (h : optimize A caps U (crsMk B scan P) fuel v hl x f0 st = (some o, st')) (hpos : 0 < o.ret)
    (hnum : ∀ u ∈ o.utrace, ∃ w, u.2.val = [w] ∧ w.isNaN = false) :
    (v.maximize = false → ∀ u ∈ o.utrace, lt (valOf u.2) o.optf = false) ∧
    (v.maximize = true → ∀ u ∈ o.utrace, ∀ w, u.2.val = [w] → lt o.optf w = false) := by
  obtain ⟨r, es, hrun, hret, _, _, hrel, hxf⟩ := optimize_crs_core A B scan caps U P fuel v hl x f0 st st' o hf he hs h
  obtain ⟨_, hof⟩ := hxf hmemo
  obtain ⟨_, _, _, _, _, _, _, hobj, _⟩ := crs_refines _ _ _ _ _ fuel _ es r o.atrace hrun
  have hnan := atrace_no_nan hrel hobj hnum
  have hbest := e2e_best_no_better _ _ _ _ fuel _ es r o.atrace hrun (by rw [← hret]; exact hpos) hnan
  constructor
  · intro hmin u hu
    obtain ⟨p, hp, hfn, _, _, _, hans⟩ := E2EEsch.AllRel.exists_left hrel u hu
    have hfn' : u.1.fn = .obj := by rw [hfn]; exact (hobj p hp).1
    have := hbest p hp
    rw [hans, (valOf_ansOf _ u.1 u.2 hfn').2 hmin] at this
    rw [hof, hmin]; exact this
  · intro hmax u hu w hw
    obtain ⟨p, hp, hfn, _, _, _, hans⟩ := E2EEsch.AllRel.exists_left hrel u hu
    have hfn' : u.1.fn = .obj := by rw [hfn]; exact (hobj p hp).1
    have := hbest p hp
    rw [hans, (valOf_ansOf _ u.1 u.2 hfn').1 w hw, layersOf_maximize, hmax] at this
    rw [hof, hmax]
    simp only [if_true] at this ⊢
    rw [← lt_neg_neg, neg_neg'] at this
    exact this

/-- E5 for the user (consistently ordered tree; every user answer is one number, not NaN): `NLOPT_STOPVAL_REACHED` (2) only
    when the reported `opt_f` is STRICTLY beyond stopval (the documentation says "at least as good as"). -/
theorem optimize_crs_stopval_strict {σ : Type} (A B : Arith) (caps : WrapCaps) (U : Env σ)
    (P : Prob → Proposer) (fuel : Nat) (v : CoreView) (hl : Bool) (x : List F64) (f0 : F64) (st st' : σ) (o : OptOut)
    (hf : v.f ≠ 0) (he : earlyFixed caps v x = false)
    (hs : (innerRun A caps U (crsMk B scan P) fuel v hl x f0 st).2.2 = true)
    (hmemo : (layersOf caps v).memo = false)
    (h : optimize A caps U (crsMk B scan P) fuel v hl x f0 st = (some o, st')) (h2 : o.ret = 2)
    (hnum : ∀ u ∈ o.utrace, ∃ w, u.2.val = [w] ∧ w.isNaN = false) :
    (if v.maximize then lt v.stopval o.optf else lt o.optf v.stopval) = true := by
  obtain ⟨r, es, hrun, hret, _, _, hrel, hxf⟩ := optimize_crs_core A B scan caps U P fuel v hl x f0 st st' o hf he hs h
  obtain ⟨_, hof⟩ := hxf hmemo
  obtain ⟨_, _, _, _, _, _, _, hobj, _⟩ := crs_refines _ _ _ _ _ fuel _ es r o.atrace hrun
  have hnan := atrace_no_nan hrel hobj hnum
  have hsv : (cfgOf (innerProb caps v x)).minfMax = if v.maximize then v.stopval.neg else v.stopval :=
    innerView_stopval v _ _
  have := e2e_stopval_strict _ _ _ _ fuel _ es r o.atrace hrun (by rw [← hret]; exact h2) hnan
  rw [hsv] at this
  rw [hof]
  cases hm : v.maximize with
  | false => simpa [hm] using this
  | true =>
    simp only [hm, if_true] at this ⊢
    rw [← lt_neg_neg, neg_neg'] at this
    exact this

/-- Termination, end to end: `nlopt_optimize` running CRS with `maxeval > 0` returns (is not "still running") as soon as the
    fuel covers `maxeval + 1` steps: together with `optimize_crs_evals_le_maxeval`, the call makes at most `maxeval` user
    invocations and then returns, whatever the user's callbacks answer. -/
theorem optimize_crs_returns {σ : Type} (A B : Arith) (T : Sel) (caps : WrapCaps) (U : Env σ) (P : Prob → Proposer)
    (fuel : Nat) (v : CoreView) (hl : Bool) (x : List F64) (f0 : F64) (st : σ)
    (hmax : 0 < v.maxeval) (hfuel : v.maxeval + 1 ≤ fuel) :
    ∃ o, (optimize A caps U (crsMk B T P) fuel v hl x f0 st).1 = some o := by
  cases ho : (optimize A caps U (crsMk B T P) fuel v hl x f0 st).1 with
  | some o => exact ⟨o, rfl⟩
  | none =>
    exfalso
    obtain ⟨_, hnone⟩ := WrapProps.wrappers_pass_running A caps U (crsMk B T P) fuel v hl x f0 st ho
    have hm : (cfgOf (innerProb caps v x)).maxeval = v.maxeval := innerView_maxeval v _ _
    obtain ⟨r, hr⟩ := run_returns B T (P (innerProb caps v x)) (cfgOf (innerProb caps v x)) (wrappedEnv (layersOf caps v) U)
      (by rw [hm]; exact hmax) fuel (by rw [hm]; exact hfuel) ((st, []), ({} : MemoSt))
    have : (algRun caps U (crsMk B T P) fuel v x st).1 = some r := hr
    rw [hnone] at this
    cases this

/-! ## non-vacuity of the lifted statements -/
namespace WEx
open Nlopt.WrapEx

/-- NLOPT_GN_CRS2_LM (19: eliminated, NOT memoized, finite box required), n = 2, coordinate 0 fixed at +0.0, coordinate 1
    in [0, 2] (reduced dimension 1), population 2, maxeval 3, stale counter 5 and stale force-stop flag 9 -/
def view (maximize : Bool) : CoreView :=
  { WrapEx.view with algorithm := 19, maximize := maximize, maxeval := 3, pop := 2,
                     stopval := if maximize then F64.posInf else F64.negInf }

/-- a proposer in the REDUCED dimension: (1.0), then (2.0), (2.0), … -/
def prop (_ : Prob) : Proposer :=
  { PS := Nat, init := 0, next := fun k _ _ _ => (k + 1, [if k = 0 then F64.one else WrapEx.two]) }

/-- the user: f(x) = x₁ (the free coordinate); state = number of calls -/
def user : Env Nat := { call := fun st q => (st + 1, { val := [q.x.getD 1 F64.qnan], grad := none }) }

/-- the same, requesting a stop (value 7) during call number 1 (0-based) -/
def userStop : Env Nat :=
  { call := fun st q => (st + 1, { val := [q.x.getD 1 F64.qnan], grad := none, stop := if st = 1 then some 7 else none }) }

/-- the hypotheses of the lifted theorems hold: objective set, start accepted, algorithm started, no memo layer, elimination on -/
example : (view false).f ≠ 0 ∧ earlyFixed caps (view false) x0 = false ∧
    (innerRun (arith F64.zero) caps user (crsMk arithDummy scan prop) 10 (view false) false x0 F64.zero 0).2.2 = true ∧
    (layersOf caps (view false)).memo = false ∧ (layersOf caps (view false)).elim = true ∧ 0 < (view false).maxeval := by
  decide
example : (view true).f ≠ 0 ∧ earlyFixed caps (view true) x0 = false ∧
    (innerRun (arith F64.zero) caps user (crsMk arithDummy scan prop) 10 (view true) false x0 F64.zero 0).2.2 = true ∧
    (layersOf caps (view true)).memo = false := by decide

/-- minimising: three user invocations at (+0.0, 0.5), (+0.0, 1.0), (+0.0, 2.0) with values 0.5, 1.0, 2.0 (the third is a
    rejected trial); the call returns MAXEVAL_REACHED (a success code) with the first evaluated pair, counter 3; every user
    answer is one number, not NaN (hypothesis `hnum` of C05 / stopval) -/
example : (optimize (arith F64.zero) caps user (crsMk arithDummy scan prop) 10 (view false) false x0 F64.zero 0).1.map
      (fun o => (o.ret, o.x, o.optf, o.after.numevals)) = some (5, [F64.zero, half], half, 3) := by decide
example : (optimize (arith F64.zero) caps user (crsMk arithDummy scan prop) 10 (view false) false x0 F64.zero 0).1.map
      (fun o => o.utrace.map (fun u => (u.1.x, u.2.val))) =
    some [([F64.zero, half], [half]), ([F64.zero, F64.one], [F64.one]), ([F64.zero, WrapEx.two], [WrapEx.two])] := by decide
example : (optimize (arith F64.zero) caps user (crsMk arithDummy scan prop) 10 (view false) false x0 F64.zero 0).1.map
      (fun o => o.utrace.map (fun u => (u.1.fn, u.1.wantGrad))) =
    some [(.obj, false), (.obj, false), (.obj, false)] := by decide
example : half.isNaN = false ∧ F64.one.isNaN = false ∧ WrapEx.two.isNaN = false := by decide

/-- maximising: the same three invocations (the third is now an accepted trial); the call returns the LAST pair
    ((+0.0, 2.0), 2.0) -/
example : (optimize (arith F64.zero) caps user (crsMk arithDummy scan prop) 10 (view true) false x0 F64.zero 0).1.map
      (fun o => (o.ret, o.x, o.optf, o.after.numevals)) = some (5, [F64.zero, WrapEx.two], WrapEx.two, 3) := by decide

/-- forced stop during the second invocation (inside `crs_init`): FORCED_STOP, exactly two invocations, the flag reads 7
    afterwards; x is the caller's start point and `opt_f` is `HUGE_VAL`: not an evaluated pair — which is why
    `optimize_crs_returned_pair` asks for a success code -/
example : (optimize (arith F64.zero) caps userStop (crsMk arithDummy scan prop) 10 (view false) false x0 F64.zero 0).1.map
      (fun o => (o.ret, o.x, o.optf, o.after.numevals, o.utrace.length, o.after.forceStop)) =
    some (-5, [F64.zero, half], F64.posInf, 2, 2, 7) := by decide

/-- stopval 0.75, minimising: the first value 0.5 is strictly below it: STOPVAL_REACHED after one invocation -/
example : (optimize (arith F64.zero) caps user (crsMk arithDummy scan prop) 10
      { view false with stopval := ⟨0x3FE8000000000000⟩ } false x0 F64.zero 0).1.map
      (fun o => (o.ret, o.x, o.optf, o.after.numevals)) = some (2, [F64.zero, half], half, 1) := by decide

end WEx

end Nlopt.E2ECrs
