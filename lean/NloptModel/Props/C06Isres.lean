import NloptModel.Model.Isres
import NloptModel.Lemmas.F64Order
/-!
# C06 — ISRES returns the best feasible point it evaluated (inequality-constrained case)

`run es` is the incumbent `(x, *minf, minf_penalty, minf_gpenalty)` of `isres_minimize` after the evaluations `es`
(any number, any values: the evolution strategy only proposes the points).

Result.  Under two hypotheses on the evaluated points

* `NoNaNFeas es` — no within-tolerance point has a NaN objective value, and
* `InfeasPos es` — every out-of-tolerance point has `penalty > 0` and `gpenalty > 0`
  (inequality constraints only: `gpenalty = penalty = Σ max(g,0)²`, and some `g > tol ≥ 0`, so this holds
  whenever the square `g*g` does not UNDERFLOW to 0),

the statement holds at full strength (`isres_best_feasible`), and even exactly (`isres_first_best`): as soon as one
feasible point was evaluated, the incumbent is the FIRST feasible evaluated point whose value is minimal among the
feasible evaluated points, recorded with penalty 0.

Neither hypothesis can be dropped (witnesses `isres_best_feasible_full_false`, `isres_best_feasible_eq_false`,
`isres_best_feasible_nan_false`, all by `decide`).
Nothing else is needed: the penalty of a FEASIBLE point (which may be > 0, "in-band": violation within tolerance)
plays no role, `f = ±Inf` is fine, `-0.0` vs `+0.0` is fine (the conclusions are stated with the IEEE comparisons).
-/
set_option linter.unusedSimpArgs false
set_option linter.unusedVariables false
namespace Nlopt.C06Isres
open Nlopt Nlopt.Isres Nlopt.F64

/-! ## Hypotheses -/

/-- every objective value is a number -/
def NoNaN (es : List Ev) : Prop := ∀ e ∈ es, e.f.isNaN = false

/-- every FEASIBLE point has a non-NaN objective value (all the proof needs; implied by `NoNaN`).
    Not guaranteed by the real code: a NaN objective at a feasible point is accepted as first feasible incumbent and then
    never replaced (`isres_best_feasible_nan_false`). -/
def NoNaNFeas (es : List Ev) : Prop := ∀ e ∈ es, e.feas = true → e.f.isNaN = false

/-- every INFEASIBLE point has strictly positive total penalty and strictly positive inequality penalty
    (all the proof needs about penalties).
    * `gpenalty > 0` for an infeasible point is exactly where "inequality constraints only" enters: with equality
      constraints a point can be infeasible with `gpenalty = 0` (`isres_best_feasible_eq_false`, the FIXME of isres.c).
    * Even without equality constraints it is NOT guaranteed by the real code: infeasible means some `g > tol`,
      `tol ≥ 0`, and the penalty adds `g*g`, which underflows to `+0` for `0 ≤ tol < g < 1.5e-162`
      (`isres_best_feasible_full_false`). -/
def InfeasPos (es : List Ev) : Prop :=
  ∀ e ∈ es, e.feas = false → gt e.penalty zero = true ∧ gt e.gpenalty zero = true

/-- the "natural" well-formedness of the penalties in the inequality-only case, per event:
    penalties are numbers, `0 ≤ penalty`, `gpenalty = penalty` (no equality constraints), and a point without positive
    penalty is feasible (`penalty ≤ 0`, i.e. `penalty = ±0`, means no positive violation — up to underflow, see
    `InfeasPos`).  A FEASIBLE point may have `penalty > 0` (violation within tolerance).
    Given the first three conjuncts, the last one is equivalent to `e.feas = false → penalty > 0`. -/
def PenOK (es : List Ev) : Prop := ∀ e ∈ es,
  e.penalty.isNaN = false ∧ e.gpenalty.isNaN = false ∧ le zero e.penalty = true ∧ e.gpenalty = e.penalty ∧
  (le e.penalty zero = true → e.feas = true)

theorem NoNaN.feas {es : List Ev} (h : NoNaN es) : NoNaNFeas es := fun e he _ => h e he

theorem PenOK.infeasPos {es : List Ev} (h : PenOK es) : InfeasPos es := by
  intro e he hf
  obtain ⟨h1, _, h3, h4, h5⟩ := h e he
  have h6 : le e.penalty zero = false := by
    cases hc : le e.penalty zero with
    | false => rfl
    | true => rw [h5 hc] at hf; cases hf
  have hz : zero.isNaN = false := by decide
  have : gt e.penalty zero = true := by
    unfold gt; exact (lt_iff_not_le hz h1).mpr h6
  exact ⟨this, by rw [h4]; exact this⟩

/-! ## Order facts used -/

theorem gt_posInf_zero : gt posInf zero = true := by decide
theorem fne_zero_posInf : fne zero posInf = true := by decide
theorem gt_zero_zero : gt zero zero = false := by decide
theorem fne_zero_zero : fne zero zero = false := by decide
theorem zero_key : zero.key = 0 := by decide
theorem zero_not_nan : zero.isNaN = false := by decide

theorem gt_zero_not_le {a : F64} (h : gt a zero = true) : le a zero = false := by
  simp [gt, lt, le, zero_key, zero_not_nan] at *
  intro _; exact h.2

theorem gt_zero_fne {a : F64} (h : gt a zero = true) : fne zero a = true := by
  simp [gt, lt, fne, feq, zero_key, zero_not_nan] at *
  right; omega

theorem lt_of_le_of_fne {a b : F64} (h1 : le a b = true) (h2 : fne a b = true) : lt a b = true := by
  simp [le, lt, fne, feq] at *
  obtain ⟨⟨ha, hb⟩, hab⟩ := h1
  rcases h2 with (h2 | h2) | h2
  · rw [ha] at h2; cases h2
  · rw [hb] at h2; cases h2
  · exact ⟨⟨ha, hb⟩, by omega⟩

theorem lt_trans' {a b c : F64} (h1 : lt a b = true) (h2 : lt b c = true) : lt a c = true := by
  simp [lt] at *
  exact ⟨⟨h1.1.1, h2.1.2⟩, by omega⟩

theorem lt_of_lt_of_le' {a b c : F64} (h1 : lt a b = true) (h2 : le b c = true) : lt a c = true := by
  simp [lt, le] at *
  exact ⟨⟨h1.1.1, h2.1.2⟩, by omega⟩

/-- `!(a <= b && a != b)` on numbers means `b <= a` -/
theorem le_of_rejected {a b : F64} (ha : a.isNaN = false) (hb : b.isNaN = false)
    (h : (le a b && fne a b) = false) : le b a = true := by
  simp [le, fne, feq, ha, hb] at *
  omega

/-! ## The invariant of the fold -/

/-- Exact description of the incumbent after the evaluations `es`:
    nothing accepted yet / an infeasible point (and no feasible point was seen) / the first feasible point of minimal
    value, recorded with penalty 0. -/
def Good (es : List Ev) (s : Inc) : Prop :=
  (s = {} ∧ ∀ x ∈ es, x.feas = false) ∨
  (∃ e ∈ es, e.feas = false ∧ s = ⟨e.f, e.penalty, e.gpenalty, some e.pt⟩ ∧ ∀ x ∈ es, x.feas = false) ∨
  (∃ pre e post, es = pre ++ e :: post ∧ e.feas = true ∧ s = ⟨e.f, zero, zero, some e.pt⟩ ∧
    (∀ x ∈ pre, x.feas = true → lt e.f x.f = true) ∧ (∀ x ∈ post, x.feas = true → le e.f x.f = true))

theorem good_nil : Good [] ({} : Inc) := Or.inl ⟨rfl, by simp⟩

theorem good_step (es : List Ev) (x : Ev) (s : Inc) (hn : NoNaNFeas (es ++ [x])) (hp : InfeasPos (es ++ [x]))
    (h : Good es s) : Good (es ++ [x]) (update s x) := by
  rcases h with ⟨hs, hall⟩ | ⟨e, he, hef, hs, hall⟩ | ⟨pre, e, post, hes, hef, hs, hpre, hpost⟩
  · -- nothing accepted yet: minf = pen = gpen = +Inf
    subst hs
    cases hxf : x.feas with
    | true =>
      -- a feasible point is accepted whatever its value (`minf_gpenalty = +Inf > 0`, `0 != +Inf`)
      have hacc : accepts {} x = true := by
        simp [accepts, effPen, hxf, gt_posInf_zero, fne_zero_posInf]
      refine Or.inr (Or.inr ⟨es, x, [], rfl, hxf, ?_, ?_, by simp⟩)
      · simp [update, hacc, effPen, effGpen, hxf]
      · intro y hy hyf; rw [hall y hy] at hyf; cases hyf
    | false =>
      have hall' : ∀ y ∈ es ++ [x], y.feas = false := by
        intro y hy
        simp at hy
        rcases hy with hy | hy
        · exact hall y hy
        · subst hy; exact hxf
      by_cases hacc : accepts {} x = true
      · exact Or.inr (Or.inl ⟨x, by simp, hxf, by simp [update, hacc, effPen, effGpen, hxf], hall'⟩)
      · exact Or.inl ⟨by simp [update, hacc], hall'⟩
  · -- infeasible incumbent e: pen = e.penalty > 0, gpen = e.gpenalty > 0
    subst hs
    obtain ⟨hp1, hp2⟩ := hp e (by simp [he]) hef
    cases hxf : x.feas with
    | true =>
      -- the first feasible point is accepted whatever its value (`minf_gpenalty > 0`, `0 != minf_penalty`)
      have hacc : accepts ⟨e.f, e.penalty, e.gpenalty, some e.pt⟩ x = true := by
        simp [accepts, effPen, hxf, hp2, gt_zero_fne hp1]
      refine Or.inr (Or.inr ⟨es, x, [], rfl, hxf, ?_, ?_, by simp⟩)
      · simp [update, hacc, effPen, effGpen, hxf]
      · intro y hy hyf; rw [hall y hy] at hyf; cases hyf
    | false =>
      have hall' : ∀ y ∈ es ++ [x], y.feas = false := by
        intro y hy
        simp at hy
        rcases hy with hy | hy
        · exact hall y hy
        · subst hy; exact hxf
      by_cases hacc : accepts ⟨e.f, e.penalty, e.gpenalty, some e.pt⟩ x = true
      · exact Or.inr (Or.inl ⟨x, by simp, hxf, by simp [update, hacc, effPen, effGpen, hxf], hall'⟩)
      · exact Or.inr (Or.inl ⟨e, by simp [he], hef, by simp [update, hacc], hall'⟩)
  · -- feasible incumbent e: pen = gpen = 0
    subst hs
    have hen : e.f.isNaN = false := hn e (by simp [hes]) hef
    cases hxf : x.feas with
    | false =>
      -- an infeasible point has penalty > 0 = minf_penalty: rejected
      obtain ⟨hp1, _⟩ := hp x (by simp) hxf
      have hacc : accepts ⟨e.f, zero, zero, some e.pt⟩ x = false := by
        simp [accepts, hxf, gt_zero_not_le hp1]
      refine Or.inr (Or.inr ⟨pre, e, post ++ [x], by simp [hes], hef, by simp [update, hacc], hpre, ?_⟩)
      intro y hy hyf
      simp at hy
      rcases hy with hy | hy
      · exact hpost y hy hyf
      · subst hy; rw [hxf] at hyf; cases hyf
    | true =>
      have hxn : x.f.isNaN = false := hn x (by simp) hxf
      -- the rule degenerates to `f <= minf && f != minf`
      have hrule : accepts ⟨e.f, zero, zero, some e.pt⟩ x = (le x.f e.f && fne x.f e.f) := by
        simp [accepts, effPen, hxf, gt_zero_zero, fne_zero_zero]
      cases hc : (le x.f e.f && fne x.f e.f) with
      | true =>
        have hacc : accepts ⟨e.f, zero, zero, some e.pt⟩ x = true := by rw [hrule, hc]
        have hc' := hc
        simp only [Bool.and_eq_true] at hc'
        have hlt : lt x.f e.f = true := lt_of_le_of_fne hc'.1 hc'.2
        refine Or.inr (Or.inr ⟨pre ++ e :: post, x, [], by simp [hes], hxf,
          by simp [update, hacc, effPen, effGpen, hxf], ?_, by simp⟩)
        intro y hy hyf
        simp at hy
        rcases hy with hy | hy | hy
        · exact lt_trans' hlt (hpre y hy hyf)
        · subst hy; exact hlt
        · exact lt_of_lt_of_le' hlt (hpost y hy hyf)
      | false =>
        have hacc : accepts ⟨e.f, zero, zero, some e.pt⟩ x = false := by rw [hrule, hc]
        refine Or.inr (Or.inr ⟨pre, e, post ++ [x], by simp [hes], hef, by simp [update, hacc], hpre, ?_⟩)
        intro y hy hyf
        simp at hy
        rcases hy with hy | hy
        · exact hpost y hy hyf
        · subst hy; exact le_of_rejected hxn hen hc

theorem good_run_aux (done es : List Ev) (s : Inc) (hn : NoNaNFeas (done ++ es)) (hp : InfeasPos (done ++ es))
    (h : Good done s) : Good (done ++ es) (es.foldl update s) := by
  induction es generalizing done s with
  | nil => simpa using h
  | cons e es ih =>
    have h1 : Good (done ++ [e]) (update s e) :=
      good_step done e s (fun x hx => hn x (by simp at hx ⊢; rcases hx with h | h <;> simp [h]))
        (fun x hx => hp x (by simp at hx ⊢; rcases hx with h | h <;> simp [h])) h
    have := ih (done ++ [e]) (update s e) (by simpa using hn) (by simpa using hp) h1
    simpa using this

theorem good_run (es : List Ev) (hn : NoNaNFeas es) (hp : InfeasPos es) : Good es (run es) := by
  have g := good_run_aux [] es {} (by simpa using hn) (by simpa using hp) good_nil
  simpa [run] using g

/-! ## Main theorems -/

/-- **ISRES, exact form**: if some evaluated point was feasible, the incumbent is the FIRST feasible evaluated point
    whose value is minimal among the feasible evaluated points: every earlier feasible point has a strictly larger value,
    every later feasible point a larger or equal value; it is recorded with `minf_penalty = minf_gpenalty = +0`. -/
theorem isres_first_best (es : List Ev) (hn : NoNaNFeas es) (hp : InfeasPos es) (hex : ∃ e ∈ es, e.feas = true) :
    ∃ pre e post, es = pre ++ e :: post ∧ e.feas = true ∧ run es = ⟨e.f, zero, zero, some e.pt⟩ ∧
      (∀ x ∈ pre, x.feas = true → lt e.f x.f = true) ∧ (∀ x ∈ post, x.feas = true → le e.f x.f = true) := by
  obtain ⟨e0, he0, hf0⟩ := hex
  rcases good_run es hn hp with ⟨_, hall⟩ | ⟨_, _, _, _, hall⟩ | h
  · rw [hall e0 he0] at hf0; cases hf0
  · rw [hall e0 he0] at hf0; cases hf0
  · exact h

/-- **ISRES returns the best feasible point it evaluated** (inequality constraints): for EVERY sequence of evaluated
    points — if some evaluated point was feasible (within tolerance), then
    (a) the incumbent is one of the evaluated points, with exactly its value, and that point is feasible;
    (b) it is recorded with penalty 0;
    (c) no feasible evaluated point has a better objective value. -/
theorem isres_best_feasible (es : List Ev) (hn : NoNaNFeas es) (hp : InfeasPos es) (hex : ∃ e ∈ es, e.feas = true) :
    (∃ e ∈ es, (run es).minf = e.f ∧ (run es).pt = some e.pt ∧ e.feas = true) ∧
    (run es).pen = zero ∧ (run es).gpen = zero ∧
    ∀ e ∈ es, e.feas = true → le (run es).minf e.f = true := by
  obtain ⟨pre, e, post, hes, hef, hrun, hpre, hpost⟩ := isres_first_best es hn hp hex
  have hen : e.f.isNaN = false := hn e (by simp [hes]) hef
  rw [hrun]
  refine ⟨⟨e, by simp [hes], rfl, rfl, hef⟩, rfl, rfl, ?_⟩
  intro y hy hyf
  rw [hes] at hy
  simp at hy
  rcases hy with hy | hy | hy
  · exact le_of_lt (hpre y hy hyf)
  · subst hy; exact le_refl_of_not_nan hen
  · exact hpost y hy hyf

/-- the same with the "natural" hypotheses of the inequality-only case -/
theorem isres_best_feasible_ineq (es : List Ev) (hn : NoNaN es) (hp : PenOK es) (hex : ∃ e ∈ es, e.feas = true) :
    (∃ e ∈ es, (run es).minf = e.f ∧ (run es).pt = some e.pt ∧ e.feas = true) ∧
    (run es).pen = zero ∧ (run es).gpen = zero ∧
    ∀ e ∈ es, e.feas = true → le (run es).minf e.f = true :=
  isres_best_feasible es hn.feas hp.infeasPos hex

/-- complement: while no feasible point was evaluated the incumbent is nothing or one of the (infeasible) evaluated
    points with its own data -/
theorem isres_no_feasible (es : List Ev) (hp : InfeasPos es) (hno : ∀ e ∈ es, e.feas = false) :
    run es = {} ∨ ∃ e ∈ es, run es = ⟨e.f, e.penalty, e.gpenalty, some e.pt⟩ := by
  have hn : NoNaNFeas es := by
    intro e he hf; rw [hno e he] at hf; cases hf
  rcases good_run es hn hp with ⟨h, _⟩ | ⟨e, he, _, h, _⟩ | ⟨pre, e, post, hes, hef, _⟩
  · exact Or.inl h
  · exact Or.inr ⟨e, he, h⟩
  · rw [hno e (by simp [hes])] at hef; cases hef

/-! ## Step / monotonicity facts -/

/-- "the incumbent is a feasible point": `minf_penalty = minf_gpenalty = +0` (bit pattern; an infeasible incumbent has
    `penalty > 0` and the initial state has `+Inf`) -/
def FeasInc (s : Inc) : Prop := s.pen = zero ∧ s.gpen = zero

/-- with a feasible incumbent only feasible points are accepted -/
theorem isres_accept_feasible (s : Inc) (x : Ev) (hs : FeasInc s)
    (hx : x.feas = false → gt x.penalty zero = true) (hacc : accepts s x = true) : x.feas = true := by
  cases hxf : x.feas with
  | true => rfl
  | false =>
    have := gt_zero_not_le (hx hxf)
    simp [accepts, hs.1, hxf, this] at hacc

/-- after a feasible incumbent, the incumbent stays feasible (one step) -/
theorem isres_feasible_stays (s : Inc) (x : Ev) (hs : FeasInc s)
    (hx : x.feas = false → gt x.penalty zero = true) : FeasInc (update s x) := by
  unfold update
  by_cases hacc : accepts s x = true
  · have hxf := isres_accept_feasible s x hs hx hacc
    simp [hacc, FeasInc, effPen, effGpen, hxf]
  · simp [hacc]; exact hs

/-- after a feasible incumbent (`minf_gpenalty = 0` suffices), `minf` never increases (one step) -/
theorem isres_minf_mono (s : Inc) (x : Ev) (hs : s.gpen = zero) (hm : s.minf.isNaN = false) :
    le (update s x).minf s.minf = true := by
  unfold update
  by_cases hacc : accepts s x = true
  · simp only [hacc, if_true]
    simp [accepts, hs, gt_zero_zero] at hacc
    exact hacc.1.2
  · simp [hacc]; exact le_refl_of_not_nan hm

/-- ... and along any continuation of the run -/
theorem isres_feasible_stays_fold (es : List Ev) (s : Inc) (hs : FeasInc s)
    (hp : ∀ e ∈ es, e.feas = false → gt e.penalty zero = true) : FeasInc (es.foldl update s) := by
  induction es generalizing s with
  | nil => exact hs
  | cons x xs ih =>
    simp only [List.foldl_cons]
    exact ih (update s x) (isres_feasible_stays s x hs (hp x (by simp))) (fun e he => hp e (by simp [he]))

theorem isres_minf_mono_fold (es : List Ev) (s : Inc) (hs : FeasInc s) (hm : s.minf.isNaN = false)
    (hp : ∀ e ∈ es, e.feas = false → gt e.penalty zero = true) : le (es.foldl update s).minf s.minf = true := by
  induction es generalizing s with
  | nil => exact le_refl_of_not_nan hm
  | cons x xs ih =>
    simp only [List.foldl_cons]
    have h1 := isres_minf_mono s x hs.2 hm
    have h2 := ih (update s x) (isres_feasible_stays s x hs (hp x (by simp))) (not_nan_of_le_left h1)
      (fun e he => hp e (by simp [he]))
    exact le_trans' h2 h1

/-- run-level form: once the evaluated prefix `es1` contains a feasible point, every continuation `es2` keeps a feasible
    incumbent whose value is at most the one after `es1` -/
theorem isres_minf_mono_run (es1 es2 : List Ev) (hn : NoNaNFeas es1) (hp : InfeasPos (es1 ++ es2))
    (hex : ∃ e ∈ es1, e.feas = true) :
    FeasInc (run es1) ∧ FeasInc (run (es1 ++ es2)) ∧ le (run (es1 ++ es2)).minf (run es1).minf = true := by
  have hp1 : InfeasPos es1 := fun e he => hp e (by simp [he])
  have hp2 : ∀ e ∈ es2, e.feas = false → gt e.penalty zero = true := fun e he hf => (hp e (by simp [he]) hf).1
  obtain ⟨⟨e, he, hm, _, hef⟩, h1, h2, _⟩ := isres_best_feasible es1 hn hp1 hex
  have hs : FeasInc (run es1) := ⟨h1, h2⟩
  have hmn : (run es1).minf.isNaN = false := by rw [hm]; exact hn e he hef
  have hrun : run (es1 ++ es2) = es2.foldl update (run es1) := by simp [run, List.foldl_append]
  rw [hrun]
  exact ⟨hs, isres_feasible_stays_fold es2 _ hs hp2, isres_minf_mono_fold es2 _ hs hmn hp2⟩

/-! ## The hypotheses cannot be dropped -/

/-- **Without `InfeasPos` the statement is FALSE of the rule, even with inequality constraints only**:
    tolerance 0, first point `f = 1` with `g = 1e-170 > tol` (infeasible) but `g*g` underflows: `penalty = gpenalty = +0`;
    it is accepted and recorded with `minf_penalty = minf_gpenalty = 0`, which the rule reads as "feasible incumbent".
    The feasible point `f = 2` evaluated next is rejected (`2 <= 1` fails, `minf_gpenalty > 0` fails).
    All other natural hypotheses hold (numbers, `0 ≤ penalty`, `gpenalty = penalty`). -/
theorem isres_best_feasible_full_false :
    ∃ es : List Ev, NoNaN es ∧
      (∀ e ∈ es, e.penalty.isNaN = false ∧ e.gpenalty.isNaN = false ∧ le zero e.penalty = true ∧
        e.gpenalty = e.penalty) ∧
      (∃ e ∈ es, e.feas = true) ∧
      (run es).pt = some 0 ∧ ∀ e ∈ es, e.pt = 0 → e.feas = false := by
  refine ⟨[⟨F64.one, false, zero, zero, 0⟩, ⟨⟨0x4000000000000000⟩, true, zero, zero, 1⟩], ?_, ?_, ?_, ?_, ?_⟩
  · intro e he; simp at he; rcases he with h | h <;> subst h <;> decide
  · intro e he; simp at he; rcases he with h | h <;> subst h <;> decide
  · exact ⟨⟨⟨0x4000000000000000⟩, true, zero, zero, 1⟩, by simp, rfl⟩
  · decide
  · intro e he; simp at he; rcases he with h | h <;> subst h <;> decide

/-- with EQUALITY constraints (`gpenalty < penalty` possible) the statement is false as well: the first point violates
    only an equality constraint (`penalty = 1`, `gpenalty = 0`), so `minf_gpenalty = 0` and the feasible point with the
    larger value evaluated next is rejected.  (The `FIXME` in isres.c.) -/
theorem isres_best_feasible_eq_false :
    ∃ es : List Ev, NoNaN es ∧
      (∀ e ∈ es, e.feas = false → gt e.penalty zero = true) ∧
      (∃ e ∈ es, e.feas = true) ∧
      (run es).pt = some 0 ∧ ∀ e ∈ es, e.pt = 0 → e.feas = false := by
  refine ⟨[⟨F64.one, false, F64.one, zero, 0⟩, ⟨⟨0x4000000000000000⟩, true, zero, zero, 1⟩], ?_, ?_, ?_, ?_, ?_⟩
  · intro e he; simp at he; rcases he with h | h <;> subst h <;> decide
  · intro e he; simp at he; rcases he with h | h <;> subst h <;> decide
  · exact ⟨⟨⟨0x4000000000000000⟩, true, zero, zero, 1⟩, by simp, rfl⟩
  · decide
  · intro e he; simp at he; rcases he with h | h <;> subst h <;> decide

/-- a NaN objective value at a feasible point: accepted as first incumbent (`minf_gpenalty = +Inf > 0`), after which
    `fval <= NaN` is false for every point: the strictly feasible point with `f = 1` is never returned. -/
theorem isres_best_feasible_nan_false :
    ∃ es : List Ev, PenOK es ∧ (∃ e ∈ es, e.feas = true ∧ e.f.isNaN = false) ∧
      (run es).pt = some 0 ∧ (run es).minf.isNaN = true ∧
      ∀ e ∈ es, le (run es).minf e.f = false := by
  refine ⟨[⟨qnan, true, zero, zero, 0⟩, ⟨F64.one, true, zero, zero, 1⟩], ?_, ?_, ?_, ?_, ?_⟩
  · intro e he; simp at he; rcases he with h | h <;> subst h <;> decide
  · exact ⟨⟨F64.one, true, zero, zero, 1⟩, by simp, rfl, by decide⟩
  · decide
  · decide
  · intro e he; simp at he; rcases he with h | h <;> subst h <;> decide

/-! ## Non-vacuity -/

/-- a trace mixing infeasible points (pt 0, 2), in-band feasible points (`feas = true`, `penalty = 1e-9 > 0`: pt 1, 4)
    and strictly feasible points (pt 3, 5); values 0, 2, -1, 1, 1, 2 -/
def demo : List Ev :=
  [ ⟨zero, false, F64.one, F64.one, 0⟩,
    ⟨⟨0x4000000000000000⟩, true, ⟨0x3E112E0BE826D695⟩, ⟨0x3E112E0BE826D695⟩, 1⟩,
    ⟨negOne, false, ⟨0x4000000000000000⟩, ⟨0x4000000000000000⟩, 2⟩,
    ⟨F64.one, true, zero, zero, 3⟩,
    ⟨F64.one, true, ⟨0x3E112E0BE826D695⟩, ⟨0x3E112E0BE826D695⟩, 4⟩,
    ⟨⟨0x4000000000000000⟩, true, zero, zero, 5⟩ ]

theorem demo_noNaN : NoNaN demo := by
  intro e he
  simp [demo] at he
  rcases he with h | h | h | h | h | h <;> subst h <;> decide

theorem demo_penOK : PenOK demo := by
  intro e he
  simp [demo] at he
  rcases he with h | h | h | h | h | h <;> subst h <;> decide

/-- the hypotheses of `isres_best_feasible_ineq` hold on `demo`, and the incumbent is what the theorem says:
    the first feasible point of minimal value (pt 3, f = 1; the tie pt 4 and the better but infeasible pt 2 are not taken) -/
example : NoNaN demo ∧ PenOK demo ∧ (∃ e ∈ demo, e.feas = true) ∧ run demo = ⟨F64.one, zero, zero, some 3⟩ :=
  ⟨demo_noNaN, demo_penOK, ⟨⟨F64.one, true, zero, zero, 3⟩, by simp [demo], rfl⟩, by decide⟩

/-- the in-band feasible point pt 1 replaces the infeasible incumbent although its value is larger (2 > 0) -/
example : run (demo.take 2) = ⟨⟨0x4000000000000000⟩, zero, zero, some 1⟩ := by decide

/-- before any feasible point: an infeasible incumbent with its own penalties -/
example : run (demo.take 1) = ⟨zero, F64.one, F64.one, some 0⟩ := by decide

/-- the theorem instantiated on `demo` -/
example : (run demo).pen = zero ∧ ∀ e ∈ demo, e.feas = true → le (run demo).minf e.f = true :=
  let h := isres_best_feasible_ineq demo demo_noNaN demo_penOK ⟨⟨F64.one, true, zero, zero, 3⟩, by simp [demo], rfl⟩
  ⟨h.2.1, h.2.2.2⟩

end Nlopt.C06Isres
