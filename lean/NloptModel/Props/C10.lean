import NloptModel.Generated.Partitions
/-!
# C10 — no configuration or objective value can make the library corrupt memory  (partial)

Memory safety of 40 k lines of C is not a statement about a Lean model.  What is proved, for EVERY n, m, population:

* the work-space partitions of the NLopt-authored drivers fit their allocation: `Generated/Partitions.lean` is regenerated on every
  run from the `malloc(sizeof(double) * (...))` expression and the chain `seg = prev + len;` that follows it in MMA, CCSA, ISRES,
  Subplex, AUGLAG and PRAXIS; for each segment the theorem `<alg>_<seg>_fits` says that the segment's REQUIRED length (the hand-written
  part of the specification) ends before the next segment begins / inside the allocation.  A changed size or offset expression
  breaks the regenerated theorem.
* index arithmetic used by the population methods: row `k` of a `P × n` matrix stays inside it (`row_index_in_bounds`), the CRS
  point array of `N+1` points of `n+1` doubles (`crs_point_in_bounds`), the Nelder-Mead simplex scratch (`nm_scratch_fits`),
  `nlopt_iurand n < n` (`iurand_lt`).

Everything else — the f2c-translated codes, AGS, StoGO, freedom from leaks and undefined arithmetic — is explored by the
sanitizer runs of the check (`vlib/props/C10.py`) and is NOT proved.
-/
namespace Nlopt.C10

theorem row_index_in_bounds (P n k j : Nat) (hk : k < P) (hj : j < n) : k * n + j < P * n := by
  have : (k + 1) * n ≤ P * n := Nat.mul_le_mul_right n hk
  nlinarith

/-- crs.c: `ps = malloc((n+1)*(N+1))`, point `i ≤ N` occupies `[i*(n+1), i*(n+1)+n+1)` (the trial point is `i = N`) -/
theorem crs_point_in_bounds (N n i : Nat) (hi : i ≤ N) : i * (n + 1) + (n + 1) ≤ (n + 1) * (N + 1) := by
  have : i * (n + 1) ≤ N * (n + 1) := Nat.mul_le_mul_right _ hi
  nlinarith

/-- nldrmd.c: `pts = scratch` ((n+1) points of n+1 doubles), `c = scratch + (n+1)*(n+1)` (n), `xcur = c + n` (n) -/
theorem nm_scratch_fits (n i : Nat) (hi : i ≤ n) :
    i * (n + 1) + (n + 1) ≤ (n + 1) * (n + 1) ∧ (n + 1) * (n + 1) + n + n ≤ (n + 1) * (n + 1) + 2 * n := by
  constructor
  · have : i * (n + 1) ≤ n * (n + 1) := Nat.mul_le_mul_right _ hi
    nlinarith
  · omega

/-- `nlopt_iurand(n) = genrand_int32() % n`: an index drawn for a population of `n > 0` members is `< n` -/
theorem iurand_lt (w n : Nat) (hn : 0 < n) : w % n < n := Nat.mod_lt _ hn

/-- non-vacuity: the last row, last column -/
example : 4 * 3 + 2 < 5 * 3 := by decide

end Nlopt.C10
