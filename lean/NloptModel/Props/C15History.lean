import NloptModel.Props.C15
/-!
# C15, history level — the ledger of user-data pointers along every API history

`ledger_history`: for every history in which each `nlopt_create` is immediately followed by
`nlopt_set_munge(opt, destroy, copy)` with both hooks and no other `nlopt_set_munge` occurs, applied to a world
in which every live object already has both hooks (e.g. the empty world) — for ANY allocation / copy-hook
failure oracles —, and every non-NULL pointer `d`:

  #held by live objects + #released + #lost  =  #held at the start + #released at the start + #handed in + #fresh

where `handed in` are the `f_data` arguments of the objective / constraint calls on live handles, `fresh` are
the pointers returned by the copy hook, and `lost` are (a) the pointers held by an object whose handle the
caller overwrote with `nlopt_create` / `nlopt_copy` without destroying it, and (b) the fresh pointers a FAILING
`nlopt_copy` / `nlopt_set_local_optimizer` had already obtained from the copy hook (`copy_oom_leaks_fresh_ids`).
-/
set_option linter.unusedSimpArgs false
set_option linter.unusedVariables false
namespace Nlopt.C15
open Nlopt

def heldOpt : Option Obj → List Nat
  | some o => o.core.held
  | none => []

/-- all pointers held by the live objects of a world -/
def _root_.Nlopt.World.heldAll (w : World) : List Nat := w.slots.flatMap heldOpt

/-- the pointers returned by the copy hook -/
def fresh (evs : List Ev) : List Nat := (copied evs).map Prod.snd

theorem count_flatMap_set (d : Nat) (l : List (Option Obj)) (i : Nat) (x : Option Obj) :
    List.count d ((l.set i x).flatMap heldOpt) + List.count d (heldOpt (l.getD i none)) =
      List.count d (l.flatMap heldOpt) + (if i < l.length then List.count d (heldOpt x) else 0) := by
  induction l generalizing i with
  | nil => simp [heldOpt]
  | cons a l ih =>
    cases i with
    | zero => simp [List.count_append]; omega
    | succ i =>
      have := ih i
      simp only [List.set_cons_succ, List.flatMap_cons, List.count_append, List.getD_cons_succ,
        List.length_cons, Nat.add_lt_add_iff_right] at this ⊢
      omega

theorem count_heldAll_set (d : Nat) (w : World) (i : Nat) (x : Option Obj) :
    List.count d (w.set i x).heldAll + List.count d (heldOpt (w.get (some i))) =
      List.count d w.heldAll + (if i < w.slots.length then List.count d (heldOpt x) else 0) :=
  count_flatMap_set d w.slots i x

/-- the world invariant: both hooks on every live object, none on its private local optimizers; the copy
    hook never returns NULL as a fresh pointer -/
structure Good (w : World) : Prop where
  hooks : ∀ i o, w.get (some i) = some o →
    o.core.mungeD = true ∧ o.core.mungeC = true ∧ ∀ l ∈ o.locals, l.mungeD = false ∧ l.mungeC = false
  nd : 0 < w.as.nextData

/-- the balance of one pointer `d` between two worlds -/
def Bal (d : Nat) (w w' : World) (handed lost : List Nat) : Prop :=
  List.count d w'.heldAll + List.count d (released w'.as.evs) + List.count d lost + List.count d (fresh w.as.evs) =
  List.count d w.heldAll + List.count d (released w.as.evs) + List.count d handed + List.count d (fresh w'.as.evs)

theorem Bal.refl (d : Nat) (w : World) : Bal d w w [] [] := by simp [Bal]

theorem Bal.trans {d : Nat} {w1 w2 w3 : World} {h1 h2 l1 l2 : List Nat}
    (a : Bal d w1 w2 h1 l1) (b : Bal d w2 w3 h2 l2) : Bal d w1 w3 (h1 ++ h2) (l1 ++ l2) := by
  simp only [Bal, List.count_append] at *
  omega

/-- a core-level operation obeys the ledger with `handedIn`, keeps the hooks and makes no copy-hook call -/
def CoreLaw (f : AS → Core → AS × Core × Int) (handedIn : List Nat) : Prop :=
  ∀ s c, c.mungeD = true → ∃ rel, Step s (f s c).1 rel ∧ (f s c).2.1.mungeD = true ∧
    (f s c).2.1.mungeC = c.mungeC ∧ ((f s c).2.1.held ++ rel).Perm (c.held ++ handedIn)

theorem CoreLaw.of_nodata {f : AS → Core → AS × Core × Int} (hle : ∀ (s : AS) (c : Core), s.le (f s c).1)
    (hhk : ∀ (s : AS) (c : Core), (f s c).1.hk = s.hk) (hd : ∀ (s : AS) (c : Core), (f s c).2.1.data = c.data) :
    CoreLaw f [] := by
  intro s c hD
  refine ⟨[], Step.of_hk (hle s c) (hhk s c), ?_, ?_, ?_⟩
  · rw [Core.mungeD_eq, hd, ← Core.mungeD_eq, hD]
  · rw [Core.mungeC_eq, hd, ← Core.mungeC_eq]
  · rw [Core.held_eq, hd, ← Core.held_eq]

theorem step_facts {s s' : AS} {rel : List Nat} (h : Step s s' rel) :
    released s'.evs = released s.evs ++ rel ∧ fresh s'.evs = fresh s.evs ∧ s'.nextData = s.nextData := by
  have h1 := congrArg HookSt.rel h.hk
  have h2 := congrArg HookSt.cps h.hk
  have h3 := congrArg HookSt.nextData h.hk
  simp only [AS.hk] at h1 h2 h3
  exact ⟨h1, by simp [fresh, h2], h3⟩

theorem good_set_same {w : World} (hG : Good w) (s' : AS) (hnd : 0 < s'.nextData) (j : Nat) (o o' : Obj)
    (hj : w.get (some j) = some o)
    (ho : o'.core.mungeD = true ∧ o'.core.mungeC = true ∧ ∀ l ∈ o'.locals, l.mungeD = false ∧ l.mungeC = false) :
    Good (({ w with as := s' } : World).set j (some o')) := by
  constructor
  · intro i oi hi
    rw [World.get_set] at hi
    split at hi
    · simp only [Option.some.injEq] at hi
      subst hi; exact ho
    · exact hG.hooks i oi (by simpa using hi)
  · exact hnd

theorem onCore_bal (d : Nat) (w : World) (slot : Option Nat) (nr : Int) (f : AS → Core → AS × Core × Int)
    (handedIn : List Nat) (hG : Good w) (hf : CoreLaw f handedIn) :
    Bal d w (onCore w slot nr f).1 (if (w.get slot).isSome then handedIn else []) [] ∧
    Good (onCore w slot nr f).1 := by
  unfold onCore
  cases slot with
  | none => exact ⟨by simpa [World.get] using Bal.refl d w, hG⟩
  | some j =>
    cases hj : w.get (some j) with
    | none => exact ⟨by simpa using Bal.refl d w, hG⟩
    | some o =>
      simp only [Option.isSome_some, if_true]
      obtain ⟨hD, hC, hL⟩ := hG.hooks j o hj
      obtain ⟨rel, hs, hD', hC', hp⟩ := hf w.as o.core hD
      obtain ⟨e1, e2, e3⟩ := step_facts hs
      have hlt := World.get_some_lt hj
      generalize f w.as o.core = r at *
      obtain ⟨s', c', rc⟩ := r
      simp only [] at hs hD' hC' hp e1 e2 e3 ⊢
      have hc := count_heldAll_set d ({ w with as := s' } : World) j (some { o with core := c' })
      have hj' : ({ w with as := s' } : World).get (some j) = some o := by simpa using hj
      rw [hj'] at hc
      have hpc := hp.count_eq d
      simp only [List.count_append, heldOpt] at hpc hc
      refine ⟨?_, good_set_same hG _ (by rw [e3]; exact hG.nd) j o _ hj ⟨hD', by rw [hC', hC], hL⟩⟩
      simp only [Bal, List.count_nil, Nat.add_zero]
      have ha : ((({ w with as := s' } : World).set j (some { o with core := c' })).as) = s' := rfl
      have hh : ({ w with as := s' } : World).heldAll = w.heldAll := rfl
      have hl : ({ w with as := s' } : World).slots.length = w.slots.length := rfl
      rw [ha, e1, e2, List.count_append]
      rw [hh, hl, if_pos hlt] at hc
      omega

theorem onCoreOut_bal (d : Nat) (w : World) (slot : Option Nat) (f : AS → Core → AS × Core × Int × List F64)
    (hG : Good w) (hf : CoreLaw (fun s c => ((f s c).1, (f s c).2.1, (f s c).2.2.1)) []) :
    Bal d w (onCoreOut w slot f).1 [] [] ∧ Good (onCoreOut w slot f).1 := by
  have := onCore_bal d w slot rINVALID (fun s c => ((f s c).1, (f s c).2.1, (f s c).2.2.1)) [] hG hf
  have e : (onCoreOut w slot f).1 = (onCore w slot rINVALID (fun s c => ((f s c).1, (f s c).2.1, (f s c).2.2.1))).1 := by
    unfold onCoreOut onCore
    cases slot with
    | none => rfl
    | some j => cases w.get (some j) <;> rfl
  rw [e]
  simpa using this

/-! ### the core-level laws -/

theorem law_setObjective (f pre fdata : Nat) (mx : Bool) :
    CoreLaw (fun s c => setObjective s c f pre fdata mx) [fdata] := by
  intro s c hD
  have hs := setObjective_step s c f pre fdata mx
  have hd := setObjective_data s c f pre fdata mx
  rw [hD] at hs
  refine ⟨[c.fdata], hs, ?_, ?_, ?_⟩
  · rw [Core.mungeD_eq, hd]; exact hD
  · rw [Core.mungeC_eq, hd]; rfl
  · have := ledger_setObjective s c f pre fdata mx hD
    rw [(setObjective_exact s c f pre fdata mx).1, hD] at this
    exact this

theorem law_removeIneq : CoreLaw removeIneq [] := by
  intro s c hD
  have hs := removeIneq_step s c
  have hd := removeIneq_data s c
  rw [hD] at hs
  refine ⟨_, hs, ?_, ?_, ?_⟩
  · rw [Core.mungeD_eq, hd]; exact hD
  · rw [Core.mungeC_eq, hd]; rfl
  · have := ledger_removeIneq s c hD
    rw [(removeIneq_exact s c).1, hD] at this
    exact this

theorem law_removeEq : CoreLaw removeEq [] := by
  intro s c hD
  have hs := removeEq_step s c
  have hd := removeEq_data s c
  rw [hD] at hs
  refine ⟨_, hs, ?_, ?_, ?_⟩
  · rw [Core.mungeD_eq, hd]; exact hD
  · rw [Core.mungeC_eq, hd]; rfl
  · have := ledger_removeEq s c hD
    rw [(removeEq_exact s c).1, hD] at this
    exact this

theorem law_addCon (caps : List Nat) (eq : Bool) (fm : Nat) (isVec : Bool) (fid pre fdata : Nat)
    (tol : Option (List F64)) :
    CoreLaw (fun s c => addCon caps eq s c fm isVec fid pre fdata tol) [fdata] := by
  intro s c hD
  have hl := ledger_addCon caps eq s c fm isVec fid pre fdata tol hD
  obtain ⟨_, hmD, hmC, _⟩ := addCon_exact caps eq s c fm isVec fid pre fdata tol
  rcases addCon_cases caps eq s c fm isVec fid pre fdata tol with ⟨_, _, h3, _⟩ | ⟨_, h3, _⟩
  · refine ⟨[], h3, by rw [hmD, hD], hmC, ?_⟩
    rw [h3.released_new] at hl; exact hl
  · rw [hD] at h3
    refine ⟨[fdata], h3, by rw [hmD, hD], hmC, ?_⟩
    rw [h3.released_new] at hl; exact hl

theorem law_setScalar (v : ScalarSet) : CoreLaw (fun s c => setScalar s c (ScalarSet.apply · v)) [] :=
  CoreLaw.of_nodata (fun s c => setScalar_le s s c _ (AS.le_refl s)) (fun s c => setScalar_hk s c _)
    (fun s c => setScalar_data s c v)

/-! ### one API call -/

/-- the pointers handed to the library by one call (on a live handle) -/
def handedOf (w : World) : Op → List Nat
  | .setObjective slot _ _ fdata _ => if (w.get slot).isSome then [fdata] else []
  | .addCon slot _ _ _ _ _ fdata _ => if (w.get slot).isSome then [fdata] else []
  | _ => []

/-- the pointers lost by one call: those of an object whose handle is overwritten by `create` / `copy`, and
    the fresh pointers obtained by a failing `copy` / `set_local_optimizer` -/
def lostOf (A : Arith) (w : World) (op : Op) : List Nat :=
  match op with
  | .create dst _ _ => heldOpt (w.get (some dst))
  | .copy _ dst =>
    heldOpt (w.get (some dst)) ++
      (if (applyOp A w op).2.1 = .ptr false then fresh (newEvs w.as (applyOp A w op).1.as) else [])
  | .setLocal _ _ =>
    if (applyOp A w op).2.1 = .code rSUCCESS then [] else fresh (newEvs w.as (applyOp A w op).1.as)
  | _ => []

def clearOracles (w : World) : World := { w with as := { w.as with failIn := 0, mcFailIn := 0 } }

theorem Bal.clear {d : Nat} {w w' : World} {h l : List Nat} (b : Bal d w w' h l) : Bal d w (clearOracles w') h l := b
theorem Good.clear {w : World} (g : Good w) : Good (clearOracles w) := ⟨g.hooks, g.nd⟩

/-- which calls are treated by `step_simple` -/
def Op.simple : Op → Bool
  | .create _ _ _ | .copy _ _ | .setLocal _ _ | .setMunge _ _ _ => false
  | _ => true

theorem destroy_bal (A : Arith) (d : Nat) (w : World) (slot : Option Nat) (hG : Good w) :
    Bal d w (applyOpRaw A w (.destroy slot)).1 [] [] ∧ Good (applyOpRaw A w (.destroy slot)).1 := by
  simp only [applyOpRaw, destroy]
  cases slot with
  | none => exact ⟨Bal.refl d w, hG⟩
  | some j =>
    cases hj : w.get (some j) with
    | none => exact ⟨Bal.refl d w, hG⟩
    | some o =>
      simp only []
      obtain ⟨hD, hC, hL⟩ := hG.hooks j o hj
      have hs := destroyChain_step w.as o.chain
      have hrel : o.chain.flatMap Core.heldIfD = o.core.held := by
        simp [Obj.chain, Core.heldIfD, hD, flatMap_heldIfD_of_false o.locals (fun l hl => (hL l hl).1)]
      rw [hrel] at hs
      obtain ⟨e1, e2, e3⟩ := step_facts hs
      have hlt := World.get_some_lt hj
      have hc := count_heldAll_set d ({ w with as := destroyChain w.as o.chain } : World) j none
      have hj' : ({ w with as := destroyChain w.as o.chain } : World).get (some j) = some o := by simpa using hj
      rw [hj'] at hc
      constructor
      · simp only [Bal, List.count_nil, Nat.add_zero]
        have ha : ((({ w with as := destroyChain w.as o.chain } : World).set j none).as) = destroyChain w.as o.chain := rfl
        have hh : ({ w with as := destroyChain w.as o.chain } : World).heldAll = w.heldAll := rfl
        rw [ha, e1, e2, List.count_append]
        simp only [heldOpt, List.count_nil, hh] at hc
        split at hc <;> omega
      · constructor
        · intro i oi hi
          rw [World.get_set] at hi
          split at hi
          · simp at hi
          · exact hG.hooks i oi (by simpa using hi)
        · show 0 < (destroyChain w.as o.chain).nextData
          rw [e3]; exact hG.nd

theorem step_simple_raw (A : Arith) (d : Nat) (w : World) (op : Op) (hG : Good w) (hop : Op.simple op = true) :
    Bal d w (applyOpRaw A w op).1 (handedOf w op) [] ∧ Good (applyOpRaw A w op).1 := by
  cases op with
  | oracle k => exact ⟨Bal.refl d w, ⟨hG.hooks, hG.nd⟩⟩
  | mcfail k => exact ⟨Bal.refl d w, ⟨hG.hooks, hG.nd⟩⟩
  | create dst alg n => simp [Op.simple] at hop
  | copy src dst => simp [Op.simple] at hop
  | setLocal slot lo => simp [Op.simple] at hop
  | setMunge slot a b => simp [Op.simple] at hop
  | destroy slot => exact destroy_bal A d w slot hG
  | setObjective slot f pre fdata mx => exact onCore_bal d w slot _ _ [fdata] hG (law_setObjective f pre fdata mx)
  | addCon slot eq m isVec f pre fdata tol => exact onCore_bal d w slot _ _ [fdata] hG (law_addCon _ eq m isVec f pre fdata tol)
  | rmIneq slot => simpa [handedOf, applyOpRaw] using onCore_bal d w slot rINVALID removeIneq [] hG law_removeIneq
  | rmEq slot => simpa [handedOf, applyOpRaw] using onCore_bal d w slot rINVALID removeEq [] hG law_removeEq
  | setScalar slot v => simpa [handedOf, applyOpRaw] using onCore_bal d w slot rINVALID _ [] hG (law_setScalar v)
  | setLb slot arg =>
    simpa [handedOf, applyOpRaw] using onCore_bal d w slot rINVALID (fun s c => setLowerBounds A s c arg) [] hG
      (CoreLaw.of_nodata (fun s c => setLowerBounds_le A s s c arg (AS.le_refl s)) (fun s c => setLowerBounds_hk A s c arg)
        (fun s c => setLowerBounds_data A s c arg))
  | setUb slot arg =>
    simpa [handedOf, applyOpRaw] using onCore_bal d w slot rINVALID (fun s c => setUpperBounds A s c arg) [] hG
      (CoreLaw.of_nodata (fun s c => setUpperBounds_le A s s c arg (AS.le_refl s)) (fun s c => setUpperBounds_hk A s c arg)
        (fun s c => setUpperBounds_data A s c arg))
  | setLb1 slot x =>
    simpa [handedOf, applyOpRaw] using onCore_bal d w slot rINVALID (fun s c => setLowerBounds1 A s c x) [] hG
      (CoreLaw.of_nodata (fun s c => setLowerBounds1_le A s s c x (AS.le_refl s)) (fun s c => setLowerBounds1_hk A s c x)
        (fun s c => setLowerBounds1_data A s c x))
  | setUb1 slot x =>
    simpa [handedOf, applyOpRaw] using onCore_bal d w slot rINVALID (fun s c => setUpperBounds1 A s c x) [] hG
      (CoreLaw.of_nodata (fun s c => setUpperBounds1_le A s s c x (AS.le_refl s)) (fun s c => setUpperBounds1_hk A s c x)
        (fun s c => setUpperBounds1_data A s c x))
  | setLbi slot k x =>
    simpa [handedOf, applyOpRaw] using onCore_bal d w slot rINVALID (fun s c => setLowerBound A s c k x) [] hG
      (CoreLaw.of_nodata (fun s c => setLowerBound_le A s s c k x (AS.le_refl s)) (fun s c => setLowerBound_hk A s c k x)
        (fun s c => setLowerBound_data A s c k x))
  | setUbi slot k x =>
    simpa [handedOf, applyOpRaw] using onCore_bal d w slot rINVALID (fun s c => setUpperBound A s c k x) [] hG
      (CoreLaw.of_nodata (fun s c => setUpperBound_le A s s c k x (AS.le_refl s)) (fun s c => setUpperBound_hk A s c k x)
        (fun s c => setUpperBound_data A s c k x))
  | setXtolAbs slot arg =>
    simpa [handedOf, applyOpRaw] using onCore_bal d w slot rINVALID (fun s c => setXtolAbs s c arg) [] hG
      (CoreLaw.of_nodata (fun s c => setXtolAbs_le s s c arg (AS.le_refl s)) (fun s c => setXtolAbs_hk s c arg)
        (fun s c => setXtolAbs_data s c arg))
  | setXtolAbs1 slot x =>
    simpa [handedOf, applyOpRaw] using onCore_bal d w slot rINVALID (fun s c => setXtolAbs1 s c x) [] hG
      (CoreLaw.of_nodata (fun s c => setXtolAbs1_le s s c x (AS.le_refl s)) (fun s c => setXtolAbs1_hk s c x)
        (fun s c => setXtolAbs1_data s c x))
  | setXw slot arg =>
    simpa [handedOf, applyOpRaw] using onCore_bal d w slot rINVALID (fun s c => setXWeights s c arg) [] hG
      (CoreLaw.of_nodata (fun s c => setXWeights_le s s c arg (AS.le_refl s)) (fun s c => setXWeights_hk s c arg)
        (fun s c => setXWeights_data s c arg))
  | setXw1 slot x =>
    simpa [handedOf, applyOpRaw] using onCore_bal d w slot rINVALID (fun s c => setXWeights1 s c x) [] hG
      (CoreLaw.of_nodata (fun s c => setXWeights1_le s s c x (AS.le_refl s)) (fun s c => setXWeights1_hk s c x)
        (fun s c => setXWeights1_data s c x))
  | setDx slot arg =>
    simpa [handedOf, applyOpRaw] using onCore_bal d w slot rINVALID (fun s c => setInitialStep s c arg) [] hG
      (CoreLaw.of_nodata (fun s c => setInitialStep_le s s c arg (AS.le_refl s)) (fun s c => setInitialStep_hk s c arg)
        (fun s c => setInitialStep_data s c arg))
  | setDx1 slot x =>
    simpa [handedOf, applyOpRaw] using onCore_bal d w slot rINVALID (fun s c => setInitialStep1 s c x) [] hG
      (CoreLaw.of_nodata (fun s c => setInitialStep1_le s s c x (AS.le_refl s)) (fun s c => setInitialStep1_hk s c x)
        (fun s c => setInitialStep1_data s c x))
  | setDefaultDx slot x =>
    simpa [handedOf, applyOpRaw] using onCore_bal d w slot rINVALID (fun s c => setDefaultInitialStep A s c x) [] hG
      (CoreLaw.of_nodata (fun s c => setDefaultInitialStep_le A s s c x (AS.le_refl s)) (fun s c => setDefaultInitialStep_hk A s c x)
        (fun s c => setDefaultInitialStep_data A s c x))
  | setParam slot nm x =>
    simpa [handedOf, applyOpRaw] using onCore_bal d w slot rINVALID (fun s c => setParam s c nm x) [] hG
      (CoreLaw.of_nodata (fun s c => setParam_le s s c nm x (AS.le_refl s)) (fun s c => setParam_hk s c nm x)
        (fun s c => setParam_data s c nm x))
  | getLb slot nul =>
    exact onCoreOut_bal d w slot (fun s c => getLowerBounds s c nul) hG
      (CoreLaw.of_nodata (fun s c => getLowerBounds_le s s c nul (AS.le_refl s)) (fun s c => getLowerBounds_hk s c nul)
        (fun s c => getLowerBounds_data s c nul))
  | getUb slot nul =>
    exact onCoreOut_bal d w slot (fun s c => getUpperBounds s c nul) hG
      (CoreLaw.of_nodata (fun s c => getUpperBounds_le s s c nul (AS.le_refl s)) (fun s c => getUpperBounds_hk s c nul)
        (fun s c => getUpperBounds_data s c nul))
  | getXtolAbs slot nul =>
    exact onCoreOut_bal d w slot (fun s c => getXtolAbs s c nul) hG
      (CoreLaw.of_nodata (fun s c => getXtolAbs_le s s c nul (AS.le_refl s)) (fun s c => getXtolAbs_hk s c nul)
        (fun s c => getXtolAbs_data s c nul))
  | getXw slot nul =>
    exact onCoreOut_bal d w slot (fun s c => getXWeights s c nul) hG
      (CoreLaw.of_nodata (fun s c => getXWeights_le s s c nul (AS.le_refl s)) (fun s c => getXWeights_hk s c nul)
        (fun s c => getXWeights_data s c nul))
  | getDx slot x =>
    exact onCoreOut_bal d w slot (fun s c => getInitialStep A s c x) hG
      (CoreLaw.of_nodata (fun s c => getInitialStep_le A s s c x (AS.le_refl s)) (fun s c => getInitialStep_hk A s c x)
        (fun s c => getInitialStep_data A s c x))

/-! ### nlopt_create followed by nlopt_set_munge -/

theorem create_hk (A : Arith) (s : AS) (alg : Int) (n : Nat) : (create A s alg n).1.hk = s.hk := by
  unfold create
  simp only []
  have hd : ∀ s c, c.mungeD = false → (destroyChain s [c]).hk = s.hk := by
    intro s c hc
    have := (destroyChain_step s [c]).hk
    simpa [Core.heldIfD, hc] using this
  (repeat' split) <;> pair_subst <;> simp [hd]

theorem unsetErrmsg_snd' (s : AS) (c : Core) : (unsetErrmsg s c).2 = { c with errmsg := none } := by
  unfold unsetErrmsg
  split
  · rfl
  · rename_i h; cases c; simp_all

theorem create_some (A : Arith) (s : AS) (alg : Int) (n : Nat) (o : Obj) (h : (create A s alg n).2 = some o) :
    o.core.held = [0] ∧ o.locals = [] := by
  generalize hres : create A s alg n = res at h
  unfold create setLowerBounds1 setUpperBounds1 at hres
  simp only [unsetErrmsg_snd'] at hres
  repeat' split at hres
  all_goals subst hres
  all_goals first
    | (simp at h; done)
    | (simp only [Option.some.injEq] at h
       subst h
       simp [Core.held])

theorem applyOp_create (A : Arith) (w : World) (dst : Nat) (alg : Int) (n : Nat) :
    (applyOp A w (.create dst alg n)).1 =
      clearOracles (({ w with as := (create A w.as alg n).1 } : World).set dst (create A w.as alg n).2) := rfl

theorem applyOp_setMunge (A : Arith) (w : World) (j : Nat) :
    (applyOp A w (.setMunge (some j) true true)).1 =
      clearOracles (match w.get (some j) with
        | some o => w.set j (some { o with core := { o.core with mungeD := true, mungeC := true } })
        | none => w) := by
  simp only [applyOp, applyOpRaw]
  cases w.get (some j) <;> rfl

/-- all slots but `j` are good; slot `j`, if live, holds a fresh object without local optimizers -/
structure GoodBut (w : World) (j : Nat) : Prop where
  hooks : ∀ i o, i ≠ j → w.get (some i) = some o →
    o.core.mungeD = true ∧ o.core.mungeC = true ∧ ∀ l ∈ o.locals, l.mungeD = false ∧ l.mungeC = false
  fresh : ∀ o, w.get (some j) = some o → o.locals = []
  nd : 0 < w.as.nextData

theorem create_bal (A : Arith) (d : Nat) (hd : d ≠ 0) (w : World) (dst : Nat) (alg : Int) (n : Nat) (hG : Good w) :
    Bal d w (applyOp A w (.create dst alg n)).1 [] (heldOpt (w.get (some dst))) ∧
    GoodBut (applyOp A w (.create dst alg n)).1 dst := by
  rw [applyOp_create]
  have hk := create_hk A w.as alg n
  have hsome := create_some A w.as alg n
  generalize create A w.as alg n = r at *
  obtain ⟨s1, oo⟩ := r
  simp only [] at hk hsome ⊢
  have e1 : released s1.evs = released w.as.evs := congrArg HookSt.rel hk
  have e2 : fresh s1.evs = fresh w.as.evs := by
    have := congrArg HookSt.cps hk; simp only [AS.hk] at this; simp [fresh, this]
  have e3 : s1.nextData = w.as.nextData := congrArg HookSt.nextData hk
  have hc := count_heldAll_set d ({ w with as := s1 } : World) dst oo
  have hh : ({ w with as := s1 } : World).heldAll = w.heldAll := rfl
  have hg0 : ({ w with as := s1 } : World).get (some dst) = w.get (some dst) := by simp
  have hl : ({ w with as := s1 } : World).slots.length = w.slots.length := rfl
  rw [hh, hg0, hl] at hc
  have hoo : List.count d (heldOpt oo) = 0 := by
    cases oo with
    | none => simp [heldOpt]
    | some o =>
      simp only [heldOpt, (hsome o rfl).1]
      rw [List.count_eq_zero]; simpa using hd
  constructor
  · apply Bal.clear
    simp only [Bal, List.count_nil, Nat.add_zero]
    have ha : ((({ w with as := s1 } : World).set dst oo).as) = s1 := rfl
    rw [ha, e1, e2]
    split at hc <;> omega
  · constructor
    · intro i o hij hi
      have : (clearOracles (({ w with as := s1 } : World).set dst oo)).get (some i) =
          (({ w with as := s1 } : World).set dst oo).get (some i) := rfl
      rw [this, World.get_set] at hi
      simp only [hij, false_and, if_false, World.get_as] at hi
      exact hG.hooks i o hi
    · intro o ho
      have : (clearOracles (({ w with as := s1 } : World).set dst oo)).get (some dst) =
          (({ w with as := s1 } : World).set dst oo).get (some dst) := rfl
      rw [this, World.get_set] at ho
      split at ho
      · exact (hsome o ho).2
      · rename_i hne
        simp only [World.get_as] at ho
        exact absurd ⟨rfl, World.get_some_lt ho⟩ hne
    · show 0 < s1.nextData
      rw [e3]; exact hG.nd

theorem setMunge_bal (A : Arith) (d : Nat) (w : World) (j : Nat) (hG : GoodBut w j) :
    Bal d w (applyOp A w (.setMunge (some j) true true)).1 [] [] ∧
    Good (applyOp A w (.setMunge (some j) true true)).1 := by
  rw [applyOp_setMunge]
  cases hj : w.get (some j) with
  | none =>
    simp only []
    refine ⟨Bal.clear (Bal.refl d w), Good.clear ⟨?_, hG.nd⟩⟩
    intro i o hi
    by_cases hij : i = j
    · subst hij; rw [hj] at hi; simp at hi
    · exact hG.hooks i o hij hi
  | some o =>
    simp only []
    have hlt := World.get_some_lt hj
    obtain ⟨o', ho'⟩ : ∃ o' : Obj, o' = { o with core := { o.core with mungeD := true, mungeC := true } } := ⟨_, rfl⟩
    have h1 : o'.core.held = o.core.held := by rw [ho']; rfl
    have h2 : o'.core.mungeD = true ∧ o'.core.mungeC = true ∧ o'.locals = o.locals := by rw [ho']; exact ⟨rfl, rfl, rfl⟩
    rw [← ho']
    have hc := count_heldAll_set d w j (some o')
    rw [hj, if_pos hlt] at hc
    simp only [heldOpt, h1] at hc
    constructor
    · apply Bal.clear
      simp only [Bal, List.count_nil, Nat.add_zero]
      have ha : (w.set j (some o')).as = w.as := rfl
      rw [ha]
      omega
    · apply Good.clear
      constructor
      · intro i oi hi
        rw [World.get_set] at hi
        split at hi
        · simp only [Option.some.injEq] at hi
          subst hi
          refine ⟨h2.1, h2.2.1, ?_⟩
          rw [h2.2.2, hG.fresh o hj]; simp
        · rename_i hne
          have hij : i ≠ j := fun e => hne ⟨e, hlt⟩
          exact hG.hooks i oi hij hi
      · exact hG.nd

theorem create_pair_bal (A : Arith) (d : Nat) (hd : d ≠ 0) (w : World) (dst : Nat) (alg : Int) (n : Nat)
    (hG : Good w) :
    Bal d w (runOps A w [.create dst alg n, .setMunge (some dst) true true]) []
      (heldOpt (w.get (some dst))) ∧
    Good (runOps A w [.create dst alg n, .setMunge (some dst) true true]) := by
  simp only [runOps, List.foldl_cons, List.foldl_nil]
  obtain ⟨b1, g1⟩ := create_bal A d hd w dst alg n hG
  obtain ⟨b2, g2⟩ := setMunge_bal A d (applyOp A w (.create dst alg n)).1 dst g1
  exact ⟨by simpa using b1.trans b2, g2⟩

/-! ### nlopt_copy -/

theorem fresh_append (a b : List Ev) : fresh (a ++ b) = fresh a ++ fresh b := by simp [fresh]

theorem fresh_of_le {s s' : AS} (h : s.le s') : fresh s'.evs = fresh s.evs ++ fresh (newEvs s s') := by
  have := evs_of_le h
  rw [this, fresh_append]

theorem count_filter_ne_zero (d : Nat) (hd : d ≠ 0) (l : List Nat) :
    List.count d (l.filter (· ≠ 0)) = List.count d l := by
  induction l with
  | nil => rfl
  | cons a l ih =>
    by_cases ha : a = 0
    · subst ha
      have : (0 == d) = false := by simpa using (Ne.symm hd)
      simpa [List.count_cons, this] using ih
    · simpa [List.filter_cons, ha, List.count_cons] using ih

/-! the copy hook's counter never decreases -/

theorem nd_mungeCopy (s : AS) (d : Nat) : s.nextData ≤ (s.mungeCopy d).2.nextData := by
  unfold AS.mungeCopy
  (repeat' split) <;> simp

theorem nd_of_hk {s s' : AS} (h : s'.hk = s.hk) : s'.nextData = s.nextData := congrArg HookSt.nextData h

theorem nd_copyObjData (s : AS) (c nc : Core) : s.nextData ≤ (copyObjData s c nc).2.2.nextData := by
  unfold copyObjData
  have := nd_mungeCopy s c.fdata
  (repeat' split) <;> pair_subst <;> simp_all

theorem nd_mungeCopyCons (s : AS) (done src : List Con) : s.nextData ≤ (mungeCopyCons s done src).2.2.nextData := by
  induction src generalizing s done with
  | nil => simp [mungeCopyCons]
  | cons c rest ih =>
    unfold mungeCopyCons
    have h1 := nd_mungeCopy s c.fdata
    split
    · generalize s.mungeCopy c.fdata = r at *
      obtain ⟨o, s1⟩ := r
      cases o with
      | none => exact h1
      | some d => exact Nat.le_trans h1 (ih s1 _)
    · exact ih s _

theorem nd_copyConArray (s : AS) (munge : Bool) (src : List Con) :
    s.nextData ≤ (copyConArray s munge src).2.2.2.nextData := by
  unfold copyConArray
  by_cases h0 : src.length = 0
  · simp [h0]
  · rw [if_neg h0]
    have ha := nd_of_hk (hk_alloc s (s.sz.con * src.length))
    generalize s.alloc (s.sz.con * src.length) = r at *
    obtain ⟨o, s1⟩ := r
    cases o with
    | none => simp only [] at ha ⊢; omega
    | some b =>
      simp only [] at ha ⊢
      cases munge with
      | false =>
        simp only [Bool.false_eq_true, if_false, Bool.not_true]
        rw [nd_of_hk (copyTols_hk _ _ _)]; omega
      | true =>
        simp only [if_true]
        have h2 := nd_mungeCopyCons s1 [] (src.map fun c => ({ c with tol := none } : Con))
        generalize mungeCopyCons s1 [] (src.map fun c => ({ c with tol := none } : Con)) = r at *
        obtain ⟨ok1, cs1, s2⟩ := r
        simp only [] at h2 ⊢
        cases ok1 with
        | false => simp only [Bool.not_false, if_true]; omega
        | true =>
          simp only [Bool.not_true, Bool.false_eq_true, if_false]
          rw [nd_of_hk (copyTols_hk _ _ _)]; omega

theorem nd_copyCore (s : AS) (c : Core) (self : Nat) : s.nextData ≤ (copyCore s c self).2.2.nextData := by
  unfold copyCore
  simp only []
  have h1 := nd_copyObjData s c (copyBlank c self)
  have h2 := nd_of_hk (copyArrays_hk (copyObjData s c (copyBlank c self)).2.2 c (copyObjData s c (copyBlank c self)).2.1)
  have h3 := nd_copyConArray (copyArrays (copyObjData s c (copyBlank c self)).2.2 c
    (copyObjData s c (copyBlank c self)).2.1).2.2 c.mungeC c.fc
  have h4 := nd_copyConArray (copyConArray (copyArrays (copyObjData s c (copyBlank c self)).2.2 c
    (copyObjData s c (copyBlank c self)).2.1).2.2 c.mungeC c.fc).2.2.2 c.mungeC c.h
  split
  · exact h1
  · split
    · omega
    · split
      · simp only []; omega
      · split
        · simp only []; omega
        · rw [nd_of_hk (copyParams_hk _ _ _)]; omega

theorem nd_copyOom (s : AS) (nc : Core) (nl : List Core) : (copyOom s nc nl).nextData = s.nextData :=
  (step_facts (copyOom_step s nc nl)).2.2

theorem nd_copyDx (s : AS) (c nc : Core) (nl : List Core) : s.nextData ≤ (copyDx s c nc nl).1.nextData := by
  unfold copyDx
  split
  · rename_i a _
    have h1 := nd_of_hk (hk_allocArr s a.v)
    generalize allocArr s a.v = r at *
    obtain ⟨o, s1⟩ := r
    cases o with
    | none => simp only [] at h1 ⊢; rw [nd_copyOom]; omega
    | some x => simp only [] at h1 ⊢; omega
  · simp

theorem nd_copyChain (s : AS) (ch : List Core) : s.nextData ≤ (copyChain s ch).1.nextData := by
  induction ch generalizing s with
  | nil => simp [copyChain]
  | cons c rest ih =>
    rw [copyChain_staged]
    have ha := nd_of_hk (hk_alloc s s.sz.opt)
    generalize s.alloc s.sz.opt = r at *
    obtain ⟨o, s1⟩ := r
    cases o with
    | none => simp only [] at ha ⊢; omega
    | some self =>
      simp only [] at ha ⊢
      have k1 := nd_copyCore s1 c self
      generalize copyCore s1 c self = r at *
      obtain ⟨ok, nc, s2⟩ := r
      simp only [] at k1 ⊢
      cases ok with
      | false => simp only [Bool.not_false, if_true]; rw [nd_copyOom]; omega
      | true =>
        simp only [Bool.not_true, Bool.false_eq_true, if_false]
        rw [copyChain_rest]
        have i1 := ih s2
        generalize copyChain s2 rest = r at *
        obtain ⟨s3, nlo⟩ := r
        simp only [] at i1 ⊢
        cases nlo with
        | none => simp only []; rw [nd_copyOom]; omega
        | some nl =>
          simp only []
          have := nd_copyDx s3 c nc nl
          omega

/-- the object-level facts about `nlopt_copy` of a good object -/
theorem copy_obj (s : AS) (o : Obj) (d : Nat) (hd : d ≠ 0) (hk : 0 < s.nextData)
    (hC : o.core.mungeC = true) (hD : o.core.mungeD = true)
    (hL : ∀ l ∈ o.locals, l.mungeD = false ∧ l.mungeC = false) :
    s.le (copy s o).1 ∧ released (copy s o).1.evs = released s.evs ∧ 0 < (copy s o).1.nextData ∧
    ∀ o', (copy s o).2 = some o' →
      List.count d o'.core.held = List.count d (fresh (newEvs s (copy s o).1)) ∧
      o'.core.mungeD = true ∧ o'.core.mungeC = true ∧ ∀ l ∈ o'.locals, l.mungeD = false ∧ l.mungeC = false := by
  unfold copy
  obtain ⟨hle, hok, hfail⟩ := copyChain_hooks s o.chain
  have hnd := nd_copyChain s o.chain
  generalize copyChain s o.chain = r at *
  obtain ⟨s', res⟩ := r
  cases res with
  | none =>
    simp only [] at hle hfail hnd ⊢
    have hr := hfail trivial (by simpa [Obj.chain] using fun l hl => (hL l hl).1)
    exact ⟨hle, hr, by omega, by simp⟩
  | some ch' =>
    simp only [] at hle hok hnd ⊢
    have ok := hok ch' rfl
    refine ⟨hle, ok.rel, by omega, ?_⟩
    intro o' ho'
    have c1 := ok.cps
    have c2 := ok.held
    have c3 := ok.mungeD
    have c4 := ok.mungeC
    simp only [Obj.chain, chainIds, hC, if_true] at c1 c2 c3 c4
    rw [chainIds_nohook _ o.locals (fun l hl => (hL l hl).2)] at c1 c2
    simp only [List.append_nil] at c1 c2
    cases ch' with
    | nil => simp at c2
    | cons nc nrest =>
      simp only [ofChain, Option.some.injEq] at ho'
      subst ho'
      simp only [List.map_cons, List.cons.injEq] at c2 c3 c4
      have hfr : fresh (newEvs s s') = (mungeIds s.nextData o.core.held).2.map Prod.snd := by
        have : copied (newEvs s s') = (mungeIds s.nextData o.core.held).2 :=
          copied_new hle _ (by simpa [AS.hk] using c1)
        simp [fresh, this]
      refine ⟨?_, by rw [c3.1, hD], by rw [c4.1, hC], ?_⟩
      · simp only []
        rw [c2.1, hfr, ← mungeIds_fresh_eq _ _ hk, count_filter_ne_zero d hd]
      · intro l hl
        simp only [] at hl
        have hmD : l.mungeD ∈ nrest.map (·.mungeD) := List.mem_map_of_mem hl
        have hmC : l.mungeC ∈ nrest.map (·.mungeC) := List.mem_map_of_mem hl
        rw [c3.2] at hmD
        rw [c4.2] at hmC
        obtain ⟨l1, hl1, e1⟩ := List.mem_map.mp hmD
        obtain ⟨l2, hl2, e2⟩ := List.mem_map.mp hmC
        exact ⟨by rw [← e1]; exact (hL l1 hl1).1, by rw [← e2]; exact (hL l2 hl2).2⟩

theorem applyOp_copy (A : Arith) (w : World) (src : Option Nat) (dst : Nat) :
    (applyOp A w (.copy src dst)).1 = clearOracles (applyOpRaw A w (.copy src dst)).1 ∧
    (applyOp A w (.copy src dst)).2.1 = (applyOpRaw A w (.copy src dst)).2.1 := ⟨rfl, rfl⟩

theorem applyOpRaw_copy_none (A : Arith) (w : World) (src : Option Nat) (dst : Nat) (h : w.get src = none) :
    applyOpRaw A w (.copy src dst) = (w.set dst none, .ptr false, none) := by
  simp only [applyOpRaw, h]

theorem applyOpRaw_copy_some (A : Arith) (w : World) (src : Option Nat) (dst : Nat) (o : Obj)
    (h : w.get src = some o) :
    applyOpRaw A w (.copy src dst) =
      ((({ w with as := (copy w.as o).1 } : World)).set dst (copy w.as o).2, .ptr (copy w.as o).2.isSome, none) := by
  simp only [applyOpRaw, h]

@[simp] theorem heldOpt_none : heldOpt none = [] := rfl
@[simp] theorem heldOpt_some (o : Obj) : heldOpt (some o) = o.core.held := rfl

theorem newEvs_self (s : AS) : newEvs s s = [] := by simp [newEvs]

theorem copy_bal (A : Arith) (d : Nat) (hd : d ≠ 0) (w : World) (src : Option Nat) (dst : Nat) (hG : Good w)
    (hdst : dst < w.slots.length) :
    Bal d w (applyOp A w (.copy src dst)).1 [] (lostOf A w (.copy src dst)) ∧
    Good (applyOp A w (.copy src dst)).1 := by
  simp only [lostOf]
  rw [(applyOp_copy A w src dst).1, (applyOp_copy A w src dst).2]
  cases hs : w.get src with
  | none =>
    rw [applyOpRaw_copy_none A w src dst hs]
    simp only []
    have hc := count_heldAll_set d w dst none
    constructor
    · apply Bal.clear
      have : newEvs w.as (clearOracles (w.set dst none)).as = [] := newEvs_self w.as
      simp only [Bal, if_true, this, fresh, copied_nil, List.map_nil, List.append_nil, List.count_nil, Nat.add_zero]
      have ha : (w.set dst none).as = w.as := rfl
      rw [ha]
      simp only [heldOpt_none, List.count_nil, ite_self] at hc
      omega
    · apply Good.clear
      constructor
      · intro i oi hi
        rw [World.get_set] at hi
        split at hi
        · simp at hi
        · exact hG.hooks i oi hi
      · exact hG.nd
  | some o =>
    rw [applyOpRaw_copy_some A w src dst o hs]
    simp only []
    have hsrc : ∃ j, src = some j := by
      cases src with
      | none => simp [World.get] at hs
      | some j => exact ⟨j, rfl⟩
    obtain ⟨j, rfl⟩ := hsrc
    obtain ⟨hD, hC, hL⟩ := hG.hooks j o hs
    obtain ⟨hle, hrel, hnd, hsome⟩ := copy_obj w.as o d hd hG.nd hC hD hL
    have hfr := fresh_of_le hle
    generalize copy w.as o = r at *
    obtain ⟨s', no⟩ := r
    simp only [] at hle hrel hnd hsome hfr ⊢
    have hc := count_heldAll_set d ({ w with as := s' } : World) dst no
    have hh : ({ w with as := s' } : World).heldAll = w.heldAll := rfl
    have hg0 : ({ w with as := s' } : World).get (some dst) = w.get (some dst) := by simp
    have hl : ({ w with as := s' } : World).slots.length = w.slots.length := rfl
    rw [hh, hg0, hl] at hc
    have hne : newEvs w.as (clearOracles (({ w with as := s' } : World).set dst no)).as = newEvs w.as s' := rfl
    have ha : ((({ w with as := s' } : World).set dst no).as) = s' := rfl
    constructor
    · apply Bal.clear
      simp only [Bal, List.count_nil, Nat.add_zero, hne, List.count_append]
      rw [ha, hrel, hfr, List.count_append]
      cases no with
      | none =>
        simp only [Option.isSome_none, if_true, heldOpt_none, List.count_nil, ite_self] at hc ⊢
        omega
      | some o' =>
        obtain ⟨h1, _⟩ := hsome o' rfl
        simp only [Option.isSome_some, Ret.ptr.injEq, Bool.true_eq_false, if_false, List.count_nil, heldOpt_some] at hc ⊢
        rw [if_pos hdst] at hc; omega
    · apply Good.clear
      constructor
      · intro i oi hi
        rw [World.get_set] at hi
        split at hi
        · subst hi
          obtain ⟨_, h2, h3, h4⟩ := hsome oi rfl
          exact ⟨h2, h3, h4⟩
        · exact hG.hooks i oi (by simpa using hi)
      · exact hnd

/-! ### nlopt_set_local_optimizer -/

def GoodObj (o : Obj) : Prop :=
  o.core.mungeD = true ∧ o.core.mungeC = true ∧ ∀ l ∈ o.locals, l.mungeD = false ∧ l.mungeC = false

theorem setLocalOptimizer_code (A : Arith) (s : AS) (o : Obj) (lo : Option Obj) :
    (setLocalOptimizer A s o lo).2.2 = rSUCCESS ∨ (setLocalOptimizer A s o lo).2.2 < 0 := by
  unfold setLocalOptimizer
  simp only []
  (repeat' split) <;> simp [rSUCCESS, rINVALID, rOOM]

theorem setLocal_fail_state (A : Arith) (s : AS) (o l : Obj)
    (hr : (setLocalOptimizer A s o (some l)).2.2 < 0) :
    s.le (setLocalOptimizer A s o (some l)).1 ∧ s.nextData ≤ (setLocalOptimizer A s o (some l)).1.nextData := by
  unfold setLocalOptimizer at hr ⊢
  simp only [] at hr ⊢
  have und : (unsetErrmsg s o.core).1.nextData = s.nextData := nd_of_hk (hk_unsetErrmsg s o.core)
  by_cases hn : l.core.n ≠ (unsetErrmsg s o.core).2.n
  · rw [if_pos hn]
    simp only []
    refine ⟨by simp [AS.le_refl], ?_⟩
    rw [nd_of_hk (hk_setErrmsg _ _), und]; exact Nat.le_refl _
  · rw [if_neg hn] at hr ⊢
    have cle := (copyChain_hooks (unsetErrmsg s o.core).1 l.chain).1
    have cnd := nd_copyChain (unsetErrmsg s o.core).1 l.chain
    have ule : s.le (unsetErrmsg s o.core).1 := by simp [AS.le_refl]
    generalize copyChain (unsetErrmsg s o.core).1 l.chain = r at *
    obtain ⟨s', ch⟩ := r
    cases ch with
    | none => exact ⟨AS.le_trans ule cle, by simp only [] at cnd ⊢; omega⟩
    | some ch =>
      cases ch with
      | nil => exact ⟨AS.le_trans ule cle, by simp only [] at cnd ⊢; omega⟩
      | cons nl nrest => simp [rSUCCESS] at hr

theorem setLocal_obj (A : Arith) (s : AS) (o : Obj) (lo : Option Obj) (d : Nat) (hd : d ≠ 0)
    (hk : 0 < s.nextData) (ho : GoodObj o) (hlo : ∀ l, lo = some l → GoodObj l) :
    s.le (setLocalOptimizer A s o lo).1 ∧ 0 < (setLocalOptimizer A s o lo).1.nextData ∧
    (setLocalOptimizer A s o lo).2.1.core.held = o.core.held ∧ GoodObj (setLocalOptimizer A s o lo).2.1 ∧
    ((setLocalOptimizer A s o lo).2.2 = rSUCCESS →
      List.count d (released (setLocalOptimizer A s o lo).1.evs) =
        List.count d (released s.evs) + List.count d (fresh (newEvs s (setLocalOptimizer A s o lo).1))) ∧
    ((setLocalOptimizer A s o lo).2.2 ≠ rSUCCESS →
      released (setLocalOptimizer A s o lo).1.evs = released s.evs) := by
  obtain ⟨hD, hC, hL⟩ := ho
  have hu : Step s (unsetErrmsg s o.core).1 [] := Step.of_hk (by simp [AS.le_refl]) (by simp)
  have hud := unsetErrmsg_data s o.core
  cases lo with
  | none =>
    -- copy(NULL) = NULL: the old local optimizers are destroyed, nothing else happens
    have hst := hu.trans (destroyChain_step (unsetErrmsg s o.core).1 o.locals)
    rw [flatMap_heldIfD_of_false o.locals (fun l hl => (hL l hl).1)] at hst
    obtain ⟨e1, e2, e3⟩ := step_facts hst
    have hfr : fresh (newEvs s (destroyChain (unsetErrmsg s o.core).1 o.locals)) = [] := by
      simp [fresh, hst.copied_new]
    simp only [setLocalOptimizer]
    refine ⟨hst.le, by rw [e3]; exact hk, ?_, ⟨?_, ?_, by simp⟩, ?_, by simp [rSUCCESS]⟩
    · rw [Core.held_eq, hud]; rfl
    · rw [Core.mungeD_eq, hud]; exact hD
    · rw [Core.mungeC_eq, hud]; exact hC
    · intro _; rw [e1, hfr]; simp
  | some l =>
    obtain ⟨lD, lC, lL⟩ := hlo l rfl
    rcases setLocalOptimizer_code A s o (some l) with hr | hr
    · -- success: copy, then strip
      obtain ⟨hn, nl, nrest, hc⟩ := setLocalOptimizer_success_inv A s o l hr
      obtain ⟨_, hle, hrel, hcps, hnd', hdata, nl', hloc, hh, hmd, hmc⟩ :=
        setLocalOptimizer_ok A s o l hn nl nrest hc
      obtain ⟨cle, cokAll, _⟩ := copyChain_hooks (unsetErrmsg s o.core).1 l.chain
      have cnd := nd_copyChain (unsetErrmsg s o.core).1 l.chain
      have und : (unsetErrmsg s o.core).1.nextData = s.nextData := nd_of_hk (hk_unsetErrmsg s o.core)
      have ucp : (unsetErrmsg s o.core).1.hk.cps = s.hk.cps := congrArg HookSt.cps (hk_unsetErrmsg s o.core)
      have cok := cokAll _ hc
      have c1 := cok.cps
      have c2 := cok.held
      have c3 := cok.mungeD
      have c4 := cok.mungeC
      simp only [Obj.chain, chainIds, lC, if_true, und] at c1 c2 c3 c4 hcps
      rw [chainIds_nohook _ l.locals (fun x hx => (lL x hx).2)] at c1 c2
      simp only [List.append_nil, List.map_cons, List.cons.injEq] at c1 c2 c3 c4
      have hfr : fresh (newEvs s (setLocalOptimizer A s o (some l)).1) =
          (mungeIds s.nextData l.core.held).2.map Prod.snd := by
        have : copied (newEvs s (setLocalOptimizer A s o (some l)).1) = (mungeIds s.nextData l.core.held).2 := by
          refine copied_new hle _ ?_
          have e : ∀ x : AS, x.hk.cps = copied x.evs := fun _ => rfl
          rw [← e, ← e, hcps, c1, ucp]
        simp [fresh, this]
      refine ⟨hle, by rw [hnd']; omega, ?_, ⟨?_, ?_, ?_⟩, ?_, fun h => absurd hr h⟩
      · rw [Core.held_eq, hdata]; rfl
      · rw [Core.mungeD_eq, hdata]; exact hD
      · rw [Core.mungeC_eq, hdata]; exact hC
      · rw [hloc]
        intro x hx
        simp only [List.mem_cons] at hx
        rcases hx with rfl | hx
        · exact ⟨hmd, hmc⟩
        · have hmD : x.mungeD ∈ nrest.map (·.mungeD) := List.mem_map_of_mem hx
          have hmC : x.mungeC ∈ nrest.map (·.mungeC) := List.mem_map_of_mem hx
          rw [c3.2] at hmD
          rw [c4.2] at hmC
          obtain ⟨l1, hl1, e1⟩ := List.mem_map.mp hmD
          obtain ⟨l2, hl2, e2⟩ := List.mem_map.mp hmC
          exact ⟨by rw [← e1]; exact (lL l1 hl1).1, by rw [← e2]; exact (lL l2 hl2).2⟩
      · intro _
        have e : ∀ x : AS, x.hk.rel = released x.evs := fun _ => rfl
        rw [← e, ← e, hrel, c3.1, lD, flatMap_heldIfD_of_false o.locals (fun x hx => (hL x hx).1), hfr,
          ← mungeIds_fresh_eq _ _ hk, count_filter_ne_zero d hd, ← c2.1]
        simp only [if_true, List.nil_append, List.count_append, Core.held, List.count_cons, List.count_nil]
        omega
    · -- failure: nothing released, the object is as it was
      obtain ⟨f1, f2, f3⟩ := set_local_optimizer_failure A s o l hr (fun x hx => (lL x hx).1)
      obtain ⟨g1, g2⟩ := setLocal_fail_state A s o l hr
      have hne : (setLocalOptimizer A s o (some l)).2.2 ≠ rSUCCESS := by
        intro h; rw [h] at hr; simp [rSUCCESS] at hr
      refine ⟨g1, by omega, ?_, ⟨?_, ?_, ?_⟩, fun h => absurd h hne, fun _ => f3⟩
      · rw [Core.held_eq, f1]; rfl
      · rw [Core.mungeD_eq, f1]; exact hD
      · rw [Core.mungeC_eq, f1]; exact hC
      · rw [f2]; exact hL

theorem applyOpRaw_setLocal_dead (A : Arith) (w : World) (slot lo : Option Nat)
    (h : ∀ i, slot = some i → w.get (some i) = none) :
    applyOpRaw A w (.setLocal slot lo) = (w, .code rINVALID, none) := by
  simp only [applyOpRaw]
  cases slot with
  | none => rfl
  | some i => simp [h i rfl]

theorem applyOpRaw_setLocal_live (A : Arith) (w : World) (i : Nat) (lo : Option Nat) (o : Obj)
    (h : w.get (some i) = some o) :
    applyOpRaw A w (.setLocal (some i) lo) =
      ((({ w with as := (setLocalOptimizer A w.as o (w.get lo)).1 } : World)).set i
          (some (setLocalOptimizer A w.as o (w.get lo)).2.1),
        .code (setLocalOptimizer A w.as o (w.get lo)).2.2, none) := by
  simp only [applyOpRaw, h]

theorem setLocal_bal (A : Arith) (d : Nat) (hd : d ≠ 0) (w : World) (slot lo : Option Nat) (hG : Good w) :
    Bal d w (applyOp A w (.setLocal slot lo)).1 [] (lostOf A w (.setLocal slot lo)) ∧
    Good (applyOp A w (.setLocal slot lo)).1 := by
  simp only [lostOf]
  have e1 : (applyOp A w (.setLocal slot lo)).1 = clearOracles (applyOpRaw A w (.setLocal slot lo)).1 := rfl
  have e2 : (applyOp A w (.setLocal slot lo)).2.1 = (applyOpRaw A w (.setLocal slot lo)).2.1 := rfl
  rw [e1, e2]
  by_cases hlive : ∃ i o, slot = some i ∧ w.get (some i) = some o
  · obtain ⟨i, o, rfl, hi⟩ := hlive
    rw [applyOpRaw_setLocal_live A w i lo o hi]
    simp only []
    obtain ⟨hD, hC, hL⟩ := hG.hooks i o hi
    have hlo : ∀ l, w.get lo = some l → GoodObj l := by
      intro l hl
      cases lo with
      | none => simp [World.get] at hl
      | some j => exact hG.hooks j l hl
    obtain ⟨hle, hnd, hheld, hgo, hsucc, hfail⟩ :=
      setLocal_obj A w.as o (w.get lo) d hd hG.nd ⟨hD, hC, hL⟩ hlo
    have hfr := fresh_of_le hle
    generalize setLocalOptimizer A w.as o (w.get lo) = r at *
    obtain ⟨s', o', rc⟩ := r
    simp only [] at hle hnd hheld hgo hsucc hfail hfr ⊢
    have hlt := World.get_some_lt hi
    have hc := count_heldAll_set d ({ w with as := s' } : World) i (some o')
    have hh : ({ w with as := s' } : World).heldAll = w.heldAll := rfl
    have hg0 : ({ w with as := s' } : World).get (some i) = w.get (some i) := by simp
    have hl : ({ w with as := s' } : World).slots.length = w.slots.length := rfl
    rw [hh, hg0, hl, hi, if_pos hlt] at hc
    simp only [heldOpt_some, hheld] at hc
    have hne : newEvs w.as (clearOracles (({ w with as := s' } : World).set i (some o'))).as = newEvs w.as s' := rfl
    have ha : ((({ w with as := s' } : World).set i (some o')).as) = s' := rfl
    constructor
    · apply Bal.clear
      simp only [Bal, List.count_nil, Nat.add_zero, hne]
      rw [ha, hfr, List.count_append]
      by_cases hrc : rc = rSUCCESS
      · have := hsucc hrc
        simp only [hrc, if_true, List.count_nil]
        omega
      · have := hfail hrc
        have hrc' : ¬ (Ret.code rc = Ret.code rSUCCESS) := by simpa using hrc
        simp only [hrc', if_false]
        rw [this]; omega
    · apply Good.clear
      exact good_set_same hG s' hnd i o o' hi hgo
  · have hdead : ∀ i, slot = some i → w.get (some i) = none := by
      intro i hs
      cases hg : w.get (some i) with
      | none => rfl
      | some o => exact absurd ⟨i, o, hs, hg⟩ hlive
    rw [applyOpRaw_setLocal_dead A w slot lo hdead]
    simp only []
    have : newEvs w.as (clearOracles w).as = [] := newEvs_self w.as
    refine ⟨Bal.clear ?_, Good.clear hG⟩
    simp only [this, fresh, copied_nil, List.map_nil, ite_self]
    exact Bal.refl d w

/-! ## the history theorem -/

theorem applyOp_slots_length (A : Arith) (w : World) (op : Op) :
    (applyOp A w op).1.slots.length = w.slots.length := by
  unfold applyOp
  cases op <;> simp only [applyOpRaw, onCore, onCoreOut] <;> (repeat' split) <;> simp [World.set]

/-- **The histories covered.**  `nslots` is the number of handle variables of the world.
    Every `nlopt_create` is immediately followed by `nlopt_set_munge(opt, destroy_hook, copy_hook)` on the same
    handle; no other `nlopt_set_munge` occurs; the destination of every `nlopt_copy` is an existing handle
    variable; everything else — including the oracle operations that make allocations and copy-hook calls
    fail — is unrestricted. -/
inductive Hooked (nslots : Nat) : List Op → Prop
  | nil : Hooked nslots []
  | create (dst : Nat) (alg : Int) (n : Nat) (rest : List Op) :
      Hooked nslots rest → Hooked nslots (.create dst alg n :: .setMunge (some dst) true true :: rest)
  | copy (src : Option Nat) (dst : Nat) (rest : List Op) :
      dst < nslots → Hooked nslots rest → Hooked nslots (.copy src dst :: rest)
  | setLocal (slot lo : Option Nat) (rest : List Op) :
      Hooked nslots rest → Hooked nslots (.setLocal slot lo :: rest)
  | simple (op : Op) (rest : List Op) : Op.simple op = true → Hooked nslots rest → Hooked nslots (op :: rest)

/-- all pointers handed in along a history -/
def handedHist (A : Arith) (w : World) : List Op → List Nat
  | [] => []
  | op :: rest => handedOf w op ++ handedHist A (applyOp A w op).1 rest

/-- all pointers lost along a history (overwritten handles, failing copies) -/
def lostHist (A : Arith) (w : World) : List Op → List Nat
  | [] => []
  | op :: rest => lostOf A w op ++ lostHist A (applyOp A w op).1 rest

theorem step_simple (A : Arith) (d : Nat) (w : World) (op : Op) (hG : Good w) (hop : Op.simple op = true) :
    Bal d w (applyOp A w op).1 (handedOf w op) (lostOf A w op) ∧ Good (applyOp A w op).1 := by
  obtain ⟨b, g⟩ := step_simple_raw A d w op hG hop
  have hl : lostOf A w op = [] := by cases op <;> first | rfl | simp [Op.simple] at hop
  rw [hl]
  cases op
  case oracle => exact ⟨b, g⟩
  case mcfail => exact ⟨b, g⟩
  all_goals first
    | exact ⟨Bal.clear b, Good.clear g⟩
    | simp [Op.simple] at hop

/-- **`ledger_history`** (counting form): along every covered history, from every good world, for every allocation
    and copy-hook oracle, every non-NULL pointer `d` is conserved:
    `#held + #released + #lost + #fresh(before) = #held(before) + #released(before) + #handed + #fresh` -/
theorem ledger_history_count (A : Arith) (d : Nat) (hd : d ≠ 0) (ops : List Op) (w : World) (hG : Good w)
    (hH : Hooked w.slots.length ops) :
    Bal d w (runOps A w ops) (handedHist A w ops) (lostHist A w ops) ∧ Good (runOps A w ops) := by
  generalize hn : w.slots.length = n at hH
  induction hH generalizing w with
  | nil => exact ⟨Bal.refl d w, hG⟩
  | create dst alg nn rest _ ih =>
    obtain ⟨b1, g1⟩ := create_pair_bal A d hd w dst alg nn hG
    have hlen : (runOps A w [.create dst alg nn, .setMunge (some dst) true true]).slots.length = n := by
      simp only [runOps, List.foldl_cons, List.foldl_nil, applyOp_slots_length, hn]
    obtain ⟨b2, g2⟩ := ih _ g1 hlen
    have hr : runOps A w (.create dst alg nn :: .setMunge (some dst) true true :: rest) =
        runOps A (runOps A w [.create dst alg nn, .setMunge (some dst) true true]) rest := by
      simp [runOps]
    rw [hr]
    refine ⟨?_, g2⟩
    have := b1.trans b2
    simpa [handedHist, lostHist, handedOf, lostOf, runOps] using this
  | copy src dst rest hdst _ ih =>
    obtain ⟨b1, g1⟩ := copy_bal A d hd w src dst hG (by omega)
    obtain ⟨b2, g2⟩ := ih _ g1 (by rw [applyOp_slots_length, hn])
    exact ⟨by simpa [handedHist, lostHist, handedOf, runOps] using b1.trans b2, by simpa [runOps] using g2⟩
  | setLocal slot lo rest _ ih =>
    obtain ⟨b1, g1⟩ := setLocal_bal A d hd w slot lo hG
    obtain ⟨b2, g2⟩ := ih _ g1 (by rw [applyOp_slots_length, hn])
    exact ⟨by simpa [handedHist, lostHist, handedOf, runOps] using b1.trans b2, by simpa [runOps] using g2⟩
  | simple op rest hop _ ih =>
    obtain ⟨b1, g1⟩ := step_simple A d w op hG hop
    obtain ⟨b2, g2⟩ := ih _ g1 (by rw [applyOp_slots_length, hn])
    exact ⟨by simpa [handedHist, lostHist, runOps] using b1.trans b2, by simpa [runOps] using g2⟩

/-- the non-NULL entries -/
def nz (l : List Nat) : List Nat := l.filter (· ≠ 0)

theorem count_nz (d : Nat) (l : List Nat) : List.count d (nz l) = if d = 0 then 0 else List.count d l := by
  by_cases hd : d = 0
  · subst hd
    simp only [if_true, nz]
    rw [List.count_eq_zero]
    simp
  · simp only [hd, if_false, nz]
    exact count_filter_ne_zero d hd l

/-- **`ledger_history`**.  For every `Arith`, every good world `w` (every live object has both hooks, its private
    local optimizers none — in particular any world without objects), every covered history `ops`
    (`Hooked`: each create is followed by `set_munge` with both hooks; allocation and copy-hook failures
    arbitrary), as multisets of non-NULL pointers:

    held by live objects ++ passed to the destroy hook ++ lost ++ (fresh before)
       ~  held before ++ released before ++ handed in by the calls ++ fresh (returned by the copy hook)  -/
theorem ledger_history (A : Arith) (ops : List Op) (w : World) (hG : Good w) (hH : Hooked w.slots.length ops) :
    (nz (runOps A w ops).heldAll ++ nz (released (runOps A w ops).as.evs) ++ nz (lostHist A w ops) ++
        nz (fresh w.as.evs)).Perm
      (nz w.heldAll ++ nz (released w.as.evs) ++ nz (handedHist A w ops) ++ nz (fresh (runOps A w ops).as.evs)) ∧
    Good (runOps A w ops) := by
  refine ⟨?_, (ledger_history_count A 1 (by decide) ops w hG hH).2⟩
  rw [List.perm_iff_count]
  intro d
  simp only [List.count_append, count_nz]
  by_cases hd : d = 0
  · simp [hd]
  · simp only [hd, if_false]
    have := (ledger_history_count A d hd ops w hG hH).1
    simp only [Bal] at this
    omega

/-- a world without objects and without history -/
def World.fresh0 (w : World) : Prop :=
  (∀ i, w.get (some i) = none) ∧ w.as.evs = [] ∧ 0 < w.as.nextData

theorem heldAll_of_empty (w : World) (h : ∀ i, w.get (some i) = none) : w.heldAll = [] := by
  unfold World.heldAll
  have : ∀ x ∈ w.slots, x = none := by
    intro x hx
    obtain ⟨i, hi, rfl⟩ := List.mem_iff_getElem.mp hx
    have := h i
    simpa [World.get, List.getD_eq_getElem?_getD, hi] using this
  generalize w.slots = l at this
  induction l with
  | nil => rfl
  | cons a l ih =>
    have ha := this a (by simp)
    subst ha
    simpa using ih (fun x hx => this x (by simp [hx]))

/-- **from the empty world**: pointers held + released + lost = pointers handed in + fresh pointers -/
theorem ledger_history_from_empty (A : Arith) (ops : List Op) (w : World) (h0 : World.fresh0 w)
    (hH : Hooked w.slots.length ops) :
    (nz (runOps A w ops).heldAll ++ nz (released (runOps A w ops).as.evs) ++ nz (lostHist A w ops)).Perm
      (nz (handedHist A w ops) ++ nz (fresh (runOps A w ops).as.evs)) := by
  obtain ⟨h1, h2, h3⟩ := h0
  have hG : Good w := ⟨fun i o hi => by rw [h1 i] at hi; simp at hi, h3⟩
  have := (ledger_history A ops w hG hH).1
  simpa [heldAll_of_empty w h1, h2, nz, fresh] using this

/-- **no pointer is released twice**: if the non-NULL pointers handed in are pairwise distinct and distinct from
    the fresh ones (the copy hook's results are pairwise distinct by construction), then no non-NULL pointer
    is passed to the destroy hook twice, and none that was released or lost is still held -/
theorem no_double_release (A : Arith) (ops : List Op) (w : World) (h0 : World.fresh0 w)
    (hH : Hooked w.slots.length ops)
    (hdist : (nz (handedHist A w ops) ++ nz (fresh (runOps A w ops).as.evs)).Nodup) :
    (nz (released (runOps A w ops).as.evs)).Nodup ∧
    (∀ d ∈ nz (released (runOps A w ops).as.evs), d ∉ nz (runOps A w ops).heldAll) := by
  have hp := ledger_history_from_empty A ops w h0 hH
  have hn := hp.nodup_iff.mpr hdist
  rw [List.nodup_append, List.nodup_append] at hn
  obtain ⟨⟨_, hr, hdis⟩, _, _⟩ := hn
  refine ⟨hr, fun d hd hd' => ?_⟩
  exact hdis d hd' d hd rfl

/-- **after destroying all objects everything handed in has been released exactly once**: if at the end no
    live object holds a non-NULL pointer and nothing was lost (no handle overwritten, no failing copy), then the
    released non-NULL pointers are, as a multiset, exactly the pointers handed in plus the fresh ones -/
theorem all_released_exactly_once (A : Arith) (ops : List Op) (w : World) (h0 : World.fresh0 w)
    (hH : Hooked w.slots.length ops)
    (hend : nz (runOps A w ops).heldAll = []) (hlost : nz (lostHist A w ops) = []) :
    (nz (released (runOps A w ops).as.evs)).Perm
      (nz (handedHist A w ops) ++ nz (fresh (runOps A w ops).as.evs)) := by
  have hp := ledger_history_from_empty A ops w h0 hH
  simpa [hend, hlost] using hp

/-! ## non-vacuity -/

open Nlopt.C14 (arithTriv)

def hist1 : List Op :=
  [.create 0 28 2, .setMunge (some 0) true true, .setObjective (some 0) 1 0 5 false,
   .addCon (some 0) false 1 false 2 0 7 none, .copy (some 0) 1, .setLocal (some 1) (some 0),
   .destroy (some 0), .destroy (some 1)]

theorem hist1_hooked : Hooked w0.slots.length hist1 :=
  .create _ _ _ _ (.simple _ _ rfl (.simple _ _ rfl (.copy _ _ _ (by decide) (.setLocal _ _ _
    (.simple _ _ rfl (.simple _ _ rfl .nil))))))

theorem w0_fresh0 : World.fresh0 w0 := by
  refine ⟨fun i => ?_, rfl, by decide⟩
  have hall : ∀ x ∈ w0.slots, x = none := by decide
  simp only [World.get, List.getD_eq_getElem?_getD]
  cases h : w0.slots[i]? with
  | none => rfl
  | some x => simpa using hall x (List.mem_of_getElem? h)

/-- the hypotheses of `all_released_exactly_once` are satisfiable, and its conclusion is what one computes:
    pointers 5, 7 handed in, 1000, 1001 (copy) and 1002, 1003 (set_local_optimizer) fresh, each released once -/
example :
    nz (runOps arithTriv w0 hist1).heldAll = [] ∧ nz (lostHist arithTriv w0 hist1) = [] ∧
    nz (handedHist arithTriv w0 hist1) = [5, 7] ∧
    nz (fresh (runOps arithTriv w0 hist1).as.evs) = [1000, 1001, 1002, 1003] ∧
    nz (released (runOps arithTriv w0 hist1).as.evs) = [1003, 1002, 5, 7, 1000, 1001] := by
  decide

end Nlopt.C15
