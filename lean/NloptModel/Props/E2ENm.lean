import NloptModel.Lemmas.NmAlgLemmas
import NloptModel.Props.DrvNm
import NloptModel.Props.Wrap
import NloptModel.Props.E2EEsch
/-!
# Nelder-Mead end to end: from the control-flow theorems of `NmDrv.runWith` to statements about the TRACE of real callback
# invocations of the machine `NmAlg.mk O A P c`, and through the wrapper stack of `nlopt_optimize`

Layer 1 (`Props/DrvNm.lean`): theorems about `NmDrv.runWith O A c evs` for an arbitrary event list.
Layer 2 (`Props/Wrap.lean`): theorems about `Nlopt.optimize` for an ARBITRARY algorithm machine.
This file connects them for `NLOPT_LN_NELDERMEAD`, following `Props/E2ECrs.lean` / `Props/E2EEsch.lean`.

* `nm_refines` (R): every returned run of `NmAlg.mk O A P c` (wrapper mode `c.minf0 = none`) — EVERY tree oracle `O`,
  arithmetic `A`, proposer `P`, environment `E`, fuel, start state — is a returned (`short = false`) run of
  `NmDrv.runWith O A c` on the events of its trace (`events tr b`: all `stuck` flags `false` except the last one, `b`, which
  says whether the run ended in a degenerate proposal), with the same `ret`, `x`, `*minf`, evaluation count = trace length;
  every query is an objective evaluation without gradient, the first one at `c.x0`.
* E1 `e2e_evals_le_maxeval`, E2 `e2e_forced_stop`, E3 `e2e_returned_pair` (EVERY result code: the wrapper always writes
  `*minf = f(x0)`), E4 `e2e_best_no_better` (every code but FORCED_STOP, NaN allowed), E5 `e2e_stopval_strict` (NaN allowed);
  more: `e2e_numevals`, `e2e_ret_codes`, `e2e_returns`.
* through `nlopt_optimize` (`nmMk`): `optimize_nm_core`, `optimize_nm_evals_le_maxeval` (C03), `optimize_nm_forced_stop`
  (C04), `optimize_nm_returned_pair` (C02), `optimize_nm_best_no_better` (C05), `optimize_nm_stopval_strict`,
  `optimize_nm_returns`.
-/
set_option linter.unusedSimpArgs false
set_option linter.unusedVariables false
namespace Nlopt.E2ENm
open Nlopt Nlopt.NmDrv Nlopt.NmAlg Nlopt.DrvNm Nlopt.F64
open Nlopt.EschAlg (valOf forcedOf qOf ObjOnly)
open Nlopt.E2EEsch (FwdRel valOf_ansOf forcedOf_congr forcedOf_iff innerView_maxeval innerView_stopval started_iff)

/-! ## the shape of `events` -/

theorem events_singleton (p : Query × Answer) (b : Bool) : events [p] b = [evOf b p] := rfl

theorem events_cons_cons (p q : Query × Answer) (t : List (Query × Answer)) (b : Bool) :
    events (p :: q :: t) b = evOf false p :: events (q :: t) b := by
  simp [events, ev0]

theorem events_append_cons (pre : List (Query × Answer)) (p : Query × Answer) (post : List (Query × Answer)) (b : Bool) :
    events (pre ++ p :: post) b = ev0 pre ++ events (p :: post) b := by
  induction pre with
  | nil => rfl
  | cons a t ih =>
    cases t with
    | nil => simp only [List.cons_append, List.nil_append, events_cons_cons]; rfl
    | cons a' t' =>
      simp only [List.cons_append] at ih ⊢
      rw [events_cons_cons, ih]; rfl

theorem events_split (pre : List (Query × Answer)) (p : Query × Answer) (post : List (Query × Answer)) (b : Bool) :
    ∃ b', events (pre ++ p :: post) b = ev0 pre ++ evOf b' p :: events post b := by
  rw [events_append_cons]
  cases post with
  | nil => exact ⟨b, rfl⟩
  | cons q t => exact ⟨false, by rw [events_cons_cons]⟩

theorem mem_events {tr : List (Query × Answer)} {b : Bool} {e : NmDrv.Ev} (h : e ∈ events tr b) :
    ∃ p ∈ tr, ∃ b', e = evOf b' p := by
  rcases List.eq_nil_or_concat tr with rfl | ⟨l, p, rfl⟩
  · simp at h
  · rw [List.concat_eq_append, events_snoc] at h
    rw [List.concat_eq_append]
    simp only [List.mem_append, List.mem_singleton, ev0, List.mem_map] at h ⊢
    rcases h with ⟨q, hq, rfl⟩ | rfl
    · exact ⟨q, Or.inl hq, false, rfl⟩
    · exact ⟨p, Or.inr rfl, b, rfl⟩

theorem evOf_mem_events {tr : List (Query × Answer)} (b : Bool) {p : Query × Answer} (h : p ∈ tr) :
    ∃ b', evOf b' p ∈ events tr b := by
  obtain ⟨pre, post, rfl⟩ := List.append_of_mem h
  obtain ⟨b', hb⟩ := events_split pre p post b
  exact ⟨b', by rw [hb]; simp⟩

theorem events_head {tr : List (Query × Answer)} {b : Bool} {e : NmDrv.Ev} (h : (events tr b).head? = some e) :
    ∃ p b', tr.head? = some p ∧ e = evOf b' p := by
  cases tr with
  | nil => simp at h
  | cons p t =>
    obtain ⟨b', hb⟩ := events_split [] p t b
    simp only [List.nil_append, ev0_nil] at hb
    rw [hb] at h
    simp only [List.head?_cons, Option.some.injEq] at h
    exact ⟨p, b', rfl, h.symm⟩

/-! ## R: refinement -/

/-- R.  A returned run of the Nelder-Mead machine against any environment IS a returned run of the control-flow model on
    the events of its trace; `b` = the run ended in a degenerate proposal after its last evaluation (read only if no stopping
    test fired there). -/
theorem nm_refines {σ : Type} (O : Ord) (A : Arith) (P : Proposer) (c : Cfg) (hw : c.minf0 = none) (E : Env σ) (fuel : Nat)
    (st st' : σ) (r : AlgResult) (tr : List (Query × Answer)) (h : Nlopt.run (mk O A P c) E fuel st = (some r, st', tr)) :
    ∃ b,
    (runWith O A c (events tr b)).short = false ∧
    (runWith O A c (events tr b)).ret = r.ret ∧
    (runWith O A c (events tr b)).x = r.x ∧
    Res.minfMem (runWith O A c (events tr b)) = r.minf ∧
    c.s.nevals + ((runWith O A c (events tr b)).nevals : Int) = r.numevals ∧
    (runWith O A c (events tr b)).nevals = tr.length ∧
    (events tr b).take (runWith O A c (events tr b)).nevals = events tr b ∧
    (∀ p ∈ tr, p.1.fn = .obj ∧ p.1.wantGrad = false) ∧
    (∀ p, tr.head? = some p → p.1.x = c.x0) := by
  have hJ : J O A P c (mk O A P c).init none [] := ⟨by intro p hp; simp at hp, rfl, rfl, rfl⟩
  obtain ⟨R, b, hrun, hs, hr, hn, hobj, hhead⟩ := runAlg_refines O A P c hw E fuel _ none st [] hJ r st' tr h
  have hcons : (events tr b).take R.nevals = events tr b := by
    rw [hn, ← events_length tr b, List.take_length]
  refine ⟨b, ?_⟩
  rw [hrun, hr]
  exact ⟨hs, rfl, rfl, rfl, rfl, hn, hcons, hobj, hhead⟩

/-! ## E1: evaluation budget -/

/-- E1.  With `maxeval > 0` (and the counter reset to 0 on entry, as `nlopt_optimize` does) the number of callback
    invocations (all of them objective evaluations) is at most `maxeval`, and it is the count the algorithm reports. -/
theorem e2e_evals_le_maxeval {σ : Type} (O : Ord) (A : Arith) (P : Proposer) (c : Cfg) (hw : c.minf0 = none) (E : Env σ)
    (fuel : Nat) (st st' : σ) (r : AlgResult) (tr : List (Query × Answer))
    (h : Nlopt.run (mk O A P c) E fuel st = (some r, st', tr)) (hmax : 0 < c.s.maxeval) (h0 : c.s.nevals = 0) :
    (tr.length : Int) ≤ c.s.maxeval ∧ r.numevals = tr.length ∧ ∀ p ∈ tr, p.1.fn = .obj ∧ p.1.wantGrad = false := by
  obtain ⟨b, _, _, _, _, hne, hn, _, hobj, _⟩ := nm_refines O A P c hw E fuel st st' r tr h
  have := t1_budget O A c (events tr b) hmax h0
  rw [hn] at this hne
  rw [h0] at hne
  exact ⟨this, by rw [← hne]; simp, hobj⟩

/-- the count reported is the counter on entry plus the number of invocations, unconditionally; at least one is made -/
theorem e2e_numevals {σ : Type} (O : Ord) (A : Arith) (P : Proposer) (c : Cfg) (hw : c.minf0 = none) (E : Env σ)
    (fuel : Nat) (st st' : σ) (r : AlgResult) (tr : List (Query × Answer))
    (h : Nlopt.run (mk O A P c) E fuel st = (some r, st', tr)) :
    r.numevals = c.s.nevals + tr.length ∧ 1 ≤ tr.length := by
  obtain ⟨b, hs, _, _, _, hne, hn, _, _, _⟩ := nm_refines O A P c hw E fuel st st' r tr h
  have h1 := wrapper_evaluates O A c (events tr b) hw hs
  rw [hn] at hne h1
  exact ⟨hne.symm, h1⟩

/-- the only result codes: FORCED_STOP, FAILURE (degenerate initial step), STOPVAL, FTOL, XTOL, MAXEVAL -/
theorem e2e_ret_codes {σ : Type} (O : Ord) (A : Arith) (P : Proposer) (c : Cfg) (hw : c.minf0 = none) (E : Env σ)
    (fuel : Nat) (st st' : σ) (r : AlgResult) (tr : List (Query × Answer))
    (h : Nlopt.run (mk O A P c) E fuel st = (some r, st', tr)) :
    r.ret = -5 ∨ r.ret = -1 ∨ r.ret = 2 ∨ r.ret = 3 ∨ r.ret = 4 ∨ r.ret = 5 := by
  obtain ⟨b, hs, hret, _⟩ := nm_refines O A P c hw E fuel st st' r tr h
  have := ret_codes O A c (events tr b) hs
  rw [hret] at this
  exact this

/-! ## E2: forced stop -/

/-- E2.  An answer that requests a stop (`nlopt_set_force_stop(opt, s)`, `s ≠ 0`, during the invocation) is the LAST
    entry of the trace — no callback is invoked after it — and the result is `FORCED_STOP`. -/
theorem e2e_forced_stop {σ : Type} (O : Ord) (A : Arith) (P : Proposer) (c : Cfg) (hw : c.minf0 = none) (E : Env σ)
    (fuel : Nat) (st st' : σ) (r : AlgResult) (tr : List (Query × Answer))
    (h : Nlopt.run (mk O A P c) E fuel st = (some r, st', tr))
    (pre post : List (Query × Answer)) (p : Query × Answer) (htr : tr = pre ++ p :: post)
    (hp : forcedOf p.2 = true) : post = [] ∧ r.ret = -5 := by
  subst htr
  obtain ⟨b, _, hret, _, _, _, hn, _, _, _⟩ := nm_refines O A P c hw E fuel st st' r _ h
  obtain ⟨b', hev⟩ := events_split pre p post b
  have hshort : (runWith O A c (ev0 pre)).short = true := by
    cases hsh : (runWith O A c (ev0 pre)).short with
    | true => rfl
    | false =>
      exfalso
      have h1 := run_append_done O A c (ev0 pre) (evOf b' p :: events post b) hsh
      have h2 := nevals_le_length O A c (ev0 pre)
      rw [hev, h1] at hn
      simp only [ev0_length, List.length_append, List.length_cons] at h2 hn
      omega
  obtain ⟨h2, h1, _⟩ := t2_forced O A c (ev0 pre) (events post b) (evOf b' p) hshort hp
  rw [← hev] at h1 h2
  rw [hn] at h2
  refine ⟨?_, by rw [← hret]; exact h1⟩
  simp only [List.length_append, List.length_cons, ev0_length] at h2
  exact List.length_eq_zero_iff.mp (by omega)

/-! ## E3: the returned pair is an evaluated pair of the trace -/

/-- E3, EVERY result code (success or not): `(x, minf)` is the point and the value of one objective invocation of the trace
    (`nldrmd_minimize` starts with `*minf = f(x)` at the caller's `x`). -/
theorem e2e_returned_pair {σ : Type} (O : Ord) (A : Arith) (P : Proposer) (c : Cfg) (hw : c.minf0 = none) (E : Env σ)
    (fuel : Nat) (st st' : σ) (r : AlgResult) (tr : List (Query × Answer))
    (h : Nlopt.run (mk O A P c) E fuel st = (some r, st', tr)) :
    ∃ p ∈ tr, p.1.fn = .obj ∧ r.x = p.1.x ∧ r.minf = valOf p.2 := by
  obtain ⟨b, hs, _, hx, hm, _, _, hcons, hobj, hhead⟩ := nm_refines O A P c hw E fuel st st' r tr h
  have hx0 : ∀ e, (events tr b).head? = some e → e.x = c.x0 := by
    intro e he
    obtain ⟨p, b', hp, rfl⟩ := events_head he
    exact hhead p hp
  obtain ⟨e, he, h1, h2⟩ := t3_evaluated O A c (events tr b) hw hx0 hs
  rw [hcons] at he
  obtain ⟨p, hp, b', rfl⟩ := mem_events he
  exact ⟨p, hp, (hobj p hp).1, by rw [← hx, h1]; rfl, by rw [← hm]; simp [Res.minfMem, h2]; rfl⟩

/-! ## E4: nothing evaluated is better than the result -/

/-- E4 (every tree oracle, NaN values allowed, every result code but FORCED_STOP): no invocation of the trace returned a
    value below the reported `minf` (IEEE `<`).  For FORCED_STOP the statement is false (`DrvNm.t4_forced_full_false`). -/
theorem e2e_best_no_better {σ : Type} (O : Ord) (A : Arith) (P : Proposer) (c : Cfg) (hw : c.minf0 = none) (E : Env σ)
    (fuel : Nat) (st st' : σ) (r : AlgResult) (tr : List (Query × Answer))
    (h : Nlopt.run (mk O A P c) E fuel st = (some r, st', tr)) (hret : r.ret ≠ -5) :
    ∀ p ∈ tr, lt (valOf p.2) r.minf = false := by
  obtain ⟨b, hs, hr, _, hm, _, _, hcons, _, _⟩ := nm_refines O A P c hw E fuel st st' r tr h
  obtain ⟨m, hmf, hall⟩ := t4_noless O A c (events tr b) hs
  rw [if_neg (by rw [hr]; exact hret), hcons] at hall
  have hmm : r.minf = m := by rw [← hm]; simp [Res.minfMem, hmf]
  intro p hp
  obtain ⟨b', hb'⟩ := evOf_mem_events b hp
  rw [hmm]
  exact hall _ hb'

/-! ## E5: stopval -/

/-- E5 (NaN allowed).  `STOPVAL_REACHED` only with `minf` STRICTLY below stopval. -/
theorem e2e_stopval_strict {σ : Type} (O : Ord) (A : Arith) (P : Proposer) (c : Cfg) (hw : c.minf0 = none) (E : Env σ)
    (fuel : Nat) (st st' : σ) (r : AlgResult) (tr : List (Query × Answer))
    (h : Nlopt.run (mk O A P c) E fuel st = (some r, st', tr)) (h2 : r.ret = 2) : lt r.minf c.s.minfMax = true := by
  obtain ⟨b, hs, hr, _, hm, _, _, _, _, _⟩ := nm_refines O A P c hw E fuel st st' r tr h
  obtain ⟨m, hmf, hlt⟩ := t5_stopval O A c (events tr b) hs (by rw [hr]; exact h2)
  have hmm : r.minf = m := by rw [← hm]; simp [Res.minfMem, hmf]
  rw [hmm]; exact hlt

/-- Termination: with `0 ≤ nevals0 < maxeval` the machine returns within `maxeval - nevals0 + 1` steps against every
    environment, for every tree oracle, arithmetic and proposer. -/
theorem e2e_returns {σ : Type} (O : Ord) (A : Arith) (P : Proposer) (c : Cfg) (E : Env σ) (fuel : Nat) (st : σ)
    (hlt : c.s.nevals < c.s.maxeval) (h0 : 0 ≤ c.s.nevals) (hfuel : c.s.maxeval - c.s.nevals + 1 ≤ (fuel : Int)) :
    ∃ r, (Nlopt.run (mk O A P c) E fuel st).1 = some r :=
  run_returns O A P c E hlt h0 fuel hfuel st

/-! ## non-vacuity of R, E1–E5 -/
namespace Ex

/-- n = 1, start point (1.0), at most 4 evaluations, no stopval, all tolerances 0 (`DrvNm.cfgW`), dummy arithmetic `A0` -/
def cfg : Cfg := cfgW F64.negInf F64.zero 4

/-- a concrete proposer: state = number of proposals made; initial simplex point 2.0, reflection 3.0, contraction 2.5,
    then a degenerate proposal; `stuckAt k`: proposal number `k` (0-based) is degenerate instead -/
def prop (stuckAt : Nat) : Proposer :=
  { PS := Nat, init := 0,
    next := fun k _ _ _ => (k + 1,
      if k = stuckAt then none
      else match k with
        | 0 => some [DrvNm.h 0x4000000000000000]
        | 1 => some [DrvNm.h 0x4008000000000000]
        | 2 => some [DrvNm.h 0x4004000000000000]
        | _ => none) }

/-- the values 5, 3, 4, 1, 1, … by call number -/
def valAt : Nat → F64
  | 0 => DrvNm.h 0x4014000000000000
  | 1 => DrvNm.h 0x4008000000000000
  | 2 => DrvNm.h 0x4010000000000000
  | _ => DrvNm.h 0x3ff0000000000000

/-- the user: state = number of calls so far; returns `valAt` of it; never requests a stop -/
def env : Env Nat := { call := fun st _ => (st + 1, { val := [valAt st], grad := none }) }

/-- the same user, but the call number `k` (0-based) does `nlopt_set_force_stop(opt, 3)` -/
def envStop (k : Nat) : Env Nat :=
  { call := fun st q => (st + 1, { val := [valAt st], grad := none, stop := if st = k then some 3 else none }) }

/-- R / E1 / E3 / E4: MAXEVAL_REACHED after exactly 4 invocations (1.0 ↦ 5, 2.0 ↦ 3, 3.0 ↦ 4, 2.5 ↦ 1); the result is the
    fourth evaluated pair (`DrvNm.t1_attained`) -/
example : (Nlopt.run (mk treeOrd A0 (prop 9) cfg) env 10 0).1 =
    some { ret := 5, x := [DrvNm.h 0x4004000000000000], minf := DrvNm.h 0x3ff0000000000000, numevals := 4 } := by decide
example : (Nlopt.run (mk treeOrd A0 (prop 9) cfg) env 10 0).2.2.map (fun p => p.1.x) =
    [[DrvNm.h 0x3ff0000000000000], [DrvNm.h 0x4000000000000000], [DrvNm.h 0x4008000000000000],
     [DrvNm.h 0x4004000000000000]] := by decide
/-- the hypotheses of E1–E5 hold for it: wrapper mode, budget set, counter 0 on entry, code not FORCED_STOP -/
example : cfg.minf0 = none ∧ 0 < cfg.s.maxeval ∧ cfg.s.nevals = 0 ∧ (5 : Int) ≠ -5 := by decide
/-- out of fuel: 4 steps are not enough for 4 evaluations plus the return -/
example : (Nlopt.run (mk treeOrd A0 (prop 9) cfg) env 4 0).1 = none := by decide

/-- degenerate reflection (proposal number 1): XTOL_REACHED after 2 invocations, WITHOUT a third one -/
example : (Nlopt.run (mk treeOrd A0 (prop 1) cfg) env 10 0).1 =
      some { ret := 4, x := [DrvNm.h 0x4000000000000000], minf := DrvNm.h 0x4008000000000000, numevals := 2 } ∧
    (Nlopt.run (mk treeOrd A0 (prop 1) cfg) env 10 0).2.2.length = 2 := by decide

/-- degenerate initial step (proposal number 0): FAILURE after the evaluation of the start point -/
example : (Nlopt.run (mk treeOrd A0 (prop 0) cfg) env 10 0).1 =
      some { ret := -1, x := [DrvNm.h 0x3ff0000000000000], minf := DrvNm.h 0x4014000000000000, numevals := 1 } := by decide

/-- E2: the third invocation requests the stop: FORCED_STOP after exactly 3 invocations, with the incumbent (2.0, 3.0) -/
example : (Nlopt.run (mk treeOrd A0 (prop 9) cfg) (envStop 2) 10 0).1 =
      some { ret := -5, x := [DrvNm.h 0x4000000000000000], minf := DrvNm.h 0x4008000000000000, numevals := 3 } ∧
    (Nlopt.run (mk treeOrd A0 (prop 9) cfg) (envStop 2) 10 0).2.2.map (fun p => forcedOf p.2) = [false, false, true] := by
  decide

/-- E5: stopval 4.0: the second value 3.0 is strictly below it -/
example : (Nlopt.run (mk treeOrd A0 (prop 9) (cfgW (DrvNm.h 0x4010000000000000) F64.zero 4)) env 10 0).1 =
    some { ret := 2, x := [DrvNm.h 0x4000000000000000], minf := DrvNm.h 0x4008000000000000, numevals := 2 } := by decide

end Ex

/-! ## Through the wrapper stack of `nlopt_optimize` -/

/-- the configuration `nlopt_optimize_` hands to `nldrmd_minimize(ni, f, f_data, lb, ub, x, minf, xstep, &stop)`, read off
    the problem the algorithm receives: wrapper mode, `*stop->nevals_p = 0` (reset by `nlopt_optimize_`), the stopping
    criteria of the object; `*minf = HUGE_VAL` is stored by `nlopt_optimize_` before the dispatch (`Res.minfMem`) -/
def cfgOf (p : Prob) : Cfg :=
  { n := p.v.n,
    s := { n := p.v.n, minfMax := p.v.stopval, ftolRel := p.v.ftolRel, ftolAbs := p.v.ftolAbs, xtolRel := p.v.xtolRel,
           xtolAbs := p.v.xtolAbs, xWeights := p.v.xWeights, nevals := 0, maxeval := p.v.maxeval, maxtime := p.v.maxtime,
           start := F64.zero, forceStop := 0 },
    x0 := p.x0 }

theorem cfgOf_wrapper (p : Prob) : (cfgOf p).minf0 = none := rfl
theorem cfgOf_nevals (p : Prob) : (cfgOf p).s.nevals = 0 := rfl

/-- Nelder-Mead as an algorithm factory for `Nlopt.optimize`; `O` = the tree oracle, `B` = the arithmetic of the stopping
    tests inside `nldrmd_minimize_`; the proposer may depend on the problem in any way -/
def nmMk (O : Ord) (B : Arith) (P : Prob → Proposer) : Prob → Alg := fun p => mk O B (P p) (cfgOf p)

/-- Core of the lift (`wrappers_pass_result` + `wrappers_forward_trace` instantiated with `nmMk O B P`). -/
theorem optimize_nm_core {σ : Type} (A B : Arith) (O : Ord) (caps : WrapCaps) (U : Env σ) (P : Prob → Proposer)
    (fuel : Nat) (v : CoreView) (hl : Bool) (x : List F64) (f0 : F64) (st st' : σ) (o : OptOut)
    (hf : v.f ≠ 0) (he : earlyFixed caps v x = false)
    (hs : (innerRun A caps U (nmMk O B P) fuel v hl x f0 st).2.2 = true)
    (h : optimize A caps U (nmMk O B P) fuel v hl x f0 st = (some o, st')) :
    ∃ r es, Nlopt.run (mk O B (P (innerProb caps v x)) (cfgOf (innerProb caps v x))) (wrappedEnv (layersOf caps v) U) fuel
        ((st, []), ({} : MemoSt)) = (some r, es, o.atrace) ∧
      o.ret = r.ret ∧ o.after.numevals = r.numevals ∧
      o.atrace.length = o.utrace.length ∧ AllRel (FwdRel caps v) o.atrace o.utrace ∧
      ((layersOf caps v).memo = false →
        o.x = (if (layersOf caps v).elim then expand (optV v.lb) (optV v.ub) r.x else r.x) ∧
        o.optf = (if v.maximize then r.minf.neg else r.minf)) := by
  obtain ⟨r, hr, hret, hnum, hat, _, _, hxf⟩ :=
    WrapProps.wrappers_pass_result A caps U (nmMk O B P) fuel v hl x f0 st st' o hf he hs h
  obtain ⟨hlen, hrel⟩ := WrapProps.wrappers_forward_trace A caps U (nmMk O B P) fuel v hl x f0 st st' o h
  refine ⟨r, (algRun caps U (nmMk O B P) fuel v x st).2.1, ?_, hret, hnum, hlen, hrel, hxf⟩
  have : algRun caps U (nmMk O B P) fuel v x st =
      ((algRun caps U (nmMk O B P) fuel v x st).1, (algRun caps U (nmMk O B P) fuel v x st).2.1,
       (algRun caps U (nmMk O B P) fuel v x st).2.2) := rfl
  rw [hr, ← hat] at this
  exact this

/-- E1 / C03 for the user: with `maxeval > 0`, `nlopt_optimize` running Nelder-Mead invokes the user's callbacks at most
    `maxeval` times, every invocation is an objective evaluation without gradient, and `nlopt_get_numevals` afterwards is
    exactly the number of invocations.  Every tree oracle, every arithmetic, every proposer, every user. -/
theorem optimize_nm_evals_le_maxeval {σ : Type} (A B : Arith) (O : Ord) (caps : WrapCaps) (U : Env σ)
    (P : Prob → Proposer) (fuel : Nat) (v : CoreView) (hl : Bool) (x : List F64) (f0 : F64) (st st' : σ) (o : OptOut)
    (hf : v.f ≠ 0) (he : earlyFixed caps v x = false)
    (hs : (innerRun A caps U (nmMk O B P) fuel v hl x f0 st).2.2 = true)
    (h : optimize A caps U (nmMk O B P) fuel v hl x f0 st = (some o, st')) (hmax : 0 < v.maxeval) :
    (o.utrace.length : Int) ≤ v.maxeval ∧ o.after.numevals = o.utrace.length ∧
    ∀ u ∈ o.utrace, u.1.fn = .obj ∧ u.1.wantGrad = false := by
  obtain ⟨r, es, hrun, _, hnum, hlen, hrel, _⟩ := optimize_nm_core A B O caps U P fuel v hl x f0 st st' o hf he hs h
  have hm : (cfgOf (innerProb caps v x)).s.maxeval = v.maxeval := innerView_maxeval v _ _
  obtain ⟨h1, h2, hobj⟩ := e2e_evals_le_maxeval _ _ _ _ (cfgOf_wrapper _) _ fuel _ es r o.atrace hrun
    (by rw [hm]; exact hmax) (cfgOf_nevals _)
  rw [hm, hlen] at h1
  refine ⟨h1, by rw [hnum, h2, hlen], ?_⟩
  intro u hu
  obtain ⟨p, hp, hfn, _, hg, _, _⟩ := E2EEsch.AllRel.exists_left hrel u hu
  obtain ⟨hp1, hp2⟩ := hobj p hp
  refine ⟨by rw [hfn]; exact hp1, ?_⟩
  rw [hg, hp2]; simp

/-- E2 / C04 for the user: an invocation of the user's callback during which `nlopt_set_force_stop(opt, s)`, `s ≠ 0`, was
    called is the LAST invocation `nlopt_optimize` makes, and the call returns `NLOPT_FORCED_STOP`. -/
theorem optimize_nm_forced_stop {σ : Type} (A B : Arith) (O : Ord) (caps : WrapCaps) (U : Env σ)
    (P : Prob → Proposer) (fuel : Nat) (v : CoreView) (hl : Bool) (x : List F64) (f0 : F64) (st st' : σ) (o : OptOut)
    (hf : v.f ≠ 0) (he : earlyFixed caps v x = false)
    (hs : (innerRun A caps U (nmMk O B P) fuel v hl x f0 st).2.2 = true)
    (h : optimize A caps U (nmMk O B P) fuel v hl x f0 st = (some o, st'))
    (pre post : List (Query × Answer)) (u : Query × Answer) (hut : o.utrace = pre ++ u :: post)
    (s : Int) (hstop : u.2.stop = some s) (hs0 : s ≠ 0) : post = [] ∧ o.ret = -5 := by
  obtain ⟨r, es, hrun, hret, _, _, hrel, _⟩ := optimize_nm_core A B O caps U P fuel v hl x f0 st st' o hf he hs h
  rw [hut] at hrel
  obtain ⟨pre', p, post', hat, ⟨_, _, _, hst, _⟩, hl⟩ := E2EEsch.AllRel.split_right hrel
  have hforced : forcedOf p.2 = true := by
    rw [forcedOf_congr hst]; exact (forcedOf_iff u.2).mpr ⟨s, hstop, hs0⟩
  obtain ⟨h1, h2⟩ := e2e_forced_stop _ _ _ _ (cfgOf_wrapper _) _ fuel _ es r o.atrace hrun pre' post' p hat hforced
  rw [h1] at hl
  exact ⟨List.length_eq_zero_iff.mp hl.symm, by rw [hret]; exact h2⟩

/-- E3 / C02 for the user, EVERY result code: the result of `nlopt_optimize` running Nelder-Mead — minimising OR maximising,
    with or without fixed (eliminated) coordinates — is an evaluated pair of the user's own callback trace: `o.x` is, bit
    for bit, the point of one invocation of the user's objective, and `o.optf` is the value the user returned there.
    Hypotheses: the algorithm was started (`hf`, `he`, `hs`), no memoization layer (`hmemo`).  NaN values allowed. -/
theorem optimize_nm_returned_pair {σ : Type} (A B : Arith) (O : Ord) (caps : WrapCaps) (U : Env σ)
    (P : Prob → Proposer) (fuel : Nat) (v : CoreView) (hl : Bool) (x : List F64) (f0 : F64) (st st' : σ) (o : OptOut)
    (hf : v.f ≠ 0) (he : earlyFixed caps v x = false)
    (hs : (innerRun A caps U (nmMk O B P) fuel v hl x f0 st).2.2 = true)
    (hmemo : (layersOf caps v).memo = false)
    (h : optimize A caps U (nmMk O B P) fuel v hl x f0 st = (some o, st')) :
    ∃ u ∈ o.utrace, u.1.fn = .obj ∧ o.x = u.1.x ∧
      (v.maximize = false → o.optf = valOf u.2) ∧ (∀ w, u.2.val = [w] → o.optf = w) := by
  obtain ⟨r, es, hrun, hret, _, _, hrel, hxf⟩ := optimize_nm_core A B O caps U P fuel v hl x f0 st st' o hf he hs h
  obtain ⟨hox, hof⟩ := hxf hmemo
  obtain ⟨p, hp, hpfn, hpx, hpm⟩ := e2e_returned_pair _ _ _ _ (cfgOf_wrapper _) _ fuel _ es r o.atrace hrun
  obtain ⟨u, hu, hfn, hux, _, _, hans⟩ := E2EEsch.AllRel.exists_right hrel p hp
  have hfn' : u.1.fn = .obj := by rw [hfn]; exact hpfn
  refine ⟨u, hu, hfn', by rw [hox, hux, hpx], ?_, ?_⟩
  · intro hmin
    rw [hof, hmin, hpm, hans]
    exact (valOf_ansOf _ u.1 u.2 hfn').2 hmin
  · intro w hw
    rw [hof, hpm, hans, (valOf_ansOf _ u.1 u.2 hfn').1 w hw, layersOf_maximize]
    cases v.maximize <;> simp [neg_neg']

/-- E4 / C05 for the user (every result code but FORCED_STOP; every user answer is one number — NaN allowed when
    minimising): no invocation of the user's objective returned a value better than the reported `opt_f` — below it when
    minimising, above it when maximising. -/
theorem optimize_nm_best_no_better {σ : Type} (A B : Arith) (O : Ord) (caps : WrapCaps) (U : Env σ)
    (P : Prob → Proposer) (fuel : Nat) (v : CoreView) (hl : Bool) (x : List F64) (f0 : F64) (st st' : σ) (o : OptOut)
    (hf : v.f ≠ 0) (he : earlyFixed caps v x = false)
    (hs : (innerRun A caps U (nmMk O B P) fuel v hl x f0 st).2.2 = true)
    (hmemo : (layersOf caps v).memo = false)
    (h : optimize A caps U (nmMk O B P) fuel v hl x f0 st = (some o, st')) (hnf : o.ret ≠ -5) :
    (v.maximize = false → ∀ u ∈ o.utrace, lt (valOf u.2) o.optf = false) ∧
    (v.maximize = true → ∀ u ∈ o.utrace, ∀ w, u.2.val = [w] → lt o.optf w = false) := by
  obtain ⟨r, es, hrun, hret, _, _, hrel, hxf⟩ := optimize_nm_core A B O caps U P fuel v hl x f0 st st' o hf he hs h
  obtain ⟨_, hof⟩ := hxf hmemo
  obtain ⟨_, _, _, _, _, _, _, _, hobj, _⟩ := nm_refines _ _ _ _ (cfgOf_wrapper _) _ fuel _ es r o.atrace hrun
  have hbest := e2e_best_no_better _ _ _ _ (cfgOf_wrapper _) _ fuel _ es r o.atrace hrun (by rw [← hret]; exact hnf)
  constructor
  · intro hmin u hu
    obtain ⟨p, hp, hfn, _, _, _, hans⟩ := E2EEsch.AllRel.exists_left hrel u hu
    have hfn' : u.1.fn = .obj := by rw [hfn]; exact (hobj p hp).1
    have := hbest p hp
    rw [hans, (valOf_ansOf _ u.1 u.2 hfn').2 hmin] at this
    rw [hof, hmin]; exact this
  · intro hmax u hu w hw
    obtain ⟨p, hp, hfn, _, _, _, hans⟩ := E2EEsch.AllRel.exists_left hrel u hu
    have hfn' : u.1.fn = .obj := by rw [hfn]; exact (hobj p hp).1
    have := hbest p hp
    rw [hans, (valOf_ansOf _ u.1 u.2 hfn').1 w hw, layersOf_maximize, hmax] at this
    rw [hof, hmax]
    simp only [if_true] at this ⊢
    rw [← lt_neg_neg, neg_neg'] at this
    exact this

/-- E5 for the user (NaN allowed): `NLOPT_STOPVAL_REACHED` (2) only when the reported `opt_f` is STRICTLY beyond stopval
    (the documentation says "at least as good as"). -/
theorem optimize_nm_stopval_strict {σ : Type} (A B : Arith) (O : Ord) (caps : WrapCaps) (U : Env σ)
    (P : Prob → Proposer) (fuel : Nat) (v : CoreView) (hl : Bool) (x : List F64) (f0 : F64) (st st' : σ) (o : OptOut)
    (hf : v.f ≠ 0) (he : earlyFixed caps v x = false)
    (hs : (innerRun A caps U (nmMk O B P) fuel v hl x f0 st).2.2 = true)
    (hmemo : (layersOf caps v).memo = false)
    (h : optimize A caps U (nmMk O B P) fuel v hl x f0 st = (some o, st')) (h2 : o.ret = 2) :
    (if v.maximize then lt v.stopval o.optf else lt o.optf v.stopval) = true := by
  obtain ⟨r, es, hrun, hret, _, _, hrel, hxf⟩ := optimize_nm_core A B O caps U P fuel v hl x f0 st st' o hf he hs h
  obtain ⟨_, hof⟩ := hxf hmemo
  have hsv : (cfgOf (innerProb caps v x)).s.minfMax = if v.maximize then v.stopval.neg else v.stopval :=
    innerView_stopval v _ _
  have := e2e_stopval_strict _ _ _ _ (cfgOf_wrapper _) _ fuel _ es r o.atrace hrun (by rw [← hret]; exact h2)
  rw [hsv] at this
  rw [hof]
  cases hm : v.maximize with
  | false => simpa [hm] using this
  | true =>
    simp only [hm, if_true] at this ⊢
    rw [← lt_neg_neg, neg_neg'] at this
    exact this

/-- Termination, end to end: `nlopt_optimize` running Nelder-Mead with `maxeval > 0` returns (is not "still running") as
    soon as the fuel covers `maxeval + 1` steps, whatever the user's callbacks answer. -/
theorem optimize_nm_returns {σ : Type} (A B : Arith) (O : Ord) (caps : WrapCaps) (U : Env σ) (P : Prob → Proposer)
    (fuel : Nat) (v : CoreView) (hl : Bool) (x : List F64) (f0 : F64) (st : σ)
    (hmax : 0 < v.maxeval) (hfuel : v.maxeval + 1 ≤ fuel) :
    ∃ o, (optimize A caps U (nmMk O B P) fuel v hl x f0 st).1 = some o := by
  cases ho : (optimize A caps U (nmMk O B P) fuel v hl x f0 st).1 with
  | some o => exact ⟨o, rfl⟩
  | none =>
    exfalso
    obtain ⟨_, hnone⟩ := WrapProps.wrappers_pass_running A caps U (nmMk O B P) fuel v hl x f0 st ho
    have hm : (cfgOf (innerProb caps v x)).s.maxeval = v.maxeval := innerView_maxeval v _ _
    have hz : (cfgOf (innerProb caps v x)).s.nevals = 0 := rfl
    obtain ⟨r, hr⟩ := run_returns O B (P (innerProb caps v x)) (cfgOf (innerProb caps v x)) (wrappedEnv (layersOf caps v) U)
      (by rw [hm, hz]; exact hmax) (by rw [hz]; exact Int.le_refl 0) fuel (by rw [hm, hz]; omega) ((st, []), ({} : MemoSt))
    have : (algRun caps U (nmMk O B P) fuel v x st).1 = some r := hr
    rw [hnone] at this
    cases this

/-! ## non-vacuity of the lifted statements -/
namespace WEx
open Nlopt.WrapEx

/-- NLOPT_LN_NELDERMEAD (28: eliminated, NOT memoized), n = 2, coordinate 0 fixed at +0.0, coordinate 1 in [0, 2] (reduced
    dimension 1), maxeval 3, no xtol, stale counter 5 and stale force-stop flag 9 -/
def view (maximize : Bool) : CoreView :=
  { WrapEx.view with algorithm := 28, maximize := maximize, maxeval := 3, xtolAbs := none,
                     stopval := if maximize then F64.posInf else F64.negInf }

/-- a proposer in the REDUCED dimension: (1.0) (initial simplex), then (2.0), (2.0), … -/
def prop (_ : Prob) : Proposer :=
  { PS := Nat, init := 0, next := fun k _ _ _ => (k + 1, some [if k = 0 then F64.one else WrapEx.two]) }

/-- the user: f(x) = x₁ (the free coordinate); state = number of calls -/
def user : Env Nat := { call := fun st q => (st + 1, { val := [q.x.getD 1 F64.qnan], grad := none }) }

/-- the same, requesting a stop (value 7) during call number 1 (0-based) -/
def userStop : Env Nat :=
  { call := fun st q => (st + 1, { val := [q.x.getD 1 F64.qnan], grad := none, stop := if st = 1 then some 7 else none }) }

/-- the hypotheses of the lifted theorems hold: objective set, start accepted, algorithm started, no memo layer, elimination on -/
example : (view false).f ≠ 0 ∧ earlyFixed caps (view false) x0 = false ∧
    (innerRun (arith F64.zero) caps user (nmMk treeOrd A0 prop) 10 (view false) false x0 F64.zero 0).2.2 = true ∧
    (layersOf caps (view false)).memo = false ∧ (layersOf caps (view false)).elim = true ∧ 0 < (view false).maxeval := by
  decide
example : (view true).f ≠ 0 ∧ earlyFixed caps (view true) x0 = false ∧
    (innerRun (arith F64.zero) caps user (nmMk treeOrd A0 prop) 10 (view true) false x0 F64.zero 0).2.2 = true ∧
    (layersOf caps (view true)).memo = false := by decide

/-- minimising: three user invocations at (+0.0, 0.5), (+0.0, 1.0), (+0.0, 2.0) with values 0.5, 1.0, 2.0; the call returns
    MAXEVAL_REACHED with the first evaluated pair, counter 3 -/
example : (optimize (arith F64.zero) caps user (nmMk treeOrd A0 prop) 10 (view false) false x0 F64.zero 0).1.map
      (fun o => (o.ret, o.x, o.optf, o.after.numevals)) = some (5, [F64.zero, half], half, 3) := by decide
example : (optimize (arith F64.zero) caps user (nmMk treeOrd A0 prop) 10 (view false) false x0 F64.zero 0).1.map
      (fun o => o.utrace.map (fun u => (u.1.x, u.2.val))) =
    some [([F64.zero, half], [half]), ([F64.zero, F64.one], [F64.one]), ([F64.zero, WrapEx.two], [WrapEx.two])] := by decide

/-- maximising: the same three invocations; the call returns the LAST pair ((+0.0, 2.0), 2.0) -/
example : (optimize (arith F64.zero) caps user (nmMk treeOrd A0 prop) 10 (view true) false x0 F64.zero 0).1.map
      (fun o => (o.ret, o.x, o.optf, o.after.numevals)) = some (5, [F64.zero, WrapEx.two], WrapEx.two, 3) := by decide

/-- forced stop during the second invocation: FORCED_STOP, exactly two invocations, the flag reads 7 afterwards; the result
    is still an evaluated pair (the first one) -/
example : (optimize (arith F64.zero) caps userStop (nmMk treeOrd A0 prop) 10 (view false) false x0 F64.zero 0).1.map
      (fun o => (o.ret, o.x, o.optf, o.after.numevals, o.utrace.length, o.after.forceStop)) =
    some (-5, [F64.zero, half], half, 2, 2, 7) := by decide

/-- stopval 0.75, minimising: the first value 0.5 is strictly below it: STOPVAL_REACHED after one invocation -/
example : (optimize (arith F64.zero) caps user (nmMk treeOrd A0 prop) 10
      { view false with stopval := ⟨0x3FE8000000000000⟩ } false x0 F64.zero 0).1.map
      (fun o => (o.ret, o.x, o.optf, o.after.numevals)) = some (2, [F64.zero, half], half, 1) := by decide

end WEx

end Nlopt.E2ENm
