import NloptModel.Model.AuglagDriver
import NloptModel.Lemmas.AuglagDrvLemmas
/-!
# Theorems about the control flow of `auglag_minimize` (model: `Nlopt.AuglagDrv`, Model/AuglagDriver.lean)

All statements are for EVERY configuration, EVERY event list and EVERY `Arith`, by induction over the event list.
"Processed own evaluation" = an element of `Res.log` (all callbacks made, incumbent rule applied); `log_eq_filter`
says that for every return code other than FORCED_STOP the log is exactly the list of consumed `eval` events.

* T1 `nevals_le_maxeval_succ`     maxeval > 0 and every subsidiary run respects the budget it was handed →
                                  nevals ≤ maxeval + 1; attained (`nevals_bound_attained`); without the hypothesis the
                                  overshoot is unbounded (`nevals_unbounded_without_respect`)
     `budgets_pos`                maxeval > 0 → no subsidiary run is started with a budget ≤ 0 (= "no limit")
     `budget_eq`                  the budget handed to a subsidiary run is `maxeval - nevals` at that moment
* T2 `forced_stop_own`            an own evaluation during which the flag is seen is the last event consumed; -5 when seen
                                  after a callback (then `x`, `*minf` are untouched); a flag seen only by the late test of a
                                  loop pass can be overridden by 2/3/4
     `forced_stop_sub_break`      a subsidiary run returning a negative code other than -4 ends the run with that code
     `forced_stop_sub_continue`   a subsidiary run that returns ≥ 0 or -4 WITH the flag set is followed by ONE MORE call of
                                  the user's objective, then -5 (`x`, `*minf` untouched)
     `forced_stop_init_late_goes_on`  witness: a flag raised after the last callback of the evaluation before the loop is
                                  not seen by `auglag_minimize` before the subsidiary run
* T3 `returned_pair`              on every return: `(x, *minf)` is still `(x0, +Inf)` and nothing was processed, or it is the
                                  pair of a processed own evaluation
     `returned_pair_success`      ret > 0 or ret = -4 → the pair of a consumed own evaluation (no exception)
     `returned_initial_possible_forced`, `returned_initial_possible_subfail`   the two ways to get `(x0, +Inf)` back
* T4 `incumbent_rule`             what the rule guarantees (feasible beats infeasible; later feasible points are neither
                                  better in penalty nor in value; an infeasible incumbent has the least penalty)
     `best_feasible_partial`      if no feasible processed evaluation has a smaller penalty than another (e.g. tolerances 0:
                                  all penalties +0, `best_feasible_zero_pen`): no feasible processed evaluation has f < minf
     `best_feasible_full_false`   without that hypothesis this is FALSE (a feasible point with smaller penalty replaces a
                                  feasible point with smaller value); concrete witness
* T5 `stopval_strict`             ret = 2 → the returned pair is the last consumed event, an own evaluation that is feasible
                                  within tolerance, and `*minf < stopval` (strict)
     `minf_not_monotone`          in the same run `*minf` goes from 1 to 2
     `nan_inequality_accepted`    witness: a NaN inequality-constraint value has penalty 0 and ICM 0: the point replaces an
                                  infeasible incumbent with finite violation and the run returns FTOL_REACHED
* extras: `ret_codes`, `ret_ne_success`, `nevals_eq_costs`, `log_eq_filter`, `log_mem_consumed`, `short_consumes_all`,
  `run_prefix`, `unconstrained_one_pass` (without penalised constraints the outer loop makes exactly one pass).
-/
set_option linter.unusedSimpArgs false
set_option linter.unusedVariables false
namespace Nlopt.DrvAuglag
open Nlopt Nlopt.AuglagDrv

/-! ## The master invariant and the shape of every run -/

/-- every subsidiary run that was handed a positive budget made at most that many evaluations -/
def Resp (subs : List (Int × Nat)) : Prop := ∀ p ∈ subs, p.1 > 0 → (p.2 : Int) ≤ p.1

instance (subs : List (Int × Nat)) : Decidable (Resp subs) := by unfold Resp; infer_instance

/-- the hypothesis of T1, a predicate over the run: `Res.subs` lists (budget handed, evaluations used) of every consumed
    subsidiary run -/
def SubsRespectBudget (A : Arith) (c : Cfg) (evs : List Ev) : Prop := Resp (run A c evs).subs

theorem resp_mono {l : List (Int × Nat)} {p : Int × Nat} (h : Resp (l ++ [p])) : Resp l :=
  fun q hq => h q (by simp [hq])

def Master (A : Arith) (c : Cfg) (done : List Ev) (ph : Phase) (s : St) : Prop :=
  Inv A c done ph s ∧ (Resp s.subs → c.stop.maxeval > 0 → (s.nev : Int) ≤ c.stop.maxeval) ∧
  (TieOn A c s.log → Best A c s)

theorem master_start (A : Arith) (c : Cfg) : Master A c [] (startPhase c) (St.init c) :=
  ⟨inv_start A c, fun _ hm => by simp [St.init]; omega, fun _ h => by simp [St.init] at h⟩

theorem master_step {A : Arith} {c : Cfg} {done : List Ev} {ph : Phase} {s : St} {e : Ev} {ph' : Phase} {s' : St}
    (h : Master A c done ph s) (hs : step A c ph s e = .cont ph' s') : Master A c (done ++ [e]) ph' s' := by
  obtain ⟨hinv, hbud, hbest⟩ := h
  have hinv' := inv_step hinv hs
  refine ⟨hinv', ?_, ?_⟩
  · intro hresp hm
    rcases step_cont_shape hs with ⟨_, hph, _⟩ | ⟨hph0, r, x, f, u, fo, _, _, hs', _⟩ | ⟨_, _, _, hph, _⟩
    · have := hinv'.2.2.2.2.1 hph hm; omega
    · subst hs'
      have hlt := hinv.2.2.2.2.1 hph0 hm
      have := hresp (c.stop.maxeval - (s.nev : Int), u) (by simp) (by simp only []; omega)
      simp only [afterSub_nev] at this ⊢
      push_cast; omega
    · have := hinv'.2.2.2.2.1 hph hm; omega
  · intro htie
    rcases step_cont_shape hs with ⟨hph, _, hs', _⟩ | ⟨_, r, x, f, u, fo, _, _, hs', _⟩ | ⟨_, _, _, _, hs', _⟩
    · subst hs'
      have : s.log = [] := by rw [(hinv.2.2.1 hph).1]; rfl
      exact best_procInit this
    · subst hs'; exact hbest htie
    · subst hs'
      exact best_proc hinv.1.2.2.2.1 (hbest (tieOn_mono htie)) htie

/-- **Shape of every run**: the events run out (`short`), or the run ends at some event `e` which either makes the driver
    return (`step = .done r s'`) or is not an event the driver could have produced (`.bad`: malformed). -/
theorem run_cases (A : Arith) (c : Cfg) (evs : List Ev) :
    (∃ ph' s', Master A c evs ph' s' ∧ run A c evs = s'.res 0 true false) ∨
    (∃ pre e rest php sp, evs = pre ++ e :: rest ∧ Master A c pre php sp ∧
      ((∃ r s', step A c php sp e = .done r s' ∧ run A c evs = s'.res r false false) ∨
       (step A c php sp e = .bad ∧ run A c evs = sp.res 0 false true))) := by
  have := go_induct A c (Master A c) (fun done ph s e ph' s' h hs => master_step h hs) evs [] (startPhase c) (St.init c)
    (master_start A c)
  simpa [run] using this

/-- the consumed events are `evs.take nevents`; the memory at return satisfies the core invariant on them -/
theorem run_final (A : Arith) (c : Cfg) (evs : List Ev) :
    ∃ sf ret short mal, run A c evs = sf.res ret short mal ∧ Core A c (evs.take (run A c evs).nevents) sf ∧
      (run A c evs).nevents ≤ evs.length := by
  rcases run_cases A c evs with ⟨ph', s', hm, hr⟩ | ⟨pre, e, rest, php, sp, hes, hm, ⟨r, s', hst, hr⟩ | ⟨hst, hr⟩⟩
  · have hn : (run A c evs).nevents = evs.length := by rw [hr]; exact hm.1.1.1
    refine ⟨s', 0, true, false, hr, ?_, Nat.le_of_eq hn⟩
    rw [hn, List.take_length]; exact hm.1.1
  · have hcore := core_done hm.1 hst
    have hn : (run A c evs).nevents = (pre ++ [e]).length := by rw [hr]; exact hcore.1
    refine ⟨s', r, false, false, hr, ?_, by rw [hn, hes]; simp⟩
    rw [hn, hes]
    have : pre ++ e :: rest = (pre ++ [e]) ++ rest := by simp
    rw [this, List.take_left']; exact hcore; rfl
  · have hn : (run A c evs).nevents = pre.length := by rw [hr]; exact hm.1.1.1
    refine ⟨sp, 0, false, true, hr, ?_, by rw [hn, hes]; simp⟩
    rw [hn, hes, List.take_left']; exact hm.1.1; rfl

theorem advance_master (A : Arith) (c : Cfg) : ∀ (pre done : List Ev) (ph : Phase) (s : St) (ph' : Phase) (s' : St),
    Master A c done ph s → advance A c ph s pre = some (ph', s') → Master A c (done ++ pre) ph' s' := by
  intro pre
  induction pre with
  | nil => intro done ph s ph' s' h ha; simp [advance] at ha; obtain ⟨h1, h2⟩ := ha; subst h1; subst h2; simpa using h
  | cons e es ih =>
    intro done ph s ph' s' h ha
    cases hv : step A c ph s e with
    | done r s1 => simp [advance, hv] at ha
    | bad => simp [advance, hv] at ha
    | cont ph1 s1 =>
      simp only [advance, hv] at ha
      have := ih (done ++ [e]) ph1 s1 ph' s' (master_step h hv) ha
      simpa using this

/-- a `short` run waits in a state that satisfies the invariant, and every longer event list goes on from there -/
theorem short_state (A : Arith) (c : Cfg) (pre : List Ev) (h : (run A c pre).short = true) :
    ∃ ph s, Master A c pre ph s ∧ run A c pre = s.res 0 true false ∧
      ∀ rest, run A c (pre ++ rest) = go A c ph s rest := by
  obtain ⟨ph', s', h1, h2, h3⟩ := go_short_advance A c pre (startPhase c) (St.init c) h
  have := advance_master A c pre [] (startPhase c) (St.init c) ph' s' (master_start A c) h1
  exact ⟨ph', s', by simpa using this, h2, h3⟩

/-! ## T1 — evaluation budget (C03) -/

/-- `*nevals_p` on return = evaluations made by the consumed events (own evaluations count 1, subsidiary runs `used`) -/
theorem nevals_eq_costs (A : Arith) (c : Cfg) (evs : List Ev) :
    (run A c evs).nevals = costs (evs.take (run A c evs).nevents) := by
  obtain ⟨sf, ret, sh, mal, hr, hcore, _⟩ := run_final A c evs
  rw [← hcore.2.1, hr]; rfl

/-- **T1b.** With `maxeval > 0` no subsidiary run is ever started with a budget ≤ 0 (which `nlopt_optimize_limited` would
    read as "no limit"): this is what the test at the top of the loop guarantees. -/
theorem budgets_pos (A : Arith) (c : Cfg) (evs : List Ev) (hmax : c.stop.maxeval > 0) :
    ∀ p ∈ (run A c evs).subs, p.1 > 0 := by
  obtain ⟨sf, ret, sh, mal, hr, hcore, _⟩ := run_final A c evs
  rw [hr]; exact hcore.2.2.2.2.1 hmax

/-- **T1.** With `maxeval > 0`, if every subsidiary run makes at most as many evaluations as the budget it was handed,
    the total number of evaluations of the user's objective is at most `maxeval + 1`: the own evaluation that follows the
    subsidiary run is made without looking at the counter. -/
theorem nevals_le_maxeval_succ (A : Arith) (c : Cfg) (evs : List Ev) (hmax : c.stop.maxeval > 0)
    (hresp : SubsRespectBudget A c evs) : ((run A c evs).nevals : Int) ≤ c.stop.maxeval + 1 := by
  unfold SubsRespectBudget at hresp
  rcases run_cases A c evs with ⟨ph', s', hm, hr⟩ | ⟨pre, e, rest, php, sp, hes, hm, ⟨r, s', hst, hr⟩ | ⟨hst, hr⟩⟩
  · rw [hr] at hresp ⊢; have := hm.2.1 hresp hmax; simp only [St.res]; omega
  · rw [hr] at hresp ⊢
    simp only [St.res] at hresp ⊢
    rcases step_done_shape hst with ⟨_, _, _, ⟨_, _, hs'⟩ | ⟨_, _, hs', _⟩⟩ | ⟨hph, x, f, u, fo, _, _, _, hs'⟩ |
      ⟨_, _, _, _, _, ⟨_, _, hs'⟩ | ⟨_, _, hs'⟩⟩
    · subst hs'; have := hm.2.1 hresp hmax; simp only [bump_nev]; push_cast; omega
    · subst hs'; have := hm.2.1 hresp hmax; simp only [procInit_nev]; push_cast; omega
    · subst hs'
      have hlt := hm.1.2.2.2.2.1 hph hmax
      have := hresp (c.stop.maxeval - (sp.nev : Int), u) (by simp) (by simp only []; omega)
      simp only [afterSub_nev] at this ⊢
      push_cast; omega
    · subst hs'; have := hm.2.1 hresp hmax; simp only [bump_nev]; push_cast; omega
    · subst hs'; have := hm.2.1 hresp hmax; simp only [proc_nev]; push_cast; omega
  · rw [hr] at hresp ⊢; have := hm.2.1 hresp hmax; simp only [St.res]; omega

/-! ## which own evaluations are in the log -/

theorem inv_init_nil {A : Arith} {c : Cfg} {pre : List Ev} {s : St} (h : Inv A c pre .init s) : pre = [] ∧ s.log = [] := by
  have hs := (h.2.2.1 rfl).1
  have hc := h.1.1
  rw [hs] at hc
  exact ⟨List.eq_nil_of_length_eq_zero hc.symm, by rw [hs]; rfl⟩

/-- the log after the event that ends the run: every consumed own evaluation, unless the last one was cut short by a
    forced-stop test that follows a callback -/
theorem done_log {A : Arith} {c : Cfg} {pre : List Ev} {ph : Phase} {s : St} {e : Ev} {r : Int} {s' : St}
    (h : Inv A c pre ph s) (hs : step A c ph s e = .done r s') :
    (s'.log = (pre ++ [e]).filter Ev.isEval ∧ (r > 0 ∨ r = -4 → s'.log ≠ [])) ∨
    (r = -5 ∧ e.isEval = true ∧ s'.log = pre.filter Ev.isEval ∧ s'.x = s.x ∧ s'.minf = s.minf) := by
  rcases step_done_shape hs with ⟨hph, he, hx, ⟨hr, _, hs'⟩ | ⟨_, hcb, hs', _⟩⟩ | ⟨hph, x, f, u, fo, he, hr1, hr2, hs'⟩ |
    ⟨sret, xc, hph, he, hx, ⟨hr, _, hs'⟩ | ⟨hcb, _, hs'⟩⟩
  · subst hs'; exact Or.inr ⟨hr, he, by simpa using h.2.1, rfl, rfl⟩
  · subst hs'; subst hph
    exact Or.inl ⟨(core_procInit h he hcb hx).2, fun _ => by simp⟩
  · subst hs'; subst hph; subst he
    exact Or.inl ⟨(core_afterSub h r x f u fo).2, fun hh => by omega⟩
  · subst hs'; exact Or.inr ⟨hr, he, by simpa using h.2.1, rfl, rfl⟩
  · subst hs'; subst hph
    exact Or.inl ⟨(core_proc h he hcb).2, fun _ => by simp⟩

/-- **The log is the list of consumed own evaluations** for every return code other than FORCED_STOP (also for `short`
    and malformed runs). -/
theorem log_eq_filter (A : Arith) (c : Cfg) (evs : List Ev) (hret : (run A c evs).ret ≠ -5) :
    (run A c evs).log = (evs.take (run A c evs).nevents).filter Ev.isEval := by
  rcases run_cases A c evs with ⟨ph', s', hm, hr⟩ | ⟨pre, e, rest, php, sp, hes, hm, ⟨r, s', hst, hr⟩ | ⟨hst, hr⟩⟩
  · have hn : (run A c evs).nevents = evs.length := by rw [hr]; exact hm.1.1.1
    rw [hn, List.take_length, hr]; exact hm.1.2.1
  · have hcore := core_done hm.1 hst
    have hn : (run A c evs).nevents = (pre ++ [e]).length := by rw [hr]; exact hcore.1
    have ht : evs.take (pre ++ [e]).length = pre ++ [e] := by
      rw [hes]
      have : pre ++ e :: rest = (pre ++ [e]) ++ rest := by simp
      rw [this, List.take_left']; rfl
    rw [hn, ht, hr]
    rcases done_log hm.1 hst with ⟨h1, _⟩ | ⟨h1, _⟩
    · exact h1
    · rw [hr] at hret; exact absurd h1 hret
  · have hn : (run A c evs).nevents = pre.length := by rw [hr]; exact hm.1.1.1
    rw [hn, hr, hes, List.take_left' rfl]; exact hm.1.2.1

/-- every processed own evaluation is a consumed `eval` event whose callbacks all ran -/
theorem log_mem_consumed (A : Arith) (c : Cfg) (evs : List Ev) {e : Ev} (he : e ∈ (run A c evs).log) :
    e.isEval = true ∧ cbStop c e.stopNo = false ∧ ∃ i, i < (run A c evs).nevents ∧ evs[i]? = some e := by
  obtain ⟨sf, ret, sh, mal, hr, hcore, hle⟩ := run_final A c evs
  obtain ⟨_, _, hlog, _, _, rest, hf, _⟩ := hcore
  have he' : e ∈ sf.log := by rw [hr] at he; exact he
  refine ⟨(hlog e he').1, (hlog e he').2, ?_⟩
  have : e ∈ (evs.take (run A c evs).nevents).filter Ev.isEval := by rw [hf]; simp [he']
  have hmem := (List.mem_filter.mp this).1
  obtain ⟨i, hi⟩ := List.getElem?_of_mem hmem
  have hlt : i < (evs.take (run A c evs).nevents).length := by
    rcases Nat.lt_or_ge i (evs.take (run A c evs).nevents).length with h | h
    · exact h
    · rw [List.getElem?_eq_none h] at hi; cases hi
  have hlt' : i < (run A c evs).nevents := by simp at hlt; omega
  refine ⟨i, hlt', ?_⟩
  rw [List.getElem?_take] at hi; simpa [hlt'] using hi

/-! ## T3 — the returned pair is an evaluated pair (C02) -/

/-- **T3, general form.**  On every return (any code, also `short` / malformed): either no own evaluation was processed —
    then `x` is still the caller's `x0` and `*minf = +Inf` — or `(x, *minf)` is exactly `(e.x, e.f)` for a processed own
    evaluation `e`. -/
theorem returned_pair (A : Arith) (c : Cfg) (evs : List Ev) :
    ((run A c evs).log = [] ∧ (run A c evs).x = c.x0 ∧ (run A c evs).minf = some F64.posInf) ∨
    (∃ e ∈ (run A c evs).log, (run A c evs).x = e.xv ∧ (run A c evs).minf = some e.fv) := by
  obtain ⟨sf, ret, sh, mal, hr, hcore, _⟩ := run_final A c evs
  rcases hcore.2.2.2.1 with ⟨hl, hx, hm, _⟩ | ⟨l1, e, l2, hl, hx, hm, _⟩
  · left; rw [hr]; exact ⟨hl, hx, by simp [St.res, hm]⟩
  · right; rw [hr]; exact ⟨e, by simp [St.res, hl], hx, by simp [St.res, hm]⟩

/-- a success code or ROUNDOFF_LIMITED is only returned after at least one own evaluation was processed -/
theorem log_ne_nil_of_success (A : Arith) (c : Cfg) (evs : List Ev)
    (hret : (run A c evs).ret > 0 ∨ (run A c evs).ret = -4) : (run A c evs).log ≠ [] := by
  rcases run_cases A c evs with ⟨ph', s', hm, hr⟩ | ⟨pre, e, rest, php, sp, hes, hm, ⟨r, s', hst, hr⟩ | ⟨hst, hr⟩⟩
  · rw [hr] at hret; simp [St.res] at hret
  · rw [hr] at hret ⊢
    rcases done_log hm.1 hst with ⟨_, h2⟩ | ⟨h1, _⟩
    · exact h2 hret
    · simp only [St.res] at hret; omega
  · rw [hr] at hret; simp [St.res] at hret

/-- **T3.**  If `auglag_minimize` returns a success code (> 0) or ROUNDOFF_LIMITED (-4), then `(x, *minf) = (e.x, e.f)` for a
    consumed own evaluation `e` (all of whose callbacks ran).  No exception: `*minf = +Inf` with the caller's `x0` can only
    come back with FORCED_STOP or another negative code of the subsidiary optimizer (see the two witnesses below). -/
theorem returned_pair_success (A : Arith) (c : Cfg) (evs : List Ev)
    (hret : (run A c evs).ret > 0 ∨ (run A c evs).ret = -4) :
    ∃ i e, i < (run A c evs).nevents ∧ evs[i]? = some e ∧ e.isEval = true ∧ e ∈ (run A c evs).log ∧
      (run A c evs).x = e.xv ∧ (run A c evs).minf = some e.fv := by
  rcases returned_pair A c evs with ⟨h, _⟩ | ⟨e, he, hx, hm⟩
  · exact absurd h (log_ne_nil_of_success A c evs hret)
  · obtain ⟨h1, _, i, hi, hie⟩ := log_mem_consumed A c evs he
    exact ⟨i, e, hi, hie, h1, he, hx, hm⟩

/-! ## T4 — the incumbent rule (C05) -/

/-- **T4, what the rule guarantees** (every return code, every `Arith`, NaN included).  If at least one own evaluation
    was processed, the returned pair belongs to a processed own evaluation `e` (`log = l1 ++ e :: l2`) and
    (1) if ANY processed own evaluation is feasible (within tolerance), `e` is feasible;
    (2) if `e` is feasible: no feasible own evaluation processed AFTER `e` has a smaller penalty or a smaller value
        (nothing is guaranteed about the feasible ones processed BEFORE `e`: `best_feasible_full_false`);
    (3) if `e` is not feasible: no processed own evaluation, before or after, has a smaller penalty. -/
theorem incumbent_rule (A : Arith) (c : Cfg) (evs : List Ev) (hne : (run A c evs).log ≠ []) :
    ∃ l1 e l2, (run A c evs).log = l1 ++ e :: l2 ∧ (run A c evs).x = e.xv ∧ (run A c evs).minf = some e.fv ∧
      (∀ e' ∈ (run A c evs).log, e'.feas A c = true → e.feas A c = true) ∧
      (e.feas A c = true → ∀ e' ∈ l2, e'.feas A c = true →
        F64.lt (e'.pen A c) (e.pen A c) = false ∧ F64.lt e'.fv e.fv = false) ∧
      (e.feas A c = false → ∀ e' ∈ (run A c evs).log, F64.lt (e'.pen A c) (e.pen A c) = false) := by
  obtain ⟨sf, ret, sh, mal, hr, hcore, _⟩ := run_final A c evs
  rcases hcore.2.2.2.1 with ⟨hl, _⟩ | ⟨l1, e, l2, hl, hx, hm, _, _, h1, h2, h3⟩
  · rw [hr] at hne; exact absurd hl hne
  · rw [hr]; exact ⟨l1, e, l2, hl, hx, by simp [St.res, hm], h1, h2, h3⟩

/-- the memory handed back satisfies the best-feasible-point invariant under the tie hypothesis -/
theorem best_final (A : Arith) (c : Cfg) (evs : List Ev) :
    ∃ sf ret short mal, run A c evs = sf.res ret short mal ∧ Inc A c sf ∧ (TieOn A c sf.log → Best A c sf) := by
  rcases run_cases A c evs with ⟨ph', s', hm, hr⟩ | ⟨pre, e, rest, php, sp, hes, hm, ⟨r, s', hst, hr⟩ | ⟨hst, hr⟩⟩
  · exact ⟨s', 0, true, false, hr, hm.1.1.2.2.2.1, hm.2.2⟩
  · refine ⟨s', r, false, false, hr, (core_done hm.1 hst).2.2.2.1, ?_⟩
    intro htie
    rcases step_done_shape hst with ⟨hph, _, _, ⟨_, _, hs'⟩ | ⟨_, _, hs', _⟩⟩ | ⟨_, x, f, u, fo, _, _, _, hs'⟩ |
      ⟨_, _, _, _, _, ⟨_, _, hs'⟩ | ⟨_, _, hs'⟩⟩
    · subst hs'; exact hm.2.2 htie
    · subst hs'; subst hph; exact best_procInit (inv_init_nil hm.1).2
    · subst hs'; exact hm.2.2 htie
    · subst hs'; exact hm.2.2 htie
    · subst hs'; exact best_proc hm.1.1.2.2.2.1 (hm.2.2 (tieOn_mono htie)) htie
  · exact ⟨sp, 0, false, true, hr, hm.1.1.2.2.2.1, hm.2.2⟩

/-- **T4, the best point (partial).**  If among the processed own evaluations no feasible one has a smaller penalty than
    another feasible one (`TieOn`; e.g. all tolerances are 0, so that every feasible point has penalty `+0`) and some
    processed own evaluation is feasible, then the returned point is a feasible processed own evaluation and NO feasible
    processed own evaluation has a value below `*minf` — for every return code, every `Arith`, NaN values included. -/
theorem best_feasible_partial (A : Arith) (c : Cfg) (evs : List Ev) (htie : TieOn A c (run A c evs).log)
    (hex : ∃ e ∈ (run A c evs).log, e.feas A c = true) :
    ∃ e ∈ (run A c evs).log, e.feas A c = true ∧ (run A c evs).x = e.xv ∧ (run A c evs).minf = some e.fv ∧
      ∀ e' ∈ (run A c evs).log, e'.feas A c = true → F64.lt e'.fv e.fv = false := by
  obtain ⟨sf, ret, sh, mal, hr, hinc, hbest⟩ := best_final A c evs
  obtain ⟨e1, he1, hf1⟩ := hex
  rw [hr] at htie he1 ⊢
  simp only [St.res] at htie he1 ⊢
  rcases hinc with ⟨hl, _⟩ | ⟨l1, e, l2, hl, hx, hm, _, hf, h1, _⟩
  · rw [hl] at he1; cases he1
  · have hfe : e.feas A c = true := h1 e1 he1 hf1
    refine ⟨e, by rw [hl]; simp, hfe, hx, by rw [hm], ?_⟩
    have := hbest htie (by rw [hf]; exact hfe)
    rw [hm] at this; exact this

/-- the tie hypothesis holds when every feasible processed own evaluation has penalty `+0` (tolerances 0 and an
    arithmetic with `0 + 0 = 0`) -/
theorem tieOn_of_zero_pen {A : Arith} {c : Cfg} {log : List Ev}
    (h : ∀ e ∈ log, e.feas A c = true → e.pen A c = F64.zero) : TieOn A c log := by
  intro e he e' he' hf hf'
  rw [h e he hf, h e' he' hf']; exact F64.lt_irrefl' _

theorem best_feasible_zero_pen (A : Arith) (c : Cfg) (evs : List Ev)
    (hz : ∀ e ∈ (run A c evs).log, e.feas A c = true → e.pen A c = F64.zero)
    (hex : ∃ e ∈ (run A c evs).log, e.feas A c = true) :
    ∃ e ∈ (run A c evs).log, e.feas A c = true ∧ (run A c evs).x = e.xv ∧ (run A c evs).minf = some e.fv ∧
      ∀ e' ∈ (run A c evs).log, e'.feas A c = true → F64.lt e'.fv e.fv = false :=
  best_feasible_partial A c evs (tieOn_of_zero_pen hz) hex

/-! ## T5 — stopval (C02) -/

/-- **T5.** `ret = 2` (NLOPT_MINF_MAX_REACHED / STOPVAL_REACHED) only from inside the acceptance branch of a loop pass:
    the returned pair is the LAST consumed event, an own evaluation that is feasible within tolerance, and
    `*minf < stopval` — STRICT `<` (auglag.c line 266: `fcur < stop->minf_max`). -/
theorem stopval_strict (A : Arith) (c : Cfg) (evs : List Ev) (hret : (run A c evs).ret = 2) :
    ∃ e, evs[(run A c evs).nevents - 1]? = some e ∧ 0 < (run A c evs).nevents ∧ e.isEval = true ∧
      e.feas A c = true ∧ (run A c evs).x = e.xv ∧ (run A c evs).minf = some e.fv ∧
      F64.lt e.fv c.stop.minfMax = true := by
  rcases run_cases A c evs with ⟨ph', s', hm, hr⟩ | ⟨pre, e, rest, php, sp, hes, hm, ⟨r, s', hst, hr⟩ | ⟨hst, hr⟩⟩
  · rw [hr] at hret; simp [St.res] at hret
  · rw [hr] at hret ⊢
    simp only [St.res] at hret ⊢
    subst hret
    rcases step_done_shape hst with ⟨_, _, _, ⟨h, _⟩ | ⟨h, _⟩⟩ | ⟨_, x, f, u, fo, _, h, _⟩ |
      ⟨sret, xc, _, he, _, ⟨h, _⟩ | ⟨hcb, hv, hs'⟩⟩
    · omega
    · omega
    · omega
    · omega
    · subst hs'
      have hcnt : (proc A c sp e).cnt = pre.length + 1 := by simp [hm.1.1.1]
      rcases verdict_some hv with ⟨h1, h2⟩ | ⟨_, ⟨h, _⟩ | ⟨h, _⟩ | ⟨h, _⟩ | ⟨h, _⟩⟩
      · rcases accRet_cases A c sp e with h3 | ⟨hacc, hfe, ⟨_, hlt⟩ | h3 | h3⟩
        · exact absurd h3 h2
        · refine ⟨e, by simp [hes, hm.1.1.1], by omega, he, hfe, by simp [proc, hacc], by simp [proc, hacc], hlt⟩
        · omega
        · omega
      · omega
      · omega
      · omega
      · omega
  · rw [hr] at hret; simp [St.res] at hret

/-- T5 in the short form of the task statement -/
theorem stopval_minf_lt (A : Arith) (c : Cfg) (evs : List Ev) (hret : (run A c evs).ret = 2) :
    ∃ m, (run A c evs).minf = some m ∧ F64.lt m c.stop.minfMax = true := by
  obtain ⟨e, _, _, _, _, _, h5, h6⟩ := stopval_strict A c evs hret
  exact ⟨e.fv, h5, h6⟩

/-! ## T2 — forced stop (C04) -/

theorem effStop_flag {s : St} (e : Ev) (h : s.flag = true) : effStop s e = 1 := by simp [effStop, h]

/-- **T2, own evaluations.**  If the run has not returned on `pre` and the forced-stop flag is seen during the own
    evaluation `e` that follows (`e.stopNo ≠ 0`; for the evaluation before the loop: by one of the tests that follow a
    callback), the run ends there: exactly one more evaluation is counted and no further event is consumed.  The code is
    FORCED_STOP and `x`, `*minf` are left as they were whenever the flag is seen right after a callback (every stop raised
    from inside the objective or a constraint).  A flag seen only by the late test of a loop pass (asynchronous stop after
    the last callback) can be overridden by the codes of the acceptance branch (2, 3, 4), nothing else. -/
theorem forced_stop_own (A : Arith) (c : Cfg) (pre : List Ev) (e : Ev) (rest : List Ev)
    (hshort : (run A c pre).short = true) (he : e.isEval = true) (hst : e.stopNo ≠ 0)
    (hloop : pre ≠ [] ∨ cbStop c e.stopNo = true)
    (hnm : (run A c (pre ++ e :: rest)).malformed = false) :
    (run A c (pre ++ e :: rest)).nevents = pre.length + 1 ∧ (run A c (pre ++ e :: rest)).short = false ∧
    (run A c (pre ++ e :: rest)).nevals = (run A c pre).nevals + 1 ∧
    ((run A c (pre ++ e :: rest)).ret = -5 ∨ (run A c (pre ++ e :: rest)).ret = 2 ∨
      (run A c (pre ++ e :: rest)).ret = 3 ∨ (run A c (pre ++ e :: rest)).ret = 4) ∧
    (cbStop c e.stopNo = true → (run A c (pre ++ e :: rest)).ret = -5 ∧
      (run A c (pre ++ e :: rest)).x = (run A c pre).x ∧ (run A c (pre ++ e :: rest)).minf = (run A c pre).minf) := by
  obtain ⟨ph, s, hm, hr, hgo⟩ := short_state A c pre hshort
  have hcnt : s.cnt = pre.length := hm.1.1.1
  have hinit : ph = .init → cbStop c e.stopNo = true := by
    intro hph
    subst hph
    rcases hloop with h | h
    · exact absurd (inv_init_nil hm.1).1 h
    · exact h
  rw [hgo (e :: rest)] at hnm ⊢
  rw [hr]
  cases hv : step A c ph s e with
  | bad => simp [go, hv, St.res] at hnm
  | cont ph' s' =>
    exfalso
    rcases step_cont_shape hv with ⟨hph, _, _, _, _, hcb, _⟩ | ⟨_, r, x, f, u, fo, hee, _⟩ | ⟨sret, xc, _, _, _, _, _, hcb, hvd⟩
    · rw [hinit hph] at hcb; cases hcb
    · subst hee; cases he
    · have h0 := (verdict_none hvd).2.1
      rw [(effStop_of_not_cb hcb).2] at h0
      exact hst h0
  | done r s' =>
    simp only [go, hv, St.res]
    rcases step_done_shape hv with ⟨hph, _, _, ⟨hr5, _, hs'⟩ | ⟨_, hcb, _, _⟩⟩ | ⟨_, x, f, u, fo, hee, _⟩ |
      ⟨sret, xc, _, _, _, ⟨hr5, _, hs'⟩ | ⟨hcb, hvd, hs'⟩⟩
    · subst hs'; subst hr5
      exact ⟨by simp [hcnt], trivial, rfl, Or.inl rfl, fun _ => ⟨rfl, rfl, rfl⟩⟩
    · rw [hinit hph] at hcb; cases hcb
    · subst hee; cases he
    · subst hs'; subst hr5
      exact ⟨by simp [hcnt], trivial, rfl, Or.inl rfl, fun _ => ⟨rfl, rfl, rfl⟩⟩
    · subst hs'
      have heq := (effStop_of_not_cb hcb).2
      refine ⟨by simp [hcnt], trivial, rfl, ?_, ?_⟩
      · rcases verdict_some hvd with ⟨h1, h2⟩ | ⟨_, ⟨h, _⟩ | ⟨_, h, _⟩ | ⟨_, h, _⟩ | ⟨_, h, _⟩⟩
        · rcases accRet_cases A c s e with h3 | ⟨_, _, ⟨h3, _⟩ | h3 | h3⟩
          · exact absurd h3 h2
          · right; left; omega
          · right; right; left; omega
          · right; right; right; omega
        · exact Or.inl h
        · rw [heq] at h; exact absurd h hst
        · rw [heq] at h; exact absurd h hst
        · rw [heq] at h; exact absurd h hst
      · intro hcb'
        rw [heq, hcb'] at hcb; cases hcb

/-- **T2, a subsidiary run that reports an error.**  A negative code other than ROUNDOFF_LIMITED (-4) — in particular
    FORCED_STOP (-5), which is what a subsidiary optimizer returns when the flag is raised during one of its evaluations —
    ends the run at once with that code: no further event is consumed, `x` and `*minf` keep the incumbent. -/
theorem forced_stop_sub_break (A : Arith) (c : Cfg) (pre : List Ev) (ret : Int) (x : List F64) (f : F64) (u : Nat)
    (fo : Bool) (rest : List Ev) (hshort : (run A c pre).short = true) (hr : ret < 0 ∧ ret ≠ -4)
    (hnm : (run A c (pre ++ Ev.sub ret x f u fo :: rest)).malformed = false) :
    (run A c (pre ++ Ev.sub ret x f u fo :: rest)).ret = ret ∧
    (run A c (pre ++ Ev.sub ret x f u fo :: rest)).nevents = pre.length + 1 ∧
    (run A c (pre ++ Ev.sub ret x f u fo :: rest)).short = false ∧
    (run A c (pre ++ Ev.sub ret x f u fo :: rest)).nevals = (run A c pre).nevals + u ∧
    (run A c (pre ++ Ev.sub ret x f u fo :: rest)).x = (run A c pre).x ∧
    (run A c (pre ++ Ev.sub ret x f u fo :: rest)).minf = (run A c pre).minf := by
  obtain ⟨ph, s, hm, hrp, hgo⟩ := short_state A c pre hshort
  have hcnt : s.cnt = pre.length := hm.1.1.1
  rw [hgo (Ev.sub ret x f u fo :: rest)] at hnm ⊢
  rw [hrp]
  cases hv : step A c ph s (Ev.sub ret x f u fo) with
  | bad => simp [go, hv, St.res] at hnm
  | cont ph' s' =>
    exfalso
    rcases step_cont_shape hv with ⟨_, _, _, he, _⟩ | ⟨_, r', x', f', u', fo', hee, _, _, hnr⟩ | ⟨_, _, _, _, _, he, _⟩
    · cases he
    · cases hee; exact hnr hr
    · cases he
  | done r s' =>
    simp only [go, hv, St.res]
    rcases step_done_shape hv with ⟨_, he, _⟩ | ⟨_, x', f', u', fo', hee, _, _, hs'⟩ | ⟨_, _, _, he, _⟩
    · cases he
    · cases hee; subst hs'
      exact ⟨rfl, by simp [hcnt], trivial, rfl, rfl, rfl⟩
    · cases he

/-- **T2, a subsidiary run that comes back with the flag set but WITHOUT an error code** (`ret ≥ 0` or -4).  The loop
    does not look at the flag before its own evaluation: exactly ONE MORE event is consumed — the user's objective is called
    once more (`nevals` + 1) after the stop was raised — and then FORCED_STOP is returned by the test that follows this
    call; the constraints are not evaluated, `x` and `*minf` keep the incumbent. -/
theorem forced_stop_sub_continue (A : Arith) (c : Cfg) (pre : List Ev) (ret : Int) (x : List F64) (f : F64) (u : Nat)
    (e2 : Ev) (rest : List Ev) (hshort : (run A c pre).short = true) (hr : ¬ (ret < 0 ∧ ret ≠ -4))
    (hnm : (run A c (pre ++ Ev.sub ret x f u true :: e2 :: rest)).malformed = false) :
    (run A c (pre ++ Ev.sub ret x f u true :: e2 :: rest)).ret = -5 ∧
    (run A c (pre ++ Ev.sub ret x f u true :: e2 :: rest)).nevents = pre.length + 2 ∧
    (run A c (pre ++ Ev.sub ret x f u true :: e2 :: rest)).short = false ∧
    (run A c (pre ++ Ev.sub ret x f u true :: e2 :: rest)).nevals = (run A c pre).nevals + u + 1 ∧
    (run A c (pre ++ Ev.sub ret x f u true :: e2 :: rest)).x = (run A c pre).x ∧
    (run A c (pre ++ Ev.sub ret x f u true :: e2 :: rest)).minf = (run A c pre).minf ∧
    e2.isEval = true ∧ e2.xv = x := by
  obtain ⟨ph, s, hm, hrp, hgo⟩ := short_state A c pre hshort
  have hcnt : s.cnt = pre.length := hm.1.1.1
  rw [hgo (Ev.sub ret x f u true :: e2 :: rest)] at hnm ⊢
  rw [hrp]
  cases hv : step A c ph s (Ev.sub ret x f u true) with
  | bad => simp [go, hv, St.res] at hnm
  | done r s' =>
    exfalso
    rcases step_done_shape hv with ⟨_, he, _⟩ | ⟨_, x', f', u', fo', hee, h1, h2, _⟩ | ⟨_, _, _, he, _⟩
    · cases he
    · cases hee; exact hr ⟨h1, h2⟩
    · cases he
  | cont ph1 s1 =>
    rcases step_cont_shape hv with ⟨_, _, _, he, _⟩ | ⟨_, r', x', f', u', fo', hee, hph1, hs1, _⟩ | ⟨_, _, _, _, _, he, _⟩
    · cases he
    · cases hee; subst hph1; subst hs1
      have hflag : (afterSub c s u true).flag = true := by simp
      simp only [go, hv] at hnm ⊢
      cases hv2 : step A c (.eval ret x) (afterSub c s u true) e2 with
      | bad => simp [hv2, St.res] at hnm
      | cont ph2 s2 =>
        exfalso
        rcases step_cont_shape hv2 with ⟨h, _⟩ | ⟨h, _⟩ | ⟨_, _, _, _, _, _, _, hcb, _⟩
        · cases h
        · cases h
        · rw [effStop_flag e2 hflag, cbStop_one] at hcb; cases hcb
      | done r2 s2 =>
        simp only [St.res]
        rcases step_done_shape hv2 with ⟨h, _⟩ | ⟨h, _⟩ | ⟨sret, xc, hph, he2, hx2, ⟨hr5, _, hs2⟩ | ⟨hcb, _⟩⟩
        · cases h
        · cases h
        · cases hph; subst hs2; subst hr5
          exact ⟨rfl, by simp [hcnt], trivial, by simp, rfl, rfl, he2, hx2⟩
        · rw [effStop_flag e2 hflag, cbStop_one] at hcb; cases hcb
    · cases he

/-! ## Further facts -/

/-- the result codes `auglag_minimize` can return (0 is the placeholder of a `short` or malformed run): FORCED_STOP,
    MAXEVAL_REACHED, STOPVAL, FTOL (also the `ICM == 0` exit), XTOL, ROUNDOFF_LIMITED, or the negative code with which the
    last consumed event, a subsidiary run, failed -/
theorem ret_codes (A : Arith) (c : Cfg) (evs : List Ev) :
    (run A c evs).ret = -5 ∨ (run A c evs).ret = 5 ∨ (run A c evs).ret = 2 ∨ (run A c evs).ret = 3 ∨
    (run A c evs).ret = 4 ∨ (run A c evs).ret = -4 ∨
    ((run A c evs).ret = 0 ∧ ((run A c evs).short = true ∨ (run A c evs).malformed = true)) ∨
    ((run A c evs).ret < 0 ∧ ∃ x f u fo, evs[(run A c evs).nevents - 1]? = some (Ev.sub (run A c evs).ret x f u fo)) := by
  rcases run_cases A c evs with ⟨ph', s', hm, hr⟩ | ⟨pre, e, rest, php, sp, hes, hm, ⟨r, s', hst, hr⟩ | ⟨hst, hr⟩⟩
  · rw [hr]; simp [St.res]
  · rw [hr]; simp only [St.res]
    rcases step_done_shape hst with ⟨_, _, _, ⟨h, _⟩ | ⟨h, _⟩⟩ | ⟨_, x, f, u, fo, he, h1, h2, hs'⟩ |
      ⟨sret, xc, _, _, _, ⟨h, _⟩ | ⟨_, hv, _⟩⟩
    · exact Or.inl h
    · exact Or.inr (Or.inl h)
    · subst hs'; subst he
      refine Or.inr (Or.inr (Or.inr (Or.inr (Or.inr (Or.inr (Or.inr ⟨h1, x, f, u, fo, ?_⟩))))))
      simp [hes, hm.1.1.1]
    · exact Or.inl h
    · rcases verdict_some hv with ⟨h1, h2⟩ | ⟨_, ⟨h, _⟩ | ⟨h, _⟩ | ⟨h, _⟩ | ⟨h, _⟩⟩
      · rcases accRet_cases A c sp e with h3 | ⟨_, _, ⟨h3, _⟩ | h3 | h3⟩
        · exact absurd h3 h2
        · right; right; left; omega
        · right; right; right; left; omega
        · right; right; right; right; left; omega
      · exact Or.inl h
      · exact Or.inr (Or.inr (Or.inr (Or.inr (Or.inr (Or.inl h)))))
      · exact Or.inr (Or.inl h)
      · exact Or.inr (Or.inr (Or.inr (Or.inl h)))
  · rw [hr]; simp [St.res]

/-- NLOPT_SUCCESS (1) is never returned: every exit of the loop sets another code -/
theorem ret_ne_success (A : Arith) (c : Cfg) (evs : List Ev) : (run A c evs).ret ≠ 1 := by
  rcases ret_codes A c evs with h | h | h | h | h | h | ⟨h, _⟩ | ⟨h, _⟩ <;> omega

/-- a `short` run consumed every event -/
theorem short_consumes_all (A : Arith) (c : Cfg) (evs : List Ev) (h : (run A c evs).short = true) :
    (run A c evs).nevents = evs.length ∧ (run A c evs).malformed = false ∧ (run A c evs).ret = 0 := by
  obtain ⟨ph, s, hm, hr, _⟩ := short_state A c evs h
  rw [hr]; exact ⟨hm.1.1.1, rfl, rfl⟩

/-- a run that returned (or is malformed) does not look at later events -/
theorem go_prefix (A : Arith) (c : Cfg) (more : List Ev) : ∀ (evs : List Ev) (ph : Phase) (s : St),
    (go A c ph s evs).short = false → go A c ph s (evs ++ more) = go A c ph s evs := by
  intro evs
  induction evs with
  | nil => intro ph s h; simp [go, St.res] at h
  | cons e es ih =>
    intro ph s h
    cases hv : step A c ph s e with
    | bad => simp [go, hv]
    | done r s' => simp [go, hv]
    | cont ph' s' =>
      simp only [go, hv] at h
      simp only [List.cons_append, go, hv]
      exact ih ph' s' h

theorem run_prefix (A : Arith) (c : Cfg) (evs more : List Ev) (h : (run A c evs).short = false) :
    run A c (evs ++ more) = run A c evs := go_prefix A c more evs _ _ h

/-- the budget handed to a subsidiary run is `maxeval - nevals` at that moment, and the run records it -/
theorem budget_eq (A : Arith) (c : Cfg) (pre : List Ev) (ret : Int) (x : List F64) (f : F64) (u : Nat) (fo : Bool)
    (hshort : (run A c pre).short = true)
    (hnm : (run A c (pre ++ [Ev.sub ret x f u fo])).malformed = false) :
    (run A c (pre ++ [Ev.sub ret x f u fo])).subs =
      (run A c pre).subs ++ [(c.stop.maxeval - ((run A c pre).nevals : Int), u)] := by
  obtain ⟨ph, s, hm, hrp, hgo⟩ := short_state A c pre hshort
  rw [hgo [Ev.sub ret x f u fo]] at hnm ⊢
  rw [hrp]
  cases hv : step A c ph s (Ev.sub ret x f u fo) with
  | bad => simp [go, hv, St.res] at hnm
  | cont ph' s' =>
    rcases step_cont_shape hv with ⟨_, _, _, he, _⟩ | ⟨_, r', x', f', u', fo', hee, _, hs', _⟩ | ⟨_, _, _, _, _, he, _⟩
    · cases he
    · cases hee; subst hs'; simp [go, hv, St.res]
    · cases he
  | done r s' =>
    rcases step_done_shape hv with ⟨_, he, _⟩ | ⟨_, x', f', u', fo', hee, _, _, hs'⟩ | ⟨_, _, _, he, _⟩
    · cases he
    · cases hee; subst hs'; simp [go, hv, St.res]
    · cases he

/-- **Without penalised constraints the outer loop makes exactly one pass**: `ICM` stays 0, so after the first
    subsidiary run and the re-evaluation of its result the driver returns (FTOL_REACHED from the `ICM == 0` exit unless
    another test fires first).  At most two events are consumed. -/
theorem unconstrained_one_pass (A : Arith) (c : Cfg) (evs : List Ev) (hu : constrained c = false) :
    (run A c evs).nevents ≤ 2 := by
  have h' : c.htol.length + c.gtol.length = 0 := by
    unfold constrained ncb at hu
    have := of_decide_eq_false hu
    omega
  have h1 : c.htol = [] := List.eq_nil_of_length_eq_zero (by omega)
  have h2 : c.gtol = [] := List.eq_nil_of_length_eq_zero (by omega)
  have hicm : ∀ (s : St) (e : Ev), F64.feq (mult A c s e).1 F64.zero = true := by
    intro s e; simp [mult, h1, h2, multObjs]; decide
  have hstart : startPhase c = .sub := by simp [startPhase, hu]
  unfold run
  rw [hstart]
  cases evs with
  | nil => simp [go, St.res, St.init]
  | cons e1 es =>
    cases hv : step A c .sub (St.init c) e1 with
    | bad => simp only [go, hv, St.res]; simp [St.init]
    | done r s' =>
      simp only [go, hv, St.res]
      rcases step_done_shape hv with ⟨h, _⟩ | ⟨_, x, f, u, fo, _, _, _, hs'⟩ | ⟨_, _, h, _⟩
      · cases h
      · subst hs'; simp [St.init]
      · cases h
    | cont ph1 s1 =>
      simp only [go, hv]
      rcases step_cont_shape hv with ⟨h, _⟩ | ⟨_, r, x, f, u, fo, _, hph1, hs1, _⟩ | ⟨_, _, h, _⟩
      · cases h
      · subst hph1; subst hs1
        cases es with
        | nil => simp [go, St.res, St.init]
        | cons e2 es' =>
          cases hv2 : step A c (.eval r x) (afterSub c (St.init c) u fo) e2 with
          | bad => simp only [go, hv2, St.res]; simp [St.init]
          | done r2 s2 =>
            simp only [go, hv2, St.res]
            rcases step_done_shape hv2 with ⟨h, _⟩ | ⟨h, _⟩ | ⟨_, _, _, _, _, ⟨_, _, hs2⟩ | ⟨_, _, hs2⟩⟩
            · cases h
            · cases h
            · subst hs2; simp [St.init]
            · subst hs2; simp [St.init]
          | cont ph2 s2 =>
            exfalso
            rcases step_cont_shape hv2 with ⟨h, _⟩ | ⟨h, _⟩ | ⟨_, _, _, _, _, _, _, _, hvd⟩
            · cases h
            · cases h
            · have := (verdict_none hvd).2.2.2.2
              rw [hicm] at this; cases this
      · cases h

/-! ## Concrete witnesses and non-vacuity -/

def half : F64 := ⟨0x3FE0000000000000⟩
def quarter : F64 := ⟨0x3FD0000000000000⟩
def four : F64 := ⟨0x4010000000000000⟩
def negZero : F64 := ⟨0x8000000000000000⟩

/-- An INCOMPLETE (table-based) IEEE arithmetic for the concrete examples: every value it returns other than the "don't
    know" NaN is the correctly rounded IEEE-754 result:
    `0 + b = b`, `a + 0 = a` (with `+0 + -0 = +0`); `a - 0 = a`, `0 - b = -b`, `a - a = +0` (finite a);
    `1 * b = b`, `a * 1 = a`, `2 * 2 = 4`; `a / 1 = a`, `±0 / b = ±0` (b nonzero, not NaN); everything else: NaN.
    In the examples below a "don't know" only ever reaches `rho`, `mu` and `ICM` in places where any non-zero IEEE value
    leads to the same branches; every example was replayed with the hardware arithmetic (`nlopt_model auglag`) and on
    `auglag_minimize` itself (replay/witnesses.txt, replay/witnesses.c). -/
def exArith : Arith :=
  { add := fun a b => if a = F64.zero then (if b = negZero then F64.zero else b)
                      else if b = F64.zero then (if a = negZero then F64.zero else a) else F64.qnan
    sub := fun a b => if b = F64.zero then a else if a = F64.zero then F64.neg b
                      else if a = b ∧ a.isFinite then F64.zero else F64.qnan
    mul := fun a b => if a = F64.one then b else if b = F64.one then a
                      else if a = two ∧ b = two then four else F64.qnan
    div := fun a b => if b = F64.one then a
                      else if a.mag = 0 ∧ 0 < b.mag ∧ b.mag ≤ F64.infMag then (if a.sign = b.sign then F64.zero else negZero)
                      else F64.qnan
    sqrt := fun _ => F64.qnan, tanh := fun _ => F64.qnan, atanh := fun _ => F64.qnan
    pow := fun _ _ => F64.qnan, log := fun _ => F64.qnan, exp := fun _ => F64.qnan
    ofInt := fun _ => F64.qnan, toInt := fun _ => 0 }

def stop0 : Stopping :=
  { n := 1, minfMax := F64.negInf, ftolRel := F64.zero, ftolAbs := F64.zero, xtolRel := F64.zero, xtolAbs := none,
    xWeights := none, nevals := 0, maxeval := 0, maxtime := F64.zero, start := F64.zero, forceStop := 0 }

/-- n = 1, x0 = 0, no penalised constraints -/
def cfgU (maxeval : Int) : Cfg := { n := 1, x0 := [F64.zero], stop := { stop0 with maxeval := maxeval } }

/-- n = 1, x0 = 0, one scalar inequality constraint `g(x) <= 0` with tolerance `tol` -/
def cfgG (tol : F64) (maxeval : Int) : Cfg :=
  { n := 1, x0 := [F64.zero], gtol := [[tol]], stop := { stop0 with maxeval := maxeval } }

/-- **The bound of T1 is attained**: no constraints, maxeval = 1; the subsidiary run uses its whole budget (1), the own
    evaluation that follows is evaluation number 2 = maxeval + 1; MAXEVAL_REACHED. -/
def evsBound : List Ev := [.sub 5 [F64.one] two 1 false, .eval [F64.one] two 0 [] []]

theorem nevals_bound_attained :
    (cfgU 1).stop.maxeval > 0 ∧ SubsRespectBudget exArith (cfgU 1) evsBound ∧
    ((run exArith (cfgU 1) evsBound).nevals : Int) = (cfgU 1).stop.maxeval + 1 ∧ (run exArith (cfgU 1) evsBound).ret = 5 := by
  have hrun : run exArith (cfgU 1) evsBound =
      ⟨5, 2, 2, [F64.one], some two, false, false, [(1, 1)], [.eval [F64.one] two 0 [] []]⟩ := by decide
  refine ⟨by decide, ?_, by rw [hrun]; decide, by rw [hrun]⟩
  unfold SubsRespectBudget; rw [hrun]; decide

/-- **Without the hypothesis of T1 nothing bounds the count**: a subsidiary optimizer that ignores the limit it was
    given makes `nevals` as large as it likes (here it also fails with -1, so no own evaluation follows). -/
theorem nevals_unbounded_without_respect (A : Arith) (k : Nat) :
    (run A (cfgU 1) [.sub (-1) [] F64.zero k false]).nevals = k ∧
    (run A (cfgU 1) [.sub (-1) [] F64.zero k false]).ret = -1 := by
  have hs : startPhase (cfgU 1) = .sub := by decide
  simp [run, hs, go, step, stepSub, St.res, St.init]

/-- non-vacuity of `budgets_pos` / `budget_eq`: the budget of the run above is `maxeval - 0 = 1` -/
example : (run exArith (cfgU 1) evsBound).subs = [(1, 1)] := by decide

/-- non-vacuity of `forced_stop_own` (flag raised in the objective callback of the evaluation before the loop):
    FORCED_STOP after one evaluation, `(x, *minf) = (x0, +Inf)` -/
example : (run exArith (cfgG F64.zero 10) []).short = true ∧
    run exArith (cfgG F64.zero 10) [.eval [F64.zero] F64.one 1 [] []] =
      ⟨-5, 1, 1, [F64.zero], some F64.posInf, false, false, [], []⟩ := by decide

/-- **T3, first way to get `(x0, +Inf)` back**: FORCED_STOP during the first own evaluation (the value 1 returned by the
    objective at `x0` is discarded) -/
theorem returned_initial_possible_forced :
    (run exArith (cfgG F64.zero 10) [.eval [F64.zero] F64.one 1 [] []]).ret = -5 ∧
    (run exArith (cfgG F64.zero 10) [.eval [F64.zero] F64.one 1 [] []]).x = (cfgG F64.zero 10).x0 ∧
    (run exArith (cfgG F64.zero 10) [.eval [F64.zero] F64.one 1 [] []]).minf = some F64.posInf := by decide

/-- **T3, second way**: no penalised constraints and the first subsidiary run fails (here INVALID_ARGS, after 3
    evaluations): `auglag_minimize` returns that code with `*minf = +Inf` and the caller's `x0`, although the objective
    was evaluated -/
theorem returned_initial_possible_subfail :
    run exArith (cfgU 10) [.sub (-2) [F64.one] two 3 false] =
      ⟨-2, 3, 1, [F64.zero], some F64.posInf, false, false, [(10, 3)], []⟩ := by decide

/-- **A flag raised after the last callback of the evaluation before the loop is not seen** by `auglag_minimize`: the
    loop is entered and the subsidiary optimizer is called with the flag set (`short`: the run waits for that event).
    One inequality constraint, so the tests of this event are number 1 and 2; `stop = 3` is the asynchronous case. -/
theorem forced_stop_init_late_goes_on :
    (run exArith (cfgG F64.zero 10) [.eval [F64.zero] F64.one 3 [] [[F64.one]]]).short = true ∧
    (run exArith (cfgG F64.zero 10) [.eval [F64.zero] F64.one 3 [] [[F64.one]]]).nevents = 1 := by decide

/-- non-vacuity of `forced_stop_sub_continue`: the subsidiary run returns SUCCESS with the flag set; the objective is
    called once more (evaluation 5), then FORCED_STOP with `(x0, +Inf)` -/
example : run exArith (cfgU 10) [.sub 1 [F64.one] two 4 true, .eval [F64.one] two 0 [] []] =
    ⟨-5, 5, 2, [F64.zero], some F64.posInf, false, false, [(10, 4)], []⟩ := by decide

/-- non-vacuity of `forced_stop_sub_break` -/
example : run exArith (cfgU 10) [.sub (-5) [F64.one] two 4 true, .eval [F64.one] two 0 [] []] =
    ⟨-5, 4, 1, [F64.zero], some F64.posInf, false, false, [(10, 4)], []⟩ := by decide

/-- non-vacuity of T5: stopval = 4, the re-evaluated point has f = 2 < 4 -/
example : run exArith { cfgU 10 with stop := { stop0 with maxeval := 10, minfMax := four } }
    [.sub 1 [F64.one] two 4 false, .eval [F64.one] two 0 [] []] =
    ⟨2, 5, 2, [F64.one], some two, false, false, [(10, 4)], [.eval [F64.one] two 0 [] []]⟩ := by decide

/-- the worked example of Model/AuglagDriver.lean: the `ICM == 0` exit (FTOL_REACHED) -/
example : (run exArith (cfgG F64.zero 10)
    [.eval [F64.zero] F64.one 0 [] [[F64.one]], .sub 4 [F64.one] two 5 false, .eval [F64.one] two 0 [] [[F64.negOne]]]).ret = 3 ∧
  (run exArith (cfgG F64.zero 10)
    [.eval [F64.zero] F64.one 0 [] [[F64.one]], .sub 4 [F64.one] two 5 false, .eval [F64.one] two 0 [] [[F64.negOne]]]).nevals = 7 := by
  decide

/-- a malformed event list: a subsidiary run where the evaluation before the loop is due -/
example : (run exArith (cfgG F64.zero 10) [.sub 1 [F64.one] two 4 false]).malformed = true := by decide

/-- one inequality constraint with tolerance 1, maxeval = 3:
    1 (before the loop): x = 0, f = 1, g = 0.5: within tolerance, penalty 0.5 — recorded;
    2: the subsidiary run returns SUCCESS at x = 1 after 1 evaluation;
    3: x = 1, f = 2, g = 0.25: within tolerance, penalty 0.25 < 0.5 — ACCEPTED although f is larger. -/
def evsPen : List Ev :=
  [.eval [F64.zero] F64.one 0 [] [[half]], .sub 1 [F64.one] F64.zero 1 false, .eval [F64.one] two 0 [] [[quarter]]]

/-- the run of that witness: MAXEVAL_REACHED after 3 evaluations with `x = [1]`, `*minf = 2` -/
theorem evsPen_run : run exArith (cfgG F64.one 3) evsPen =
    ⟨5, 3, 3, [F64.one], some two, false, false, [(2, 1)],
      [.eval [F64.zero] F64.one 0 [] [[half]], .eval [F64.one] two 0 [] [[quarter]]]⟩ := by decide

/-- **T4 is FALSE without the tie hypothesis**: "on a success return no feasible processed own evaluation has a value
    below `*minf`" fails.  Replay on the C library: NLOPT_LN_AUGLAG (or any AUGLAG variant), n = 1, one inequality
    constraint with tolerance 1, maxeval = 3, x0 = 0; make the callbacks return f = 1, g = 0.5 at the first evaluation (x0),
    let the subsidiary optimizer make one evaluation and stop at another point x1, and return f = 2, g = 0.25 at the
    re-evaluation of x1.  Both points are feasible within tolerance; the rule `penalty < minf_penalty || fcur < *minf`
    replaces the incumbent (x0, 1) by (x1, 2) because 0.25 < 0.5.  The run returns MAXEVAL_REACHED with `*minf = 2` although
    the feasible point x0 with f = 1 was evaluated (and recorded) before.  With tolerance 0 this cannot happen
    (`best_feasible_zero_pen`). -/
theorem best_feasible_full_false :
    ¬ (∀ (A : Arith) (c : Cfg) (evs : List Ev), (run A c evs).ret > 0 →
        ∀ m, (run A c evs).minf = some m → ∀ e' ∈ (run A c evs).log, e'.feas A c = true → F64.lt e'.fv m = false) := by
  intro h
  have := h exArith (cfgG F64.one 3) evsPen (by rw [evsPen_run]; decide) two (by rw [evsPen_run])
    (.eval [F64.zero] F64.one 0 [] [[half]]) (by rw [evsPen_run]; simp) (by decide)
  revert this; decide

/-- in the same run the monotonicity of `*minf` fails as well: after the first event `*minf = 1`, at the end `*minf = 2` -/
theorem minf_not_monotone :
    (run exArith (cfgG F64.one 3) (evsPen.take 1)).minf = some F64.one ∧
    (run exArith (cfgG F64.one 3) evsPen).minf = some two := by decide

/-- non-vacuity of `best_feasible_partial` / `best_feasible_zero_pen`: tolerance 0, two feasible points (g = 0 and g = -1,
    penalty +0 both), the second with the smaller value is returned -/
example : (run exArith (cfgG F64.zero 3)
    [.eval [F64.zero] two 0 [] [[F64.zero]], .sub 1 [F64.one] F64.zero 1 false, .eval [F64.one] F64.one 0 [] [[F64.negOne]]]).minf
      = some F64.one ∧
    TieOn exArith (cfgG F64.zero 3) (run exArith (cfgG F64.zero 3)
    [.eval [F64.zero] two 0 [] [[F64.zero]], .sub 1 [F64.one] F64.zero 1 false, .eval [F64.one] F64.one 0 [] [[F64.negOne]]]).log := by
  refine ⟨by decide, ?_⟩
  apply tieOn_of_zero_pen
  decide

/-- **A NaN inequality-constraint value counts as "no violation"** in `penalty` and in `ICM` (`fci > 0 ? fci : 0` and
    `MAX(fci, -mu/rho)` are both false-on-NaN), while `feasible` is false.  One inequality constraint with tolerance 0:
    1 (before the loop): x = 0, f = 1, g = 0.5: infeasible, penalty 0.5 — recorded;
    2: the subsidiary run returns SUCCESS at x = 1;
    3: x = 1, f = 2, g = NaN: infeasible, penalty +0 < 0.5 — ACCEPTED as the better infeasible point; `ICM = 0`, so the
       loop is left with FTOL_REACHED: "converged" at a point whose constraint value is NaN.
    (Same result with the hardware arithmetic and on the C code: replay/witnesses.txt.) -/
theorem nan_inequality_accepted :
    run exArith (cfgG F64.zero 10)
      [.eval [F64.zero] F64.one 0 [] [[half]], .sub 1 [F64.one] F64.zero 1 false, .eval [F64.one] two 0 [] [[F64.qnan]]] =
    ⟨3, 3, 3, [F64.one], some two, false, false, [(9, 1)],
      [.eval [F64.zero] F64.one 0 [] [[half]], .eval [F64.one] two 0 [] [[F64.qnan]]]⟩ := by decide

end Nlopt.DrvAuglag
