import NloptModel.Lemmas.IsresAlgLemmas
import NloptModel.Props.DrvIsres
import NloptModel.Props.Wrap
import NloptModel.Props.E2EEsch
import NloptModel.Props.E2ECrs
/-!
# ISRES end to end (bound-constrained case): from the control-flow theorems of `IsresDrv.run` to statements about the
# TRACE of real callback invocations of the machine `IsresAlg.mk A P c`, and through the wrapper stack of `nlopt_optimize`

Layer 1 (`Props/DrvIsres.lean`): theorems about `IsresDrv.run A c evs` for an arbitrary event list.
Layer 2 (`Props/Wrap.lean`): theorems about `Nlopt.optimize` for an ARBITRARY algorithm machine.
This file connects them for ISRES (`NLOPT_GN_ISRES`, algorithm 35) WITHOUT nonlinear constraints, following
`Props/E2ECrs.lean` / `Props/E2EEsch.lean`.

SCOPE: the machine `IsresAlg.mk` issues one objective query per population member (see Model/IsresAlg.lean); it is
`isres_minimize` when `m = p = 0`.  The refinement and the statements that do not read the constraints hold for every
configuration `c` of the machine; the statements named `_nocons` carry `c.gtol = []`, `c.htol = []` (machine level) /
`v.fc = []`, `v.h = []` (user level: no constraint was added to the object).  The lifted theorems (`optimize_isres_*`)
are ALL named `_nocons` and all carry `hnc`, because the machine is a model of the C code only then — also where the
proof does not use it.

* `isres_refines` (R): every returned run of `IsresAlg.mk A P c` — EVERY arithmetic `A`, proposer `P`, environment `E`,
  fuel, start state — is a returned (`short = false`) run of `IsresDrv.run A c` on the events of its trace, with the same
  `ret`, `x`, `*minf`, evaluation count = trace length; every query is an objective evaluation without gradient, the
  first one at `c.x0`.
* E1 `e2e_evals_le_maxeval`, E2 `e2e_forced_stop`, E3 `e2e_returned_pair_partial` (every code, every `c`) /
  `e2e_returned_pair_nocons` (success code), E4 `e2e_best_no_better_nocons` (EVERY code; no NaN; the invocation that
  raised the stop excepted), E5 `e2e_stopval_strict`; more: `e2e_numevals`, `e2e_ret_codes`, `e2e_returns`.
* through `nlopt_optimize` (`isresMk`): `optimize_isres_core`, `optimize_isres_evals_le_maxeval_nocons` (C03),
  `optimize_isres_forced_stop_nocons` (C04), `optimize_isres_returned_pair_nocons` /
  `optimize_isres_returned_pair_partial_nocons` (C02), `optimize_isres_best_no_better_nocons` (C05/C06),
  `optimize_isres_stopval_strict_nocons`, `optimize_isres_returns_nocons`.

The helper lemmas about `AllRel`, `FwdRel`, `valOf_ansOf`, `forcedOf_iff`, `innerView_*` are those of `Props/E2EEsch.lean`;
`atrace_no_nan` is that of `Props/E2ECrs.lean`.
-/
set_option linter.unusedSimpArgs false
set_option linter.unusedVariables false
namespace Nlopt.E2EIsres
open Nlopt Nlopt.IsresDrv Nlopt.IsresAlg Nlopt.DrvIsres Nlopt.F64
open Nlopt.EschAlg (valOf forcedOf qOf ObjOnly)
open Nlopt.E2EEsch (FwdRel valOf_ansOf forcedOf_congr forcedOf_iff innerView_maxeval innerView_stopval started_iff)
open Nlopt.E2ECrs (atrace_no_nan)

/-! ## R: refinement -/

/-- R.  A returned run of the ISRES machine against any environment IS a returned run of the control-flow model on the
    events of its trace. -/
theorem isres_refines {σ : Type} (A : Arith) (P : Proposer) (c : Cfg) (E : Env σ) (fuel : Nat) (st st' : σ)
    (r : AlgResult) (tr : List (Query × Answer)) (h : Nlopt.run (mk A P c) E fuel st = (some r, st', tr)) :
    (IsresDrv.run A c (events tr)).short = false ∧
    (IsresDrv.run A c (events tr)).ret = r.ret ∧
    (IsresDrv.run A c (events tr)).x = r.x ∧
    Res.minfMem (IsresDrv.run A c (events tr)) = r.minf ∧
    ((IsresDrv.run A c (events tr)).nevals : Int) = r.numevals ∧
    (IsresDrv.run A c (events tr)).nevals = tr.length ∧
    (events tr).take (IsresDrv.run A c (events tr)).nevals = events tr ∧
    (∀ p ∈ tr, p.1.fn = .obj ∧ p.1.wantGrad = false) ∧
    (∀ p, tr.head? = some p → p.1.x = c.x0) := by
  have hJ : J A P c (mk A P c).init none [] := ⟨by intro p hp; simp at hp, rfl, rfl, rfl⟩
  obtain ⟨R, hrun, hs, hr, hn, hobj, hhead⟩ := runAlg_refines A P c E fuel _ none st [] hJ r st' tr h
  have hcons : (events tr).take R.nevals = events tr := by
    rw [hn, ← events_length tr, List.take_length]
  rw [hrun, hr]
  exact ⟨hs, rfl, rfl, rfl, rfl, hn, hcons, hobj, hhead⟩

theorem mem_events {tr : List (Query × Answer)} {e : IsresDrv.Ev} (h : e ∈ events tr) : ∃ p ∈ tr, evOf p = e := by
  simpa [events] using h

theorem evOf_mem_events {tr : List (Query × Answer)} {p : Query × Answer} (h : p ∈ tr) : evOf p ∈ events tr :=
  List.mem_map_of_mem h

/-- the driver never consumes more events than there are -/
theorem nevals_le_length (A : Arith) (c : Cfg) (evs : List IsresDrv.Ev) : (IsresDrv.run A c evs).nevals ≤ evs.length := by
  cases hv : valid c with
  | false => rw [invalid_args A c evs hv]; simp
  | true =>
    obtain ⟨_, _, _, _, _, hle⟩ := run_final A c evs hv
    exact hle

theorem minfMem_of_some {R : Res} {m : F64} (h : R.minf = some m) : Res.minfMem R = m := by
  simp [Res.minfMem, h]

/-! ## E1: evaluation budget -/

/-- E1.  With `maxeval > 0` the number of callback invocations (all of them objective evaluations, `isres_refines`) is at
    most `maxeval`, and it is the count the algorithm reports. -/
theorem e2e_evals_le_maxeval {σ : Type} (A : Arith) (P : Proposer) (c : Cfg) (E : Env σ) (fuel : Nat)
    (st st' : σ) (r : AlgResult) (tr : List (Query × Answer))
    (h : Nlopt.run (mk A P c) E fuel st = (some r, st', tr)) (hmax : 0 < c.stop.maxeval) :
    (tr.length : Int) ≤ c.stop.maxeval ∧ r.numevals = tr.length ∧ ∀ p ∈ tr, p.1.fn = .obj ∧ p.1.wantGrad = false := by
  obtain ⟨_, _, _, _, hne, hn, _, hobj, _⟩ := isres_refines A P c E fuel st st' r tr h
  have := nevals_le_maxeval A c (events tr) hmax
  rw [hn] at this hne
  exact ⟨this, hne.symm, hobj⟩

/-- the count reported is the number of invocations, unconditionally; a run with valid arguments made at least one -/
theorem e2e_numevals {σ : Type} (A : Arith) (P : Proposer) (c : Cfg) (E : Env σ) (fuel : Nat)
    (st st' : σ) (r : AlgResult) (tr : List (Query × Answer))
    (h : Nlopt.run (mk A P c) E fuel st = (some r, st', tr)) :
    r.numevals = tr.length ∧ (r.ret ≠ -2 → 1 ≤ tr.length) := by
  obtain ⟨hs, hret, _, _, hne, hn, _, _, _⟩ := isres_refines A P c E fuel st st' r tr h
  rw [hn] at hne
  refine ⟨hne.symm, fun h2 => ?_⟩
  cases hv : valid c with
  | false => exfalso; exact h2 (by rw [← hret]; exact (invalid_args_iff A c _).mpr hv)
  | true =>
    have := nevals_pos A c (events tr) hv hs
    omega

/-- the only result codes: INVALID_ARGS, FORCED_STOP, MINF_MAX_REACHED, FTOL_REACHED, XTOL_REACHED, MAXEVAL_REACHED;
    NLOPT_SUCCESS (1) is never returned -/
theorem e2e_ret_codes {σ : Type} (A : Arith) (P : Proposer) (c : Cfg) (E : Env σ) (fuel : Nat)
    (st st' : σ) (r : AlgResult) (tr : List (Query × Answer))
    (h : Nlopt.run (mk A P c) E fuel st = (some r, st', tr)) :
    r.ret = -2 ∨ r.ret = -5 ∨ r.ret = 2 ∨ r.ret = 3 ∨ r.ret = 4 ∨ r.ret = 5 := by
  obtain ⟨hs, hret, _⟩ := isres_refines A P c E fuel st st' r tr h
  rw [← hret]
  rcases ret_codes A c (events tr) with h1 | h1 | h1 | h1 | h1 | h1 | ⟨_, h2⟩
  · exact Or.inl h1
  · exact Or.inr (Or.inl h1)
  · exact Or.inr (Or.inr (Or.inl h1))
  · exact Or.inr (Or.inr (Or.inr (Or.inl h1)))
  · exact Or.inr (Or.inr (Or.inr (Or.inr (Or.inl h1))))
  · exact Or.inr (Or.inr (Or.inr (Or.inr (Or.inr h1))))
  · rw [hs] at h2; cases h2

/-! ## E2: forced stop -/

/-- E2.  An answer that requests a stop (`nlopt_set_force_stop(opt, s)`, `s ≠ 0`, during the invocation) is the LAST
    entry of the trace — no callback is invoked after it — and the result is `FORCED_STOP` (the flag is seen at the test
    right after the objective callback, isres.c line 139). -/
theorem e2e_forced_stop {σ : Type} (A : Arith) (P : Proposer) (c : Cfg) (E : Env σ) (fuel : Nat)
    (st st' : σ) (r : AlgResult) (tr : List (Query × Answer))
    (h : Nlopt.run (mk A P c) E fuel st = (some r, st', tr))
    (pre post : List (Query × Answer)) (p : Query × Answer) (htr : tr = pre ++ p :: post)
    (hp : forcedOf p.2 = true) : post = [] ∧ r.ret = -5 := by
  subst htr
  obtain ⟨_, hret, _, _, _, hn, _, _, _⟩ := isres_refines A P c E fuel st st' r _ h
  have hev : events (pre ++ p :: post) = events pre ++ evOf p :: events post := by simp
  have hshort : (IsresDrv.run A c (events pre)).short = true := by
    cases hsh : (IsresDrv.run A c (events pre)).short with
    | true => rfl
    | false =>
      exfalso
      have h1 := run_prefix A c (events pre) (evOf p :: events post) hsh
      have h2 := nevals_le_length A c (events pre)
      rw [hev, h1] at hn
      simp only [events_length, List.length_append, List.length_cons] at h2 hn
      omega
  have hforced : (evOf p).forced = true := by simp [Ev.forced, evOf, hp]
  have hstop : (evOf p).stop ≤ 1 + ncb c := by simp [evOf, hp]
  obtain ⟨h2, _, h1, _⟩ := DrvIsres.forced_stop A c (events pre) (evOf p) (events post) hshort hforced
  have h1 := h1 hstop
  rw [← hev] at h1 h2
  rw [hn] at h2
  refine ⟨?_, by rw [← hret]; exact h1⟩
  simp only [List.length_append, List.length_cons, events_length] at h2
  exact List.length_eq_zero_iff.mp (by omega)

/-! ## E3: the returned pair is an evaluated pair of the trace -/

/-- E3, unconditional form (every result code, every configuration): either the driver never accepted a member — `x` is
    the start point and `minf` is the entry value `+Inf` — or `(x, minf)` is the point and the value of one objective
    invocation of the trace. -/
theorem e2e_returned_pair_partial {σ : Type} (A : Arith) (P : Proposer) (c : Cfg) (E : Env σ)
    (fuel : Nat) (st st' : σ) (r : AlgResult) (tr : List (Query × Answer))
    (h : Nlopt.run (mk A P c) E fuel st = (some r, st', tr)) :
    (r.x = c.x0 ∧ r.minf = posInf) ∨
    (∃ p ∈ tr, p.1.fn = .obj ∧ r.x = p.1.x ∧ r.minf = valOf p.2) := by
  obtain ⟨hs, hret, hx, hm, _, _, hcons, hobj, _⟩ := isres_refines A P c E fuel st st' r tr h
  cases hv : valid c with
  | false =>
    left
    rw [invalid_args A c _ hv] at hx hm
    exact ⟨hx.symm, hm.symm⟩
  | true =>
    rcases returned_pair A c (events tr) hv with ⟨h1, h2, _⟩ | ⟨i, e, m, _, hi, _, h1, h2⟩
    · left
      exact ⟨by rw [← hx, h1], by rw [← hm, minfMem_of_some h2]⟩
    · right
      obtain ⟨p, hp, rfl⟩ := mem_events (List.mem_of_getElem? hi)
      exact ⟨p, hp, (hobj p hp).1, by rw [← hx, h1]; rfl, by rw [← hm, minfMem_of_some h2]; rfl⟩

/-- E3 on a success code, no nonlinear constraints: `(x, minf)` is the point and value of one objective invocation of
    the trace. -/
theorem e2e_returned_pair_nocons {σ : Type} (A : Arith) (P : Proposer) (c : Cfg) (E : Env σ)
    (fuel : Nat) (st st' : σ) (r : AlgResult) (tr : List (Query × Answer))
    (h : Nlopt.run (mk A P c) E fuel st = (some r, st', tr)) (hg : c.gtol = []) (hh : c.htol = [])
    (hret : 0 < r.ret) : ∃ p ∈ tr, p.1.fn = .obj ∧ r.x = p.1.x ∧ r.minf = valOf p.2 := by
  obtain ⟨hs, hr, hx, hm, _, _, hcons, hobj, _⟩ := isres_refines A P c E fuel st st' r tr h
  obtain ⟨i, e, _, hi, h1, h2⟩ := returned_pair_unconstrained A c (events tr) hg hh (by rw [hr]; exact hret) hs
  obtain ⟨p, hp, rfl⟩ := mem_events (List.mem_of_getElem? hi)
  exact ⟨p, hp, (hobj p hp).1, by rw [← hx, h1]; rfl, by rw [← hm, minfMem_of_some h2]; rfl⟩

/-! ## E4: nothing evaluated is better than the result -/

/-- E4 (no nonlinear constraints; no invocation returned NaN), for EVERY result code: the reported `minf` is `≤` (IEEE)
    the value of every invocation of the trace that did not raise the forced stop.  (The member whose evaluation raised
    the stop is not considered by the driver: `DrvIsres.forced_stop_keeps_incumbent`.) -/
theorem e2e_best_no_better_nocons {σ : Type} (A : Arith) (P : Proposer) (c : Cfg) (E : Env σ) (fuel : Nat) (st st' : σ)
    (r : AlgResult) (tr : List (Query × Answer)) (h : Nlopt.run (mk A P c) E fuel st = (some r, st', tr))
    (hg : c.gtol = []) (hh : c.htol = []) (hnan : ∀ p ∈ tr, (valOf p.2).isNaN = false) :
    ∀ p ∈ tr, forcedOf p.2 = false → le r.minf (valOf p.2) = true := by
  obtain ⟨hs, hr, _, hm, _, hn, hcons, _, _⟩ := isres_refines A P c E fuel st st' r tr h
  intro p hp hf
  cases hv : valid c with
  | false =>
    exfalso
    rw [invalid_args A c _ hv] at hn
    cases tr with
    | nil => simp at hp
    | cons _ _ => simp at hn
  | true =>
    have hnan' : ∀ e ∈ events tr, e.f.isNaN = false := by
      intro e he
      obtain ⟨q, hq, rfl⟩ := mem_events he
      exact hnan q hq
    obtain ⟨mf, hmf, hall⟩ := no_better_feasible_ineq A c (events tr) hv hh hnan'
    rw [← hm, minfMem_of_some hmf]
    obtain ⟨j, hj⟩ := List.mem_iff_getElem?.mp hp
    have hje : (events tr)[j]? = some (evOf p) := by simp [events, List.getElem?_map, hj]
    have hst : (evOf p).stop = 0 := by simp [evOf, hf]
    have hmem : member A c (evOf p) (0 + j) = some ⟨(evOf p).f, true, F64.zero, F64.zero, 0 + j⟩ := by
      rw [member_unconstrained hg hh]; simp [hst]
    have hin : (⟨(evOf p).f, true, F64.zero, F64.zero, 0 + j⟩ : Isres.Ev) ∈ evaluated A c (events tr) := by
      unfold evaluated
      rw [hcons]
      exact mems_mem hje hmem
    exact hall _ hin rfl

/-! ## E5: stopval -/

/-- E5.  `MINF_MAX_REACHED` only with `minf` STRICTLY below stopval (isres.c line 178).  NaN allowed, every `c`. -/
theorem e2e_stopval_strict {σ : Type} (A : Arith) (P : Proposer) (c : Cfg) (E : Env σ) (fuel : Nat) (st st' : σ)
    (r : AlgResult) (tr : List (Query × Answer)) (h : Nlopt.run (mk A P c) E fuel st = (some r, st', tr))
    (h2 : r.ret = 2) : lt r.minf c.stop.minfMax = true := by
  obtain ⟨hs, hr, _, hm, _, _, _, _, _⟩ := isres_refines A P c E fuel st st' r tr h
  obtain ⟨m, hmf, hlt⟩ := stopval_minf_lt A c (events tr) (by rw [hr]; exact h2)
  rw [← hm, minfMem_of_some hmf]; exact hlt

/-- Termination: with `maxeval > 0` the ISRES machine returns within `maxeval + 1` steps against every environment, for
    every arithmetic and proposer. -/
theorem e2e_returns {σ : Type} (A : Arith) (P : Proposer) (c : Cfg) (E : Env σ) (fuel : Nat) (st : σ)
    (hmax : 0 < c.stop.maxeval) (hfuel : c.stop.maxeval + 1 ≤ fuel) :
    ∃ r, (Nlopt.run (mk A P c) E fuel st).1 = some r :=
  run_returns A P c E hmax fuel hfuel st

/-! ## non-vacuity of R, E1–E5 -/
namespace Ex
open Nlopt.DrvCrs (arithDummy)

/-- a concrete proposer: state = number of proposals made; proposes the points (0.0), (-1.0), (-1.0), … -/
def prop : Proposer :=
  { PS := Nat, init := 0, next := fun k _ _ _ => (k + 1, [if k = 0 then F64.zero else F64.negOne]) }

/-- n = 1, box [-1, 2], population 2, at most 3 evaluations, start point (1.0), no stopval, all tolerances 0, NO
    nonlinear constraints -/
def cfg : Cfg :=
  { n := 1, pop := 2, x0 := [F64.one], lb := [F64.negOne], ub := [DrvIsres.two],
    stop := { DrvIsres.stop0 with maxeval := 3 } }

/-- the user: f(x) = x₀ (the value IS the coordinate), state = number of calls so far; never requests a stop -/
def env : Env Nat := { call := fun st q => (st + 1, { val := [q.x.headD F64.qnan], grad := none }) }

/-- the same user, but the call number `k` (0-based) does `nlopt_set_force_stop(opt, 3)` -/
def envStop (k : Nat) : Env Nat :=
  { call := fun st q => (st + 1, { val := [q.x.headD F64.qnan], grad := none, stop := if st = k then some 3 else none }) }

/-- R / E1 / E3 / E4: the run returns MAXEVAL_REACHED after exactly 3 invocations at 1.0, 0.0, -1.0 (each one accepted
    by the incumbent rule); the result is the third evaluated pair -/
example : Nlopt.run (mk arithDummy prop cfg) env 10 0 =
    (some { ret := 5, x := [F64.negOne], minf := F64.negOne, numevals := 3 }, 3,
     [(qOf [F64.one], { val := [F64.one], grad := none }), (qOf [F64.zero], { val := [F64.zero], grad := none }),
      (qOf [F64.negOne], { val := [F64.negOne], grad := none })]) := by decide
/-- hypotheses of E1, E3, E4 hold for it: budget set, no constraints, success code, no NaN -/
example : 0 < cfg.stop.maxeval ∧ cfg.gtol = [] ∧ cfg.htol = [] ∧ (0 : Int) < 5 ∧
    (∀ p ∈ (Nlopt.run (mk arithDummy prop cfg) env 10 0).2.2, (valOf p.2).isNaN = false) := by decide
/-- out of fuel: 3 steps are not enough for 3 evaluations plus the return -/
example : (Nlopt.run (mk arithDummy prop cfg) env 3 0).1 = none := by decide

/-- E2: the first invocation requests the stop: FORCED_STOP after exactly 1 invocation, x and *minf untouched (start point,
    +Inf): the first disjunct of `e2e_returned_pair_partial` -/
example : (Nlopt.run (mk arithDummy prop cfg) (envStop 0) 10 0).1 =
      some { ret := -5, x := [F64.one], minf := F64.posInf, numevals := 1 } ∧
    (Nlopt.run (mk arithDummy prop cfg) (envStop 0) 10 0).2.2.map (fun p => forcedOf p.2) = [true] := by decide

/-- E2: the third invocation (the better value -1.0) requests the stop: FORCED_STOP with the incumbent (0.0, 0.0); the
    value -1.0 of the stopping invocation is NOT taken into account (why E4 excepts the stopping invocation) -/
example : (Nlopt.run (mk arithDummy prop cfg) (envStop 2) 10 0).1 =
      some { ret := -5, x := [F64.zero], minf := F64.zero, numevals := 3 } := by decide

/-- E5: stopval 0.5: the second value 0.0 is below it -/
example : (Nlopt.run (mk arithDummy prop { cfg with stop := { cfg.stop with minfMax := ⟨0x3FE0000000000000⟩ } }) env 10 0).1 =
    some { ret := 2, x := [F64.zero], minf := F64.zero, numevals := 2 } := by decide

/-- INVALID_ARGS: an infinite upper bound: no invocation at all, x untouched, *minf = +Inf -/
example : Nlopt.run (mk arithDummy prop { cfg with ub := [F64.posInf] }) env 10 0 =
    (some { ret := -2, x := [F64.one], minf := F64.posInf, numevals := 0 }, 0, []) := by decide

end Ex

/-- WITNESS: E4 is FALSE for the invocation that raised the stop: it returned -1.0, below the reported `minf = 0.0`. -/
theorem e2e_best_no_better_forced_false :
    ¬ ∀ (A : Arith) (P : Proposer) (c : Cfg) (E : Env Nat) (fuel : Nat) (st st' : Nat) (r : AlgResult)
        (tr : List (Query × Answer)), Nlopt.run (mk A P c) E fuel st = (some r, st', tr) → c.gtol = [] → c.htol = [] →
        (∀ p ∈ tr, (valOf p.2).isNaN = false) → ∀ p ∈ tr, le r.minf (valOf p.2) = true := by
  intro h
  have := h DrvCrs.arithDummy Ex.prop Ex.cfg (Ex.envStop 2) 10 0 3
    { ret := -5, x := [F64.zero], minf := F64.zero, numevals := 3 }
    [(qOf [F64.one], { val := [F64.one], grad := none }), (qOf [F64.zero], { val := [F64.zero], grad := none }),
     (qOf [F64.negOne], { val := [F64.negOne], grad := none, stop := some 3 })] (by decide) rfl rfl (by decide)
    (qOf [F64.negOne], { val := [F64.negOne], grad := none, stop := some 3 }) (by decide)
  revert this
  decide

/-! ## Through the wrapper stack of `nlopt_optimize` -/

/-- the configuration `nlopt_optimize_` hands to `isres_minimize(ni, f, f_data, m, fc, p, h, lb, ub, x, minf, &stop,
    POP(0))`, read off the problem the algorithm receives (`POP(0)` = `opt->stochastic_population`, 0 = default
    `20*(n+1)`; the global `nlopt_stochastic_population` is taken to be 0).  `gtol` / `htol` are the tolerance vectors of
    the constraint objects (`[]` for an object without constraints: the case treated here). -/
def cfgOf (p : Prob) : Cfg :=
  { n := p.v.n, pop := (p.v.pop : Int), lb := optV p.v.lb, ub := optV p.v.ub, x0 := p.x0,
    gtol := p.v.fc.map (fun k => k.tol.getD []), htol := p.v.h.map (fun k => k.tol.getD []),
    stop := { n := p.v.n, minfMax := p.v.stopval, ftolRel := p.v.ftolRel, ftolAbs := p.v.ftolAbs,
              xtolRel := p.v.xtolRel, xtolAbs := p.v.xtolAbs, xWeights := p.v.xWeights, nevals := 0,
              maxeval := p.v.maxeval, maxtime := p.v.maxtime, start := F64.zero, forceStop := 0 } }

/-- ISRES (no nonlinear constraints) as an algorithm factory for `Nlopt.optimize`; `B` = the arithmetic of the stopping
    tests inside `isres_minimize`; the proposer may depend on the problem in any way -/
def isresMk (B : Arith) (P : Prob → Proposer) : Prob → Alg := fun p => mk B (P p) (cfgOf p)

theorem innerView_fc (v : CoreView) (m e : Bool) : (innerView v m e).fc = v.fc := by
  unfold innerView; cases m <;> cases e <;> rfl

theorem innerView_h (v : CoreView) (m e : Bool) : (innerView v m e).h = v.h := by
  unfold innerView; cases m <;> cases e <;> rfl

/-- no constraint on the user's object: the driver's constraint lists are empty -/
theorem cfgOf_nocons (caps : WrapCaps) (v : CoreView) (x : List F64) (hnc : v.fc = [] ∧ v.h = []) :
    (cfgOf (innerProb caps v x)).gtol = [] ∧ (cfgOf (innerProb caps v x)).htol = [] := by
  have h1 : (cfgOf (innerProb caps v x)).gtol = (innerView v (layersOf caps v).maximize (layersOf caps v).elim).fc.map
      (fun k => k.tol.getD []) := rfl
  have h2 : (cfgOf (innerProb caps v x)).htol = (innerView v (layersOf caps v).maximize (layersOf caps v).elim).h.map
      (fun k => k.tol.getD []) := rfl
  rw [h1, h2, innerView_fc, innerView_h, hnc.1, hnc.2]
  exact ⟨rfl, rfl⟩

/-- Core of the lift (`wrappers_pass_result` + `wrappers_forward_trace` instantiated with `isresMk B P`): when
    `nlopt_optimize` got as far as starting the algorithm (`hs`) and returns `o`, then `o.atrace` is the trace of a
    returned run of the ISRES machine — configured by `cfgOf` on the inner problem — against the wrapped user; `o.utrace`
    corresponds to it entry by entry; code and counter are the machine's; and, when the memoization layer is off (ISRES is
    not in `memoAlgs`), `x` / `opt_f` are the machine's `x` (expanded) / `minf` (sign restored). -/
theorem optimize_isres_core {σ : Type} (A B : Arith) (caps : WrapCaps) (U : Env σ) (P : Prob → Proposer)
    (fuel : Nat) (v : CoreView) (hl : Bool) (x : List F64) (f0 : F64) (st st' : σ) (o : OptOut)
    (hf : v.f ≠ 0) (he : earlyFixed caps v x = false)
    (hs : (innerRun A caps U (isresMk B P) fuel v hl x f0 st).2.2 = true)
    (h : optimize A caps U (isresMk B P) fuel v hl x f0 st = (some o, st')) :
    ∃ r es, Nlopt.run (mk B (P (innerProb caps v x)) (cfgOf (innerProb caps v x))) (wrappedEnv (layersOf caps v) U) fuel
        ((st, []), ({} : MemoSt)) = (some r, es, o.atrace) ∧
      o.ret = r.ret ∧ o.after.numevals = r.numevals ∧
      o.atrace.length = o.utrace.length ∧ AllRel (FwdRel caps v) o.atrace o.utrace ∧
      ((layersOf caps v).memo = false →
        o.x = (if (layersOf caps v).elim then expand (optV v.lb) (optV v.ub) r.x else r.x) ∧
        o.optf = (if v.maximize then r.minf.neg else r.minf)) := by
  obtain ⟨r, hr, hret, hnum, hat, _, _, hxf⟩ :=
    WrapProps.wrappers_pass_result A caps U (isresMk B P) fuel v hl x f0 st st' o hf he hs h
  obtain ⟨hlen, hrel⟩ := WrapProps.wrappers_forward_trace A caps U (isresMk B P) fuel v hl x f0 st st' o h
  refine ⟨r, (algRun caps U (isresMk B P) fuel v x st).2.1, ?_, hret, hnum, hlen, hrel, hxf⟩
  have : algRun caps U (isresMk B P) fuel v x st =
      ((algRun caps U (isresMk B P) fuel v x st).1, (algRun caps U (isresMk B P) fuel v x st).2.1,
       (algRun caps U (isresMk B P) fuel v x st).2.2) := rfl
  rw [hr, ← hat] at this
  exact this

/-- E1 / C03 for the user: with `maxeval > 0`, `nlopt_optimize` running ISRES (no nonlinear constraints) invokes the
    user's callbacks at most `maxeval` times, every invocation is an objective evaluation without gradient, and
    `nlopt_get_numevals` afterwards is exactly the number of invocations.  Every arithmetic, proposer, user. -/
theorem optimize_isres_evals_le_maxeval_nocons {σ : Type} (A B : Arith) (caps : WrapCaps) (U : Env σ)
    (P : Prob → Proposer) (fuel : Nat) (v : CoreView) (hl : Bool) (x : List F64) (f0 : F64) (st st' : σ) (o : OptOut)
    (hnc : v.fc = [] ∧ v.h = [])
    (hf : v.f ≠ 0) (he : earlyFixed caps v x = false)
    (hs : (innerRun A caps U (isresMk B P) fuel v hl x f0 st).2.2 = true)
    (h : optimize A caps U (isresMk B P) fuel v hl x f0 st = (some o, st')) (hmax : 0 < v.maxeval) :
    (o.utrace.length : Int) ≤ v.maxeval ∧ o.after.numevals = o.utrace.length ∧
    ∀ u ∈ o.utrace, u.1.fn = .obj ∧ u.1.wantGrad = false := by
  obtain ⟨r, es, hrun, _, hnum, hlen, hrel, _⟩ := optimize_isres_core A B caps U P fuel v hl x f0 st st' o hf he hs h
  have hm : (cfgOf (innerProb caps v x)).stop.maxeval = v.maxeval := innerView_maxeval v _ _
  obtain ⟨h1, h2, hobj⟩ := e2e_evals_le_maxeval _ _ _ _ fuel _ es r o.atrace hrun (by rw [hm]; exact hmax)
  rw [hm, hlen] at h1
  refine ⟨h1, by rw [hnum, h2, hlen], ?_⟩
  intro u hu
  obtain ⟨p, hp, hfn, _, hg, _, _⟩ := E2EEsch.AllRel.exists_left hrel u hu
  obtain ⟨hp1, hp2⟩ := hobj p hp
  refine ⟨by rw [hfn]; exact hp1, ?_⟩
  rw [hg, hp2]; simp

/-- E2 / C04 for the user: an invocation of the user's objective during which `nlopt_set_force_stop(opt, s)`, `s ≠ 0`,
    was called is the LAST invocation `nlopt_optimize` makes, and the call returns `NLOPT_FORCED_STOP`. -/
theorem optimize_isres_forced_stop_nocons {σ : Type} (A B : Arith) (caps : WrapCaps) (U : Env σ)
    (P : Prob → Proposer) (fuel : Nat) (v : CoreView) (hl : Bool) (x : List F64) (f0 : F64) (st st' : σ) (o : OptOut)
    (hnc : v.fc = [] ∧ v.h = [])
    (hf : v.f ≠ 0) (he : earlyFixed caps v x = false)
    (hs : (innerRun A caps U (isresMk B P) fuel v hl x f0 st).2.2 = true)
    (h : optimize A caps U (isresMk B P) fuel v hl x f0 st = (some o, st'))
    (pre post : List (Query × Answer)) (u : Query × Answer) (hut : o.utrace = pre ++ u :: post)
    (s : Int) (hstop : u.2.stop = some s) (hs0 : s ≠ 0) : post = [] ∧ o.ret = -5 := by
  obtain ⟨r, es, hrun, hret, _, _, hrel, _⟩ := optimize_isres_core A B caps U P fuel v hl x f0 st st' o hf he hs h
  rw [hut] at hrel
  obtain ⟨pre', p, post', hat, ⟨_, _, _, hst, _⟩, hl⟩ := E2EEsch.AllRel.split_right hrel
  have hforced : forcedOf p.2 = true := by
    rw [forcedOf_congr hst]; exact (forcedOf_iff u.2).mpr ⟨s, hstop, hs0⟩
  obtain ⟨h1, h2⟩ := e2e_forced_stop _ _ _ _ fuel _ es r o.atrace hrun pre' post' p hat hforced
  rw [h1] at hl
  exact ⟨List.length_eq_zero_iff.mp hl.symm, by rw [hret]; exact h2⟩

/-- E3 / C02 for the user: on a success code, the result of `nlopt_optimize` running ISRES without nonlinear
    constraints — minimising OR maximising, with or without fixed (eliminated) coordinates — is an evaluated pair of the
    user's own callback trace: `o.x` is, bit for bit, the point of one invocation of the user's objective, and `o.optf` is
    the value the user returned there.  Hypotheses: no constraints (`hnc`), the algorithm was started (`hf`, `he`, `hs`),
    no memoization layer (`hmemo`), success code.  NaN values allowed. -/
theorem optimize_isres_returned_pair_nocons {σ : Type} (A B : Arith) (caps : WrapCaps) (U : Env σ)
    (P : Prob → Proposer) (fuel : Nat) (v : CoreView) (hl : Bool) (x : List F64) (f0 : F64) (st st' : σ) (o : OptOut)
    (hnc : v.fc = [] ∧ v.h = [])
    (hf : v.f ≠ 0) (he : earlyFixed caps v x = false)
    (hs : (innerRun A caps U (isresMk B P) fuel v hl x f0 st).2.2 = true)
    (hmemo : (layersOf caps v).memo = false)
    (h : optimize A caps U (isresMk B P) fuel v hl x f0 st = (some o, st')) (hpos : 0 < o.ret) :
    ∃ u ∈ o.utrace, u.1.fn = .obj ∧ o.x = u.1.x ∧
      (v.maximize = false → o.optf = valOf u.2) ∧ (∀ w, u.2.val = [w] → o.optf = w) := by
  obtain ⟨r, es, hrun, hret, _, _, hrel, hxf⟩ := optimize_isres_core A B caps U P fuel v hl x f0 st st' o hf he hs h
  obtain ⟨hox, hof⟩ := hxf hmemo
  obtain ⟨hg, hh⟩ := cfgOf_nocons caps v x hnc
  obtain ⟨p, hp, hpfn, hpx, hpm⟩ := e2e_returned_pair_nocons _ _ _ _ fuel _ es r o.atrace hrun hg hh (by rw [← hret]; exact hpos)
  obtain ⟨u, hu, hfn, hux, _, _, hans⟩ := E2EEsch.AllRel.exists_right hrel p hp
  have hfn' : u.1.fn = .obj := by rw [hfn]; exact hpfn
  refine ⟨u, hu, hfn', by rw [hox, hux, hpx], ?_, ?_⟩
  · intro hmin
    rw [hof, hmin, hpm, hans]
    exact (valOf_ansOf _ u.1 u.2 hfn').2 hmin
  · intro w hw
    rw [hof, hpm, hans, (valOf_ansOf _ u.1 u.2 hfn').1 w hw, layersOf_maximize]
    cases v.maximize <;> simp [neg_neg']

/-- E3 / C02 for the user, every result code: either `opt_f = ±HUGE_VAL` (the driver never accepted a member: INVALID_ARGS,
    a stop during the first evaluation, or only values the incumbent rule never accepts, e.g. `f = +Inf`), or the result
    is an evaluated pair of the user's own callback trace. -/
theorem optimize_isres_returned_pair_partial_nocons {σ : Type} (A B : Arith) (caps : WrapCaps)
    (U : Env σ) (P : Prob → Proposer) (fuel : Nat) (v : CoreView) (hl : Bool) (x : List F64) (f0 : F64) (st st' : σ)
    (o : OptOut) (hnc : v.fc = [] ∧ v.h = []) (hf : v.f ≠ 0) (he : earlyFixed caps v x = false)
    (hs : (innerRun A caps U (isresMk B P) fuel v hl x f0 st).2.2 = true)
    (hmemo : (layersOf caps v).memo = false)
    (h : optimize A caps U (isresMk B P) fuel v hl x f0 st = (some o, st')) :
    (o.optf = (if v.maximize then posInf.neg else posInf)) ∨
    (∃ u ∈ o.utrace, u.1.fn = .obj ∧ o.x = u.1.x ∧
      (v.maximize = false → o.optf = valOf u.2) ∧ (∀ w, u.2.val = [w] → o.optf = w)) := by
  obtain ⟨r, es, hrun, hret, _, _, hrel, hxf⟩ := optimize_isres_core A B caps U P fuel v hl x f0 st st' o hf he hs h
  obtain ⟨hox, hof⟩ := hxf hmemo
  rcases e2e_returned_pair_partial _ _ _ _ fuel _ es r o.atrace hrun with ⟨_, hm⟩ | ⟨p, hp, hpfn, hpx, hpm⟩
  · left
    rw [hof, hm]
  · right
    obtain ⟨u, hu, hfn, hux, _, _, hans⟩ := E2EEsch.AllRel.exists_right hrel p hp
    have hfn' : u.1.fn = .obj := by rw [hfn]; exact hpfn
    refine ⟨u, hu, hfn', by rw [hox, hux, hpx], ?_, ?_⟩
    · intro hmin
      rw [hof, hmin, hpm, hans]
      exact (valOf_ansOf _ u.1 u.2 hfn').2 hmin
    · intro w hw
      rw [hof, hpm, hans, (valOf_ansOf _ u.1 u.2 hfn').1 w hw, layersOf_maximize]
      cases v.maximize <;> simp [neg_neg']

/-- E4 / C05-C06 for the user (no nonlinear constraints; every user answer is one number, not NaN), for EVERY result
    code: the reported `opt_f` is at least as good as (IEEE `≤` when minimising, `≥` when maximising) the value of every
    invocation of the user's objective that did not raise the forced stop. -/
theorem optimize_isres_best_no_better_nocons {σ : Type} (A B : Arith) (caps : WrapCaps) (U : Env σ)
    (P : Prob → Proposer) (fuel : Nat) (v : CoreView) (hl : Bool) (x : List F64) (f0 : F64) (st st' : σ) (o : OptOut)
    (hnc : v.fc = [] ∧ v.h = [])
    (hf : v.f ≠ 0) (he : earlyFixed caps v x = false)
    (hs : (innerRun A caps U (isresMk B P) fuel v hl x f0 st).2.2 = true)
    (hmemo : (layersOf caps v).memo = false)
    (h : optimize A caps U (isresMk B P) fuel v hl x f0 st = (some o, st'))
    (hnum : ∀ u ∈ o.utrace, ∃ w, u.2.val = [w] ∧ w.isNaN = false) :
    (v.maximize = false → ∀ u ∈ o.utrace, forcedOf u.2 = false → le o.optf (valOf u.2) = true) ∧
    (v.maximize = true → ∀ u ∈ o.utrace, forcedOf u.2 = false → ∀ w, u.2.val = [w] → le w o.optf = true) := by
  obtain ⟨r, es, hrun, hret, _, _, hrel, hxf⟩ := optimize_isres_core A B caps U P fuel v hl x f0 st st' o hf he hs h
  obtain ⟨_, hof⟩ := hxf hmemo
  obtain ⟨hg, hh⟩ := cfgOf_nocons caps v x hnc
  obtain ⟨_, _, _, _, _, _, _, hobj, _⟩ := isres_refines _ _ _ _ fuel _ es r o.atrace hrun
  have hnan := atrace_no_nan hrel hobj hnum
  have hbest := e2e_best_no_better_nocons _ _ _ _ fuel _ es r o.atrace hrun hg hh hnan
  constructor
  · intro hmin u hu hnf
    obtain ⟨p, hp, hfn, _, _, hst, hans⟩ := E2EEsch.AllRel.exists_left hrel u hu
    have hfn' : u.1.fn = .obj := by rw [hfn]; exact (hobj p hp).1
    have := hbest p hp (by rw [forcedOf_congr hst]; exact hnf)
    rw [hans, (valOf_ansOf _ u.1 u.2 hfn').2 hmin] at this
    rw [hof, hmin]; exact this
  · intro hmax u hu hnf w hw
    obtain ⟨p, hp, hfn, _, _, hst, hans⟩ := E2EEsch.AllRel.exists_left hrel u hu
    have hfn' : u.1.fn = .obj := by rw [hfn]; exact (hobj p hp).1
    have := hbest p hp (by rw [forcedOf_congr hst]; exact hnf)
    rw [hans, (valOf_ansOf _ u.1 u.2 hfn').1 w hw, layersOf_maximize, hmax] at this
    rw [hof, hmax]
    simp only [if_true] at this ⊢
    rw [← le_neg_neg, neg_neg'] at this
    exact this

/-- E5 for the user: `NLOPT_STOPVAL_REACHED` (2) only when the reported `opt_f` is STRICTLY beyond stopval (the
    documentation says "at least as good as").  NaN allowed. -/
theorem optimize_isres_stopval_strict_nocons {σ : Type} (A B : Arith) (caps : WrapCaps) (U : Env σ)
    (P : Prob → Proposer) (fuel : Nat) (v : CoreView) (hl : Bool) (x : List F64) (f0 : F64) (st st' : σ) (o : OptOut)
    (hnc : v.fc = [] ∧ v.h = [])
    (hf : v.f ≠ 0) (he : earlyFixed caps v x = false)
    (hs : (innerRun A caps U (isresMk B P) fuel v hl x f0 st).2.2 = true)
    (hmemo : (layersOf caps v).memo = false)
    (h : optimize A caps U (isresMk B P) fuel v hl x f0 st = (some o, st')) (h2 : o.ret = 2) :
    (if v.maximize then lt v.stopval o.optf else lt o.optf v.stopval) = true := by
  obtain ⟨r, es, hrun, hret, _, _, hrel, hxf⟩ := optimize_isres_core A B caps U P fuel v hl x f0 st st' o hf he hs h
  obtain ⟨_, hof⟩ := hxf hmemo
  have hsv : (cfgOf (innerProb caps v x)).stop.minfMax = if v.maximize then v.stopval.neg else v.stopval :=
    innerView_stopval v _ _
  have := e2e_stopval_strict _ _ _ _ fuel _ es r o.atrace hrun (by rw [← hret]; exact h2)
  rw [hsv] at this
  rw [hof]
  cases hm : v.maximize with
  | false => simpa [hm] using this
  | true =>
    simp only [hm, if_true] at this ⊢
    rw [← lt_neg_neg, neg_neg'] at this
    exact this

/-- Termination, end to end: `nlopt_optimize` running ISRES with `maxeval > 0` returns (is not "still running") as soon as
    the fuel covers `maxeval + 1` steps: together with `optimize_isres_evals_le_maxeval_nocons`, the call makes at most
    `maxeval` user invocations and then returns, whatever the user's callbacks answer. -/
theorem optimize_isres_returns_nocons {σ : Type} (A B : Arith) (caps : WrapCaps) (U : Env σ) (P : Prob → Proposer)
    (fuel : Nat) (v : CoreView) (hl : Bool) (x : List F64) (f0 : F64) (st : σ) (hnc : v.fc = [] ∧ v.h = [])
    (hmax : 0 < v.maxeval) (hfuel : v.maxeval + 1 ≤ fuel) :
    ∃ o, (optimize A caps U (isresMk B P) fuel v hl x f0 st).1 = some o := by
  cases ho : (optimize A caps U (isresMk B P) fuel v hl x f0 st).1 with
  | some o => exact ⟨o, rfl⟩
  | none =>
    exfalso
    obtain ⟨_, hnone⟩ := WrapProps.wrappers_pass_running A caps U (isresMk B P) fuel v hl x f0 st ho
    have hm : (cfgOf (innerProb caps v x)).stop.maxeval = v.maxeval := innerView_maxeval v _ _
    obtain ⟨r, hr⟩ := run_returns B (P (innerProb caps v x)) (cfgOf (innerProb caps v x)) (wrappedEnv (layersOf caps v) U)
      (by rw [hm]; exact hmax) fuel (by rw [hm]; exact hfuel) ((st, []), ({} : MemoSt))
    have : (algRun caps U (isresMk B P) fuel v x st).1 = some r := hr
    rw [hnone] at this
    cases this

/-! ## non-vacuity of the lifted statements -/
namespace WEx
open Nlopt.WrapEx
open Nlopt.DrvCrs (arithDummy)

/-- NLOPT_GN_ISRES (35: eliminated, NOT memoized, finite box required), NO constraints, n = 2, coordinate 0 fixed at +0.0,
    coordinate 1 in [0, 2] (reduced dimension 1), population 2, maxeval 3, stale counter 5 and stale force-stop flag 9 -/
def view (maximize : Bool) : CoreView :=
  { WrapEx.view with algorithm := 35, maximize := maximize, maxeval := 3, pop := 2,
                     stopval := if maximize then F64.posInf else F64.negInf }

/-- a proposer in the REDUCED dimension: (1.0), then (2.0), (2.0), … -/
def prop (_ : Prob) : Proposer :=
  { PS := Nat, init := 0, next := fun k _ _ _ => (k + 1, [if k = 0 then F64.one else WrapEx.two]) }

/-- the user: f(x) = x₁ (the free coordinate); state = number of calls -/
def user : Env Nat := { call := fun st q => (st + 1, { val := [q.x.getD 1 F64.qnan], grad := none }) }

/-- the same, requesting a stop (value 7) during call number 1 (0-based) -/
def userStop : Env Nat :=
  { call := fun st q => (st + 1, { val := [q.x.getD 1 F64.qnan], grad := none, stop := if st = 1 then some 7 else none }) }

/-- the hypotheses of the lifted theorems hold: no constraints, objective set, start accepted, algorithm started, no memo
    layer, elimination on, budget set -/
example : ((view false).fc = [] ∧ (view false).h = []) ∧ (view false).f ≠ 0 ∧ earlyFixed caps (view false) x0 = false ∧
    (innerRun (arith F64.zero) caps user (isresMk arithDummy prop) 10 (view false) false x0 F64.zero 0).2.2 = true ∧
    (layersOf caps (view false)).memo = false ∧ (layersOf caps (view false)).elim = true ∧ 0 < (view false).maxeval := by
  decide
example : ((view true).fc = [] ∧ (view true).h = []) ∧ (view true).f ≠ 0 ∧ earlyFixed caps (view true) x0 = false ∧
    (innerRun (arith F64.zero) caps user (isresMk arithDummy prop) 10 (view true) false x0 F64.zero 0).2.2 = true ∧
    (layersOf caps (view true)).memo = false := by decide

/-- minimising: three user invocations at (+0.0, 0.5), (+0.0, 1.0), (+0.0, 2.0) with values 0.5, 1.0, 2.0; the call
    returns MAXEVAL_REACHED (a success code) with the first evaluated pair, counter 3; every user answer is one number, not
    NaN (hypothesis `hnum` of C05) -/
example : (optimize (arith F64.zero) caps user (isresMk arithDummy prop) 10 (view false) false x0 F64.zero 0).1.map
      (fun o => (o.ret, o.x, o.optf, o.after.numevals)) = some (5, [F64.zero, half], half, 3) := by decide
example : (optimize (arith F64.zero) caps user (isresMk arithDummy prop) 10 (view false) false x0 F64.zero 0).1.map
      (fun o => o.utrace.map (fun u => (u.1.x, u.2.val))) =
    some [([F64.zero, half], [half]), ([F64.zero, F64.one], [F64.one]), ([F64.zero, WrapEx.two], [WrapEx.two])] := by decide
example : (optimize (arith F64.zero) caps user (isresMk arithDummy prop) 10 (view false) false x0 F64.zero 0).1.map
      (fun o => o.utrace.map (fun u => (u.1.fn, u.1.wantGrad))) =
    some [(.obj, false), (.obj, false), (.obj, false)] := by decide
example : half.isNaN = false ∧ F64.one.isNaN = false ∧ WrapEx.two.isNaN = false := by decide

/-- maximising: the same three invocations; the call returns the LAST pair ((+0.0, 2.0), 2.0) -/
example : (optimize (arith F64.zero) caps user (isresMk arithDummy prop) 10 (view true) false x0 F64.zero 0).1.map
      (fun o => (o.ret, o.x, o.optf, o.after.numevals)) = some (5, [F64.zero, WrapEx.two], WrapEx.two, 3) := by decide

/-- forced stop during the second invocation: FORCED_STOP, exactly two invocations, the flag reads 7 afterwards; the
    result is the incumbent, the first evaluated pair -/
example : (optimize (arith F64.zero) caps userStop (isresMk arithDummy prop) 10 (view false) false x0 F64.zero 0).1.map
      (fun o => (o.ret, o.x, o.optf, o.after.numevals, o.utrace.length, o.after.forceStop)) =
    some (-5, [F64.zero, half], half, 2, 2, 7) := by decide

/-- stopval 0.75, minimising: the first value 0.5 is strictly below it: STOPVAL_REACHED after one invocation -/
example : (optimize (arith F64.zero) caps user (isresMk arithDummy prop) 10
      { view false with stopval := ⟨0x3FE8000000000000⟩ } false x0 F64.zero 0).1.map
      (fun o => (o.ret, o.x, o.optf, o.after.numevals)) = some (2, [F64.zero, half], half, 1) := by decide

end WEx

end Nlopt.E2EIsres
