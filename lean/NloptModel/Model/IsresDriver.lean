import NloptModel.Model.F64
import NloptModel.Model.Stop
import NloptModel.Model.Isres
/-!
# Control-flow model of `isres_minimize` (src/algs/isres/isres.c), the driver of NLOPT_GN_ISRES

`run A c evs` consumes the sequence of EVALUATIONS made by the driver and decides, exactly like the C code, after every
evaluation whether the run goes on or returns, with which result code, which `x` and which `*minf`.

## What one event is

One event = one pass through the body of `for (k = 0; k < population; ++k)` of isres.c, i.e. one population member:
the objective callback, then the `m` inequality-constraint callbacks, then the `p` equality-constraint callbacks
(`nlopt_eval_constraint`; one callback per constraint OBJECT, which may be vector valued).

    structure Ev   x    : the point handed to the callbacks (xs + k*n)
                   f    : the value the objective returned
                   stop : 0 = `nlopt_stop_forced` was false at every test made during this event;
                          j >= 1 = the j-th forced-stop test of this event is the first one that saw the flag set:
                            1           the test right after the objective callback           (isres.c line 139)
                            1+k (k>=1)  the test right after the k-th constraint callback, inequality constraints
                                        first, then the equality constraints                  (lines 145, 158)
                            > 1+m+p     the test at the end of the loop body (line 195).  No callback runs between the
                                        last constraint test and that one, so this needs an asynchronous
                                        `nlopt_force_stop` (signal handler / other thread).
                          `Ev.forced e` is `e.stop != 0`.
                   gs   : the result vectors of the inequality constraints as the driver read them from `results[]`,
                          one vector per constraint object, in order (only those evaluated before a stop are read)
                   hs   : the same for the equality constraints

`feasible`, `penalty[k]` and `gpenalty` are COMPUTED by the model (`member`) with the `Arith` parameter exactly as
isres.c does: `penalty = 0; for each g: if (g > tol) feasible = 0; if (g < 0) g = 0; penalty += g*g;` then
`gpenalty = penalty;` then `for each h: if (fabs(h) > tol) feasible = 0; penalty += h*h;`.
The tolerances are in the configuration (`gtol`, `htol`: one vector per constraint object, which also fixes m, p and the
dimensions).  Events are expected to have the same shape (`gs` like `gtol`, `hs` like `htol`, `x` of length n); the model is
total anyway (components without partner are ignored, a missing vector counts as empty).

## What is modelled / not modelled

Modelled statement by statement: the entry code (`*minf = HUGE_VAL`, default population `20*(n+1)`, `population < 1` and
infinite-bound tests → INVALID_ARGS), `++*nevals_p`, the three families of forced-stop tests and their position, the
incumbent rule (it is literally `Isres.accepts` / `Isres.update` of Model/Isres.lean), the tests made on acceptance in
their order (`fval < minf_max && feasible` → MINF_MAX_REACHED (2), else — only if `*minf` is not ±Inf —
`nlopt_stop_f(fval,*minf) && nlopt_stop_f(pen, minf_penalty)` → FTOL_REACHED (3), else `nlopt_stop_x(xs_k, x)` →
XTOL_REACHED (4)), the copy into `x`/`*minf`/`minf_penalty`/`minf_gpenalty` BEFORE the `goto done`, and the tests at the
end of the body (forced → -5, `nlopt_stop_evals` → 5).  NaN: every comparison is the IEEE one (false on NaN); nothing in
this driver depends on an order that NaN could make inconsistent, so the model is exact for NaN values too.
One pass through the loop body is split in two total functions: `post` (the memory after the pass) and `verdict`
(`goto done` with which code, or go on); `go` iterates them over the event list (structural recursion, no fuel).
NLOPT_SUCCESS (1) is never returned by this driver; `Res.ret = 0` is the placeholder of a `short` run.

The model was compared bit for bit with `isres_minimize` compiled from the unchanged C sources on 2000 scripted random
runs (replay/isres_replay.c, replay/compare.sh: all six result codes, NaN/Inf/underflow values, vector constraints,
stops raised in every callback position) and on the concrete witnesses of Props/DrvIsres.lean (replay/witnesses.c).

Not modelled (it is the proposer): the random initial population, the ranking (`all_feasible` only selects the ranking
method), survivor selection (`survivors = ceil(population/7)`), mutation.  NOTHING in the control flow depends on the
generation structure: no test is made "once per generation" (no xtol test on the population), so the population size
matters only through the `population < 1` test; `popSize` is provided for reference.  In a real run event number
`g*population + k` is member `k` of generation `g`, and the first event's point is the caller's `x0` (`memcpy(xs, x, ..)`);
the model does not check this.  Time limit (maxtime = 0), malloc failure (-3) and `int` overflow of `20*(n+1)` are out of
scope.  `isres_minimize` sees the problem AFTER the dimension elimination of `nlopt_optimize` (ISRES is in
`elimdim_wrapcheck`) and after the `maximize` sign flip: `Cfg`, the events and `Res` are at the level of `isres_minimize`.

`*minf` is written on entry (`HUGE_VAL`), so `Res.minf` is never `none`.

## Line protocol (`nlopt_model isres`)

Tokens are separated by one space.  A double is 16 lower-case hex digits (its bits).  `<vec>` = comma separated doubles,
`-` for the empty/absent vector.  `<vecs>` = `<vec>`s separated by `;` (one per constraint object), `-` for none.

    cfg key=value ...      starts a new run (resets everything), prints nothing.  Keys (all optional, any order):
        n=<nat>            dimension (default 0)
        pop=<int>          the `population` argument of isres_minimize, 0 = default (default 0)
        maxeval=<int>      (default 0 = no limit)
        stopval=<double>   minf_max (default fff0000000000000 = -Inf)
        ftol_rel= ftol_abs= xtol_rel=<double>   (default 0)
        xtol_abs=<vec|->   `-`/absent = NULL pointer
        xw=<vec|->         x_weights, `-`/absent = NULL pointer
        x0=<vec>           the caller's x on entry
        lb=<vec> ub=<vec>  bounds (only `nlopt_isinf` of them is read); absent = no infinite bound
        gtol=<vecs|->      tolerances of the inequality constraints, one vector per constraint object
        htol=<vecs|->      tolerances of the equality constraints
    ev <xvec> <f> <stop> [<gs> [<hs>]]
                           appends an event, prints nothing.  `<stop>` is the decimal number described above (0 and 1 have
                           the meaning of the common `<0|1>` forced flag); `<gs>`, `<hs>` are `<vecs>` (default `-`)
    end                    prints `<ret> <nevals> <xvec> <minf hex or -> <short 0|1>`
    anything else          prints `bad-op`

Worked example (n = 1, one scalar inequality constraint with tolerance 0, maxeval = 3; f values 1, 2, 0.5;
g values 1 (infeasible), -1 (feasible), -1 (feasible)):

    cfg n=1 maxeval=3 x0=0000000000000000 lb=bff0000000000000 ub=4000000000000000 gtol=0000000000000000
    ev 0000000000000000 3ff0000000000000 0 3ff0000000000000
    ev 3ff0000000000000 4000000000000000 0 bff0000000000000
    ev 3fe0000000000000 3fe0000000000000 0 bff0000000000000
    end

prints `5 3 3fe0000000000000 3fe0000000000000 0` (MAXEVAL_REACHED after 3 evaluations, the feasible point with f = 0.5).
-/
namespace Nlopt.IsresDrv
open Nlopt

/-- one population member's evaluation (see the file header) -/
structure Ev where
  x : List F64
  f : F64
  stop : Nat := 0
  gs : List (List F64) := []
  hs : List (List F64) := []
  deriving DecidableEq, Inhabited

/-- `nlopt_force_stop` was seen during this event -/
def Ev.forced (e : Ev) : Bool := e.stop != 0

/-- what the control flow of `isres_minimize` reads.  Of `stop : Stopping` the fields `n, minfMax, ftolRel, ftolAbs,
    xtolRel, xtolAbs, xWeights, maxeval` are used; `nevals, maxtime, start, forceStop` are ignored. -/
structure Cfg where
  n : Nat
  pop : Int := 0
  lb : List F64 := []
  ub : List F64 := []
  x0 : List F64
  gtol : List (List F64) := []
  htol : List (List F64) := []
  stop : Stopping

structure Res where
  ret : Int
  nevals : Nat
  x : List F64
  minf : Option F64
  short : Bool
  deriving DecidableEq, Inhabited

/-- `if (!population) population = 20 * (n + 1);` -/
def popSize (c : Cfg) : Int := if c.pop = 0 then 20 * ((c.n : Int) + 1) else c.pop

/-- the two INVALID_ARGS tests at entry pass -/
def valid (c : Cfg) : Bool :=
  decide (1 ≤ popSize c) && !((c.lb.take c.n).any F64.isInf || (c.ub.take c.n).any F64.isInf)

/-- number of constraint callbacks per event -/
def ncb (c : Cfg) : Nat := c.gtol.length + c.htol.length

/-! ## constraint evaluation of one member -/

/-- (`feasible`, `penalty[k]`) while the constraint loops run -/
structure Acc where
  feas : Bool
  pen : F64
  deriving DecidableEq

/-- one component of an inequality constraint; `tg = (tol, gval)` -/
def gStep (A : Arith) (a : Acc) (tg : F64 × F64) : Acc :=
  ⟨if F64.gt tg.2 tg.1 then false else a.feas,
   let g := if F64.lt tg.2 F64.zero then F64.zero else tg.2
   A.add a.pen (A.mul g g)⟩

/-- one component of an equality constraint; `th = (tol, hval)` -/
def hStep (A : Arith) (a : Acc) (th : F64 × F64) : Acc :=
  ⟨if F64.gt th.2.abs th.1 then false else a.feas, A.add a.pen (A.mul th.2 th.2)⟩

/-- `for (c = ..) { nlopt_eval_constraint; if (nlopt_stop_forced(stop)) goto done; for (ires..) ... }`:
    `idx` = number of the forced-stop test after the next callback, `tols` = remaining constraint objects, `res` = the
    remaining result vectors of the event.  `none` = the forced-stop test number `stopAt` is reached. -/
def consLoop (step : Acc → F64 × F64 → Acc) (stopAt : Nat) : Nat → List (List F64) → List (List F64) → Acc → Option Acc
  | _, [], _, a => some a
  | idx, tol :: tols, res, a =>
    if stopAt = idx then none
    else consLoop step stopAt (idx + 1) tols res.tail ((List.zip tol (res.headD [])).foldl step a)

/-- the data of member number `k` (0-based count of evaluations) as the incumbent rule of Model/Isres.lean wants it;
    `none` = a forced stop was seen right after the objective callback (line 139) or right after one of the constraint
    callbacks (lines 145 / 158): the member is not (completely) evaluated -/
def member (A : Arith) (c : Cfg) (e : Ev) (k : Nat) : Option Isres.Ev :=
  if e.stop = 1 then none
  else match consLoop (gStep A) e.stop 2 c.gtol e.gs ⟨true, F64.zero⟩ with
    | none => none
    | some a1 =>
      match consLoop (hStep A) e.stop (2 + c.gtol.length) c.htol e.hs a1 with
      | none => none
      | some a2 => some ⟨e.f, a2.feas, a2.pen, a1.pen, k⟩

/-! ## the loop -/

/-- `inc` = (`*minf`, `minf_penalty`, `minf_gpenalty`, number of the event that is the incumbent), `x` = the caller's
    array, `nev` = `*nevals_p` -/
structure St where
  inc : Isres.Inc := {}
  x : List F64
  nev : Nat := 0

def St.res (s : St) (ret : Int) (short : Bool := false) : Res := ⟨ret, s.nev, s.x, some s.inc.minf, short⟩

/-- the value of `ret` after the tests made inside the acceptance branch (1 = still NLOPT_SUCCESS);
    `s` = state BEFORE the copy, `m` = the accepted member -/
def acceptRet (A : Arith) (c : Cfg) (s : St) (e : Ev) (m : Isres.Ev) : Int :=
  if F64.lt m.f c.stop.minfMax && m.feas then 2                                            -- line 178
  else if !s.inc.minf.isInf then                                                             -- line 180
    if Stop.f A c.stop m.f s.inc.minf && Stop.f A c.stop (Isres.effPen m) s.inc.pen then 3   -- lines 181-184
    else if Stop.x A c.stop e.x s.x then 4                                                   -- line 185
    else 1
  else 1

/-- the memory (`*nevals_p`, `x`, `*minf`, `minf_penalty`, `minf_gpenalty`) after one pass through the body of the
    evaluation loop, whether the loop goes on or not: `++*nevals_p`; if the member was completely evaluated and the
    incumbent rule accepts it, lines 188-191 (they are executed BEFORE `if (ret != NLOPT_SUCCESS) goto done`) -/
def post (A : Arith) (c : Cfg) (s : St) (e : Ev) : St :=
  match member A c e s.nev with
  | none => { s with nev := s.nev + 1 }
  | some m => { inc := Isres.update s.inc m, x := if Isres.accepts s.inc m then e.x else s.x, nev := s.nev + 1 }

/-- `ret` when line 192 is reached (1 = NLOPT_SUCCESS: the acceptance branch was not taken or none of its tests fired) -/
def accRet (A : Arith) (c : Cfg) (s : St) (e : Ev) (m : Isres.Ev) : Int :=
  if Isres.accepts s.inc m then acceptRet A c s e m else 1

/-- does the pass through the loop body end with `goto done` (`some ret`) or does the loop go on (`none`)? -/
def verdict (A : Arith) (c : Cfg) (s : St) (e : Ev) : Option Int :=
  match member A c e s.nev with
  | none => some (-5)                                                        -- lines 139 / 145 / 158
  | some m =>
    if accRet A c s e m ≠ 1 then some (accRet A c s e m)                     -- line 192
    else if e.stop ≠ 0 then some (-5)                                        -- line 195 (late, asynchronous stop)
    else if Stop.evals c.stop.maxeval ((s.nev + 1 : Nat) : Int) then some 5  -- line 196
    else none

/-- the evaluation loop; when the events run out: `short` -/
def go (A : Arith) (c : Cfg) : St → List Ev → Res
  | s, [] => s.res 0 true
  | s, e :: es =>
    match verdict A c s e with
    | none => go A c (post A c s e) es
    | some r => (post A c s e).res r

def St.init (c : Cfg) : St := { x := c.x0 }

/-- `isres_minimize` -/
def run (A : Arith) (c : Cfg) (evs : List Ev) : Res :=
  if valid c then go A c (St.init c) evs
  else ⟨-2, 0, c.x0, some F64.posInf, false⟩

/-! ## line protocol -/

structure DrvSt where
  cfg : Option Cfg := none
  revs : List Ev := []          -- newest first

def tokens (line : String) : List String := (line.trimAscii.toString.splitOn " ").filter (· ≠ "")

def pF (t : String) : F64 := (F64.ofHex? t).getD F64.zero
def pVec (t : String) : List F64 := if t == "-" || t == "" then [] else (t.splitOn ",").map pF
def pVecs (t : String) : List (List F64) := if t == "-" || t == "" then [] else (t.splitOn ";").map pVec
def pOptVec (t : String) : Option (List F64) := if t == "-" || t == "" then none else some (pVec t)

def kv (toks : List String) (k : String) : String :=
  match toks.find? (·.startsWith (k ++ "=")) with
  | some t => (t.drop (k.length + 1)).toString
  | none => ""

def hexVec (l : List F64) : String := if l.isEmpty then "-" else ",".intercalate (l.map F64.toHex)

def parseCfg (toks : List String) : Cfg :=
  let fl (k : String) (d : F64) : F64 := if kv toks k == "" then d else pF (kv toks k)
  { n := (kv toks "n").toNat?.getD 0
    pop := (kv toks "pop").toInt?.getD 0
    lb := pVec (kv toks "lb"), ub := pVec (kv toks "ub"), x0 := pVec (kv toks "x0")
    gtol := pVecs (kv toks "gtol"), htol := pVecs (kv toks "htol")
    stop := { n := (kv toks "n").toNat?.getD 0
              minfMax := fl "stopval" F64.negInf
              ftolRel := fl "ftol_rel" F64.zero, ftolAbs := fl "ftol_abs" F64.zero, xtolRel := fl "xtol_rel" F64.zero
              xtolAbs := pOptVec (kv toks "xtol_abs"), xWeights := pOptVec (kv toks "xw")
              nevals := 0, maxeval := (kv toks "maxeval").toInt?.getD 0
              maxtime := F64.zero, start := F64.zero, forceStop := 0 } }

def showRes (r : Res) : String :=
  let mf := match r.minf with | some m => m.toHex | none => "-"
  s!"{r.ret} {r.nevals} {hexVec r.x} {mf} {if r.short then 1 else 0}"

def drvStep (A : Arith) (st : DrvSt) (line : String) : DrvSt × String :=
  match tokens line with
  | "cfg" :: toks => ({ cfg := some (parseCfg toks), revs := [] }, "")
  | ["ev", x, f, s] => ({ st with revs := ⟨pVec x, pF f, s.toNat?.getD 0, [], []⟩ :: st.revs }, "")
  | ["ev", x, f, s, gs] => ({ st with revs := ⟨pVec x, pF f, s.toNat?.getD 0, pVecs gs, []⟩ :: st.revs }, "")
  | ["ev", x, f, s, gs, hs] => ({ st with revs := ⟨pVec x, pF f, s.toNat?.getD 0, pVecs gs, pVecs hs⟩ :: st.revs }, "")
  | ["end"] =>
    match st.cfg with
    | some c => (st, showRes (run A c st.revs.reverse))
    | none => (st, "bad-op")
  | _ => (st, "bad-op")

end Nlopt.IsresDrv
