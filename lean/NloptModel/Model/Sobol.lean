/-
  Model of the Sobol' low-discrepancy sequence generator of NLopt:
    src/util/sobolseq.c  +  src/util/soboldata.h   (tables: Generated/SobolTables.lean)

  Core Lean only (this file is linked into the executable).

  All C objects of type `uint32_t` / `unsigned` are modelled as `Nat`s; every C
  operation that can leave the 32-bit range (`<<`, `++`, `--`, `*`) is followed by an
  explicit `wrap32` (reduction mod 2^32).  The functions that do the arithmetic take the
  wrapping function `wr` as a parameter: the *model* instantiates it with `wrap32`,
  and `Lemmas/SobolLemmas.lean` PROVES that the result is the same as with `wr = id`
  (i.e. no 32-bit overflow ever happens) -- nothing about overflow is assumed.

  Outcomes of the C code that are NOT ordinary values are kept visible:
    * `1U << (b+1)` with `b = 31` is a shift by the width of the type -- undefined
      behaviour in C.  `Coord.shiftOverflow` is `true` exactly in that case.
    * `sobol_gen` refuses (returns 0) when `n = 2^32 - 1`:  `gen = none`.
    * `nlopt_sobol_skip` does not terminate when `n > 2^31` (`k*2` wraps to 0):
      `skipCount = none`.
  malloc failures are not modelled.
-/
import NloptModel.Generated.SobolTables

namespace Nlopt.Sobol
open Nlopt.Sobol.Tables

/-- reduction of a mathematical integer to a `uint32_t` -/
def wrap32 (x : Nat) : Nat := x % 4294967296

/-! ### `sobol_init`: direction numbers -/

/-- `while (a) { ++d; a >>= 1; }` started with `d = 0`; result is the final `d`.
    32 iterations of fuel are enough for a `uint32_t`. -/
def bitLen : Nat → Nat → Nat
  | 0, _ => 0
  | f + 1, a => if a = 0 then 0 else bitLen f (a >>> 1) + 1

/-- the loop above followed by `d--` (on an `unsigned`: wraps for `a = 0`). -/
def degree (a : Nat) : Nat := wrap32 (bitLen 32 a + 4294967295)

/-- `((a & 1) * m[j - d + k]) << (d - k)` -/
def recurTerm (wr : Nat → Nat) (m : List Nat) (j d k a : Nat) : Nat :=
  wr (wr ((a &&& 1) * m.getD (j - d + k) 0) <<< (d - k))

/-- `for (k = ..; k < d; ++k) { acc ^= term; a >>= 1; }` with `fuel = d - k`. -/
def recurLoop (wr : Nat → Nat) (m : List Nat) (j d : Nat) : Nat → Nat → Nat → Nat → Nat
  | 0, _, _, acc => acc
  | f + 1, k, a, acc =>
      recurLoop wr m j d f (k + 1) (a >>> 1) (acc ^^^ recurTerm wr m j d k a)

/-- the new direction number `m[j]` computed from `m[0..j-1]` (`j ≥ d`). -/
def newM (wr : Nat → Nat) (m : List Nat) (a d j : Nat) : Nat :=
  recurLoop wr m j d d 0 a (m.getD (j - d) 0)

/-- `for (j = ..; j < 32; ++j) m[j] = newM ..` with `fuel = 32 - j`;
    `m` is the list `m[0..j-1]`. -/
def fillLoop (wr : Nat → Nat) (a d : Nat) : Nat → Nat → List Nat → List Nat
  | 0, _, m => m
  | f + 1, j, m => fillLoop wr a d f (j + 1) (m ++ [newM wr m a d j])

/-- Direction numbers `m[0..31][i]` of dimension `i` (0-based, as in the C code). -/
def initMG (wr : Nat → Nat) (i : Nat) : List Nat :=
  if i = 0 then List.replicate 32 1
  else
    let a := sobolA (i - 1)
    let d := degree a
    let m0 := (List.range d).map (fun j => sobolMinit j (i - 1))
    fillLoop wr a d (32 - d) d m0

/-- the model proper: 32-bit wrapping arithmetic -/
def initM (i : Nat) : List Nat := initMG wrap32 i

/-- the same computation in unbounded arithmetic (specification side) -/
def initMExact (i : Nat) : List Nat := initMG id i

/-! ### generator state -/

/-- per-dimension part of `soboldata`: column `i` of `m`, `x[i]`, `b[i]`. -/
structure DimState where
  m : List Nat
  x : Nat
  b : Nat
deriving Repr, BEq, DecidableEq

structure State where
  sdim : Nat
  dims : List DimState
  n : Nat
deriving Repr

/-- "no generator" (before `init`, or after a failed `init`) -/
def State.empty : State := { sdim := 0, dims := [], n := 0 }

/-- `sobol_init`; `none` = returns 0. -/
def init (sdim : Nat) : Option State :=
  if sdim = 0 ∨ sdim > maxdim then none
  else some { sdim := sdim
              dims := (List.range sdim).map (fun i => { m := initM i, x := 0, b := 0 })
              n := 0 }

/-! ### `rightzero32` -/

/-- `__builtin_ctz(~n)`: position of the least significant zero bit of `n`.
    Fuel 32; the value 32 stands for the undefined `__builtin_ctz(0)` (`n = 2^32 - 1`),
    which the caller excludes. -/
def rzLoop : Nat → Nat → Nat
  | 0, _ => 0
  | f + 1, n => if n % 2 = 0 then 0 else rzLoop f (n / 2) + 1

def rightzero32 (n : Nat) : Nat := rzLoop 32 n

/-- The portable branch of `rightzero32` (Knuth's multiplication trick), for compilers
    other than gcc. -/
def rzDecode : List Nat :=
  [0, 1, 2, 26, 23, 3, 15, 27, 24, 21, 19, 4, 12, 16, 28, 6, 31, 25, 22, 14, 20, 18, 11, 5,
   30, 13, 17, 10, 29, 9, 8, 7]

def rightzero32Portable (n : Nat) : Nat :=
  let n1 := 4294967295 - n                      -- ~n   (n < 2^32)
  let neg := wrap32 (4294967296 - n1)           -- -n1  (unsigned)
  let n2 := wrap32 (0x05f66a47 * (n1 &&& neg))
  rzDecode.getD (n2 >>> 27) 0

/-! ### `sobol_gen` -/

/-- body of the loop over `i` in `sobol_gen`, integer part. -/
def stepDim (wr : Nat → Nat) (c : Nat) (s : DimState) : DimState :=
  let mc := s.m.getD c 0
  if s.b ≥ c then { s with x := s.x ^^^ wr (mc <<< (s.b - c)) }
  else { s with x := wr (s.x <<< (c - s.b)) ^^^ mc, b := c }

/-- What `sobol_gen` stores in the output array: the double
    `((double) x[i]) / (1U << (b + 1))` with `b` the *updated* `b[i]`.
    `num = x[i]`, `shift = b + 1`; the value is `num / 2^shift` provided
    `shiftOverflow = false`.  `shiftOverflow = true` means the C code evaluates `1U << 32`
    (undefined behaviour).  When there is no overflow the value is exact: `(double) x` is
    exact (`x < 2^32 < 2^53`), `1U << shift` is a power of two, and dividing a double
    by a power of two is exact in the absence of underflow. -/
structure Coord where
  num : Nat
  shift : Nat
  shiftOverflow : Bool
deriving Repr, BEq, DecidableEq

def coordOf (s : DimState) : Coord :=
  { num := s.x, shift := s.b + 1, shiftOverflow := decide (s.b + 1 ≥ 32) }

/-- `sobol_gen`; `none` = returns 0 (`n = 2^32 - 1`), state unchanged. -/
def gen (st : State) : Option (State × List Coord) :=
  if st.n = 4294967295 then none
  else
    let c := rightzero32 st.n
    let dims' := st.dims.map (stepDim wrap32 c)
    some ({ st with dims := dims', n := wrap32 (st.n + 1) }, dims'.map coordOf)

/-- state after one call of `sobol_gen` (unchanged when it refuses). -/
def gen1 (st : State) : State :=
  match gen st with
  | some (s, _) => s
  | none => st

/-- `k` calls of `sobol_gen` (tail recursive, as the C loop). -/
def genN : Nat → State → State
  | 0, st => st
  | k + 1, st => genN k (gen1 st)

/-! ### `nlopt_sobol_skip` -/

/-- `k = ..; while (k * 2 < n) k *= 2;` -- `k * 2` is a 32-bit product.
    `none` = fuel exhausted; 40 iterations of fuel are more than any terminating run
    needs, and `Lemmas` shows that `none` is returned exactly when the C loop diverges
    (`n > 2^31`: `k` becomes 0 and stays 0). -/
def skipLoop : Nat → Nat → Nat → Option Nat
  | 0, _, _ => none
  | f + 1, k, n => if wrap32 (k * 2) < n then skipLoop f (wrap32 (k * 2)) n else some k

def skipCount (n : Nat) : Option Nat := skipLoop 40 1 n

/-- `nlopt_sobol_skip(s, n, x)` for `s != NULL`; `none` = does not terminate. -/
def skip (st : State) (n : Nat) : Option State :=
  match skipCount n with
  | some k => some (genN k st)
  | none => none

/-! ### line protocol driver -/

def hexDigit (d : Nat) : Char :=
  if d < 10 then Char.ofNat (48 + d) else Char.ofNat (87 + d)

/-- 8 lower-case hex digits of `n mod 2^32` -/
def hex8 (n : Nat) : String :=
  String.ofList ((List.range 8).map (fun k => hexDigit ((n >>> (4 * (7 - k))) % 16)))

def showDims (ds : List DimState) : String :=
  " ".intercalate (ds.map (fun s => hex8 s.x ++ ":" ++ toString s.b))

/-- One protocol line.
      init <sdim>   -> "ok" | "fail"
      next          -> "<x[0] 8 hex>:<b[0]> <x[1] 8 hex>:<b[1]> ..."  (raw state after the step)
      skip <n>      -> "ok"   ("diverge" if the C loop would not terminate)
      m <dim> <j>   -> m[j][dim] as 8 hex digits
    anything else (or a command without a generator) -> "bad-op" -/
def sobolStep (st : State) (line : String) : State × String :=
  match line.trimAscii.toString.splitOn " " with
  | ["init", a] =>
      match a.toNat? with
      | some sdim =>
          match init sdim with
          | some s => (s, "ok")
          | none => (State.empty, "fail")
      | none => (st, "bad-op")
  | ["next"] =>
      if st.sdim = 0 then (st, "bad-op")
      else let s := gen1 st; (s, showDims s.dims)
  | ["skip", a] =>
      match a.toNat? with
      | some n =>
          if st.sdim = 0 ∨ n ≥ 4294967296 then (st, "bad-op")
          else match skip st n with
            | some s => (s, "ok")
            | none => (st, "diverge")
      | none => (st, "bad-op")
  | ["m", a, b] =>
      match a.toNat?, b.toNat? with
      | some dim, some j =>
          if st.sdim = 0 ∨ dim ≥ st.sdim ∨ j ≥ 32 then (st, "bad-op")
          else (st, hex8 (((st.dims.getD dim { m := [], x := 0, b := 0 }).m).getD j 0))
      | _, _ => (st, "bad-op")
  | _ => (st, "bad-op")

end Nlopt.Sobol
