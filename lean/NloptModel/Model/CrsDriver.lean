import NloptModel.Model.F64
import NloptModel.Model.Stop
/-!
# Control-flow model of the Controlled-Random-Search driver (`src/algs/crs/crs.c`)

`crs_minimize` (with `crs_init` and `crs_trial`) as a total function `run` that CONSUMES THE SEQUENCE OF OBJECTIVE
EVALUATIONS.  An event `Ev` is one call of the user's objective: the point handed to it, the value it returned, and
whether `nlopt_force_stop` was raised during that call.  How the points are proposed (Sobol / Mersenne-Twister draws,
`random_trial`, the local mutation, the clamping to the bounds) is NOT modelled: bounds play no role in the control
flow.  What IS modelled, statement by statement:

`crs_init`
  * `N = population ? population : 10*(n+1)`; `N < n+1` → `NLOPT_INVALID_ARGS` (-2) before any evaluation
    (x and *minf untouched);
  * for every initial point `i = 0 .. N-1` (point 0 is the caller's x):  evaluate, `++nevals`;
      `nlopt_stop_forced` → return FORCED_STOP (-5) *before* the point is inserted;
      insert slot `i` into the red-black tree;
      `f < minf_max` → return MINF_MAX_REACHED (2);   (strict `<`)
      `nlopt_stop_evals` → return MAXEVAL_REACHED (5);
  * otherwise SUCCESS (1).
`crs_minimize`
  * `ret < 0` (only -2, -5 are modelled; OUT_OF_MEMORY is not) → return, x and *minf untouched;
  * otherwise `*minf, x := ` the tree minimum — ALSO when `crs_init` returned 2 or 5 with an incomplete population;
  * `while (ret == SUCCESS)`: `crs_trial`; if it returned SUCCESS (a trial point was accepted):
      `best := ` tree minimum; `if (best.f < *minf) { if (best.f < minf_max) ret = 2; else if (nlopt_stop_f(best.f, *minf))
      ret = 3; else if (nlopt_stop_x(best.x, x)) ret = 4;  *minf, x := best }`;
      `if (ret == SUCCESS && nlopt_stop_evals) ret = 5`.
    NOTE the predicate is `nlopt_stop_f`, i.e. `f <= minf_max || ftol-test` (`Stop.f`), not `nlopt_stop_ftol`: a new best
    value EQUAL to stopval returns FTOL_REACHED (3) whatever the tolerances are.
`crs_trial`  (`best`, `worst` = tree min / max are fixed for the whole call; the population is not changed by rejected
  trials, so recomputing them per evaluation, as the model does, gives the same nodes)
  * evaluate, `++nevals`; forced → return -5;  `f < worst.f` → ACCEPT: overwrite the worst slot, re-sort, return SUCCESS
    (the maxeval test is skipped here and made by `crs_minimize` after the incumbent update);
    else `nlopt_stop_evals` → return 5; else propose the next trial (mutation or a new reflection) and loop.

## The tree order
`crs_compare(k1,k2)`: `*k1 < *k2` → -1, `*k1 > *k2` → +1, else `(int)(k1 - k2)`: value first, slot address as the
tie-breaker.  When no value in the tree is NaN this is a strict total order on the slots (`-0.0` and `+0.0` tie and are
ordered by slot), so tree-min = the slot with the least value, LOWEST slot index among equals, and tree-max = the slot with
the greatest value, HIGHEST slot index among equals.  `best` / `worst` below are the left-to-right scans
`cur := s_0; for i ≥ 1: if compare(s_i, cur) < 0 (resp. > 0) then cur := s_i`; since `i >` the index of `cur`, `compare < 0`
is `s_i.f < cur.f` and `compare > 0` is `!(s_i.f < cur.f)`.

**NaN limitation.**  If an objective value is NaN, `crs_compare` orders that slot against every other slot by ADDRESS only,
which is not a transitive relation together with the value order; the node the C tree then reports as min / max depends on
the shape of the tree (insertion history and rotations), which this model does not track.  The model stays total (the scans
above are computed with the same comparator), and it coincides with the C code for trees of at most two nodes, but for NaN
values in larger populations it is a plausible rather than an exact prediction.  All order-dependent theorems (T4, T5) carry
the explicit hypothesis that the consumed values are not NaN; T1, T2, T3 hold for all values.

To make the order-independent theorems cover the C code in that case as well, the driver is written against an interface
`Sel` (the tree's answers to "min?" and "max?"): `runWith A S c evs` for an arbitrary `S : Sel`, and
`run A c evs = runWith A scan c evs` for the scans above.  T1 and T2 are proved for EVERY `S`, T3 for every `S` that
reports a node of the tree as its minimum (`Sel.BestMem`), which the C tree does whatever its order is.

Other things not modelled: the time limit (maxtime = 0), `malloc` failure, `int` overflow of `10*(n+1)` and of the
evaluation counter, an objective that writes through its `const double *x`.

## Line protocol (`nlopt_model crs`)
Tokens are separated by single spaces.  A double is the 16 lower-case hex digits of its bit pattern; a vector is a
comma-separated list of doubles, or `-` for the empty / absent vector.

  `cfg <key>=<value> ...`   starts a new run (forgets the previous configuration and events); prints nothing.  Keys
                            (all optional, any order):
                              n=<nat>            dimension                                     (default 0)
                              pop=<int>          the `population` argument of crs_minimize     (default 0 → 10*(n+1))
                              maxeval=<int>      stop->maxeval (≤ 0: no limit)                 (default 0)
                              stopval=<double>   stop->minf_max                                (default -inf)
                              ftol_rel= ftol_abs= xtol_rel=<double>                            (default +0.0)
                              xtol_abs=<vec|->   stop->xtol_abs, `-` = NULL                    (default NULL)
                              xw=<vec|->         stop->x_weights, `-` = NULL                   (default NULL)
                              x0=<vec>           the caller's x on entry                       (default empty)
                            a malformed token prints `bad-op` and leaves the state unchanged.
  `ev <xvec> <f> <0|1>`     appends one evaluation: the point, the value returned, 1 iff force_stop was raised during
                            this evaluation; prints nothing.
  `end`                     runs the model on the collected events and prints ONE line
                              `<ret> <nevals> <xvec> <minf hex or -> <short 0|1>`
                            (`<xvec>` is `-` when empty; short = 1: the events ran out before the driver returned, `<ret>`
                            is then 0 and x / minf are the current contents of the caller's variables).  The state is kept.
  anything else             prints `bad-op`.

Worked example (n = 1, population 2, stopval 0.5; values 3.0, 2.0 fill the population, then a trial 0.25 < worst is accepted,
replaces the worst slot (value 3.0), becomes the tree minimum, improves on *minf = 2.0 and is below stopval):

    cfg n=1 pop=2 stopval=3fe0000000000000 x0=3ff0000000000000
    ev 3ff0000000000000 4008000000000000 0
    ev 4000000000000000 4000000000000000 0
    ev 4008000000000000 3fd0000000000000 0
    end
  prints
    2 3 4008000000000000 3fd0000000000000 0
-/
namespace Nlopt.CrsDrv
open Nlopt

/-- one objective evaluation -/
structure Ev where
  /-- the point handed to the objective -/
  x : List F64
  /-- the value the objective returned -/
  f : F64
  /-- `nlopt_force_stop` was raised during THIS evaluation -/
  forced : Bool
  deriving DecidableEq, Inhabited

/-- everything the control flow reads -/
structure Cfg where
  n : Nat
  /-- the `population` argument of `crs_minimize` (0 = default) -/
  pop : Int := 0
  maxeval : Int := 0
  /-- `stop->minf_max` (stopval) -/
  minfMax : F64 := F64.negInf
  ftolRel : F64 := F64.zero
  ftolAbs : F64 := F64.zero
  xtolRel : F64 := F64.zero
  xtolAbs : Option (List F64) := none
  xWeights : Option (List F64) := none
  /-- the caller's `x` on entry -/
  x0 : List F64 := []
  deriving Inhabited

structure Res where
  /-- nlopt_result: 2 MINF_MAX_REACHED, 3 FTOL_REACHED, 4 XTOL_REACHED, 5 MAXEVAL_REACHED, -2 INVALID_ARGS,
      -5 FORCED_STOP (0 when `short`) -/
  ret : Int
  /-- events consumed = objective evaluations made -/
  nevals : Nat
  /-- the caller's `x` on return -/
  x : List F64
  /-- `*minf` on return; `none` = never written -/
  minf : Option F64
  /-- the event list ran out before the driver returned -/
  short : Bool
  deriving DecidableEq, Inhabited

/-- a population slot `[f(x), x]` -/
structure Slot where
  f : F64
  x : List F64
  deriving DecidableEq, Inhabited

def Ev.slot (e : Ev) : Slot := ⟨e.f, e.x⟩

/-- `d->N` as a C int -/
def Cfg.popN (c : Cfg) : Int := if c.pop = 0 then 10 * ((c.n : Int) + 1) else c.pop
/-- `d->N < n + 1` -/
def Cfg.invalid (c : Cfg) : Bool := decide (c.popN < (c.n : Int) + 1)
def Cfg.N (c : Cfg) : Nat := c.popN.toNat

/-- the `nlopt_stopping` record seen by `nlopt_stop_f` / `nlopt_stop_x` (no time limit) -/
def Cfg.stopping (c : Cfg) : Stopping :=
  { n := c.n, minfMax := c.minfMax, ftolRel := c.ftolRel, ftolAbs := c.ftolAbs, xtolRel := c.xtolRel,
    xtolAbs := c.xtolAbs, xWeights := c.xWeights, nevals := 0, maxeval := c.maxeval,
    maxtime := F64.zero, start := F64.zero, forceStop := 0 }

/-! ### tree minimum / maximum as scans in slot order -/

def bestGo : Slot → List Slot → Slot
  | cur, [] => cur
  | cur, s :: t => bestGo (if F64.lt s.f cur.f then s else cur) t

/-- `nlopt_rb_tree_min`: least value, lowest slot among equals -/
def best : List Slot → Slot
  | [] => default
  | s :: t => bestGo s t

/-- accumulator = (slot index, slot) of the current maximum; `i` = index of the head of the list -/
def worstGo : Nat × Slot → Nat → List Slot → Nat × Slot
  | cur, _, [] => cur
  | cur, i, s :: t => worstGo (if F64.lt s.f cur.2.f then cur else (i, s)) (i + 1) t

/-- `nlopt_rb_tree_max`: greatest value, highest slot among equals; with its slot index -/
def worst : List Slot → Nat × Slot
  | [] => (0, default)
  | s :: t => worstGo (0, s) 1 t

/-- How the tree answers its min / max queries.  The driver is written against this interface so that the theorems that do
    not depend on the order (T1, T2, T3) can be stated for EVERY answer the C tree may give, including the
    shape-dependent answers of an inconsistently ordered tree (NaN values). -/
structure Sel where
  /-- `nlopt_rb_tree_min` on the slots inserted so far -/
  best : List Slot → Slot
  /-- `nlopt_rb_tree_max`: slot index and slot -/
  worst : List Slot → Nat × Slot

/-- the answers of a consistently ordered tree (no NaN values): the scans above -/
def scan : Sel := ⟨best, worst⟩

/-! ### the state machine -/

/-- `pop`: the slots inserted so far, in slot order.  `inc = none`: inside `crs_init`; `inc = some ⟨*minf, x⟩`: inside the
    `while` loop of `crs_minimize`. -/
structure St where
  pop : List Slot
  inc : Option Slot
  nevals : Nat
  deriving Inhabited

inductive Out
  | cont (st : St)
  | done (r : Res)

/-- return with `x, *minf := s` -/
def retWith (ret : Int) (k : Nat) (s : Slot) : Res :=
  { ret := ret, nevals := k, x := s.x, minf := some s.f, short := false }

/-- one evaluation inside `crs_init` (followed, on a positive code, by the copy in `crs_minimize`) -/
def stepInit (S : Sel) (c : Cfg) (st : St) (e : Ev) : Out :=
  let k := st.nevals + 1
  if e.forced then .done { ret := -5, nevals := k, x := c.x0, minf := none, short := false }
  else
    let pop := st.pop ++ [e.slot]
    if F64.lt e.f c.minfMax then .done (retWith 2 k (S.best pop))
    else if Stop.evals c.maxeval k then .done (retWith 5 k (S.best pop))
    else if pop.length < c.N then .cont { pop := pop, inc := none, nevals := k }
    else .cont { pop := pop, inc := some (S.best pop), nevals := k }

/-- one evaluation inside `crs_trial` (followed, when the trial is accepted, by the body of the `while` loop) -/
def stepMain (A : Arith) (S : Sel) (c : Cfg) (st : St) (inc : Slot) (e : Ev) : Out :=
  let k := st.nevals + 1
  if e.forced then .done (retWith (-5) k inc)
  else
    let w := S.worst st.pop
    if F64.lt e.f w.2.f then
      let pop := st.pop.set w.1 e.slot
      let b := S.best pop
      if F64.lt b.f inc.f then
        if F64.lt b.f c.minfMax then .done (retWith 2 k b)
        else if Stop.f A c.stopping b.f inc.f then .done (retWith 3 k b)
        else if Stop.x A c.stopping b.x inc.x then .done (retWith 4 k b)
        else if Stop.evals c.maxeval k then .done (retWith 5 k b)
        else .cont { pop := pop, inc := some b, nevals := k }
      else if Stop.evals c.maxeval k then .done (retWith 5 k inc)
      else .cont { pop := pop, inc := some inc, nevals := k }
    else if Stop.evals c.maxeval k then .done (retWith 5 k inc)
    else .cont { pop := st.pop, inc := some inc, nevals := k }

def step (A : Arith) (S : Sel) (c : Cfg) (st : St) (e : Ev) : Out :=
  match st.inc with
  | none => stepInit S c st e
  | some inc => stepMain A S c st inc e

/-- the events ran out: report the current contents of the caller's variables -/
def shortRes (c : Cfg) (st : St) : Res :=
  match st.inc with
  | none => { ret := 0, nevals := st.nevals, x := c.x0, minf := none, short := true }
  | some s => { ret := 0, nevals := st.nevals, x := s.x, minf := some s.f, short := true }

def runFrom (A : Arith) (S : Sel) (c : Cfg) : St → List Ev → Res
  | st, [] => shortRes c st
  | st, e :: es =>
    match step A S c st e with
    | .cont st' => runFrom A S c st' es
    | .done r => r

/-- the state after consuming all of `evs`, `none` if the driver returned on the way -/
def advance (A : Arith) (S : Sel) (c : Cfg) : St → List Ev → Option St
  | st, [] => some st
  | st, e :: es =>
    match step A S c st e with
    | .cont st' => advance A S c st' es
    | .done _ => none

def st0 : St := { pop := [], inc := none, nevals := 0 }

def invalidRes (c : Cfg) : Res := { ret := -2, nevals := 0, x := c.x0, minf := none, short := false }

/-- `crs_minimize` on the evaluation sequence `evs`, with the tree answering its min / max queries through `S` -/
def runWith (A : Arith) (S : Sel) (c : Cfg) (evs : List Ev) : Res :=
  if c.invalid then invalidRes c else runFrom A S c st0 evs

/-- `crs_minimize` on the evaluation sequence `evs` (consistently ordered tree) -/
def run (A : Arith) (c : Cfg) (evs : List Ev) : Res := runWith A scan c evs

/-! ### line protocol -/

structure DrvSt where
  cfg : Cfg := default
  /-- events, newest first -/
  revs : List Ev := []
  deriving Inhabited

def allSome {α : Type} : List (Option α) → Option (List α)
  | [] => some []
  | none :: _ => none
  | some a :: t => (allSome t).map (a :: ·)

/-- `-` = empty vector -/
def parseVec (t : String) : Option (List F64) :=
  if t == "-" then some [] else allSome ((t.splitOn ",").map F64.ofHex?)

/-- `-` = NULL -/
def parseOptVec (t : String) : Option (Option (List F64)) :=
  if t == "-" then some none else (parseVec t).map some

def vecStr (l : List F64) : String := if l.isEmpty then "-" else ",".intercalate (l.map F64.toHex)

def cfgTok (c : Cfg) (tok : String) : Option Cfg :=
  match tok.splitOn "=" with
  | ["n", v] => v.toNat?.map fun k => { c with n := k }
  | ["pop", v] => v.toInt?.map fun k => { c with pop := k }
  | ["maxeval", v] => v.toInt?.map fun k => { c with maxeval := k }
  | ["stopval", v] => (F64.ofHex? v).map fun d => { c with minfMax := d }
  | ["ftol_rel", v] => (F64.ofHex? v).map fun d => { c with ftolRel := d }
  | ["ftol_abs", v] => (F64.ofHex? v).map fun d => { c with ftolAbs := d }
  | ["xtol_rel", v] => (F64.ofHex? v).map fun d => { c with xtolRel := d }
  | ["xtol_abs", v] => (parseOptVec v).map fun d => { c with xtolAbs := d }
  | ["xw", v] => (parseOptVec v).map fun d => { c with xWeights := d }
  | ["x0", v] => (parseVec v).map fun d => { c with x0 := d }
  | _ => none

def cfgToks : Cfg → List String → Option Cfg
  | c, [] => some c
  | c, t :: ts => match cfgTok c t with
    | some c' => cfgToks c' ts
    | none => none

def resStr (r : Res) : String :=
  let m := match r.minf with | some v => v.toHex | none => "-"
  s!"{r.ret} {r.nevals} {vecStr r.x} {m} {if r.short then 1 else 0}"

def drvStep (A : Arith) (st : DrvSt) (line : String) : DrvSt × String :=
  match (line.trimAscii.toString.splitOn " ").filter (· ≠ "") with
  | "cfg" :: toks =>
    match cfgToks default toks with
    | some c => ({ cfg := c, revs := [] }, "")
    | none => (st, "bad-op")
  | ["ev", xs, f, fl] =>
    match parseVec xs, F64.ofHex? f, fl with
    | some x, some fv, "0" => ({ st with revs := { x := x, f := fv, forced := false } :: st.revs }, "")
    | some x, some fv, "1" => ({ st with revs := { x := x, f := fv, forced := true } :: st.revs }, "")
    | _, _, _ => (st, "bad-op")
  | ["end"] => (st, resStr (run A st.cfg st.revs.reverse))
  | _ => (st, "bad-op")

end Nlopt.CrsDrv
