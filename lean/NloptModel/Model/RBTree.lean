/-
  RBTree: functional model of the red-black tree of NLopt (`src/util/redblack.c`).

  The C code works on nodes with parent pointers and a shared black sentinel `NIL`.  The model is
  a plain algebraic tree; the parent pointers are mirrored by a zipper (`Path = List Crumb`, the
  innermost crumb first).  Every function below follows the C statement order, so that the SHAPE
  and the COLOURS of the tree coincide with the C structure after every operation (this is what
  the differential harness compares, through `dump`).

  Keys: the C keys are pointers (`double *`); the comparator looks at the pointed-to value.  The
  model key is `(kid, val)`: `kid` is the identity of the key object (the pointer), `val` is the
  value the comparator sees.  `compare(k1,k2) <= 0` iff `k1.val ≤ k2.val`.  Several keys may have
  the same `val`; `kid`s are expected to be unique inside one tree.

  Core Lean only (no Mathlib): this file is linked into an executable.
-/
namespace Nlopt.RB

structure Key where
  kid : Nat
  val : Int
  deriving DecidableEq, Repr, Inhabited

inductive Color
  | red
  | black
  deriving DecidableEq, Repr, Inhabited

inductive Tree
  | nil
  | node (c : Color) (l : Tree) (k : Key) (r : Tree)
  deriving DecidableEq, Repr, Inhabited

/-- One step of the way from a node up to the root.
`L c k r`: the hole is the LEFT child of a node with colour `c`, key `k`, right subtree `r`.
`R c l k`: the hole is the RIGHT child of a node with colour `c`, left subtree `l`, key `k`. -/
inductive Crumb
  | L (c : Color) (k : Key) (r : Tree)
  | R (c : Color) (l : Tree) (k : Key)
  deriving DecidableEq, Repr, Inhabited

/-- the chain of parents, innermost (direct parent) first -/
abbrev Path := List Crumb

open Tree Color

/-- rebuild the whole tree from a subtree and the chain of its parents -/
def plug : Tree → Path → Tree
  | t, [] => t
  | t, .L c k r :: p => plug (node c t k r) p
  | t, .R c l k :: p => plug (node c l k t) p

/-- `n != NIL && n->c == RED` (NIL is black) -/
def isRed : Tree → Bool
  | node red _ _ _ => true
  | _ => false

/-- `n->c = BLACK` (harmless on NIL, which is black already) -/
def blacken : Tree → Tree
  | nil => nil
  | node _ l k r => node black l k r

/-! ### insertion (`insert_node`) -/

/-- the descent loop of `insert_node`: LEFT when `k <= p->k`, else right; returns the chain of
parents of the NIL position where the new node is hung -/
def descend (k : Key) : Tree → Path → Path
  | nil, p => p
  | node c l pk r, p =>
    if k.val ≤ pk.val then descend k l (.L c pk r :: p) else descend k r (.R c l pk :: p)

/-- the `fixtree:` loop of `insert_node`.  `n = node red nl nk nr` (in C, `n` is red whenever control
is at `fixtree`), the path is the chain of parents of `n`.  Returns the whole tree. -/
def fixtree (nl : Tree) (nk : Key) (nr : Tree) : Path → Tree
  | [] => node red nl nk nr                                   -- n->p == NIL (black): nothing to do
  | .L black pk ps :: rest => plug (node black (node red nl nk nr) pk ps) rest   -- parent black: done
  | .R black ps pk :: rest => plug (node black ps pk (node red nl nk nr)) rest
  -- parent red and parent is the root (impossible when the root is black): C takes the else branch
  -- with u = NIL, no rotation applies, `p->c = BLACK` (and it scribbles on NIL); we keep `p->c = BLACK`
  | [.L red pk ps] => node black (node red nl nk nr) pk ps
  | [.R red ps pk] => node black ps pk (node red nl nk nr)
  -- n == p->l, p == g->l, u = g->r
  | .L red pk ps :: .L gc gk u :: rest =>
    if isRed u then
      -- p->c = u->c = BLACK; n = g; if g has a parent: g->c = RED, again; else leave g's colour
      match rest with
      | [] => node gc (node black (node red nl nk nr) pk ps) gk (blacken u)
      | _ :: _ => fixtree (node black (node red nl nk nr) pk ps) gk (blacken u) rest
    else
      -- p->c = BLACK; g->c = RED; rotate_right(g)
      plug (node black (node red nl nk nr) pk (node red ps gk u)) rest
  -- n == p->r, p == g->l, u = g->r
  | .R red ps pk :: .L gc gk u :: rest =>
    if isRed u then
      match rest with
      | [] => node gc (node black ps pk (node red nl nk nr)) gk (blacken u)
      | _ :: _ => fixtree (node black ps pk (node red nl nk nr)) gk (blacken u) rest
    else
      -- rotate_left(p); p = n; n = old p;  p->c = BLACK; g->c = RED; rotate_right(g)
      plug (node black (node red ps pk nl) nk (node red nr gk u)) rest
  -- n == p->l, p == g->r, u = g->l
  | .L red pk ps :: .R gc u gk :: rest =>
    if isRed u then
      match rest with
      | [] => node gc (blacken u) gk (node black (node red nl nk nr) pk ps)
      | _ :: _ => fixtree (blacken u) gk (node black (node red nl nk nr) pk ps) rest
    else
      -- rotate_right(p); p = n; n = old p;  p->c = BLACK; g->c = RED; rotate_left(g)
      plug (node black (node red u gk nl) nk (node red nr pk ps)) rest
  -- n == p->r, p == g->r, u = g->l
  | .R red ps pk :: .R gc u gk :: rest =>
    if isRed u then
      match rest with
      | [] => node gc (blacken u) gk (node black ps pk (node red nl nk nr))
      | _ :: _ => fixtree (blacken u) gk (node black ps pk (node red nl nk nr)) rest
    else
      -- p->c = BLACK; g->c = RED; rotate_left(g)
      plug (node black (node red u gk ps) pk (node red nl nk nr)) rest

/-- `nlopt_rb_tree_insert` / `insert_node` -/
def insert (t : Tree) (k : Key) : Tree :=
  match t with
  | nil => node black nil k nil
  | _ => fixtree nil k nil (descend k t [])

/-! ### removal (`nlopt_rb_tree_remove`) -/

/-- a located node: its colour, children, key, and the chain of its parents -/
structure Loc where
  c : Color
  l : Tree
  k : Key
  r : Tree
  path : Path
  deriving Repr

/-- find the node that currently holds the key object `kid` (the C caller has the node pointer in
hand).  This is a traversal, NOT a search by value: `resort` is called while the tree is out of
order. -/
def locate (kid : Nat) : Tree → Path → Option Loc
  | nil, _ => none
  | node c l k r, p =>
    if k.kid = kid then some ⟨c, l, k, r, p⟩
    else match locate kid l (.L c k r :: p) with
      | some x => some x
      | none => locate kid r (.R c l k :: p)

/-- `lmax = n->l; while (lmax->r != NIL) lmax = lmax->r;` started at the node `node c l k r`;
returns colour, left child and key of the rightmost node and the chain of parents below the start -/
def maxPath (c : Color) (l : Tree) (k : Key) : Tree → Path → Color × Tree × Key × Path
  | nil, p => (c, l, k, p)
  | node c' l' k' r', p => maxPath c' l' k' r' (.R c l k :: p)

/-- one `deleteblack` iteration after the red-sibling preprocessing, case `m == mp->l`
(`s = mp->r`).  Result: the subtree now standing where `mp` stood, and whether the loop goes on
(with that subtree as the new `m`). -/
def dbL (mpc : Color) (m : Tree) (mpk : Key) (s : Tree) : Tree × Bool :=
  match s with
  | nil =>
    -- s == NIL is black with black children; `if (s != NIL) s->c = RED` is skipped
    (node black m mpk nil, mpc == black)
  | node sc sl sk sr =>
    if sc = black ∧ isRed sl = false ∧ isRed sr = false then
      -- mp black: s->c = RED, m = mp, again.   mp red: s->c = RED, mp->c = BLACK, stop.
      (node black m mpk (node red sl sk sr), mpc == black)
    else
      match sc, sl, isRed sr with
      | black, node red sll slk slr, false =>
        -- s->c = RED; s->l->c = BLACK; rotate_right(s); s = mp->r;
        -- s->c = mp->c; mp->c = BLACK; s->r->c = BLACK; rotate_left(mp)
        (node mpc (node black m mpk sll) slk (node black slr sk sr), false)
      | _, _, _ =>
        -- s->c = mp->c; mp->c = BLACK; s->r->c = BLACK; rotate_left(mp)
        (node mpc (node black m mpk sl) sk (blacken sr), false)

/-- mirror image: `m == mp->r`, `s = mp->l` -/
def dbR (mpc : Color) (s : Tree) (mpk : Key) (m : Tree) : Tree × Bool :=
  match s with
  | nil => (node black nil mpk m, mpc == black)
  | node sc sl sk sr =>
    if sc = black ∧ isRed sl = false ∧ isRed sr = false then
      (node black (node red sl sk sr) mpk m, mpc == black)
    else
      match sc, isRed sl, sr with
      | black, false, node red srl srk srr =>
        -- s->c = RED; s->r->c = BLACK; rotate_left(s); s = mp->l;
        -- s->c = mp->c; mp->c = BLACK; s->l->c = BLACK; rotate_right(mp)
        (node mpc (node black sl sk srl) srk (node black srr mpk m), false)
      | _, _, _ =>
        (node mpc (blacken sl) sk (node black sr mpk m), false)

/-- the `deleteblack:` loop.  `m` is the subtree whose black height is one too small, the path is the
chain of parents of `m` (`mp` first).
Red sibling: `mp->c = RED; s->c = BLACK; rotate at mp`, after which `mp` is red, so the iteration
cannot take the "move up" branch and the loop ends there (`dbL_red_snd`). -/
def deleteblack (m : Tree) : Path → Tree
  | [] => m                                           -- mp == NIL
  | .L _ mpk (node red sl sk sr) :: rest =>
    plug (node black (dbL red m mpk sl).1 sk sr) rest
  | .L mpc mpk s :: rest =>
    if (dbL mpc m mpk s).2 then deleteblack (dbL mpc m mpk s).1 rest
    else plug (dbL mpc m mpk s).1 rest
  | .R _ (node red sl sk sr) mpk :: rest =>
    plug (node black sl sk (dbR red sr mpk m).1) rest
  | .R mpc s mpk :: rest =>
    if (dbR mpc s mpk m).2 then deleteblack (dbR mpc s mpk m).1 rest
    else plug (dbR mpc s mpk m).1 rest

/-- the tail of `nlopt_rb_tree_remove`: the node of colour `nc` with (at most one non-NIL) child `m`
and chain of parents `path` has been unlinked and replaced by `m` -/
def unlink (nc : Color) (m : Tree) (path : Path) : Tree :=
  match nc with
  | red => plug m path
  | black => if isRed m then plug (blacken m) path else deleteblack m path

/-- `nlopt_rb_tree_remove` for the node with colour `c`, children `l`, `r`, parents `path` -/
def removeAt (c : Color) (l r : Tree) (path : Path) : Tree :=
  match l, r with
  | node lc ll lk lr, node rc rl rk rr =>
    -- two children: n->k = lmax->k; unlink lmax (its only possible child is lmax->l)
    match maxPath lc ll lk lr [] with
    | (mc, ml, mk, sub) => unlink mc ml (sub ++ .L c mk (node rc rl rk rr) :: path)
  | node lc ll lk lr, nil => unlink c (node lc ll lk lr) path      -- m = n->l
  | nil, r => unlink c r path                                      -- m = n->r

/-- remove the node holding key object `kid`; unchanged if there is none -/
def remove (t : Tree) (kid : Nat) : Tree :=
  match locate kid t [] with
  | none => t
  | some x => removeAt x.c x.l x.r x.path

/-- does the tree hold key object `kid`? -/
def contains (t : Tree) (kid : Nat) : Bool := (locate kid t []).isSome

/-- the caller's in-place change of the value of key object `kid` (no restructuring) -/
def setVal (kid : Nat) (v : Int) : Tree → Tree
  | nil => nil
  | node c l k r => node c (setVal kid v l) (if k.kid = kid then ⟨kid, v⟩ else k) (setVal kid v r)

/-- change the value of key `kid` in place, then `nlopt_rb_tree_resort` its node:
remove it and re-insert the (same) key object -/
def rekey (t : Tree) (kid : Nat) (newval : Int) : Tree :=
  if contains t kid then insert (remove (setVal kid newval t) kid) ⟨kid, newval⟩ else t

/-! ### queries -/

def min : Tree → Option Key
  | nil => none
  | node _ nil k _ => some k
  | node _ l _ _ => min l

def max : Tree → Option Key
  | nil => none
  | node _ _ k nil => some k
  | node _ _ _ r => max r

/-- `do { prev = n; n = n->p; } while (prev == n->r && n != NIL)` -/
def climbSucc : Path → Option Key
  | [] => none
  | .L _ k _ :: _ => some k
  | .R _ _ _ :: p => climbSucc p

def climbPred : Path → Option Key
  | [] => none
  | .R _ _ k :: _ => some k
  | .L _ _ _ :: p => climbPred p

/-- `nlopt_rb_tree_succ` of the node holding `kid` -/
def succ (t : Tree) (kid : Nat) : Option Key :=
  match locate kid t [] with
  | none => none
  | some x => match x.r with
    | nil => climbSucc x.path
    | r => min r

/-- `nlopt_rb_tree_pred` of the node holding `kid` -/
def pred (t : Tree) (kid : Nat) : Option Key :=
  match locate kid t [] with
  | none => none
  | some x => match x.l with
    | nil => climbPred x.path
    | l => max l

/-- `nlopt_rb_tree_find` with a probe key of value `v` -/
def find : Tree → Int → Option Key
  | nil, _ => none
  | node _ l k r, v => if v = k.val then some k else if v ≤ k.val then find l v else find r v

/-- `find_le`: greatest key `≤ v` -/
def findLe : Tree → Int → Option Key
  | nil, _ => none
  | node _ l k r, v =>
    if k.val ≤ v then (match findLe r v with | some x => some x | none => some k) else findLe l v

/-- `find_lt`: greatest key `< v` -/
def findLt : Tree → Int → Option Key
  | nil, _ => none
  | node _ l k r, v =>
    if k.val < v then (match findLt r v with | some x => some x | none => some k) else findLt l v

/-- `find_gt`: least key `> v` -/
def findGt : Tree → Int → Option Key
  | nil, _ => none
  | node _ l k r, v =>
    if k.val > v then (match findGt l v with | some x => some x | none => some k) else findGt r v

/-- number of nodes (the C field `N`) -/
def size : Tree → Nat
  | nil => 0
  | node _ l _ r => size l + size r + 1

/-- `n->r != NIL && compare(n->r->k, n->k) < 0` -/
def rchildBad (k : Key) : Tree → Bool
  | nil => false
  | node _ _ rk _ => decide (rk.val < k.val)

/-- `n->l != NIL && compare(n->l->k, n->k) > 0` -/
def lchildBad (k : Key) : Tree → Bool
  | nil => false
  | node _ _ lk _ => decide (lk.val > k.val)

/-- `check_node`: `none` = failure, `some nb` = success with `*nblack = nb`.
(The parent-pointer tests have no counterpart: the model has no parent pointers.) -/
def checkNode : Tree → Option Nat
  | nil => some 0
  | node c l k r =>
    if rchildBad k r then none
    else if lchildBad k l then none
    else if c = red ∧ (isRed r ∨ isRed l) then none
    else match checkNode r, checkNode l with
      | some nbl, some nbr => if nbl ≠ nbr then none else some (nbl + (if c = black then 1 else 0))
      | _, _ => none

/-- `nlopt_rb_tree_check` -/
def check (t : Tree) : Bool :=
  match t with
  | nil => true
  | node red _ _ _ => false
  | t => (checkNode t).isSome

/-! ### text interface -/

def dump : Tree → String
  | nil => "."
  | node c l k r =>
    "(" ++ (match c with | red => "R" | black => "B") ++ " " ++ toString k.kid ++ ":" ++ toString k.val
      ++ " " ++ dump l ++ " " ++ dump r ++ ")"

def showKey : Option Key → String
  | none => "nil"
  | some k => toString k.kid

/-- one line of the driver protocol -/
def rbStep (t : Tree) (line : String) : Tree × String :=
  match line.trimAscii.toString.splitOn " " with
  | ["ins", a, b] =>
    match a.toNat?, b.toInt? with
    | some kid, some v => (insert t ⟨kid, v⟩, "ok")
    | _, _ => (t, "bad-op")
  | ["rem", a] =>
    match a.toNat? with
    | some kid => if contains t kid then (remove t kid, "ok") else (t, "absent")
    | none => (t, "bad-op")
  | ["rekey", a, b] =>
    match a.toNat?, b.toInt? with
    | some kid, some v => if contains t kid then (rekey t kid v, "ok") else (t, "absent")
    | _, _ => (t, "bad-op")
  | ["min"] => (t, showKey (min t))
  | ["max"] => (t, showKey (max t))
  | ["succ", a] =>
    match a.toNat? with
    | some kid => (t, showKey (succ t kid))
    | none => (t, "bad-op")
  | ["pred", a] =>
    match a.toNat? with
    | some kid => (t, showKey (pred t kid))
    | none => (t, "bad-op")
  | ["find", a] =>
    match a.toInt? with
    | some v => (t, showKey (find t v))
    | none => (t, "bad-op")
  | ["find_le", a] =>
    match a.toInt? with
    | some v => (t, showKey (findLe t v))
    | none => (t, "bad-op")
  | ["find_lt", a] =>
    match a.toInt? with
    | some v => (t, showKey (findLt t v))
    | none => (t, "bad-op")
  | ["find_gt", a] =>
    match a.toInt? with
    | some v => (t, showKey (findGt t v))
    | none => (t, "bad-op")
  | ["n"] => (t, toString (size t))
  | ["check"] => (t, if check t then "1" else "0")
  | ["dump"] => (t, dump t)
  | _ => (t, "bad-op")

end Nlopt.RB
