import NloptModel.Model.F64
/-!
# `src/util/rescale.c` — the coordinate rescaling used by COBYLA and BOBYQA

`nlopt_compute_rescaling`, `nlopt_rescale`, `nlopt_unscale`, `nlopt_new_rescaled` (= `nlopt_rescale` into a fresh
array) and `nlopt_reorder_bounds`, statement by statement.  Arrays are lists; `s == NULL` is `none`; the rounded
division / multiplication is the `Arith` parameter.  `n = 0` is outside the documented domain of
`nlopt_compute_rescaling` ("length n (> 0)") and is not driven through the correspondence.
-/
namespace Nlopt.Rescale
open Nlopt

/-- `for (i = 1; i < n && dx[i] == dx[i - 1]; ++i);` followed by the test `i < n`:
    true iff some adjacent pair fails the IEEE `==` (a NaN step is unequal to everything) -/
def unequal : List F64 → Bool
  | a :: b :: r => F64.fne b a || unequal (b :: r)
  | _ => false

/-- `nlopt_compute_rescaling(n, dx)`: all ones, unless the steps are unequal; then `s[0] = 1`, `s[i] = dx[i] / dx[0]` -/
def computeRescaling (A : Arith) (dx : List F64) : List F64 :=
  match dx with
  | [] => []
  | d0 :: r => if unequal (d0 :: r) then F64.one :: r.map (fun d => A.div d d0) else F64.one :: r.map (fun _ => F64.one)

/-- `nlopt_rescale(n, s, x, xs)` (also `nlopt_new_rescaled`): `xs[i] = x[i] / s[i]`, a copy when `s == NULL` -/
def rescale (A : Arith) (s : Option (List F64)) (x : List F64) : List F64 :=
  match s with
  | none => x
  | some s => List.zipWith (fun xi si => A.div xi si) x s

/-- `nlopt_unscale(n, s, x, xs)`: `xs[i] = x[i] * s[i]`, a copy when `s == NULL` -/
def unscale (A : Arith) (s : Option (List F64)) (x : List F64) : List F64 :=
  match s with
  | none => x
  | some s => List.zipWith (fun xi si => A.mul xi si) x s

/-- one coordinate of `nlopt_reorder_bounds`: `if (lb > ub) swap` -/
def reorder1 (l u : F64) : F64 × F64 := if F64.gt l u then (u, l) else (l, u)

/-- `nlopt_reorder_bounds(n, lb, ub)` -/
def reorderBounds : List F64 → List F64 → List F64 × List F64
  | l :: lb, u :: ub =>
    let p := reorder1 l u
    let r := reorderBounds lb ub
    (p.1 :: r.1, p.2 :: r.2)
  | _, _ => ([], [])

/-- the scaled box COBYLA / BOBYQA hand to their cores: both bounds divided by the scale, then re-ordered
    (`s.lb = nlopt_new_rescaled(n, s.scale, lb); s.ub = ...; nlopt_reorder_bounds(n, s.lb, s.ub)`) -/
def scaledBox (A : Arith) (s : List F64) (lb ub : List F64) : List F64 × List F64 :=
  reorderBounds (rescale A (some s) lb) (rescale A (some s) ub)

/-- line protocol of the `rescale` stream: `cr <dx>`, `rs <s|-> <x>`, `us <s|-> <x>`, `rb <lb> <ub>`, `sb <s> <lb> <ub>` -/
def hexList (l : List F64) : String := if l.isEmpty then "_" else ",".intercalate (l.map F64.toHex)
def parseList (t : String) : Option (List F64) :=
  if t == "-" then none else if t == "_" then some [] else some ((t.splitOn ",").map fun h => (F64.ofHex? h).getD F64.zero)

def step (A : Arith) (u : Unit) (line : String) : Unit × String :=
  let pl (t : String) : List F64 := (parseList t).getD []
  match (line.trimAscii.toString.splitOn " ").filter (· ≠ "") with
  | ["cr", dx] => (u, hexList (computeRescaling A (pl dx)))
  | ["rs", s, x] => (u, hexList (rescale A (parseList s) (pl x)))
  | ["us", s, x] => (u, hexList (unscale A (parseList s) (pl x)))
  | ["rb", lb, ub] => let r := reorderBounds (pl lb) (pl ub); (u, s!"{hexList r.1} {hexList r.2}")
  | ["sb", s, lb, ub] => let r := scaledBox A (pl s) (pl lb) (pl ub); (u, s!"{hexList r.1} {hexList r.2}")
  | _ => (u, "bad-op")

end Nlopt.Rescale
