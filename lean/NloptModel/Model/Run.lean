import NloptModel.Model.F64
/-!
  Interaction framework: an optimization algorithm is an arbitrary state machine that asks its
  environment to evaluate callbacks and finally returns a result; the user's callbacks are a Mealy
  machine over an arbitrary state.  Wrapper-level properties are proved for EVERY algorithm machine.
-/
namespace Nlopt

inductive FnRef where
  | obj
  | ineq (i : Nat)
  | eq (i : Nat)
  deriving DecidableEq, Inhabited, Repr

/-- one callback invocation as the callee sees it -/
structure Query where
  fn : FnRef
  x : List F64
  wantGrad : Bool
  deriving DecidableEq, Inhabited

/-- what a callback hands back: value(s) (one for scalar functions, m for vector constraints) and the gradient
    buffer contents when one was requested -/
structure Answer where
  val : List F64
  grad : Option (List F64)
  /-- `some v`: during this invocation the callback called `nlopt_set_force_stop(opt, v)` -/
  stop : Option Int := none
  deriving DecidableEq, Inhabited

/-- what an algorithm returns: result code, final point, final value, and the evaluation counter it maintained
    through `stop->nevals_p` -/
structure AlgResult where
  ret : Int
  x : List F64
  minf : F64
  numevals : Int
  deriving DecidableEq, Inhabited

/-- an algorithm: total step function; it sees nothing but the answers to its own queries -/
structure Alg where
  S : Type
  init : S
  step : S → Option Answer → S × (Query ⊕ AlgResult)

/-- the environment of an algorithm: answers queries, has its own state -/
structure Env (σ : Type) where
  call : σ → Query → σ × Answer

/-- run an algorithm against an environment for at most `fuel` queries.
    returns the result (none = still running when the fuel ran out), the environment state and the
    trace of (query, answer) pairs in order -/
def runAlg {σ : Type} (A : Alg) (E : Env σ) : Nat → A.S → Option Answer → σ → List (Query × Answer) →
    Option AlgResult × σ × List (Query × Answer)
  | 0, _, _, st, tr => (none, st, tr)
  | fuel + 1, s, a, st, tr =>
    match A.step s a with
    | (_, .inr r) => (some r, st, tr)
    | (s', .inl q) =>
      let (st', ans) := E.call st q
      runAlg A E fuel s' (some ans) st' (tr ++ [(q, ans)])

def run {σ : Type} (A : Alg) (E : Env σ) (fuel : Nat) (st : σ) : Option AlgResult × σ × List (Query × Answer) :=
  runAlg A E fuel A.init none st []

/-- Simulation lemma: two environments related by `R` that give equal answers to equal queries (and stay
    related) are indistinguishable for every algorithm: same result, same trace. -/
theorem runAlg_sim {σ τ : Type} (A : Alg) (E₁ : Env σ) (E₂ : Env τ) (R : σ → τ → Prop)
    (h : ∀ s t q, R s t → (E₁.call s q).2 = (E₂.call t q).2 ∧ R (E₁.call s q).1 (E₂.call t q).1) :
    ∀ fuel sA a s t tr, R s t →
      (runAlg A E₁ fuel sA a s tr).1 = (runAlg A E₂ fuel sA a t tr).1 ∧
      (runAlg A E₁ fuel sA a s tr).2.2 = (runAlg A E₂ fuel sA a t tr).2.2 ∧
      R (runAlg A E₁ fuel sA a s tr).2.1 (runAlg A E₂ fuel sA a t tr).2.1 := by
  intro fuel
  induction fuel with
  | zero => intro sA a s t tr hR; exact ⟨rfl, rfl, hR⟩
  | succ n ih =>
    intro sA a s t tr hR
    unfold runAlg
    cases hstep : A.step sA a with
    | mk s' out =>
      cases out with
      | inr r => exact ⟨rfl, rfl, hR⟩
      | inl q =>
        have hq := h s t q hR
        simp only []
        rw [hq.1]
        exact ih s' _ _ _ _ hq.2

end Nlopt
