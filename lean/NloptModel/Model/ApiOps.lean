import NloptModel.Model.Api
/-! API histories: operations as data (`Op`), the world of live objects, and `applyOp`.
    The line-protocol driver parses lines into `Op`s; the history theorems quantify over `List Op`. -/
namespace Nlopt

/-- scalar settings handled by the SET macro (and the two force-stop entry points) -/
inductive ScalarSet where
  | stopval (x : F64) | ftolRel (x : F64) | ftolAbs (x : F64) | xtolRel (x : F64) | maxtime (x : F64)
  | maxeval (k : Int) | pop (k : Nat) | vs (k : Nat) | forceStop (k : Int)
  deriving Inhabited

def ScalarSet.apply (c : Core) : ScalarSet → Core
  | .stopval x => { c with stopval := x }
  | .ftolRel x => { c with ftolRel := x }
  | .ftolAbs x => { c with ftolAbs := x }
  | .xtolRel x => { c with xtolRel := x }
  | .maxtime x => { c with maxtime := x }
  | .maxeval k => { c with maxeval := k }
  | .pop k => { c with pop := k }
  | .vs k => { c with vs := k }
  | .forceStop k => { c with forceStop := k }

/-- `slot = none` is the NULL handle (also a slot that holds no object) -/
inductive Op where
  | oracle (k : Nat)                       -- the k-th allocation request of the next op fails
  | mcfail (k : Nat)                       -- the k-th copy-hook call of the next op fails
  | create (dst : Nat) (alg : Int) (n : Nat)
  | destroy (slot : Option Nat)
  | copy (src : Option Nat) (dst : Nat)
  | setObjective (slot : Option Nat) (f pre fdata : Nat) (maximize : Bool)
  | setLb (slot : Option Nat) (arg : Option (List F64))
  | setUb (slot : Option Nat) (arg : Option (List F64))
  | setLb1 (slot : Option Nat) (x : F64)
  | setUb1 (slot : Option Nat) (x : F64)
  | setLbi (slot : Option Nat) (i : Int) (x : F64)
  | setUbi (slot : Option Nat) (i : Int) (x : F64)
  | getLb (slot : Option Nat) (outNull : Bool)
  | getUb (slot : Option Nat) (outNull : Bool)
  | getXtolAbs (slot : Option Nat) (outNull : Bool)
  | getXw (slot : Option Nat) (outNull : Bool)
  | addCon (slot : Option Nat) (eq : Bool) (m : Nat) (isVec : Bool) (f pre fdata : Nat) (tol : Option (List F64))
  | rmIneq (slot : Option Nat)
  | rmEq (slot : Option Nat)
  | setScalar (slot : Option Nat) (v : ScalarSet)
  | setXtolAbs (slot : Option Nat) (arg : Option (List F64))
  | setXtolAbs1 (slot : Option Nat) (x : F64)
  | setXw (slot : Option Nat) (arg : Option (List F64))
  | setXw1 (slot : Option Nat) (x : F64)
  | setDx (slot : Option Nat) (arg : Option (List F64))
  | setDx1 (slot : Option Nat) (x : F64)
  | setDefaultDx (slot : Option Nat) (x : Option (List F64))
  | getDx (slot : Option Nat) (x : Option (List F64))
  | setMunge (slot : Option Nat) (d c : Bool)
  | setParam (slot : Option Nat) (name : Option String) (x : F64)
  | setLocal (slot : Option Nat) (lo : Option Nat)
  deriving Inhabited

structure World where
  as : AS := {}
  slots : List (Option Obj) := List.replicate 8 none
  caps : AlgCaps := { ineqOk := [], eqOk := [] }
  deriving Inhabited

namespace World

def get (w : World) : Option Nat → Option Obj
  | some i => (w.slots.getD i none)
  | none => none

def set (w : World) (i : Nat) (o : Option Obj) : World := { w with slots := w.slots.set i o }

end World

/-- what an operation returns to the caller -/
inductive Ret where
  | code (r : Int)
  | ptr (ok : Bool)
  | void
  deriving Inhabited, DecidableEq

/-- apply a core-level function to the object in a slot (NULL handle → `nullRet`) -/
def onCore (w : World) (slot : Option Nat) (nullRet : Int)
    (f : AS → Core → AS × Core × Int) : World × Ret × Option (List F64) :=
  match slot, w.get slot with
  | some i, some o =>
    let (s, c, r) := f w.as o.core
    (({ w with as := s }).set i (some { o with core := c }), .code r, none)
  | _, _ => (w, .code nullRet, none)

def onCoreOut (w : World) (slot : Option Nat)
    (f : AS → Core → AS × Core × Int × List F64) : World × Ret × Option (List F64) :=
  match slot, w.get slot with
  | some i, some o =>
    let (s, c, r, out) := f w.as o.core
    (({ w with as := s }).set i (some { o with core := c }), .code r, some out)
  | _, _ => (w, .code rINVALID, none)

/-- one API call.  Returns the new world, the return value and the output buffer of a getter. -/
def applyOpRaw (A : Arith) (w : World) : Op → World × Ret × Option (List F64)
  | .oracle k => ({ w with as := { w.as with failIn := k } }, .void, none)
  | .mcfail k => ({ w with as := { w.as with mcFailIn := k } }, .void, none)
  | .create dst alg n =>
    let (s, o) := create A w.as alg n
    (({ w with as := s }).set dst o, .ptr o.isSome, none)
  | .destroy slot =>
    match slot, w.get slot with
    | some i, some o => (({ w with as := destroy w.as o }).set i none, .void, none)
    | _, _ => (w, .void, none)
  | .copy src dst =>
    match w.get src with
    | none => (w.set dst none, .ptr false, none)
    | some o =>
      let (s, n) := copy w.as o
      (({ w with as := s }).set dst n, .ptr n.isSome, none)
  | .setObjective slot f pre fdata mx => onCore w slot rINVALID fun s c => setObjective s c f pre fdata mx
  | .setLb slot arg => onCore w slot rINVALID fun s c => setLowerBounds A s c arg
  | .setUb slot arg => onCore w slot rINVALID fun s c => setUpperBounds A s c arg
  | .setLb1 slot x => onCore w slot rINVALID fun s c => setLowerBounds1 A s c x
  | .setUb1 slot x => onCore w slot rINVALID fun s c => setUpperBounds1 A s c x
  | .setLbi slot i x => onCore w slot rINVALID fun s c => setLowerBound A s c i x
  | .setUbi slot i x => onCore w slot rINVALID fun s c => setUpperBound A s c i x
  | .getLb slot nul => onCoreOut w slot fun s c => getLowerBounds s c nul
  | .getUb slot nul => onCoreOut w slot fun s c => getUpperBounds s c nul
  | .getXtolAbs slot nul => onCoreOut w slot fun s c => getXtolAbs s c nul
  | .getXw slot nul => onCoreOut w slot fun s c => getXWeights s c nul
  | .addCon slot eq m isVec f pre fdata tol =>
    -- NULL handle: an empty vector constraint is still a successful no-op
    onCore w slot (if isVec ∧ m = 0 then rSUCCESS else rINVALID) fun s c =>
      addCon (if eq then w.caps.eqOk else w.caps.ineqOk) eq s c m isVec f pre fdata tol
  | .rmIneq slot => onCore w slot rINVALID removeIneq
  | .rmEq slot => onCore w slot rINVALID removeEq
  | .setScalar slot v => onCore w slot rINVALID fun s c => setScalar s c (ScalarSet.apply · v)
  | .setXtolAbs slot arg => onCore w slot rINVALID fun s c => setXtolAbs s c arg
  | .setXtolAbs1 slot x => onCore w slot rINVALID fun s c => setXtolAbs1 s c x
  | .setXw slot arg => onCore w slot rINVALID fun s c => setXWeights s c arg
  | .setXw1 slot x => onCore w slot rINVALID fun s c => setXWeights1 s c x
  | .setDx slot arg => onCore w slot rINVALID fun s c => setInitialStep s c arg
  | .setDx1 slot x => onCore w slot rINVALID fun s c => setInitialStep1 s c x
  | .setDefaultDx slot x => onCore w slot rINVALID fun s c => setDefaultInitialStep A s c x
  | .getDx slot x => onCoreOut w slot fun s c => getInitialStep A s c x
  | .setMunge slot d c =>
    match slot, w.get slot with
    | some i, some o => (w.set i (some { o with core := { o.core with mungeD := d, mungeC := c } }), .void, none)
    | _, _ => (w, .void, none)
  | .setParam slot name x => onCore w slot rINVALID fun s c => setParam s c name x
  | .setLocal slot lo =>
    match slot, w.get slot with
    | some i, some o =>
      let (s, o', r) := setLocalOptimizer A w.as o (w.get lo)
      (({ w with as := s }).set i (some o'), .code r, none)
    | _, _ => (w, .code rINVALID, none)

/-- the oracles are one-shot: they are cleared when the operation they were armed for returns -/
def applyOp (A : Arith) (w : World) (op : Op) : World × Ret × Option (List F64) :=
  match op with
  | .oracle _ | .mcfail _ => applyOpRaw A w op
  | _ =>
    let (w', r, o) := applyOpRaw A w op
    ({ w' with as := { w'.as with failIn := 0, mcFailIn := 0 } }, r, o)

/-- run a whole history -/
def runOps (A : Arith) (w : World) (ops : List Op) : World := ops.foldl (fun w op => (applyOp A w op).1) w

end Nlopt
