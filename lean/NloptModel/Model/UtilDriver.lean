import NloptModel.Model.MT
import NloptModel.Model.Stop
/-! Line-protocol drivers for the S-util streams `mt` (generator + samplers, with forced raw words)
    and `stop` (stop.c predicates). -/
namespace Nlopt.UtilDrv
open Nlopt Nlopt.MT

structure MtState where
  raw : MT.State := MT.State.initial      -- the copy whose raw words are visible
  lib : MT.State := MT.State.initial      -- the library's own generator (samplers)
  forced : List UInt32 := []
  deriving Inhabited

/-- one raw draw of the library's generator, with the hook's forced words taking precedence
    (the state still advances: the hook sits after `y = mt[mti++]`) -/
def drawLib (s : MtState) : UInt32 × MtState :=
  let (y, st) := genrandInt32 s.lib
  match s.forced with
  | w :: q => (w, { s with lib := st, forced := q })
  | [] => (y, { s with lib := st })

def draw53 (A : Arith) (s : MtState) : F64 × MtState :=
  let (a, s) := drawLib s
  let (b, s) := drawLib s
  (res53F A a b, s)

def nrandLoop (A : Arith) (mean stddev : F64) : Nat → MtState → Option (F64 × MtState)
  | 0, _ => none
  | fuel + 1, s =>
    let (r1, s) := draw53 A s
    let (r2, s) := draw53 A s
    match nrandBody A mean stddev r1 r2 with
    | .retry => nrandLoop A mean stddev fuel s
    | .done v => some (v, s)

def hexOr (t : String) : F64 := (F64.ofHex? t).getD F64.zero

def parseHex32 (t : String) : UInt32 :=
  UInt32.ofNat (t.toList.foldl (fun acc c => acc * 16 + (hexVal c).getD 0) 0)

def mtStep (A : Arith) (s : MtState) (line : String) : MtState × String :=
  match (line.trimAscii.toString.splitOn " ").filter (· ≠ "") with
  | ["seed", n] =>
    match n.toNat? with
    | some n => ({ s with raw := initGenrandOn s.raw.mt n, lib := initGenrandOn s.lib.mt n }, "ok")
    | none => (s, "bad-op")
  | ["next"] => let (y, st) := genrandInt32 s.raw; ({ s with raw := st }, hex8 y)
  | ["nextn", k] =>
    match k.toNat? with
    | some k => let (st, out) := nextN k s.raw []; ({ s with raw := st }, " ".intercalate out)
    | none => (s, "bad-op")
  | ["spec", sd, i] =>
    match sd.toNat?, i.toNat? with
    | some sd, some i => (s, hex8 (mtSpecExec sd i))
    | _, _ => (s, "bad-op")
  | ["force", ws] => ({ s with forced := (ws.splitOn ",").map parseHex32 }, "ok")
  | ["urand", a, b] =>
    let (r, s) := draw53 A s
    (s, (urand A (hexOr a) (hexOr b) r).toHex)
  | ["iurand", n] =>
    match n.toInt? with
    | some n =>
      let (y, s) := drawLib s
      (s, match iurandC y n with | some v => toString v | none => "ub")
    | none => (s, "bad-op")
  | ["nrand", m, sd] =>
    match nrandLoop A (hexOr m) (hexOr sd) 100000 s with
    | some (v, s) => (s, v.toHex)
    | none => (s, "fuel")
  | _ => (s, "bad-op")

def b2d (b : Bool) : String := if b then "1" else "0"

def lst (t : String) : Option (List F64) :=
  if t == "-" then none else if t == "_" then some [] else some ((t.splitOn ",").map hexOr)

def stopStep (A : Arith) (u : Unit) (line : String) : Unit × String :=
  let int (t : String) : Int := t.toInt?.getD 0
  let blank : Stopping := { n := 0, minfMax := F64.zero, ftolRel := F64.zero, ftolAbs := F64.zero, xtolRel := F64.zero,
                            xtolAbs := none, xWeights := none, nevals := 0, maxeval := 0, maxtime := F64.zero,
                            start := F64.zero, forceStop := 0 }
  match (line.trimAscii.toString.splitOn " ").filter (· ≠ "") with
  | ["evals", me, ne] => (u, b2d (Stop.evals (int me) (int ne)))
  | ["time", st, mt, now] => (u, b2d (Stop.time A (hexOr st) (hexOr mt) (hexOr now)))
  | ["evalstime", me, ne, st, mt, now] =>
    (u, b2d (Stop.evalstime A { blank with maxeval := int me, nevals := int ne, start := hexOr st, maxtime := hexOr mt } (hexOr now)))
  | ["forced", k] => (u, b2d (Stop.forced { blank with forceStop := int k }))
  | ["cls", x] =>      -- nlopt_isinf, nlopt_isfinite, nlopt_istiny, nlopt_isnan (as 0/1)
    let v := hexOr x
    (u, s!"{b2d v.isInf} {b2d v.isFinite} {b2d v.isTiny} {b2d v.isNaN}")
  | ["ftol", r, a, f, o] => (u, b2d (Stop.ftol A { blank with ftolRel := hexOr r, ftolAbs := hexOr a } (hexOr f) (hexOr o)))
  | ["f", mm, r, a, f, o] =>
    (u, b2d (Stop.f A { blank with minfMax := hexOr mm, ftolRel := hexOr r, ftolAbs := hexOr a } (hexOr f) (hexOr o)))
  | ["x", r, ta, w, x, o] =>
    (u, b2d (Stop.x A { blank with xtolRel := hexOr r, xtolAbs := lst ta, xWeights := lst w } ((lst x).getD []) ((lst o).getD [])))
  | ["dx", r, ta, w, x, o] =>
    (u, b2d (Stop.dx A { blank with xtolRel := hexOr r, xtolAbs := lst ta, xWeights := lst w } ((lst x).getD []) ((lst o).getD [])))
  | ["limited", sme, me, smt, mt] =>
    -- limits in force during the nested call, then the (restored) limits afterwards; maxeval <= 0 is stored as given
    (u, s!"{Stop.limitedMaxeval (int sme) (int me)} {(Stop.limitedMaxtime (hexOr smt) (hexOr mt)).toHex} {int sme} {(hexOr smt).toHex}")
  | _ => (u, "bad-op")

end Nlopt.UtilDrv
