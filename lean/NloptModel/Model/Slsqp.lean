import NloptModel.Model.F64
/-!
  The "update best point so far" rule of the NLopt-authored SLSQP driver (`nlopt_slsqp` in slsqp.c), as a fold over
  the evaluated points.  `slsqp()` itself (the f2c core) only proposes the points.
-/
namespace Nlopt.Slsqp
open Nlopt

/-- one evaluated point: objective value, "all constraints within tolerance", the largest constraint violation
    (`infeasibility_cur`), and the identity of the point -/
structure Ev where
  f : F64
  feas : Bool
  infeas : F64
  pt : Nat
  deriving DecidableEq

/-- the driver's incumbent -/
structure Inc where
  minf : F64 := F64.posInf
  feasible : Bool := false
  infeas : F64 := F64.posInf
  pt : Option Nat := none
  deriving DecidableEq

/-- `if (nlopt_isfinite(fcur) && ((fcur < *minf && (feasible_cur || !feasible)) || (!feasible && infeasibility_cur < infeasibility)))` -/
def accepts (s : Inc) (e : Ev) : Bool :=
  e.f.isFinite && ((F64.lt e.f s.minf && (e.feas || !s.feasible)) || (!s.feasible && F64.lt e.infeas s.infeas))

def update (s : Inc) (e : Ev) : Inc :=
  if accepts s e then { minf := e.f, feasible := e.feas, infeas := e.infeas, pt := some e.pt } else s

def run (es : List Ev) : Inc := es.foldl update {}

/-- ISRES / DIRECT style rule for comparison: only feasible points compete, strict improvement -/
def updateFeasOnly (s : Inc) (e : Ev) : Inc :=
  if e.feas && F64.lt e.f s.minf then { minf := e.f, feasible := true, infeas := e.infeas, pt := some e.pt } else s

end Nlopt.Slsqp
