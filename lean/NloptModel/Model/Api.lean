import NloptModel.Model.F64
/-!
  Model of `src/api/options.c` (object creation, copy, destruction, every setter/getter, constraints,
  parameters, local optimizer, munge hooks, error messages) over an *ownership heap*:

  * an object (`Core`) stores its arrays by value together with the ghost id of the malloc'ed block
    that holds them (`Arr.blk`), so that a shallow copy or a double free is expressible;
  * every allocator request / release and every munge-hook invocation is emitted as an event
    (`Ev`), in program order, and an allocation oracle (`AS.failIn`) makes the k-th request fail;
  * an object with its chain of nested local optimizers is the list `core :: locals`.

  The functions are transcribed from the C code function by function and statement by statement.
  The correspondence harness (`harness/api.c`) replays the same operation histories on the real
  library with `malloc/calloc/realloc/free` interposed and compares return codes, event lists and
  object snapshots after every operation.
-/
namespace Nlopt

/-- nlopt_result codes -/
def rSUCCESS : Int := 1
def rINVALID : Int := -2
def rOOM : Int := -3

structure Arr where
  blk : Nat
  v : List F64
  deriving Inhabited, DecidableEq

structure Con where
  m : Nat
  isVec : Bool        -- `mf` set (and `f` NULL)
  fid : Nat           -- which user function
  pre : Nat           -- preconditioner id, 0 = NULL
  fdata : Nat         -- user data id, 0 = NULL
  tol : Option Arr    -- always `some` in a registered constraint; `none` only inside a half-built copy
  deriving Inhabited, DecidableEq

structure Param where
  nameBlk : Nat
  name : String
  val : F64
  deriving Inhabited, DecidableEq

structure Core where
  self : Nat
  algorithm : Nat
  n : Nat
  f : Nat := 0
  fdata : Nat := 0
  pre : Nat := 0
  maximize : Bool := false
  paramsBlk : Option Nat := none
  params : List Param := []
  lb : Option Arr := none
  ub : Option Arr := none
  mAlloc : Nat := 0
  fcBlk : Option Nat := none
  fc : List Con := []
  pAlloc : Nat := 0
  hBlk : Option Nat := none
  h : List Con := []
  mungeD : Bool := false
  mungeC : Bool := false
  stopval : F64 := F64.negInf
  ftolRel : F64 := F64.zero
  ftolAbs : F64 := F64.zero
  xtolRel : F64 := F64.zero
  xtolAbs : Option Arr := none
  xWeights : Option Arr := none
  maxeval : Int := 0
  numevals : Int := 0
  maxtime : F64 := F64.zero
  forceStop : Int := 0
  pop : Nat := 0
  vs : Nat := 0
  dx : Option Arr := none
  errmsg : Option Nat := none
  deriving Inhabited, DecidableEq

/-- an object together with the chain of its nested local optimizers -/
structure Obj where
  core : Core
  locals : List Core := []
  deriving Inhabited, DecidableEq

def Obj.chain (o : Obj) : List Core := o.core :: o.locals

inductive Ev where
  | alloc (id sz : Nat)
  | allocFail
  | realloc (old new sz : Nat)
  | reallocFail (old : Nat)
  | free (id : Nat)
  | badFree (id : Nat)
  | mungeD (d : Nat)
  | mungeC (d d' : Nat)
  deriving DecidableEq, Inhabited

/-- sizes of the C structs, reported by the harness -/
structure Sizes where
  opt : Nat := 248
  con : Nat := 48
  par : Nat := 16
  deriving Inhabited

/-- allocator + hook state -/
structure AS where
  next : Nat := 0             -- next fresh block id
  nextData : Nat := 1000      -- next fresh data id handed out by the copy hook
  failIn : Nat := 0           -- 0: never; k: the k-th upcoming allocation request fails
  mcFailIn : Nat := 0         -- same for the copy hook
  evs : List Ev := []
  live : List Nat := []       -- blocks allocated and not yet freed
  sz : Sizes := {}
  numAlgs : Nat := 45
  deriving Inhabited

namespace AS

def emit (s : AS) (e : Ev) : AS := { s with evs := s.evs ++ [e] }

/-- one oracle step: does this request fail? -/
def tick (s : AS) : Bool × AS :=
  if s.failIn = 1 then (true, { s with failIn := 0 })
  else if s.failIn = 0 then (false, s)
  else (false, { s with failIn := s.failIn - 1 })

/-- malloc / calloc of `sz` bytes (errmsg: sz = 0, its size is canonicalised away) -/
def alloc (s : AS) (sz : Nat) : Option Nat × AS :=
  let (fail, s) := s.tick
  if fail then (none, s.emit .allocFail)
  else (some s.next, { (s.emit (.alloc s.next sz)) with next := s.next + 1, live := s.next :: s.live })

/-- free(p) of a non-NULL pointer; freeing a block that is not live is recorded as `badFree` -/
def free (s : AS) (b : Nat) : AS :=
  if s.live.contains b then { (s.emit (.free b)) with live := s.live.erase b }
  else s.emit (.badFree b)

def freeOpt (s : AS) : Option Nat → AS
  | none => s
  | some b => s.free b

def freeArr (s : AS) : Option Arr → AS
  | none => s
  | some a => s.free a.blk

/-- realloc(old, sz) -/
def realloc (s : AS) (old : Option Nat) (sz : Nat) : Option Nat × AS :=
  match old with
  | none => s.alloc sz
  | some o =>
    let (fail, s) := s.tick
    if fail then (none, s.emit (.reallocFail o))
    else (some s.next, { (s.emit (.realloc o s.next sz)) with next := s.next + 1,
                                                                live := s.next :: s.live.erase o })

def mungeDestroy (s : AS) (d : Nat) : AS := s.emit (.mungeD d)

/-- the user's copy hook: returns a fresh data id, or NULL when its oracle says so -/
def mungeCopy (s : AS) (d : Nat) : Option Nat × AS :=
  if s.mcFailIn = 1 then (none, { (s.emit (.mungeC d 0)) with mcFailIn := 0 })
  else
    let s := if s.mcFailIn = 0 then s else { s with mcFailIn := s.mcFailIn - 1 }
    (some s.nextData, { (s.emit (.mungeC d s.nextData)) with nextData := s.nextData + 1 })

end AS

/-- allocate a block of `v.length` doubles holding `v` -/
def allocArr (s : AS) (v : List F64) : Option Arr × AS :=
  match s.alloc (8 * v.length) with
  | (some b, s) => (some ⟨b, v⟩, s)
  | (none, s) => (none, s)

/-! ### error messages -/

def unsetErrmsg (s : AS) (c : Core) : AS × Core :=
  match c.errmsg with
  | some b => (s.free b, { c with errmsg := none })
  | none => (s, c)

/-- `nlopt_set_errmsg` → `nlopt_vsprintf(opt->errmsg, …)`: realloc; on failure the old message is
    freed and the message becomes NULL -/
def setErrmsg (s : AS) (c : Core) : AS × Core :=
  match s.realloc c.errmsg 0 with
  | (some b, s) => (s, { c with errmsg := some b })
  | (none, s) => (s.freeOpt c.errmsg, { c with errmsg := none })

/-! ### nlopt_destroy -/

def mungeCons (s : AS) (cs : List Con) : AS := cs.foldl (fun s c => s.mungeDestroy c.fdata) s
def freeTols (s : AS) (cs : List Con) : AS := cs.foldl (fun s c => s.freeArr c.tol) s
def freeNames (s : AS) (ps : List Param) : AS := ps.foldl (fun s p => s.free p.nameBlk) s

/-- everything `nlopt_destroy` does before it recurses into `local_opt` -/
def destroyPre (s : AS) (c : Core) : AS :=
  let s := if c.mungeD then mungeCons (mungeCons (s.mungeDestroy c.fdata) c.fc) c.h else s
  let s := freeTols s c.fc
  let s := freeTols s c.h
  let s := freeNames s c.params
  let s := s.freeOpt c.paramsBlk
  let s := s.freeArr c.lb
  let s := s.freeArr c.ub
  let s := s.freeArr c.xtolAbs
  let s := s.freeArr c.xWeights
  let s := s.freeOpt c.fcBlk
  s.freeOpt c.hBlk

/-- … and after -/
def destroyPost (s : AS) (c : Core) : AS :=
  let s := s.freeArr c.dx
  let s := s.freeOpt c.errmsg
  s.free c.self

def destroyChain (s : AS) : List Core → AS
  | [] => s
  | c :: rest => destroyPost (destroyChain (destroyPre s c) rest) c

def destroy (s : AS) (o : Obj) : AS := destroyChain s o.chain

/-! ### bounds -/

/-- `if (lb[i] < ub[i] && nlopt_istiny(ub[i] - lb[i]))` -/
def tinyGap (A : Arith) (l u : F64) : Bool := F64.lt l u && (A.sub u l).isTiny

def collapseLb (A : Arith) (lb ub : List F64) : List F64 :=
  List.zipWith (fun l u => if tinyGap A l u then u else l) lb ub
def collapseUb (A : Arith) (lb ub : List F64) : List F64 :=
  List.zipWith (fun l u => if tinyGap A l u then l else u) lb ub

def arrV : Option Arr → List F64
  | some a => a.v
  | none => []

def setArrV (a : Option Arr) (v : List F64) : Option Arr := a.map fun a => { a with v := v }

/-- nlopt_set_lower_bounds(opt, lb): `arg = none` is the NULL pointer -/
def setLowerBounds (A : Arith) (s : AS) (c : Core) (arg : Option (List F64)) : AS × Core × Int :=
  let (s, c) := unsetErrmsg s c
  if c.n = 0 ∨ arg.isSome then
    let v := if c.n > 0 then (arg.getD []).take c.n else arrV c.lb
    (s, { c with lb := setArrV c.lb (collapseLb A v (arrV c.ub)) }, rSUCCESS)
  else (s, c, rINVALID)

def setUpperBounds (A : Arith) (s : AS) (c : Core) (arg : Option (List F64)) : AS × Core × Int :=
  let (s, c) := unsetErrmsg s c
  if c.n = 0 ∨ arg.isSome then
    let v := if c.n > 0 then (arg.getD []).take c.n else arrV c.ub
    (s, { c with ub := setArrV c.ub (collapseUb A (arrV c.lb) v) }, rSUCCESS)
  else (s, c, rINVALID)

def setLowerBounds1 (A : Arith) (s : AS) (c : Core) (x : F64) : AS × Core × Int :=
  let (s, c) := unsetErrmsg s c
  (s, { c with lb := setArrV c.lb (collapseLb A (List.replicate c.n x) (arrV c.ub)) }, rSUCCESS)

def setUpperBounds1 (A : Arith) (s : AS) (c : Core) (x : F64) : AS × Core × Int :=
  let (s, c) := unsetErrmsg s c
  (s, { c with ub := setArrV c.ub (collapseUb A (arrV c.lb) (List.replicate c.n x)) }, rSUCCESS)

def setLowerBound (A : Arith) (s : AS) (c : Core) (i : Int) (x : F64) : AS × Core × Int :=
  let (s, c) := unsetErrmsg s c
  if i < 0 ∨ i ≥ (c.n : Int) then
    let (s, c) := setErrmsg s c
    (s, c, rINVALID)
  else
    let k := i.toNat
    let u := (arrV c.ub).getD k F64.zero
    let nl := if tinyGap A x u then u else x
    (s, { c with lb := setArrV c.lb ((arrV c.lb).set k nl) }, rSUCCESS)

def setUpperBound (A : Arith) (s : AS) (c : Core) (i : Int) (x : F64) : AS × Core × Int :=
  let (s, c) := unsetErrmsg s c
  if i < 0 ∨ i ≥ (c.n : Int) then
    let (s, c) := setErrmsg s c
    (s, c, rINVALID)
  else
    let k := i.toNat
    let l := (arrV c.lb).getD k F64.zero
    let nu := if tinyGap A l x then l else x
    (s, { c with ub := setArrV c.ub ((arrV c.ub).set k nu) }, rSUCCESS)

/-- getters with an output buffer: `outNull` = the caller passed NULL -/
def getLowerBounds (s : AS) (c : Core) (outNull : Bool) : AS × Core × Int × List F64 :=
  let (s, c) := unsetErrmsg s c
  if c.n = 0 ∨ !outNull then (s, c, rSUCCESS, arrV c.lb) else (s, c, rINVALID, [])

def getUpperBounds (s : AS) (c : Core) (outNull : Bool) : AS × Core × Int × List F64 :=
  let (s, c) := unsetErrmsg s c
  if c.n = 0 ∨ !outNull then (s, c, rSUCCESS, arrV c.ub) else (s, c, rINVALID, [])

/-! ### nlopt_create -/

def infNeg : F64 := F64.negInf
def infPos : F64 := F64.posInf

def create (A : Arith) (s : AS) (alg : Int) (n : Nat) : AS × Option Obj :=
  if alg < 0 ∨ alg ≥ (s.numAlgs : Int) then (s, none)
  else
    match s.alloc s.sz.opt with
    | (none, s) => (s, none)
    | (some self, s) =>
      let c : Core := { self := self, algorithm := alg.toNat, n := n }
      if n > 0 then
        match allocArr s (List.replicate n F64.zero) with
        | (none, s) => (destroyChain s [c], none)
        | (some lb, s) =>
          let c := { c with lb := some lb }
          match allocArr s (List.replicate n F64.zero) with
          | (none, s) => (destroyChain s [c], none)
          | (some ub, s) =>
            let c := { c with ub := some ub }
            let (s, c, _) := setLowerBounds1 A s c infNeg
            let (s, c, _) := setUpperBounds1 A s c infPos
            (s, some { core := c })
      else (s, some { core := c })

/-! ### nlopt_copy -/

/-- munge the data pointers of a constraint array in order; stops at the first hook failure -/
def mungeCopyCons (s : AS) : List Con → List Con → (Bool × List Con × AS)
  | done, [] => (true, done, s)
  | done, c :: rest =>
    if c.fdata ≠ 0 then
      match s.mungeCopy c.fdata with
      | (some d, s) => mungeCopyCons s (done ++ [{ c with fdata := d }]) rest
      | (none, s) => (false, done ++ [{ c with fdata := 0 }] ++ rest, s)
    else mungeCopyCons s (done ++ [c]) rest

/-- allocate the tolerance arrays of a constraint array in order (from the source constraints);
    stops at the first allocation failure -/
def copyTols (s : AS) : List Con → List (Con × Con) → (Bool × List Con × AS)
  | done, [] => (true, done, s)
  | done, (nc, src) :: rest =>
    match src.tol with
    | some t =>
      match allocArr s t.v with
      | (some a, s) => copyTols s (done ++ [{ nc with tol := some a }]) rest
      | (none, s) => (false, done ++ (nc :: rest.map Prod.fst), s)
    | none => copyTols s (done ++ [nc]) rest

def copyNames (s : AS) : List Param → List Param → (Bool × List Param × AS)
  | done, [] => (true, done, s)
  | done, p :: rest =>
    match s.alloc (p.name.utf8ByteSize + 1) with
    | (some b, s) => copyNames s (done ++ [{ p with nameBlk := b }]) rest
    | (none, s) => (false, done, s)

/-- the out-of-memory exit of `nlopt_copy`: `munge_on_destroy = NULL; nlopt_destroy(nopt)` -/
def copyOom (s : AS) (nc : Core) (nlocals : List Core) : AS :=
  destroyChain s ({ nc with mungeD := false } :: nlocals)

/-- copy one constraint array (`fc` or `h`): block, munged data, tolerance arrays.
    returns (ok, block, entries, state) -/
def copyConArray (s : AS) (munge : Bool) (src : List Con) : Bool × Option Nat × List Con × AS :=
  if src.length = 0 then (true, none, [], s)
  else
    match s.alloc (s.sz.con * src.length) with
    | (none, s) => (false, none, [], s)
    | (some b, s) =>
      let blank := src.map fun c => { c with tol := none }
      let (ok, cs, s) := if munge then mungeCopyCons s [] blank else (true, blank, s)
      if !ok then (false, some b, cs, s)
      else
        let (ok, cs, s) := copyTols s [] (cs.zip src)
        (ok, some b, cs, s)

/-- `nlopt_copy` on a chain; `none` = NULL (out of memory, everything released again) -/
def copyChain (s : AS) : List Core → AS × Option (List Core)
  | [] => (s, some [])
  | c :: rest =>
    match s.alloc s.sz.opt with
    | (none, s) => (s, none)
    | (some self, s) =>
      -- *nopt = *opt, then the pointer fields are cleared
      let nc : Core := { c with self := self, lb := none, ub := none, xtolAbs := none, xWeights := none,
                                 fcBlk := none, fc := [], hBlk := none, h := [], mAlloc := 0, pAlloc := 0,
                                 dx := none, errmsg := none, paramsBlk := none, params := [] }
      -- munge the objective's data
      let (ok, nc, s) :=
        if c.mungeC ∧ c.fdata ≠ 0 then
          match s.mungeCopy c.fdata with
          | (some d, s) => (true, { nc with fdata := d }, s)
          | (none, s) => (false, { nc with fdata := 0 }, s)
        else (true, nc, s)
      if !ok then (copyOom s nc [], none) else
      -- bounds, tolerances, weights
      let (ok, nc, s) :=
        if c.n > 0 then
          match allocArr s (arrV c.lb) with
          | (none, s) => (false, nc, s)
          | (some lb, s) =>
            let nc := { nc with lb := some lb }
            match allocArr s (arrV c.ub) with
            | (none, s) => (false, nc, s)
            | (some ub, s) =>
              let nc := { nc with ub := some ub }
              let (ok, nc, s) :=
                match c.xtolAbs with
                | some a =>
                  match allocArr s a.v with
                  | (none, s) => (false, nc, s)
                  | (some x, s) => (true, { nc with xtolAbs := some x }, s)
                | none => (true, nc, s)
              if !ok then (false, nc, s) else
              match c.xWeights with
              | some a =>
                match allocArr s a.v with
                | (none, s) => (false, nc, s)
                | (some x, s) => (true, { nc with xWeights := some x }, s)
              | none => (true, nc, s)
        else (true, nc, s)
      if !ok then (copyOom s nc [], none) else
      -- inequality constraints
      let (ok, blk, cs, s) := copyConArray s c.mungeC c.fc
      let nc := { nc with fcBlk := blk, fc := cs, mAlloc := if blk.isSome then c.fc.length else 0 }
      if !ok then (copyOom s nc [], none) else
      -- equality constraints
      let (ok, blk, cs, s) := copyConArray s c.mungeC c.h
      let nc := { nc with hBlk := blk, h := cs, pAlloc := if blk.isSome then c.h.length else 0 }
      if !ok then (copyOom s nc [], none) else
      -- parameters
      let (ok, nc, s) :=
        if c.params.length > 0 then
          match s.alloc (s.sz.par * c.params.length) with
          | (none, s) => (false, nc, s)
          | (some b, s) =>
            let (ok, ps, s) := copyNames s [] c.params
            (ok, { nc with paramsBlk := some b, params := ps }, s)
        else (true, nc, s)
      if !ok then (copyOom s nc [], none) else
      -- local optimizer
      let (s, nl) := if rest.isEmpty then (s, some []) else copyChain s rest
      match nl with
      | none => (copyOom s nc [], none)
      | some nlocals =>
        match c.dx with
        | some a =>
          match allocArr s a.v with
          | (none, s) => (copyOom s nc nlocals, none)
          | (some x, s) => (s, some ({ nc with dx := some x } :: nlocals))
        | none => (s, some (nc :: nlocals))

def ofChain : List Core → Option Obj
  | [] => none
  | c :: l => some { core := c, locals := l }

def copy (s : AS) (o : Obj) : AS × Option Obj :=
  match copyChain s o.chain with
  | (s, some ch) => (s, ofChain ch)
  | (s, none) => (s, none)

/-! ### parameters -/

def findParam (ps : List Param) (name : String) : Option Nat := ps.findIdx? (fun p => p.name == name)

/-- nlopt_set_param; `name = none` is the NULL pointer -/
def setParam (s : AS) (c : Core) (name : Option String) (val : F64) : AS × Core × Int :=
  match name with
  | none => let (s, c) := setErrmsg s c; (s, c, rINVALID)
  | some nm =>
    if nm.utf8ByteSize + 1 > 1024 then let (s, c) := setErrmsg s c; (s, c, rINVALID)
    else
      match findParam c.params nm with
      | some i => (s, { c with params := c.params.modify i (fun p => { p with val := val }) }, rSUCCESS)
      | none =>
        match s.realloc c.paramsBlk (s.sz.par * (c.params.length + 1)) with
        | (none, s) => (s, c, rOOM)
        | (some b, s) =>
          let c := { c with paramsBlk := some b }
          match s.alloc (nm.utf8ByteSize + 1) with
          | (none, s) => (s, c, rOOM)
          | (some nb, s) => (s, { c with params := c.params ++ [⟨nb, nm, val⟩] }, rSUCCESS)

def getParam (c : Core) (name : Option String) (dflt : F64) : F64 :=
  match name with
  | none => dflt
  | some nm =>
    if nm.utf8ByteSize ≥ 1024 then dflt
    else match c.params.find? (fun p => p.name == nm) with
      | some p => p.val
      | none => dflt

def hasParam (c : Core) (name : Option String) : Bool :=
  match name with
  | none => false
  | some nm => if nm.utf8ByteSize ≥ 1024 then false else c.params.any (fun p => p.name == nm)

/-! ### objective -/

def setObjective (s : AS) (c : Core) (f pre fdata : Nat) (maximize : Bool) : AS × Core × Int :=
  let (s, c) := unsetErrmsg s c
  let s := if c.mungeD then s.mungeDestroy c.fdata else s
  let sv := if maximize then (if c.stopval.isInf && F64.lt c.stopval F64.zero then F64.posInf else c.stopval)
            else (if c.stopval.isInf && F64.gt c.stopval F64.zero then F64.negInf else c.stopval)
  (s, { c with f := f, fdata := fdata, pre := pre, maximize := maximize, stopval := sv }, rSUCCESS)

/-! ### constraints -/

def isAuglag (a : Nat) (ids : List Nat) : Bool := ids.contains a

/-- algorithm capability tables (regenerated from the C source into `Generated/AlgLists.lean`;
    passed in as a parameter here) -/
structure AlgCaps where
  ineqOk : List Nat
  eqOk : List Nat
  deriving Inhabited

def removeCons (s : AS) (mungeD : Bool) (cs : List Con) (blk : Option Nat) : AS :=
  let s := if mungeD then mungeCons s cs else s
  let s := freeTols s cs
  s.freeOpt blk

def removeIneq (s : AS) (c : Core) : AS × Core × Int :=
  let (s, c) := unsetErrmsg s c
  (removeCons s c.mungeD c.fc c.fcBlk, { c with fc := [], fcBlk := none, mAlloc := 0 }, rSUCCESS)

def removeEq (s : AS) (c : Core) : AS × Core × Int :=
  let (s, c) := unsetErrmsg s c
  (removeCons s c.mungeD c.h c.hBlk, { c with h := [], hBlk := none, pAlloc := 0 }, rSUCCESS)

/-- the static `add_constraint`; works on (list, alloc count, block) of either kind.
    `fid = 0` is a NULL function pointer; `tol = none` the NULL tolerance pointer.
    returns (state, core-with-errmsg, list, alloc, block, code) -/
def addConstraint (s : AS) (c : Core) (cs : List Con) (alloc : Nat) (blk : Option Nat)
    (fm : Nat) (isVec : Bool) (fid pre fdata : Nat) (tol : Option (List F64)) :
    AS × Core × List Con × Nat × Option Nat × Int :=
  -- (fc && mfc) || (fc && fm != 1) || (!fc && !mfc): with one function id per call this is
  -- "scalar with fm ≠ 1" or "no function"
  if fid = 0 ∨ (!isVec ∧ fm ≠ 1) then (s, c, cs, alloc, blk, rINVALID)
  else if (tol.getD []).take fm |>.any (fun t => F64.lt t F64.zero) then
    let (s, c) := setErrmsg s c
    (s, c, cs, alloc, blk, rINVALID)
  else
    match s.alloc (8 * fm) with
    | (none, s) => (s, c, cs, alloc, blk, rOOM)
    | (some tb, s) =>
      let tv := match tol with
        | some t => t.take fm
        | none => List.replicate fm F64.zero
      let newc : Con := { m := fm, isVec := isVec, fid := fid, pre := pre, fdata := fdata, tol := some ⟨tb, tv⟩ }
      let m' := cs.length + 1
      if m' > alloc then
        match s.realloc blk (s.sz.con * (2 * m')) with
        | (none, s) => (s.free tb, c, cs, alloc, blk, rOOM)
        | (some nb, s) => (s, c, cs ++ [newc], 2 * m', some nb, rSUCCESS)
      else (s, c, cs ++ [newc], alloc, blk, rSUCCESS)

/-- the part of the public adders between the empty-constraint shortcut and the final munge call -/
def addConCore (caps : List Nat) (eq : Bool) (s : AS) (c : Core) (fm : Nat) (isVec : Bool)
    (fid pre fdata : Nat) (tol : Option (List F64)) : AS × Core × Int :=
  if !caps.contains c.algorithm then
    ((setErrmsg s c).1, (setErrmsg s c).2, rINVALID)
  else if eq then
    let r := addConstraint s c c.h c.pAlloc c.hBlk fm isVec fid pre fdata tol
    (r.1, { r.2.1 with h := r.2.2.1, pAlloc := r.2.2.2.1, hBlk := r.2.2.2.2.1 }, r.2.2.2.2.2)
  else
    let r := addConstraint s c c.fc c.mAlloc c.fcBlk fm isVec fid pre fdata tol
    (r.1, { r.2.1 with fc := r.2.2.1, mAlloc := r.2.2.2.1, fcBlk := r.2.2.2.2.1 }, r.2.2.2.2.2)

/-- the four public adders share this shape -/
def addCon (caps : List Nat) (eq : Bool) (s : AS) (c : Core) (fm : Nat) (isVec : Bool)
    (fid pre fdata : Nat) (tol : Option (List F64)) : AS × Core × Int :=
  let u := unsetErrmsg s c
  if isVec ∧ fm = 0 then
    -- empty constraints are always ok
    ((if u.2.mungeD then u.1.mungeDestroy fdata else u.1), u.2, rSUCCESS)
  else
    let r := addConCore caps eq u.1 u.2 fm isVec fid pre fdata tol
    ((if r.2.2 < 0 ∧ r.2.1.mungeD then r.1.mungeDestroy fdata else r.1), r.2.1, r.2.2)

/-! ### scalar settings (the SET macro) -/

def setScalar (s : AS) (c : Core) (upd : Core → Core) : AS × Core × Int :=
  let (s, c) := unsetErrmsg s c
  (s, upd c, rSUCCESS)

/-! ### xtol_abs, x_weights -/

def setXtolAbs (s : AS) (c : Core) (arg : Option (List F64)) : AS × Core × Int :=
  let (s, c) := unsetErrmsg s c
  match arg with
  | none => (s.freeArr c.xtolAbs, { c with xtolAbs := none }, rSUCCESS)
  | some v =>
    if c.xtolAbs.isNone ∧ c.n > 0 then
      match allocArr s (v.take c.n) with
      | (none, s) => (s, c, rOOM)
      | (some a, s) => (s, { c with xtolAbs := some a }, rSUCCESS)
    else (s, { c with xtolAbs := setArrV c.xtolAbs (v.take c.n) }, rSUCCESS)

def setXtolAbs1 (s : AS) (c : Core) (x : F64) : AS × Core × Int :=
  let (s, c) := unsetErrmsg s c
  if c.xtolAbs.isNone ∧ c.n > 0 then
    match allocArr s (List.replicate c.n x) with
    | (none, s) => (s, c, rOOM)
    | (some a, s) => (s, { c with xtolAbs := some a }, rSUCCESS)
  else (s, { c with xtolAbs := setArrV c.xtolAbs (List.replicate c.n x) }, rSUCCESS)

def getXtolAbs (s : AS) (c : Core) (outNull : Bool) : AS × Core × Int × List F64 :=
  let (s, c) := unsetErrmsg s c
  if c.n = 0 ∨ !outNull then
    (s, c, rSUCCESS, match c.xtolAbs with | some a => a.v | none => List.replicate c.n F64.zero)
  else (s, c, rINVALID, [])

def setXWeights (s : AS) (c : Core) (arg : Option (List F64)) : AS × Core × Int :=
  let (s, c) := unsetErrmsg s c
  match arg with
  | none => (s.freeArr c.xWeights, { c with xWeights := none }, rSUCCESS)
  | some v =>
    if (v.take c.n).any (fun w => F64.lt w F64.zero) then
      let (s, c) := setErrmsg s c
      (s, c, rINVALID)
    else if c.xWeights.isNone ∧ c.n > 0 then
      match allocArr s (v.take c.n) with
      | (none, s) => (s, c, rOOM)
      | (some a, s) => (s, { c with xWeights := some a }, rSUCCESS)
    else (s, { c with xWeights := setArrV c.xWeights (v.take c.n) }, rSUCCESS)

def setXWeights1 (s : AS) (c : Core) (x : F64) : AS × Core × Int :=
  if F64.lt x F64.zero then
    let (s, c) := setErrmsg s c       -- note: the old message is not unset first
    (s, c, rINVALID)
  else
    let (s, c) := unsetErrmsg s c
    if c.xWeights.isNone ∧ c.n > 0 then
      match allocArr s (List.replicate c.n x) with
      | (none, s) => (s, c, rOOM)
      | (some a, s) => (s, { c with xWeights := some a }, rSUCCESS)
    else (s, { c with xWeights := setArrV c.xWeights (List.replicate c.n x) }, rSUCCESS)

def getXWeights (s : AS) (c : Core) (outNull : Bool) : AS × Core × Int × List F64 :=
  if c.n > 0 ∧ outNull then
    let (s, c) := setErrmsg s c
    (s, c, rINVALID, [])
  else
    let (s, c) := unsetErrmsg s c
    (s, c, rSUCCESS, match c.xWeights with | some a => a.v | none => List.replicate c.n F64.one)

/-! ### initial step -/

def setInitialStep1 (s : AS) (c : Core) (x : F64) : AS × Core × Int :=
  let (s, c) := unsetErrmsg s c
  if F64.feq x F64.zero then
    let (s, c) := setErrmsg s c
    (s, c, rINVALID)
  else if c.dx.isNone ∧ c.n > 0 then
    match allocArr s (List.replicate c.n x) with
    | (none, s) => (s, c, rOOM)
    | (some a, s) => (s, { c with dx := some a }, rSUCCESS)
  else (s, { c with dx := setArrV c.dx (List.replicate c.n x) }, rSUCCESS)

def setInitialStep (s : AS) (c : Core) (arg : Option (List F64)) : AS × Core × Int :=
  let (s, c) := unsetErrmsg s c
  match arg with
  | none => (s.freeArr c.dx, { c with dx := none }, rSUCCESS)
  | some v =>
    if (v.take c.n).any (fun d => F64.feq d F64.zero) then
      let (s, c) := setErrmsg s c
      (s, c, rINVALID)
    else if c.dx.isNone then
      let (s, c, r) := setInitialStep1 s c F64.one
      if r = rOOM then (s, c, rOOM)
      else (s, { c with dx := setArrV c.dx (v.take c.n) }, rSUCCESS)
    else (s, { c with dx := setArrV c.dx (v.take c.n) }, rSUCCESS)

/-- the heuristic of `nlopt_set_default_initial_step` for one coordinate -/
def defaultStep1 (A : Arith) (lb ub x : F64) : F64 :=
  let c075 : F64 := ⟨0x3FE8000000000000⟩
  let c025 : F64 := ⟨0x3FD0000000000000⟩
  let c11 : F64 := ⟨0x3FF199999999999A⟩
  let step := F64.posInf
  let step := if !ub.isInf && !lb.isInf && F64.lt (A.mul (A.sub ub lb) c025) step && F64.gt ub lb
              then A.mul (A.sub ub lb) c025 else step
  let step := if !ub.isInf && F64.lt (A.sub ub x) step && F64.gt ub x then A.mul (A.sub ub x) c075 else step
  let step := if !lb.isInf && F64.lt (A.sub x lb) step && F64.gt x lb then A.mul (A.sub x lb) c075 else step
  let step :=
    if step.isInf then
      let step := if !ub.isInf && F64.lt (A.sub ub x).abs step.abs then A.mul (A.sub ub x) c11 else step
      let step := if !lb.isInf && F64.lt (A.sub x lb).abs step.abs then A.mul (A.sub x lb) c11 else step
      step
    else step
  let step := if step.isInf || step.isTiny then x else step
  let step := if step.isInf || F64.feq step F64.zero then F64.one else step
  step

def zipWith3 (f : α → β → γ → δ) : List α → List β → List γ → List δ
  | a :: as, b :: bs, c :: cs => f a b c :: zipWith3 f as bs cs
  | _, _, _ => []

/-- nlopt_set_default_initial_step; `x = none` is NULL -/
def setDefaultInitialStep (A : Arith) (s : AS) (c : Core) (x : Option (List F64)) : AS × Core × Int :=
  let (s, c) := unsetErrmsg s c
  match x with
  | none => (s, c, rINVALID)
  | some xv =>
    let (s, c, r) := if c.dx.isNone then setInitialStep1 s c F64.one else (s, c, rSUCCESS)
    if r = rOOM then (s, c, rOOM)
    else
      (s, { c with dx := setArrV c.dx (zipWith3 (defaultStep1 A) (arrV c.lb) (arrV c.ub) (xv.take c.n)) }, rSUCCESS)

/-- nlopt_get_initial_step -/
def getInitialStep (A : Arith) (s : AS) (c : Core) (x : Option (List F64)) : AS × Core × Int × List F64 :=
  let (s, c) := unsetErrmsg s c
  if c.n = 0 then (s, c, rSUCCESS, [])
  else
    match c.dx with
    | none =>
      let (s, c, r) := setDefaultInitialStep A s c x
      if r ≠ rSUCCESS then (s, c, r, [])
      else (s.freeArr c.dx, { c with dx := none }, rSUCCESS, arrV c.dx)
    | some a => (s, c, rSUCCESS, a.v)

/-! ### force stop, munge -/

def setForceStop (s : AS) (o : Obj) (v : Int) : AS × Obj × Int :=
  let (s, c) := unsetErrmsg s o.core
  (s, { o with core := { c with forceStop := v } }, rSUCCESS)

/-! ### local optimizer -/

/-- nlopt_set_local_optimizer(opt, local_opt); `lo = none` is NULL -/
def setLocalOptimizer (A : Arith) (s : AS) (o : Obj) (lo : Option Obj) : AS × Obj × Int :=
  let (s, c) := unsetErrmsg s o.core
  let o := { o with core := c }
  match lo with
  | none =>
    -- copy(NULL) = NULL; destroy the old one
    (destroyChain s o.locals, { o with locals := [] }, rSUCCESS)
  | some l =>
    if l.core.n ≠ c.n then
      let (s, c) := setErrmsg s c
      (s, { o with core := c }, rINVALID)
    else
      match copyChain s l.chain with
      | (s, none) => (s, o, rOOM)
      | (s, some []) => (s, o, rOOM)
      | (s, some (nl :: nrest)) =>
        let s := destroyChain s o.locals
        let (s, nl, _) := setLowerBounds A s nl (some (arrV c.lb))
        let (s, nl, _) := setUpperBounds A s nl (some (arrV c.ub))
        let (s, nl, _) := removeIneq s nl
        let (s, nl, _) := removeEq s nl
        let (s, nl, _) := setObjective s nl 0 0 0 false
        let nl := { nl with mungeD := false, mungeC := false, forceStop := 0 }
        (s, { o with locals := nl :: nrest }, rSUCCESS)

end Nlopt
