import NloptModel.Model.F64
import NloptModel.Model.Stop
/-!
# Control-flow model of `mma_minimize` (src/algs/mma/mma.c, NLOPT_LD_MMA) and `ccsa_quadratic_minimize`
# (src/algs/mma/ccsa_quadratic.c, NLOPT_LD_CCSAQ)

Both drivers have the same outer / inner loop; the three places where they differ (NaN constraint values) are selected
by `Cfg.mma` (true = MMA, false = CCSAQ).  `run A c evs` consumes the sequence of EVENTS of one call and decides, exactly
like the C code, after every event whether the driver goes on or returns, with which result code, which `x` and which
`*minf`.

## Events

The first event is the evaluation of the caller's `x0` before the loops (objective callback, then one callback per
inequality-constraint object).  Every later event is ONE PASS OF THE INNER LOOP BODY: the dual problem was solved by the
nested `nlopt_optimize_limited` (NOT modelled: the proposer), `dual_func` left the trial point in `xcur`, then the
objective callback and the constraint callbacks are made at `xcur`.

    structure Ev
      x        the point handed to the callbacks (`x` for the first event, `xcur` afterwards)
      f        the objective value returned there (`fcur`)
      stop     0: `nlopt_stop_forced` was false at every test made during this event;
               1: the flag was raised during the objective callback (seen by the test that follows it);
               1+k (1 <= k <= mfc): raised during the k-th constraint callback (seen by the test that follows it);
               > 1+mfc: raised after the last callback test (asynchronously): seen by the next test the code makes (the
               test after the incumbent rule; at the top of the outer loop for the first event)
      g        the constraint results at `x`, flattened as the code flattens them (`fcval` / `fcval_cur`, `m` entries in
               the order of the constraint objects; a missing entry reads as +0.0, surplus entries are ignored)
      -- what comes out of the dual solve / the approximation arithmetic and steers the control flow, but cannot be
      -- reconstructed from (x, f, g) (all ignored for the first event):
      dual     `reti`, the code returned by `nlopt_optimize_limited` on the dual (or, for preconditioned CCSAQ, on
               `pre_opt`).  If `reti < 0 || reti == NLOPT_MAXTIME_REACHED (6)` the event is a DUAL FAILURE: the driver
               returns `reti` at once, NO callback is made, all other fields are ignored.  Any other value: no influence.
      consF    `dd.gval >= fcur`  (the approximation is conservative for the objective at the trial point)
      gvalNaN  `nlopt_isnan(dd.gval)`  (the guard `nlopt_isnan(fcur) || nlopt_isnan(dd.gval)` right after the first
               forced-stop test returns ROUNDOFF_LIMITED; `isnan(fcur)` is computed by the model)
      consG    `dd.gcval[i] >= fcval_cur[i]` for every flattened constraint i (missing entry = false).  The model uses
               entry i only where the C code does (MMA: only if neither `fcval_cur[i]` nor the incumbent's `fcval[i]` is
               NaN; CCSAQ: always, and-ed with "`fcval_cur[i]` is not NaN", which IEEE forces anyway)
      rhoInf   `nlopt_isinf(rho)` after the update `rho = MIN(10*rho, 1.1*(rho + (fcur-dd.gval)/dd.wval))`; tested by the
               C code only when the inner loop goes on (no stop, not `inner_done`): ROUNDOFF_LIMITED

`rho`, `rhoc`, `sigma`, `y`, `dual_ub`, gradients, `dd.fval`, `xprevprev`, `k` are NOT tracked: they influence only the
proposer (and `rhoInf`).

## What the model computes exactly as the C code

the counters `*stop->nevals_p` and `inner_nevals`; `feasible`, `infeasibility`, `fcval` (the incumbent's constraint
values, whose NaN pattern MMA reads), `feasible_cur` (with the tolerances), `infeasibility_cur`,
`new_infeasible_constraint` (MMA only), `inner_done` including the `inner_maxeval` cap, the incumbent rule

    (fcur < *minf && (inner_done || feasible_cur || !feasible)) || (!feasible && infeasibility_cur < infeasibility)

with the update of `feasible`, the tests after the rule in their order (forced stop, `nlopt_stop_evals`, stopval: only
`feasible && *minf < minf_max`, strict), the `inner_done` break, the ROUNDOFF_LIMITED exits, and the tests at the end of an
outer iteration (`nlopt_stop_ftol(fcur, fprev)`, then `nlopt_stop_x(xcur, xprev)` which overrides FTOL_REACHED).  The
tests at the top of the next outer iteration repeat the tests just made after the incumbent rule with unchanged data
(all false), so the model does not repeat them.  Every comparison is the IEEE one (false on NaN); the model is exact for
NaN / Inf values.  Differences MMA / CCSAQ (all about NaN constraint values): initial `feasible` (`fcval[i] <= 0 ||
isnan` vs `fcval[i] <= 0`), `feasible_cur` / `inner_done` (NaN entries skipped vs not), `new_infeasible_constraint`
(CCSAQ has none).

## Result

    Res.ret        nlopt_result (0 = placeholder of a short / malformed run)
    Res.nevals     `*stop->nevals_p` = number of objective evaluations (= consumed events that are not dual failures)
    Res.nevents    number of events consumed
    Res.nproc      number of events PROCESSED (all callbacks made, incumbent rule applied): `nevents`, or `nevents - 1`
                   when the last consumed event was cut short (forced stop seen after a callback, NaN guard, dual failure)
    Res.x, minf    the caller's `x` and `*minf` (`none` = never written: no event consumed)
    Res.short      the events ran out before the driver returned
    Res.malformed  the first event is not the evaluation of `Cfg.x0` (other point, or a dual failure); not consumed
    Res.feasible   the driver's flag `feasible` on return (meaningful when nproc >= 1)

## Not modelled

the dual solve (proposer) and its setup calls; the early `NLOPT_INVALID_ARGS` when the dual optimizer's dimension is not
`m` and malloc failures (all before `*minf` is written); CCSAQ's preconditioner set-up failures; the time limit
(maxtime = 0: `nlopt_stop_time` is false); `int` overflow of the counters; verbose output.  The driver sees the problem
after the `maximize` sign flip of `nlopt_optimize`; `Cfg`, events and `Res` are at the level of `mma_minimize`.
`inner_maxeval` is `(int) nlopt_get_param(opt, "inner_maxeval", 0)` (src/api/optimize.c); 0 or negative = no cap.

## Validation

The executable model was compared with `mma_minimize` and `ccsa_quadratic_minimize` compiled from the HEAD sources
(replay/src = `git archive HEAD`; replay/inst/*_inst.c = the two files plus hooks that log `reti`, `dd.gval >= fcur`,
`isnan(dd.gval)`, `dd.gcval[i] >= fcval_cur[i]`, `isinf(rho)`; the dual is solved by the real nested NLOPT_LD_MMA of
libnlopt.a) on 27 000 pseudo-random runs (replay/mma_replay.c, replay/compare.py: smooth and noisy objectives, NaN / Inf /
huge values, scalar and vector constraints, tolerances, every stopping criterion, inner_maxeval, stops raised in every
callback position, inexact dual solves, dual failures) plus runs that reach the rho-overflow guard: the result line of
`end` (with the logged booleans) agreed bit for bit in every run, and `endsearch` (booleans hidden) answered `ok` in every
run; on mutated results (replay/negtest.py) it answers `no` except where the mutation is a behaviour the model really has
(e.g. ROUNDOFF_LIMITED through `rhoInf` at the last event).  The arithmetic-independent witnesses of Props/DrvMma.lean were
replayed on the C drivers with scripted callbacks (replay/witness.c).

## Line protocol (`nlopt_model mma`)

Tokens are separated by one space.  A double is 16 lower-case hex digits (its bits).  `<vec>` = comma separated doubles,
`-` for the empty/absent vector.

    cfg key=value ...      starts a new run (resets everything), prints nothing.  Keys (all optional, any order):
        alg=mma|ccsa       which driver (default mma)
        n=<nat>            dimension (default 0; informational)
        x0=<vec>           the caller's x on entry
        tol=<vec|->        the tolerances of the inequality constraints, flattened (its length is `m`)
        mfc=<nat>          number of constraint OBJECTS = constraint callbacks per event (default: `m`, all scalar)
        inner_maxeval=<int>  (default 0)
        maxeval=<int>      (default 0 = no limit)
        stopval=<double>   minf_max (default fff0000000000000 = -Inf)
        ftol_rel= ftol_abs= xtol_rel=<double>   (default 0)
        xtol_abs=<vec|->   `-`/absent = NULL pointer
        xw=<vec|->         x_weights, `-`/absent = NULL pointer
    ev <xvec> <f> <stop> <gvec|-> [<consF 0|1> [<gvalNaN 0|1> [<consG> [<rhoInf 0|1>]]]]
                           appends an evaluation event, prints nothing.  `<stop>` decimal.  `<consG>` = a string of `0`/`1`,
                           one per flattened constraint, `-` for none.  Omitted booleans are 0.
    fail <reti>            appends a dual-failure event (`<reti>` decimal, negative or 6), prints nothing
    end                    runs the model, prints `<ret> <nevals> <xvec> <minf hex or -> <short 0|1> <malformed 0|1> <nevents> <feasible 0|1>`
    endsearch <ret> <nevals> <xvec> <minf>
                           SEARCH mode, for replaying runs recorded OUTSIDE the library, where only the callbacks (x, f, g,
                           the forced stop) and the final result are visible: the booleans of the recorded `ev` lines and
                           all `fail` lines are ignored.  Prints `ok <w>` iff SOME assignment of the unobservable
                           inputs makes the model consume ALL recorded events and return exactly (`<ret>`, `<nevals>`,
                           `<xvec>`, `<minf>`) (not short, not malformed); `no` otherwise.  `<w>` is one such assignment, one
                           letter per event: `-` the first event; `d` inner_done by conservativity (consF = 1, consG all
                           1); `c` not conservative (consF = 0; inner_done only through the inner_maxeval cap), rho stays
                           finite; `r` not conservative and `rhoInf`; `n` gvalNaN; a trailing `F` = a dual failure
                           returning `<ret>` after the last recorded evaluation.
    anything else          prints `bad-op`

Soundness of the search mode.  It is a REFINEMENT check: the real run must be ONE of the behaviours of the model.  One
pass of the inner loop depends on the unobservable booleans only through (gvalNaN, D := consF && all used consG, rhoInf):
`n` covers gvalNaN = 1; `d` covers D = 1 (making more consG entries true keeps D true); `c` / `r` cover D = 0 with
rhoInf = 0 / 1 (theorem `DrvMma.step_choice`).  So `ok` is printed iff an assignment exists.  The search
propagates the SET of reachable driver states forward through the events (a state is determined by the index of the
incumbent event, the flag `feasible`, and the index of the event that started the current outer iteration: at most
2k^2 states after k events), so it is polynomial: O(k^3) calls of `step` in the worst case.  On well-behaved runs the
frontier has about k states (one per possible start of the current outer iteration), i.e. O(k^2) calls of `step` (a
300-evaluation run takes about a second); runs in which many infeasible trial points have a smaller objective value
than the incumbent (noisy objectives) have more possible incumbents and cost more.  A `no` is a genuine discrepancy between the C run and the model; an
`ok` does not say that the C run used that very assignment.

Worked example (MMA, n = 1, one scalar constraint with tolerance 0, maxeval = 10, stopval = 1.5; x0 = 0: f = 3, g = -1
(feasible); trial point 1.0: f = 2, g = -1, not conservative (inner loop goes on); trial point 2.0: f = 1, g = -0.5,
conservative: accepted, and 1 < 1.5 with `feasible` set):

    cfg alg=mma n=1 maxeval=10 stopval=3ff8000000000000 x0=0000000000000000 tol=0000000000000000
    ev 0000000000000000 4008000000000000 0 bff0000000000000
    ev 3ff0000000000000 4000000000000000 0 bff0000000000000 0 0 0 0
    ev 4000000000000000 3ff0000000000000 0 bfe0000000000000 1 0 1 0
    end
    endsearch 2 3 4000000000000000 3ff0000000000000

prints `2 3 4000000000000000 3ff0000000000000 0 0 3 1` and `ok -cd`.
-/
namespace Nlopt.MmaDrv
open Nlopt

/-- one event (see the file header) -/
structure Ev where
  x : List F64
  f : F64
  stop : Nat := 0
  g : List F64 := []
  dual : Int := 1
  consF : Bool := false
  gvalNaN : Bool := false
  consG : List Bool := []
  rhoInf : Bool := false
  deriving DecidableEq, Inhabited

/-- `reti < 0 || reti == NLOPT_MAXTIME_REACHED` -/
def Ev.isFail (e : Ev) : Bool := decide (e.dual < 0) || decide (e.dual = 6)

/-- what the control flow reads.  Of `stop : Stopping` the fields `minfMax, ftolRel, ftolAbs, xtolRel, xtolAbs, xWeights,
    maxeval` are used; `n, nevals, maxtime, start, forceStop` are ignored. -/
structure Cfg where
  mma : Bool := true             -- true: mma_minimize, false: ccsa_quadratic_minimize
  n : Nat := 0
  x0 : List F64
  tol : List F64 := []           -- flattened `fc[ifc].tol[i - i0]`; length = m
  mfc : Nat := 0                 -- number of constraint objects
  innerMaxeval : Int := 0
  stop : Stopping

structure Res where
  ret : Int
  nevals : Nat
  nevents : Nat
  nproc : Nat
  x : List F64
  minf : Option F64
  short : Bool
  malformed : Bool
  feasible : Bool
  deriving DecidableEq, Inhabited

/-! ## the data of one evaluation -/

/-- entry of a flattened vector (missing = +0.0) -/
def gAt (g : List F64) : F64 := g.headD F64.zero

/-- initial `feasible`: MMA `fcval[i] <= 0 || nlopt_isnan(fcval[i])`, CCSAQ `fcval[i] <= 0`; iterates over `tol` (m entries) -/
def feasInitAux (mma : Bool) : List F64 → List F64 → Bool
  | [], _ => true
  | _ :: ts, g => (F64.le (gAt g) F64.zero || (mma && (gAt g).isNaN)) && feasInitAux mma ts g.tail

/-- `if (fcval[i] > infeasibility) infeasibility = fcval[i];` (NaN entries never pass the test, in either driver) -/
def infeasAux : F64 → List F64 → List F64 → F64
  | a, [], _ => a
  | a, _ :: ts, g => infeasAux (if F64.gt (gAt g) a then gAt g else a) ts g.tail

/-- `feasible_cur`: `fcval_cur[i] <= tol[i]`, NaN entries skipped by MMA -/
def feasTolAux (mma : Bool) : List F64 → List F64 → Bool
  | [], _ => true
  | t :: ts, g => ((mma && (gAt g).isNaN) || F64.le (gAt g) t) && feasTolAux mma ts g.tail

/-- the constraint part of `inner_done`: `dd.gcval[i] >= fcval_cur[i]` for the entries the driver looks at
    (`fc` = the incumbent's `fcval`, `cg` = `Ev.consG`) -/
def consAllAux (mma : Bool) : List F64 → List F64 → List F64 → List Bool → Bool
  | [], _, _, _ => true
  | _ :: ts, g, fc, cg =>
    (if mma then (gAt g).isNaN || (gAt fc).isNaN || cg.headD false
     else !(gAt g).isNaN && cg.headD false) && consAllAux mma ts g.tail fc.tail cg.tail

/-- MMA's `new_infeasible_constraint`: some `fcval_cur[i] > 0` (not NaN) whose `fcval[i]` is NaN -/
def newInfAux : List F64 → List F64 → List F64 → Bool
  | [], _, _ => false
  | _ :: ts, g, fc =>
    (!(gAt g).isNaN && (gAt fc).isNaN && F64.gt (gAt g) F64.zero) || newInfAux ts g.tail fc.tail

def feasInit (c : Cfg) (e : Ev) : Bool := feasInitAux c.mma c.tol e.g
/-- `infeasibility` / `infeasibility_cur` of an event -/
def infeasOf (c : Cfg) (e : Ev) : F64 := infeasAux F64.zero c.tol e.g
/-- `feasible_cur`: feasible within the tolerances -/
def feasTol (c : Cfg) (e : Ev) : Bool := feasTolAux c.mma c.tol e.g
/-- `infeasibility_cur == 0`: no constraint value is positive -/
def strictFeas (c : Cfg) (e : Ev) : Bool := F64.feq (infeasOf c e) F64.zero

/-! ## the state -/

structure St where
  started : Bool := false       -- the first event was consumed (`*minf` is written)
  nev : Nat := 0                -- `*stop->nevals_p`
  cnt : Nat := 0                -- events consumed
  nproc : Nat := 0              -- events processed
  x : List F64                  -- the caller's array
  minf : F64 := F64.zero        -- `*minf`
  feasible : Bool := true
  infeas : F64 := F64.zero      -- `infeasibility`
  fcval : List F64 := []        -- the incumbent's constraint values
  fprev : F64 := F64.zero       -- `fprev` of the current outer iteration
  xprev : List F64 := []        -- `xprev` of the current outer iteration
  innerN : Nat := 0             -- `inner_nevals`
  deriving DecidableEq

def St.res (s : St) (ret : Int) (short malformed : Bool) : Res :=
  ⟨ret, s.nev, s.cnt, s.nproc, s.x, if s.started then some s.minf else none, short, malformed, s.feasible⟩

inductive Next where
  | cont (s : St)
  | done (ret : Int) (s : St)
  | bad

/-- the flag is seen by the test that follows a callback -/
def cbStop (c : Cfg) (k : Nat) : Bool := decide (1 ≤ k) && decide (k ≤ 1 + c.mfc)

/-- the tests after the incumbent rule (and at the top of the first outer iteration): forced stop, evaluations,
    stopval (`feasible && *minf < stop->minf_max`).  `s` = the memory after the rule. -/
def lateRet (c : Cfg) (s : St) (e : Ev) : Option Int :=
  if e.stop ≠ 0 then some (-5)
  else if Stop.evals c.stop.maxeval (s.nev : Int) then some 5
  else if s.feasible && F64.lt s.minf c.stop.minfMax then some 2
  else none

/-! ### the first event -/

/-- `*minf = f(x0)` is written before the first forced-stop test -/
def bumpInit (s : St) (e : Ev) : St := { s with started := true, nev := 1, cnt := 1, minf := e.f }

def procInit (c : Cfg) (s : St) (e : Ev) : St :=
  { s with started := true, nev := 1, cnt := 1, nproc := 1, minf := e.f
           feasible := feasInit c e, infeas := infeasOf c e, fcval := e.g
           fprev := e.f, xprev := e.x, innerN := 0 }

def stepInit (c : Cfg) (s : St) (e : Ev) : Next :=
  if e.x ≠ s.x ∨ e.isFail = true then .bad
  else if cbStop c e.stop then .done (-5) (bumpInit s e)
  else match lateRet c (procInit c s e) e with
    | some r => .done r (procInit c s e)
    | none => .cont (procInit c s e)

/-! ### a pass of the inner loop -/

/-- `inner_done` after the line `inner_done = inner_done || (inner_maxeval > 0 && inner_nevals == inner_maxeval)`;
    `s` = the memory before the event -/
def innerDone (c : Cfg) (s : St) (e : Ev) : Bool :=
  (e.consF && consAllAux c.mma c.tol e.g s.fcval e.consG) ||
  (decide (c.innerMaxeval > 0) && decide (((s.innerN + 1 : Nat) : Int) = c.innerMaxeval))

def newInf (c : Cfg) (s : St) (e : Ev) : Bool := c.mma && newInfAux c.tol e.g s.fcval

/-- the incumbent rule -/
def accepts (c : Cfg) (s : St) (e : Ev) : Bool :=
  (F64.lt e.f s.minf && (innerDone c s e || feasTol c e || !s.feasible)) ||
  (!s.feasible && F64.lt (infeasOf c e) s.infeas)

/-- `feasible` after an accepted point -/
def feasAfter (c : Cfg) (s : St) (e : Ev) : Bool :=
  if strictFeas c e then true else if newInf c s e then false else s.feasible

/-- the event is cut short: forced stop seen after the objective callback, the NaN guard, forced stop seen after a
    constraint callback -/
def cut (c : Cfg) (e : Ev) : Option Int :=
  if e.stop = 1 then some (-5)
  else if e.f.isNaN || e.gvalNaN then some (-4)
  else if cbStop c e.stop then some (-5)
  else none

/-- memory after a cut event (`fcur` was overwritten; `x`, `*minf` untouched) -/
def bump (s : St) : St := { s with nev := s.nev + 1, cnt := s.cnt + 1 }

/-- memory after a completely processed pass (incumbent rule applied) -/
def proc (c : Cfg) (s : St) (e : Ev) : St :=
  let acc := accepts c s e
  { s with nev := s.nev + 1, cnt := s.cnt + 1, nproc := s.nproc + 1, innerN := s.innerN + 1
           x := if acc then e.x else s.x
           minf := if acc then e.f else s.minf
           infeas := if acc then infeasOf c e else s.infeas
           fcval := if acc then e.g else s.fcval
           feasible := if acc then feasAfter c s e else s.feasible }

/-- the tests at the end of an outer iteration: `nlopt_stop_ftol(stop, fcur, fprev)` → 3, then
    `nlopt_stop_x(stop, xcur, xprev)` → 4 (overrides) -/
def outerRet (A : Arith) (c : Cfg) (s : St) (e : Ev) : Option Int :=
  if Stop.x A c.stop e.x s.xprev then some 4
  else if Stop.ftol A c.stop e.f s.fprev then some 3
  else none

/-- after a processed pass: return with which code (`some`), or go on (`none`) -/
def verdict (A : Arith) (c : Cfg) (s : St) (e : Ev) : Option Int :=
  match lateRet c (proc c s e) e with
  | some r => some r
  | none =>
    if innerDone c s e then outerRet A c s e
    else if e.rhoInf then some (-4)
    else none

/-- memory when the loops go on: a new outer iteration starts after `inner_done` -/
def next (c : Cfg) (s : St) (e : Ev) : St :=
  if innerDone c s e then { proc c s e with fprev := e.f, xprev := e.x, innerN := 0 } else proc c s e

def stepTrial (A : Arith) (c : Cfg) (s : St) (e : Ev) : Next :=
  if e.isFail then .done e.dual { s with cnt := s.cnt + 1 }
  else match cut c e with
    | some r => .done r (bump s)
    | none =>
      match verdict A c s e with
      | some r => .done r (proc c s e)
      | none => .cont (next c s e)

def step (A : Arith) (c : Cfg) (s : St) (e : Ev) : Next :=
  if s.started then stepTrial A c s e else stepInit c s e

def go (A : Arith) (c : Cfg) : St → List Ev → Res
  | s, [] => s.res 0 true false
  | s, e :: es =>
    match step A c s e with
    | .cont s' => go A c s' es
    | .done r s' => s'.res r false false
    | .bad => s.res 0 false true

def St.init (c : Cfg) : St := { x := c.x0 }

/-- `mma_minimize` / `ccsa_quadratic_minimize` -/
def run (A : Arith) (c : Cfg) (evs : List Ev) : Res := go A c (St.init c) evs

/-! ## search mode -/

/-- the four ways the unobservable inputs can steer one pass -/
inductive Choice where
  | done | cont | rho | nan
  deriving DecidableEq

def Choice.letter : Choice → Char
  | .done => 'd' | .cont => 'c' | .rho => 'r' | .nan => 'n'

/-- the event with the unobservable inputs set according to the choice -/
def Choice.apply (c : Cfg) (e : Ev) : Choice → Ev
  | .done => { e with dual := 1, consF := true, gvalNaN := false, consG := c.tol.map fun _ => true, rhoInf := false }
  | .cont => { e with dual := 1, consF := false, gvalNaN := false, consG := [], rhoInf := false }
  | .rho => { e with dual := 1, consF := false, gvalNaN := false, consG := [], rhoInf := true }
  | .nan => { e with dual := 1, consF := false, gvalNaN := true, consG := [], rhoInf := false }

/-- the choice that behaves like the event's own booleans (`DrvMma.step_choice`) -/
def Choice.ofEv (c : Cfg) (s : St) (e : Ev) : Choice :=
  if e.gvalNaN then .nan
  else if e.consF && consAllAux c.mma c.tol e.g s.fcval e.consG then .done
  else if e.rhoInf then .rho else .cont

abbrev Front := List (St × List Char)

/-- bucket index of a state (only to find duplicates quickly; any function would do) -/
def hashSt (s : St) : Nat :=
  (s.innerN * 31 + s.minf.bits.toNat % 65521 + s.fprev.bits.toNat % 4093 + (if s.feasible then 1 else 0)) % 4096

/-- all outcomes of one recorded event from every state of the frontier -/
def outcomes (A : Arith) (c : Cfg) (last : Bool) (fr : Front) (e : Ev) : List (List Char × Next) :=
  fr.flatMap fun p =>
    if p.1.started then
      -- `r` and `n` always end the run: they are only tried at the last recorded event
      (if last then [Choice.done, Choice.cont, Choice.rho, Choice.nan] else [Choice.done, Choice.cont]).map
        fun ch => (ch.letter :: p.2, step A c p.1 (ch.apply c e))
    else [('-' :: p.2, step A c p.1 { e with dual := 1 })]

/-- the states from which the loops go on, without duplicates (one witness per state) -/
def conts (outs : List (List Char × Next)) : Front :=
  let bk : Array Front := outs.foldl (fun bk o =>
    match o.2 with
    | .cont s =>
      let i := hashSt s
      if (bk.getD i []).any (fun q => decide (q.1 = s)) then bk else bk.modify i (fun l => (s, o.1) :: l)
    | _ => bk) (Array.replicate 4096 [])
  bk.foldl (fun acc l => l ++ acc) []

/-- `tgt`: does a result match the recorded one; `failRet`: `some r` if the recorded code is one a dual failure returns -/
def searchGo (A : Arith) (c : Cfg) (tgt : Res → Bool) (failRet : Option Int) : Front → List Ev → Option (List Char)
  | _, [] => none
  | fr, e :: es =>
    let outs := outcomes A c es.isEmpty fr e
    match es with
    | [] =>
      match outs.find? (fun o => match o.2 with | .done r s => tgt (s.res r false false) | _ => false) with
      | some o => some o.1
      | none =>
        match failRet with
        | none => none
        | some r =>
          ((conts outs).find? fun p =>
              match step A c p.1 { x := [], f := F64.zero, dual := r } with
              | .done r' s => tgt (s.res r' false false)
              | _ => false).map fun p => 'F' :: p.2
    | _ :: _ => searchGo A c tgt failRet (conts outs) es

def search (A : Arith) (c : Cfg) (evs : List Ev) (ret : Int) (nevals : Nat) (x : List F64) (minf : F64) : Option String :=
  let tgt (r : Res) : Bool := decide (r.ret = ret) && decide (r.nevals = nevals) && decide (r.x = x) && decide (r.minf = some minf)
  let failRet := if ret < 0 ∨ ret = 6 then some ret else none
  (searchGo A c tgt failRet [(St.init c, [])] evs).map fun w => String.ofList w.reverse

/-! ## line protocol -/

structure DrvSt where
  cfg : Option Cfg := none
  revs : List Ev := []          -- newest first

def tokens (line : String) : List String := (line.trimAscii.toString.splitOn " ").filter (· ≠ "")

def pF (t : String) : F64 := (F64.ofHex? t).getD F64.zero
def pVec (t : String) : List F64 := if t == "-" || t == "" then [] else (t.splitOn ",").map pF
def pOptVec (t : String) : Option (List F64) := if t == "-" || t == "" then none else some (pVec t)
def pBits (t : String) : List Bool := if t == "-" then [] else t.toList.map (· == '1')

def kv (toks : List String) (k : String) : String :=
  match toks.find? (·.startsWith (k ++ "=")) with
  | some t => (t.drop (k.length + 1)).toString
  | none => ""

def hexVec (l : List F64) : String := if l.isEmpty then "-" else ",".intercalate (l.map F64.toHex)

def parseCfg (toks : List String) : Cfg :=
  let fl (k : String) (d : F64) : F64 := if kv toks k == "" then d else pF (kv toks k)
  let tol := pVec (kv toks "tol")
  { mma := kv toks "alg" != "ccsa"
    n := (kv toks "n").toNat?.getD 0
    x0 := pVec (kv toks "x0")
    tol := tol
    mfc := (kv toks "mfc").toNat?.getD tol.length
    innerMaxeval := (kv toks "inner_maxeval").toInt?.getD 0
    stop := { n := (kv toks "n").toNat?.getD 0
              minfMax := fl "stopval" F64.negInf
              ftolRel := fl "ftol_rel" F64.zero, ftolAbs := fl "ftol_abs" F64.zero, xtolRel := fl "xtol_rel" F64.zero
              xtolAbs := pOptVec (kv toks "xtol_abs"), xWeights := pOptVec (kv toks "xw")
              nevals := 0, maxeval := (kv toks "maxeval").toInt?.getD 0
              maxtime := F64.zero, start := F64.zero, forceStop := 0 } }

def showRes (r : Res) : String :=
  let mf := match r.minf with | some m => m.toHex | none => "-"
  let b (x : Bool) : String := if x then "1" else "0"
  s!"{r.ret} {r.nevals} {hexVec r.x} {mf} {b r.short} {b r.malformed} {r.nevents} {b r.feasible}"

def mkEv (x f s g : String) (cf gn : Bool) (cg : String) (ri : Bool) : Ev :=
  { x := pVec x, f := pF f, stop := s.toNat?.getD 0, g := pVec g, dual := 1
    consF := cf, gvalNaN := gn, consG := pBits cg, rhoInf := ri }

def drvStep (A : Arith) (st : DrvSt) (line : String) : DrvSt × String :=
  let ev (e : Ev) : DrvSt × String := ({ st with revs := e :: st.revs }, "")
  match tokens line with
  | "cfg" :: toks => ({ cfg := some (parseCfg toks), revs := [] }, "")
  | ["ev", x, f, s, g] => ev (mkEv x f s g false false "-" false)
  | ["ev", x, f, s, g, cf] => ev (mkEv x f s g (cf == "1") false "-" false)
  | ["ev", x, f, s, g, cf, gn] => ev (mkEv x f s g (cf == "1") (gn == "1") "-" false)
  | ["ev", x, f, s, g, cf, gn, cg] => ev (mkEv x f s g (cf == "1") (gn == "1") cg false)
  | ["ev", x, f, s, g, cf, gn, cg, ri] => ev (mkEv x f s g (cf == "1") (gn == "1") cg (ri == "1"))
  | ["fail", r] => ev { x := [], f := F64.zero, dual := r.toInt?.getD (-1) }
  | ["end"] =>
    match st.cfg with
    | some c => (st, showRes (run A c st.revs.reverse))
    | none => (st, "bad-op")
  | ["endsearch", r, n, x, m] =>
    match st.cfg with
    | some c =>
      match search A c (st.revs.reverse.filter fun e => !e.isFail) (r.toInt?.getD 0) (n.toNat?.getD 0) (pVec x) (pF m) with
      | some w => (st, "ok " ++ w)
      | none => (st, "no")
    | none => (st, "bad-op")
  | _ => (st, "bad-op")

end Nlopt.MmaDrv
