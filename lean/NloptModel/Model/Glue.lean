import NloptModel.Model.F64
/-!
  Glue at the evaluation sites: what NLopt-authored code does to a point proposed by a numeric core right
  before it is handed to the user's callback.  Every listed site ends with a comparison clamp against the
  ORIGINAL bounds; the proposal itself is an input (the numeric cores are not modelled).
-/
namespace Nlopt.Glue
open Nlopt

/-- `if (x < lb) x = lb; else if (x > ub) x = ub;` — COBYLA `func_wrap` (after unscaling), BOBYQA
    `clamp_to_bounds`, NEWUOA-bound, PRAXIS `x_bound`, Luksan projection, CRS mutation -/
def clampElse (lb ub x : F64) : F64 := if F64.lt x lb then lb else if F64.gt x ub then ub else x

/-- `if (x < lb) x = lb; if (x > ub) x = ub;` — Nelder-Mead `reflectpt`, COBYLA final point -/
def clampTwo (lb ub x : F64) : F64 :=
  let y := if F64.lt x lb then lb else x
  if F64.gt y ub then ub else y

def zip3 (f : F64 → F64 → F64 → F64) : List F64 → List F64 → List F64 → List F64
  | l :: lb, u :: ub, x :: xs => f l u x :: zip3 f lb ub xs
  | _, _, _ => []

/-- sites 102 (COBYLA), 103 (BOBYQA), 104 (NEWUOA with bounds), 107 (rescaled DIRECT, cdirect_uf), 108 (original DIRECT, f_direct): delivered point = clamp of the proposal -/
def clampSite (lb ub x : List F64) : List F64 := zip3 clampElse lb ub x

/-- NEWUOA without bounds (`lb == NULL`): the proposal is delivered as is -/
def passSite (x : List F64) : List F64 := x

def half : F64 := ⟨0x3FE0000000000000⟩

/-- one coordinate of `x_bound` (PRAXIS box transform, site 101), including the final clamp -/
def xBound1 (A : Arith) (lb ub t : F64) : F64 :=
  if !lb.isInf && !ub.isInf then
    let mid := A.mul (A.add lb ub) half
    let width := A.mul (A.sub ub lb) half
    clampElse lb ub (A.add mid (A.mul (A.tanh t) width))
  else if !lb.isInf then A.add lb (A.mul t t)
  else if !ub.isInf then A.sub ub (A.mul t t)
  else t

def xBound (A : Arith) (lb ub t : List F64) : List F64 := zip3 (xBound1 A) lb ub t

/-- coordinatewise box predicate on vectors -/
def inBox (lb ub x : List F64) : Bool :=
  x.length == lb.length && lb.length == ub.length &&
  (zip3 (fun l u v => if F64.inBox1 l u v then F64.one else F64.zero) lb ub x).all (· == F64.one)

/-- `pre_max` (optimize.c): the preconditioner handed to the algorithm when MAXIMIZING is the user's preconditioner with every
    component negated (the algorithm minimizes -f, whose approximate Hessian is -H) -/
def preMax (vpre : List F64) : List F64 := vpre.map F64.neg

end Nlopt.Glue
