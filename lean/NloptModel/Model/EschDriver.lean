import NloptModel.Model.F64
import NloptModel.Model.Stop
/-!
# Control-flow model of the ESCH driver (`chevolutionarystrategy`, src/algs/esch/esch.c)

`run A c evs` consumes the sequence of objective evaluations `evs` (the evaluated point, the returned value, whether the
callback raised `nlopt_force_stop` during the evaluation) and decides after every evaluation, exactly like the C code,
whether the run goes on or returns, with which `nlopt_result`, which point in the caller's `x` and which value in `*minf`.

## What the C code does (statement by statement)

    if (!np) np = 40;  if (!no) no = 60;
    if ((np < 1)||(no<1)) return NLOPT_INVALID_ARGS;          -- dead: np, no are unsigned and non-zero here
    ... allocate, fill both populations with random points (randcauchy) ...     -- proposer, NOT modelled
    memcpy(esparents[0].parameters, x, n)                      -- parent 0 IS the caller's start point
    for (id = 0; id < np; id++) {  EVAL(esparents[id]) }       -- parents fitness evaluation
    while (1) {
        crossover, mutation: overwrite EVERY coordinate of EVERY offspring         -- proposer, NOT modelled
        for (id = 0; id < no; id++) {  EVAL(esoffsprings[id]) } -- offspring fitness evaluation
        estotal = parents ++ offspring;  qsort(estotal, CompareIndividuals);
        parents = estotal[0..np), offspring = estotal[np..np+no)
    }
    done: free; return ret;

where `EVAL(ind)` is, in both loops, textually the same:

    ind.fitness = f(n, ind.parameters, NULL, data);  estotal[..].fitness = ind.fitness;
    ++ *(stop->nevals_p);
    if (*minf > ind.fitness) { *minf = ind.fitness; memcpy(x, ind.parameters, n); }       -- incumbent
    if (nlopt_stop_forced(stop)) ret = NLOPT_FORCED_STOP;                                  -- -5
    else if (*minf < stop->minf_max) ret = NLOPT_MINF_MAX_REACHED;                         --  2, STRICT `<`
    else if (nlopt_stop_evals(stop)) ret = NLOPT_MAXEVAL_REACHED;                          --  5
    else if (nlopt_stop_time(stop)) ret = NLOPT_MAXTIME_REACHED;                           --  out of scope (maxtime = 0)
    if (ret != NLOPT_SUCCESS) goto done;

Consequences that the model makes explicit (and Props/DrvEsch.lean proves):

* the incumbent `(x, *minf)` is tracked PER EVALUATION, not read off the sorted population, so neither `qsort`'s
  unspecified order among ties nor the inconsistency of `CompareIndividuals` on NaN fitness values
  (`a<b ? -1 : a>b ? 1 : 0` says "equal" for every comparison with a NaN, which is not a strict weak order) can influence
  `x`, `*minf`, the result code or the number of evaluations.  `run` therefore carries no population at all; `runPop`
  below is the same machine WITH both populations and an arbitrary function as sorting oracle, and
  `DrvEsch.runPop_res` proves that its result is `run`'s for EVERY oracle.
* `*minf > fitness` is false for a NaN fitness and for a NaN `*minf`: a NaN value never becomes the incumbent;
  `*minf` is READ before the driver ever writes it, so its value on entry (`Cfg.minf0`; `nlopt_optimize_` stores
  `HUGE_VAL` there) is part of the configuration.  If no evaluation returns a value below `minf0`, the driver returns
  with `x` and `*minf` untouched (`Res.minf = none`).
* the stopval test is on `*minf` (the incumbent), not on the value just returned, and is strict.
* ftol / xtol are never consulted; the only ways out are forced stop, stopval, maxeval (and maxtime, out of scope).
  `ret` is never `NLOPT_SUCCESS` (1), `FTOL` (3) or `XTOL` (4).
* order of the tests after an evaluation: incumbent update first (also when the callback raised force_stop), then
  forced stop, then stopval, then maxeval.

## Not modelled

* how points are proposed (random initial populations, single-point crossover, Cauchy mutation, `nlopt_iurand`), the
  clamping of nothing (ESCH does not clamp; `randcauchy` stays within the bounds by construction);
* allocation failure (`NLOPT_OUT_OF_MEMORY`, possible only before the first evaluation), `maxtime`;
* `unsigned`/`int` wrap-around of population sizes ≥ 2^31 (`nlopt_iurand((int) np)`);
* the wrapper `nlopt_optimize` (sign flip for maximisation, elimination of fixed dimensions): the events are what the
  driver itself passes to / gets from `f`.
* The force-stop flag is modelled per event (`Ev.forced`); the C flag is sticky, but the driver returns at the first
  evaluation during which it is found set, so only the first raised flag is ever observed.  A flag already set on entry is
  not modelled (`nlopt_optimize` clears it).

`Arith` is a parameter of `run` only for uniformity with the other drivers: ESCH's control flow performs no arithmetic
(only comparisons), so `run` does not depend on it (`DrvEsch.run_arith_irrelevant`).

## Line protocol (`nlopt_model esch`)

Tokens are separated by single spaces.  A double is the 16 lower-case hex digits of its bit pattern; a vector is a
comma-separated list of doubles, `-` for the empty vector.

    cfg <key>=<value> ...    start a new run (configuration reset to defaults, collected events dropped); prints nothing.
        n=<nat>              dimension (informative only; default 0)
        pop=<nat>            `opt->stochastic_population` as passed by nlopt_optimize_:
                             np = pop, no = (unsigned)(pop*1.5) = ⌊3·pop/2⌋   (default 0 → np = 40, no = 60)
        np=<nat> no=<nat>    the two driver arguments directly (override `pop` if given AFTER it; 0 = default 40 / 60)
        maxeval=<int>        `stop->maxeval` (default 0 = none)
        stopval=<f64>        `stop->minf_max` (default fff0000000000000 = -inf)
        x0=<vec>             the caller's x on entry (default `-`)
        minf0=<f64>          `*minf` on entry (default 7ff0000000000000 = +inf, what nlopt_optimize_ stores)
        ftol_rel= ftol_abs= xtol_rel= xtol_abs= xw= maxtime= ... any other key: accepted and ignored (ESCH reads none)
        a malformed value of a known key makes the whole line `bad-op` (state unchanged).
    ev <xvec> <f> <0|1>      append an event (point, value, forced flag); prints nothing; malformed → `bad-op`
    end                      run the model on the collected events, print
                             `<ret> <nevals> <xvec> <minf hex or -> <short 0|1>`
                             (`-` for minf: `*minf` was never written, memory still holds minf0; ret is 0 when short = 1).
                             The collected events and the configuration are kept (a second `end` prints the same).
    anything else            `bad-op`

Worked example (np = no = 1, maxeval 3; values 5.0, 7.0, 2.0 at points 1.0, 2.0, 3.0):

    cfg n=1 pop=1 maxeval=3 x0=3ff0000000000000
    ev 3ff0000000000000 4014000000000000 0
    ev 4000000000000000 401c000000000000 0
    ev 4008000000000000 4000000000000000 0
    end
    → 5 3 4008000000000000 4000000000000000 0
-/
namespace Nlopt.EschDrv
open Nlopt

/-- one objective evaluation made by the driver -/
structure Ev where
  /-- the point handed to the objective -/
  x : List F64
  /-- the value it returned -/
  f : F64
  /-- the callback raised `nlopt_force_stop` during THIS evaluation -/
  forced : Bool
  deriving DecidableEq, Inhabited

/-- everything the control flow reads -/
structure Cfg where
  /-- dimension (not read by the control flow) -/
  n : Nat := 0
  /-- argument `np` of `chevolutionarystrategy` (0 = default 40) -/
  np : Nat := 0
  /-- argument `no` (0 = default 60) -/
  no : Nat := 0
  /-- `stop->maxeval` -/
  maxeval : Int := 0
  /-- `stop->minf_max` -/
  stopval : F64 := F64.negInf
  /-- the caller's `x` on entry -/
  x0 : List F64 := []
  /-- `*minf` on entry (`HUGE_VAL` when called from `nlopt_optimize_`) -/
  minf0 : F64 := F64.posInf
  deriving DecidableEq, Inhabited

structure Res where
  /-- nlopt_result: 2 MINF_MAX_REACHED, 5 MAXEVAL_REACHED, -5 FORCED_STOP, -2 INVALID_ARGS (dead); 0 when `short` -/
  ret : Int
  /-- number of events consumed = objective evaluations made -/
  nevals : Nat
  /-- the caller's `x` on return -/
  x : List F64
  /-- `*minf` on return; `none` = the driver never wrote it (memory still holds `Cfg.minf0`) -/
  minf : Option F64
  /-- the event list ran out before the driver returned -/
  short : Bool
  deriving DecidableEq, Inhabited

/-- `if (!np) np = 40;` -/
def npEff (c : Cfg) : Nat := if c.np = 0 then 40 else c.np
/-- `if (!no) no = 60;` -/
def noEff (c : Cfg) : Nat := if c.no = 0 then 60 else c.no

/-- program counter: which evaluation loop the driver is in and the loop index of the NEXT evaluation -/
inductive Phase where
  /-- `for (id=0; id < np; id++)` parents fitness evaluation, about to evaluate `esparents[id]` -/
  | parents (id : Nat)
  /-- inside `while (1)`: offspring fitness evaluation, about to evaluate `esoffsprings[id]` -/
  | offspring (id : Nat)
  deriving DecidableEq, Inhabited

structure St where
  /-- caller's `x` -/
  x : List F64
  /-- `*minf` -/
  minf : F64
  /-- has the driver written `x` / `*minf` yet -/
  wrote : Bool
  /-- `*(stop->nevals_p)` -/
  nev : Nat
  phase : Phase
  /-- number of completed generations (= executed sorts) -/
  gen : Nat
  deriving DecidableEq, Inhabited

/-- state on entry, after the populations have been allocated and filled -/
def init (c : Cfg) : St :=
  { x := c.x0, minf := c.minf0, wrote := false, nev := 0, phase := .parents 0, gen := 0 }

/-- `++ *(stop->nevals_p); if (*minf > fitness) { *minf = fitness; memcpy(x, parameters); }` -/
def incumbent (st : St) (e : Ev) : St :=
  if F64.gt st.minf e.f then { st with nev := st.nev + 1, minf := e.f, x := e.x, wrote := true }
  else { st with nev := st.nev + 1 }

/-- the `if … else if …` chain after the incumbent update; `none` = `ret` stays `NLOPT_SUCCESS`, the loop goes on -/
def check (c : Cfg) (st : St) (e : Ev) : Option Int :=
  if e.forced then some (-5)
  else if F64.lt st.minf c.stopval then some 2
  else if Stop.evals c.maxeval st.nev then some 5
  else none

/-- loop bookkeeping after an evaluation that did not stop: next index of the current `for`, or fall through to the next
    loop (after the last parent: crossover + mutation, then offspring 0; after the last offspring: selection (sort), next
    generation, crossover + mutation, offspring 0) -/
def advance (c : Cfg) (st : St) : St :=
  match st.phase with
  | .parents id =>
    if id + 1 < npEff c then { st with phase := .parents (id + 1) } else { st with phase := .offspring 0 }
  | .offspring id =>
    if id + 1 < noEff c then { st with phase := .offspring (id + 1) }
    else { st with phase := .offspring 0, gen := st.gen + 1 }

def mkRes (ret : Int) (st : St) (short : Bool) : Res :=
  { ret := ret, nevals := st.nev, x := st.x, minf := if st.wrote then some st.minf else none, short := short }

inductive Out where
  | running (st : St)
  | done (r : Res)
  deriving DecidableEq, Inhabited

/-- one evaluation -/
def step (c : Cfg) (st : St) (e : Ev) : Out :=
  let st1 := incumbent st e
  match check c st1 e with
  | some r => .done (mkRes r st1 false)
  | none => .running (advance c st1)

def feed (c : Cfg) : St → List Ev → Out
  | st, [] => .running st
  | st, e :: es =>
    match step c st e with
    | .running st' => feed c st' es
    | .done r => .done r

def finish : Out → Res
  | .running st => mkRes 0 st true
  | .done r => r

/-- The driver.  `A` is unused (no arithmetic in ESCH's control flow). -/
def run (_A : Arith) (c : Cfg) (evs : List Ev) : Res :=
  if npEff c < 1 ∨ noEff c < 1 then
    { ret := -2, nevals := 0, x := c.x0, minf := none, short := false }      -- dead code in C as well
  else finish (feed c (init c) evs)

/-- the events the run actually consumed -/
def consumed (A : Arith) (c : Cfg) (evs : List Ev) : List Ev := evs.take (run A c evs).nevals

/-- what the memory cell `*minf` holds on return -/
def Res.minfMem (c : Cfg) (r : Res) : F64 := r.minf.getD c.minf0

/-! ## The same machine with the populations and a sorting oracle

`Ind` = `Individual` (parameters, fitness).  `none` = a slot whose fitness has not been assigned yet (its parameters are
the random initial point, which the model does not know before it is evaluated).  The oracle `sortO g l` is what
`nlopt_qsort_r` makes of `estotal = l` in generation `g`: ANY function (so: any tie order, any behaviour on the
inconsistent NaN comparisons).  Crossover and mutation overwrite every coordinate of every offspring, so after the sort
the offspring slots only keep stale values until they are re-evaluated. -/

structure Ind where
  x : List F64
  f : F64
  deriving DecidableEq, Inhabited

structure PSt where
  base : St
  parents : List (Option Ind)
  offs : List (Option Ind)
  deriving Inhabited

def initPop (c : Cfg) : PSt :=
  { base := init c, parents := List.replicate (npEff c) none, offs := List.replicate (noEff c) none }

/-- `ind.fitness = f(ind.parameters)` into the slot the program counter points at -/
def store (p : PSt) (e : Ev) : PSt :=
  match p.base.phase with
  | .parents id => { p with parents := p.parents.set id (some { x := e.x, f := e.f }) }
  | .offspring id => { p with offs := p.offs.set id (some { x := e.x, f := e.f }) }

/-- selection, executed when the last offspring of a generation has been evaluated without stopping -/
def select (c : Cfg) (sortO : Nat → List (Option Ind) → List (Option Ind)) (p : PSt) : PSt :=
  match p.base.phase with
  | .parents _ => p
  | .offspring id =>
    if id + 1 < noEff c then p
    else
      let sorted := sortO p.base.gen (p.parents ++ p.offs)
      { p with parents := sorted.take (npEff c), offs := sorted.drop (npEff c) }

inductive POut where
  | running (p : PSt)
  | done (r : Res) (p : PSt)

def stepPop (c : Cfg) (sortO : Nat → List (Option Ind) → List (Option Ind)) (p : PSt) (e : Ev) : POut :=
  let p1 := store p e
  let st1 := incumbent p1.base e
  match check c st1 e with
  | some r => .done (mkRes r st1 false) { p1 with base := st1 }
  | none =>
    let p2 := select c sortO { p1 with base := st1 }
    .running { p2 with base := advance c st1 }

def feedPop (c : Cfg) (sortO : Nat → List (Option Ind) → List (Option Ind)) : PSt → List Ev → POut
  | p, [] => .running p
  | p, e :: es =>
    match stepPop c sortO p e with
    | .running p' => feedPop c sortO p' es
    | .done r p' => .done r p'

def POut.res : POut → Res
  | .running p => mkRes 0 p.base true
  | .done r _ => r

def POut.pop : POut → PSt
  | .running p => p
  | .done _ p => p

/-- result and final populations of the machine with populations -/
def runPop (_A : Arith) (c : Cfg) (sortO : Nat → List (Option Ind) → List (Option Ind)) (evs : List Ev) : Res × PSt :=
  let o := feedPop c sortO (initPop c) evs
  (o.res, o.pop)

/-! ## Line protocol -/

def parseVec? (t : String) : Option (List F64) :=
  if t == "-" then some [] else (t.splitOn ",").mapM F64.ofHex?

def vecStr (l : List F64) : String := if l.isEmpty then "-" else ",".intercalate (l.map F64.toHex)

def setKey (c : Cfg) (k v : String) : Option Cfg :=
  match k with
  | "n" => v.toNat?.map fun n => { c with n := n }
  | "pop" => v.toNat?.map fun p => { c with np := p, no := p * 3 / 2 }
  | "np" => v.toNat?.map fun p => { c with np := p }
  | "no" => v.toNat?.map fun p => { c with no := p }
  | "maxeval" => v.toInt?.map fun m => { c with maxeval := m }
  | "stopval" => (F64.ofHex? v).map fun s => { c with stopval := s }
  | "minf0" => (F64.ofHex? v).map fun s => { c with minf0 := s }
  | "x0" => (parseVec? v).map fun x => { c with x0 := x }
  | _ => some c

def parseCfg : Cfg → List String → Option Cfg
  | c, [] => some c
  | c, t :: ts =>
    match t.splitOn "=" with
    | [k, v] => (setKey c k v).bind fun c' => parseCfg c' ts
    | _ => none

structure DrvSt where
  cfg : Cfg := {}
  /-- collected events, newest first -/
  evs : List Ev := []
  deriving Inhabited

def resLine (r : Res) : String :=
  let m := match r.minf with | some m => m.toHex | none => "-"
  s!"{r.ret} {r.nevals} {vecStr r.x} {m} {if r.short then 1 else 0}"

def drvStep (A : Arith) (st : DrvSt) (line : String) : DrvSt × String :=
  match (line.trimAscii.toString.splitOn " ").filter (· ≠ "") with
  | "cfg" :: kvs =>
    match parseCfg {} kvs with
    | some c => ({ cfg := c, evs := [] }, "")
    | none => (st, "bad-op")
  | ["ev", xs, f, fl] =>
    match parseVec? xs, F64.ofHex? f, (if fl == "0" then some false else if fl == "1" then some true else none) with
    | some x, some fv, some b => ({ st with evs := { x := x, f := fv, forced := b } :: st.evs }, "")
    | _, _, _ => (st, "bad-op")
  | ["end"] => (st, resLine (run A st.cfg st.evs.reverse))
  | _ => (st, "bad-op")

end Nlopt.EschDrv
