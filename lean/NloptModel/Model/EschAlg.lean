import NloptModel.Model.Run
import NloptModel.Model.EschDriver
/-!
# The ESCH driver as an algorithm machine (`Alg`)

`Model/EschDriver.lean` is a control-flow model that CONSUMES a list of evaluations; `Model/Run.lean` / `Model/Wrap.lean`
talk about machines that ISSUE queries to an environment (the user's callbacks behind the wrapper stack of
`nlopt_optimize`).  `EschAlg.mk P c` is the bridge: the `EschDrv` state machine, driven by the answers of the
environment, with the points supplied by a proposer `P`.

* The first point is the caller's `x` (`c.x0`): `memcpy(esparents[0].parameters, x, n)`.
* Every later point comes from `P`, an ARBITRARY state machine (arbitrary state type) that is shown the driver state
  after the bookkeeping of the evaluation just made, the point just evaluated and the complete answer; this stands for the
  random initialisation of both populations, recombination, mutation and the selection sort, none of which is modelled.
  Since the proposer's state type is arbitrary, "an arbitrary function of everything seen so far" is an instance
  (`Proposer.ofHistory`).
* Every query is `{ fn := .obj, x := point, wantGrad := false }` (`f(n, parameters, NULL, data)`).
* After an answer the machine does exactly `EschDrv.step`: incumbent update, then the chain forced stop / stopval /
  maxeval; if the chain fires it returns the `AlgResult` dictated by the `EschDrv.Res`: `ret`, `x`,
  `minf := Res.minfMem` (what the memory cell `*minf` holds), `numevals := nevals`.

## The force-stop flag as the algorithm sees it

`Answer.stop = some v` means: during this invocation the callback called `nlopt_set_force_stop(opt, v)`; the wrappers
pass the field through unchanged (`WrapProps.stop_request_forwarded`).  `nlopt_stop_forced` is
`stop->force_stop && *(stop->force_stop)`, i.e. "the flag is NON-ZERO"; Wrap.lean models the same test in the `n = 0`
shortcut (`some s => if s ≠ 0 then FORCED_STOP else SUCCESS`).  `nlopt_optimize` clears the flag on entry and the driver
returns at the first evaluation after which it reads non-zero, so the flag read after an evaluation is the value set
during THAT evaluation (or still 0): `forcedOf a = match a.stop with | some s => s ≠ 0 | none => false`.
`nlopt_set_force_stop(opt, 0)` is therefore not a stop request.

The value of an evaluation is the single entry of `Answer.val` (`valOf`; NaN if the environment hands back no value at
all, which never happens behind the wrappers for a user that returns one value: `WrapLemmas.ansOf_val`).
-/
namespace Nlopt.EschAlg
open Nlopt Nlopt.EschDrv

/-- the value the objective returned (`Answer.val` is a singleton for a scalar function) -/
def valOf (a : Answer) : F64 := a.val.headD F64.qnan

/-- `nlopt_stop_forced(stop)` right after the evaluation that produced `a` -/
def forcedOf (a : Answer) : Bool :=
  match a.stop with
  | some s => decide (s ≠ 0)
  | none => false

/-- the `EschDrv` event of one (query, answer) pair of a trace -/
def evOf (p : Query × Answer) : Ev := { x := p.1.x, f := valOf p.2, forced := forcedOf p.2 }

/-- the `EschDrv` events of a trace -/
def events (tr : List (Query × Answer)) : List Ev := tr.map evOf

/-- `f(n, parameters, NULL, data)` -/
def qOf (x : List F64) : Query := { fn := .obj, x := x, wantGrad := false }

/-- The unmodelled part of ESCH (random initial populations, crossover, mutation, sort): an arbitrary state machine.
    `next ps st x a`: `st` = driver state after the bookkeeping of the evaluation just made, `x` = the point just
    evaluated, `a` = the complete answer; returns the new proposer state and the NEXT point to evaluate. -/
structure Proposer where
  PS : Type
  init : PS
  next : PS → EschDrv.St → List F64 → Answer → PS × List F64

/-- an arbitrary function of the whole history (all (point, answer) pairs so far, oldest first) is a proposer -/
def Proposer.ofHistory (g : List (List F64 × Answer) → List F64) : Proposer :=
  { PS := List (List F64 × Answer), init := [],
    next := fun h _ x a => (h ++ [(x, a)], g (h ++ [(x, a)])) }

/-- state of the machine: driver state, proposer state, the point of the outstanding (or first) query -/
structure S (P : Proposer) where
  drv : EschDrv.St
  ps : P.PS
  cur : List F64

/-- what `chevolutionarystrategy` hands back, as an `AlgResult` -/
def toAlgResult (c : Cfg) (r : Res) : AlgResult :=
  { ret := r.ret, x := r.x, minf := r.minfMem c, numevals := r.nevals }

def stepS (P : Proposer) (c : Cfg) (s : S P) : Option Answer → S P × (Query ⊕ AlgResult)
  | none => (s, .inl (qOf s.cur))                    -- entry: evaluate the caller's start point (parent 0)
  | some a =>
    match EschDrv.step c s.drv (evOf (qOf s.cur, a)) with
    | .done r => (s, .inr (toAlgResult c r))
    | .running st' =>
      let pn := P.next s.ps st' s.cur a
      ({ drv := st', ps := pn.1, cur := pn.2 }, .inl (qOf pn.2))

/-- The ESCH driver as an `Alg`. -/
@[reducible] def mk (P : Proposer) (c : Cfg) : Alg :=
  { S := S P,
    init := { drv := EschDrv.init c, ps := P.init, cur := c.x0 },
    step := stepS P c }

end Nlopt.EschAlg
